(* C08/PassA.v — the unconditional invariant and output facts of every handler:
   credentials only after 'sasl' was acknowledged, CAP END at most once per
   connection, requested capabilities advertised and wanted, echo-message only
   with labeled-response, STS policies stored only over a secure link *)
From Coq Require Import List NArith ZArith Bool Arith Lia.
Import ListNotations.
Require Import Base.Wire Base.PyStr C08.Model C08.Frame.
Open Scope N_scope.

Record InvA (s : st) : Prop := {
  a_ack : smem s_sasl (ack s) = true -> g_acked s = true;
  a_sasl : mem (fsm s) saslst = true -> g_acked s = true;
  a_ends : (g_ends s <= 1)%nat;
  a_late : g_ends s = 1%nat -> mem (fsm s) late = true
}.

Definition OutA (c : cfg) (o : outev) : Prop :=
  match o with
  | SendCred _ b => b = true
  | GReq caps adv acked =>
      (forall x, In x caps -> smem x (c_wanted c) = true /\ In x adv) /\
      (smem s_echo caps = true -> smem s_label acked = true \/ exists rest, caps = s_echo :: s_label :: rest)
  | GEnd n _ _ => n = 1%nat
  | StoreSts _ _ => c_secure c = true
  | _ => True
  end.

Section A.
Variable c : cfg.
Notation ok := (okR InvA (OutA c)).

Ltac okstep :=
  match goal with
  | |- okR _ _ (ret _) => apply ok_ret
  | |- okR _ _ (raise _ _) => apply ok_raise
  | |- okR _ _ (_ >>> _) => apply ok_andthen; [|intros ? ?]
  | |- okR _ _ (if ?b then _ else _) => destruct b eqn:?
  | |- okR _ _ (match ?x with _ => _ end) => destruct x eqn:?
  | |- okR _ _ (let '(_, _) := ?x in _) => destruct x eqn:?
  end.

Lemma InvA_fresh z : InvA (fresh c z).
Proof. split; cbn; intros; try discriminate; lia. Qed.

Lemma ok_send s cmd args : InvA s -> ok (send s cmd args).
Proof. intro H. apply ok_emit; [exact H|exact Logic.I]. Qed.

(* a transition through a table that never enters a SASL state *)
Lemma ok_transition tbl s :
  late_closed tbl = true -> avoids_sasl tbl = true -> InvA s -> ok (transition tbl s).
Proof.
  intros Hl Ha [A1 A2 A3 A4]. unfold transition. destruct (fire tbl (fsm s)) as [t|] eqn:Ef.
  - apply ok_ret. split; cbn [set_fsm ack g_acked fsm g_ends].
    + exact A1.
    + intro H. rewrite (avoids_sasl_fire _ _ _ Ha Ef) in H. discriminate.
    + exact A3.
    + intro H. eapply late_closed_fire; [exact Hl|exact Ef|apply A4; exact H].
  - apply ok_raise. split; assumption.
Qed.

Lemma ok_transition_sasl s :
  g_acked s = true -> InvA s -> ok (transition gen.T08.EV_on_sasl_cap s).
Proof.
  intros Hg [A1 A2 A3 A4]. unfold transition. destruct (fire gen.T08.EV_on_sasl_cap (fsm s)) as [t|] eqn:Ef.
  - apply ok_ret. split; cbn [set_fsm ack g_acked fsm g_ends]; auto.
    intro H. destruct tables_late_closed as [_ [Hl _]]. eapply late_closed_fire; [exact Hl|exact Ef|apply A4; exact H].
  - apply ok_raise. split; assumption.
Qed.

Lemma ok_expect l s : InvA s -> ok (expect l s).
Proof. intro H. unfold expect. destruct (mem (fsm s) l); [apply ok_ret|apply ok_raise]; exact H. Qed.

Lemma ok_queue_connect s : InvA s -> ok (queue_connect c s).
Proof.
  intro H. unfold queue_connect. destruct tables_late_closed as [L1 _]. destruct tables_avoid_sasl as [S1 _].
  repeat (first [okstep | apply ok_send | apply ok_transition | apply ok_emit | assumption | exact Logic.I]).
Qed.

Lemma ok_reset s : ok (reset c s).
Proof. unfold reset. apply ok_queue_connect. apply InvA_fresh. Qed.

Lemma ok_reconnect s srv w : InvA s -> ok (reconnect c s srv w).
Proof.
  intro H. unfold reconnect. apply ok_andthen; [apply ok_emit; [exact H|exact Logic.I]|]. intros s1 _. apply ok_reset.
Qed.

Lemma ok_endCap s : InvA s -> ok (endCap c s).
Proof.
  intro H. unfold endCap.
  destruct (required_unauth c s); [apply ok_reconnect; exact H|].
  destruct (outstanding s); [|apply ok_ret; exact H].
  destruct H as [A1 A2 A3 A4]. unfold transition.
  destruct (fire gen.T08.EV_on_cap_end (fsm s)) as [t|] eqn:Ef; [|apply ok_raise; split; assumption].
  destruct (cap_end_fire _ _ Ef) as [Hnl [Htl Hns]].
  assert (Hg0 : g_ends s = 0%nat).
  { destruct (g_ends s) as [|[|n]] eqn:E; [reflexivity| |lia]. rewrite (A4 eq_refl) in Hnl. discriminate. }
  cbn [ret andthen]. cbn [set_fsm g_ends req ack nak ls fsm snext scur authed dec after zombie g_acked].
  cbn [emit andthen app]. unfold send, emit. cbn [andthen app].
  split; cbn [rstate routs fst snd].
  - split; cbn [set_fsm ack g_acked fsm g_ends].
    + exact A1.
    + intro H. pose proof tables_avoid_sasl as [_ [_ [Hs _]]]. rewrite (avoids_sasl_fire _ _ _ Hs Ef) in H. discriminate.
    + rewrite Hg0. lia.
    + intros _. exact Htl.
  - constructor; [cbn; rewrite Hg0; reflexivity|]. constructor; [exact Logic.I|constructor].
Qed.

Lemma InvA_with_sasl s nx cur : InvA s -> InvA (with_sasl s nx cur).
Proof. intros [A1 A2 A3 A4]. split; assumption. Qed.
Lemma InvA_set_dec s d : InvA s -> InvA (set_dec s d).
Proof. intros [A1 A2 A3 A4]. split; assumption. Qed.
Lemma InvA_set_after s : InvA s -> InvA (set_after s).
Proof. intros [A1 A2 A3 A4]. split; assumption. Qed.

Lemma InvA_set_caps s l rq ak nk : InvA s -> InvA (set_caps s l rq ak nk).
Proof.
  intros [A1 A2 A3 A4]. split; cbn [set_caps ack g_acked fsm g_ends]; auto.
  - intro H. rewrite H. apply orb_true_r.
  - intro H. rewrite (A2 H). reflexivity.
Qed.

Lemma ok_tryNextSasl s : InvA s -> ok (tryNextSasl c s).
Proof.
  intro H. unfold tryNextSasl. destruct tables_late_closed as [_ [_ [L3 _]]]. destruct tables_avoid_sasl as [_ [S2 _]].
  okstep; [apply ok_expect; exact H|].
  okstep.
  - okstep; [apply ok_reconnect; assumption|].
    okstep; [apply ok_transition; try assumption; apply InvA_with_sasl; assumption|].
    okstep; [apply ok_endCap; assumption|apply ok_ret; assumption].
  - apply ok_send. apply InvA_with_sasl. assumption.
Qed.

Lemma ok_maybeStartSasl s : InvA s -> ok (maybeStartSasl c s).
Proof.
  intro H. unfold maybeStartSasl. okstep; [|okstep; [apply ok_endCap|apply ok_ret]; exact H].
  match goal with E : _ && _ = true |- _ => apply andb_true_iff in E as [_ Hsm] end.
  okstep; [apply ok_transition_sasl; [apply (a_ack _ H); exact Hsm|exact H]|].
  okstep; [|apply ok_raise; assumption].
  apply ok_tryNextSasl. destruct o; [apply InvA_with_sasl|]; assumption.
Qed.

Lemma ok_capUpkeep s : InvA s -> ok (capUpkeep c s).
Proof.
  intro H. unfold capUpkeep. okstep; [apply ok_expect; exact H|].
  repeat (first [okstep | apply ok_reconnect | apply ok_maybeStartSasl | apply ok_endCap | assumption]).
Qed.

Lemma ok_onCapSts s policy : InvA s -> ok (onCapSts c s policy).
Proof.
  intro H. unfold onCapSts. destruct tables_late_closed as [_ [_ [_ [_ [_ [_ L7]]]]]].
  destruct tables_avoid_sasl as [_ [_ [_ [_ [_ S7]]]]].
  okstep; [|apply ok_ret; exact H].
  okstep.
  - apply ok_emit; [exact H|]. cbn. assumption.
  - okstep; [apply ok_transition; assumption|]. apply ok_reconnect. assumption.
Qed.

Lemma ok_addCapabilities items : forall s, InvA s -> ok (addCapabilities c items s).
Proof.
  induction items as [|item items IH]; intros s H; cbn [addCapabilities]; [apply ok_ret; exact H|].
  apply ok_andthen; [|intros s1 H1; apply IH; exact H1].
  okstep.
  - destruct p as [cap value]. okstep.
    + okstep; [apply ok_onCapSts; exact H|apply ok_ret; exact H].
    + apply ok_ret. unfold set_ls. apply InvA_set_caps. assumption.
  - okstep.
    + okstep; [apply ok_reconnect; exact H|apply ok_ret; exact H].
    + apply ok_ret. unfold set_ls. apply InvA_set_caps. assumption.
Qed.
End A.

Section A2.
Variable c : cfg.
Notation ok := (okR InvA (OutA c)).

Ltac okstep :=
  match goal with
  | |- okR _ _ (ret _) => apply ok_ret
  | |- okR _ _ (raise _ _) => apply ok_raise
  | |- okR _ _ (_ >>> _) => apply ok_andthen; [|intros ? ?]
  | |- okR _ _ (if ?b then _ else _) => destruct b eqn:?
  | |- okR _ _ (match ?x with _ => _ end) => destruct x eqn:?
  end.

Lemma new_caps_sound s x :
  In x (new_caps c s) -> smem x (c_wanted c) = true /\ In x (map fst (ls s)).
Proof.
  unfold new_caps, sdiff. intro H. apply filter_In in H as [H _]. apply filter_In in H as [H1 H2]. auto.
Qed.

Lemma ok_requestCaps s caps0 :
  InvA s -> (forall x, In x caps0 -> smem x (c_wanted c) = true /\ In x (map fst (ls s))) ->
  ok (requestCaps s caps0).
Proof.
  intros H Hc. unfold requestCaps, request_list. cbv zeta.
  set (sorted := sort_strs caps0).
  set (caps := if smem s_echo sorted && negb (smem s_label (ack s))
               then (if smem s_label (sremove s_echo sorted)
                     then s_echo :: s_label :: sremove s_label (sremove s_echo sorted)
                     else sremove s_echo sorted)
               else sorted).
  assert (Hsub : forall x, In x caps -> In x caps0).
  { intros x Hx. unfold caps in Hx.
    destruct (smem s_echo sorted && negb (smem s_label (ack s))) eqn:E.
    - apply andb_true_iff in E as [E1 _]. apply smem_In in E1.
      destruct (smem s_label (sremove s_echo sorted)) eqn:E2.
      + apply smem_In in E2. apply In_sremove in E2.
        destruct Hx as [Hx|[Hx|Hx]]; subst; [apply In_sort_strs; exact E1|apply In_sort_strs; exact E2|].
        apply In_sort_strs. apply In_sremove in Hx. apply In_sremove in Hx. exact Hx.
      + apply In_sort_strs. apply In_sremove in Hx. exact Hx.
    - apply In_sort_strs. exact Hx. }
  apply ok_fold.
  - apply ok_emit; [apply InvA_set_caps; exact H|]. cbn [OutA]. split.
    + intros x Hx. apply Hc. apply Hsub. exact Hx.
    + intro He. unfold caps in *.
      destruct (smem s_echo sorted && negb (smem s_label (ack s))) eqn:E.
      * destruct (smem s_label (sremove s_echo sorted)) eqn:E2; [right; eexists; reflexivity|].
        rewrite smem_sremove_same in He. discriminate.
      * rewrite He in E. cbn [andb] in E. apply negb_false_iff in E. left. exact E.
  - intros s1 line H1. apply ok_emit; [exact H1|exact Logic.I].
Qed.

Lemma ok_doCapLs s args : InvA s -> ok (doCapLs c s args).
Proof.
  intro H. unfold doCapLs.
  destruct args as [|a0 [|a1 [|a2 [|a3 [|a4 r]]]]]; try (apply ok_ret; exact H).
  - okstep; [apply ok_addCapabilities; exact H|].
    okstep; [apply ok_ret; assumption|].
    okstep; [apply ok_expect; assumption|].
    destruct (new_caps c s1) as [|x nc] eqn:En; [apply ok_endCap; assumption|].
    okstep; [apply ok_requestCaps; [assumption|]; intros y Hy; apply new_caps_sound; rewrite En; exact Hy|].
    okstep; [apply ok_ret|apply ok_endCap]; assumption.
  - okstep; [apply ok_ret; exact H|apply ok_addCapabilities; exact H].
Qed.

Lemma ok_doCapAck s args : InvA s -> ok (doCapAck c s args).
Proof.
  intro H. unfold doCapAck.
  destruct args as [|a0 [|a1 [|a2 [|a3 r]]]]; try (apply ok_ret; exact H).
  destruct (words a2); [apply ok_raise; exact H|]. apply ok_capUpkeep. apply InvA_set_caps. exact H.
Qed.

Lemma ok_doCapNak s args : InvA s -> ok (doCapNak c s args).
Proof.
  intro H. unfold doCapNak.
  destruct args as [|a0 [|a1 [|a2 [|a3 r]]]]; try (apply ok_ret; exact H).
  destruct (words a2); [apply ok_raise; exact H|]. apply ok_capUpkeep. apply InvA_set_caps. exact H.
Qed.

Lemma InvA_del s cap : InvA s ->
  InvA (St (fsm s) (ddel cap (ls s)) (req s) (sremove cap (ack s)) (nak s) (snext s) (scur s) (authed s)
           (dec s) (after s) (zombie s) (g_acked s) (g_ends s)).
Proof.
  intros [A1 A2 A3 A4]. split; cbn [ack g_acked fsm g_ends]; auto.
  intro Hs. apply A1. apply smem_In. apply smem_In in Hs. eapply In_sremove. exact Hs.
Qed.

Lemma ok_doCapDel s args : InvA s -> ok (doCapDel s args).
Proof.
  intro H. unfold doCapDel.
  destruct args as [|a0 [|a1 [|a2 [|a3 r]]]]; try (apply ok_ret; exact H).
  destruct (words a2) as [|w ws]; [apply ok_raise; exact H|]. apply ok_ret.
  generalize (w :: ws). intro l. revert s H. induction l as [|x l IH]; intros s H; [exact H|].
  cbn [fold_left]. apply IH. apply InvA_del. exact H.
Qed.

Lemma ok_doCapNew s args : InvA s -> ok (doCapNew c s args).
Proof.
  intro H. unfold doCapNew.
  destruct args as [|a0 [|a1 [|a2 [|a3 r]]]]; try (apply ok_ret; exact H).
  destruct (words a2) as [|w ws] eqn:Ew; [apply ok_raise; exact H|].
  okstep; [apply ok_addCapabilities; exact H|].
  okstep; [apply ok_ret; assumption|].
  destruct (new_caps c s0) as [|x nc] eqn:En; [apply ok_ret; assumption|].
  apply ok_requestCaps; [assumption|]. intros y Hy. apply new_caps_sound. rewrite En. exact Hy.
Qed.

Lemma ok_send_chunks s chunks : InvA s -> g_acked s = true -> ok (send_chunks s chunks).
Proof.
  intros H Hg. unfold send_chunks.
  apply (okR_mono (fun s => InvA s /\ g_acked s = true) InvA (OutA c) (OutA c)); [tauto|auto|].
  apply ok_fold.
  - apply ok_ret. split; assumption.
  - intros s1 ch [H1 Hg1]. apply ok_emit; [split; assumption|]. cbn. exact Hg1.
Qed.

Lemma ok_doAuthenticate s args b64ok empty : InvA s -> ok (doAuthenticate c s args b64ok empty).
Proof.
  intro H. unfold doAuthenticate, expect.
  destruct (mem (fsm s) gen.T08.EXPECT_doAuthenticate) eqn:Ex; [|rewrite andthen_raise; apply ok_raise; exact H].
  rewrite andthen_ret.
  assert (Hg : g_acked s = true).
  { apply (a_sasl _ H). pose proof expect_auth_sasl as Hs. rewrite forallb_forall in Hs.
    apply Hs. apply mem_In. exact Ex. }
  destruct args as [|chunk rest]; [apply ok_raise; apply InvA_set_dec; exact H|].
  destruct (match dec s with Some d => d | None => ([], false) end) as [chunks ready].
  repeat (first [ okstep
                | apply ok_send_chunks; [apply InvA_set_dec; assumption|exact Hg]
                | apply ok_send; apply InvA_set_dec; assumption
                | apply InvA_set_dec; assumption
                | assumption ]).
Qed.

Lemma ok_do903 s : InvA s -> ok (do903 c s).
Proof.
  intro H. unfold do903. destruct tables_late_closed as [_ [_ [L3 _]]]. destruct tables_avoid_sasl as [_ [S2 _]].
  okstep.
  - apply ok_transition; try assumption. destruct H as [A1 A2 A3 A4]. split; assumption.
  - okstep; [apply ok_endCap; assumption|apply ok_ret; assumption].
Qed.

Lemma ok_do908 s args : InvA s -> ok (do908 s args).
Proof. intro H. unfold do908. destruct args as [|a [|b r]]; apply ok_raise; exact H. Qed.

Lemma ok_do376 s : InvA s -> ok (do376 c s).
Proof.
  intro H. unfold do376. destruct tables_late_closed as [_ [_ [_ [_ [_ [L6 _]]]]]]. destruct tables_avoid_sasl as [_ [_ [_ [_ [S5 _]]]]].
  okstep; [apply ok_reconnect; exact H|].
  okstep; [apply ok_transition; assumption|].
  okstep; [apply ok_send|apply ok_ret]; apply InvA_set_after; assumption.
Qed.

Lemma ok_doError s args : InvA s -> ok (doError c s args).
Proof.
  intro H. unfold doError. destruct args as [|t r]; [apply ok_raise; exact H|].
  repeat (first [okstep | apply ok_reconnect | assumption]).
Qed.

Theorem ok_step s m : InvA s -> ok (step c s m).
Proof.
  intro H. destruct tables_late_closed as [_ [_ [_ [_ [L5 _]]]]]. destruct tables_avoid_sasl as [_ [_ [_ [S4 _]]]].
  destruct m as [args|args b64ok empty|code args|args|args|]; cbn [step].
  - destruct (cap_sub args) as [sub|]; [|apply ok_ret; exact H].
    repeat (first [okstep | apply ok_doCapLs | apply ok_doCapAck | apply ok_doCapNak | apply ok_doCapNew
                  | apply ok_doCapDel | assumption]).
  - apply ok_doAuthenticate. exact H.
  - repeat (first [okstep | apply ok_do903 | apply ok_tryNextSasl | apply ok_do908 | apply ok_transition
                  | apply ok_do376 | apply ok_send | assumption]).
    unfold do43x. destruct (after s); [apply ok_ret|apply ok_send]; exact H.
  - apply ok_doError. exact H.
  - unfold doPing. destruct args; [apply ok_raise|apply ok_send]; exact H.
  - apply ok_reset.
Qed.

(* every history from a fresh connection *)
Theorem ok_run ms : forall s, InvA s ->
  InvA (fst (run_msgs c s ms)) /\ Forall (OutA c) (snd (run_msgs c s ms)).
Proof.
  induction ms as [|m ms IH]; intros s H; [split; [exact H|constructor]|].
  cbn [run_msgs]. destruct (ok_step s m H) as [Hi Ho].
  destruct (step c s m) as [[s1 o1] e1]. cbn [rstate routs fst snd] in Hi, Ho.
  destruct (IH s1 Hi) as [Hi2 Ho2]. destruct (run_msgs c s1 ms) as [s2 o2]. cbn [fst snd] in *.
  split; [exact Hi2|apply Forall_app; split; assumption].
Qed.
End A2.
