(* C08/PassC.v — credentials are only ever sent in answer to an AUTHENTICATE
   from the server; a reset empties the capability state *)
From Coq Require Import List NArith ZArith Bool Arith Lia.
Import ListNotations.
Require Import Base.Wire Base.PyStr C08.Model C08.Frame.
Open Scope N_scope.

Definition NoCred (o : outev) : Prop := match o with SendCred _ _ => False | _ => True end.
Definition T (s : st) : Prop := True.

Section C.
Variable c : cfg.
Notation ok := (okR T NoCred).

Ltac okstep :=
  match goal with
  | |- okR _ _ (ret _) => apply ok_ret; exact Logic.I
  | |- okR _ _ (raise _ _) => apply ok_raise; exact Logic.I
  | |- okR _ _ (emit _ _) => apply ok_emit; [exact Logic.I|exact Logic.I]
  | |- okR _ _ (send _ _ _) => apply ok_emit; [exact Logic.I|exact Logic.I]
  | |- okR _ _ (_ >>> _) => apply ok_andthen; [|intros ? _]
  | |- okR _ _ (if ?b then _ else _) => destruct b
  | |- okR _ _ (match ?x with _ => _ end) => destruct x
  end.

Lemma c_transition tbl s : ok (transition tbl s).
Proof. unfold transition. repeat okstep. Qed.
Lemma c_expect l s : ok (expect l s).
Proof. unfold expect. repeat okstep. Qed.
Lemma c_queue s : ok (queue_connect c s).
Proof. unfold queue_connect. repeat (first [apply c_transition | okstep]). Qed.
Lemma c_reset s : ok (reset c s).
Proof. apply c_queue. Qed.
Lemma c_reconnect s srv w : ok (reconnect c s srv w).
Proof. unfold reconnect. repeat (first [apply c_reset | okstep]). Qed.
Lemma c_endCap s : ok (endCap c s).
Proof. unfold endCap. repeat (first [apply c_transition | apply c_reconnect | okstep]). Qed.
Lemma c_tryNext s : ok (tryNextSasl c s).
Proof. unfold tryNextSasl. repeat (first [apply c_transition | apply c_expect | apply c_endCap | apply c_reconnect | okstep]). Qed.
Lemma c_maybe s : ok (maybeStartSasl c s).
Proof. unfold maybeStartSasl. repeat (first [apply c_transition | apply c_tryNext | apply c_endCap | okstep]). Qed.
Lemma c_upkeep s : ok (capUpkeep c s).
Proof. unfold capUpkeep. repeat (first [apply c_expect | apply c_reconnect | apply c_maybe | apply c_endCap | okstep]). Qed.
Lemma c_sts s p : ok (onCapSts c s p).
Proof. unfold onCapSts. repeat (first [apply c_transition | apply c_reconnect | okstep]). Qed.
Lemma c_addcaps items : forall s, ok (addCapabilities c items s).
Proof.
  induction items as [|i items IH]; intro s; cbn [addCapabilities]; [okstep|].
  apply ok_andthen; [|intros s1 _; apply IH].
  repeat (first [apply c_sts | apply c_reconnect | okstep]).
Qed.
Lemma c_request s caps : ok (requestCaps s caps).
Proof. unfold requestCaps. apply ok_fold; [okstep|intros; okstep]. Qed.
Lemma c_ls s args : ok (doCapLs c s args).
Proof. unfold doCapLs. repeat (first [apply c_addcaps | apply c_expect | apply c_endCap | apply c_request | okstep]). Qed.
Lemma c_ack s args : ok (doCapAck c s args).
Proof. unfold doCapAck. repeat (first [apply c_upkeep | okstep]). Qed.
Lemma c_nak s args : ok (doCapNak c s args).
Proof. unfold doCapNak. repeat (first [apply c_upkeep | okstep]). Qed.
Lemma c_del s args : ok (doCapDel s args).
Proof. unfold doCapDel. repeat okstep. Qed.
Lemma c_new s args : ok (doCapNew c s args).
Proof. unfold doCapNew. repeat (first [apply c_addcaps | apply c_request | okstep]). Qed.

(* no step other than an AUTHENTICATE from the server emits a credential *)
Theorem creds_only_on_authenticate s m :
  match m with IAuth _ _ _ => False | _ => True end -> ok (step c s m).
Proof.
  intro Hm. destruct m as [args|args b e|code args|args|args|]; [|destruct Hm| | | |]; cbn [step].
  - repeat (first [apply c_ls | apply c_ack | apply c_nak | apply c_new | apply c_del | okstep]).
  - unfold do903, do908, do376, do43x.
    repeat (first [apply c_transition | apply c_endCap | apply c_tryNext | apply c_reconnect | okstep]).
  - unfold doError. repeat (first [apply c_reconnect | okstep]).
  - unfold doPing. repeat okstep.
  - apply c_reset.
Qed.
End C.

(* ---- a reset starts the capability/SASL state from scratch ---- *)
Definition cap_part (s : st) := (ls s, req s, ack s, nak s, snext s, scur s, authed s, dec s).

Lemma reset_fresh c s :
  cap_part (rstate (reset c s)) = ([], [], [], [], c_mechs c, None, false, None).
Proof.
  unfold reset, queue_connect, fresh. destruct (zombie s); [reflexivity|].
  cbn [zombie]. unfold send, emit. cbn [andthen].
  destruct (c_password c); cbn [andthen ret app]; unfold transition; cbn [fsm];
    destruct (fire gen.T08.EV_on_init_messages_sent UNINIT); reflexivity.
Qed.

(* ---- witnesses of what the pinned code gets wrong ---- *)
Definition cfg_plain (secure : bool) : cfg :=
  Cfg (s_sasl :: [98;97;116;99;104] :: [97;119;97;121;45;110;111;116;105;102;121] :: []) false [s_plain]
      [[65;65;65;65]] [] None false false secure [104] 3.

Definition start (c : cfg) : st := rstate (reset c (fresh c false)).
Definition cap (l : list str) : inmsg := ICap ([42] :: l).

(* the old witness of finding C08.F7 (fixed): LS sasl / ACK sasl / NEW batch / 903.
   CAP END is no longer sent with 'batch' outstanding; it is sent -- once, with
   nothing outstanding -- when the late request is answered (non-vacuity of
   the CAP END clauses: a CAP END does happen) *)
Definition is_end (o : outev) : bool := match o with GEnd _ _ _ => true | _ => false end.
Definition s_batch : str := [98;97;116;99;104].
Definition f7_prefix : list inmsg :=
  [cap [s_LS; s_sasl]; cap [[65;67;75]; s_sasl]; cap [[78;69;87]; s_batch]; INum 903 []].
Example cap_end_waits_for_late_request :
  let c := cfg_plain true in
  existsb is_end (snd (run_msgs c (start c) f7_prefix)) = false /\
  req (fst (run_msgs c (start c) f7_prefix)) = [s_sasl; s_batch] /\
  filter is_end (snd (run_msgs c (start c) (f7_prefix ++ [cap [[65;67;75]; s_batch]]))) = [GEnd 1 [] true] /\
  fsm (fst (run_msgs c (start c) (f7_prefix ++ [cap [[65;67;75]; s_batch]; INum 376 []]))) = CONNECTED.
Proof. vm_compute. auto. Qed.

(* the old witness of finding C08.F24 (fixed): the server offers echo-message
   alone.  Nothing is requested and the negotiation ends *)
Example echo_only_ends :
  let c := cfg_plain true in
  snd (run_msgs (Cfg [s_echo; s_label] false [] [] [] None false false true [104] 3)
                (start c) [cap [s_LS; s_echo]]) = [GReq [] [s_echo] []; GEnd 1 [] false; Send s_CAP [s_END]].
Proof. vm_compute. reflexivity. Qed.

(* F23: an STS policy in the middle of a CAP LS line over an insecure link:
   the reconnect resets the object, the handler goes on, the new connection
   starts with ls/req non-empty and a CAP REQ already queued *)
Definition sts_mid_msg : inmsg :=
  cap [s_LS; s_sasl ++ [32] ++ s_sts ++ [61] ++ s_port ++ [61;54;54;57;55] ++ [32] ++ [97;119;97;121;45;110;111;116;105;102;121]].

Example reset_not_fresh_witness :
  let '(s', outs, _) := step (cfg_plain false) (start (cfg_plain false)) sts_mid_msg in
  existsb (fun o => match o with Reconnect (Some _) true => true | _ => false end) outs = true /\
  ls s' <> [] /\ req s' <> [].
Proof. vm_compute. repeat split; discriminate. Qed.
