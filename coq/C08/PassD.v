(* C08/PassD.v — local liveness of the capability negotiation: the final line
   of a CAP LS received during the negotiation is always answered -- by a CAP
   REQ, by CAP END, or by deliberately dropping the connection -- unless an
   earlier CAP REQ is still unanswered (then capUpkeep ends the negotiation when
   the server answers it).  Before the fix of finding C08.F24 a server that
   offered echo-message without labeled-response got no answer at all. *)
From Coq Require Import List NArith ZArith Bool Arith Lia.
Import ListNotations.
Require Import Base.Wire Base.PyStr C08.Model C08.Frame.
Open Scope N_scope.

Definition answer (o : outev) : bool :=
  match o with
  | Send cmd (sub :: _) => seq_eqb cmd s_CAP && seq_eqb sub s_REQ     (* CAP REQ *)
  | GEnd _ _ _ => true                                                (* CAP END *)
  | Reconnect _ _ => true | Die => true                               (* the connection is dropped *)
  | _ => false
  end.

Definition rexn (r : R) : option exn := snd r.

(* still negotiating, nothing said yet, no exception -- or already answered *)
Definition P1 (r : R) : Prop :=
  existsb answer (routs r) = true \/ (fsm (rstate r) = INIT_CAP /\ rexn r = None).
(* answered, or an earlier request is still outstanding *)
Definition P2 (r : R) : Prop :=
  existsb answer (routs r) = true \/ outstanding (rstate r) <> [].

Lemma P1_andthen r k : P1 r -> (forall s, fsm s = INIT_CAP -> P1 (k s)) -> P1 (r >>> k).
Proof.
  intros [Ha|[Hf He]] Hk; destruct r as [[s o] e]; cbn [routs rstate rexn fst snd] in *.
  - left. destruct e; cbn [andthen routs fst snd]; [exact Ha|].
    destruct (k s) as [[s' o'] e']. cbn [routs fst snd]. rewrite existsb_app, Ha. reflexivity.
  - subst e. cbn [andthen]. specialize (Hk s Hf). destruct (k s) as [[s' o'] e'].
    destruct Hk as [Ha|[Hf' He']]; cbn [routs rstate rexn fst snd] in *.
    + left. cbn [routs fst snd]. rewrite existsb_app, Ha. apply orb_true_r.
    + right. split; assumption.
Qed.

Lemma P12_andthen r k : P1 r -> (forall s, fsm s = INIT_CAP -> P2 (k s)) -> P2 (r >>> k).
Proof.
  intros [Ha|[Hf He]] Hk; destruct r as [[s o] e]; cbn [routs rstate rexn fst snd] in *.
  - left. destruct e; cbn [andthen routs fst snd]; [exact Ha|].
    destruct (k s) as [[s' o'] e']. cbn [routs fst snd]. rewrite existsb_app, Ha. reflexivity.
  - subst e. cbn [andthen]. specialize (Hk s Hf). destruct (k s) as [[s' o'] e'].
    destruct Hk as [Ha|Ho]; cbn [routs rstate fst snd] in *.
    + left. cbn [routs fst snd]. rewrite existsb_app, Ha. apply orb_true_r.
    + right. exact Ho.
Qed.

(* table facts, by computation on the regenerated tables *)
Lemma shutdown_fires x : exists t, fire gen.T08.EV_on_shutdown x = Some t.
Proof. vm_compute. eexists. reflexivity. Qed.
Lemma cap_end_fires : fire gen.T08.EV_on_cap_end INIT_CAP = Some WAIT_MOTD.
Proof. vm_compute. reflexivity. Qed.
Lemma ls_expected : mem INIT_CAP gen.T08.EXPECT_doCapLs = true.
Proof. vm_compute. reflexivity. Qed.

Section D.
Variable c : cfg.

Lemma reconnect_answers s srv w : existsb answer (routs (reconnect c s srv w)) = true.
Proof.
  unfold reconnect, emit. cbn [andthen]. destruct (reset c s) as [[s' o'] e']. reflexivity.
Qed.

Lemma d_sts s policy : fsm s = INIT_CAP -> P1 (onCapSts c s policy).
Proof.
  intro Hf. unfold onCapSts. destruct (parseStsPolicy policy (c_secure c)); [|right; split; [exact Hf|reflexivity]].
  destruct (c_secure c); [right; split; [exact Hf|reflexivity]|].
  unfold transition. destruct (shutdown_fires (fsm s)) as [t Ht]. rewrite Ht, andthen_ret.
  left. apply reconnect_answers.
Qed.

Lemma d_addcaps items : forall s, fsm s = INIT_CAP -> P1 (addCapabilities c items s).
Proof.
  induction items as [|i items IH]; intros s Hf; cbn [addCapabilities]; [right; split; [exact Hf|reflexivity]|].
  apply P1_andthen; [|exact IH].
  destruct (split1 [61] (strip_eq_tilde (length i) i)) as [[cp value]|].
  - apply P1_andthen.
    + destruct (seq_eqb cp s_sts); [apply d_sts; exact Hf|right; split; [exact Hf|reflexivity]].
    + intros s1 H1. right. split; [exact H1|reflexivity].
  - apply P1_andthen.
    + destruct (seq_eqb _ s_sts); [left; apply reconnect_answers|right; split; [exact Hf|reflexivity]].
    + intros s1 H1. right. split; [exact H1|reflexivity].
Qed.

Lemma d_endCap s : fsm s = INIT_CAP -> P2 (endCap c s).
Proof.
  intro Hf. unfold endCap. destruct (required_unauth c s); [left; apply reconnect_answers|].
  destruct (outstanding s) eqn:Eo; [|right; cbn [ret rstate fst]; rewrite Eo; discriminate].
  unfold transition. rewrite Hf, cap_end_fires, andthen_ret. left. reflexivity.
Qed.

(* the CAP REQ lines: no exception, the state is the one the first event left, one Send per line *)
Lemma send_lines lines : forall s o,
  fold_left (fun (r : R) line => r >>> fun s => send s s_CAP [s_REQ; line]) lines (s, o, None)
  = (s, o ++ map (fun line => Send s_CAP [s_REQ; line]) lines, None).
Proof.
  induction lines as [|l lines IH]; intros s o; cbn [fold_left map]; [rewrite app_nil_r; reflexivity|].
  unfold send at 2, emit. cbn [andthen]. rewrite IH, <- app_assoc. reflexivity.
Qed.

Lemma d_request_then_end s nc :
  fsm s = INIT_CAP ->
  P2 (requestCaps s nc >>> fun s' => if requested_something s nc then ret s' else endCap c s').
Proof.
  intro Hf. unfold requestCaps, requested_something, emit. rewrite send_lines.
  destruct (wrap_caps (request_list s nc)) as [|l lines].
  - set (s1 := set_caps s (ls s) (sunion (req s) (request_list s nc)) (ack s) (nak s)).
    assert (Hf1 : fsm s1 = INIT_CAP) by exact Hf.
    pose proof (d_endCap s1 Hf1) as He. cbn [andthen]. destruct (endCap c s1) as [[s' o'] e'].
    destruct He as [Ha|Ho]; [left|right; exact Ho].
    cbn [routs fst snd] in *. rewrite existsb_app, Ha. apply orb_true_r.
  - left. cbn [andthen ret routs fst snd map]. rewrite !existsb_app. cbn [existsb answer].
    change (seq_eqb s_CAP s_CAP && seq_eqb s_REQ s_REQ) with true. reflexivity.
Qed.

Theorem final_ls_answered s a0 a1 caps :
  fsm s = INIT_CAP -> P2 (doCapLs c s [a0; a1; caps]).
Proof.
  intro Hf. unfold doCapLs. apply P12_andthen; [apply d_addcaps; exact Hf|].
  intros s1 H1. rewrite H1. change (N.eqb INIT_CAP SHUTTING_DOWN) with false. cbv iota.
  unfold expect. rewrite H1, ls_expected, andthen_ret.
  destruct (new_caps c s1) as [|x nc]; [apply d_endCap; exact H1|]. apply d_request_then_end. exact H1.
Qed.
End D.
