(* C08/Live.v — the liveness clause: against any protocol-conformant server the
   bot ends up CONNECTED or deliberately drops the connection.
   Part 1: what a protocol-conformant server is (a relation between what the bot
   sent in a round and what the server answers), strategies, the lock-step
   game, and the executable strategy family of Model.v is conformant. *)
From Coq Require Import List NArith ZArith Bool Arith Lia.
Import ListNotations.
Require Import Base.Wire Base.PyStr C08.Model C08.Frame C08.PassB C08.PassC C08.PassD C08.Chunk.
Require C08.PassA.
Open Scope N_scope.

(* ---- the server's answers ---- *)
(* numerics of the welcome burst that precede the end of the MOTD *)
Definition benign (code : N) : bool := mem code [1;2;3;4;5;250;251;252;253;254;255;265;266;372;375].
Definition welcome_answer (r : list inmsg) : Prop :=
  exists pre e a, r = pre ++ [INum e a] /\ (e = 376 \/ e = 422) /\
    Forall (fun m => exists code a', m = INum code a' /\ benign code = true) pre.
(* multi-line CAP LS: any number of "* LS * :caps" lines, then the final "* LS :caps" *)
Definition ls_answer (r : list inmsg) : Prop :=
  exists pre x caps, r = pre ++ [ICap [x; s_LS; caps]] /\
    Forall (fun m => exists y cs, m = ICap [y; s_LS; s_STAR; cs]) pre.

(* [answers cap o r]: r is a conformant answer to the bot's output o; cap = the server supports CAP *)
Definition answers (cap : bool) (o : outev) (r : list inmsg) : Prop :=
  if cap then
    match o with
    | Send cmd args =>
        if seq_eqb cmd s_CAP then
          match args with
          | sub :: rest =>
              if seq_eqb sub s_LS then ls_answer r
              else if seq_eqb sub s_REQ then
                match rest with
                | line :: _ => exists x, r = [ICap [x; s_ACK; line]] \/ r = [ICap [x; s_NAK; line]]   (* exactly those capabilities *)
                | [] => r = []
                end
              else if seq_eqb sub s_END then welcome_answer r
              else r = []
          | [] => r = []
          end
        else if seq_eqb cmd s_AUTH then
          match args with
          | a :: _ =>
              if seq_eqb a s_STAR then exists x, r = [INum 906 x]
              else r = [IAuth [s_PLUS] true true] \/ (exists x, r = [INum 904 x]) \/ (exists x y, r = [INum 908 x; INum 904 y])
          | [] => r = []
          end
        else r = []
    | SendCred ch _ => if final_chunk ch then exists x, r = [INum 903 x] \/ r = [INum 904 x] else r = []
    | _ => r = []
    end
  else
    match o with
    | Send cmd _ => if seq_eqb cmd s_USER then welcome_answer r else r = []
    | _ => r = []
    end.

Inductive answers_batch (cap : bool) : list outev -> list inmsg -> Prop :=
| AB_nil : answers_batch cap [] []
| AB_cons o b r rs : answers cap o r -> answers_batch cap b rs -> answers_batch cap (o :: b) (r ++ rs).

(* a strategy: the bot's output batches so far (newest first) -> the server's next messages *)
Definition strategy_t := list (list outev) -> list inmsg.
Definition conformant (sigma : strategy_t) : Prop :=
  exists cap, forall batch hist, answers_batch cap batch (sigma (batch :: hist)).

(* ---- the lock-step game ---- *)
Fixpoint play (c : cfg) (sigma : strategy_t) (n : nat) (s : st) (hist : list (list outev)) : st * list (list outev) :=
  match n with
  | O => (s, hist)
  | S n' => let '(s', outs) := run_msgs c s (sigma hist) in play c sigma n' s' (outs :: hist)
  end.
Definition init_outs (c : cfg) : list outev := routs (reset c (fresh c false)).
Definition game (c : cfg) (sigma : strategy_t) (n : nat) := play c sigma n (start c) [init_outs c].

Definition finished (r : st * list (list outev)) : Prop :=
  fsm (fst r) = CONNECTED \/ fsm (fst r) = CONNECTED_SASL \/ existsb (existsb is_abort) (snd r) = true.

(* ---- the executable strategies of Model.v are conformant ---- *)
Lemma welcome_ok b : welcome_answer (welcome b).
Proof.
  destruct b; unfold welcome.
  - exists [INum 1 [s_STAR]; INum 375 [s_STAR]; INum 372 [s_STAR]], 376, [s_STAR]. split; [reflexivity|]. split; [left; reflexivity|].
    repeat constructor; eexists; eexists; (split; [reflexivity|vm_compute; reflexivity]).
  - exists [INum 1 [s_STAR]], 422, [s_STAR]. split; [reflexivity|]. split; [right; reflexivity|].
    repeat constructor; eexists; eexists; (split; [reflexivity|vm_compute; reflexivity]).
Qed.

Lemma ls_reply_ok lines : ls_answer (ls_reply lines).
Proof.
  induction lines as [|l r IH]; [exists [], s_STAR, []; split; [reflexivity|constructor]|].
  destruct r as [|l2 r]; [exists [], s_STAR, l; split; [reflexivity|constructor]|].
  destruct IH as [pre [x [caps [E Hp]]]]. change (ls_reply (l :: l2 :: r)) with (ICap [s_STAR; s_LS; s_STAR; l] :: ls_reply (l2 :: r)).
  rewrite E. exists (ICap [s_STAR; s_LS; s_STAR; l] :: pre), x, caps. split; [reflexivity|].
  constructor; [eexists; eexists; reflexivity|exact Hp].
Qed.

Lemma answer1_ok v n o : answers (sv_cap v) o (answer1 v n o).
Proof.
  unfold answers, answer1. destruct (sv_cap v).
  - destruct o as [cmd args|ch b| | | | | ]; try reflexivity.
    + destruct (seq_eqb cmd s_CAP).
      * destruct args as [|sub rest]; [reflexivity|].
        destruct (seq_eqb sub s_LS); [apply ls_reply_ok|].
        destruct (seq_eqb sub s_REQ); [destruct rest; [reflexivity|]; exists s_STAR; destruct (N.even n); auto|].
        destruct (seq_eqb sub s_END); [apply welcome_ok|reflexivity].
      * destruct (seq_eqb cmd s_AUTH); [|reflexivity].
        destruct args as [|a rest]; [reflexivity|].
        destruct (seq_eqb a s_STAR); [eexists; reflexivity|].
        destruct (N.eqb (n mod 3) 0); [left; reflexivity|].
        destruct (N.eqb (n mod 3) 1); [right; left; eexists; reflexivity|right; right; eexists; eexists; reflexivity].
    + destruct (final_chunk ch); [|reflexivity]. exists [s_STAR]. destruct (N.even n); auto.
  - destruct o as [cmd args|ch b| | | | | ]; try reflexivity.
    destruct (seq_eqb cmd s_USER); [apply welcome_ok|reflexivity].
Qed.

Theorem strategy_conformant v choices : conformant (strategy v choices).
Proof.
  exists (sv_cap v). intros batch hist. unfold strategy.
  generalize (skipn (length (concat hist)) choices). clear hist choices.
  induction batch as [|o b IH]; intro ch; cbn [answer_batch]; [constructor|].
  constructor; [apply answer1_ok|apply IH].
Qed.

(* ====================================================================== *)
(* Part 2: the measure argument.  Generic: a phase invariant indexed by the
   number of rounds still needed. *)
Definition aborted (outs : list outev) : Prop := existsb is_abort outs = true.

Section Reach.
Variables (c : cfg) (sigma : strategy_t).
Variable Inv : nat -> st -> list outev -> Prop.
Hypothesis Hround : forall j s b hist, Inv j s b ->
  let r := run_msgs c s (sigma (b :: hist)) in
  aborted (snd r) \/ fsm (fst r) = CONNECTED \/ exists j', (j' < j)%nat /\ Inv j' (fst r) (snd r).

Lemma reach : forall j s b hist, Inv j s b ->
  exists k, (k <= S j)%nat /\ finished (play c sigma k s (b :: hist)).
Proof.
  induction j as [j IH] using lt_wf_ind. intros s b hist Hi.
  pose proof (Hround j s b hist Hi) as Hr. cbv zeta in Hr.
  destruct (run_msgs c s (sigma (b :: hist))) as [s' outs] eqn:Er. cbn [fst snd] in Hr.
  destruct Hr as [Ha|[Hc|[j' [Hlt Hi']]]].
  - exists 1%nat. split; [lia|]. cbn [play]. rewrite Er. right. right. cbn [snd existsb]. unfold aborted in Ha. rewrite Ha. reflexivity.
  - exists 1%nat. split; [lia|]. cbn [play]. rewrite Er. left. exact Hc.
  - destruct (IH j' Hlt s' outs (b :: hist) Hi') as [k [Hk Hf]]. exists (S k). split; [lia|].
    cbn [play]. rewrite Er. exact Hf.
Qed.
End Reach.

Lemma run_msgs_app c s a b :
  run_msgs c s (a ++ b) = let '(s1, o1) := run_msgs c s a in let '(s2, o2) := run_msgs c s1 b in (s2, o1 ++ o2).
Proof.
  revert s. induction a as [|m a IH]; intro s; cbn [app run_msgs].
  - destruct (run_msgs c s b). reflexivity.
  - destruct (step c s m) as [[s1 o1] e1]. rewrite IH. destruct (run_msgs c s1 a) as [s2 o2].
    destruct (run_msgs c s2 b) as [s3 o3]. rewrite app_assoc. reflexivity.
Qed.

(* ---- words / wrap: the REQ lines carry exactly the requested capabilities ---- *)
Definition token (t : str) : Prop := t <> [] /\ forallb (fun ch => negb (isws ch)) t = true.

Lemma words_aux_blank a : forall b cur, words_aux (a ++ 32 :: b) cur = words_aux (a ++ [32]) cur ++ words_aux b [].
Proof.
  induction a as [|x a IH]; intros b cur; cbn [app words_aux].
  - change (isws 32) with true. cbv iota. destruct cur; cbn [words_aux app]; reflexivity.
  - destruct (isws x); [destruct cur|]; cbn [app]; rewrite IH; reflexivity.
Qed.
Lemma words_aux_trail a : forall cur, words_aux (a ++ [32]) cur = words_aux a cur.
Proof.
  induction a as [|x a IH]; intro cur; cbn [app words_aux].
  - change (isws 32) with true. cbv iota. destruct cur; reflexivity.
  - destruct (isws x); [destruct cur|]; try rewrite IH; reflexivity.
Qed.
Lemma words_aux_token t : forallb (fun ch => negb (isws ch)) t = true ->
  forall cur, words_aux t cur = match rev t ++ cur with [] => [] | l => [rev l] end.
Proof.
  induction t as [|x t IH]; intros Ht cur; cbn [words_aux rev app].
  - destruct cur; reflexivity.
  - cbn [forallb] in Ht. apply andb_true_iff in Ht as [Hx Ht]. apply negb_true_iff in Hx. rewrite Hx.
    rewrite IH by exact Ht. rewrite <- app_assoc. reflexivity.
Qed.
Lemma words_token t : token t -> words t = [t].
Proof.
  intros [Hne Ht]. unfold words. rewrite words_aux_token by exact Ht. rewrite app_nil_r.
  destruct (rev t) eqn:E; [apply (f_equal (@rev N)) in E; rewrite rev_involutive in E; contradiction|].
  rewrite <- E, rev_involutive. reflexivity.
Qed.
Lemma words_join a w : words (a ++ [32] ++ w) = words a ++ words w.
Proof. unfold words. cbn [app]. rewrite words_aux_blank, words_aux_trail. reflexivity. Qed.

Lemma wrap_words width : forall ws cur ts,
  Forall token ws -> words cur = ts -> (cur = [] -> ts = []) ->
  concat (map words (wrap_aux width ws cur)) = ts ++ ws.
Proof.
  induction ws as [|w r IH]; intros cur ts Hw Hc Hn; cbn [wrap_aux].
  - destruct cur; [rewrite (Hn eq_refl); reflexivity|]. cbn [map concat]. rewrite Hc, !app_nil_r. reflexivity.
  - inversion Hw as [|w' r' Htw Hr]; subst w' r'.
    destruct cur as [|x cur'].
    + rewrite (Hn eq_refl). cbn [app]. rewrite (IH w [w] Hr (words_token w Htw)); [reflexivity|].
      intro E. destruct Htw as [Hne _]. contradiction.
    + destruct (Nat.leb _ width).
      * rewrite (IH ((x :: cur') ++ [32] ++ w) (ts ++ [w]) Hr).
        -- rewrite <- app_assoc. reflexivity.
        -- rewrite words_join, Hc, (words_token w Htw). reflexivity.
        -- intro E. destruct cur'; discriminate.
      * cbn [map concat]. rewrite Hc. rewrite (IH w [w] Hr (words_token w Htw)); [reflexivity|].
        intro E. destruct Htw as [Hne _]. contradiction.
Qed.

Lemma wrap_caps_words caps : Forall token caps -> concat (map words (wrap_caps caps)) = caps.
Proof. intro H. unfold wrap_caps. rewrite (wrap_words _ caps [] [] H); reflexivity. Qed.

(* ====================================================================== *)
(* Part 3: the rounds of a configuration without SASL *)
Definition quiet (o : outev) : Prop :=
  match o with StoreSts _ _ => True | GReq _ _ _ => True | GEnd _ _ _ => True | _ => False end.
Definition core (s : st) := (fsm s, req s, ack s, nak s, snext s, authed s, dec s, scur s).

(* the phases between rounds: waiting for the welcome burst / for the answers to CAP REQ *)
Definition PhE (s : st) (b : list outev) : Prop :=
  fsm s = WAIT_MOTD /\ exists q, b = q ++ [Send s_CAP [s_END]] /\ Forall quiet q.
Definition req_line (l : str) : outev := Send s_CAP [s_REQ; l].
Definition PhR (s : st) (b : list outev) : Prop :=
  fsm s = INIT_CAP /\ ack s = [] /\ nak s = [] /\
  exists q caps, b = q ++ map req_line (wrap_caps caps) /\ Forall quiet q /\ Forall token caps /\ caps <> [] /\
    (forall x, In x (req s) <-> In x caps) /\ ~ In s_sasl caps.

Lemma PhE_prefix q0 s b : Forall quiet q0 -> PhE s b -> PhE s (q0 ++ b).
Proof.
  intros Hq [Hf [q [E Hq']]]. split; [exact Hf|]. exists (q0 ++ q). rewrite E, app_assoc. split; [reflexivity|].
  apply Forall_app. split; assumption.
Qed.
Lemma PhR_prefix q0 s b : Forall quiet q0 -> PhR s b -> PhR s (q0 ++ b).
Proof.
  intros Hq [Hf [Ha [Hn [q [caps [E H]]]]]]. split; [exact Hf|]. split; [exact Ha|]. split; [exact Hn|].
  exists (q0 ++ q), caps. rewrite E, app_assoc. split; [reflexivity|]. destruct H as [Hq' H]. split; [|exact H].
  apply Forall_app. split; assumption.
Qed.
Lemma aborted_app_l a b : aborted a -> aborted (a ++ b).
Proof. unfold aborted. intro H. rewrite existsb_app, H. reflexivity. Qed.
Lemma aborted_app_r a b : aborted b -> aborted (a ++ b).
Proof. unfold aborted. intro H. rewrite existsb_app, H. apply orb_true_r. Qed.

(* set helpers *)
Lemma ssubset_intro a b : (forall x, In x a -> In x b) -> ssubset a b = true.
Proof. intro H. unfold ssubset. apply forallb_forall. intros x Hx. apply smem_In. apply H. exact Hx. Qed.
Lemma ssubset_elim a b : ssubset a b = true -> forall x, In x a -> In x b.
Proof. unfold ssubset. intros H x Hx. rewrite forallb_forall in H. apply smem_In. apply H. exact Hx. Qed.
Lemma outstanding_answered s : (forall x, In x (req s) -> In x (ack s) \/ In x (nak s)) -> outstanding s = [].
Proof.
  intro H. unfold outstanding. apply sdiff_nil. intros x Hx. unfold sdiff in Hx. apply filter_In in Hx as [Hr Hna].
  destruct (H x Hr) as [Ha|Hn]; [|exact Hn]. apply smem_In in Ha. rewrite Ha in Hna. discriminate.
Qed.
Lemma In_request_list s nc x : In x (request_list s nc) -> In x nc.
Proof.
  unfold request_list. set (sorted := sort_strs nc).
  destruct (smem s_echo sorted && negb (smem s_label (ack s))) eqn:E.
  - apply andb_true_iff in E as [E1 _]. apply smem_In in E1. cbv zeta.
    destruct (smem s_label (sremove s_echo sorted)) eqn:E2.
    + apply smem_In in E2. apply In_sremove in E2.
      intros [Hx|[Hx|Hx]]; subst; [apply In_sort_strs; exact E1|apply In_sort_strs; exact E2|].
      apply In_sort_strs. apply In_sremove in Hx. apply In_sremove in Hx. exact Hx.
    + intro Hx. apply In_sort_strs. apply In_sremove in Hx. exact Hx.
  - intro Hx. apply In_sort_strs. exact Hx.
Qed.

(* table facts *)
Lemma upkeep_expected : mem INIT_CAP gen.T08.EXPECT_capUpkeep = true.
Proof. vm_compute. reflexivity. Qed.
Lemma upkeep_not_waiting : mem WAIT_MOTD gen.T08.EXPECT_capUpkeep = false.
Proof. vm_compute. reflexivity. Qed.
Lemma end_motd_fires x : mem x [INIT_CAP; WAIT_MOTD; IN_MOTD] = true -> fire gen.T08.EV_on_end_motd x = Some CONNECTED.
Proof. intro H. apply mem_In in H. cbn in H. destruct H as [H|[H|[H|[]]]]; subst; vm_compute; reflexivity. Qed.
Lemma start_motd_stays x t : mem x [INIT_CAP; WAIT_MOTD; IN_MOTD] = true -> fire gen.T08.EV_on_start_motd x = Some t ->
  mem t [INIT_CAP; WAIT_MOTD; IN_MOTD] = true.
Proof. intro H. apply mem_In in H. cbn in H. destruct H as [H|[H|[H|[]]]]; subst; vm_compute; intro E; inversion E; reflexivity. Qed.

Section Live.
Variable c : cfg.

Definition nosasl : Prop := smem s_sasl (c_wanted c) = false /\ Forall token (c_wanted c).

Lemma reconnect_aborts s srv w : aborted (routs (reconnect c s srv w)).
Proof. unfold reconnect, emit, aborted. cbn [andthen]. destruct (reset c s) as [[s' o'] e']. reflexivity. Qed.

(* ---- _addCapabilities: either the connection is dropped (sts), or only capabilities_ls changes ---- *)
Definition AC (s : st) (r : R) : Prop :=
  aborted (routs r) \/ (core (rstate r) = core s /\ rexn r = None /\ Forall quiet (routs r)).

Lemma AC_andthen s r k : AC s r -> (forall s1, core s1 = core s -> AC s (k s1)) -> AC s (r >>> k).
Proof.
  intros [Ha|[Hc [He Hq]]] Hk; destruct r as [[s0 o] e]; cbn [routs rstate rexn fst snd] in *.
  - left. destruct e; cbn [andthen routs fst snd]; [exact Ha|].
    destruct (k s0) as [[s' o'] e']. cbn [routs fst snd]. apply aborted_app_l. exact Ha.
  - subst e. cbn [andthen]. specialize (Hk s0 Hc). destruct (k s0) as [[s' o'] e'].
    destruct Hk as [Ha|[Hc' [He' Hq']]]; cbn [routs rstate rexn fst snd] in *.
    + left. apply aborted_app_r. exact Ha.
    + right. split; [exact Hc'|]. split; [exact He'|]. apply Forall_app. split; assumption.
Qed.
Lemma AC_ret s s1 : core s1 = core s -> AC s (ret s1).
Proof. intro H. right. split; [exact H|]. split; [reflexivity|constructor]. Qed.

Lemma ac_sts s0 s policy : core s = core s0 -> AC s0 (onCapSts c s policy).
Proof.
  intro Hc. unfold onCapSts. destruct (parseStsPolicy policy (c_secure c)); [|apply AC_ret; exact Hc].
  destruct (c_secure c).
  - right. split; [exact Hc|]. split; [reflexivity|]. constructor; [exact Logic.I|constructor].
  - unfold transition. destruct (shutdown_fires (fsm s)) as [t Ht]. rewrite Ht, andthen_ret. left. apply reconnect_aborts.
Qed.

Lemma ac_addcaps s0 items : forall s, core s = core s0 -> AC s0 (addCapabilities c items s).
Proof.
  induction items as [|i items IH]; intros s Hc; cbn [addCapabilities]; [apply AC_ret; exact Hc|].
  apply AC_andthen; [|exact IH].
  destruct (split1 [61] (strip_eq_tilde (length i) i)) as [[cp value]|].
  - apply AC_andthen.
    + destruct (seq_eqb cp s_sts); [apply ac_sts; exact Hc|apply AC_ret; exact Hc].
    + intros s1 H1. apply AC_ret. exact H1.
  - apply AC_andthen.
    + destruct (seq_eqb _ s_sts); [left; apply reconnect_aborts|apply AC_ret; exact Hc].
    + intros s1 H1. apply AC_ret. exact H1.
Qed.

(* ---- CAP END from the negotiation with nothing outstanding: sent, or the connection is dropped ---- *)
Lemma ec_endCap s : fsm s = INIT_CAP -> outstanding s = [] ->
  aborted (routs (endCap c s)) \/ PhE (rstate (endCap c s)) (routs (endCap c s)).
Proof.
  intros Hf Ho. unfold endCap. destruct (required_unauth c s); [left; apply reconnect_aborts|].
  rewrite Ho. unfold transition. rewrite Hf, cap_end_fires, andthen_ret. right.
  unfold emit, send. cbn [andthen rstate routs fst snd app set_fsm fsm]. split; [reflexivity|].
  eexists [_]. split; [reflexivity|]. constructor; [exact Logic.I|constructor].
Qed.

Hypothesis Hno : nosasl.

(* ---- the final line of the CAP LS reply ---- *)
Definition Q3 (r : R) : Prop := aborted (routs r) \/ PhE (rstate r) (routs r) \/ PhR (rstate r) (routs r).

Lemma abort_andthen r k : aborted (routs r) -> aborted (routs (r >>> k)).
Proof.
  destruct r as [[s0 o] e]. cbn [routs fst snd]. intro Ha. destruct e; cbn [andthen routs fst snd]; [exact Ha|].
  destruct (k s0) as [[s' o'] e']. cbn [routs fst snd]. apply aborted_app_l. exact Ha.
Qed.
Lemma Q3_after s1 o1 k : Forall quiet o1 -> Q3 (k s1) -> Q3 ((s1, o1, None) >>> k).
Proof.
  intros Hq H. cbn [andthen]. destruct (k s1) as [[s' o'] e']. unfold Q3 in *. cbn [routs rstate fst snd] in *.
  destruct H as [H|[H|H]].
  - left. apply aborted_app_r. exact H.
  - right. left. apply PhE_prefix; assumption.
  - right. right. apply PhR_prefix; assumption.
Qed.
Lemma Q3_endCap s : fsm s = INIT_CAP -> outstanding s = [] -> Q3 (endCap c s).
Proof. intros Hf Ho. destruct (ec_endCap s Hf Ho) as [H|H]; [left|right; left]; exact H. Qed.

Lemma ls_final s x caps :
  fsm s = INIT_CAP -> req s = [] -> ack s = [] -> nak s = [] -> Q3 (doCapLs c s [x; s_LS; caps]).
Proof.
  intros Hf Hr Ha Hn. unfold doCapLs.
  pose proof (ac_addcaps s (words caps) s eq_refl) as Hac.
  destruct (addCapabilities c (words caps) s) as [[s1 o1] e1] eqn:Eac.
  destruct Hac as [Hab|[Hc [He Hq]]]; cbn [routs rstate rexn fst snd] in *.
  - left. apply abort_andthen. exact Hab.
  - subst e1. unfold core in Hc.
    assert (Hf1 : fsm s1 = INIT_CAP) by congruence. assert (Hr1 : req s1 = []) by congruence.
    assert (Ha1 : ack s1 = []) by congruence. assert (Hn1 : nak s1 = []) by congruence.
    apply Q3_after; [exact Hq|].
    rewrite Hf1. change (N.eqb INIT_CAP SHUTTING_DOWN) with false. cbv iota.
    unfold expect. rewrite Hf1, ls_expected, andthen_ret.
    assert (Hout1 : outstanding s1 = []) by (unfold outstanding; rewrite Hr1; reflexivity).
    destruct (new_caps c s1) as [|y nc] eqn:En; [apply Q3_endCap; assumption|].
    set (caps1 := request_list s1 (y :: nc)).
    assert (Hsub : forall z, In z caps1 -> smem z (c_wanted c) = true).
    { intros z Hz. apply In_request_list in Hz. rewrite <- En in Hz. apply (C08.PassA.new_caps_sound c s1 z) in Hz. tauto. }
    assert (Htok : Forall token caps1).
    { apply Forall_forall. intros z Hz. destruct Hno as [_ Ht]. rewrite Forall_forall in Ht. apply Ht. apply smem_In. apply Hsub. exact Hz. }
    assert (Hns : ~ In s_sasl caps1).
    { intro Hz. apply Hsub in Hz. destruct Hno as [Hs _]. rewrite Hs in Hz. discriminate. }
    unfold requestCaps, requested_something, emit. fold caps1. rewrite send_lines.
    set (s2 := set_caps s1 (ls s1) (sunion (req s1) caps1) (ack s1) (nak s1)).
    destruct (wrap_caps caps1) as [|l lines] eqn:Ew.
    + (* nothing to request *)
      assert (Ec : caps1 = []) by (rewrite <- (wrap_caps_words caps1 Htok), Ew; reflexivity).
      assert (Hout2 : outstanding s2 = []).
      { unfold outstanding, s2. cbn [set_caps req ack nak]. rewrite Hr1, Ec. reflexivity. }
      apply Q3_after; [constructor; [exact Logic.I|constructor]|]. apply Q3_endCap; [exact Hf1|exact Hout2].
    + right. right. cbn [andthen ret rstate routs fst snd]. rewrite app_nil_r.
      split; [exact Hf1|]. split; [exact Ha1|]. split; [exact Hn1|].
      exists [GReq caps1 (map fst (ls s1)) (ack s1)], caps1. split; [rewrite Ew; reflexivity|].
      split; [constructor; [exact Logic.I|constructor]|]. split; [exact Htok|].
      split; [intro E; rewrite E in Ew; discriminate|]. split; [|exact Hns].
      intro z. unfold s2. cbn [set_caps req]. rewrite In_sunion, Hr1. cbn [In]. tauto.
Qed.

(* ---- the answers to the CAP REQ lines ---- *)
Definition ans_line (l : str) (m : inmsg) : Prop := exists x, m = ICap [x; s_ACK; l] \/ m = ICap [x; s_NAK; l].
(* still waiting: some requested capability is unanswered; ws = what has been answered so far *)
Definition Wt (rq : list str) (s : st) (ws : list str) : Prop :=
  fsm s = INIT_CAP /\ req s = rq /\ (forall x, In x (ack s) \/ In x (nak s) -> In x rq) /\
  ssubset rq (sunion (ack s) (nak s)) = false /\ ~ In s_sasl rq /\ (forall x, In x ws -> In x (ack s) \/ In x (nak s)).
Definition R3 (rq : list str) (ws : list str) (s : st) (o : list outev) : Prop :=
  (o = [] /\ Wt rq s ws) \/ aborted o \/ PhE s o.

Lemma upkeep_step rq s2 ws2 :
  fsm s2 = INIT_CAP -> req s2 = rq -> (forall x, In x (ack s2) \/ In x (nak s2) -> In x rq) -> ~ In s_sasl rq ->
  (forall x, In x ws2 -> In x (ack s2) \/ In x (nak s2)) ->
  R3 rq ws2 (rstate (capUpkeep c s2)) (routs (capUpkeep c s2)).
Proof.
  intros Hf Hr Hsub Hns Hws. unfold capUpkeep, expect. rewrite Hf, upkeep_expected, andthen_ret.
  assert (E1 : ssubset (sunion (ack s2) (nak s2)) (req s2) = true).
  { apply ssubset_intro. intros x Hx. apply In_sunion in Hx. rewrite Hr. apply Hsub. exact Hx. }
  rewrite E1. cbn [negb]. destruct (ssubset (req s2) (sunion (ack s2) (nak s2))) eqn:Es.
  - assert (Esasl : smem s_sasl (ack s2) = false).
    { destruct (smem s_sasl (ack s2)) eqn:E; [|reflexivity]. apply smem_In in E. exfalso. apply Hns. apply Hsub. left. exact E. }
    rewrite Esasl, Hf. change (negb (N.eqb INIT_CAP CONNECTED)) with true. cbv iota.
    assert (Ho : outstanding s2 = []).
    { apply outstanding_answered. intros x Hx. apply In_sunion. eapply ssubset_elim; [exact Es|exact Hx]. }
    destruct (ec_endCap s2 Hf Ho) as [H|H]; [right; left|right; right]; exact H.
  - left. split; [reflexivity|]. cbn [ret rstate fst]. rewrite Hr in Es. repeat split; assumption.
Qed.

Lemma step_ack s y line : step c s (ICap [y; s_ACK; line]) = doCapAck c s [y; s_ACK; line].
Proof. reflexivity. Qed.
Lemma step_nak s y line : step c s (ICap [y; s_NAK; line]) = doCapNak c s [y; s_NAK; line].
Proof. reflexivity. Qed.
Lemma step_ls s y rest : step c s (ICap (y :: s_LS :: rest)) = doCapLs c s (y :: s_LS :: rest).
Proof. reflexivity. Qed.

Lemma req_step rq s ws line m :
  Wt rq s ws -> (forall x, In x (words line) -> In x rq) -> ans_line line m ->
  R3 rq (ws ++ words line) (rstate (step c s m)) (routs (step c s m)).
Proof.
  intros [Hf [Hr [Hsub [Hflag [Hns Hws]]]]] Hl [y [E|E]]; subst m.
  - rewrite step_ack. unfold doCapAck. destruct (words line) as [|w ws'] eqn:Ew.
    + left. split; [reflexivity|]. rewrite app_nil_r. repeat split; assumption.
    + apply upkeep_step; cbn [set_caps fsm req ack nak]; try assumption.
      * intros x [Hx|Hx]; [apply In_sunion in Hx as [Hx|Hx]; [apply Hsub; left; exact Hx|apply Hl; exact Hx]|apply Hsub; right; exact Hx].
      * intros x Hx. apply in_app_iff in Hx as [Hx|Hx].
        -- destruct (Hws x Hx) as [H|H]; [left; apply In_sunion; left; exact H|right; exact H].
        -- left. apply In_sunion. right. exact Hx.
  - rewrite step_nak. unfold doCapNak. destruct (words line) as [|w ws'] eqn:Ew.
    + left. split; [reflexivity|]. rewrite app_nil_r. repeat split; assumption.
    + apply upkeep_step; cbn [set_caps fsm req ack nak]; try assumption.
      * intros x [Hx|Hx]; [apply Hsub; left; exact Hx|apply In_sunion in Hx as [Hx|Hx]; [apply Hsub; right; exact Hx|apply Hl; exact Hx]].
      * intros x Hx. apply in_app_iff in Hx as [Hx|Hx].
        -- destruct (Hws x Hx) as [H|H]; [left; exact H|right; apply In_sunion; left; exact H].
        -- right. apply In_sunion. right. exact Hx.
Qed.

(* an answer that arrives after CAP END was sent changes nothing *)
Lemma stray_step s line m : fsm s = WAIT_MOTD -> ans_line line m ->
  fsm (rstate (step c s m)) = WAIT_MOTD /\ routs (step c s m) = [].
Proof.
  intros Hf [y [E|E]]; subst m.
  - rewrite step_ack. unfold doCapAck. destruct (words line); [split; [exact Hf|reflexivity]|].
    unfold capUpkeep, expect. cbn [set_caps fsm]. rewrite Hf, upkeep_not_waiting. split; [exact Hf|reflexivity].
  - rewrite step_nak. unfold doCapNak. destruct (words line); [split; [exact Hf|reflexivity]|].
    unfold capUpkeep, expect. cbn [set_caps fsm]. rewrite Hf, upkeep_not_waiting. split; [exact Hf|reflexivity].
Qed.
Lemma stray_run lines : forall msgs s, Forall2 ans_line lines msgs -> fsm s = WAIT_MOTD ->
  fsm (fst (run_msgs c s msgs)) = WAIT_MOTD /\ snd (run_msgs c s msgs) = [].
Proof.
  induction lines as [|l lines IH]; intros msgs s H2 Hf; inversion H2 as [|l' m ls' ms Hm Hrest]; subst; [split; [exact Hf|reflexivity]|].
  cbn [run_msgs]. destruct (stray_step s l m Hf Hm) as [Hf1 Ho1]. destruct (step c s m) as [[s1 o1] e1]. cbn [rstate routs fst snd] in *.
  destruct (IH ms s1 Hrest Hf1) as [Hf2 Ho2]. destruct (run_msgs c s1 ms) as [s2 o2]. cbn [fst snd] in *. subst. split; [exact Hf2|reflexivity].
Qed.

Lemma req_run rq lines : forall msgs s ws, Forall2 ans_line lines msgs -> Wt rq s ws ->
  (forall l, In l lines -> forall x, In x (words l) -> In x rq) ->
  R3 rq (ws ++ concat (map words lines)) (fst (run_msgs c s msgs)) (snd (run_msgs c s msgs)).
Proof.
  induction lines as [|l lines IH]; intros msgs s ws H2 Hw Hl; inversion H2 as [|l' m ls' ms Hm Hrest]; subst.
  - left. cbn. rewrite app_nil_r. split; [reflexivity|exact Hw].
  - cbn [run_msgs map concat].
    pose proof (req_step rq s ws l m Hw (Hl l (or_introl eq_refl)) Hm) as Hs.
    destruct (step c s m) as [[s1 o1] e1]. cbn [rstate routs fst snd] in Hs. destruct Hs as [[Ho Hw1]|[Ha|He]].
    + subst o1. specialize (IH ms s1 (ws ++ words l) Hrest Hw1 (fun l0 H0 => Hl l0 (or_intror H0))).
      destruct (run_msgs c s1 ms) as [s2 o2]. cbn [fst snd app] in *. rewrite app_assoc. exact IH.
    + destruct (run_msgs c s1 ms) as [s2 o2]. right. left. cbn [snd]. apply aborted_app_l. exact Ha.
    + destruct He as [Hf1 Hq]. destruct (stray_run lines ms s1 Hrest Hf1) as [Hf2 Ho2].
      destruct (run_msgs c s1 ms) as [s2 o2]. cbn [fst snd] in *. subst o2. rewrite app_nil_r. right. right. split; assumption.
Qed.

(* ---- the welcome burst ---- *)
Definition pre3 (s : st) : Prop := mem (fsm s) [INIT_CAP; WAIT_MOTD; IN_MOTD] = true.

Lemma benign_step s code a : pre3 s -> benign code = true -> pre3 (rstate (step c s (INum code a))) /\ routs (step c s (INum code a)) = [].
Proof.
  intros Hp Hb. unfold benign in Hb. apply mem_In in Hb. cbn [In] in Hb.
  repeat (destruct Hb as [Hb|Hb]; [subst code; try (split; [exact Hp|reflexivity])|]); [|destruct Hb].
  cbn [step]. change (N.eqb 375 903) with false. cbv iota.
  unfold transition. destruct (fire gen.T08.EV_on_start_motd (fsm s)) as [t|] eqn:Ef; [|split; [exact Hp|reflexivity]].
  split; [|reflexivity]. unfold pre3. cbn [ret rstate fst set_fsm fsm]. eapply start_motd_stays; [exact Hp|exact Ef].
Qed.

Lemma end_step s e a : pre3 s -> e = 376 \/ e = 422 ->
  aborted (routs (step c s (INum e a))) \/ fsm (rstate (step c s (INum e a))) = CONNECTED.
Proof.
  intros Hp He. assert (Es : step c s (INum e a) = do376 c s) by (destruct He; subst e; reflexivity). rewrite Es.
  unfold do376. destruct (required_unauth c s); [left; apply reconnect_aborts|]. right.
  unfold transition. rewrite (end_motd_fires _ Hp), andthen_ret. destruct (c_umodes c); reflexivity.
Qed.

Lemma welcome_run r : welcome_answer r -> forall s, pre3 s ->
  aborted (snd (run_msgs c s r)) \/ fsm (fst (run_msgs c s r)) = CONNECTED.
Proof.
  intros [pre [e [a [E [He Hpre]]]]]. subst r. induction pre as [|m pre IH]; intros s Hp.
  - cbn [app run_msgs]. pose proof (end_step s e a Hp He) as H. destruct (step c s (INum e a)) as [[s1 o1] e1].
    cbn [rstate routs fst snd app] in *. rewrite app_nil_r. exact H.
  - inversion Hpre as [|m' pre' Hm Hrest]; subst. destruct Hm as [code [a' [Em Hb]]]. subst m.
    cbn [app run_msgs]. destruct (benign_step s code a' Hp Hb) as [Hp1 Ho1].
    destruct (step c s (INum code a')) as [[s1 o1] e1]. cbn [rstate routs fst snd] in *. subst o1.
    specialize (IH Hrest s1 Hp1). destruct (run_msgs c s1 (pre ++ [INum e a])) as [s2 o2]. cbn [fst snd app] in *. exact IH.
Qed.

(* ---- the start of a connection, and reading the server's answers off a batch ---- *)
Lemma init_outs_eq : init_outs c =
  Send s_CAP [s_LS; s_302] :: (if c_password c then [Send s_PASS []] else []) ++ [Send s_NICK []; Send s_USER []].
Proof. unfold init_outs, reset, queue_connect, fresh, send, emit, transition. cbn [zombie]. destruct (c_password c); reflexivity. Qed.
Lemma start_core : fsm (start c) = INIT_CAP /\ req (start c) = [] /\ ack (start c) = [] /\ nak (start c) = [].
Proof. unfold start, reset, queue_connect, fresh, send, emit, transition. cbn [zombie]. destruct (c_password c); repeat split; reflexivity. Qed.

Lemma answers_quiet cap o r : quiet o -> answers cap o r -> r = [].
Proof. destruct o; try contradiction; destruct cap; intros _ H; exact H. Qed.
Lemma batch_quiet cap q : Forall quiet q -> forall b r, answers_batch cap (q ++ b) r -> answers_batch cap b r.
Proof.
  induction q as [|o q IH]; intros Hq b r H; [exact H|]. inversion Hq; subst. cbn [app] in H.
  inversion H as [|o' b' r1 rs H1 Hrest]; subst. rewrite (answers_quiet cap o r1); [|assumption|assumption]. apply IH; assumption.
Qed.
Lemma batch_single cap o r : answers_batch cap [o] r -> answers cap o r.
Proof. intro H. inversion H as [|o' b' r1 rs H1 Hrest]; subst. inversion Hrest; subst. rewrite app_nil_r. exact H1. Qed.
Lemma batch_req lines : forall r, answers_batch true (map req_line lines) r -> Forall2 ans_line lines r.
Proof.
  induction lines as [|l lines IH]; intros r H; inversion H as [|o' b' r1 rs H1 Hrest]; subst; [constructor|].
  destruct H1 as [x [E|E]]; subst r1; cbn [app]; (constructor; [exists x; auto|apply IH; exact Hrest]).
Qed.
Lemma batch_init cap r : answers_batch cap (init_outs c) r -> if cap then ls_answer r else welcome_answer r.
Proof.
  rewrite init_outs_eq. intro H. inversion H as [|o b r1 rs H1 Hrest]; subst.
  assert (Hn : forall rs', answers_batch cap [Send s_NICK []; Send s_USER []] rs' -> if cap then rs' = [] else welcome_answer rs').
  { intros rs' H'. inversion H' as [|o2 b2 r2 rs2 H2 Hr2]; subst. apply batch_single in Hr2.
    destruct cap; [rewrite H2, Hr2; reflexivity|]. rewrite H2. exact Hr2. }
  assert (Hrs : if cap then rs = [] else welcome_answer rs).
  { destruct (c_password c); cbn [app] in Hrest; [|apply Hn; exact Hrest].
    inversion Hrest as [|o3 b3 r3 rs3 H3 Hr3]; subst. specialize (Hn _ Hr3). destruct cap; [rewrite H3, Hn; reflexivity|rewrite H3; exact Hn]. }
  destruct cap; [rewrite Hrs, app_nil_r; exact H1|]. rewrite H1. exact Hrs.
Qed.

(* the multi-line part of the CAP LS reply *)
Lemma multi_run pre : Forall (fun m => exists y cs, m = ICap [y; s_LS; s_STAR; cs]) pre -> forall s,
  aborted (snd (run_msgs c s pre)) \/ (core (fst (run_msgs c s pre)) = core s /\ Forall quiet (snd (run_msgs c s pre))).
Proof.
  induction pre as [|m pre IH]; intros Hp s; [right; split; [reflexivity|constructor]|].
  inversion Hp as [|m' pre' Hm Hrest]; subst. destruct Hm as [y [cs E]]. subst m. cbn [run_msgs]. rewrite step_ls.
  unfold doCapLs. change (negb (seq_eqb s_STAR s_STAR)) with false. cbv iota.
  pose proof (ac_addcaps s (words cs) s eq_refl) as Hac. destruct (addCapabilities c (words cs) s) as [[s1 o1] e1].
  destruct Hac as [Ha|[Hc [_ Hq]]]; cbn [routs rstate fst snd] in *.
  - destruct (run_msgs c s1 pre) as [s2 o2]. left. cbn [snd]. apply aborted_app_l. exact Ha.
  - specialize (IH Hrest s1). destruct (run_msgs c s1 pre) as [s2 o2]. cbn [fst snd] in *. destruct IH as [Ha|[Hc2 Hq2]].
    + left. apply aborted_app_r. exact Ha.
    + right. split; [rewrite Hc2; exact Hc|apply Forall_app; split; assumption].
Qed.

(* ---- the three rounds ---- *)
Definition InvL (j : nat) (s : st) (b : list outev) : Prop :=
  (j = 2%nat /\ s = start c /\ b = init_outs c) \/ (j = 1%nat /\ PhR s b) \/ (j = 0%nat /\ PhE s b).

Lemma round_cap sigma : (forall batch hist, answers_batch true batch (sigma (batch :: hist))) ->
  forall j s b hist, InvL j s b ->
  let r := run_msgs c s (sigma (b :: hist)) in
  aborted (snd r) \/ fsm (fst r) = CONNECTED \/ exists j', (j' < j)%nat /\ InvL j' (fst r) (snd r).
Proof.
  intros Hs j s b hist Hi. cbv zeta. pose proof (Hs b hist) as Hb. set (resp := sigma (b :: hist)) in *. clearbody resp.
  destruct Hi as [[Ej [Es Eb]]|[[Ej Hp]|[Ej Hp]]]; subst j.
  - (* the CAP LS reply *)
    subst s b. apply (batch_init true) in Hb. destruct Hb as [pre [x [caps [E Hpre]]]]. subst resp.
    rewrite run_msgs_app. pose proof (multi_run pre Hpre (start c)) as Hm.
    destruct (run_msgs c (start c) pre) as [s1 o1]. cbn [fst snd] in Hm. cbn [run_msgs]. rewrite step_ls.
    destruct Hm as [Ha|[Hc Hq]].
    + destruct (doCapLs c s1 [x; s_LS; caps]) as [[s2 o2] e2]. left. cbn [snd]. apply aborted_app_l. exact Ha.
    + destruct start_core as [Sf [Sr [Sa Sn]]]. unfold core in Hc. rewrite Sf, Sr, Sa, Sn in Hc.
      assert (Hf1 : fsm s1 = INIT_CAP) by congruence. assert (Hr1 : req s1 = []) by congruence.
      assert (Ha1 : ack s1 = []) by congruence. assert (Hn1 : nak s1 = []) by congruence.
      pose proof (ls_final s1 x caps Hf1 Hr1 Ha1 Hn1) as H3. destruct (doCapLs c s1 [x; s_LS; caps]) as [[s2 o2] e2].
      unfold Q3 in H3. cbn [routs rstate fst snd] in *. rewrite app_nil_r. destruct H3 as [H|[H|H]].
      * left. apply aborted_app_r. exact H.
      * right. right. exists 0%nat. split; [lia|]. right. right. split; [reflexivity|]. apply PhE_prefix; assumption.
      * right. right. exists 1%nat. split; [lia|]. right. left. split; [reflexivity|]. apply PhR_prefix; assumption.
  - (* the answers to CAP REQ *)
    destruct Hp as [Hf [Ha [Hn [q [caps [Eb [Hq [Htok [Hne [Hreq Hns]]]]]]]]]]. subst b.
    apply batch_quiet in Hb; [|exact Hq]. apply batch_req in Hb.
    assert (Hw : Wt (req s) s []).
    { split; [exact Hf|]. split; [reflexivity|]. rewrite Ha, Hn. split; [intros x [[]|[]]|].
      split; [|split; [intro H; apply Hns; apply Hreq; exact H|intros x []]].
      destruct caps as [|c0 caps']; [contradiction|]. destruct (req s) as [|r0 rq] eqn:Er; [exfalso; apply (proj2 (Hreq c0)); left; reflexivity|reflexivity]. }
    pose proof (req_run (req s) (wrap_caps caps) resp s [] Hb Hw) as Hr.
    assert (Hl : forall l, In l (wrap_caps caps) -> forall x, In x (words l) -> In x (req s)).
    { intros l Hl x Hx. apply Hreq. rewrite <- (wrap_caps_words caps Htok). apply in_concat. exists (words l). split; [apply in_map; exact Hl|exact Hx]. }
    specialize (Hr Hl). rewrite (wrap_caps_words caps Htok) in Hr. cbn [app] in Hr.
    destruct (run_msgs c s resp) as [s' o']. cbn [fst snd] in *. destruct Hr as [[_ Hw']|[H|H]].
    + exfalso. destruct Hw' as [_ [_ [_ [Hflag [_ Hall]]]]].
      assert (E : ssubset (req s) (sunion (ack s') (nak s')) = true).
      { apply ssubset_intro. intros x Hx. apply In_sunion. apply Hall. apply Hreq. exact Hx. }
      rewrite E in Hflag. discriminate.
    + left. exact H.
    + right. right. exists 0%nat. split; [lia|]. right. right. split; [reflexivity|exact H].
  - (* the welcome burst *)
    destruct Hp as [Hf [q [Eb Hq]]]. subst b. apply batch_quiet in Hb; [|exact Hq]. apply batch_single in Hb.
    assert (Hp3 : pre3 s) by (unfold pre3; rewrite Hf; reflexivity).
    destruct (welcome_run resp Hb s Hp3) as [H|H]; [left|right; left]; exact H.
Qed.

Lemma round_nocap sigma : (forall batch hist, answers_batch false batch (sigma (batch :: hist))) ->
  forall j s b hist, (j = 0%nat /\ s = start c /\ b = init_outs c) ->
  let r := run_msgs c s (sigma (b :: hist)) in
  aborted (snd r) \/ fsm (fst r) = CONNECTED \/ exists j', (j' < j)%nat /\ (j' = 0%nat /\ fst r = start c /\ snd r = init_outs c).
Proof.
  intros Hs j s b hist [Ej [Es Eb]]. cbv zeta. subst. pose proof (Hs (init_outs c) hist) as Hb. apply (batch_init false) in Hb.
  assert (Hp3 : pre3 (start c)) by (unfold pre3; destruct start_core as [Sf _]; rewrite Sf; reflexivity).
  destruct (welcome_run _ Hb (start c) Hp3) as [H|H]; [left|right; left]; exact H.
Qed.

(* the liveness clause for a configuration that does not want 'sasl': 3 rounds *)
Theorem liveness_nosasl sigma : conformant sigma -> exists k, (k <= 3)%nat /\ finished (game c sigma k).
Proof.
  intros [cap Hs]. unfold game. destruct cap.
  - apply (reach c sigma InvL (round_cap sigma Hs) 2%nat). left. repeat split.
  - destruct (reach c sigma (fun j s b => j = 0%nat /\ s = start c /\ b = init_outs c) (round_nocap sigma Hs) 0%nat (start c) (init_outs c) [])
      as [k [Hk Hf]]; [repeat split|]. exists k. split; [lia|exact Hf].
Qed.
End Live.

(* ---- non-vacuity and what is left ---- *)
(* the pinned REQUEST_CAPABILITIES (no credentials configured, so no 'sasl') satisfies the hypothesis *)
Definition cfg_nosasl : cfg := Cfg gen.T08.REQUEST_CAPABILITIES false [] [] [] None false false true [104] 3.
Lemma cfg_nosasl_ok : nosasl cfg_nosasl.
Proof.
  split; [vm_compute; reflexivity|]. unfold cfg_nosasl, c_wanted, gen.T08.REQUEST_CAPABILITIES.
  repeat (constructor; [split; [discriminate|vm_compute; reflexivity]|]). constructor.
Qed.

Definition srv_all : srv := Srv true [[109;117;108;116;105;45;112;114;101;102;105;120]; s_sasl ++ [32] ++ s_batch] true.
Definition connected_in (c : cfg) (sigma : strategy_t) (k : nat) : bool :=
  N.eqb (fsm (fst (game c sigma k))) CONNECTED && negb (existsb (existsb is_abort) (snd (game c sigma k))).

(* a server that ACKs everything and lets SASL PLAIN succeed; one that NAKs everything and fails every
   mechanism; one without capability negotiation; the pinned capability set against each of them *)
Example liveness_witnesses :
  connected_in (cfg_plain true) (strategy srv_all []) 5 = true /\
  connected_in (cfg_plain true) (strategy srv_all (repeat 1 40)) 4 = true /\
  connected_in (cfg_plain true) (strategy (Srv false [] true) []) 1 = true /\
  connected_in cfg_nosasl (strategy srv_all []) 3 = true /\
  connected_in cfg_nosasl (strategy srv_all (repeat 1 40)) 3 = true /\
  connected_in cfg_nosasl (strategy (Srv false [] false) []) 1 = true.
Proof. vm_compute. repeat split. Qed.

