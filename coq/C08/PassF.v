(* C08/PassF.v — the bot's capabilities_ack only ever holds what the SERVER
   acknowledged on this connection (its CAP ACK lines; a driver reset starts
   over), and credentials are only sent if the server acknowledged 'sasl':
   stated against the server's own books (Model.upd_ack), not against the bot's
   sets -- requesting a capability never makes it acknowledged. *)
From Coq Require Import List NArith ZArith Bool Arith Lia.
Import ListNotations.
Require Import Base.Wire Base.PyStr C08.Model C08.Frame C08.PassB.
Open Scope N_scope.

Definition AckI (a : list str) (s : st) : Prop :=
  (forall x, In x (ack s) -> In x a) /\ (g_acked s = true -> In s_sasl a).
Definition OutF (a : list str) (o : outev) : Prop :=
  match o with SendCred _ b => b = true -> In s_sasl a | _ => True end.

Lemma AckI_same a s s' : ack s' = ack s -> g_acked s' = g_acked s -> AckI a s -> AckI a s'.
Proof. intros E1 E2 H. unfold AckI. rewrite E1, E2. exact H. Qed.
Lemma AckI_mono a a' s : (forall x, In x a -> In x a') -> AckI a s -> AckI a' s.
Proof. intros Hs [H1 H2]. split; [intros x Hx; apply Hs; apply H1; exact Hx|intro Hg; apply Hs; apply H2; exact Hg]. Qed.
Lemma AckI_set_caps a s l rq ak nk : AckI a s -> (forall x, In x ak -> In x a) -> AckI a (set_caps s l rq ak nk).
Proof.
  intros [H1 H2] Hk. split; cbn [set_caps ack g_acked]; [exact Hk|].
  intro Hg. apply orb_true_iff in Hg as [Hg|Hg]; [apply H2; exact Hg|apply Hk; apply smem_In; exact Hg].
Qed.

Section F.
Variable c : cfg.
Variable a : list str.
Notation ok := (okR (AckI a) (OutF a)).

Ltac fs :=
  match goal with
  | |- okR _ _ (ret _) => apply ok_ret
  | |- okR _ _ (raise _ _) => apply ok_raise
  | |- okR _ _ (send _ _ _) => apply ok_emit; [|exact Logic.I]
  | |- okR _ _ (_ >>> _) => apply ok_andthen; [|intros ? ?]
  | |- okR _ _ (if ?b then _ else _) => destruct b eqn:?
  | |- okR _ _ (match ?x with _ => _ end) => destruct x eqn:?
  end.
Ltac same := match goal with H : AckI a ?s |- AckI a _ => revert H; apply AckI_same; reflexivity end.

Lemma AckI_fresh z : AckI a (fresh c z).
Proof. split; [intros x []|discriminate]. Qed.
Lemma f_transition tbl s : AckI a s -> ok (transition tbl s).
Proof. intro H. unfold transition. destruct (fire tbl (fsm s)); [apply ok_ret; same|apply ok_raise; exact H]. Qed.
Lemma f_expect l s : AckI a s -> ok (expect l s).
Proof. intro H. unfold expect. destruct (mem (fsm s) l); [apply ok_ret|apply ok_raise]; exact H. Qed.
Lemma f_reset s : ok (reset c s).
Proof.
  unfold reset, queue_connect. generalize (AckI_fresh (zombie s)). generalize (fresh c (zombie s)). intros s0 H.
  destruct (zombie s0); [apply ok_emit; [exact H|exact Logic.I]|].
  repeat (first [apply f_transition; assumption | fs; try assumption]).
Qed.
Lemma f_reconnect s srv w : AckI a s -> ok (reconnect c s srv w).
Proof. intro H. unfold reconnect. apply ok_andthen; [apply ok_emit; [exact H|exact Logic.I]|intros; apply f_reset]. Qed.
Lemma f_endCap s : AckI a s -> ok (endCap c s).
Proof.
  intro H. unfold endCap. destruct (required_unauth c s); [apply f_reconnect; exact H|].
  destruct (outstanding s); [|apply ok_ret; exact H].
  apply ok_andthen; [apply f_transition; exact H|]. intros s1 H1.
  apply ok_andthen; [apply ok_emit; [exact H1|exact Logic.I]|]. intros s2 H2. apply ok_emit; [same|exact Logic.I].
Qed.
Lemma f_tryNext s : AckI a s -> ok (tryNextSasl c s).
Proof.
  intro H. unfold tryNextSasl. fs; [apply f_expect; exact H|].
  fs.
  - fs; [apply f_reconnect; assumption|]. fs; [apply f_transition; same|]. fs; [apply f_endCap|apply ok_ret]; assumption.
  - apply ok_emit; [same|exact Logic.I].
Qed.
Lemma f_maybe s : AckI a s -> ok (maybeStartSasl c s).
Proof.
  intro H. unfold maybeStartSasl. fs; [|fs; [apply f_endCap|apply ok_ret]; exact H].
  fs; [apply f_transition; exact H|]. fs; [|apply ok_raise; assumption].
  apply f_tryNext. destruct o; [same|assumption].
Qed.
Lemma f_upkeep s : AckI a s -> ok (capUpkeep c s).
Proof.
  intro H. unfold capUpkeep. fs; [apply f_expect; exact H|].
  repeat (first [fs | apply f_reconnect | apply f_maybe | apply f_endCap | assumption]).
Qed.
Lemma f_sts s p : AckI a s -> ok (onCapSts c s p).
Proof.
  intro H. unfold onCapSts. fs; [|apply ok_ret; exact H]. fs; [apply ok_emit; [exact H|exact Logic.I]|].
  fs; [apply f_transition; exact H|]. apply f_reconnect. assumption.
Qed.
Lemma AckI_set_ls s l : AckI a s -> AckI a (set_ls s l).
Proof. intro H. unfold set_ls. apply AckI_set_caps; [exact H|apply (proj1 H)]. Qed.
Lemma f_addcaps items : forall s, AckI a s -> ok (addCapabilities c items s).
Proof.
  induction items as [|item items IH]; intros s H; cbn [addCapabilities]; [apply ok_ret; exact H|].
  apply ok_andthen; [|intros s1 H1; apply IH; exact H1].
  destruct (split1 [61] (strip_eq_tilde (length item) item)) as [[cp value]|].
  - fs; [destruct (seq_eqb cp s_sts); [apply f_sts; exact H|apply ok_ret; exact H]|]. apply ok_ret. apply AckI_set_ls. assumption.
  - fs; [destruct (seq_eqb _ s_sts); [apply f_reconnect; exact H|apply ok_ret; exact H]|]. apply ok_ret. apply AckI_set_ls. assumption.
Qed.
Lemma f_request s caps0 : AckI a s -> ok (requestCaps s caps0).
Proof.
  intro H. unfold requestCaps. apply ok_fold.
  - apply ok_emit; [apply AckI_set_caps; [exact H|apply (proj1 H)]|exact Logic.I].
  - intros s1 line H1. apply ok_emit; [exact H1|exact Logic.I].
Qed.
Lemma f_ls s args : AckI a s -> ok (doCapLs c s args).
Proof.
  intro H. unfold doCapLs.
  destruct args as [|x0 [|x1 [|x2 [|x3 [|x4 r]]]]]; try (apply ok_ret; exact H).
  - fs; [apply f_addcaps; exact H|]. fs; [apply ok_ret; assumption|]. fs; [apply f_expect; assumption|].
    destruct (new_caps c s1) as [|y nc]; [apply f_endCap; assumption|].
    fs; [apply f_request; assumption|]. fs; [apply ok_ret|apply f_endCap]; assumption.
  - fs; [apply ok_ret; exact H|apply f_addcaps; exact H].
Qed.
Lemma f_new s args : AckI a s -> ok (doCapNew c s args).
Proof.
  intro H. unfold doCapNew. destruct args as [|x0 [|x1 [|x2 [|x3 r]]]]; try (apply ok_ret; exact H).
  destruct (words x2) as [|w ws] eqn:Ew; [apply ok_raise; exact H|]. rewrite <- Ew.
  fs; [apply f_addcaps; exact H|]. fs; [apply ok_ret; assumption|].
  destruct (new_caps c s0) as [|y nc]; [apply ok_ret; assumption|]. apply f_request. assumption.
Qed.
Lemma f_nak s args : AckI a s -> ok (doCapNak c s args).
Proof.
  intro H. unfold doCapNak. destruct args as [|a0 [|a1 [|a2 [|a3 r]]]]; try (apply ok_ret; exact H).
  destruct (words a2); [apply ok_raise; exact H|]. apply f_upkeep. apply AckI_set_caps; [exact H|apply (proj1 H)].
Qed.
(* CAP ACK: the acknowledged names are in a already *)
Lemma f_ack s args : (forall x, In x (words (last args [])) -> In x a) -> AckI a s -> ok (doCapAck c s args).
Proof.
  intros Hw H. unfold doCapAck. destruct args as [|a0 [|a1 [|a2 [|a3 r]]]]; try (apply ok_ret; exact H).
  destruct (words a2) as [|w ws] eqn:Ew; [apply ok_raise; exact H|]. apply f_upkeep. apply AckI_set_caps; [exact H|].
  intros x Hx. apply In_sunion in Hx as [Hx|Hx]; [apply (proj1 H); exact Hx|]. apply Hw. cbn [last]. rewrite Ew. exact Hx.
Qed.
Lemma f_del s args : AckI a s -> ok (doCapDel s args).
Proof.
  intro H. unfold doCapDel. destruct args as [|a0 [|a1 [|a2 [|a3 r]]]]; try (apply ok_ret; exact H).
  destruct (words a2) as [|w ws]; [apply ok_raise; exact H|]. apply ok_ret.
  generalize (w :: ws). intro l. revert s H. induction l as [|x l IH]; intros s H; [exact H|]. cbn [fold_left]. apply IH.
  destruct H as [H1 H2]. split; cbn [ack g_acked]; [|exact H2]. intros y Hy. apply H1. eapply In_sremove. exact Hy.
Qed.
Lemma f_chunks s chunks : AckI a s -> ok (send_chunks s chunks).
Proof.
  intro H. unfold send_chunks. apply ok_fold; [apply ok_ret; exact H|].
  intros s1 ch H1. apply ok_emit; [exact H1|]. cbn [OutF]. exact (proj2 H1).
Qed.
Lemma f_auth s args b e : AckI a s -> ok (doAuthenticate c s args b e).
Proof.
  intro H. unfold doAuthenticate. fs; [apply f_expect; exact H|].
  destruct args as [|chunk rest]; [apply ok_raise; same|].
  destruct (match dec s0 with Some d => d | None => ([], false) end) as [chunks ready].
  repeat (first [ fs | apply f_chunks; same | apply ok_emit; [same|exact Logic.I] | same | assumption ]).
Qed.
Lemma f_903 s : AckI a s -> ok (do903 c s).
Proof. intro H. unfold do903. fs; [apply f_transition; same|]. fs; [apply f_endCap|apply ok_ret]; assumption. Qed.
Lemma f_376 s : AckI a s -> ok (do376 c s).
Proof.
  intro H. unfold do376. fs; [apply f_reconnect; exact H|]. fs; [apply f_transition; exact H|].
  fs; [apply ok_emit; [same|exact Logic.I]|apply ok_ret; same].
Qed.
End F.

Theorem step_ack c a s m : AckI a s -> okR (AckI (upd_ack m a)) (OutF (upd_ack m a)) (step c s m).
Proof.
  intro H. destruct m as [args|args b e|code args|args|args|]; cbn [step upd_ack].
  - destruct (cap_sub args) as [sub|] eqn:Es; [|apply ok_ret; exact H].
    destruct (seq_eqb sub [108;115]) eqn:E1.
    { apply seq_eqb_eq in E1. subst sub. change (seq_eqb [108;115] [97;99;107]) with false. cbv iota. apply f_ls. exact H. }
    destruct (seq_eqb sub [97;99;107]) eqn:E2.
    { destruct args as [|x0 [|x1 [|x2 [|x3 r]]]]; try (unfold doCapAck; apply ok_ret; exact H).
      apply f_ack; [intros x Hx; apply In_sunion; right; exact Hx|].
      eapply AckI_mono; [|exact H]. intros x Hx. apply In_sunion. left. exact Hx. }
    destruct (seq_eqb sub [110;97;107]); [apply f_nak; exact H|].
    destruct (seq_eqb sub [110;101;119]); [apply f_new; exact H|].
    destruct (seq_eqb sub [100;101;108]); [apply f_del; exact H|apply ok_ret; exact H].
  - apply f_auth. exact H.
  - repeat (first [ match goal with |- okR _ _ (if ?b then _ else _) => destruct b end
                  | apply f_903 | apply f_tryNext | apply f_transition | apply f_376 | assumption ]).
    + unfold do908. destruct args as [|x [|y r]]; apply ok_raise; exact H.
    + unfold do43x. destruct (after s); [apply ok_ret|apply ok_emit; [|exact Logic.I]]; exact H.
    + apply ok_ret. exact H.
  - unfold doError. destruct args as [|t r]; [apply ok_raise; exact H|].
    repeat (first [ match goal with |- okR _ _ (if ?b then _ else _) => destruct b end | apply f_reconnect | apply ok_ret | assumption ]).
  - unfold doPing. destruct args; [apply ok_raise|apply ok_emit; [|exact Logic.I]]; exact H.
  - apply f_reset.
Qed.

(* every history: the outputs tagged with the server's acknowledged set at the time *)
Fixpoint run_tag_ack (c : cfg) (s : st) (a : list str) (ms : list inmsg) : st * list str * list (outev * list str) :=
  match ms with
  | [] => (s, a, [])
  | m :: r => let '(s1, o1, _) := step c s m in
              let a1 := upd_ack m a in
              let '(s2, a2, o2) := run_tag_ack c s1 a1 r in (s2, a2, map (fun o => (o, a1)) o1 ++ o2)
  end.
Theorem run_ack c ms : forall s a, AckI a s ->
  let r := run_tag_ack c s a ms in
  AckI (snd (fst r)) (fst (fst r)) /\ Forall (fun oa => OutF (snd oa) (fst oa)) (snd r).
Proof.
  induction ms as [|m ms IH]; intros s a H; [split; [exact H|constructor]|]. cbv zeta. cbn [run_tag_ack].
  destruct (step_ack c a s m H) as [Hi Ho]. destruct (step c s m) as [[s1 o1] e1]. cbn [rstate routs fst snd] in Hi, Ho.
  specialize (IH s1 (upd_ack m a) Hi). cbv zeta in IH. destruct (run_tag_ack c s1 (upd_ack m a) ms) as [[s2 a2] o2]. cbn [fst snd] in *.
  destruct IH as [Hi2 Ho2]. split; [exact Hi2|]. apply Forall_app. split; [|exact Ho2].
  apply Forall_forall. intros [o a'] Hin. apply in_map_iff in Hin as [o' [E Hin]]. inversion E; subst. cbn [fst snd].
  rewrite Forall_forall in Ho. apply Ho. exact Hin.
Qed.
Lemma run_tag_ack_outs c ms : forall s a, map fst (snd (run_tag_ack c s a ms)) = snd (run_msgs c s ms).
Proof.
  induction ms as [|m ms IH]; intros s a; [reflexivity|]. cbn [run_tag_ack run_msgs]. destruct (step c s m) as [[s1 o1] e1].
  specialize (IH s1 (upd_ack m a)). destruct (run_tag_ack c s1 (upd_ack m a) ms) as [[s2 a2] o2]. destruct (run_msgs c s1 ms) as [s3 o3].
  cbn [snd] in *. rewrite map_app, map_map, IH. cbn [fst]. rewrite map_id. reflexivity.
Qed.

(* a NAKed request is not an acknowledgement: LS sasl batch / NAK batch sasl / AUTHENTICATE +: no credentials, ack stays empty *)
Example nak_is_not_ack :
  let c := Cfg [s_sasl; [98;97;116;99;104]] false [s_plain] [[65;65;65;65]] [] None false false true [104] 3 in
  let ms := [ICap [[42]; s_LS; s_sasl ++ [32] ++ [98;97;116;99;104]]; ICap [[42]; [78;65;75]; [98;97;116;99;104] ++ [32] ++ s_sasl];
             IAuth [s_PLUS] true true] in
  let r := run_msgs c (rstate (reset c (fresh c false))) ms in
  ack (fst r) = [] /\ existsb (fun o => match o with SendCred _ _ => true | _ => false end) (snd r) = false.
Proof. vm_compute. split; reflexivity. Qed.
