(* C08/PassB.v — on the domain "the server sends no CAP NEW / CAP DEL":
   CAP END is only ever sent when no capability request is outstanding *)
From Coq Require Import List NArith ZArith Bool Arith Lia.
Import ListNotations.
Require Import Base.Wire Base.PyStr C08.Model C08.Frame.
Open Scope N_scope.

Definition answered (s : st) : Prop :=
  forall x, In x (req s) -> In x (ack s) \/ In x (nak s).

Record InvB (c : cfg) (s : st) : Prop := {
  (* everything requested was advertised and is wanted *)
  b_req : forall x, In x (req s) -> smem x (c_wanted c) = true /\ In x (map fst (ls s));
  (* during the initial SASL exchange no request is outstanding *)
  b_sasl : fsm s = INIT_SASL -> answered s
}.

Definition OutB (o : outev) : Prop :=
  match o with GEnd _ outstanding => outstanding = [] | _ => True end.

Lemma In_sadd x y l : In x (sadd y l) <-> x = y \/ In x l.
Proof.
  unfold sadd. destruct (smem y l) eqn:E.
  - apply smem_In in E. split; [auto|]. intros [H|H]; [subst; exact E|exact H].
  - rewrite in_app_iff. cbn. intuition congruence.
Qed.

Lemma In_sunion x a b : In x (sunion a b) <-> In x a \/ In x b.
Proof.
  unfold sunion. revert a. induction b as [|y b IH]; intro a; cbn [fold_left]; [cbn; tauto|].
  rewrite IH, In_sadd. cbn. intuition congruence.
Qed.

Lemma sdiff_nil a b : (forall x, In x a -> In x b) -> sdiff a b = [].
Proof.
  intro H. unfold sdiff. induction a as [|x a IH]; [reflexivity|]. cbn [filter].
  assert (Hx : smem x b = true) by (apply smem_In; apply H; left; reflexivity).
  rewrite Hx. cbn [negb]. apply IH. intros y Hy. apply H. right. exact Hy.
Qed.

Lemma sdiff_nil_inv a b : sdiff a b = [] -> forall x, In x a -> In x b.
Proof.
  unfold sdiff. intros H x Hx. destruct (smem x b) eqn:E; [apply smem_In; exact E|].
  assert (In x (filter (fun y => negb (smem y b)) a)) by (apply filter_In; split; [exact Hx|rewrite E; reflexivity]).
  rewrite H in H0. destruct H0.
Qed.

Lemma ssubset_In a b : ssubset a b = true -> forall x, In x a -> In x b.
Proof. unfold ssubset. intros H x Hx. rewrite forallb_forall in H. apply smem_In. apply H. exact Hx. Qed.

Lemma keys_dict_set {A} k (v : A) d x : In x (map fst d) -> In x (map fst (dict_set k v d)).
Proof.
  induction d as [|[k2 w] d IH]; cbn [dict_set map fst]; [intros []|].
  destruct (seq_eqb k k2); cbn [map fst In]; intuition.
Qed.

Section B.
Variable c : cfg.
Notation ok := (okR (InvB c) OutB).

Ltac okstep :=
  match goal with
  | |- okR _ _ (ret _) => apply ok_ret
  | |- okR _ _ (raise _ _) => apply ok_raise
  | |- okR _ _ (_ >>> _) => apply ok_andthen; [|intros ? ?]
  | |- okR _ _ (if ?b then _ else _) => destruct b eqn:?
  | |- okR _ _ (match ?x with _ => _ end) => destruct x eqn:?
  end.

Lemma InvB_fresh z : InvB c (fresh c z).
Proof. split; cbn; [intros x []|discriminate]. Qed.

Lemma ok_send s cmd args : InvB c s -> ok (send s cmd args).
Proof. intro H. apply ok_emit; [exact H|exact Logic.I]. Qed.

Lemma ok_expect l s : InvB c s -> ok (expect l s).
Proof. intro H. unfold expect. destruct (mem (fsm s) l); [apply ok_ret|apply ok_raise]; exact H. Qed.

(* transitions that do not enter a SASL state keep the invariant *)
Lemma ok_transition tbl s : avoids_sasl tbl = true -> InvB c s -> ok (transition tbl s).
Proof.
  intros Ha [B1 B2]. unfold transition. destruct (fire tbl (fsm s)) as [t|] eqn:Ef; [|apply ok_raise; split; assumption].
  apply ok_ret. split; cbn [set_fsm req ack nak ls fsm]; [exact B1|].
  intro Ht. pose proof (avoids_sasl_fire _ _ _ Ha Ef) as Hn. rewrite Ht in Hn. discriminate.
Qed.

Lemma ok_transition_sasl s : answered s -> InvB c s -> ok (transition gen.T08.EV_on_sasl_cap s).
Proof.
  intros Hans [B1 B2]. unfold transition. destruct (fire gen.T08.EV_on_sasl_cap (fsm s)) as [t|]; [|apply ok_raise; split; assumption].
  apply ok_ret. split; cbn [set_fsm req ack nak ls fsm]; [exact B1|intros _; exact Hans].
Qed.

Lemma ok_queue_connect s : InvB c s -> ok (queue_connect c s).
Proof.
  intro H. unfold queue_connect. destruct tables_avoid_sasl as [S1 _].
  repeat (first [okstep | apply ok_send | apply ok_transition | apply ok_emit | assumption | exact Logic.I]).
Qed.
Lemma ok_reset s : ok (reset c s).
Proof. unfold reset. apply ok_queue_connect. apply InvB_fresh. Qed.
Lemma ok_reconnect s srv w : InvB c s -> ok (reconnect c s srv w).
Proof. intro H. unfold reconnect. apply ok_andthen; [apply ok_emit; [exact H|exact Logic.I]|]. intros; apply ok_reset. Qed.

Lemma answered_set_fsm s t : answered s -> answered (set_fsm s t).
Proof. intro H. exact H. Qed.

Lemma ok_endCap s : InvB c s -> answered s -> ok (endCap s).
Proof.
  intros [B1 B2] Hans. unfold endCap, transition.
  destruct (fire gen.T08.EV_on_cap_end (fsm s)) as [t|] eqn:Ef; [|apply ok_raise; split; assumption].
  destruct (cap_end_fire _ _ Ef) as [_ [Htl _]].
  cbn [ret andthen]. unfold send, emit. cbn [andthen app].
  split; cbn [rstate routs fst snd].
  - split; cbn [set_fsm req ack nak ls fsm]; [exact B1|].
    intro Ht. rewrite Ht in Htl. discriminate.
  - constructor; [|constructor; [exact Logic.I|constructor]].
    cbn [OutB set_fsm req ack nak]. apply sdiff_nil. intros x Hx. apply In_sunion. apply Hans. exact Hx.
Qed.

Lemma InvB_with_sasl s nx cur : InvB c s -> InvB c (with_sasl s nx cur).
Proof. intros [B1 B2]. split; assumption. Qed.
Lemma InvB_set_dec s d : InvB c s -> InvB c (set_dec s d).
Proof. intros [B1 B2]. split; assumption. Qed.
Lemma InvB_set_after s : InvB c s -> InvB c (set_after s).
Proof. intros [B1 B2]. split; assumption. Qed.

(* leaving the SASL exchange: the only way back to INIT_CAP is from INIT_SASL *)
Definition auth_finished_ok (tbl : list (N * N)) : bool :=
  forallb (fun ft => negb (N.eqb (fst ft) 0) && (negb (N.eqb (snd ft) INIT_CAP) || N.eqb (fst ft) INIT_SASL)) tbl.
Lemma auth_finished_current : auth_finished_ok gen.T08.EV_on_sasl_auth_finished = true.
Proof. vm_compute. reflexivity. Qed.

Lemma auth_finished_from x : fire gen.T08.EV_on_sasl_auth_finished x = Some INIT_CAP -> x = INIT_SASL.
Proof.
  intro Hf. destruct (fire_In _ _ _ Hf) as [f [Hin Hfx]].
  pose proof auth_finished_current as Hc. unfold auth_finished_ok in Hc. rewrite forallb_forall in Hc.
  specialize (Hc _ Hin). cbn [fst snd] in Hc. apply andb_true_iff in Hc as [H0 H1].
  apply negb_true_iff in H0. destruct Hfx as [E|E]; [subst; discriminate|]. subst f.
  change (N.eqb INIT_CAP INIT_CAP) with true in H1. cbn [negb orb] in H1. apply N.eqb_eq in H1. exact H1.
Qed.

(* after on_sasl_auth_finished: if we are back in INIT_CAP, nothing is outstanding *)
Lemma finish_then_end s :
  InvB c s ->
  ok (transition gen.T08.EV_on_sasl_auth_finished s >>> fun s => if N.eqb (fsm s) INIT_CAP then endCap s else ret s).
Proof.
  intro H. pose proof H as [B1 B2]. unfold transition.
  destruct (fire gen.T08.EV_on_sasl_auth_finished (fsm s)) as [t|] eqn:Ef; [|rewrite andthen_raise; apply ok_raise; exact H].
  rewrite andthen_ret. cbn [set_fsm fsm].
  assert (HI : InvB c (set_fsm s t)).
  { split; cbn [set_fsm req ack nak ls fsm]; [exact B1|]. intro Ht. subst t.
    pose proof tables_avoid_sasl as [_ [Hs _]]. pose proof (avoids_sasl_fire _ _ _ Hs Ef) as Hn. discriminate. }
  destruct (N.eqb t INIT_CAP) eqn:Et; [|apply ok_ret; exact HI].
  apply N.eqb_eq in Et. subst t. apply ok_endCap; [exact HI|].
  apply answered_set_fsm. apply B2. apply auth_finished_from. exact Ef.
Qed.

Lemma ok_tryNextSasl s : InvB c s -> ok (tryNextSasl c s).
Proof.
  intro H. unfold tryNextSasl. okstep; [apply ok_expect; exact H|].
  okstep.
  - okstep; [apply ok_ret; assumption|]. apply finish_then_end. apply InvB_with_sasl. assumption.
  - apply ok_send. apply InvB_with_sasl. assumption.
Qed.

Lemma ok_maybeStartSasl s : InvB c s -> answered s -> ok (maybeStartSasl c s).
Proof.
  intros H Hans. unfold maybeStartSasl. okstep; [|apply ok_ret; exact H].
  okstep; [apply ok_transition_sasl; assumption|].
  okstep; [|apply ok_raise; assumption].
  apply ok_tryNextSasl. destruct o; [apply InvB_with_sasl|]; assumption.
Qed.

Lemma ok_capUpkeep s : InvB c s -> ok (capUpkeep c s).
Proof.
  intro H. unfold capUpkeep, expect.
  destruct (mem (fsm s) gen.T08.EXPECT_capUpkeep); [|rewrite andthen_raise; apply ok_raise; exact H].
  rewrite andthen_ret.
  destruct (negb (ssubset (sunion (ack s) (nak s)) (req s))); [apply ok_reconnect; exact H|].
  destruct (ssubset (req s) (sunion (ack s) (nak s))) eqn:Es; [|apply ok_ret; exact H].
  assert (Hans : answered s).
  { intros x Hx. apply In_sunion. eapply ssubset_In; [exact Es|exact Hx]. }
  repeat (first [okstep | apply ok_maybeStartSasl | apply ok_endCap | assumption]).
Qed.

(* the capability sets only grow in ls / ack / nak: both parts of the invariant survive *)
Lemma InvB_grow s l rq ak nk :
  InvB c s ->
  (forall x, In x (map fst (ls s)) -> In x (map fst l)) ->
  (forall x, In x rq -> (In x (req s) \/ (smem x (c_wanted c) = true /\ In x (map fst l)))) ->
  (forall x, In x (ack s) -> In x ak) -> (forall x, In x (nak s) -> In x nk) ->
  (fsm s = INIT_SASL -> forall x, In x rq -> In x (req s)) ->
  InvB c (set_caps s l rq ak nk).
Proof.
  intros [B1 B2] Hl Hr Ha Hn Hs. split; cbn [set_caps req ack nak ls fsm].
  - intros x Hx. destruct (Hr x Hx) as [H|H]; [|exact H]. destruct (B1 x H) as [H1 H2]. split; [exact H1|apply Hl; exact H2].
  - intros Hf x Hx. destruct (B2 Hf x (Hs Hf x Hx)) as [H|H]; [left; apply Ha|right; apply Hn]; exact H.
Qed.

Lemma InvB_set_ls s l : InvB c s -> (forall x, In x (map fst (ls s)) -> In x (map fst l)) -> InvB c (set_ls s l).
Proof. intros H Hl. unfold set_ls. apply InvB_grow; auto. Qed.

Lemma ok_onCapSts s policy : InvB c s -> ok (onCapSts c s policy).
Proof.
  intro H. unfold onCapSts. destruct tables_avoid_sasl as [_ [_ [_ [_ [_ S7]]]]].
  okstep; [|apply ok_ret; exact H].
  okstep; [apply ok_emit; [exact H|exact Logic.I]|].
  okstep; [apply ok_transition; assumption|]. apply ok_reconnect. assumption.
Qed.

Lemma ok_addCapabilities items : forall s, InvB c s -> ok (addCapabilities c items s).
Proof.
  induction items as [|item items IH]; intros s H; cbn [addCapabilities]; [apply ok_ret; exact H|].
  apply ok_andthen; [|intros s1 H1; apply IH; exact H1].
  okstep.
  - destruct p as [cap value]. okstep.
    + okstep; [apply ok_onCapSts; exact H|apply ok_ret; exact H].
    + apply ok_ret. apply InvB_set_ls; [assumption|]. intros x Hx. apply keys_dict_set. exact Hx.
  - okstep.
    + okstep; [apply ok_reconnect; exact H|apply ok_ret; exact H].
    + apply ok_ret. apply InvB_set_ls; [assumption|]. intros x Hx. apply keys_dict_set. exact Hx.
Qed.

Lemma new_caps_sound s x :
  In x (new_caps c s) -> smem x (c_wanted c) = true /\ In x (map fst (ls s)).
Proof.
  unfold new_caps, sdiff. intro H. apply filter_In in H as [H _]. apply filter_In in H as [H1 H2]. auto.
Qed.

Lemma ok_requestCaps s caps0 :
  InvB c s -> fsm s <> INIT_SASL ->
  (forall x, In x caps0 -> smem x (c_wanted c) = true /\ In x (map fst (ls s))) ->
  ok (requestCaps s caps0).
Proof.
  intros H Hf Hc. unfold requestCaps.
  set (sorted := sort_strs caps0).
  set (caps := if smem s_echo sorted && negb (smem s_label (ack s))
               then (if smem s_label (sremove s_echo sorted)
                     then s_echo :: s_label :: sremove s_label (sremove s_echo sorted)
                     else sremove s_echo sorted)
               else sorted).
  assert (Hsub : forall x, In x caps -> In x caps0).
  { intros x Hx. unfold caps in Hx.
    destruct (smem s_echo sorted && negb (smem s_label (ack s))) eqn:E.
    - apply andb_true_iff in E as [E1 _]. apply smem_In in E1.
      destruct (smem s_label (sremove s_echo sorted)) eqn:E2.
      + apply smem_In in E2. apply In_sremove in E2.
        destruct Hx as [Hx|[Hx|Hx]]; subst; [apply In_sort_strs; exact E1|apply In_sort_strs; exact E2|].
        apply In_sort_strs. apply In_sremove in Hx. apply In_sremove in Hx. exact Hx.
      + apply In_sort_strs. apply In_sremove in Hx. exact Hx.
    - apply In_sort_strs. exact Hx. }
  apply ok_fold.
  - apply ok_emit; [|exact Logic.I]. apply InvB_grow; auto.
    + intros x Hx. apply In_sunion in Hx as [Hx|Hx]; [left; exact Hx|right; apply Hc; apply Hsub; exact Hx].
    + intro E. contradiction.
  - intros s1 line H1. apply ok_emit; [exact H1|exact Logic.I].
Qed.

Lemma expect_ls_not_sasl : forallb (fun x => negb (N.eqb x INIT_SASL)) gen.T08.EXPECT_doCapLs = true.
Proof. vm_compute. reflexivity. Qed.

Lemma ok_doCapLs s args : InvB c s -> ok (doCapLs c s args).
Proof.
  intro H. unfold doCapLs.
  destruct args as [|a0 [|a1 [|a2 [|a3 [|a4 r]]]]]; try (apply ok_ret; exact H).
  - okstep; [apply ok_addCapabilities; exact H|].
    okstep; [apply ok_ret; assumption|].
    unfold expect. destruct (mem (fsm s0) gen.T08.EXPECT_doCapLs) eqn:Ex; [|rewrite andthen_raise; apply ok_raise; assumption].
    rewrite andthen_ret.
    assert (Hns : fsm s0 <> INIT_SASL).
    { intro E. pose proof expect_ls_not_sasl as Hl. rewrite forallb_forall in Hl.
      specialize (Hl _ (proj1 (mem_In _ _) Ex)). rewrite E in Hl. discriminate. }
    destruct (new_caps c s0) as [|x nc] eqn:En.
    + apply ok_endCap; [assumption|].
      (* nothing wanted and advertised is unacknowledged, and everything requested was wanted and advertised *)
      intros y Hy. left. destruct (b_req _ _ H0 y Hy) as [Hw Hk].
      unfold new_caps in En. eapply sdiff_nil_inv; [exact En|]. apply filter_In. split; [exact Hk|exact Hw].
    + apply ok_requestCaps; [assumption|exact Hns|]. intros y Hy. apply new_caps_sound. rewrite En. exact Hy.
  - okstep; [apply ok_ret; exact H|apply ok_addCapabilities; exact H].
Qed.

Lemma ok_doCapAck s args : InvB c s -> ok (doCapAck c s args).
Proof.
  intro H. unfold doCapAck.
  destruct args as [|a0 [|a1 [|a2 [|a3 r]]]]; try (apply ok_ret; exact H).
  destruct (words a2); [apply ok_raise; exact H|]. apply ok_capUpkeep.
  apply InvB_grow; auto. intros x Hx. apply In_sunion. left. exact Hx.
Qed.

Lemma ok_doCapNak s args : InvB c s -> ok (doCapNak c s args).
Proof.
  intro H. unfold doCapNak.
  destruct args as [|a0 [|a1 [|a2 [|a3 r]]]]; try (apply ok_ret; exact H).
  destruct (words a2); [apply ok_raise; exact H|]. apply ok_capUpkeep.
  apply InvB_grow; auto. intros x Hx. apply In_sunion. left. exact Hx.
Qed.

Lemma ok_send_chunks s chunks : InvB c s -> ok (send_chunks s chunks).
Proof.
  intro H. unfold send_chunks. apply ok_fold; [apply ok_ret; exact H|].
  intros s1 ch H1. apply ok_emit; [exact H1|exact Logic.I].
Qed.

Lemma ok_doAuthenticate s args b64ok empty : InvB c s -> ok (doAuthenticate c s args b64ok empty).
Proof.
  intro H. unfold doAuthenticate. okstep; [apply ok_expect; exact H|].
  destruct args as [|chunk rest]; [apply ok_raise; apply InvB_set_dec; assumption|].
  destruct (match dec s0 with Some d => d | None => ([], false) end) as [chunks ready].
  repeat (first [ okstep
                | apply ok_send_chunks; apply InvB_set_dec; assumption
                | apply ok_send; apply InvB_set_dec; assumption
                | apply InvB_set_dec; assumption
                | assumption ]).
Qed.

Lemma ok_do903 s : InvB c s -> ok (do903 s).
Proof.
  intro H. unfold do903. apply finish_then_end. destruct H as [B1 B2]. split; assumption.
Qed.

Lemma ok_do376 s : InvB c s -> ok (do376 c s).
Proof.
  intro H. unfold do376. destruct tables_avoid_sasl as [_ [_ [_ [_ [S5 _]]]]].
  okstep; [apply ok_transition; assumption|].
  okstep; [apply ok_send|apply ok_ret]; apply InvB_set_after; assumption.
Qed.

Lemma ok_doError s args : InvB c s -> ok (doError c s args).
Proof.
  intro H. unfold doError. destruct args as [|t r]; [apply ok_raise; exact H|].
  repeat (first [okstep | apply ok_reconnect | assumption]).
Qed.

(* the domain: no CAP NEW, no CAP DEL *)
Definition no_newdel (m : inmsg) : bool :=
  match m with
  | ICap args => match cap_sub args with
                 | Some sub => negb (seq_eqb sub [110;101;119]) && negb (seq_eqb sub [100;101;108])
                 | None => true
                 end
  | _ => true
  end.

Theorem ok_step s m : no_newdel m = true -> InvB c s -> ok (step c s m).
Proof.
  intros Hd H. destruct tables_avoid_sasl as [_ [_ [_ [S4 _]]]].
  destruct m as [args|args b64ok empty|code args|args|args|]; cbn [step].
  - cbn [no_newdel] in Hd. destruct (cap_sub args) as [sub|]; [|apply ok_ret; exact H].
    apply andb_true_iff in Hd as [Hn Hdl]. apply negb_true_iff in Hn, Hdl. rewrite Hn, Hdl.
    repeat (first [okstep | apply ok_doCapLs | apply ok_doCapAck | apply ok_doCapNak | assumption]).
  - apply ok_doAuthenticate. exact H.
  - repeat (first [okstep | apply ok_do903 | apply ok_tryNextSasl | apply ok_transition
                  | apply ok_do376 | apply ok_send | assumption]).
    + unfold do908. destruct args as [|a [|b r]]; apply ok_raise; exact H.
    + unfold do43x. destruct (after s); [apply ok_ret|apply ok_send]; exact H.
  - apply ok_doError. exact H.
  - unfold doPing. destruct args; [apply ok_raise|apply ok_send]; exact H.
  - apply ok_reset.
Qed.

Theorem ok_run ms : forall s, forallb no_newdel ms = true -> InvB c s ->
  InvB c (fst (run_msgs c s ms)) /\ Forall OutB (snd (run_msgs c s ms)).
Proof.
  induction ms as [|m ms IH]; intros s Hd H; [split; [exact H|constructor]|].
  cbn [forallb] in Hd. apply andb_true_iff in Hd as [Hm Hd].
  cbn [run_msgs]. destruct (ok_step s m Hm H) as [Hi Ho].
  destruct (step c s m) as [[s1 o1] e1]. cbn [rstate routs fst snd] in Hi, Ho.
  destruct (IH s1 Hd Hi) as [Hi2 Ho2]. destruct (run_msgs c s1 ms) as [s2 o2]. cbn [fst snd] in *.
  split; [exact Hi2|apply Forall_app; split; assumption].
Qed.
End B.
