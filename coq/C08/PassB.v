(* C08/PassB.v — CAP END is only ever sent when no capability request is
   outstanding: for EVERY message sequence (CAP NEW / CAP DEL included) and from
   every state.  endCapabilityNegociation itself now refuses while a CAP REQ is
   unanswered (fix of finding C08.F7); capUpkeep / _maybeStartSasl come back to
   it when the answer arrives. *)
From Coq Require Import List NArith ZArith Bool Arith Lia.
Import ListNotations.
Require Import Base.Wire Base.PyStr C08.Model C08.Frame.
Open Scope N_scope.

(* the ghost event of a CAP END records req - (ack | nak) at that moment *)
Definition OutB (o : outev) : Prop :=
  match o with GEnd _ outstanding _ => outstanding = [] | _ => True end.
Definition TB (s : st) : Prop := True.

Lemma In_sadd x y l : In x (sadd y l) <-> x = y \/ In x l.
Proof.
  unfold sadd. destruct (smem y l) eqn:E.
  - apply smem_In in E. split; [auto|]. intros [H|H]; [subst; exact E|exact H].
  - rewrite in_app_iff. cbn. intuition congruence.
Qed.

Lemma In_sunion x a b : In x (sunion a b) <-> In x a \/ In x b.
Proof.
  unfold sunion. revert a. induction b as [|y b IH]; intro a; cbn [fold_left]; [cbn; tauto|].
  rewrite IH, In_sadd. cbn. intuition congruence.
Qed.

Lemma sdiff_nil a b : (forall x, In x a -> In x b) -> sdiff a b = [].
Proof.
  intro H. unfold sdiff. induction a as [|x a IH]; [reflexivity|]. cbn [filter].
  assert (Hx : smem x b = true) by (apply smem_In; apply H; left; reflexivity).
  rewrite Hx. cbn [negb]. apply IH. intros y Hy. apply H. right. exact Hy.
Qed.

Lemma sdiff_nil_inv a b : sdiff a b = [] -> forall x, In x a -> In x b.
Proof.
  unfold sdiff. intros H x Hx. destruct (smem x b) eqn:E; [apply smem_In; exact E|].
  assert (In x (filter (fun y => negb (smem y b)) a)) by (apply filter_In; split; [exact Hx|rewrite E; reflexivity]).
  rewrite H in H0. destruct H0.
Qed.

(* the guard of endCapabilityNegociation (req - ack - nak empty) is the spec's
   "nothing outstanding" (req - (ack | nak) empty) *)
Lemma outstanding_nil s : outstanding s = [] -> sdiff (req s) (sunion (ack s) (nak s)) = [].
Proof.
  unfold outstanding. intro H. apply sdiff_nil. intros x Hx. apply In_sunion.
  destruct (smem x (ack s)) eqn:E; [left; apply smem_In; exact E|right].
  apply (sdiff_nil_inv _ _ H). unfold sdiff. apply filter_In. split; [exact Hx|rewrite E; reflexivity].
Qed.

Section B.
Variable c : cfg.
Notation ok := (okR TB OutB).

Ltac okstep :=
  match goal with
  | |- okR _ _ (ret _) => apply ok_ret; exact Logic.I
  | |- okR _ _ (raise _ _) => apply ok_raise; exact Logic.I
  | |- okR _ _ (emit _ (GEnd _ _ _)) => fail 1
  | |- okR _ _ (emit _ _) => apply ok_emit; [exact Logic.I|exact Logic.I]
  | |- okR _ _ (send _ _ _) => apply ok_emit; [exact Logic.I|exact Logic.I]
  | |- okR _ _ (_ >>> _) => apply ok_andthen; [|intros ? _]
  | |- okR _ _ (if ?b then _ else _) => destruct b
  | |- okR _ _ (match ?x with _ => _ end) => destruct x
  end.

Lemma b_transition tbl s : ok (transition tbl s).
Proof. unfold transition. repeat okstep. Qed.
Lemma b_expect l s : ok (expect l s).
Proof. unfold expect. repeat okstep. Qed.
Lemma b_queue s : ok (queue_connect c s).
Proof. unfold queue_connect. repeat (first [apply b_transition | okstep]). Qed.
Lemma b_reset s : ok (reset c s).
Proof. apply b_queue. Qed.
Lemma b_reconnect s srv w : ok (reconnect c s srv w).
Proof. unfold reconnect. repeat (first [apply b_reset | okstep]). Qed.

(* the one place a CAP END is produced *)
Lemma b_endCap s : ok (endCap c s).
Proof.
  unfold endCap. destruct (required_unauth c s); [apply b_reconnect|].
  destruct (outstanding s) eqn:Eo; [|apply ok_ret; exact Logic.I].
  unfold transition. destruct (fire gen.T08.EV_on_cap_end (fsm s)) as [t|]; [|rewrite andthen_raise; apply ok_raise; exact Logic.I].
  rewrite andthen_ret. apply ok_andthen.
  - apply ok_emit; [exact Logic.I|]. cbn [OutB set_fsm req ack nak]. apply outstanding_nil. exact Eo.
  - intros s1 _. apply ok_emit; exact Logic.I.
Qed.

Lemma b_tryNext s : ok (tryNextSasl c s).
Proof. unfold tryNextSasl. repeat (first [apply b_transition | apply b_expect | apply b_endCap | apply b_reconnect | okstep]). Qed.
Lemma b_maybe s : ok (maybeStartSasl c s).
Proof. unfold maybeStartSasl. repeat (first [apply b_transition | apply b_tryNext | apply b_endCap | okstep]). Qed.
Lemma b_upkeep s : ok (capUpkeep c s).
Proof. unfold capUpkeep. repeat (first [apply b_expect | apply b_reconnect | apply b_maybe | apply b_endCap | okstep]). Qed.
Lemma b_sts s p : ok (onCapSts c s p).
Proof. unfold onCapSts. repeat (first [apply b_transition | apply b_reconnect | okstep]). Qed.
Lemma b_addcaps items : forall s, ok (addCapabilities c items s).
Proof.
  induction items as [|i items IH]; intro s; cbn [addCapabilities]; [okstep|].
  apply ok_andthen; [|intros s1 _; apply IH].
  repeat (first [apply b_sts | apply b_reconnect | okstep]).
Qed.
Lemma b_request s caps : ok (requestCaps s caps).
Proof. unfold requestCaps. apply ok_fold; [okstep|intros; okstep]. Qed.
Lemma b_ls s args : ok (doCapLs c s args).
Proof. unfold doCapLs. repeat (first [apply b_addcaps | apply b_expect | apply b_endCap | apply b_request | okstep]). Qed.
Lemma b_ack s args : ok (doCapAck c s args).
Proof. unfold doCapAck. repeat (first [apply b_upkeep | okstep]). Qed.
Lemma b_nak s args : ok (doCapNak c s args).
Proof. unfold doCapNak. repeat (first [apply b_upkeep | okstep]). Qed.
Lemma b_del s args : ok (doCapDel s args).
Proof. unfold doCapDel. repeat okstep. Qed.
Lemma b_new s args : ok (doCapNew c s args).
Proof. unfold doCapNew. repeat (first [apply b_addcaps | apply b_request | okstep]). Qed.
Lemma b_chunks s chunks : ok (send_chunks s chunks).
Proof. unfold send_chunks. apply ok_fold; [okstep|intros; okstep]. Qed.
Lemma b_auth s args b e : ok (doAuthenticate c s args b e).
Proof.
  unfold doAuthenticate. apply ok_andthen; [apply b_expect|intros s1 _].
  destruct args as [|chunk rest]; [okstep|].
  destruct (match dec s1 with Some d => d | None => ([], false) end) as [chunks ready].
  repeat (first [apply b_chunks | okstep]).
Qed.

Theorem ok_step s m : ok (step c s m).
Proof.
  destruct m as [args|args b e|code args|args|args|]; cbn [step].
  - repeat (first [apply b_ls | apply b_ack | apply b_nak | apply b_new | apply b_del | okstep]).
  - apply b_auth.
  - unfold do903, do908, do376, do43x.
    repeat (first [apply b_transition | apply b_endCap | apply b_tryNext | apply b_reconnect | okstep]).
  - unfold doError. repeat (first [apply b_reconnect | okstep]).
  - unfold doPing. repeat okstep.
  - apply b_reset.
Qed.

(* every history, from every state *)
Theorem ok_run ms : forall s, Forall OutB (snd (run_msgs c s ms)).
Proof.
  induction ms as [|m ms IH]; intro s; [constructor|].
  cbn [run_msgs]. destruct (ok_step s m) as [_ Ho].
  destruct (step c s m) as [[s1 o1] e1]. cbn [routs fst snd] in Ho.
  specialize (IH s1). destruct (run_msgs c s1 ms) as [s2 o2]. cbn [snd] in *.
  apply Forall_app; split; assumption.
Qed.
End B.
