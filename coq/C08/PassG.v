(* C08/PassG.v — Irc.reset() empties the fast queue: no line queued on one
   connection is ever handed to the driver on the next one.  Model.stepQ keeps
   the queue (tagged, as a ghost, with the number of the connection the line was
   queued on); a driver take hands over everything that is queued. *)
From Coq Require Import List NArith ZArith Bool Arith Lia.
Import ListNotations.
Require Import Base.Wire Base.PyStr C08.Model C08.Frame.
Open Scope N_scope.

(* every queued line belongs to the current connection *)
Definition QI (q : qst) : Prop := Forall (fun x => fst x = q_gen q) (q_items q).

Lemma last_conn_none_no_abort outs : last_conn outs = None -> count_abort outs = 0%nat.
Proof.
  unfold count_abort. induction outs as [|o r IH]; cbn [last_conn filter]; [reflexivity|].
  destruct (last_conn r); [discriminate|]. destruct (is_abort o); [discriminate|]. intro H. apply IH. reflexivity.
Qed.

Theorem stepQ_QI c na s n q m : QI q -> QI (snd (fst (fst (stepQ c na (s, n, q) m)))).
Proof.
  intro H. unfold stepQ. destruct (stepN c na (s, n) m) as [[[s' n'] o] e]. cbn [fst snd]. unfold QI. cbn [q_gen q_items].
  assert (Htag : forall g l, Forall (fun x : nat * outev => fst x = g) (map (fun x => (g, x)) l)).
  { intros g l. apply Forall_forall. intros x Hx. apply in_map_iff in Hx as [y [E _]]. subst x. reflexivity. }
  destruct (is_reset_msg m); [apply Htag|].
  destruct (last_conn o) as [suf|] eqn:El; [apply Htag|].
  rewrite (last_conn_none_no_abort o El). rewrite !Nat.add_0_r. apply Forall_app. split; [exact H|apply Htag].
Qed.

(* a history of server messages and driver takes; the log records, for every take, the connection number and what was handed over *)
Inductive qev := QMsg (m : inmsg) | QTake.
Fixpoint runQ (c : cfg) (na : nat) (snq : st * nk * qst) (evs : list qev) : list (nat * list (nat * outev)) :=
  match evs with
  | [] => []
  | QMsg m :: r => runQ c na (fst (fst (stepQ c na snq m))) r
  | QTake :: r => let '(s, n, q) := snq in (q_gen q, fst (takeQ q)) :: runQ c na (s, n, snd (takeQ q)) r
  end.

(* every line the driver is ever handed was queued on the connection it is sent on *)
Theorem taken_on_own_connection c na evs : forall s n q, QI q ->
  Forall (fun rec => Forall (fun x => fst x = fst rec) (snd rec)) (runQ c na (s, n, q) evs).
Proof.
  induction evs as [|e evs IH]; intros s n q H; cbn [runQ]; [constructor|]. destruct e as [m|].
  - pose proof (stepQ_QI c na s n q m H) as H1. destruct (stepQ c na (s, n, q) m) as [[[[s' n'] q'] o] e]. cbn [fst snd] in *. apply IH. exact H1.
  - constructor; [exact H|]. apply IH. unfold QI. cbn [takeQ snd q_items]. constructor.
Qed.

(* a driver reset: the queue is exactly the connect messages, CAP LS first *)
Theorem reset_queue_is_connect c na s n q :
  zombie s = false ->
  let r := stepQ c na (s, n, q) IReset in
  map snd (q_items (snd (fst (fst r)))) = filter is_line (routs (reset c s)) /\
  hd_error (filter is_line (routs (reset c s))) = Some (Send s_CAP [s_LS; s_302]).
Proof.
  intro Hz. cbv zeta. unfold stepQ, stepN. cbn [is43x is_reset_msg step]. destruct (reset c s) as [[s' o] e] eqn:Er. cbn [fst snd q_items routs].
  split; [rewrite map_map; cbn [snd]; rewrite map_id; reflexivity|].
  revert Er. unfold reset, queue_connect. cbn [fresh zombie]. rewrite Hz. unfold send, emit. cbn [andthen].
  destruct (c_password c); cbn [andthen ret app]; unfold transition; cbn [fsm];
    destruct (fire gen.T08.EV_on_init_messages_sent UNINIT); intro E; inversion E; reflexivity.
Qed.

(* the scenario of the seeded change: CAP ACK sasl and AUTHENTICATE + arrive in one batch, then ERROR :Closing link:
   what the driver takes afterwards is CAP LS / NICK / USER only *)
Example stale_credentials_dropped :
  let c := Cfg [s_sasl; [98;97;116;99;104]] false [s_plain] [[65;65;65;65]] [] None false false true [104] 3 in
  let evs := [QTake; QMsg (ICap [[42]; s_LS; s_sasl]); QTake; QMsg (ICap [[42]; [65;67;75]; s_sasl]); QMsg (IAuth [s_PLUS] true true);
              QMsg (IError [s_closing]); QTake] in
  map (fun rec => (fst rec, map snd (snd rec)))
      (runQ c 2 (rstate (reset c (fresh c false)), Nk 2 false false None, Qst 0 (map (fun x => (0%nat, x)) (filter is_line (routs (reset c (fresh c false)))))) evs)
  = [(0%nat, [Send s_CAP [s_LS; s_302]; Send s_NICK []; Send s_USER []]);
     (0%nat, [Send s_CAP [s_REQ; s_sasl]]);
     (1%nat, [Send s_CAP [s_LS; s_302]; Send s_NICK []; Send s_USER []])].
Proof. vm_compute. reflexivity. Qed.
