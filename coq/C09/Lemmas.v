(* C09/Lemmas.v — required SASL and strict transport security *)
From Coq Require Import List NArith ZArith Bool Arith Lia.
Import ListNotations.
Require Import Base.Wire Base.PyStr C08.Model C08.Frame C08.PassA C08.PassC C09.Model.
Open Scope N_scope.

(* ---- required SASL: registration never completes without a successful authentication ----
   An invariant of EVERY message sequence.  "Registration completed" = CAP END
   was sent (the fsm is INIT_WAITING_MOTD) or the fsm is CONNECTED /
   CONNECTED_SASL (where Owner.do376 joins the channels). *)
Definition prereg : list N := [UNINIT; INIT_CAP; INIT_SASL; IN_MOTD; SHUTTING_DOWN].

(* the state invariant: while unauthenticated, a connection with sasl.required is still registering *)
Definition InvR (c : cfg) (s : st) : Prop :=
  c_required c = true -> authed s = false -> mem (fsm s) prereg = true.
(* the output invariant: a CAP END (its ghost event) is only sent authenticated *)
Definition OutR (c : cfg) (o : outev) : Prop :=
  match o with GEnd _ _ a => c_required c = true -> a = true | _ => True end.

(* from a registering state (or from any state) the table only leads to registering states *)
Definition prereg_closed (tbl : list (N * N)) : bool :=
  forallb (fun ft => (negb (N.eqb (fst ft) 0) && negb (mem (fst ft) prereg)) || mem (snd ft) prereg) tbl.
(* all events but on_cap_end and on_end_motd, which the two guards protect *)
Lemma tables_prereg_closed :
  prereg_closed gen.T08.EV_on_init_messages_sent = true /\ prereg_closed gen.T08.EV_on_sasl_cap = true /\
  prereg_closed gen.T08.EV_on_sasl_auth_finished = true /\ prereg_closed gen.T08.EV_on_start_motd = true /\
  prereg_closed gen.T08.EV_on_shutdown = true.
Proof. vm_compute. repeat split. Qed.

Lemma prereg_closed_fire tbl x t :
  prereg_closed tbl = true -> fire tbl x = Some t -> mem x prereg = true -> mem t prereg = true.
Proof.
  intros Hc Hf Hx. destruct (fire_In _ _ _ Hf) as [f [Hin Hfx]].
  unfold prereg_closed in Hc. rewrite forallb_forall in Hc. specialize (Hc _ Hin). cbn [fst snd] in Hc.
  apply orb_true_iff in Hc as [Hc|Hc]; [|exact Hc].
  apply andb_true_iff in Hc as [H0 Hl]. destruct Hfx as [E|E]; subst.
  - discriminate.
  - rewrite Hx in Hl. discriminate.
Qed.

Section Required.
Variable c : cfg.
Notation ok := (okR (InvR c) (OutR c)).
Notation okT := (okR (fun s => authed s = true) (OutR c)).

Ltac okstep :=
  match goal with
  | |- okR _ _ (ret _) => apply ok_ret
  | |- okR _ _ (raise _ _) => apply ok_raise
  | |- okR _ _ (send _ _ _) => apply ok_emit; [|exact Logic.I]
  | |- okR _ _ (_ >>> _) => apply ok_andthen; [|intros ? ?]
  | |- okR _ _ (if ?b then _ else _) => destruct b eqn:?
  | |- okR _ _ (match ?x with _ => _ end) => destruct x eqn:?
  | |- okR _ _ (let '(_, _) := ?x in _) => destruct x eqn:?
  end.

Lemma InvR_authed s : authed s = true -> InvR c s.
Proof. intros Ha _ Hf. rewrite Ha in Hf. discriminate. Qed.
Lemma InvR_same s s' : fsm s' = fsm s -> authed s' = authed s -> InvR c s -> InvR c s'.
Proof. intros Hf Ha H Hr Hn. rewrite Hf. apply H; [exact Hr|rewrite <- Ha; exact Hn]. Qed.
Lemma InvR_fresh z : InvR c (fresh c z).
Proof. intros _ _. reflexivity. Qed.

Lemma okT_ok r : okT r -> ok r.
Proof. apply okR_mono; [intros s Hs; apply InvR_authed; exact Hs|auto]. Qed.

Lemma r_transition tbl s : prereg_closed tbl = true -> InvR c s -> ok (transition tbl s).
Proof.
  intros Hc H. unfold transition. destruct (fire tbl (fsm s)) as [t|] eqn:Ef; [|apply ok_raise; exact H].
  apply ok_ret. intros Hr Ha. cbn [set_fsm fsm]. eapply prereg_closed_fire; [exact Hc|exact Ef|apply H; assumption].
Qed.
Lemma t_transition tbl s : authed s = true -> okT (transition tbl s).
Proof. intro H. unfold transition. destruct (fire tbl (fsm s)); [apply ok_ret|apply ok_raise]; exact H. Qed.

Lemma r_expect l s : InvR c s -> ok (expect l s).
Proof. intro H. unfold expect. destruct (mem (fsm s) l); [apply ok_ret|apply ok_raise]; exact H. Qed.

Lemma r_queue s : InvR c s -> ok (queue_connect c s).
Proof.
  intro H. unfold queue_connect. destruct tables_prereg_closed as [T1 _].
  destruct (zombie s); [apply ok_emit; [exact H|exact Logic.I]|].
  repeat (first [okstep | apply r_transition | assumption]).
Qed.
Lemma r_reset s : ok (reset c s).
Proof. unfold reset. apply r_queue. apply InvR_fresh. Qed.
Lemma r_reconnect s srv w : InvR c s -> ok (reconnect c s srv w).
Proof. intro H. unfold reconnect. apply ok_andthen; [apply ok_emit; [exact H|exact Logic.I]|]. intros; apply r_reset. Qed.

(* the guarded CAP END: refused (connection dropped) while required and unauthenticated;
   otherwise the ghost event carries authed = true whenever sasl.required *)
Lemma r_endCap s : InvR c s -> ok (endCap c s).
Proof.
  intro H. unfold endCap, required_unauth.
  destruct (authed s) eqn:Ea; destruct (c_required c) eqn:Er; cbn [negb andb]; try (apply r_reconnect; exact H).
  - (* authenticated *)
    apply okT_ok. destruct (outstanding s); [|apply ok_ret; exact Ea].
    apply ok_andthen; [apply t_transition; exact Ea|]. intros s1 H1.
    apply ok_andthen; [apply ok_emit; [exact H1|intros _; exact H1]|]. intros s2 H2.
    apply ok_emit; [exact H2|exact Logic.I].
  - (* not required: InvR and OutR are trivial *)
    apply (okR_mono (fun _ => True) (InvR c) (fun _ => True) (OutR c)).
    + intros s0 _ Hr. rewrite Er in Hr. discriminate.
    + intros o _. destruct o; try exact Logic.I. cbn. intro Hr. rewrite Er in Hr. discriminate.
    + destruct (outstanding s); [|apply ok_ret; exact Logic.I].
      unfold transition. destruct (fire gen.T08.EV_on_cap_end (fsm s)); [|rewrite andthen_raise; apply ok_raise; exact Logic.I].
      rewrite andthen_ret. apply ok_andthen; [apply ok_emit; exact Logic.I|]. intros. apply ok_emit; exact Logic.I.
  - apply (okR_mono (fun _ => True) (InvR c) (fun _ => True) (OutR c)).
    + intros s0 _ Hr. rewrite Er in Hr. discriminate.
    + intros o _. destruct o; try exact Logic.I. cbn. intro Hr. rewrite Er in Hr. discriminate.
    + destruct (outstanding s); [|apply ok_ret; exact Logic.I].
      unfold transition. destruct (fire gen.T08.EV_on_cap_end (fsm s)); [|rewrite andthen_raise; apply ok_raise; exact Logic.I].
      rewrite andthen_ret. apply ok_andthen; [apply ok_emit; exact Logic.I|]. intros. apply ok_emit; exact Logic.I.
Qed.

Lemma InvR_with_sasl s nx cur : InvR c s -> InvR c (with_sasl s nx cur).
Proof. apply InvR_same; reflexivity. Qed.
Lemma InvR_set_dec s d : InvR c s -> InvR c (set_dec s d).
Proof. apply InvR_same; reflexivity. Qed.
Lemma InvR_set_caps s l rq ak nk : InvR c s -> InvR c (set_caps s l rq ak nk).
Proof. apply InvR_same; reflexivity. Qed.

Lemma r_tryNext s : InvR c s -> ok (tryNextSasl c s).
Proof.
  intro H. unfold tryNextSasl. destruct tables_prereg_closed as [_ [_ [T3 _]]].
  okstep; [apply r_expect; exact H|].
  okstep.
  - okstep; [apply r_reconnect; assumption|].
    okstep; [apply r_transition; [exact T3|apply InvR_with_sasl; assumption]|].
    okstep; [apply r_endCap; assumption|apply ok_ret; assumption].
  - apply ok_emit; [apply InvR_with_sasl; assumption|exact Logic.I].
Qed.

Lemma r_maybe s : InvR c s -> ok (maybeStartSasl c s).
Proof.
  intro H. unfold maybeStartSasl. destruct tables_prereg_closed as [_ [T2 _]].
  okstep; [|okstep; [apply r_endCap|apply ok_ret]; exact H].
  okstep; [apply r_transition; assumption|].
  okstep; [|apply ok_raise; assumption].
  apply r_tryNext. destruct o; [apply InvR_with_sasl|]; assumption.
Qed.

Lemma r_upkeep s : InvR c s -> ok (capUpkeep c s).
Proof.
  intro H. unfold capUpkeep. okstep; [apply r_expect; exact H|].
  repeat (first [okstep | apply r_reconnect | apply r_maybe | apply r_endCap | assumption]).
Qed.

Lemma r_sts s policy : InvR c s -> ok (onCapSts c s policy).
Proof.
  intro H. unfold onCapSts. destruct tables_prereg_closed as [_ [_ [_ [_ T5]]]].
  okstep; [|apply ok_ret; exact H].
  okstep; [apply ok_emit; [exact H|exact Logic.I]|].
  okstep; [apply r_transition; assumption|]. apply r_reconnect. assumption.
Qed.

Lemma r_addcaps items : forall s, InvR c s -> ok (addCapabilities c items s).
Proof.
  induction items as [|item items IH]; intros s H; cbn [addCapabilities]; [apply ok_ret; exact H|].
  apply ok_andthen; [|intros s1 H1; apply IH; exact H1].
  okstep.
  - destruct p as [cp value]. okstep.
    + okstep; [apply r_sts; exact H|apply ok_ret; exact H].
    + apply ok_ret. unfold set_ls. apply InvR_set_caps. assumption.
  - okstep.
    + okstep; [apply r_reconnect; exact H|apply ok_ret; exact H].
    + apply ok_ret. unfold set_ls. apply InvR_set_caps. assumption.
Qed.

Lemma r_request s caps : InvR c s -> ok (requestCaps s caps).
Proof.
  intro H. unfold requestCaps. apply ok_fold.
  - apply ok_emit; [apply InvR_set_caps; exact H|exact Logic.I].
  - intros s1 line H1. apply ok_emit; [exact H1|exact Logic.I].
Qed.

Lemma r_ls s args : InvR c s -> ok (doCapLs c s args).
Proof.
  intro H. unfold doCapLs.
  destruct args as [|x0 [|x1 [|x2 [|x3 [|x4 r]]]]]; try (apply ok_ret; exact H).
  - okstep; [apply r_addcaps; exact H|].
    okstep; [apply ok_ret; assumption|].
    okstep; [apply r_expect; assumption|].
    destruct (new_caps c s1) as [|x nc]; [apply r_endCap; assumption|].
    okstep; [apply r_request; assumption|].
    okstep; [apply ok_ret|apply r_endCap]; assumption.
  - okstep; [apply ok_ret; exact H|apply r_addcaps; exact H].
Qed.

Lemma r_ack s args : InvR c s -> ok (doCapAck c s args).
Proof.
  intro H. unfold doCapAck.
  destruct args as [|x0 [|x1 [|x2 [|x3 r]]]]; try (apply ok_ret; exact H).
  destruct (words x2); [apply ok_raise; exact H|]. apply r_upkeep. apply InvR_set_caps. exact H.
Qed.
Lemma r_nak s args : InvR c s -> ok (doCapNak c s args).
Proof.
  intro H. unfold doCapNak.
  destruct args as [|x0 [|x1 [|x2 [|x3 r]]]]; try (apply ok_ret; exact H).
  destruct (words x2); [apply ok_raise; exact H|]. apply r_upkeep. apply InvR_set_caps. exact H.
Qed.
Lemma r_del s args : InvR c s -> ok (doCapDel s args).
Proof.
  intro H. unfold doCapDel.
  destruct args as [|x0 [|x1 [|x2 [|x3 r]]]]; try (apply ok_ret; exact H).
  destruct (words x2) as [|w ws]; [apply ok_raise; exact H|]. apply ok_ret.
  generalize (w :: ws). intro l. revert s H. induction l as [|x l IHl]; intros s H; [exact H|].
  cbn [fold_left]. apply IHl. revert H. apply InvR_same; reflexivity.
Qed.
Lemma r_new s args : InvR c s -> ok (doCapNew c s args).
Proof.
  intro H. unfold doCapNew.
  destruct args as [|x0 [|x1 [|x2 [|x3 r]]]]; try (apply ok_ret; exact H).
  destruct (words x2) as [|w ws] eqn:Ew; [apply ok_raise; exact H|].
  okstep; [apply r_addcaps; exact H|].
  okstep; [apply ok_ret; assumption|].
  destruct (new_caps c s0) as [|x nc]; [apply ok_ret; assumption|]. apply r_request. assumption.
Qed.

Lemma r_chunks s chunks : InvR c s -> ok (send_chunks s chunks).
Proof.
  intro H. unfold send_chunks. apply ok_fold; [apply ok_ret; exact H|].
  intros s1 ch H1. apply ok_emit; [exact H1|exact Logic.I].
Qed.

Lemma r_auth s args b e : InvR c s -> ok (doAuthenticate c s args b e).
Proof.
  intro H. unfold doAuthenticate. okstep; [apply r_expect; exact H|].
  destruct args as [|chunk rest]; [apply ok_raise; apply InvR_set_dec; assumption|].
  destruct (match dec s0 with Some d => d | None => ([], false) end) as [chunks ready].
  repeat (first [ okstep
                | apply r_chunks; apply InvR_set_dec; assumption
                | apply ok_emit; [apply InvR_set_dec; assumption|exact Logic.I]
                | apply InvR_set_dec; assumption
                | assumption ]).
Qed.

(* 903: authenticated from here on *)
Lemma r_903 s : ok (do903 c s).
Proof.
  unfold do903. apply ok_andthen.
  - apply okT_ok. apply t_transition. reflexivity.
  - intros s1 H1. destruct (N.eqb (fsm s1) INIT_CAP); [apply r_endCap|apply ok_ret]; exact H1.
Qed.

(* end of MOTD: refused (connection dropped) while required and unauthenticated *)
Lemma r_376 s : InvR c s -> ok (do376 c s).
Proof.
  intro H. unfold do376, required_unauth.
  destruct (authed s) eqn:Ea; destruct (c_required c) eqn:Er; cbn [negb andb]; try (apply r_reconnect; exact H).
  - apply okT_ok. apply ok_andthen; [apply t_transition; exact Ea|]. intros s1 H1.
    destruct (c_umodes c); [apply ok_emit; [exact H1|exact Logic.I]|apply ok_ret; exact H1].
  - apply (okR_mono (fun _ => True) (InvR c) (OutR c) (OutR c)); [|auto|].
    + intros s0 _ Hr. rewrite Er in Hr. discriminate.
    + apply ok_andthen; [unfold transition; destruct (fire _ _); [apply ok_ret|apply ok_raise]; exact Logic.I|].
      intros. destruct (c_umodes c); [apply ok_emit|apply ok_ret]; exact Logic.I.
  - apply (okR_mono (fun _ => True) (InvR c) (OutR c) (OutR c)); [|auto|].
    + intros s0 _ Hr. rewrite Er in Hr. discriminate.
    + apply ok_andthen; [unfold transition; destruct (fire _ _); [apply ok_ret|apply ok_raise]; exact Logic.I|].
      intros. destruct (c_umodes c); [apply ok_emit|apply ok_ret]; exact Logic.I.
Qed.

Theorem r_step s m : InvR c s -> ok (step c s m).
Proof.
  intro H. destruct tables_prereg_closed as [_ [_ [_ [T4 _]]]].
  destruct m as [args|args b64ok empty|code args|args|args|]; cbn [step].
  - destruct (cap_sub args) as [sub|]; [|apply ok_ret; exact H].
    repeat (first [okstep | apply r_ls | apply r_ack | apply r_nak | apply r_new | apply r_del | assumption]).
  - apply r_auth. exact H.
  - repeat (first [okstep | apply r_903 | apply r_tryNext | apply r_transition | apply r_376 | assumption]).
    + unfold do908. destruct args as [|x [|y r]]; apply ok_raise; exact H.
    + unfold do43x. destruct (after s); [apply ok_ret|apply ok_emit; [|exact Logic.I]]; exact H.
  - unfold doError. destruct args as [|t r]; [apply ok_raise; exact H|].
    repeat (first [okstep | apply r_reconnect | assumption]).
  - unfold doPing. destruct args; [apply ok_raise|apply ok_emit; [|exact Logic.I]]; exact H.
  - apply r_reset.
Qed.

Theorem r_run ms : forall s, InvR c s ->
  InvR c (fst (run_msgs c s ms)) /\ Forall (OutR c) (snd (run_msgs c s ms)).
Proof.
  induction ms as [|m ms IH]; intros s H; [split; [exact H|constructor]|].
  cbn [run_msgs]. destruct (r_step s m H) as [Hi Ho].
  destruct (step c s m) as [[s1 o1] e1]. cbn [rstate routs fst snd] in Hi, Ho.
  destruct (IH s1 Hi) as [Hi2 Ho2]. destruct (run_msgs c s1 ms) as [s2 o2]. cbn [fst snd] in *.
  split; [exact Hi2|apply Forall_app; split; assumption].
Qed.
End Required.

(* the state after any reset -- in particular the start of every connection -- satisfies the invariant *)
Lemma InvR_reset c s : InvR c (rstate (reset c s)).
Proof. exact (proj1 (r_reset c s)). Qed.

(* the statement in plain terms, for every message sequence from the start of a connection *)
Theorem required_never_registers c ms :
  c_required c = true ->
  let r := run_msgs c (start c) ms in
  (authed (fst r) = false ->
     fsm (fst r) <> CONNECTED /\ fsm (fst r) <> CONNECTED_SASL /\ fsm (fst r) <> WAIT_MOTD) /\
  (forall n out a, In (GEnd n out a) (snd r) -> a = true).
Proof.
  intros Hr r. destruct (r_run c ms (start c) (InvR_reset c (fresh c false))) as [Hi Ho]. fold r in Hi, Ho. split.
  - intro Ha. specialize (Hi Hr Ha).
    repeat split; intro E; rewrite E in Hi; vm_compute in Hi; discriminate.
  - intros n out a Hin. rewrite Forall_forall in Ho. exact (Ho _ Hin Hr).
Qed.

(* and the success path does authenticate *)
Lemma do903_authenticates c s : authed (rstate (do903 c s)) = true.
Proof.
  unfold do903. unfold transition. cbn [fsm].
  destruct (fire gen.T08.EV_on_sasl_auth_finished (fsm s)) as [t|]; [|reflexivity].
  rewrite andthen_ret. cbn [set_fsm fsm].
  destruct (N.eqb t INIT_CAP); [|reflexivity].
  unfold endCap, required_unauth. cbn [authed negb andb].
  match goal with |- context [outstanding ?x] => destruct (outstanding x) end; [|reflexivity].
  unfold transition. cbn [fsm set_fsm]. destruct (fire gen.T08.EV_on_cap_end t); reflexivity.
Qed.

(* ---- the old witnesses of finding C09.F8 (fixed) ---- *)
Definition cfg_required : cfg :=
  Cfg (s_sasl :: [98;97;116;99;104] :: []) true [s_plain] [[65;65;65;65]] [] None false false true [104] 3.
Definition is_drop (o : outev) : bool := match o with Reconnect None true => true | _ => false end.
Definition is_cap_end (o : outev) : bool := match o with GEnd _ _ _ => true | _ => false end.

(* (a) the server does not list sasl; (b) it NAKs sasl; (c) it skips CAP and sends the MOTD:
   no CAP END, never CONNECTED, the connection is dropped *)
Example required_no_sasl_aborts :
  let ms := [cap [s_LS; [98;97;116;99;104]]; cap [[65;67;75]; [98;97;116;99;104]]] in
  let '(s, outs) := run_msgs cfg_required (start cfg_required) ms in
  existsb is_cap_end outs = false /\ existsb is_drop outs = true /\ fsm s = INIT_CAP /\ authed s = false.
Proof. vm_compute. auto. Qed.
Example required_nak_aborts :
  let ms := [cap [s_LS; s_sasl]; cap [[78;65;75]; s_sasl]] in
  let '(s, outs) := run_msgs cfg_required (start cfg_required) ms in
  existsb is_cap_end outs = false /\ existsb is_drop outs = true /\ fsm s = INIT_CAP /\ authed s = false.
Proof. vm_compute. auto. Qed.
Example required_no_cap_aborts :
  let '(s, outs) := run_msgs cfg_required (start cfg_required) [INum 375 []; INum 376 []] in
  existsb is_cap_end outs = false /\ existsb is_drop outs = true /\ fsm s = INIT_CAP /\ authed s = false.
Proof. vm_compute. auto. Qed.
(* non-vacuity: with sasl.required a successful exchange does register *)
Example required_success_registers :
  let ms := [cap [s_LS; s_sasl]; cap [[65;67;75]; s_sasl]; IAuth [s_PLUS] true true; INum 903 []; INum 376 []] in
  let '(s, outs) := run_msgs cfg_required (start cfg_required) ms in
  filter is_cap_end outs = [GEnd 1 [] true] /\ fsm s = CONNECTED /\ authed s = true.
Proof. vm_compute. auto. Qed.

(* ---- STS ---- *)
(* over an insecure link a valid policy makes the very next driver action a
   reconnect to the advertised port with verification forced, and nothing is
   stored; what follows belongs to the new connection *)
Theorem sts_insecure_upgrade c s policy port t :
  c_secure c = false -> parseStsPolicy policy false = Some port ->
  fire gen.T08.EV_on_shutdown (fsm s) = Some t ->
  exists rest, routs (onCapSts c s policy) = Reconnect (Some (c_host c, port, c_attempt c, true)) true :: rest
               /\ Forall (fun o => match o with StoreSts _ _ => False | _ => True end) rest.
Proof.
  intros Hs Hp Hf. unfold onCapSts. rewrite Hs, Hp. unfold transition. rewrite Hf. rewrite andthen_ret.
  unfold reconnect, emit. cbn [andthen].
  pose proof (C08.PassA.ok_reset c (set_fsm s t)) as [_ Ho].
  destruct (reset c (set_fsm s t)) as [[s' o'] e']. cbn [routs fst snd app] in *.
  eexists. split; [reflexivity|].
  eapply Forall_impl; [|exact Ho]. intros o Hoa. destruct o; try exact Logic.I.
  cbn in Hoa. rewrite Hs in Hoa. discriminate.
Qed.

(* the shutdown transition is possible from every state *)
Lemma shutdown_always x : exists t, fire gen.T08.EV_on_shutdown x = Some t.
Proof. vm_compute. eexists. reflexivity. Qed.

(* a missing or invalid port (or, on a secure link, duration) is ignored: no store, no reconnect *)
Theorem sts_invalid_ignored c s policy :
  parseStsPolicy policy (c_secure c) = None -> onCapSts c s policy = ret s.
Proof. intro H. unfold onCapSts. rewrite H. reflexivity. Qed.

(* on a secure link a valid policy is stored as received, and nothing else happens *)
Theorem sts_secure_stored c s policy port :
  c_secure c = true -> parseStsPolicy policy true = Some port ->
  onCapSts c s policy = emit s (StoreSts (c_host c) policy).
Proof. intros Hs Hp. unfold onCapSts. rewrite Hs, Hp. reflexivity. Qed.

(* ---- applying a stored policy ---- *)
(* while an unexpired stored policy exists the connection uses its port with
   verification forced: unexpired = no disconnection was ever recorded (the
   policy did not start to expire: fix of finding C09.F9) or now <= last + duration *)
Definition unexpired (now : Z) (n : netstore) (host : str) (duration : Z) : Prop :=
  match dict_get host (discs n) with Some last => (now <= last + duration)%Z | None => True end.

Theorem sts_applied now n sv pol port duration :
  dict_get (sv_host sv) (policies n) = Some pol -> parseStsPolicy2 pol true = Some (port, duration) ->
  unexpired now n (sv_host sv) duration ->
  applyStsPolicy now n sv = (n, Ok (Server (sv_host sv) port (sv_attempt sv) true)).
Proof.
  intros Hp Hparse Hu. unfold applyStsPolicy, unexpired in *. rewrite Hp, Hparse.
  destruct (dict_get (sv_host sv) (discs n)) as [last|]; [|reflexivity].
  destruct (Z.ltb (last + duration) now) eqn:E; [apply Z.ltb_lt in E; lia|reflexivity].
Qed.

(* the old witness of C09.F9: a stored policy, no disconnect time: now applied *)
Example sts_applied_no_disconnect_record :
  let n := Net [([104], s_port ++ [61;54;54;57;55;44] ++ s_duration ++ [61;49;48;48;48;48;48;48])] [] in
  applyStsPolicy 100%Z n (Server [104] 6667 0 false) = (n, Ok (Server [104] 6697 0 true)).
Proof. vm_compute. reflexivity. Qed.

(* ---- the store and the lookup use the same key: the hostname exactly as the server entry carries it ---- *)
Lemma dict_get_set_same {A} k (v : A) d : dict_get k (dict_set k v d) = Some v.
Proof.
  induction d as [|[k2 w] d IH]; cbn [dict_set dict_get]; [rewrite seq_eqb_refl; reflexivity|].
  destruct (seq_eqb k k2) eqn:E; cbn [dict_get]; rewrite E; [reflexivity|exact IH].
Qed.
(* a policy stored for a host (any spelling: capitals are part of the key) is applied to the next connection to that host *)
Theorem sts_store_then_apply n h pol now p0 at0 f0 port duration :
  parseStsPolicy2 pol true = Some (port, duration) ->
  unexpired now (addStsPolicy n h pol) h duration ->
  applyStsPolicy now (addStsPolicy n h pol) (Server h p0 at0 f0) = (addStsPolicy n h pol, Ok (Server h port at0 true)).
Proof.
  intros Hp Hu. apply (sts_applied now (addStsPolicy n h pol) (Server h p0 at0 f0) pol port duration); [|exact Hp|exact Hu].
  cbn [sv_host addStsPolicy policies]. apply dict_get_set_same.
Qed.
Example sts_store_then_apply_capitals :
  let h := [73;114;99;46;69;120;97;109;112;108;101;46;79;114;103] in     (* "Irc.Example.Org" *)
  let pol := s_port ++ [61;54;54;57;55;44] ++ s_duration ++ [61;49;48;48] in
  map (fun rec => snd rec) (mrun [Server h 6667 0 false; Server h 8000 0 false] (Net [] [], Mixin [] None)
                                 [MNext 10; MStore h pol; MDisc 20 h; MNext 30; MRestart; MNext 40])
  = [Ok (Server h 6667 0 false); Ok (Server h 6697 0 true); Ok (Server h 6697 0 true)].
Proof. vm_compute. reflexivity. Qed.

(* ---- every connection: the ServersMixin state machine over histories ---- *)
(* a _getNextServer call is good if, whenever the host of the server it returned
   had an unexpired stored policy when the call was made, the returned server has
   the policy's port and forced verification *)
Definition next_good (rec : Z * netstore * res server) : Prop :=
  let '(now, n, r) := rec in
  forall sv', r = Ok sv' ->
  forall pol port duration,
    dict_get (sv_host sv') (policies n) = Some pol -> parseStsPolicy2 pol true = Some (port, duration) ->
    unexpired now n (sv_host sv') duration ->
    sv_port sv' = port /\ sv_force sv' = true.

Lemma apply_good now n sv : next_good (now, n, snd (applyStsPolicy now n sv)).
Proof.
  unfold next_good, applyStsPolicy, unexpired. intros sv' Hr pol port duration Hp Hparse Hu.
  destruct (dict_get (sv_host sv) (policies n)) as [pol0|] eqn:E0.
  - destruct (parseStsPolicy2 pol0 true) as [[port0 dur0]|] eqn:Ep; [|discriminate].
    destruct (match dict_get (sv_host sv) (discs n) with Some last => Z.ltb (last + dur0) now | None => false end) eqn:Ex;
      cbn [snd] in Hr; inversion Hr; subst sv'; cbn [sv_host sv_port sv_force] in *.
    + (* expired: contradicts unexpired *)
      rewrite E0 in Hp. inversion Hp; subst pol0. rewrite Ep in Hparse. inversion Hparse; subst.
      destruct (dict_get (sv_host sv) (discs n)) as [last|]; [|discriminate]. apply Z.ltb_lt in Ex. lia.
    + rewrite E0 in Hp. inversion Hp; subst pol0. rewrite Ep in Hparse. inversion Hparse; subst. split; reflexivity.
  - cbn [snd] in Hr. inversion Hr; subst sv'. rewrite E0 in Hp. discriminate.
Qed.

Theorem every_connection conf evs : forall nm, Forall next_good (mrun conf nm evs).
Proof.
  induction evs as [|e evs IH]; intros [n m]; cbn [mrun]; [constructor|].
  destruct e as [h p|now h|now|]; cbn [mstep]; try apply IH.
  unfold getNextServer.
  assert (Hcase : forall sv rest,
    Forall next_good
      (let '(n', m', o) :=
         (let '(n', m', r) := (let '(n', r) := applyStsPolicy now n sv in
                               match r with
                               | Ok sv' => (n', Mixin rest (Some sv'), r)
                               | Raise _ => (n', Mixin rest (m_current m), r)
                               end) in (n', m', Some r)) in
       match o with Some res => (now, fst (n, m), res) :: mrun conf (n', m') evs | None => mrun conf (n', m') evs end)).
  { intros sv rest. pose proof (apply_good now n sv) as Hg. destruct (applyStsPolicy now n sv) as [n' r]. cbn [snd fst] in *.
    destruct r as [sv'|e]; (constructor; [exact Hg|apply IH]). }
  destruct (m_servers m) as [|s0 l0]; [destruct conf as [|sv rest]|]; try apply Hcase.
  cbn [fst]. constructor; [|apply IH]. intros sv' Hr. discriminate.
Qed.

(* the seeded-change scenario: two entries for one host, a policy stored after the list was loaded:
   the second, pre-loaded entry is still upgraded when it is popped *)
Example every_connection_preloaded :
  let h := [104] in
  let conf := [Server h 6667 0 false; Server h 8000 0 false] in
  let pol := s_port ++ [61;54;54;57;55;44] ++ s_duration ++ [61;49;48;48] in
  map (fun rec => snd rec) (mrun conf (Net [] [], Mixin [] None) [MNext 10; MStore h pol; MDisc 20 h; MNext 30])
  = [Ok (Server h 6667 0 false); Ok (Server h 6697 0 true)].
Proof. vm_compute. reflexivity. Qed.

(* expiry: removed and not applied *)
Theorem sts_expired now n sv pol last port duration :
  dict_get (sv_host sv) (policies n) = Some pol -> parseStsPolicy2 pol true = Some (port, duration) ->
  dict_get (sv_host sv) (discs n) = Some last -> (last + duration < now)%Z ->
  applyStsPolicy now n sv = (Net (sdel_key (sv_host sv) (policies n)) (discs n), Ok sv).
Proof.
  intros Hp Hparse Hl Hlt. unfold applyStsPolicy. rewrite Hp, Hl, Hparse.
  destruct (Z.ltb (last + duration) now) eqn:E; [reflexivity|apply Z.ltb_ge in E; lia].
Qed.

(* forced verification: either full PKI verification is switched on, or the
   operator configured fingerprints / an authority certificate to verify against *)
Theorem force_implies_verify conf_verify fp ca :
  verify_choice true conf_verify fp ca = true \/ fp = true \/ ca = true.
Proof. unfold verify_choice. destruct conf_verify, fp, ca; cbn; auto. Qed.

(* ---- the forced verification set by the policy reaches the TLS layer ---- *)
Lemma fill_attempt_keeps sv drv : sv_host (fill_attempt sv drv) = sv_host sv /\ sv_port (fill_attempt sv drv) = sv_port sv /\
  sv_force (fill_attempt sv drv) = sv_force sv.
Proof. unfold fill_attempt. destruct (Z.eqb (sv_attempt sv) (-1)); repeat split. Qed.

(* whatever the configured list, the store, the clock, the driver's attempt counter and the TLS settings: if the host of
   the server that SocketDriver.connect() takes had an unexpired stored policy, the connection goes to the policy's
   port, TLS is started, and the certificate is verified (full verification, or the configured fingerprints / CA) *)
Theorem sts_reaches_tls conf now n m drv ssl cv fp ca :
  forall c, snd (connectS conf now n m drv ssl cv fp ca) = Ok c ->
  forall pol port duration,
    dict_get (sv_host (cn_server c)) (policies n) = Some pol -> parseStsPolicy2 pol true = Some (port, duration) ->
    unexpired now n (sv_host (cn_server c)) duration ->
    sv_port (cn_server c) = port /\ sv_force (cn_server c) = true /\ cn_tls c = true /\
    (cn_verify c = true \/ fp = true \/ ca = true).
Proof.
  intros c Hc pol port duration Hp Hparse Hu. unfold connectS in Hc.
  pose proof (every_connection conf [MNext now] (n, m)) as Hg. cbn [mrun mstep] in Hg.
  destruct (getNextServer conf now n m) as [[n' m'] r]. cbn [fst] in Hg. inversion Hg as [|x l Hgood _]; subst. clear Hg.
  destruct r as [sv|e]; cbn [snd] in Hc; [|discriminate]. inversion Hc; subst c. clear Hc.
  unfold connect_with in *. cbn [cn_server cn_tls cn_verify] in *.
  destruct (fill_attempt_keeps sv (drv + 1)) as [Eh [Ept Ef]]. rewrite Eh in Hp, Hu.
  destruct (Hgood sv eq_refl pol port duration Hp Hparse Hu) as [Hport Hforce].
  rewrite Ept, Ef, Hport, Hforce. rewrite orb_true_r. repeat split. apply force_implies_verify.
Qed.

(* the seeded-change scenario: stored policy, configured entry (attempt = None), ssl off, no validation configured *)
Example sts_reaches_tls_example :
  let h := [104] in
  let pol := s_port ++ [61;54;54;57;55;44] ++ s_duration ++ [61;49;48;48;48] in
  snd (connectS [Server h 6667 (-1) false] 50 (Net [(h, pol)] [(h, 20%Z)]) (Mixin [] None) 3 false false false false)
  = Ok (Conn (Server h 6697 4 true) true true).
Proof. vm_compute. reflexivity. Qed.


(* the server is configured ON the port of its stored policy: the policy is still applied -- verification is forced --
   with ssl off (TLS is started all the same) and with ssl on *)
Example sts_reaches_tls_same_port :
  let h := [104] in
  let pol := s_port ++ [61;54;54;57;55;44] ++ s_duration ++ [61;49;48;48;48] in
  snd (connectS [Server h 6697 (-1) false] 50 (Net [(h, pol)] [(h, 20%Z)]) (Mixin [] None) 3 false false false false)
  = Ok (Conn (Server h 6697 4 true) true true) /\
  snd (connectS [Server h 6697 (-1) false] 50 (Net [(h, pol)] [(h, 20%Z)]) (Mixin [] None) 3 true false false false)
  = Ok (Conn (Server h 6697 4 true) true true).
Proof. vm_compute. split; reflexivity. Qed.
