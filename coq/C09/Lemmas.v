(* C09/Lemmas.v — required SASL and strict transport security *)
From Coq Require Import List NArith ZArith Bool Arith Lia.
Import ListNotations.
Require Import Base.Wire Base.PyStr C08.Model C08.Frame C08.PassA C08.PassC C09.Model.
Open Scope N_scope.

(* ---- required SASL: inside the initial SASL exchange the only way forward is success ---- *)
Definition quiet (o : outev) : Prop :=
  match o with Reconnect _ _ => False | Die => False | GEnd _ _ => False | _ => True end.

(* which tables leave INIT_SASL *)
Definition leaves_init_sasl (tbl : list (N * N)) : bool :=
  existsb (fun ft => N.eqb (fst ft) 0 || N.eqb (fst ft) INIT_SASL) tbl.
Lemma tables_from_sasl :
  leaves_init_sasl gen.T08.EV_on_start_motd = false /\ leaves_init_sasl gen.T08.EV_on_end_motd = false /\
  leaves_init_sasl gen.T08.EV_on_cap_end = false /\ leaves_init_sasl gen.T08.EV_on_init_messages_sent = false /\
  leaves_init_sasl gen.T08.EV_on_sasl_cap = false.
Proof. vm_compute. repeat split. Qed.

Lemma fire_none tbl : leaves_init_sasl tbl = false -> fire tbl INIT_SASL = None.
Proof.
  unfold leaves_init_sasl. induction tbl as [|[f t] tbl IH]; cbn [existsb fire fst]; [reflexivity|].
  intro H. apply orb_false_iff in H as [H1 H2]. rewrite H1. apply IH. exact H2.
Qed.

Lemma expect_not_sasl :
  mem INIT_SASL gen.T08.EXPECT_capUpkeep = false /\ mem INIT_SASL gen.T08.EXPECT_doCapLs = false.
Proof. vm_compute. split; reflexivity. Qed.

(* the outcome we are after: still in INIT_SASL and nothing decisive happened, or authenticated *)
Definition stuck_or_authed (s : st) (r : R) : Prop :=
  (fsm (rstate r) = INIT_SASL /\ authed (rstate r) = authed s /\ Forall quiet (routs r)) \/
  authed (rstate r) = true \/
  ~ Forall (fun o => match o with Reconnect _ _ => False | Die => False | _ => True end) (routs r).

Definition not903_reset (m : inmsg) : bool :=
  match m with INum code _ => negb (N.eqb code 903) | IReset => false | _ => true end.

Definition is_reset (o : outev) : Prop := match o with Reconnect _ _ => True | Die => True | _ => False end.

Section Required.
Variable c : cfg.
Hypothesis Hreq : c_required c = true.
Variable a0 : bool.

Definition IS (s : st) : Prop := fsm s = INIT_SASL /\ authed s = a0.
Definition okE (r : R) : Prop := (IS (rstate r) /\ Forall quiet (routs r)) \/ Exists is_reset (routs r).

Lemma okE_ret s : IS s -> okE (ret s).
Proof. intro H. left. split; [exact H|constructor]. Qed.
Lemma okE_raise s e : IS s -> okE (raise s e).
Proof. intro H. left. split; [exact H|constructor]. Qed.
Lemma okE_emit s o : IS s -> quiet o -> okE (emit s o).
Proof. intros H Ho. left. split; [exact H|constructor; [exact Ho|constructor]]. Qed.

Lemma okE_andthen r k : okE r -> (forall s, IS s -> okE (k s)) -> okE (r >>> k).
Proof.
  intros [[Hi Ho]|He] Hk; destruct r as [[s o] [e|]]; cbn [andthen].
  - left. split; assumption.
  - cbn [rstate routs fst snd] in *. specialize (Hk s Hi). destruct (k s) as [[s' o'] e'].
    destruct Hk as [[Hi' Ho']|He']; cbn [rstate routs fst snd] in *.
    + left. split; [exact Hi'|apply Forall_app; split; assumption].
    + right. apply Exists_app. right. exact He'.
  - right. exact He.
  - cbn [routs fst snd] in He. destruct (k s) as [[s' o'] e']. right. cbn [routs fst snd]. apply Exists_app. left. exact He.
Qed.

Lemma okE_fold {A} (f : st -> A -> R) (l : list A) (r : R) :
  okE r -> (forall s a, IS s -> okE (f s a)) ->
  okE (fold_left (fun (acc : R) a => acc >>> fun s => f s a) l r).
Proof.
  revert r. induction l as [|x l IH]; intros r Hr Hf; [exact Hr|].
  cbn [fold_left]. apply IH; [|exact Hf]. apply okE_andthen; [exact Hr|]. intros s Hs. apply Hf. exact Hs.
Qed.

Ltac estep :=
  match goal with
  | |- okE (ret _) => apply okE_ret
  | |- okE (raise _ _) => apply okE_raise
  | |- okE (send _ _ _) => apply okE_emit; [|exact Logic.I]
  | |- okE (_ >>> _) => apply okE_andthen; [|intros ? ?]
  | |- okE (if ?b then _ else _) => destruct b eqn:?
  | |- okE (match ?x with _ => _ end) => destruct x eqn:?
  end.

Lemma e_reconnect s srv w : okE (reconnect c s srv w).
Proof.
  right. unfold reconnect, emit. cbn [andthen]. destruct (reset c s) as [[s' o'] e'].
  cbn [routs fst snd app]. constructor. exact Logic.I.
Qed.

(* transitions that cannot fire from INIT_SASL raise and leave the state alone *)
Lemma e_transition_blocked tbl s : leaves_init_sasl tbl = false -> IS s -> okE (transition tbl s).
Proof.
  intros Hl [Hf Ha]. unfold transition. rewrite Hf, (fire_none _ Hl). apply okE_raise. split; assumption.
Qed.

Lemma e_expect_blocked l s : mem INIT_SASL l = false -> IS s -> okE (expect l s).
Proof. intros Hl [Hf Ha]. unfold expect. rewrite Hf, Hl. apply okE_raise. split; assumption. Qed.

Lemma transition_blocked_eq tbl s : leaves_init_sasl tbl = false -> IS s -> transition tbl s = raise s ValueError.
Proof. intros Hl [Hf _]. unfold transition. rewrite Hf, (fire_none _ Hl). reflexivity. Qed.
Lemma expect_blocked_eq l s : mem INIT_SASL l = false -> IS s -> expect l s = raise s ValueError.
Proof. intros Hl [Hf _]. unfold expect. rewrite Hf, Hl. reflexivity. Qed.

Lemma e_expect l s : IS s -> okE (expect l s).
Proof. intro H. unfold expect. destruct (mem (fsm s) l); [apply okE_ret|apply okE_raise]; exact H. Qed.

Lemma IS_with_sasl s nx cur : IS s -> IS (with_sasl s nx cur).
Proof. intros [A B]. split; assumption. Qed.
Lemma IS_set_dec s d : IS s -> IS (set_dec s d).
Proof. intros [A B]. split; assumption. Qed.
Lemma IS_set_caps s l rq ak nk : IS s -> IS (set_caps s l rq ak nk).
Proof. intros [A B]. split; assumption. Qed.

Lemma e_tryNext s : IS s -> okE (tryNextSasl c s).
Proof.
  intro H. unfold tryNextSasl. estep; [apply e_expect; exact H|].
  destruct (snext s0) as [|m r].
  - rewrite Hreq. apply okE_ret. assumption.
  - apply okE_emit; [apply IS_with_sasl; assumption|exact Logic.I].
Qed.

Lemma e_onCapSts s p : IS s -> okE (onCapSts c s p).
Proof.
  intro H. unfold onCapSts.
  destruct (parseStsPolicy p (c_secure c)) as [port|]; [|apply okE_ret; exact H].
  destruct (c_secure c); [apply okE_emit; [exact H|exact Logic.I]|].
  unfold transition. destruct (fire gen.T08.EV_on_shutdown (fsm s)) as [t|]; [|rewrite andthen_raise; apply okE_raise; exact H].
  rewrite andthen_ret. apply e_reconnect.
Qed.

Lemma e_addcaps items : forall s, IS s -> okE (addCapabilities c items s).
Proof.
  induction items as [|i items IH]; intros s H; cbn [addCapabilities]; [apply okE_ret; exact H|].
  apply okE_andthen; [|intros s1 H1; apply IH; exact H1].
  destruct (split1 [61] (strip_eq_tilde (length i) i)) as [[cp value]|].
  - estep; [destruct (seq_eqb cp s_sts); [apply e_onCapSts|apply okE_ret]; exact H|].
    apply okE_ret. unfold set_ls. apply IS_set_caps. assumption.
  - estep; [destruct (seq_eqb _ s_sts); [apply e_reconnect|apply okE_ret; exact H]|].
    apply okE_ret. unfold set_ls. apply IS_set_caps. assumption.
Qed.

Lemma e_request s caps : IS s -> okE (requestCaps s caps).
Proof.
  intro H. unfold requestCaps. apply okE_fold.
  - apply okE_emit; [apply IS_set_caps; exact H|exact Logic.I].
  - intros s1 line H1. apply okE_emit; [exact H1|exact Logic.I].
Qed.

Lemma e_send_chunks s chunks : IS s -> okE (send_chunks s chunks).
Proof.
  intro H. unfold send_chunks. apply okE_fold; [apply okE_ret; exact H|].
  intros s1 ch H1. apply okE_emit; [exact H1|exact Logic.I].
Qed.

(* every message but 903 and a driver reset: still in the exchange, or the connection was dropped *)
Lemma step_stuck s m :
  IS s -> not903_reset m = true -> okE (step c s m).
Proof.
  intros H Hm. destruct tables_from_sasl as [T1 [T2 [T3 [T4 T5]]]]. destruct expect_not_sasl as [X1 X2].
  destruct m as [args|args b e|code args|args|args|]; cbn [step]; try discriminate.
  - destruct (cap_sub args) as [sub|]; [|apply okE_ret; exact H].
    destruct (seq_eqb sub [108;115]).
    { unfold doCapLs. destruct args as [|x0 [|x1 [|x2 [|x3 [|x4 r]]]]]; try (apply okE_ret; exact H).
      - estep; [apply e_addcaps; exact H|]. estep; [apply okE_ret; assumption|].
        rewrite expect_blocked_eq by assumption. rewrite andthen_raise. apply okE_raise. assumption.
      - estep; [apply okE_ret; exact H|apply e_addcaps; exact H]. }
    destruct (seq_eqb sub [97;99;107]).
    { unfold doCapAck. destruct args as [|x0 [|x1 [|x2 [|x3 r]]]]; try (apply okE_ret; exact H).
      destruct (words x2); [apply okE_raise; exact H|]. unfold capUpkeep.
      rewrite expect_blocked_eq; [|exact X1|apply IS_set_caps; exact H]. rewrite andthen_raise.
      apply okE_raise. apply IS_set_caps. exact H. }
    destruct (seq_eqb sub [110;97;107]).
    { unfold doCapNak. destruct args as [|x0 [|x1 [|x2 [|x3 r]]]]; try (apply okE_ret; exact H).
      destruct (words x2); [apply okE_raise; exact H|]. unfold capUpkeep.
      rewrite expect_blocked_eq; [|exact X1|apply IS_set_caps; exact H]. rewrite andthen_raise.
      apply okE_raise. apply IS_set_caps. exact H. }
    destruct (seq_eqb sub [110;101;119]).
    { unfold doCapNew. destruct args as [|x0 [|x1 [|x2 [|x3 r]]]]; try (apply okE_ret; exact H).
      destruct (words x2); [apply okE_raise; exact H|].
      estep; [apply e_addcaps; exact H|]. estep; [apply okE_ret; assumption|].
      match goal with |- okE (match new_caps c ?x with _ => _ end) => destruct (new_caps c x) end;
        [apply okE_ret|apply e_request]; assumption. }
    destruct (seq_eqb sub [100;101;108]); [|apply okE_ret; exact H].
    unfold doCapDel. destruct args as [|x0 [|x1 [|x2 [|x3 r]]]]; try (apply okE_ret; exact H).
    destruct (words x2) as [|w ws]; [apply okE_raise; exact H|]. apply okE_ret.
    generalize (w :: ws). intro l. revert s H. induction l as [|x l IHl]; intros s H; [exact H|].
    cbn [fold_left]. apply IHl. destruct H as [A B]. split; assumption.
  - unfold doAuthenticate. estep; [apply e_expect; exact H|].
    destruct args as [|chunk rest]; [apply okE_raise; apply IS_set_dec; assumption|].
    destruct (match dec s0 with Some d => d | None => ([], false) end) as [chunks ready].
    repeat (first [ estep
                  | apply e_send_chunks; apply IS_set_dec; assumption
                  | apply okE_emit; [apply IS_set_dec; assumption|exact Logic.I]
                  | apply IS_set_dec; assumption
                  | assumption ]).
  - cbn [not903_reset] in Hm. apply negb_true_iff in Hm. rewrite Hm.
    destruct ((904 <=? code) && (code <=? 907)); [apply e_tryNext; exact H|].
    destruct (N.eqb code 908); [unfold do908; destruct args as [|x [|y r]]; apply okE_raise; exact H|].
    destruct (N.eqb code 375); [apply e_transition_blocked; assumption|].
    destruct (N.eqb code 376 || N.eqb code 377 || N.eqb code 422).
    { unfold do376. rewrite transition_blocked_eq by assumption. rewrite andthen_raise. apply okE_raise. exact H. }
    destruct (N.eqb code 432 || N.eqb code 433 || N.eqb code 437); [|apply okE_ret; exact H].
    unfold do43x. destruct (after s); [apply okE_ret; exact H|apply okE_emit; [exact H|exact Logic.I]].
  - unfold doError. destruct args as [|t r]; [apply okE_raise; exact H|].
    repeat (first [estep | apply e_reconnect | assumption]).
  - unfold doPing. destruct args; [apply okE_raise; exact H|apply okE_emit; [exact H|exact Logic.I]].
Qed.
End Required.


(* With sasl.required set, a connection that entered the initial SASL exchange
   stays there -- no CAP END, no end of registration -- whatever the server
   sends short of a 903 (success), unless the connection is dropped. *)
Theorem required_blocks c a0 ms : forall s,
  c_required c = true -> IS a0 s -> forallb not903_reset ms = true ->
  (IS a0 (fst (run_msgs c s ms)) /\ Forall quiet (snd (run_msgs c s ms)))
  \/ Exists is_reset (snd (run_msgs c s ms)).
Proof.
  induction ms as [|m ms IH]; intros s Hreq Hs Hd; [left; split; [exact Hs|constructor]|].
  cbn [forallb] in Hd. apply andb_true_iff in Hd as [Hm Hd]. cbn [run_msgs].
  pose proof (step_stuck c Hreq a0 s m Hs Hm) as Hst.
  destruct (step c s m) as [[s1 o1] e1]. unfold okE in Hst. cbn [rstate routs fst snd] in Hst.
  destruct Hst as [[Hs1 Hq1]|He1].
  - specialize (IH s1 Hreq Hs1 Hd). destruct (run_msgs c s1 ms) as [s2 o2]. cbn [fst snd] in *.
    destruct IH as [[Hs2 Hq2]|He2].
    + left. split; [exact Hs2|apply Forall_app; split; assumption].
    + right. apply Exists_app. right. exact He2.
  - destruct (run_msgs c s1 ms) as [s2 o2]. right. cbn [snd]. apply Exists_app. left. exact He1.
Qed.

(* and the success path does authenticate *)
Lemma do903_authenticates s : authed (rstate (do903 s)) = true.
Proof.
  set (P := fun x : st => authed x = true). set (O := fun _ : outev => True).
  assert (Ht : forall tbl x, P x -> okR P O (transition tbl x)).
  { intros tbl x Hx. unfold transition. destruct (fire tbl (fsm x)); [apply ok_ret|apply ok_raise]; exact Hx. }
  assert (He : forall x, P x -> okR P O (endCap x)).
  { intros x Hx. unfold endCap. apply ok_andthen; [apply Ht; exact Hx|]. intros x1 Hx1.
    apply ok_andthen; [apply ok_emit; [exact Hx1|exact Logic.I]|]. intros x2 Hx2.
    apply ok_emit; [exact Hx2|exact Logic.I]. }
  assert (H : okR P O (do903 s)).
  { unfold do903. apply ok_andthen; [apply Ht; reflexivity|]. intros x Hx.
    destruct (N.eqb (fsm x) INIT_CAP); [apply He; exact Hx|apply ok_ret; exact Hx]. }
  exact (proj1 H).
Qed.

(* ---- the pinned code lets a server skip required SASL (finding F8) ---- *)
Definition cfg_required : cfg :=
  Cfg (s_sasl :: [98;97;116;99;104] :: []) true [s_plain] [[65;65;65;65]] [] None false false true [104] 3.

(* (a) the server does not list sasl; (b) it NAKs sasl; (c) it skips CAP and sends the MOTD *)
Example required_bypassed_no_sasl :
  let ms := [cap [s_LS; [98;97;116;99;104]]; cap [[65;67;75]; [98;97;116;99;104]]; INum 376 []] in
  let '(s, outs) := run_msgs cfg_required (start cfg_required) ms in
  fsm s = CONNECTED /\ authed s = false /\ existsb (fun o => match o with GEnd _ _ => true | _ => false end) outs = true.
Proof. vm_compute. auto. Qed.
Example required_bypassed_nak :
  let ms := [cap [s_LS; s_sasl]; cap [[78;65;75]; s_sasl]; INum 376 []] in
  let '(s, outs) := run_msgs cfg_required (start cfg_required) ms in
  fsm s = CONNECTED /\ authed s = false /\ existsb (fun o => match o with GEnd _ _ => true | _ => false end) outs = true.
Proof. vm_compute. auto. Qed.
Example required_bypassed_no_cap :
  let '(s, outs) := run_msgs cfg_required (start cfg_required) [INum 376 []] in
  fsm s = CONNECTED /\ authed s = false.
Proof. vm_compute. auto. Qed.

(* ---- STS ---- *)
(* over an insecure link a valid policy makes the very next driver action a
   reconnect to the advertised port with verification forced, and nothing is
   stored; what follows belongs to the new connection *)
Theorem sts_insecure_upgrade c s policy port t :
  c_secure c = false -> parseStsPolicy policy false = Some port ->
  fire gen.T08.EV_on_shutdown (fsm s) = Some t ->
  exists rest, routs (onCapSts c s policy) = Reconnect (Some (c_host c, port, c_attempt c, true)) true :: rest
               /\ Forall (fun o => match o with StoreSts _ _ => False | _ => True end) rest.
Proof.
  intros Hs Hp Hf. unfold onCapSts. rewrite Hs, Hp. unfold transition. rewrite Hf. rewrite andthen_ret.
  unfold reconnect, emit. cbn [andthen].
  pose proof (C08.PassA.ok_reset c (set_fsm s t)) as [_ Ho].
  destruct (reset c (set_fsm s t)) as [[s' o'] e']. cbn [routs fst snd app] in *.
  eexists. split; [reflexivity|].
  eapply Forall_impl; [|exact Ho]. intros o Hoa. destruct o; try exact Logic.I.
  cbn in Hoa. rewrite Hs in Hoa. discriminate.
Qed.

(* the shutdown transition is possible from every state *)
Lemma shutdown_always x : exists t, fire gen.T08.EV_on_shutdown x = Some t.
Proof. vm_compute. eexists. reflexivity. Qed.

(* a missing or invalid port (or, on a secure link, duration) is ignored: no store, no reconnect *)
Theorem sts_invalid_ignored c s policy :
  parseStsPolicy policy (c_secure c) = None -> onCapSts c s policy = ret s.
Proof. intro H. unfold onCapSts. rewrite H. reflexivity. Qed.

(* on a secure link a valid policy is stored as received, and nothing else happens *)
Theorem sts_secure_stored c s policy port :
  c_secure c = true -> parseStsPolicy policy true = Some port ->
  onCapSts c s policy = emit s (StoreSts (c_host c) policy).
Proof. intros Hs Hp. unfold onCapSts. rewrite Hs, Hp. reflexivity. Qed.

(* ---- applying a stored policy ---- *)
Theorem sts_applied_on_domain now n sv pol last port duration :
  dict_get (sv_host sv) (policies n) = Some pol -> parseStsPolicy2 pol true = Some (port, duration) ->
  dict_get (sv_host sv) (discs n) = Some last -> (now <= last + duration)%Z ->
  applyStsPolicy now n sv = (n, Ok (Server (sv_host sv) port (sv_attempt sv) true)).
Proof.
  intros Hp Hparse Hl Hle. unfold applyStsPolicy. rewrite Hp, Hl, Hparse.
  destruct (Z.ltb (last + duration) now) eqn:E; [apply Z.ltb_lt in E; lia|reflexivity].
Qed.

(* a stored, unexpired policy is ignored when no disconnect time was ever recorded (finding F9) *)
Theorem sts_applied_refuted :
  exists now n sv pol, dict_get (sv_host sv) (policies n) = Some pol /\
    parseStsPolicy2 pol true = Some (6697%Z, 1000000%Z) /\
    applyStsPolicy now n sv = (n, Ok sv) /\ sv_force sv = false /\ sv_port sv = 6667%Z.
Proof.
  exists 100%Z, (Net [([104], s_port ++ [61;54;54;57;55;44] ++ s_duration ++ [61;49;48;48;48;48;48;48])] []),
         (Server [104] 6667 0 false). eexists. vm_compute. repeat split; reflexivity.
Qed.

(* expiry: removed and not applied *)
Theorem sts_expired now n sv pol last port duration :
  dict_get (sv_host sv) (policies n) = Some pol -> parseStsPolicy2 pol true = Some (port, duration) ->
  dict_get (sv_host sv) (discs n) = Some last -> (last + duration < now)%Z ->
  applyStsPolicy now n sv = (Net (sdel_key (sv_host sv) (policies n)) (discs n), Ok sv).
Proof.
  intros Hp Hparse Hl Hlt. unfold applyStsPolicy. rewrite Hp, Hl, Hparse.
  destruct (Z.ltb (last + duration) now) eqn:E; [reflexivity|apply Z.ltb_ge in E; lia].
Qed.

(* forced verification: either full PKI verification is switched on, or the
   operator configured fingerprints / an authority certificate to verify against *)
Theorem force_implies_verify conf_verify fp ca :
  verify_choice true conf_verify fp ca = true \/ fp = true \/ ca = true.
Proof. unfold verify_choice. destruct conf_verify, fp, ca; cbn; auto. Qed.
