(* C09/Model.v — what C09 adds to the registration machine of C08/Model.v:
   ServersMixin._applyStsPolicy / onDisconnect (src/drivers/__init__.py:97-131),
   the persisted store IrcNetwork (src/ircdb.py:499-537) and the verification
   choice of SocketDriver.starttls (src/drivers/Socket.py:400-440).  The clock
   is an input.  No proofs here. *)
From Coq Require Import List NArith ZArith Bool.
Import ListNotations.
Require Import Base.Wire Base.PyStr.
Require Export C08.Model.
Open Scope N_scope.

Record server := Server { sv_host : str; sv_port : Z; sv_attempt : Z; sv_force : bool }.
Record netstore := Net { policies : list (str * str); discs : list (str * Z) }.

Fixpoint sdel_key {A} (k : str) (d : list (str * A)) : list (str * A) :=
  match d with [] => [] | (k2, v) :: r => if seq_eqb k k2 then r else (k2, v) :: sdel_key k r end.

(* ServersMixin._applyStsPolicy(server) at clock [now] *)
Definition applyStsPolicy (now : Z) (n : netstore) (sv : server) : netstore * res server :=
  match dict_get (sv_host sv) (policies n) with
  | Some pol =>
      match parseStsPolicy2 pol true with
      | None => (n, Raise TypeError)                       (* None['duration'] *)
      | Some (port, duration) =>
          (* no recorded disconnection: the policy did not start to expire *)
          if match dict_get (sv_host sv) (discs n) with Some last => Z.ltb (last + duration) now | None => false end
          then (Net (sdel_key (sv_host sv) (policies n)) (discs n), Ok sv)      (* expired: removed *)
          else (n, Ok (Server (sv_host sv) port (sv_attempt sv) true))
      end
  | None => (n, Ok sv)
  end.

(* onDisconnect: network.addDisconnection(host) *)
Definition onDisconnect (now : Z) (n : netstore) (host : str) : netstore :=
  Net (policies n) (dict_set host now (discs n)).
(* IrcNetwork.addStsPolicy *)
Definition addStsPolicy (n : netstore) (host policy : str) : netstore :=
  Net (dict_set host policy (policies n)) (discs n).

(* ---- ServersMixin: the server list, as a state machine ----
   self.servers is (re)loaded from the configuration when it is empty
   (_getServers); _getNextServer pops the first entry and applies the stored
   policy to the POPPED entry, at that moment (not when the list is loaded) *)
Record mixin := Mixin { m_servers : list server; m_current : option server }.
Inductive mev :=
| MStore (host policy : str)            (* IrcNetwork.addStsPolicy *)
| MDisc (now : Z) (host : str)          (* IrcNetwork.addDisconnection at clock now *)
| MNext (now : Z)                       (* ServersMixin._getNextServer() at clock now *)
| MRestart.                             (* the process restarts: networks.conf is written and read back (the store survives), a new ServersMixin *)

Definition getNextServer (conf : list server) (now : Z) (n : netstore) (m : mixin) : netstore * mixin * res server :=
  let servers := match m_servers m with [] => conf | l => l end in
  match servers with
  | [] => (n, Mixin [] (m_current m), Raise AssertionError)
  | sv :: rest =>
      let '(n', r) := applyStsPolicy now n sv in
      match r with
      | Ok sv' => (n', Mixin rest (Some sv'), r)
      | Raise _ => (n', Mixin rest (m_current m), r)
      end
  end.

Definition mstep (conf : list server) (nm : netstore * mixin) (e : mev) : netstore * mixin * option (res server) :=
  let '(n, m) := nm in
  match e with
  | MStore h p => (addStsPolicy n h p, m, None)
  | MDisc now h => (onDisconnect now n h, m, None)
  | MNext now => let '(n', m', r) := getNextServer conf now n m in (n', m', Some r)
  | MRestart => (n, Mixin [] None, None)
  end.

(* a history: the log records, for every _getNextServer call, the clock, the store as the call found it, and the result *)
Fixpoint mrun (conf : list server) (nm : netstore * mixin) (evs : list mev) : list (Z * netstore * res server) :=
  match evs with
  | [] => []
  | e :: r =>
      let '(n', m', o) := mstep conf nm e in
      match e, o with
      | MNext now, Some res => (now, fst nm, res) :: mrun conf (n', m') r
      | _, _ => mrun conf (n', m') r
      end
  end.

(* starttls: the `verify` argument handed to ssl_wrap_socket.
   anyval = any([conf verifyCertificates, serverFingerprints, authorityCertificate]) *)
Definition verify_choice (force conf_verify fingerprints authority : bool) : bool :=
  let anyval := conf_verify || fingerprints || authority in
  if force && negb anyval then true else conf_verify.

(* ---- SocketDriver.reconnect(): from the popped server entry to the TLS layer ----
   `self.currentServer = server or self._getNextServer()`; an entry from the configured list has attempt = None
   (here -1) and gets the driver's attempt number through `_replace(attempt=...)`, which keeps every other field --
   force_tls_verification included; then `if network_config.ssl() or currentServer.force_tls_verification: starttls()`
   and starttls chooses `verify` (verify_choice above) *)
Definition fill_attempt (sv : server) (drv : Z) : server :=
  if Z.eqb (sv_attempt sv) (-1) then Server (sv_host sv) (sv_port sv) drv (sv_force sv) else sv.
Record conn := Conn { cn_server : server; cn_tls : bool; cn_verify : bool }.
Definition connect_with (sv : server) (drv : Z) (ssl cv fp ca : bool) : conn :=
  let sv' := fill_attempt sv drv in
  let tls := ssl || sv_force sv' in
  Conn sv' tls (if tls then verify_choice (sv_force sv') cv fp ca else false).
(* drv = the driver's attempt counter before the call; ssl = networks.<net>.ssl; cv fp ca = the certificate validation settings *)
Definition connectS (conf : list server) (now : Z) (n : netstore) (m : mixin) (drv : Z) (ssl cv fp ca : bool)
  : netstore * mixin * res conn :=
  let '(n', m', r) := getNextServer conf now n m in
  match r with
  | Ok sv => let c := connect_with sv (drv + 1) ssl cv fp ca in (n', Mixin (m_servers m') (Some (cn_server c)), Ok c)
  | Raise e => (n', m', Raise e)
  end.

(* ---- wire ---- *)
Definition gServer (v : value) : server := Server (gS (nth_v 0 v)) (gZ (nth_v 1 v)) (gZ (nth_v 2 v)) (gB (nth_v 3 v)).
Definition vServer (s : server) : value := L [vS (sv_host s); I (sv_port s); I (sv_attempt s); vB (sv_force s)].
Definition gNet (v : value) : netstore :=
  Net (map (fun e => (gS (nth_v 0 e), gS (nth_v 1 e))) (gL (nth_v 0 v)))
      (map (fun e => (gS (nth_v 0 e), gZ (nth_v 1 e))) (gL (nth_v 1 v))).
Definition vNet (n : netstore) : value :=
  L [L (map (fun e => L [vS (fst e); vS (snd e)]) (policies n)); L (map (fun e => L [vS (fst e); I (snd e)]) (discs n))].

Definition gMixin (v : value) : mixin := Mixin (map gServer (gL (nth_v 0 v))) (gO gServer (nth_v 1 v)).
Definition vMixin (m : mixin) : value := L [L (map vServer (m_servers m)); vO vServer (m_current m)].
Definition gMev (v : value) : mev :=
  match gN (nth_v 0 v) with
  | 0 => MStore (gS (nth_v 1 v)) (gS (nth_v 2 v))
  | 1 => MDisc (gZ (nth_v 1 v)) (gS (nth_v 2 v))
  | 3 => MRestart
  | _ => MNext (gZ (nth_v 1 v))
  end.

(* run:  0..1 as C08 (one registration step / parseStsPolicy)
         2 (now net server) -> (net' result)            _applyStsPolicy
         3 (force conf fp ca) -> bool                    starttls verify choice
         4 (conf net mixin event) -> (net' mixin' result?)   one ServersMixin / store step
         20 (conf net mixin now attempt ssl cv fp ca) -> (net' mixin' (server tls verify))   SocketDriver.connect() down to the TLS layer *)
Definition run (v : value) : value :=
  let p := nth_v 1 v in
  match gN (nth_v 0 v) with
  | 2 => let '(n', r) := applyStsPolicy (gZ (nth_v 0 p)) (gNet (nth_v 1 p)) (gServer (nth_v 2 p)) in
         L [vNet n'; vR vServer r]
  | 4 => let '(n', m', o) := mstep (map gServer (gL (nth_v 0 p))) (gNet (nth_v 1 p), gMixin (nth_v 2 p)) (gMev (nth_v 3 p)) in
         L [vNet n'; vMixin m'; vO (vR vServer) o]
  | 20 => let '(n', m', r) := connectS (map gServer (gL (nth_v 0 p))) (gZ (nth_v 3 p)) (gNet (nth_v 1 p)) (gMixin (nth_v 2 p)) (gZ (nth_v 4 p))
                                      (gB (nth_v 5 p)) (gB (nth_v 6 p)) (gB (nth_v 7 p)) (gB (nth_v 8 p)) in
          L [vNet n'; vMixin m'; vR (fun c => L [vServer (cn_server c); vB (cn_tls c); vB (cn_verify c)]) r]
  | 3 => vB (verify_choice (gB (nth_v 0 p)) (gB (nth_v 1 p)) (gB (nth_v 2 p)) (gB (nth_v 3 p)))
  | _ => C08.Model.run v
  end.
