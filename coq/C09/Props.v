(* C09/Props.v — the property theorems, nothing else.
   Model: C08/Model.v + C09/Model.v.  Proofs: C08/PassA.v, C09/Lemmas.v. *)
From Coq Require Import List NArith ZArith Bool.
Import ListNotations.
Require Import Base.Wire Base.PyStr C08.Model C08.Frame C08.PassA C08.PassC C09.Model C09.Lemmas.

(* Full statement: with sasl.required, registration never completes (no CAP END,
   no CONNECTED) without a successful authentication.  The pinned code violates
   it (finding F8: the flag is only read once every mechanism has failed).
   Proved: once the bot is inside the initial SASL exchange it stays there,
   sending no CAP END, whatever the server sends short of a 903 -- or the
   connection is dropped ... *)
Theorem C09_sasl_required_on_domain :
  forall c a0 ms s,
    c_required c = true -> IS a0 s -> forallb not903_reset ms = true ->
    (IS a0 (fst (run_msgs c s ms)) /\ Forall quiet (snd (run_msgs c s ms)))
    \/ Exists is_reset (snd (run_msgs c s ms)).
Proof. exact required_blocks. Qed.
Print Assumptions C09_sasl_required_on_domain.

(* ... the 903 path does authenticate ... *)
Theorem C09_success_authenticates : forall s, authed (rstate (do903 s)) = true.
Proof. exact do903_authenticates. Qed.
Print Assumptions C09_success_authenticates.

(* ... and outside the domain (the server never acknowledges 'sasl') the bot
   ends up CONNECTED, unauthenticated: no sasl in LS / NAK / no CAP at all. *)
Theorem C09_sasl_required_refuted :
  exists c, c_required c = true /\
    (exists ms, fsm (fst (run_msgs c (start c) ms)) = CONNECTED /\ authed (fst (run_msgs c (start c) ms)) = false) .
Proof.
  exists cfg_required. split; [reflexivity|]. eexists [INum 376 []]. vm_compute. auto.
Qed.
Print Assumptions C09_sasl_required_refuted.

(* STS over an insecure connection: the next driver action is a reconnect to the
   advertised port with certificate verification forced; nothing is stored. *)
Theorem C09_sts_insecure_upgrade :
  forall c s policy port t,
    c_secure c = false -> parseStsPolicy policy false = Some port ->
    fire gen.T08.EV_on_shutdown (fsm s) = Some t ->
    exists rest, routs (onCapSts c s policy) = Reconnect (Some (c_host c, port, c_attempt c, true)) true :: rest
                 /\ Forall (fun o => match o with StoreSts _ _ => False | _ => True end) rest.
Proof. exact sts_insecure_upgrade. Qed.
Print Assumptions C09_sts_insecure_upgrade.

(* A policy is stored only when received over a verified TLS connection: for
   every message sequence (this is the StoreSts clause of OutA). *)
Theorem C09_sts_store_only_secure :
  forall c ms s h p, InvA s -> In (StoreSts h p) (snd (run_msgs c s ms)) -> c_secure c = true.
Proof.
  intros c ms s h p Hs Hin. destruct (PassA.ok_run c ms s Hs) as [_ Ho].
  rewrite Forall_forall in Ho. exact (Ho _ Hin).
Qed.
Print Assumptions C09_sts_store_only_secure.

Theorem C09_sts_invalid_ignored :
  forall c s policy, parseStsPolicy policy (c_secure c) = None -> onCapSts c s policy = ret s.
Proof. exact sts_invalid_ignored. Qed.
Print Assumptions C09_sts_invalid_ignored.

(* Full statement: while an unexpired stored policy exists every connection to
   that host uses its port with verification.  Violated when no disconnect time
   was ever recorded (finding F9); proved with one ... *)
Theorem C09_sts_applied_on_domain :
  forall now n sv pol last port duration,
    dict_get (sv_host sv) (policies n) = Some pol -> parseStsPolicy2 pol true = Some (port, duration) ->
    dict_get (sv_host sv) (discs n) = Some last -> (now <= last + duration)%Z ->
    applyStsPolicy now n sv = (n, Ok (Server (sv_host sv) port (sv_attempt sv) true)).
Proof. exact sts_applied_on_domain. Qed.
Print Assumptions C09_sts_applied_on_domain.

Theorem C09_sts_applied_refuted :
  exists now n sv pol, dict_get (sv_host sv) (policies n) = Some pol /\
    parseStsPolicy2 pol true = Some (6697%Z, 1000000%Z) /\
    applyStsPolicy now n sv = (n, Ok sv) /\ sv_force sv = false /\ sv_port sv = 6667%Z.
Proof. exact sts_applied_refuted. Qed.
Print Assumptions C09_sts_applied_refuted.

(* forced verification means verification *)
Theorem C09_force_implies_verify :
  forall conf_verify fp ca, verify_choice true conf_verify fp ca = true \/ fp = true \/ ca = true.
Proof. exact force_implies_verify. Qed.
Print Assumptions C09_force_implies_verify.
