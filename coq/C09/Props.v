(* C09/Props.v — the property theorems, nothing else.
   Model: C08/Model.v + C09/Model.v.  Proofs: C08/PassA.v, C09/Lemmas.v. *)
From Coq Require Import List NArith ZArith Bool.
Import ListNotations.
Require Import Base.Wire Base.PyStr C08.Model C08.Frame C08.PassA C08.PassC C09.Model C09.Lemmas.

(* With sasl.required, registration never completes without a successful
   authentication: an invariant of EVERY sequence of server messages (servers
   that omit 'sasl', NAK it, fail every mechanism, skip CAP entirely, send CAP
   NEW/DEL, ... and driver resets), from every state satisfying it:
   - InvR: while sasl_authenticated is false the fsm is still registering
     (not INIT_WAITING_MOTD = CAP END sent, not CONNECTED / CONNECTED_SASL =
     where the channels are joined);
   - OutR: every CAP END (its ghost event records sasl_authenticated at that
     moment) is sent authenticated.
   (Before the fix of finding C09.F8 this held only inside the SASL exchange
   and was refuted outside it.) *)
Theorem C09_sasl_required :
  forall c ms s, InvR c s ->
  InvR c (fst (run_msgs c s ms)) /\ Forall (OutR c) (snd (run_msgs c s ms)).
Proof. exact r_run. Qed.
Print Assumptions C09_sasl_required.

(* every connection starts in a state satisfying the invariant *)
Theorem C09_reset_establishes_required_invariant : forall c s, InvR c (rstate (reset c s)).
Proof. exact InvR_reset. Qed.
Print Assumptions C09_reset_establishes_required_invariant.

(* the same in plain terms, from the start of a connection *)
Theorem C09_sasl_required_from_start :
  forall c ms, c_required c = true ->
  let r := run_msgs c (start c) ms in
  (authed (fst r) = false ->
     fsm (fst r) <> CONNECTED /\ fsm (fst r) <> CONNECTED_SASL /\ fsm (fst r) <> WAIT_MOTD) /\
  (forall n out a, In (GEnd n out a) (snd r) -> a = true).
Proof. exact required_never_registers. Qed.
Print Assumptions C09_sasl_required_from_start.

(* ... the only thing that authenticates is a 903 ... *)
Theorem C09_success_authenticates : forall c s, authed (rstate (do903 c s)) = true.
Proof. exact do903_authenticates. Qed.
Print Assumptions C09_success_authenticates.

(* ... and the statement is not vacuous: with sasl.required a successful
   exchange does register (one CAP END, authenticated, CONNECTED), while the
   old witness of C09.F8 (no CAP at all: 375/376) now drops the connection *)
Theorem C09_sasl_required_witnesses :
  (let ms := [cap [s_LS; s_sasl]; cap [[65;67;75]; s_sasl]; IAuth [s_PLUS] true true; INum 903 []; INum 376 []] in
   let '(s, outs) := run_msgs cfg_required (start cfg_required) ms in
   filter is_cap_end outs = [GEnd 1 [] true] /\ fsm s = CONNECTED /\ authed s = true) /\
  (let '(s, outs) := run_msgs cfg_required (start cfg_required) [INum 375 []; INum 376 []] in
   existsb is_cap_end outs = false /\ existsb is_drop outs = true /\ fsm s = INIT_CAP /\ authed s = false).
Proof. exact (conj required_success_registers required_no_cap_aborts). Qed.
Print Assumptions C09_sasl_required_witnesses.

(* STS over an insecure connection: the next driver action is a reconnect to the
   advertised port with certificate verification forced; nothing is stored. *)
Theorem C09_sts_insecure_upgrade :
  forall c s policy port t,
    c_secure c = false -> parseStsPolicy policy false = Some port ->
    fire gen.T08.EV_on_shutdown (fsm s) = Some t ->
    exists rest, routs (onCapSts c s policy) = Reconnect (Some (c_host c, port, c_attempt c, true)) true :: rest
                 /\ Forall (fun o => match o with StoreSts _ _ => False | _ => True end) rest.
Proof. exact sts_insecure_upgrade. Qed.
Print Assumptions C09_sts_insecure_upgrade.

(* A policy is stored only when received over a verified TLS connection: for
   every message sequence (this is the StoreSts clause of OutA). *)
Theorem C09_sts_store_only_secure :
  forall c ms s h p, InvA s -> In (StoreSts h p) (snd (run_msgs c s ms)) -> c_secure c = true.
Proof.
  intros c ms s h p Hs Hin. destruct (PassA.ok_run c ms s Hs) as [_ Ho].
  rewrite Forall_forall in Ho. exact (Ho _ Hin).
Qed.
Print Assumptions C09_sts_store_only_secure.

Theorem C09_sts_invalid_ignored :
  forall c s policy, parseStsPolicy policy (c_secure c) = None -> onCapSts c s policy = ret s.
Proof. exact sts_invalid_ignored. Qed.
Print Assumptions C09_sts_invalid_ignored.

(* While an unexpired stored policy exists every connection to that host uses
   its port with verification: unexpired = no disconnection was ever recorded,
   or now <= last disconnection + duration.  (Before the fix of finding C09.F9
   the policy was ignored when no disconnect time had been recorded.) *)
Theorem C09_sts_applied :
  forall now n sv pol port duration,
    dict_get (sv_host sv) (policies n) = Some pol -> parseStsPolicy2 pol true = Some (port, duration) ->
    unexpired now n (sv_host sv) duration ->
    applyStsPolicy now n sv = (n, Ok (Server (sv_host sv) port (sv_attempt sv) true)).
Proof. exact sts_applied. Qed.
Print Assumptions C09_sts_applied.

(* non-vacuity, on the old witness of C09.F9: stored policy, no disconnect record *)
Theorem C09_sts_applied_without_disconnect_record :
  let n := Net [([104], s_port ++ [61;54;54;57;55;44] ++ s_duration ++ [61;49;48;48;48;48;48;48])] [] in
  applyStsPolicy 100%Z n (Server [104] 6667 0 false) = (n, Ok (Server [104] 6697 0 true)).
Proof. exact sts_applied_no_disconnect_record. Qed.
Print Assumptions C09_sts_applied_without_disconnect_record.

(* ... and it is applied to EVERY connection: for every configured server list
   (several entries, repeated hostnames), every state of the policy store and
   of ServersMixin, and every history of store-policy / record-disconnection /
   _getNextServer / restart (networks.conf written and read back; modelled as the
   store surviving, the reader itself is C16) events, every server returned by _getNextServer whose host had
   an unexpired stored policy when the call was made has the policy's port and
   force_tls_verification = true.  (The policy is applied to the popped entry at
   pop time; pinned by the table extractor and checked step by step against the
   real ServersMixin.) *)
Theorem C09_sts_every_connection :
  forall conf evs nm, Forall next_good (mrun conf nm evs).
Proof. exact every_connection. Qed.
Print Assumptions C09_sts_every_connection.

(* non-vacuity: two entries for one host, the policy stored after the list was loaded *)
Theorem C09_sts_every_connection_preloaded :
  let h := [104] in
  let conf := [Server h 6667 0 false; Server h 8000 0 false] in
  let pol := s_port ++ [61;54;54;57;55;44] ++ s_duration ++ [61;49;48;48] in
  map (fun rec => snd rec) (mrun conf (Net [] [], Mixin [] None) [MNext 10; MStore h pol; MDisc 20 h; MNext 30])
  = [Ok (Server h 6667 0 false); Ok (Server h 6697 0 true)].
Proof. exact every_connection_preloaded. Qed.
Print Assumptions C09_sts_every_connection_preloaded.

(* the store and the lookup use the same key, the hostname exactly as the server entry carries it (capitals
   included): a policy stored for host h is applied to the next connection to h, for every store and every h.
   (The key expressions of addStsPolicy / expireStsPolicy / addDisconnection / _applyStsPolicy / onDisconnect /
   _onCapSts are pinned by the table extractor; histories with capitalised hostnames run against the real code.) *)
Theorem C09_sts_store_then_apply :
  forall n h pol now p0 at0 f0 port duration,
    parseStsPolicy2 pol true = Some (port, duration) ->
    unexpired now (addStsPolicy n h pol) h duration ->
    applyStsPolicy now (addStsPolicy n h pol) (Server h p0 at0 f0) = (addStsPolicy n h pol, Ok (Server h port at0 true)).
Proof. exact sts_store_then_apply. Qed.
Print Assumptions C09_sts_store_then_apply.

(* ... and the forced verification reaches the TLS layer: SocketDriver.connect() = take the next server
   (policy applied), fill in the attempt number keeping every other field, start TLS if ssl is on or verification is
   forced, choose `verify`.  For every configured list, store, clock, attempt counter and TLS settings: a connection
   to a host with an unexpired stored policy goes to the policy's port, over TLS, with the certificate verified. *)
Theorem C09_sts_reaches_tls :
  forall conf now n m drv ssl cv fp ca c, snd (connectS conf now n m drv ssl cv fp ca) = Ok c ->
  forall pol port duration,
    dict_get (sv_host (cn_server c)) (policies n) = Some pol -> parseStsPolicy2 pol true = Some (port, duration) ->
    unexpired now n (sv_host (cn_server c)) duration ->
    sv_port (cn_server c) = port /\ sv_force (cn_server c) = true /\ cn_tls c = true /\
    (cn_verify c = true \/ fp = true \/ ca = true).
Proof. exact sts_reaches_tls. Qed.
Print Assumptions C09_sts_reaches_tls.

(* non-vacuity of C09_sts_reaches_tls where the configured port already IS the policy port: the policy is applied all the
   same (force_tls_verification, TLS started, verify = true), with networks.<net>.ssl off and on *)
Theorem C09_sts_reaches_tls_same_port :
  let h := [104] in
  let pol := s_port ++ [61;54;54;57;55;44] ++ s_duration ++ [61;49;48;48;48] in
  snd (connectS [Server h 6697 (-1) false] 50 (Net [(h, pol)] [(h, 20%Z)]) (Mixin [] None) 3 false false false false)
  = Ok (Conn (Server h 6697 4 true) true true) /\
  snd (connectS [Server h 6697 (-1) false] 50 (Net [(h, pol)] [(h, 20%Z)]) (Mixin [] None) 3 true false false false)
  = Ok (Conn (Server h 6697 4 true) true true).
Proof. exact sts_reaches_tls_same_port. Qed.
Print Assumptions C09_sts_reaches_tls_same_port.

(* forced verification means verification *)
Theorem C09_force_implies_verify :
  forall conf_verify fp ca, verify_choice true conf_verify fp ca = true \/ fp = true \/ ca = true.
Proof. exact force_implies_verify. Qed.
Print Assumptions C09_force_implies_verify.
