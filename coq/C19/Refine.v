(* C19/Refine.v — the send path refines the abstract sender of Spec.v: every
   trace of every history is a trace of "express queue + three FIFO queues +
   throttle + JOIN rate limit", and the abstract queues are the real ones. *)
From Coq Require Import List NArith ZArith Bool Lia.
Import ListNotations.
Require Import Base.Wire Base.PyStr C19.Model C19.Spec C19.Ledger C19.Order C19.Rate.
Open Scope Z_scope.

Lemma accepts_app thr lim a e1 a1 e2 a2 :
  accepts thr lim a e1 a1 -> accepts thr lim a1 e2 a2 -> accepts thr lim a (e1 ++ e2) a2.
Proof.
  induction 1; intro K; simpl.
  - exact K.
  - eapply acc_ev; eauto.
  - eapply acc_tau; eauto.
Qed.

Lemma accepts_silent thr lim a evs : Forall silent evs -> accepts thr lim a evs a.
Proof.
  induction 1; [constructor|]. eapply acc_ev; [apply s_silent; assumption | assumption].
Qed.

(* ---- what every trace of the abstract sender satisfies (no reference to the
   implementation): the spacing clauses ---- *)
Lemma accepts_throttle thr lim a evs a' : accepts thr lim a evs a' -> throttle_ok thr (xt a) evs = true.
Proof.
  induction 1 as [a|a ev a1 evs a2 ST _ IH|a a1 evs a2 RT _ IH]; [reflexivity| |].
  - destruct ST; simpl in *; try exact IH.
    + unfold apush in IH. destruct (ecls e); exact IH.
    + rewrite IH, andb_true_r. destruct t as [t0|]; [|reflexivity]. apply Z.ltb_lt. auto.
    + destruct ev; simpl in *; try contradiction; exact IH.
    + destruct ev; simpl in *; try contradiction; exact IH.
  - destruct RT; exact IH.
Qed.

Lemma accepts_joinrate thr lim a evs a' : accepts thr lim a evs a' -> joinrate_ok lim (xj a) evs = true.
Proof.
  induction 1 as [a|a ev a1 evs a2 ST _ IH|a a1 evs a2 RT _ IH]; [reflexivity| |].
  - destruct ST; simpl in *; try exact IH.
    + unfold apush in IH. destruct (ecls e); exact IH.
    + destruct (is_join e) eqn:EJ; [|exact IH]. rewrite IH, andb_true_r.
      destruct j as [t0|]; [|reflexivity]. apply Z.leb_le. auto.
    + destruct ev; simpl in *; try contradiction; exact IH.
    + destruct ev; simpl in *; try contradiction; exact IH.
  - destruct RT; exact IH.
Qed.

Section WithCfg.
Variable c : cfg.
Variable filt : msg -> fres.
Hypothesis thr_nonneg : 0 <= c_throttle c.
Hypothesis JL : join_is_low = true.
Notation acc := (accepts (c_throttle c) (c_join c)).

Definition SIM (s : st) (a : ast) : Prop :=
  exists t j, a = A (fast s) (hi s) (no s) (lo s) t j None /\ linkT t s /\ linkJ j s.

Definition W (s : st) (evs : list event) (s' : st) : Prop :=
  INV s -> INV s' /\ forall a, SIM s a -> exists a', acc a evs a' /\ SIM s' a'.

Lemma W_refl s : W s [] s.
Proof. intro I. split; [exact I|]. intros a S. exists a. split; [constructor | exact S]. Qed.

Lemma W_trans s e1 s1 e2 s2 : W s e1 s1 -> W s1 e2 s2 -> W s (e1 ++ e2) s2.
Proof.
  intros W1 W2 I. destruct (W1 I) as [I1 K1]. destruct (W2 I1) as [I2 K2]. split; [exact I2|].
  intros a S. destruct (K1 a S) as [a1 [A1 S1]]. destruct (K2 a1 S1) as [a2 [A2 S2]].
  exists a2. split; [eapply accepts_app; eauto | exact S2].
Qed.

(* the queues and both clocks untouched *)
Definition same (s s' : st) : Prop :=
  fast s' = fast s /\ hi s' = hi s /\ no s' = no s /\ lo s' = lo s
  /\ lastTake s' = lastTake s /\ lastJoin s' = lastJoin s.

Lemma SIM_same s s' a : SIM s a -> same s s' -> SIM s' a.
Proof.
  intros [t [j [-> [LT LJ]]]] [F [H [N [L [T J]]]]]. exists t, j. rewrite F, H, N, L.
  split; [reflexivity|]. split; [destruct t; simpl in *; lia | destruct j; simpl in *; congruence].
Qed.

Lemma W_silent s evs s' : INV s' -> same s s' -> Forall silent evs -> W s evs s'.
Proof.
  intros I' SM SL _. split; [exact I'|]. intros a S. exists a.
  split; [apply accepts_silent; exact SL | eapply SIM_same; eauto].
Qed.

Lemma idle_same s evs0 s' evs : idle s evs0 = (s', evs) ->
  same s s' /\ (evs = evs0 \/ evs = evs0 ++ [DriverDie]) /\ (INV s -> INV s').
Proof.
  unfold idle, same. destruct (zombie s && negb (fast_nonempty s) && negb (queue_nonempty s));
    intro H; inversion H; subst.
  - split; [destruct s; cbn; auto 10|]. split; [right; reflexivity|]. intro I. destruct s; unf; exact I.
  - split; [auto 10|]. split; [left; reflexivity | auto].
Qed.

(* after any prefix accepted up to a state related to s, the tail of takeMsg adds nothing observable *)
Lemma acc_idle s evs0 s' evs a a1 : idle s evs0 = (s', evs) -> acc a evs0 a1 -> SIM s a1 ->
  acc a evs a1 /\ SIM s' a1.
Proof.
  intros H A1 S. destruct (idle_same _ _ _ _ H) as [SM [[->| ->] _]].
  - split; [exact A1 | eapply SIM_same; eauto].
  - split; [|eapply SIM_same; eauto].
    eapply accepts_app; [exact A1|]. apply accepts_silent. constructor; [exact Logic.I | constructor].
Qed.

Lemma W_enqueue s m s' evs : enqueue c s m = (s', evs) -> W s evs s'.
Proof.
  intros H I. destruct (INV_enqueue c filt _ _ _ _ H I) as [I' _]. split; [exact I'|]. revert H.
  unfold enqueue. destruct (q_contains s m && c_dup c).
  - intro H; inversion H; subst. intros a S. exists a. split; [|exact S].
    apply accepts_silent. constructor; [exact Logic.I | constructor].
  - intros H a [t [j [-> [LT LJ]]]]. exists (apush (A (fast s) (hi s) (no s) (lo s) t j None) (nxt s, m)).
    assert (E : evs = [Accepted FromQueue (nxt s, m)]) by (destruct (classify (mcmd m)); inversion H; reflexivity).
    subst evs. split; [eapply acc_ev; [apply s_accQ | constructor]|].
    exists t, j. unfold apush, ecls. cbn [snd].
    destruct s as [h n l lj f lt lp z ac op dd nx]. cbn in *.
    destruct (classify (mcmd m)); inversion H; subst; cbn; auto.
Qed.

Lemma W_queueMsg s m s' evs : queueMsg c s m = (s', evs) -> W s evs s'.
Proof.
  unfold queueMsg. destruct (zombie s); [|apply W_enqueue].
  intro H; inversion H; subst. intro I. split; [exact I|]. intros a S. exists a. split; [|exact S].
  apply accepts_silent. constructor; [exact Logic.I | constructor].
Qed.

Lemma W_sendMsg s m s' evs : sendMsg s m = (s', evs) -> W s evs s'.
Proof.
  intros H I. destruct (INV_sendMsg _ _ _ _ H I) as [I' _]. split; [exact I'|]. revert H.
  unfold sendMsg. destruct (zombie s).
  - intro H; inversion H; subst. intros a S. exists a. split; [|exact S].
    apply accepts_silent. constructor; [exact Logic.I | constructor].
  - intros H a [t [j [-> [LT LJ]]]]. inversion H; subst.
    exists (A (fast s ++ [(nxt s, m)]) (hi s) (no s) (lo s) t j None).
    split; [eapply acc_ev; [apply s_accF | constructor]|].
    exists t, j. destruct s; cbn in *. auto.
Qed.

(* the fate of an entry in flight is one abstract step *)
Lemma fate_step s1 f e now s2 evs r : finish filt s1 f e now = (s2, evs, r) ->
  s2 = s1 /\ exists x, evs = [Took f e now; x] /\ fate e x.
Proof.
  intro H. apply finish_cases in H. destruct H as [-> [x [-> K]]]. split; [reflexivity|].
  exists x. split; [reflexivity|].
  destruct K as [[out [-> [_ [M _]]]]|[[out [-> [_ [M _]]]]|[dt [-> _]]]]; simpl; auto.
Qed.

Lemma dequeue_pop now s s2 e : dequeue c now s = (s2, Some e) ->
  apop (hi s) (no s) (lo s) = Some (e, (hi s2, no s2, lo s2)) /\ fast s2 = fast s.
Proof.
  unfold dequeue. destruct s as [h n l lj f lt lp z ac op dd nx]. cbn.
  destruct h as [|x h']; [destruct n as [|x n']; [destruct l as [|x l']|]|].
  - discriminate.
  - destruct (is_join x); [destruct (lj + c_join c <=? now)|]; intro H; inversion H; subst; cbn; auto.
  - intro H; inversion H; subst; cbn; auto.
  - intro H; inversion H; subst; cbn; auto.
Qed.

Lemma dequeue_rot now s s2 : dequeue c now s = (s2, None) ->
  fast s2 = fast s /\ hi s2 = hi s /\ no s2 = no s /\
  (lo s2 = lo s \/ exists e l', lo s = e :: l' /\ is_join e = true /\ lo s2 = l' ++ [e]).
Proof.
  unfold dequeue. destruct s as [h n l lj f lt lp z ac op dd nx]. cbn.
  destruct h as [|x h']; [destruct n as [|x n']; [destruct l as [|x l']|]|]; try discriminate.
  - intro H; inversion H; subst; cbn; auto.
  - destruct (is_join x) eqn:EJ; [destruct (lj + c_join c <=? now)|]; intro H; inversion H; subst; cbn.
    repeat split; auto. right. eauto.
Qed.

Lemma W_take_body s now s1 evs r : take_body c filt s now = (s1, evs, r) -> W s evs s1.
Proof.
  intros HB I. pose proof (Q_take_body c filt _ _ _ _ _ HB I) as [I1 _]. split; [exact I1|].
  revert HB. unfold take_body.
  destruct (fast s) as [|e fr] eqn:EF.
  - destruct (queue_nonempty s) eqn:EQ.
    + destruct (now - lastTake s <=? c_throttle c) eqn:ET.
      * destruct (idle s []) as [s2 ev2] eqn:EI. intro H; inversion H; subst. intros a S.
        exists a. eapply acc_idle; eauto. constructor.
      * apply Z.leb_gt in ET.
        assert (I0 : INV (set_lastTake s now)) by (destruct s; unf; exact I).
        destruct (dequeue c now (set_lastTake s now)) as [s2 [e|]] eqn:ED.
        -- intros H a [t [j [-> [LT LJ]]]].
           destruct (dequeue_rate c JL _ _ _ _ ED I0) as [DT DJ].
           destruct (dequeue_pop _ _ _ _ ED) as [PO F2].
           apply fate_step in H. destruct H as [-> [x [-> FT]]].
           assert (LT2 : lastTake s2 = now) by (rewrite DT; destruct s; reflexivity).
           assert (E0 : lastJoin (set_lastTake s now) = lastJoin s) by (destruct s; reflexivity).
           rewrite E0 in DJ.
           assert (F0 : fast s2 = []) by (rewrite F2; destruct s; cbn in *; exact EF).
           assert (PO' : apop (hi s) (no s) (lo s) = Some (e, (hi s2, no s2, lo s2))) by (destruct s; exact PO).
           exists (A [] (hi s2) (no s2) (lo s2) (Some now) (if is_join e then Some now else j) None).
           split.
           ++ rewrite EF. eapply acc_ev; [eapply s_tookQ; [exact PO' | | ]|].
              ** intros t0 ->. simpl in LT. lia.
              ** intros EJ t0 ->. simpl in LJ. rewrite EJ in DJ. lia.
              ** eapply acc_ev; [apply s_fate; exact FT | constructor].
           ++ exists (Some now), (if is_join e then Some now else j). rewrite F0.
              split; [reflexivity|]. split; [simpl; lia|].
              destruct (is_join e); simpl; [tauto|]. destruct j; simpl in *; congruence.
        -- destruct (idle s2 []) as [s3 ev3] eqn:EI. intro H; inversion H; subst.
           intros a [t [j [-> [LT LJ]]]].
           destruct (dequeue_rate c JL _ _ _ _ ED I0) as [DT DJ].
           destruct (dequeue_rot _ _ _ ED) as [F2 [H2 [N2 L2]]].
           assert (LT2 : lastTake s2 = now) by (rewrite DT; destruct s; reflexivity).
           assert (E0 : lastJoin (set_lastTake s now) = lastJoin s) by (destruct s; reflexivity).
           rewrite E0 in DJ.
           assert (Q0 : fast s2 = fast s /\ hi s2 = hi s /\ no s2 = no s) by (destruct s; cbn in *; auto).
           destruct Q0 as [F2' [H2' N2']].
           assert (S2 : SIM s2 (A (fast s2) (hi s2) (no s2) (lo s2) t j None)).
           { exists t, j. split; [reflexivity|]. split; [destruct t; simpl in *; lia | destruct j; simpl in *; congruence]. }
           assert (A2 : acc (A (fast s) (hi s) (no s) (lo s) t j None) [] (A (fast s2) (hi s2) (no s2) (lo s2) t j None)).
           { rewrite F2', H2', N2'. destruct L2 as [L2|[x [l' [L0 [EJ L2]]]]].
             - replace (lo s2) with (lo s) by (destruct s; cbn in *; congruence). constructor.
             - assert (L0' : lo s = x :: l') by (destruct s; exact L0). rewrite L0', L2.
               eapply acc_tau; [apply r_rot; exact EJ | constructor]. }
           eexists. eapply acc_idle; eauto.
    + destruct (afterConnect s && c_ping c && (lastping s + c_interval c <? now)).
      * destruct (outPing s).
        -- destruct (idle s [Reconnect]) as [s2 ev2] eqn:EI. intro H; inversion H; subst. intros a S.
           exists a. eapply acc_idle; eauto. apply accepts_silent. constructor; [exact Logic.I | constructor].
        -- destruct (negb (zombie s)).
           ++ destruct (queueMsg c (set_ping s now true) (internal c_PING now)) as [s2 ev2] eqn:EQM.
              destruct (idle s2 ev2) as [s3 ev3] eqn:EI. intro H; inversion H; subst. intros a S.
              assert (I0 : INV (set_ping s now true)) by (destruct s; unf; exact I).
              assert (S0 : SIM (set_ping s now true) a).
              { eapply SIM_same; [exact S|]. destruct s; unfold same; cbn; auto 10. }
              destruct (W_queueMsg _ _ _ _ EQM I0) as [_ K]. destruct (K a S0) as [a1 [A1 S1]].
              exists a1. eapply acc_idle; eauto.
           ++ destruct (idle s []) as [s2 ev2] eqn:EI. intro H; inversion H; subst. intros a S.
              exists a. eapply acc_idle; eauto. constructor.
      * destruct (idle s []) as [s2 ev2] eqn:EI. intro H; inversion H; subst. intros a S.
        exists a. eapply acc_idle; eauto. constructor.
  - intros H a [t [j [-> [LT LJ]]]]. apply fate_step in H. destruct H as [-> [x [-> FT]]].
    exists (A fr (hi s) (no s) (lo s) t j None). split.
    + rewrite EF. eapply acc_ev; [apply s_tookF|]. eapply acc_ev; [apply s_fate; exact FT | constructor].
    + exists t, j. destruct s; cbn in *. auto.
Qed.

Lemma W_takeMsg s now s' evs : takeMsg c filt s now = (s', evs) -> W s evs s'.
Proof. unfold takeMsg. apply take_compose; [apply W_take_body | apply W_trans]. Qed.

Lemma W_send_all ms : forall s acc0 s' evs,
  fold_left (fun acc m => let '(s1, evs) := sendMsg (fst acc) m in (s1, snd acc ++ evs)) ms (s, acc0) = (s', evs) ->
  exists evs', evs = acc0 ++ evs' /\ W s evs' s'.
Proof.
  induction ms as [|m r IH]; intros s acc0 s' evs; simpl.
  - intro H; inversion H; subst. exists []. rewrite app_nil_r. split; [reflexivity | apply W_refl].
  - destruct (sendMsg s m) as [s1 e1] eqn:ES. intro H. apply IH in H. destruct H as [e2 [HE HP]].
    exists (e1 ++ e2). rewrite HE, app_assoc. split; [reflexivity|].
    eapply W_trans; [eapply W_sendMsg; eauto | exact HP].
Qed.

Lemma W_step s o s' evs : step c filt s o = (s', evs) -> W s evs s'.
Proof.
  intros HS I. pose proof (QS_step c filt _ _ _ _ HS I) as [I' _]. revert HS I.
  unfold step. destruct (dead s).
  { intros H I0; inversion H; subst. apply W_refl; auto. }
  destruct o.
  - apply W_queueMsg.
  - apply W_sendMsg.
  - apply W_takeMsg.
  - unfold die. intros H. apply W_silent; auto.
    + destruct s as [h n l lj f lt lp z ac op dd nx]; cbn in H; destruct ac; inversion H; subst; unfold same; cbn; auto 10.
    + destruct s as [h n l lj f lt lp z ac op dd nx]; cbn in H; destruct ac; inversion H; subst;
        [constructor | constructor; [exact Logic.I | constructor]].
  - unfold reset. intros H I0. split; [exact I'|]. intros a [t [j [-> _]]].
    change (zombie (St [] [] [] 0 [] 0 now (zombie s) false false (dead s) (nxt s))) with (zombie s) in H.
    set (s0 := St [] [] [] 0 [] 0 now (zombie s) false false (dead s) (nxt s)) in *.
    assert (S0 : SIM s0 A0) by (exists None, None; repeat split).
    assert (FL : astep (c_throttle c) (c_join c) (A (fast s) (hi s) (no s) (lo s) t j None) (Flushed (pending s)) A0)
      by apply s_flush.
    destruct (zombie s).
    + inversion H; subst. exists A0. split.
      * eapply acc_ev; [exact FL|]. apply accepts_silent. constructor; [exact Logic.I | constructor].
      * eapply SIM_same; [exact S0|]. unfold same, s0; cbn; auto 10.
    + destruct (send_all s0 (connect_msgs c)) as [s2 ev2] eqn:EF. inversion H; subst.
      unfold send_all in EF. apply W_send_all in EF. destruct EF as [e2 [HE HW]]. simpl in HE. subst ev2.
      assert (I1 : INV s0) by (unfold INV, s0; cbn; repeat split; constructor).
      destruct (HW I1) as [_ K]. destruct (K A0 S0) as [a' [A' S']].
      exists a'. split; [eapply acc_ev; [exact FL | exact A'] | exact S'].
  - intros H. inversion H; subst. apply W_silent; auto; try (destruct s; unfold same; cbn; auto 10); try constructor.
  - intros H. inversion H; subst. apply W_silent; auto; try (destruct s; unfold same; cbn; auto 10); try constructor.
Qed.

Lemma W_run ops s s' evs : run_from c filt s ops = (s', evs) -> W s evs s'.
Proof. apply run_compose; [apply W_refl | apply W_step | apply W_trans]. Qed.

(* ---- refinement ---- *)
Theorem refines ops s' evs :
  run_from c filt st0 ops = (s', evs) ->
  exists t j, accepts (c_throttle c) (c_join c) A0 evs (A (fast s') (hi s') (no s') (lo s') t j None).
Proof.
  intro H. apply W_run in H. destruct (H INV_st0) as [_ K].
  assert (S0 : SIM st0 A0) by (exists None, None; repeat split).
  destruct (K A0 S0) as [a' [A' [t [j [-> _]]]]]. exists t, j. exact A'.
Qed.
End WithCfg.
