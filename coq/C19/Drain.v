(* C19/Drain.v — drain before the driver is killed (on its domain, refuted
   outside), explicit refusal, a dropping filter does not stall the rest. *)
From Coq Require Import List NArith ZArith Bool Lia Permutation.
Import ListNotations.
Require Import Base.Wire Base.PyStr C19.Model C19.Spec C19.Ledger.
Open Scope Z_scope.

Section WithCfg.
Variable c : cfg.
Variable filt : msg -> fres.

Lemma idle_die s evs0 s' evs : idle s evs0 = (s', evs) ->
  pending s' = pending s /\ (In DriverDie evs -> In DriverDie evs0 \/ zombie s = true).
Proof.
  unfold idle. destruct (zombie s) eqn:EZ; intro H; inversion H; subst.
  - destruct s; cbn in *. auto.
  - auto.
Qed.

Lemma dequeue_none now s s' : dequeue c now s = (s', None) ->
  lastJoin s <= now -> c_join c <= 0 -> qpending s = [].
Proof.
  unfold dequeue, qpending. destruct s as [h n l lj f lt lp z ac op dd nx]. cbn.
  destruct h; [|discriminate]. destruct n; [|discriminate]. destruct l as [|e l']; [reflexivity|].
  destruct (is_join e); [|discriminate]. destruct (lj + c_join c <=? now) eqn:E; [discriminate|].
  intros _ A B. apply Z.leb_gt in E. lia.
Qed.

Lemma dequeue_fields now s s' r : dequeue c now s = (s', r) ->
  lastTake s' = lastTake s /\ (lastJoin s' = lastJoin s \/ lastJoin s' = now).
Proof.
  unfold dequeue. destruct s as [h n l lj f lt lp z ac op dd nx]. cbn.
  destruct h; [destruct n; [destruct l as [|e l']; [|destruct (is_join e); [destruct (lj + c_join c <=? now)|]]|]|];
    intro H; inversion H; subst; cbn; auto.
Qed.

Lemma queueMsg_nodie s m s2 ev2 : queueMsg c s m = (s2, ev2) ->
  ~ In DriverDie ev2 /\ zombie s2 = zombie s.
Proof.
  unfold queueMsg, enqueue. destruct (zombie s) eqn:EZ.
  - intro H; inversion H; subst. split; [intros [K|[]]; discriminate | assumption].
  - destruct (q_contains s m && c_dup c).
    + intro H; inversion H; subst. split; [intros [K|[]]; discriminate | assumption].
    + destruct s; cbn in *. destruct (classify (mcmd m)); intro H; inversion H; subst; cbn;
        (split; [intros [K|[]]; discriminate | first [assumption | reflexivity]]).
Qed.

Hypothesis PD : pos_delay filt.
Hypothesis THR : c_throttle c <= 0.
Hypothesis JOIN : c_join c <= 0.

Lemma after_drain (s1 : st) (f : src) (e : entry) (now : Z) e1 (r : option Z) :
  (match filt (snd e) with
   | FPass => (s1, [Took f e now; Delivered e (snd e) now], None)
   | FRewrite out => (s1, [Took f e now; Delivered e out now], None)
   | FDrop dt => (s1, [Took f e now; Dropped e], Some dt)
   end) = (s1, e1, r) ->
  ~ In DriverDie e1 /\ forall dt, r = Some dt -> 0 < dt.
Proof.
  destruct (filt (snd e)) eqn:EFi; intro H; inversion H; subst;
    (split; [intros [K|[K|[]]]; discriminate|]); intros d K; try discriminate.
  inversion K; subst. eapply PD; eauto.
Qed.

Lemma body_drain s now s1 e1 r :
  lastTake s < now -> lastJoin s <= now ->
  take_body c filt s now = (s1, e1, r) ->
  (In DriverDie e1 -> pending s1 = [] /\ r = None)
  /\ (forall dt, r = Some dt -> ~ In DriverDie e1 /\ 0 < dt /\ lastTake s1 <= now /\ lastJoin s1 <= now).
Proof.
  intros LT LJ. unfold take_body.
  destruct (fast s) as [|e fr] eqn:EF.
  - destruct (queue_nonempty s) eqn:EQ.
    + destruct (now - lastTake s <=? c_throttle c) eqn:ET; [apply Z.leb_le in ET; lia|].
      destruct (dequeue c now (set_lastTake s now)) as [s2 [e|]] eqn:ED.
      * intro H.
        assert (s1 = s2) by (destruct (filt (snd e)); inversion H; reflexivity). subst s2.
        destruct (after_drain _ _ _ _ _ _ H) as [ND PDt].
        apply dequeue_fields in ED. destruct ED as [A B].
        split; [intro K; exfalso; auto|]. intros dt K. split; [exact ND|]. split; [eauto|].
        split; [rewrite A; destruct s; cbn; lia | destruct B as [B|B]; rewrite B; destruct s; cbn in *; lia].
      * exfalso. apply dequeue_none in ED; auto.
        unfold queue_nonempty in EQ. destruct s; unfold qpending in *; cbn in *. rewrite ED in EQ. discriminate.
    + assert (PN : pending s = []).
      { unfold pending. rewrite EF. unfold queue_nonempty in EQ. destruct (qpending s); [reflexivity | discriminate]. }
      destruct (afterConnect s && c_ping c && (lastping s + c_interval c <? now));
        [destruct (outPing s); [|destruct (negb (zombie s)) eqn:EZ]|].
      * destruct (idle s [Reconnect]) as [s2 ev2] eqn:EI. intro H; inversion H; subst.
        apply idle_die in EI. destruct EI as [EP _]. split; [intros _; split; [congruence | reflexivity] | discriminate].
      * destruct (queueMsg c (set_ping s now true) (internal c_PING now)) as [s2 ev2] eqn:EQM.
        destruct (idle s2 ev2) as [s3 ev3] eqn:EI. intro H; inversion H; subst.
        apply queueMsg_nodie in EQM. destruct EQM as [ND EZ2].
        apply idle_die in EI. destruct EI as [_ K].
        split; [|discriminate]. intro D. exfalso. destruct (K D) as [K1|K1]; [auto|].
        rewrite EZ2 in K1. destruct s; cbn in *. rewrite K1 in EZ. discriminate.
      * destruct (idle s []) as [s2 ev2] eqn:EI. intro H; inversion H; subst.
        apply idle_die in EI. destruct EI as [EP _]. split; [intros _; split; [congruence | reflexivity] | discriminate].
      * destruct (idle s []) as [s2 ev2] eqn:EI. intro H; inversion H; subst.
        apply idle_die in EI. destruct EI as [EP _]. split; [intros _; split; [congruence | reflexivity] | discriminate].
  - intro H.
    assert (s1 = set_fast s fr) by (destruct (filt (snd e)); inversion H; reflexivity). subst s1.
    destruct (after_drain _ _ _ _ _ _ H) as [ND PDt].
    split; [intro K; exfalso; auto|]. intros dt K. split; [exact ND|]. split; [eauto|].
    destruct s; cbn in *; lia.
Qed.

Lemma take_drain : forall f s now s' evs,
  lastTake s < now -> lastJoin s <= now ->
  take c filt f s now = (s', evs) -> In DriverDie evs -> pending s' = [].
Proof.
  induction f as [|f IH]; intros s now s' evs LT LJ; simpl;
    destruct (take_body c filt s now) as [[s1 e1] r] eqn:EB;
    destruct (body_drain _ _ _ _ _ LT LJ EB) as [B1 B2].
  - destruct r as [dt|]; intros H D; inversion H; subst.
    + exfalso. destruct (B2 dt eq_refl) as [ND _]. auto.
    + apply B1; auto.
  - destruct r as [dt|].
    + destruct (take c filt f s1 (now + dt)) as [s2 e2] eqn:ET. intros H D; inversion H; subst.
      destruct (B2 dt eq_refl) as [ND [Pdt [A B]]].
      apply in_app_or in D. destruct D as [D|D]; [exfalso; auto|].
      eapply IH; [| |exact ET|exact D]; lia.
    + intros H D; inversion H; subst. apply B1; auto.
Qed.

Lemma step_drain s o s' evs :
  dead s = false -> op_ok s o = true -> step c filt s o = (s', evs) ->
  In DriverDie evs -> pending s' = [].
Proof.
  intros DD OK. unfold step. rewrite DD. destruct o; simpl in OK.
  - intros H D. apply queueMsg_nodie in H. destruct H; contradiction.
  - unfold sendMsg. destruct (zombie s); intros H D; inversion H; subst; destruct D as [K|[]]; discriminate.
  - apply andb_prop in OK. destruct OK as [A B]. apply Z.ltb_lt in A. apply Z.leb_le in B.
    unfold takeMsg. apply take_drain; auto.
  - unfold die. destruct s as [h n l lj f lt lp z ac op dd nx]. cbn in *. subst ac.
    intros H D; inversion H; subst. destruct D.
  - unfold reset.
    change (zombie (St [] [] [] 0 [] 0 now (zombie s) false false (dead s) (nxt s))) with (zombie s).
    destruct (zombie s) eqn:EZ.
    + intros H _; inversion H; subst. reflexivity.
    + destruct (send_all _ (connect_msgs c)) as [s2 ev2] eqn:EF. intros H D; inversion H; subst.
      exfalso. destruct D as [D|D]; [discriminate|].
      revert EF D. unfold send_all. generalize (connect_msgs c).
      assert (G : forall ms s0 acc s3 ev3,
        fold_left (fun acc m => let '(s1, evs) := sendMsg (fst acc) m in (s1, snd acc ++ evs)) ms (s0, acc) = (s3, ev3) ->
        ~ In DriverDie acc -> ~ In DriverDie ev3).
      { induction ms as [|m r IH]; intros s0 acc s3 ev3; simpl.
        - intros H0 N; inversion H0; subst; exact N.
        - destruct (sendMsg s0 m) as [s1 e1] eqn:ES. intros H0 N. eapply IH; [exact H0|].
          intro K. apply in_app_or in K. destruct K as [K|K]; [auto|].
          unfold sendMsg in ES. destruct (zombie s0); inversion ES; subst; destruct K as [K|[]]; discriminate. }
      intros ms EF D. eapply G; [exact EF | | exact D]. intros [].
  - intros H D; inversion H; subst. destruct D.
  - intros H D; inversion H; subst. destruct D.
Qed.

Lemma sched_last : forall pre s0 o s ev,
  sched_ok c filt s0 (pre ++ [o]) = true -> run_from c filt s0 pre = (s, ev) ->
  dead s || op_ok s o = true.
Proof.
  induction pre as [|p r IH]; intros s0 o s ev; simpl.
  - intros H E; inversion E; subst. apply andb_prop in H. tauto.
  - destruct (step c filt s0 p) as [s1 e1] eqn:ES. simpl.
    destruct (run_from c filt s1 r) as [s2 e2] eqn:ER. intros H E; inversion E; subst.
    apply andb_prop in H. destruct H as [_ H]. eapply IH; eauto.
Qed.

Theorem drain_on_domain pre o s ev0 s' evs :
  sched_ok c filt st0 (pre ++ [o]) = true ->
  run_from c filt st0 pre = (s, ev0) -> step c filt s o = (s', evs) ->
  In DriverDie evs -> pending s' = [].
Proof.
  intros SO HR HS D. pose proof (sched_last _ _ _ _ _ SO HR) as K.
  destruct (dead s) eqn:DD.
  - unfold step in HS. rewrite DD in HS. inversion HS; subst. destruct D.
  - simpl in K. eapply step_drain; eauto.
Qed.
End WithCfg.

(* the statement with the domain as one boolean *)
Theorem drain_before_die_on_domain c filt pre o s ev0 s' evs :
  pos_delay filt -> drain_dom c filt (pre ++ [o]) = true ->
  run_from c filt st0 pre = (s, ev0) -> step c filt s o = (s', evs) ->
  In DriverDie evs -> pending s' = [].
Proof.
  intros PD DOM. unfold drain_dom in DOM.
  apply andb_prop in DOM. destruct DOM as [DOM SO]. apply andb_prop in DOM. destruct DOM as [T J].
  apply Z.leb_le in T. apply Z.leb_le in J.
  eapply drain_on_domain; eauto.
Qed.

(* ---- refutation: finding F18 ---- *)
Definition pass_all : msg -> fres := fun _ => FPass.
Definition w_cfg : cfg := Cfg 2 0 false true 120 false.
Definition w_msg (i k : Z) : msg := Msg i [80; 82; 73; 86; 77; 83; 71]%N k 0%N 0.
Definition w_pre : list op :=
  [Reset 1; Take 2; Take 2; Take 2; Connect; Queue (w_msg 5 0); Queue (w_msg 6 1); Queue (w_msg 7 2); Die; Take 10].
Definition w_last : op := Take 11.

Lemma pos_delay_pass_all : pos_delay pass_all.
Proof. intros m dt H. discriminate. Qed.

Theorem drain_before_die_refuted :
  exists c pre o s ev0 s' evs,
    pos_delay pass_all /\ drain_dom c pass_all (pre ++ [o]) = false /\
    run_from c pass_all st0 pre = (s, ev0) /\ step c pass_all s o = (s', evs) /\
    In DriverDie evs /\ length (pending s') = 2%nat.
Proof.
  exists w_cfg, w_pre, w_last.
  destruct (run_from w_cfg pass_all st0 w_pre) as [s ev0] eqn:ER.
  destruct (step w_cfg pass_all s w_last) as [s' evs] eqn:ES.
  exists s, ev0, s', evs.
  vm_compute in ER. inversion ER; subst. vm_compute in ES. inversion ES; subst.
  split; [exact pos_delay_pass_all|]. split; [vm_compute; reflexivity|].
  split; [reflexivity|]. split; [reflexivity|]. split; [left; reflexivity | reflexivity].
Qed.

(* non-vacuity of the domain: a history inside it that drains and then kills the driver *)
Definition d_cfg : cfg := Cfg 0 0 false true 120 false.
Definition d_pre : list op :=
  [Reset 1; Take 2; Take 3; Take 4; Connect; Queue (w_msg 5 0); Queue (w_msg 6 1); Die; Take 10; Take 11].
Example drain_domain_inhabited :
  drain_dom d_cfg pass_all (d_pre ++ [Take 12]) = true /\ In DriverDie (snd (step d_cfg pass_all (fst (run_from d_cfg pass_all st0 d_pre)) (Take 12))).
Proof. vm_compute. split; [reflexivity | left; reflexivity]. Qed.

(* ---- refusal ---- *)
Theorem queue_refusal_explicit c s m s' evs :
  queueMsg c s m = (s', evs) ->
  (exists e, evs = [Accepted e] /\ snd e = m /\ Permutation (pending s') (e :: pending s))
  \/ (evs = [Refused true m] /\ s' = s).
Proof.
  unfold queueMsg, enqueue. destruct (zombie s).
  - intro H; inversion H; subst. right. auto.
  - destruct (q_contains s m && c_dup c).
    + intro H; inversion H; subst. right. auto.
    + left. exists (nxt s, m).
      destruct s as [h n l lj f lt lp z ac op dd nx]. unfold pending, qpending. cbn in *.
      destruct (classify (mcmd m)); inversion H; subst; cbn; (split; [reflexivity|]); (split; [reflexivity|]);
        apply cnt_perm; intro y; cnt_norm; lia.
Qed.

Theorem send_refusal_on_domain s m s' evs :
  zombie s = false -> sendMsg s m = (s', evs) ->
  exists e, evs = [Accepted e] /\ snd e = m /\ fast s' = fast s ++ [e].
Proof.
  unfold sendMsg. intros Z. rewrite Z. intro H; inversion H; subst.
  exists (nxt s, m). destruct s; cbn. auto.
Qed.

(* finding F18b: on a zombie the message is discarded and the result (None) is
   the same as on success: the refusal is not explicit *)
Theorem send_refusal_refuted :
  exists s m, zombie s = true /\ sendMsg s m = (s, [Refused false m]).
Proof. exists (set_zombie st0 true), (w_msg 1 0). split; reflexivity. Qed.

(* ---- a filter that drops consumes that message only and takeMsg carries on ---- *)
Theorem filter_no_stall c filt s now s1 evs dt :
  take_body c filt s now = (s1, evs, Some dt) ->
  (exists f e, evs = [Took f e now; Dropped e] /\ filt (snd e) = FDrop dt
               /\ Permutation (pending s) (e :: pending s1)) /\
  takeMsg c filt s now =
    (let '(s2, evs2) := takeMsg c filt s1 (now + dt) in (s2, evs ++ evs2)).
Proof.
  intro HB.
  assert (A : exists f e, evs = [Took f e now; Dropped e] /\ filt (snd e) = FDrop dt
               /\ Permutation (pending s) (e :: pending s1)).
  { pose proof (P_take_body c filt _ _ _ _ _ HB) as [L _].
    revert HB. unfold take_body.
    assert (G : forall (s2 : st) f e e1 (r : option Z),
      (match filt (snd e) with
       | FPass => (s2, [Took f e now; Delivered e (snd e) now], None)
       | FRewrite out => (s2, [Took f e now; Delivered e out now], None)
       | FDrop d => (s2, [Took f e now; Dropped e], Some d)
       end) = (s1, e1, Some dt) -> e1 = [Took f e now; Dropped e] /\ filt (snd e) = FDrop dt).
    { intros s2 f e e1 r. destruct (filt (snd e)); intro H; inversion H; subst; auto. }
    assert (K : forall f e, evs = [Took f e now; Dropped e] -> Permutation (pending s) (e :: pending s1)).
    { intros f e ->. apply cnt_perm. intro y. specialize (L y). unfold accepted, loss in L. cbn in L.
      cnt_norm. lia. }
    destruct (fast s) as [|e fr].
    - destruct (queue_nonempty s).
      + destruct (now - lastTake s <=? c_throttle c).
        * destruct (idle s []); intro H; inversion H.
        * destruct (dequeue c now (set_lastTake s now)) as [s2 [e|]].
          -- intro H. apply (G _ _ _ _ (Some dt)) in H. destruct H as [-> F]. do 2 eexists. split; [reflexivity|]. split; [exact F|]. eapply K; reflexivity.
          -- destruct (idle s2 []); intro H; inversion H.
      + destruct (afterConnect s && c_ping c && (lastping s + c_interval c <? now)).
        * destruct (outPing s); [destruct (idle s [Reconnect]); intro H; inversion H|].
          destruct (negb (zombie s)).
          -- destruct (queueMsg c (set_ping s now true) (internal c_PING now)) as [s2 ev2].
             destruct (idle s2 ev2); intro H; inversion H.
          -- destruct (idle s []); intro H; inversion H.
        * destruct (idle s []); intro H; inversion H.
    - intro H. apply (G _ _ _ _ (Some dt)) in H. destruct H as [-> F]. do 2 eexists. split; [reflexivity|]. split; [exact F|]. eapply K; reflexivity. }
  split; [exact A|].
  destruct A as [f [e [_ [_ PM]]]]. apply Permutation_length in PM. simpl in PM.
  unfold takeMsg. rewrite PM. simpl. rewrite HB. reflexivity.
Qed.

(* ---- a held-back JOIN is not starved (step-level part of eventual delivery) ---- *)
(* a failed dequeue attempt (rate-limited JOIN) keeps every entry queued and does
   not move the JOIN deadline lastJoin + rateLimit.join *)
Theorem join_deadline_fixed c now s s' :
  dequeue c now s = (s', None) ->
  lastJoin s' = lastJoin s /\ Permutation (qpending s') (qpending s).
Proof.
  unfold dequeue, qpending. destruct s as [h n l lj f lt lp z ac op dd nx]. cbn.
  destruct h; [|discriminate]. destruct n; [|discriminate].
  destruct l as [|e l']; [intro H; inversion H; subst; cbn; auto|].
  destruct (is_join e); [|discriminate]. destruct (lj + c_join c <=? now); [discriminate|].
  intro H; inversion H; subst; cbn. split; [reflexivity|].
  apply Permutation_sym. apply Permutation_cons_append.
Qed.

(* once the clock has reached the deadline, an un-throttled poll that finds the
   JOIN at the head of the queue releases it *)
Theorem join_released_at_deadline c filt s now e r :
  fast s = [] -> hi s = [] -> no s = [] -> lo s = e :: r -> is_join e = true ->
  c_throttle c < now - lastTake s -> lastJoin s + c_join c <= now ->
  exists s1 evs k, take_body c filt s now = (s1, evs, k) /\ In (Took FromQueue e now) evs
                   /\ lo s1 = r /\ lastJoin s1 = now.
Proof.
  intros F H N L J T D. unfold take_body. rewrite F.
  assert (QN : queue_nonempty s = true) by (unfold queue_nonempty, qpending; rewrite H, N, L; reflexivity).
  rewrite QN.
  assert (TT : (now - lastTake s <=? c_throttle c) = false) by (apply Z.leb_gt; lia). rewrite TT.
  assert (DQ : dequeue c now (set_lastTake s now) = (set_lastJoin (set_lo (set_lastTake s now) r) now, Some e)).
  { unfold dequeue. destruct s as [h n l lj f lt lp z ac op dd nx]. cbn in *. subst. rewrite J.
    assert (X : (lj + c_join c <=? now) = true) by (apply Z.leb_le; lia). rewrite X. reflexivity. }
  rewrite DQ.
  destruct (filt (snd e)); do 3 eexists; (split; [reflexivity|]); (split; [left; reflexivity|]);
    destruct s; cbn; auto.
Qed.
