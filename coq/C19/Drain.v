(* C19/Drain.v — drain before the driver is killed (on its domain, refuted
   outside), explicit refusal, a dropping filter does not stall the rest. *)
From Coq Require Import List NArith ZArith Bool Lia Permutation.
Import ListNotations.
Require Import Base.Wire Base.PyStr C19.Model C19.Spec C19.Ledger.
Open Scope Z_scope.

Section WithCfg.
Variable c : cfg.
Variable filt : msg -> fres.

(* the zombie branch of takeMsg is only taken with both queues empty *)
Lemma idle_die s evs0 s' evs : idle s evs0 = (s', evs) ->
  pending s' = pending s /\ (In DriverDie evs -> In DriverDie evs0 \/ pending s = []).
Proof.
  unfold idle. destruct (zombie s && negb (fast_nonempty s) && negb (queue_nonempty s)) eqn:EZ;
    intro H; inversion H; subst.
  - split; [destruct s; reflexivity|]. intros _. right.
    apply andb_prop in EZ. destruct EZ as [EZ Q]. apply andb_prop in EZ. destruct EZ as [_ F].
    unfold pending, fast_nonempty, queue_nonempty in *.
    destruct (fast s); [|discriminate]. destruct (qpending s); [reflexivity | discriminate].
  - auto.
Qed.

Lemma queueMsg_nodie s m s2 ev2 : queueMsg c s m = (s2, ev2) -> ~ In DriverDie ev2.
Proof.
  unfold queueMsg, enqueue. destruct (zombie s).
  - intro H; inversion H; subst. intros [K|[]]; discriminate.
  - destruct (q_contains s m && c_dup c).
    + intro H; inversion H; subst. intros [K|[]]; discriminate.
    + destruct (classify (mcmd m)); intro H; inversion H; subst; intros [K|[]]; discriminate.
Qed.

Lemma after_nodie (s1 : st) (f : src) (e : entry) (now : Z) s2 e1 (r : option Z) :
  finish filt s1 f e now = (s2, e1, r) -> s2 = s1 /\ ~ In DriverDie e1.
Proof.
  intro H. apply finish_cases in H. destruct H as [-> [x [-> K0]]]. split; [reflexivity|].
  intros [K|[K|[]]]; [discriminate|].
  destruct K0 as [[? [-> _]]|[[? [-> _]]|[? [-> _]]]]; discriminate.
Qed.

(* one activation of takeMsg: the driver is killed only with nothing pending,
   and then the call does not recurse *)
Lemma body_drain s now s1 e1 r :
  take_body c filt s now = (s1, e1, r) ->
  In DriverDie e1 -> pending s1 = [] /\ r = None.
Proof.
  unfold take_body.
  destruct (fast s) as [|e fr] eqn:EF.
  - destruct (queue_nonempty s) eqn:EQ.
    + destruct (now - lastTake s <=? c_throttle c).
      * destruct (idle s []) as [s2 ev2] eqn:EI. intro H; inversion H; subst. intro D.
        apply idle_die in EI. destruct EI as [EP K]. destruct (K D) as [[]|K1]. split; [congruence | reflexivity].
      * destruct (dequeue c now (set_lastTake s now)) as [s2 [e|]] eqn:ED.
        -- intros H D. exfalso. apply after_nodie in H. destruct H as [_ H]. auto.
        -- destruct (idle s2 []) as [s3 ev3] eqn:EI. intro H; inversion H; subst. intro D.
           apply idle_die in EI. destruct EI as [EP K]. destruct (K D) as [[]|K1]. split; [congruence | reflexivity].
    + assert (PN : pending s = []).
      { unfold pending. rewrite EF. unfold queue_nonempty in EQ. destruct (qpending s); [reflexivity | discriminate]. }
      destruct (afterConnect s && c_ping c && (lastping s + c_interval c <? now));
        [destruct (outPing s); [|destruct (negb (zombie s)) eqn:EZ]|].
      * destruct (idle s [Reconnect]) as [s2 ev2] eqn:EI. intro H; inversion H; subst. intros _.
        apply idle_die in EI. destruct EI as [EP _]. split; [congruence | reflexivity].
      * destruct (queueMsg c (set_ping s now true) (internal c_PING now)) as [s2 ev2] eqn:EQM.
        destruct (idle s2 ev2) as [s3 ev3] eqn:EI. intro H; inversion H; subst. intro D.
        apply queueMsg_nodie in EQM. apply idle_die in EI. destruct EI as [EP K].
        destruct (K D) as [K1|K1]; [contradiction | split; [congruence | reflexivity]].
      * destruct (idle s []) as [s2 ev2] eqn:EI. intro H; inversion H; subst. intros _.
        apply idle_die in EI. destruct EI as [EP _]. split; [congruence | reflexivity].
      * destruct (idle s []) as [s2 ev2] eqn:EI. intro H; inversion H; subst. intros _.
        apply idle_die in EI. destruct EI as [EP _]. split; [congruence | reflexivity].
  - intros H D. exfalso. apply after_nodie in H. destruct H as [_ H]. auto.
Qed.

Lemma take_drain : forall f s now s' evs,
  take c filt f s now = (s', evs) -> In DriverDie evs -> pending s' = [].
Proof.
  induction f as [|f IH]; intros s now s' evs; simpl;
    destruct (take_body c filt s now) as [[s1 e1] r] eqn:EB;
    pose proof (body_drain _ _ _ _ _ EB) as B1.
  - destruct r as [dt|]; intros H D; inversion H; subst; destruct (B1 D) as [P1 R1]; [discriminate | exact P1].
  - destruct r as [dt|].
    + destruct (take c filt f s1 (now + dt)) as [s2 e2] eqn:ET. intros H D; inversion H; subst.
      apply in_app_or in D. destruct D as [D|D]; [destruct (B1 D); discriminate|].
      eapply IH; eauto.
    + intros H D; inversion H; subst. apply B1; auto.
Qed.

(* the driver is killed only with both queues empty -- except by die() itself
   before the end of MOTD, which closes at once by design *)
Theorem drain_before_die s o s' evs :
  step c filt s o = (s', evs) -> In DriverDie evs ->
  pending s' = [] \/ (o = Die /\ afterConnect s = false).
Proof.
  unfold step. destruct (dead s).
  { intros H D; inversion H; subst. destruct D. }
  destruct o.
  - intros H D. apply queueMsg_nodie in H. contradiction.
  - unfold sendMsg. destruct (zombie s); intros H D; inversion H; subst; destruct D as [K|[]]; discriminate.
  - unfold takeMsg. intros H D. left. eapply take_drain; eauto.
  - unfold die. destruct s as [h n l lj f lt lp z ac op dd nx]. cbn. destruct ac.
    + intros H D; inversion H; subst. destruct D.
    + intros _ _. right. auto.
  - unfold reset. intros H D. left. revert H D.
    change (zombie (St [] [] [] 0 [] 0 now (zombie s) false false (dead s) (nxt s))) with (zombie s).
    destruct (zombie s) eqn:EZ.
    + intros H _; inversion H; subst. reflexivity.
    + destruct (send_all _ (connect_msgs c)) as [s2 ev2] eqn:EF. intros H D; inversion H; subst.
      exfalso. destruct D as [D|D]; [discriminate|].
      revert EF D. unfold send_all. generalize (connect_msgs c).
      assert (G : forall ms s0 acc s3 ev3,
        fold_left (fun acc m => let '(s1, evs) := sendMsg (fst acc) m in (s1, snd acc ++ evs)) ms (s0, acc) = (s3, ev3) ->
        ~ In DriverDie acc -> ~ In DriverDie ev3).
      { induction ms as [|m r IH]; intros s0 acc s3 ev3; simpl.
        - intros H0 N; inversion H0; subst; exact N.
        - destruct (sendMsg s0 m) as [s1 e1] eqn:ES. intros H0 N. eapply IH; [exact H0|].
          intro K. apply in_app_or in K. destruct K as [K|K]; [auto|].
          unfold sendMsg in ES. destruct (zombie s0); inversion ES; subst; destruct K as [K|[]]; discriminate. }
      intros ms EF D. eapply G; [exact EF | | exact D]. intros [].
  - intros H D; inversion H; subst. destruct D.
  - intros H D; inversion H; subst. destruct D.
Qed.
End WithCfg.

(* the old witness of finding C19.F18 (throttleTime 2, three messages, die(),
   two polls one second apart): the second poll is throttled and now returns
   nothing; the driver is killed by the poll that finds the queues empty *)
Definition pass_all : msg -> fres := fun _ => FPass.
Definition w_cfg : cfg := Cfg 2 0 false true 120 false.
Definition w_msg (i k : Z) : msg := Msg i [80; 82; 73; 86; 77; 83; 71]%N k 0%N 0 true.
Definition w_pre : list op :=
  [Reset 1; Take 2; Take 2; Take 2; Connect; Queue (w_msg 5 0); Queue (w_msg 6 1); Queue (w_msg 7 2); Die; Take 10].

Example old_witness_drains :
  let s := fst (run_from w_cfg pass_all st0 w_pre) in
  ~ In DriverDie (snd (step w_cfg pass_all s (Take 11))) /\
  length (pending (fst (step w_cfg pass_all s (Take 11)))) = 2%nat /\
  let '(s', evs) := run_from w_cfg pass_all s [Take 11; Take 13; Take 16; Take 17] in
  In DriverDie evs /\ pending s' = [] /\ length (delivered evs) = 2%nat.
Proof.
  vm_compute. intuition (try reflexivity; try discriminate).
Qed.

(* ---- refusal ---- *)
Theorem queue_refusal_explicit c s m s' evs :
  queueMsg c s m = (s', evs) ->
  (exists e, evs = [Accepted FromQueue e] /\ snd e = m /\ Permutation (pending s') (e :: pending s))
  \/ (evs = [Refused true m] /\ s' = s).
Proof.
  unfold queueMsg, enqueue. destruct (zombie s).
  - intro H; inversion H; subst. right. auto.
  - destruct (q_contains s m && c_dup c).
    + intro H; inversion H; subst. right. auto.
    + left. exists (nxt s, m).
      destruct s as [h n l lj f lt lp z ac op dd nx]. unfold pending, qpending. cbn in *.
      destruct (classify (mcmd m)); inversion H; subst; cbn; (split; [reflexivity|]); (split; [reflexivity|]);
        apply cnt_perm; intro y; cnt_norm; lia.
Qed.

Theorem send_refusal_on_domain s m s' evs :
  zombie s = false -> sendMsg s m = (s', evs) ->
  exists e, evs = [Accepted FromFast e] /\ snd e = m /\ fast s' = fast s ++ [e].
Proof.
  unfold sendMsg. intros Z. rewrite Z. intro H; inversion H; subst.
  exists (nxt s, m). destruct s; cbn. auto.
Qed.

(* finding F18b: on a zombie the message is discarded and the result (None) is
   the same as on success: the refusal is not explicit *)
Theorem send_refusal_refuted :
  exists s m, zombie s = true /\ sendMsg s m = (s, [Refused false m]).
Proof. exists (set_zombie st0 true), (w_msg 1 0). split; reflexivity. Qed.

(* ---- a filter that drops consumes that message only and takeMsg carries on ---- *)
Theorem filter_no_stall c filt s now s1 evs dt :
  take_body c filt s now = (s1, evs, Some dt) ->
  (exists f e, evs = [Took f e now; Dropped e] /\ filt (snd e) = FDrop dt
               /\ Permutation (pending s) (e :: pending s1)) /\
  takeMsg c filt s now =
    (let '(s2, evs2) := takeMsg c filt s1 (now + dt) in (s2, evs ++ evs2)).
Proof.
  intro HB.
  assert (A : exists f e, evs = [Took f e now; Dropped e] /\ filt (snd e) = FDrop dt
               /\ Permutation (pending s) (e :: pending s1)).
  { pose proof (P_take_body c filt _ _ _ _ _ HB) as [L _].
    revert HB. unfold take_body.
    assert (G : forall (s2 : st) f e e1,
      finish filt s2 f e now = (s1, e1, Some dt) -> e1 = [Took f e now; Dropped e] /\ filt (snd e) = FDrop dt).
    { intros s2 f e e1 H. apply finish_cases in H. destruct H as [_ [x [-> K0]]].
      destruct K0 as [[? [_ [K1 _]]]|[[? [_ [K1 _]]]|[d [-> [K1 K2]]]]]; try discriminate.
      inversion K1; subst. auto. }
    assert (K : forall f e, evs = [Took f e now; Dropped e] -> Permutation (pending s) (e :: pending s1)).
    { intros f e ->. apply cnt_perm. intro y. specialize (L y). unfold accepted, loss in L. cbn in L.
      cnt_norm. lia. }
    destruct (fast s) as [|e fr].
    - destruct (queue_nonempty s).
      + destruct (now - lastTake s <=? c_throttle c).
        * destruct (idle s []); intro H; inversion H.
        * destruct (dequeue c now (set_lastTake s now)) as [s2 [e|]].
          -- intro H. apply G in H. destruct H as [-> F]. do 2 eexists. split; [reflexivity|]. split; [exact F|]. eapply K; reflexivity.
          -- destruct (idle s2 []); intro H; inversion H.
      + destruct (afterConnect s && c_ping c && (lastping s + c_interval c <? now)).
        * destruct (outPing s); [destruct (idle s [Reconnect]); intro H; inversion H|].
          destruct (negb (zombie s)).
          -- destruct (queueMsg c (set_ping s now true) (internal c_PING now)) as [s2 ev2].
             destruct (idle s2 ev2); intro H; inversion H.
          -- destruct (idle s []); intro H; inversion H.
        * destruct (idle s []); intro H; inversion H.
    - intro H. apply G in H. destruct H as [-> F]. do 2 eexists. split; [reflexivity|]. split; [exact F|]. eapply K; reflexivity. }
  split; [exact A|].
  destruct A as [f [e [_ [_ PM]]]]. apply Permutation_length in PM. simpl in PM.
  unfold takeMsg. rewrite PM. simpl. rewrite HB. reflexivity.
Qed.

(* ---- a held-back JOIN is not starved (step-level part of eventual delivery) ---- *)
(* a failed dequeue attempt (rate-limited JOIN) keeps every entry queued and does
   not move the JOIN deadline lastJoin + rateLimit.join *)
Theorem join_deadline_fixed c now s s' :
  dequeue c now s = (s', None) ->
  lastJoin s' = lastJoin s /\ Permutation (qpending s') (qpending s).
Proof.
  unfold dequeue, qpending. destruct s as [h n l lj f lt lp z ac op dd nx]. cbn.
  destruct h; [|discriminate]. destruct n; [|discriminate].
  destruct l as [|e l']; [intro H; inversion H; subst; cbn; auto|].
  destruct (is_join e); [|discriminate]. destruct (lj + c_join c <=? now); [discriminate|].
  intro H; inversion H; subst; cbn. split; [reflexivity|].
  apply Permutation_sym. apply Permutation_cons_append.
Qed.

(* once the clock has reached the deadline, an un-throttled poll that finds the
   JOIN at the head of the queue releases it *)
Theorem join_released_at_deadline c filt s now e r :
  fast s = [] -> hi s = [] -> no s = [] -> lo s = e :: r -> is_join e = true ->
  c_throttle c < now - lastTake s -> lastJoin s + c_join c <= now ->
  exists s1 evs k, take_body c filt s now = (s1, evs, k) /\ In (Took FromQueue e now) evs
                   /\ lo s1 = r /\ lastJoin s1 = now.
Proof.
  intros F H N L J T D. unfold take_body. rewrite F.
  assert (QN : queue_nonempty s = true) by (unfold queue_nonempty, qpending; rewrite H, N, L; reflexivity).
  rewrite QN.
  assert (TT : (now - lastTake s <=? c_throttle c) = false) by (apply Z.leb_gt; lia). rewrite TT.
  assert (DQ : dequeue c now (set_lastTake s now) = (set_lastJoin (set_lo (set_lastTake s now) r) now, Some e)).
  { unfold dequeue. destruct s as [h n l lj f lt lp z ac op dd nx]. cbn in *. subst. rewrite J.
    assert (X : (lj + c_join c <=? now) = true) by (apply Z.leb_le; lia). rewrite X. reflexivity. }
  rewrite DQ.
  unfold finish. destruct (filt (snd e)); do 3 eexists; (split; [reflexivity|]); (split; [left; reflexivity|]);
    destruct s; cbn; auto.
Qed.

(* a refusal by queueMsg has a reason: the Irc is dying, or queuing.duplicates is
   on and an equal message is waiting in the queue *)
Theorem refusal_has_reason c s m s' evs e :
  queueMsg c s m = (s', evs) -> In (Refused e m) evs ->
  zombie s = true \/ (c_dup c = true /\ q_contains s m = true).
Proof.
  unfold queueMsg, enqueue. destruct (zombie s); [auto|].
  destruct (q_contains s m) eqn:EQ; destruct (c_dup c) eqn:ED; simpl; auto;
    destruct (classify (mcmd m)); intro H; inversion H; subst; intros [K|[]]; discriminate.
Qed.

(* ---- the keep-alive branch is only reached with both queues empty: takeMsg asks
   the driver to reconnect (which resets the Irc) only when nothing is pending ---- *)
Section Reconnect.
Variable c : cfg.
Variable filt : msg -> fres.

Lemma idle_reconnect s evs0 s' evs : idle s evs0 = (s', evs) ->
  pending s' = pending s /\ (In Reconnect evs -> In Reconnect evs0).
Proof.
  unfold idle. destruct (zombie s && negb (fast_nonempty s) && negb (queue_nonempty s));
    intro H; inversion H; subst; (split; [first [reflexivity | destruct s; reflexivity]|]); auto.
  intro K. apply in_app_or in K. destruct K as [K|[K|[]]]; [exact K | discriminate].
Qed.

Lemma body_reconnect s now s1 e1 r :
  take_body c filt s now = (s1, e1, r) -> In Reconnect e1 -> pending s1 = [] /\ r = None.
Proof.
  unfold take_body.
  assert (FIN : forall s0 f e s2 evs0 r0, finish filt s0 f e now = (s2, evs0, r0) -> ~ In Reconnect evs0).
  { intros s0 f e s2 evs0 r0 H. apply finish_cases in H. destruct H as [_ [x [-> K0]]].
    intros [K|[K|[]]]; [discriminate|].
    destruct K0 as [[? [-> _]]|[[? [-> _]]|[? [-> _]]]]; discriminate. }
  destruct (fast s) as [|e fr] eqn:EF; [|intros H D; exfalso; eapply FIN; eauto].
  destruct (queue_nonempty s) eqn:EQ.
  - destruct (now - lastTake s <=? c_throttle c).
    + destruct (idle s []) as [s2 ev2] eqn:EI. intro H; inversion H; subst. intro D.
      apply idle_reconnect in EI. destruct EI as [_ K]. destruct (K D).
    + destruct (dequeue c now (set_lastTake s now)) as [s2 [e|]] eqn:ED; [intros H D; exfalso; eapply FIN; eauto|].
      destruct (idle s2 []) as [s3 ev3] eqn:EI. intro H; inversion H; subst. intro D.
      apply idle_reconnect in EI. destruct EI as [_ K]. destruct (K D).
  - assert (PN : pending s = []).
    { unfold pending. rewrite EF. unfold queue_nonempty in EQ. destruct (qpending s); [reflexivity | discriminate]. }
    destruct (afterConnect s && c_ping c && (lastping s + c_interval c <? now));
      [destruct (outPing s); [|destruct (negb (zombie s))]|].
    + destruct (idle s [Reconnect]) as [s2 ev2] eqn:EI. intro H; inversion H; subst. intros _.
      apply idle_reconnect in EI. destruct EI as [EP _]. split; [congruence | reflexivity].
    + destruct (queueMsg c (set_ping s now true) (internal c_PING now)) as [s2 ev2] eqn:EQM.
      destruct (idle s2 ev2) as [s3 ev3] eqn:EI. intro H; inversion H; subst. intro D. exfalso.
      apply idle_reconnect in EI. destruct EI as [_ K]. apply K in D.
      revert EQM D. unfold queueMsg, enqueue. destruct (zombie (set_ping s now true)).
      * intro H0; inversion H0; subst. intros [K0|[]]; discriminate.
      * destruct (q_contains _ _ && c_dup c); [intro H0; inversion H0; subst; intros [K0|[]]; discriminate|].
        destruct (classify _); intro H0; inversion H0; subst; intros [K0|[]]; discriminate.
    + destruct (idle s []) as [s2 ev2] eqn:EI. intro H; inversion H; subst. intro D.
      apply idle_reconnect in EI. destruct EI as [_ K]. destruct (K D).
    + destruct (idle s []) as [s2 ev2] eqn:EI. intro H; inversion H; subst. intro D.
      apply idle_reconnect in EI. destruct EI as [_ K]. destruct (K D).
Qed.

Lemma take_reconnect : forall f s now s' evs,
  take c filt f s now = (s', evs) -> In Reconnect evs -> pending s' = [].
Proof.
  induction f as [|f IH]; intros s now s' evs; simpl;
    destruct (take_body c filt s now) as [[s1 e1] r] eqn:EB;
    pose proof (body_reconnect _ _ _ _ _ EB) as B1.
  - destruct r as [dt|]; intros H D; inversion H; subst; destruct (B1 D) as [P1 R1]; [discriminate | exact P1].
  - destruct r as [dt|].
    + destruct (take c filt f s1 (now + dt)) as [s2 e2] eqn:ET. intros H D; inversion H; subst.
      apply in_app_or in D. destruct D as [D|D]; [destruct (B1 D); discriminate|].
      eapply IH; eauto.
    + intros H D; inversion H; subst. apply B1; auto.
Qed.

Theorem reconnect_only_idle s o s' evs :
  step c filt s o = (s', evs) -> In Reconnect evs ->
  (exists now, o = Take now) /\ pending s' = [].
Proof.
  unfold step. destruct (dead s).
  { intros H D; inversion H; subst. destruct D. }
  destruct o.
  - unfold queueMsg, enqueue. destruct (zombie s); [intros H D; inversion H; subst; destruct D as [K|[]]; discriminate|].
    destruct (q_contains s m && c_dup c); [intros H D; inversion H; subst; destruct D as [K|[]]; discriminate|].
    destruct (classify (mcmd m)); intros H D; inversion H; subst; destruct D as [K|[]]; discriminate.
  - unfold sendMsg. destruct (zombie s); intros H D; inversion H; subst; destruct D as [K|[]]; discriminate.
  - unfold takeMsg. intros H D. split; [eauto|]. eapply take_reconnect; eauto.
  - unfold die. destruct (afterConnect (set_zombie s true)); intros H D; inversion H; subst;
      [destruct D | destruct D as [K|[]]; discriminate].
  - unfold reset. intros H D. exfalso. revert H D.
    change (zombie (St [] [] [] 0 [] 0 now (zombie s) false false (dead s) (nxt s))) with (zombie s).
    destruct (zombie s).
    + intros H D; inversion H; subst. destruct D as [K|[K|[]]]; discriminate.
    + destruct (send_all _ (connect_msgs c)) as [s2 ev2] eqn:EF. intros H D; inversion H; subst.
      destruct D as [D|D]; [discriminate|].
      revert EF D. unfold send_all. generalize (connect_msgs c).
      assert (G : forall ms s0 acc s3 ev3,
        fold_left (fun acc m => let '(s1, evs) := sendMsg (fst acc) m in (s1, snd acc ++ evs)) ms (s0, acc) = (s3, ev3) ->
        ~ In Reconnect acc -> ~ In Reconnect ev3).
      { induction ms as [|m r IH]; intros s0 acc s3 ev3; simpl.
        - intros H0 N; inversion H0; subst; exact N.
        - destruct (sendMsg s0 m) as [s1 e1] eqn:ES. intros H0 N. eapply IH; [exact H0|].
          intro K. apply in_app_or in K. destruct K as [K|K]; [auto|].
          unfold sendMsg in ES. destruct (zombie s0); inversion ES; subst; destruct K as [K|[]]; discriminate. }
      intros ms EF D. eapply G; [exact EF | | exact D]. intros [].
  - intros H D; inversion H; subst. destruct D.
  - intros H D; inversion H; subst. destruct D.
Qed.
End Reconnect.
