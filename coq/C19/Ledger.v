(* C19/Ledger.v — no loss, no duplication: the multiset ledger and the ghost stamps. *)
From Coq Require Import List NArith ZArith Bool Lia Permutation.
Import ListNotations.
Require Import Base.Wire Base.PyStr C19.Model C19.Spec.
Open Scope Z_scope.

Lemma msg_eq_dec : forall a b : msg, {a = b} + {a <> b}.
Proof.
  decide equality; auto using Z.eq_dec, N.eq_dec, (list_eq_dec N.eq_dec), Bool.bool_dec.
Qed.
Lemma entry_eq_dec : forall a b : entry, {a = b} + {a <> b}.
Proof. decide equality; auto using msg_eq_dec, Nat.eq_dec. Qed.

Definition cnt (y : entry) (l : list entry) : nat := count_occ entry_eq_dec l y.
Definition one (y x : entry) : nat := if entry_eq_dec x y then 1%nat else 0%nat.

Lemma cnt_app y a b : cnt y (a ++ b) = (cnt y a + cnt y b)%nat.
Proof. apply count_occ_app. Qed.
Lemma cnt_cons y x l : cnt y (x :: l) = (one y x + cnt y l)%nat.
Proof. unfold cnt, one. simpl. destruct (entry_eq_dec x y); reflexivity. Qed.
Lemma cnt_nil y : cnt y [] = 0%nat.
Proof. reflexivity. Qed.
Global Opaque cnt one.

Lemma cnt_perm a b : (forall y, cnt y a = cnt y b) -> Permutation a b.
Proof. intro H. apply (Permutation_count_occ entry_eq_dec). exact H. Qed.

Ltac cnt_norm := repeat (rewrite ?cnt_app, ?cnt_cons, ?cnt_nil in * ).

(* loss: everything a trace removed from the pending set *)
Definition loss1 (ev : event) : list entry :=
  match ev with Delivered e _ _ => [e] | Dropped e => [e] | Unsendable e _ => [e] | Flushed l => l | _ => [] end.
Definition loss (evs : list event) := flat_map loss1 evs.

Lemma loss_split y evs :
  cnt y (loss evs) = (cnt y (delivered evs) + cnt y (dropped evs) + cnt y (unsendable evs) + cnt y (flushed evs))%nat.
Proof.
  induction evs as [|ev r IH]; [reflexivity|].
  unfold loss, delivered, dropped, unsendable, flushed in *. simpl. cnt_norm. rewrite IH.
  destruct ev; simpl; cnt_norm; lia.
Qed.

(* the ledger relation between a state, a trace and the state it leads to *)
Definition led (s : st) (evs : list event) (s' : st) : Prop :=
  forall y, (cnt y (pending s) + cnt y (accepted evs) = cnt y (loss evs) + cnt y (pending s'))%nat.
(* stamps handed out are consecutive *)
Definition stamped (s : st) (evs : list event) (s' : st) : Prop :=
  map fst (accepted evs) = seq (nxt s) (length (accepted evs))
  /\ nxt s' = (nxt s + length (accepted evs))%nat.

Definition P (s : st) (evs : list event) (s' : st) : Prop := led s evs s' /\ stamped s evs s'.

Lemma P_refl s : P s [] s.
Proof. split; [intro y; unfold accepted, loss; simpl; cnt_norm; lia | split; simpl; [reflexivity | lia]]. Qed.

Lemma P_trans s e1 s1 e2 s2 : P s e1 s1 -> P s1 e2 s2 -> P s (e1 ++ e2) s2.
Proof.
  intros [L1 [A1 N1]] [L2 [A2 N2]]. split.
  - intro y. specialize (L1 y). specialize (L2 y).
    unfold accepted, loss in *. rewrite !flat_map_app. cnt_norm. lia.
  - unfold stamped, accepted in *. rewrite flat_map_app, map_app, app_length.
    split; [| lia]. rewrite seq_app, <- A1, <- N1, <- A2. reflexivity.
Qed.

Section WithCfg.
Variable c : cfg.
Variable filt : msg -> fres.

Ltac crush_led :=
  intro y; unfold pending, qpending, accepted, loss; cbn; cnt_norm; lia.
Ltac crush_st := unfold stamped, accepted; cbn; split; [reflexivity | lia].

Lemma P_enqueue s m s' evs : enqueue c s m = (s', evs) -> P s evs s'.
Proof.
  unfold enqueue. destruct s as [h n l lj f lt lp z ac op dd nx]. cbn.
  destruct (q_contains _ _ && c_dup c).
  - intro H; inversion H; subst. apply P_refl || (split; [crush_led | crush_st]).
  - destruct (classify (mcmd m)); intro H; inversion H; subst; (split; [crush_led | crush_st]).
Qed.

Lemma P_queueMsg s m s' evs : queueMsg c s m = (s', evs) -> P s evs s'.
Proof.
  unfold queueMsg. destruct (zombie s).
  - intro H; inversion H; subst. split; [crush_led | crush_st].
  - apply P_enqueue.
Qed.

Lemma P_sendMsg s m s' evs : sendMsg s m = (s', evs) -> P s evs s'.
Proof.
  unfold sendMsg. destruct s as [h n l lj f lt lp z ac op dd nx]. cbn.
  destruct z; intro H; inversion H; subst; (split; [crush_led | crush_st]).
Qed.

Lemma P_idle s evs0 s' evs : idle s evs0 = (s', evs) ->
  accepted evs0 = [] -> loss evs0 = [] -> P s evs s'.
Proof.
  unfold idle. intros H A Lo.
  assert (A' : accepted (evs0 ++ [DriverDie]) = []) by (unfold accepted in *; rewrite flat_map_app, A; reflexivity).
  assert (L' : loss (evs0 ++ [DriverDie]) = []) by (unfold loss in *; rewrite flat_map_app, Lo; reflexivity).
  destruct (zombie s && negb (fast_nonempty s) && negb (queue_nonempty s)); inversion H; subst; clear H.
  - split; [intro y | unfold stamped]; rewrite ?A', ?L'; destruct s; cbn; [lia | split; [reflexivity|lia]].
  - split; [intro y | unfold stamped]; rewrite ?A, ?Lo; cbn; [lia | split; [reflexivity|lia]].
Qed.

(* dequeue moves at most one entry out of the pending set *)
Lemma dequeue_cnt now s s' r : dequeue c now s = (s', r) ->
  nxt s' = nxt s /\ fast s' = fast s /\
  forall y, cnt y (qpending s) = (cnt y (match r with Some e => [e] | None => [] end) + cnt y (qpending s'))%nat.
Proof.
  unfold dequeue, qpending. destruct s as [h n l lj f lt lp z ac op dd nx]. cbn.
  assert (T : forall (s0 s0' : st) (r0 : option entry),
     nxt s0' = nxt s0 -> True) by auto.
  destruct h as [|e h']; [destruct n as [|e n']; [destruct l as [|e l']|]|];
   [ | destruct (is_join e); [destruct (lj + c_join c <=? now)|] | | ];
   intro H; inversion H; subst; cbn;
   (split; [reflexivity | split; [reflexivity | intro y; cbn; cnt_norm; lia]]).
Qed.

(* the shapes finish can produce *)
Lemma finish_cases s1 f e now s2 evs r : finish filt s1 f e now = (s2, evs, r) ->
  s2 = s1 /\ exists x, evs = [Took f e now; x] /\
  ((exists out, x = Delivered e out now /\ r = None /\ menc out = true /\ enc_ok filt (snd e) = true)
   \/ (exists out, x = Unsendable e out /\ r = None /\ menc out = false /\ enc_ok filt (snd e) = false)
   \/ (exists dt, x = Dropped e /\ r = Some dt /\ filt (snd e) = FDrop dt)).
Proof.
  unfold finish, fin, enc_ok. destruct (filt (snd e)) as [|out|dt] eqn:EFi.
  - destruct (menc (snd e)) eqn:EM; intro H; inversion H; subst; (split; [reflexivity|]); eexists; (split; [reflexivity|]);
      [left | right; left]; exists (snd e); auto.
  - destruct (menc out) eqn:EM; intro H; inversion H; subst; (split; [reflexivity|]); eexists; (split; [reflexivity|]);
      [left | right; left]; exists out; auto.
  - intro H; inversion H; subst. split; [reflexivity|]. eexists; split; [reflexivity|]. right; right. exists dt. auto.
Qed.

Lemma P_after s1 s f e now : 
  nxt s1 = nxt s ->
  (forall y, cnt y (pending s) = (one y e + cnt y (pending s1))%nat) ->
  forall s2 evs r,
  finish filt s1 f e now = (s2, evs, r) -> s2 = s1 /\ P s evs s1.
Proof.
  intros HN HC s2 evs r H. apply finish_cases in H.
  destruct H as [-> [x [-> K]]]. split; [reflexivity|].
  destruct K as [[out [-> _]]|[[out [-> _]]|[dt [-> _]]]];
    (split; [intro y; specialize (HC y); unfold accepted, loss; cbn; cnt_norm; lia
            | unfold stamped, accepted; cbn; split; [reflexivity | lia]]).
Qed.

Lemma P_take_body s now s1 evs r : take_body c filt s now = (s1, evs, r) -> P s evs s1.
Proof.
  unfold take_body.
  destruct (fast s) as [|e fr] eqn:EF.
  - destruct (queue_nonempty s) eqn:EQ.
    + destruct (now - lastTake s <=? c_throttle c).
      * destruct (idle s []) as [s2 ev2] eqn:EI. intro H; inversion H; subst.
        eapply P_idle; eauto.
      * destruct (dequeue c now (set_lastTake s now)) as [s2 [e|]] eqn:ED.
        -- apply dequeue_cnt in ED. destruct ED as [HN [HF HC]].
           intro H.
           eapply (P_after s2 s) in H; [destruct H as [-> H]; exact H | | ].
           ++ rewrite HN. destruct s; reflexivity.
           ++ intro y. specialize (HC y). unfold pending. rewrite HF.
              destruct s; cbn in *. cnt_norm. lia.
        -- destruct (idle s2 []) as [s3 ev3] eqn:EI. intro H; inversion H; subst.
           apply dequeue_cnt in ED. destruct ED as [HN [HF HC]].
           apply P_trans with (e1 := []) (s1 := s2).
           ++ split; [intro y; specialize (HC y); unfold pending; rewrite HF; destruct s; cbn in *; cnt_norm; lia
                     | unfold stamped; cbn; rewrite HN; destruct s; cbn; split; [reflexivity | lia]].
           ++ eapply P_idle; eauto.
    + destruct (afterConnect s && c_ping c && (lastping s + c_interval c <? now)).
      * destruct (outPing s).
        -- destruct (idle s [Reconnect]) as [s2 ev2] eqn:EI. intro H; inversion H; subst.
           eapply P_idle; eauto.
        -- destruct (negb (zombie s)).
           ++ destruct (queueMsg c (set_ping s now true) (internal c_PING now)) as [s2 ev2] eqn:EQM.
              destruct (idle s2 ev2) as [s3 ev3] eqn:EI. intro H; inversion H; subst.
              apply P_queueMsg in EQM.
              assert (P s ev2 s2).
              { destruct EQM as [L S]. split; [intro y; specialize (L y) | ]; destruct s; cbn in *; auto. }
              unfold idle in EI. destruct (zombie s2 && negb (fast_nonempty s2) && negb (queue_nonempty s2)); inversion EI; subst; auto.
              replace (ev2 ++ [DriverDie]) with (ev2 ++ [DriverDie]) by reflexivity.
              eapply P_trans; [exact H0|].
              split; [intro y; destruct s2; unfold accepted, loss, pending, qpending; cbn; cnt_norm; lia | destruct s2; unfold stamped; cbn; split; [reflexivity | lia]].
           ++ destruct (idle s []) as [s2 ev2] eqn:EI. intro H; inversion H; subst.
              eapply P_idle; eauto.
      * destruct (idle s []) as [s2 ev2] eqn:EI. intro H; inversion H; subst.
        eapply P_idle; eauto.
  - intro H.
    eapply (P_after (set_fast s fr) s) in H; [destruct H as [-> H]; exact H | | ].
    + destruct s; reflexivity.
    + intro y. unfold pending. destruct s; cbn in *. subst. cnt_norm. lia.
Qed.

(* generic composition over the takeMsg recursion *)
Lemma take_compose (Q : st -> list event -> st -> Prop) :
  (forall s now s1 evs r, take_body c filt s now = (s1, evs, r) -> Q s evs s1) ->
  (forall s e1 s1 e2 s2, Q s e1 s1 -> Q s1 e2 s2 -> Q s (e1 ++ e2) s2) ->
  forall f s now s' evs, take c filt f s now = (s', evs) -> Q s evs s'.
Proof.
  intros HB HT. induction f as [|f IH]; intros s now s' evs; simpl;
    destruct (take_body c filt s now) as [[s1 e1] r] eqn:EB; apply HB in EB.
  - destruct r; intro H; inversion H; subst; exact EB.
  - destruct r as [dt|].
    + destruct (take c filt f s1 (now + dt)) as [s2 e2] eqn:ET. intro H; inversion H; subst.
      eapply HT; eauto.
    + intro H; inversion H; subst; exact EB.
Qed.

Lemma P_takeMsg s now s' evs : takeMsg c filt s now = (s', evs) -> P s evs s'.
Proof. unfold takeMsg. apply take_compose; [apply P_take_body | apply P_trans]. Qed.

Lemma P_die s s' evs : die s = (s', evs) -> P s evs s'.
Proof.
  unfold die. destruct s as [h n l lj f lt lp z ac op dd nx]. cbn.
  destruct ac; intro H; inversion H; subst; (split; [intro y; unfold accepted, loss, pending, qpending; cbn; cnt_norm; lia | unfold stamped; cbn; split; [reflexivity|lia]]).
Qed.

Lemma P_send_all ms : forall s acc s' evs,
  fold_left (fun acc m => let '(s1, evs) := sendMsg (fst acc) m in (s1, snd acc ++ evs)) ms (s, acc) = (s', evs) ->
  exists evs', evs = acc ++ evs' /\ P s evs' s'.
Proof.
  induction ms as [|m r IH]; intros s acc s' evs; simpl.
  - intro H; inversion H; subst. exists []. rewrite app_nil_r. split; [reflexivity | apply P_refl].
  - destruct (sendMsg s m) as [s1 e1] eqn:ES. intro H. apply IH in H. destruct H as [e2 [HE HP]].
    exists (e1 ++ e2). rewrite HE, app_assoc. split; [reflexivity|].
    eapply P_trans; [eapply P_sendMsg; eauto | exact HP].
Qed.

Lemma P_reset s now s' evs : reset c s now = (s', evs) -> P s evs s'.
Proof.
  unfold reset.
  change (zombie (St [] [] [] 0 [] 0 now (zombie s) false false (dead s) (nxt s))) with (zombie s).
  destruct (zombie s) eqn:EZ.
  - intro H; inversion H; subst. split.
    + intro y. unfold accepted, loss, pending, qpending. cbn. cnt_norm. lia.
    + unfold stamped. cbn. split; [reflexivity | lia].
  - destruct (send_all _ (connect_msgs c)) as [s2 ev2] eqn:EF. intro H; inversion H; subst.
    unfold send_all in EF. apply P_send_all in EF. destruct EF as [e2 [HE HP]]. simpl in HE. subst ev2.
    change (Flushed (pending s) :: e2) with ([Flushed (pending s)] ++ e2).
    eapply P_trans; [|exact HP]. split.
    + intro y. unfold accepted, loss, pending, qpending. cbn. cnt_norm. lia.
    + unfold stamped. cbn. split; [reflexivity | lia].
Qed.

Lemma P_step s o s' evs : step c filt s o = (s', evs) -> P s evs s'.
Proof.
  unfold step. destruct (dead s).
  - intro H; inversion H; subst. apply P_refl.
  - destruct o.
    + apply P_queueMsg.
    + apply P_sendMsg.
    + apply P_takeMsg.
    + apply P_die.
    + apply P_reset.
    + intro H; inversion H; subst. destruct s; split; [intro y; unfold accepted, loss, pending, qpending; cbn; cnt_norm; lia | unfold stamped; cbn; split; [reflexivity|lia]].
    + intro H; inversion H; subst. destruct s; split; [intro y; unfold accepted, loss, pending, qpending; cbn; cnt_norm; lia | unfold stamped; cbn; split; [reflexivity|lia]].
Qed.

(* generic composition over a history *)
Lemma run_compose (Q : st -> list event -> st -> Prop) :
  (forall s, Q s [] s) ->
  (forall s o s' evs, step c filt s o = (s', evs) -> Q s evs s') ->
  (forall s e1 s1 e2 s2, Q s e1 s1 -> Q s1 e2 s2 -> Q s (e1 ++ e2) s2) ->
  forall ops s s' evs, run_from c filt s ops = (s', evs) -> Q s evs s'.
Proof.
  intros HR HS HT. induction ops as [|o r IH]; intros s s' evs; simpl.
  - intro H; inversion H; subst. apply HR.
  - destruct (step c filt s o) as [s1 e1] eqn:ES.
    destruct (run_from c filt s1 r) as [s2 e2] eqn:ER. intro H; inversion H; subst.
    eapply HT; [eapply HS; eauto | eapply IH; eauto].
Qed.

Lemma P_run ops s s' evs : run_from c filt s ops = (s', evs) -> P s evs s'.
Proof. apply run_compose; [apply P_refl | apply P_step | apply P_trans]. Qed.

(* ---- the theorems ---- *)
Theorem ledger_from s ops s' evs :
  run_from c filt s ops = (s', evs) ->
  Permutation (pending s ++ accepted evs) (delivered evs ++ dropped evs ++ unsendable evs ++ flushed evs ++ pending s').
Proof.
  intro H. apply P_run in H. destruct H as [L _]. apply cnt_perm. intro y.
  specialize (L y). rewrite loss_split in L. cnt_norm. lia.
Qed.

Theorem ledger ops s' evs :
  run_from c filt st0 ops = (s', evs) ->
  Permutation (accepted evs) (delivered evs ++ dropped evs ++ unsendable evs ++ flushed evs ++ pending s').
Proof. intro H. apply ledger_from in H. exact H. Qed.

Theorem no_duplication ops s' evs :
  run_from c filt st0 ops = (s', evs) ->
  NoDup (map fst (delivered evs ++ dropped evs ++ unsendable evs ++ flushed evs ++ pending s')).
Proof.
  intro H. pose proof (ledger _ _ _ H) as HP. apply P_run in H. destruct H as [_ [A _]].
  eapply Permutation_NoDup; [apply Permutation_map; exact HP|].
  rewrite A. apply seq_NoDup.
Qed.
End WithCfg.
