(* C19/Props.v — the property theorems, nothing else.
   Model: C19/Model.v (send path of src/irclib.py).  Specs: Spec.v.
   Proofs: Ledger.v, Order.v, Rate.v, Drain.v.
   A history is a list of calls (op); run_from replays it from the empty object
   st0 (the constructor is the call Reset) and returns the final state and the
   trace of events.  c : settings, filt : the composite outFilter chain (any
   function), clock readings are arguments of Take/Reset. *)
From Coq Require Import List NArith ZArith Bool Permutation.
Import ListNotations.
Require Import Base.Wire Base.PyStr C19.Model C19.Spec C19.Ledger C19.Order C19.Rate C19.Drain C19.Encode C19.Refine C19.Live C19.Config.

(* Ledger: after any history, the messages accepted so far are exactly (as a
   multiset of stamped entries) those delivered, those dropped by a filter,
   those takeMsg discarded because their line has no UTF-8 form (unsendable),
   those flushed by reset() and those still pending. *)
Theorem C19_ledger : forall c filt ops s' evs,
  run_from c filt st0 ops = (s', evs) ->
  Permutation (accepted evs)
    (delivered evs ++ dropped evs ++ unsendable evs ++ flushed evs ++ pending s').
Proof. exact ledger. Qed.
Print Assumptions C19_ledger.

(* The unsendable bucket holds nothing but messages without a wire form, and
   nothing without a wire form is ever handed to the driver: in every trace each
   Delivered message is encodable (and so is what the filter chain makes of its
   original), each Unsendable one is not. *)
Theorem C19_only_unencodable_discarded : forall c filt ops s s' evs,
  run_from c filt s ops = (s', evs) -> Forall (ev_sound filt) evs.
Proof. exact trace_sound. Qed.
Print Assumptions C19_only_unencodable_discarded.

(* No loss, with the hypothesis where it is needed: if what the filter chain
   makes of every accepted message has a wire form, takeMsg discards nothing and
   accepted = delivered + dropped by a filter + flushed by reset + pending. *)
Theorem C19_no_loss_encodable : forall c filt ops s' evs,
  run_from c filt st0 ops = (s', evs) ->
  (forall e, In e (accepted evs) -> enc_ok filt (snd e) = true) ->
  unsendable evs = [] /\
  Permutation (accepted evs) (delivered evs ++ dropped evs ++ flushed evs ++ pending s').
Proof. exact no_loss_encodable. Qed.
Print Assumptions C19_no_loss_encodable.

(* No duplication: no accepted entry occurs twice among delivered, dropped,
   unsendable, flushed and pending. *)
Theorem C19_no_duplication : forall c filt ops s' evs,
  run_from c filt st0 ops = (s', evs) ->
  NoDup (map fst (delivered evs ++ dropped evs ++ unsendable evs ++ flushed evs ++ pending s')).
Proof. exact no_duplication. Qed.
Print Assumptions C19_no_duplication.

(* queueMsg either stores the message (result True) or changes nothing and says False. *)
Theorem C19_queue_refusal_explicit : forall c s m s' evs,
  queueMsg c s m = (s', evs) ->
  (exists e, evs = [Accepted FromQueue e] /\ snd e = m /\ Permutation (pending s') (e :: pending s))
  \/ (evs = [Refused true m] /\ s' = s).
Proof. exact queue_refusal_explicit. Qed.
Print Assumptions C19_queue_refusal_explicit.

(* Full statement for sendMsg: it stores the message or refuses with an explicit
   false result.  The pinned code violates it (finding F18b): on a zombie the
   message is discarded and the result is None as on success. *)
Theorem C19_send_refusal_on_domain : forall s m s' evs,
  zombie s = false -> sendMsg s m = (s', evs) ->
  exists e, evs = [Accepted FromFast e] /\ snd e = m /\ fast s' = fast s ++ [e].
Proof. exact send_refusal_on_domain. Qed.
Print Assumptions C19_send_refusal_on_domain.

Theorem C19_send_refusal_refuted :
  exists s m, zombie s = true /\ sendMsg s m = (s, [Refused false m]).
Proof. exact send_refusal_refuted. Qed.
Print Assumptions C19_send_refusal_refuted.

(* Priority: when a call takes entry e from the queue, the fastqueue is empty and
   no pending entry that was accepted before e has a more urgent class. *)
Theorem C19_priority : forall c filt ops s evs0 o s' evs e now,
  run_from c filt st0 ops = (s, evs0) -> step c filt s o = (s', evs) ->
  In (Took FromQueue e now) evs ->
  fast s' = [] /\
  forall e', In e' (qpending s') -> (fst e' < fst e)%nat -> (rank (ecls e) <= rank (ecls e'))%nat.
Proof. exact priority. Qed.
Print Assumptions C19_priority.

(* FIFO within a class (and within the fastqueue): when e is taken, every
   non-JOIN entry of the same class still pending was accepted after e.
   (A JOIN held back by the rate limit may be overtaken: JOINs are exempt.) *)
Theorem C19_fifo_in_class : forall c filt ops s evs0 o s' evs f e now,
  run_from c filt st0 ops = (s, evs0) -> step c filt s o = (s', evs) ->
  In (Took f e now) evs ->
  forall e', is_join e' = false ->
    match f with
    | FromFast => In e' (fast s')
    | FromQueue => In e' (qpending s') /\ ecls e' = ecls e
    end -> (fst e < fst e')%nat.
Proof. exact fifo_in_class. Qed.
Print Assumptions C19_fifo_in_class.

(* Refinement: every trace of every history (queueMsg/sendMsg/takeMsg/die/reset/
   376/PONG with arbitrary clock readings, settings with throttleTime >= 0 and any
   filter chain) is a trace of the abstract sender of Spec.v -- an express queue,
   three FIFO queues served most-urgent-first, a throttle and a JOIN rate limit,
   each taken entry meeting exactly one fate (delivered iff encodable, dropped by
   a filter, or unsendable), a rate-limited JOIN possibly sent to the tail -- and
   the abstract queues it ends with are the real ones. *)
Theorem C19_refines : forall c filt ops s' evs,
  (0 <= c_throttle c)%Z -> join_is_low = true ->
  run_from c filt st0 ops = (s', evs) ->
  exists t j, accepts (c_throttle c) (c_join c) A0 evs (A (fast s') (hi s') (no s') (lo s') t j None).
Proof. intros c filt ops s' evs T J. exact (refines c filt T J ops s' evs). Qed.
Print Assumptions C19_refines.

(* Throttle (corollary of the refinement: it holds for every trace of the
   abstract sender): two consecutive releases from the queue (no reset between)
   are more than throttleTime apart. *)
Theorem C19_throttle : forall c filt ops s' evs,
  (0 <= c_throttle c)%Z -> join_is_low = true ->
  run_from c filt st0 ops = (s', evs) -> throttle_ok (c_throttle c) None evs = true.
Proof.
  intros c filt ops s' evs T J H. destruct (refines c filt T J ops s' evs H) as [t [j K]].
  exact (accepts_throttle _ _ _ _ _ K).
Qed.
Print Assumptions C19_throttle.

(* JOIN rate (corollary of the refinement): two consecutive JOINs released from
   the queue are at least rateLimit.join apart. *)
Theorem C19_join_rate : forall c filt ops s' evs,
  (0 <= c_throttle c)%Z -> join_is_low = true ->
  run_from c filt st0 ops = (s', evs) -> joinrate_ok (c_join c) None evs = true.
Proof.
  intros c filt ops s' evs T J H. destruct (refines c filt T J ops s' evs H) as [t [j K]].
  exact (accepts_joinrate _ _ _ _ _ K).
Qed.
Print Assumptions C19_join_rate.

(* the regenerated tables satisfy the hypothesis of the two theorems above *)
Theorem C19_tables_ok : join_is_low = true.
Proof. vm_compute. reflexivity. Qed.
Print Assumptions C19_tables_ok.

(* A filter returning None consumes exactly that message and the call carries on
   as a fresh takeMsg on the remaining state (at the later clock reading). *)
Theorem C19_filter_no_stall : forall c filt s now s1 evs dt,
  take_body c filt s now = (s1, evs, Some dt) ->
  (exists f e, evs = [Took f e now; Dropped e] /\ filt (snd e) = FDrop dt
               /\ Permutation (pending s) (e :: pending s1)) /\
  takeMsg c filt s now =
    (let '(s2, evs2) := takeMsg c filt s1 (now + dt) in (s2, evs ++ evs2)).
Proof. exact filter_no_stall. Qed.
Print Assumptions C19_filter_no_stall.

(* Drain before close (repaired by the fix for finding C19.F18): whenever a call
   kills the driver, nothing is pending -- for every state, every call, every
   clock reading, every setting and every filter chain.  The only other way the
   driver is killed is die() itself before the end of MOTD, which closes the
   unregistered connection at once by design. *)
Theorem C19_drain_before_die : forall c filt s o s' evs,
  step c filt s o = (s', evs) -> In DriverDie evs ->
  pending s' = [] \/ (o = Die /\ afterConnect s = false).
Proof. exact drain_before_die. Qed.
Print Assumptions C19_drain_before_die.

(* Eventual delivery under steady polling, with an explicit bound.  From any
   state s reached by any history, not dying, with a steady clock (no jump
   inside one takeMsg call): if takeMsg is called once per second at clock
   readings t+1, t+2, ..., then after n polls, for any
     n >= Psi c s (t+1) = |pending s| * ((T+1)*(J+1)+1)
                          + max 0 (lastTake s + throttleTime - t)
                          + (T+1) * max 0 (lastJoin s + J - t - 1)
   with T = max 0 throttleTime and J = max 0 rateLimit.join (seconds, integers),
   no message that was pending in s is still pending -- in particular a JOIN
   held back by the rate limit is released.  (By C19_ledger what leaves the
   queues was delivered, dropped by a filter or unencodable.) *)
Theorem C19_delivery_under_polling : forall c filt,
  (forall m dt, filt m = FDrop dt -> dt = 0%Z) ->
  forall ops s evs0, run_from c filt st0 ops = (s, evs0) -> zombie s = false ->
  forall t n, (Psi c s (t + 1) <= Z.of_nat n)%Z ->
  forall e, In e (pending s) -> ~ In e (pending (polls c filt s t n)).
Proof. exact delivery_under_polling. Qed.
Print Assumptions C19_delivery_under_polling.

(* A refusal by queueMsg has a reason: the Irc is dying, or queuing.duplicates is
   on and an equal message is already waiting in the queue. *)
Theorem C19_refusal_has_reason : forall c s m s' evs e,
  queueMsg c s m = (s', evs) -> In (Refused e m) evs ->
  zombie s = true \/ (c_dup c = true /\ q_contains s m = true).
Proof. exact refusal_has_reason. Qed.
Print Assumptions C19_refusal_has_reason.

(* the regenerated table pins the test under which Irc.die() closes the driver at
   once ("not self.afterConnect"): the model's die, hence C19_drain_before_die,
   is about the current source *)
Theorem C19_die_test_pinned : die_test_pinned = true.
Proof. vm_compute. reflexivity. Qed.
Print Assumptions C19_die_test_pinned.

(* The keep-alive branch of takeMsg is reached only with both queues empty: the
   driver is asked to reconnect (a real driver then resets the Irc, clearing the
   queues) only by takeMsg and only when nothing accepted is pending -- so a
   reconnect never loses a message.  (A throttled call with a non-empty queue
   stops at the throttle; the table pins that nesting.) *)
Theorem C19_reconnect_only_idle : forall c filt s o s' evs,
  step c filt s o = (s', evs) -> In Reconnect evs ->
  (exists now, o = Take now) /\ pending s' = [].
Proof. exact reconnect_only_idle. Qed.
Print Assumptions C19_reconnect_only_idle.

(* Settings changed on the live bot.  A history may interleave calls with changes
   of throttleTime, rateLimit.join, queuing.duplicates, ping, ping.interval
   (run_x); every call runs under the configuration in force when it is made.
   The ledger, no duplication and "only unencodable messages are discarded"
   hold for all such histories. *)
Theorem C19_ledger_any_settings : forall filt xs c c' s' evs,
  run_x filt c st0 xs = (c', s', evs) ->
  Permutation (accepted evs) (delivered evs ++ dropped evs ++ unsendable evs ++ flushed evs ++ pending s')
  /\ NoDup (map fst (delivered evs ++ dropped evs ++ unsendable evs ++ flushed evs ++ pending s'))
  /\ Forall (ev_sound filt) evs.
Proof. exact ledger_x. Qed.
Print Assumptions C19_ledger_any_settings.

(* Priority and FIFO at any call made in a state reached by such a history. *)
Theorem C19_order_any_settings : forall filt xs c0 c s evs0 o s' evs f e now,
  run_x filt c0 st0 xs = (c, s, evs0) -> step c filt s o = (s', evs) ->
  In (Took f e now) evs -> took_ok f e s'.
Proof. exact took_in_order_x. Qed.
Print Assumptions C19_order_any_settings.

(* The spacing clauses use the values in force at the call: in the events of a
   call made under configuration c (whatever the settings were before), every
   release from the queue comes more than c's throttleTime after the previous
   release attempt and every JOIN at least c's rateLimit.join after the last JOIN.
   (A copy of the setting cached at connection time would falsify this.) *)
Theorem C19_spacing_in_force : forall filt xs c0 c s evs0 o s' evs,
  (0 <= c_throttle c)%Z -> join_is_low = true ->
  run_x filt c0 st0 xs = (c, s, evs0) -> step c filt s o = (s', evs) ->
  throttle_ok (c_throttle c) (Some (lastTake s)) evs = true
  /\ joinrate_ok (c_join c) (Some (lastJoin s)) evs = true.
Proof. exact spacing_in_force. Qed.
Print Assumptions C19_spacing_in_force.
