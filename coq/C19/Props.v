(* C19/Props.v — the property theorems, nothing else.
   Model: C19/Model.v (send path of src/irclib.py).  Specs: Spec.v.
   Proofs: Ledger.v, Order.v, Rate.v, Drain.v.
   A history is a list of calls (op); run_from replays it from the empty object
   st0 (the constructor is the call Reset) and returns the final state and the
   trace of events.  c : settings, filt : the composite outFilter chain (any
   function), clock readings are arguments of Take/Reset. *)
From Coq Require Import List NArith ZArith Bool Permutation.
Import ListNotations.
Require Import Base.Wire Base.PyStr C19.Model C19.Spec C19.Ledger C19.Order C19.Rate C19.Drain C19.Encode.

(* Ledger: after any history, the messages accepted so far are exactly (as a
   multiset of stamped entries) those delivered, those dropped by a filter,
   those takeMsg discarded because their line has no UTF-8 form (unsendable),
   those flushed by reset() and those still pending. *)
Theorem C19_ledger : forall c filt ops s' evs,
  run_from c filt st0 ops = (s', evs) ->
  Permutation (accepted evs)
    (delivered evs ++ dropped evs ++ unsendable evs ++ flushed evs ++ pending s').
Proof. exact ledger. Qed.
Print Assumptions C19_ledger.

(* The unsendable bucket holds nothing but messages without a wire form, and
   nothing without a wire form is ever handed to the driver: in every trace each
   Delivered message is encodable (and so is what the filter chain makes of its
   original), each Unsendable one is not. *)
Theorem C19_only_unencodable_discarded : forall c filt ops s s' evs,
  run_from c filt s ops = (s', evs) -> Forall (ev_sound filt) evs.
Proof. exact trace_sound. Qed.
Print Assumptions C19_only_unencodable_discarded.

(* No loss, with the hypothesis where it is needed: if what the filter chain
   makes of every accepted message has a wire form, takeMsg discards nothing and
   accepted = delivered + dropped by a filter + flushed by reset + pending. *)
Theorem C19_no_loss_encodable : forall c filt ops s' evs,
  run_from c filt st0 ops = (s', evs) ->
  (forall e, In e (accepted evs) -> enc_ok filt (snd e) = true) ->
  unsendable evs = [] /\
  Permutation (accepted evs) (delivered evs ++ dropped evs ++ flushed evs ++ pending s').
Proof. exact no_loss_encodable. Qed.
Print Assumptions C19_no_loss_encodable.

(* No duplication: no accepted entry occurs twice among delivered, dropped,
   unsendable, flushed and pending. *)
Theorem C19_no_duplication : forall c filt ops s' evs,
  run_from c filt st0 ops = (s', evs) ->
  NoDup (map fst (delivered evs ++ dropped evs ++ unsendable evs ++ flushed evs ++ pending s')).
Proof. exact no_duplication. Qed.
Print Assumptions C19_no_duplication.

(* queueMsg either stores the message (result True) or changes nothing and says False. *)
Theorem C19_queue_refusal_explicit : forall c s m s' evs,
  queueMsg c s m = (s', evs) ->
  (exists e, evs = [Accepted e] /\ snd e = m /\ Permutation (pending s') (e :: pending s))
  \/ (evs = [Refused true m] /\ s' = s).
Proof. exact queue_refusal_explicit. Qed.
Print Assumptions C19_queue_refusal_explicit.

(* Full statement for sendMsg: it stores the message or refuses with an explicit
   false result.  The pinned code violates it (finding F18b): on a zombie the
   message is discarded and the result is None as on success. *)
Theorem C19_send_refusal_on_domain : forall s m s' evs,
  zombie s = false -> sendMsg s m = (s', evs) ->
  exists e, evs = [Accepted e] /\ snd e = m /\ fast s' = fast s ++ [e].
Proof. exact send_refusal_on_domain. Qed.
Print Assumptions C19_send_refusal_on_domain.

Theorem C19_send_refusal_refuted :
  exists s m, zombie s = true /\ sendMsg s m = (s, [Refused false m]).
Proof. exact send_refusal_refuted. Qed.
Print Assumptions C19_send_refusal_refuted.

(* Priority: when a call takes entry e from the queue, the fastqueue is empty and
   no pending entry that was accepted before e has a more urgent class. *)
Theorem C19_priority : forall c filt ops s evs0 o s' evs e now,
  run_from c filt st0 ops = (s, evs0) -> step c filt s o = (s', evs) ->
  In (Took FromQueue e now) evs ->
  fast s' = [] /\
  forall e', In e' (qpending s') -> (fst e' < fst e)%nat -> (rank (ecls e) <= rank (ecls e'))%nat.
Proof. exact priority. Qed.
Print Assumptions C19_priority.

(* FIFO within a class (and within the fastqueue): when e is taken, every
   non-JOIN entry of the same class still pending was accepted after e.
   (A JOIN held back by the rate limit may be overtaken: JOINs are exempt.) *)
Theorem C19_fifo_in_class : forall c filt ops s evs0 o s' evs f e now,
  run_from c filt st0 ops = (s, evs0) -> step c filt s o = (s', evs) ->
  In (Took f e now) evs ->
  forall e', is_join e' = false ->
    match f with
    | FromFast => In e' (fast s')
    | FromQueue => In e' (qpending s') /\ ecls e' = ecls e
    end -> (fst e < fst e')%nat.
Proof. exact fifo_in_class. Qed.
Print Assumptions C19_fifo_in_class.

(* Throttle: in the trace of any history, two consecutive releases from the queue
   (no reset between) are more than throttleTime apart. *)
Theorem C19_throttle : forall c filt ops s' evs,
  (0 <= c_throttle c)%Z -> join_is_low = true ->
  run_from c filt st0 ops = (s', evs) -> throttle_ok (c_throttle c) None evs = true.
Proof. intros c filt ops s' evs T J H. exact (proj1 (throttle_joinrate c filt T J ops s' evs H)). Qed.
Print Assumptions C19_throttle.

(* JOIN rate: two consecutive JOINs released from the queue are at least
   rateLimit.join apart. *)
Theorem C19_join_rate : forall c filt ops s' evs,
  (0 <= c_throttle c)%Z -> join_is_low = true ->
  run_from c filt st0 ops = (s', evs) -> joinrate_ok (c_join c) None evs = true.
Proof. intros c filt ops s' evs T J H. exact (proj2 (throttle_joinrate c filt T J ops s' evs H)). Qed.
Print Assumptions C19_join_rate.

(* the regenerated tables satisfy the hypothesis of the two theorems above *)
Theorem C19_tables_ok : join_is_low = true.
Proof. vm_compute. reflexivity. Qed.
Print Assumptions C19_tables_ok.

(* A filter returning None consumes exactly that message and the call carries on
   as a fresh takeMsg on the remaining state (at the later clock reading). *)
Theorem C19_filter_no_stall : forall c filt s now s1 evs dt,
  take_body c filt s now = (s1, evs, Some dt) ->
  (exists f e, evs = [Took f e now; Dropped e] /\ filt (snd e) = FDrop dt
               /\ Permutation (pending s) (e :: pending s1)) /\
  takeMsg c filt s now =
    (let '(s2, evs2) := takeMsg c filt s1 (now + dt) in (s2, evs ++ evs2)).
Proof. exact filter_no_stall. Qed.
Print Assumptions C19_filter_no_stall.

(* Drain before close (repaired by the fix for finding C19.F18): whenever a call
   kills the driver, nothing is pending -- for every state, every call, every
   clock reading, every setting and every filter chain.  The only other way the
   driver is killed is die() itself before the end of MOTD, which closes the
   unregistered connection at once by design. *)
Theorem C19_drain_before_die : forall c filt s o s' evs,
  step c filt s o = (s', evs) -> In DriverDie evs ->
  pending s' = [] \/ (o = Die /\ afterConnect s = false).
Proof. exact drain_before_die. Qed.
Print Assumptions C19_drain_before_die.

(* Eventual delivery of a held-back JOIN, step-level part only (hence _partial):
   a failed attempt keeps the JOIN queued and does not move its deadline
   lastJoin + rateLimit.join; once the clock has reached the deadline, an
   un-throttled poll that finds the JOIN at the head of the queue releases it.
   The full statement (every accepted message is released by a long enough
   steady-polling schedule) is not proved; it is checked on the implementation
   by the polling-tail oracle of the harness. *)
Theorem C19_join_not_starved_partial : forall c filt,
  (forall now s s', dequeue c now s = (s', None) ->
     lastJoin s' = lastJoin s /\ Permutation (qpending s') (qpending s)) /\
  (forall s now e r,
     fast s = [] -> hi s = [] -> no s = [] -> lo s = e :: r -> is_join e = true ->
     (c_throttle c < now - lastTake s)%Z -> (lastJoin s + c_join c <= now)%Z ->
     exists s1 evs k, take_body c filt s now = (s1, evs, k) /\ In (Took FromQueue e now) evs
                      /\ lo s1 = r /\ lastJoin s1 = now).
Proof.
  intros c filt. split.
  - exact (join_deadline_fixed c).
  - exact (join_released_at_deadline c filt).
Qed.
Print Assumptions C19_join_not_starved_partial.
