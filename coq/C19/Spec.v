(* C19/Spec.v — the readable specifications the theorems are stated against:
   ledger projections of an event trace, class rank, trace checkers for the
   throttle and JOIN-rate clauses. *)
From Coq Require Import List NArith ZArith Bool Lia.
Import ListNotations.
Require Import Base.Wire Base.PyStr C19.Model.
Open Scope Z_scope.

(* ---- ledger: what a trace accepted, and where it went ---- *)
Definition gain1 (ev : event) : list entry := match ev with Accepted _ e => [e] | _ => [] end.
Definition delivered1 (ev : event) : list entry := match ev with Delivered e _ _ => [e] | _ => [] end.
Definition dropped1 (ev : event) : list entry := match ev with Dropped e => [e] | _ => [] end.
Definition flushed1 (ev : event) : list entry := match ev with Flushed l => l | _ => [] end.
Definition unsendable1 (ev : event) : list entry := match ev with Unsendable e _ => [e] | _ => [] end.
Definition accepted (evs : list event) := flat_map gain1 evs.
Definition delivered (evs : list event) := flat_map delivered1 evs.
Definition dropped (evs : list event) := flat_map dropped1 evs.
Definition flushed (evs : list event) := flat_map flushed1 evs.
Definition unsendable (evs : list event) := flat_map unsendable1 evs.

(* what the chain of filters makes of a message has a wire form (or the chain drops it) *)
Definition enc_ok (filt : msg -> fres) (m : msg) : bool :=
  match filt m with FPass => menc m | FRewrite out => menc out | FDrop _ => true end.

(* every Delivered message has a wire form and no Unsendable one has *)
Definition ev_sound (filt : msg -> fres) (ev : event) : Prop :=
  match ev with
  | Delivered e out _ => menc out = true /\ enc_ok filt (snd e) = true
  | Unsendable e out => menc out = false /\ enc_ok filt (snd e) = false
  | _ => True
  end.

(* ---- urgency ---- *)
Definition rank (k : cls) : nat := match k with High => 0 | Normal => 1 | Low => 2 end.

(* ---- throttle: scan a trace remembering the time of the last message
   released from the queue since the last reset ---- *)
Fixpoint throttle_ok (thr : Z) (last : option Z) (evs : list event) : bool :=
  match evs with
  | [] => true
  | Took FromQueue _ now :: r =>
      (match last with Some t => thr <? now - t | None => true end) && throttle_ok thr (Some now) r
  | Flushed _ :: r => throttle_ok thr None r
  | _ :: r => throttle_ok thr last r
  end.

(* ---- JOIN rate: same for JOINs released from the queue ---- *)
Fixpoint joinrate_ok (lim : Z) (last : option Z) (evs : list event) : bool :=
  match evs with
  | [] => true
  | Took FromQueue e now :: r =>
      if is_join e then
        (match last with Some t => t + lim <=? now | None => true end) && joinrate_ok lim (Some now) r
      else joinrate_ok lim last r
  | Flushed _ :: r => joinrate_ok lim None r
  | _ :: r => joinrate_ok lim last r
  end.

(* table sanity used by the JOIN-rate theorem: the rate-limited command is in
   the low-priority class (the only branch of dequeue that tests it) *)
Definition join_is_low : bool :=
  match classify gen.T19.JOIN_CMD with Low => true | _ => false end.

(* ---- the abstract sender: an express queue, three FIFO queues, a throttle and
   a JOIN rate limit.  Its state: the four queues, the time of the last release
   from the three queues, of the last JOIN so released, and the entry in flight
   (taken, fate not yet known).  Its steps are labelled by the observable events. *)
Record ast := A { xf : list entry; xh : list entry; xn : list entry; xl : list entry;
                  xt : option Z; xj : option Z; xin : option entry }.
Definition A0 : ast := A [] [] [] [] None None None.
Definition apush (a : ast) (e : entry) : ast :=
  match ecls e with
  | High => A (xf a) (xh a ++ [e]) (xn a) (xl a) (xt a) (xj a) (xin a)
  | Normal => A (xf a) (xh a) (xn a ++ [e]) (xl a) (xt a) (xj a) (xin a)
  | Low => A (xf a) (xh a) (xn a) (xl a ++ [e]) (xt a) (xj a) (xin a)
  end.
(* the head of the most urgent non-empty queue *)
Definition apop (h n l : list entry) : option (entry * (list entry * list entry * list entry)) :=
  match h, n, l with
  | e :: h', _, _ => Some (e, (h', n, l))
  | [], e :: n', _ => Some (e, ([], n', l))
  | [], [], e :: l' => Some (e, ([], [], l'))
  | [], [], [] => None
  end.
Definition fate (e : entry) (ev : event) : Prop :=
  match ev with
  | Delivered e' out _ => e' = e /\ menc out = true      (* handed to the driver *)
  | Dropped e' => e' = e                                 (* an outFilter said no *)
  | Unsendable e' out => e' = e /\ menc out = false      (* no wire form *)
  | _ => False
  end.
Definition silent (ev : event) : Prop :=
  match ev with Refused _ _ => True | Reconnect => True | DriverDie => True | _ => False end.
Inductive astep (thr lim : Z) : ast -> event -> ast -> Prop :=
| s_accF f h n l t j i e : astep thr lim (A f h n l t j i) (Accepted FromFast e) (A (f ++ [e]) h n l t j i)
| s_accQ a e : astep thr lim a (Accepted FromQueue e) (apush a e)
| s_tookF f h n l t j e now :
    astep thr lim (A (e :: f) h n l t j None) (Took FromFast e now) (A f h n l t j (Some e))
| s_tookQ h n l t j e now h' n' l' :                      (* only with the express queue empty *)
    apop h n l = Some (e, (h', n', l')) ->
    (forall t0, t = Some t0 -> thr < now - t0) ->                          (* throttle *)
    (is_join e = true -> forall t0, j = Some t0 -> t0 + lim <= now) ->     (* JOIN rate *)
    astep thr lim (A [] h n l t j None) (Took FromQueue e now)
          (A [] h' n' l' (Some now) (if is_join e then Some now else j) (Some e))
| s_fate f h n l t j e ev : fate e ev -> astep thr lim (A f h n l t j (Some e)) ev (A f h n l t j None)
| s_flush f h n l t j : astep thr lim (A f h n l t j None) (Flushed (f ++ h ++ n ++ l)) A0
| s_silent a ev : silent ev -> astep thr lim a ev a.
(* unobservable: a JOIN at the head of the low queue is sent to its tail (held back) *)
Inductive arot : ast -> ast -> Prop :=
| r_rot f h n l t j i e : is_join e = true -> arot (A f h n (e :: l) t j i) (A f h n (l ++ [e]) t j i).
Inductive accepts (thr lim : Z) : ast -> list event -> ast -> Prop :=
| acc_nil a : accepts thr lim a [] a
| acc_ev a ev a1 evs a2 : astep thr lim a ev a1 -> accepts thr lim a1 evs a2 -> accepts thr lim a (ev :: evs) a2
| acc_tau a a1 evs a2 : arot a a1 -> accepts thr lim a1 evs a2 -> accepts thr lim a evs a2.

(* table sanity used by the drain theorem: Irc.die() closes the driver at once
   under the test  not self.afterConnect  and no other (what Model.die mirrors) *)
Definition die_test_pinned : bool :=
  seq_eqb gen.T19.DIE_AT_ONCE_TEST
    [110; 111; 116; 32; 115; 101; 108; 102; 46; 97; 102; 116; 101; 114; 67; 111; 110; 110; 101; 99; 116]%N.
