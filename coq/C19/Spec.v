(* C19/Spec.v — the readable specifications the theorems are stated against:
   ledger projections of an event trace, class rank, trace checkers for the
   throttle and JOIN-rate clauses. *)
From Coq Require Import List NArith ZArith Bool Lia.
Import ListNotations.
Require Import Base.Wire Base.PyStr C19.Model.
Open Scope Z_scope.

(* ---- ledger: what a trace accepted, and where it went ---- *)
Definition gain1 (ev : event) : list entry := match ev with Accepted e => [e] | _ => [] end.
Definition delivered1 (ev : event) : list entry := match ev with Delivered e _ _ => [e] | _ => [] end.
Definition dropped1 (ev : event) : list entry := match ev with Dropped e => [e] | _ => [] end.
Definition flushed1 (ev : event) : list entry := match ev with Flushed l => l | _ => [] end.
Definition unsendable1 (ev : event) : list entry := match ev with Unsendable e _ => [e] | _ => [] end.
Definition accepted (evs : list event) := flat_map gain1 evs.
Definition delivered (evs : list event) := flat_map delivered1 evs.
Definition dropped (evs : list event) := flat_map dropped1 evs.
Definition flushed (evs : list event) := flat_map flushed1 evs.
Definition unsendable (evs : list event) := flat_map unsendable1 evs.

(* what the chain of filters makes of a message has a wire form (or the chain drops it) *)
Definition enc_ok (filt : msg -> fres) (m : msg) : bool :=
  match filt m with FPass => menc m | FRewrite out => menc out | FDrop _ => true end.

(* every Delivered message has a wire form and no Unsendable one has *)
Definition ev_sound (filt : msg -> fres) (ev : event) : Prop :=
  match ev with
  | Delivered e out _ => menc out = true /\ enc_ok filt (snd e) = true
  | Unsendable e out => menc out = false /\ enc_ok filt (snd e) = false
  | _ => True
  end.

(* ---- urgency ---- *)
Definition rank (k : cls) : nat := match k with High => 0 | Normal => 1 | Low => 2 end.

(* ---- throttle: scan a trace remembering the time of the last message
   released from the queue since the last reset ---- *)
Fixpoint throttle_ok (thr : Z) (last : option Z) (evs : list event) : bool :=
  match evs with
  | [] => true
  | Took FromQueue _ now :: r =>
      (match last with Some t => thr <? now - t | None => true end) && throttle_ok thr (Some now) r
  | Flushed _ :: r => throttle_ok thr None r
  | _ :: r => throttle_ok thr last r
  end.

(* ---- JOIN rate: same for JOINs released from the queue ---- *)
Fixpoint joinrate_ok (lim : Z) (last : option Z) (evs : list event) : bool :=
  match evs with
  | [] => true
  | Took FromQueue e now :: r =>
      if is_join e then
        (match last with Some t => t + lim <=? now | None => true end) && joinrate_ok lim (Some now) r
      else joinrate_ok lim last r
  | Flushed _ :: r => joinrate_ok lim None r
  | _ :: r => joinrate_ok lim last r
  end.

(* table sanity used by the JOIN-rate theorem: the rate-limited command is in
   the low-priority class (the only branch of dequeue that tests it) *)
Definition join_is_low : bool :=
  match classify gen.T19.JOIN_CMD with Low => true | _ => false end.
