(* C19/Encode.v — messages without a wire form (UTF-8 encoding of the line
   fails): they are the only ones takeMsg itself discards, they are never
   handed to the driver, and without them the ledger has no such bucket. *)
From Coq Require Import List NArith ZArith Bool Lia Permutation.
Import ListNotations.
Require Import Base.Wire Base.PyStr C19.Model C19.Spec C19.Ledger.
Open Scope Z_scope.

Definition plain (ev : event) : bool :=
  match ev with Delivered _ _ _ => false | Unsendable _ _ => false | _ => true end.

Lemma plain_sound filt evs : forallb plain evs = true -> Forall (ev_sound filt) evs.
Proof.
  induction evs as [|ev r IH]; simpl; intro H; constructor.
  - apply andb_prop in H. destruct H as [H _]. destruct ev; try discriminate; exact Logic.I.
  - apply IH. apply andb_prop in H. tauto.
Qed.

Section WithCfg.
Variable c : cfg.
Variable filt : msg -> fres.

Lemma plain_queueMsg s m s' evs : queueMsg c s m = (s', evs) -> forallb plain evs = true.
Proof.
  unfold queueMsg, enqueue. destruct (zombie s); [intro H; inversion H; reflexivity|].
  destruct (q_contains s m && c_dup c); [intro H; inversion H; reflexivity|].
  destruct (classify (mcmd m)); intro H; inversion H; reflexivity.
Qed.

Lemma plain_sendMsg s m s' evs : sendMsg s m = (s', evs) -> forallb plain evs = true.
Proof. unfold sendMsg. destruct (zombie s); intro H; inversion H; reflexivity. Qed.

Lemma plain_idle s evs0 s' evs : idle s evs0 = (s', evs) -> forallb plain evs0 = true -> forallb plain evs = true.
Proof.
  unfold idle. destruct (zombie s && negb (fast_nonempty s) && negb (queue_nonempty s));
    intros H A; inversion H; subst; [rewrite forallb_app, A; reflexivity | exact A].
Qed.

Definition S_ (s : st) (evs : list event) (s' : st) : Prop := Forall (ev_sound filt) evs.

Lemma S_take_body s now s1 evs r : take_body c filt s now = (s1, evs, r) -> S_ s evs s1.
Proof.
  unfold take_body, S_.
  assert (FIN : forall s0 f e s2 evs0 r0, finish filt s0 f e now = (s2, evs0, r0) -> Forall (ev_sound filt) evs0).
  { intros s0 f e s2 evs0 r0 H. apply finish_cases in H. destruct H as [_ [x [-> K0]]].
    constructor; [exact Logic.I|]. constructor; [|constructor].
    destruct K0 as [[out [-> [_ [A B]]]]|[[out [-> [_ [A B]]]]|[dt [-> _]]]]; simpl; auto. }
  destruct (fast s) as [|e fr]; [|apply FIN].
  destruct (queue_nonempty s).
  - destruct (now - lastTake s <=? c_throttle c).
    + destruct (idle s []) as [s2 ev2] eqn:EI. intro H; inversion H; subst.
      apply plain_sound. eapply plain_idle; eauto.
    + destruct (dequeue c now (set_lastTake s now)) as [s2 [e|]]; [apply FIN|].
      destruct (idle s2 []) as [s3 ev3] eqn:EI. intro H; inversion H; subst.
      apply plain_sound. eapply plain_idle; eauto.
  - destruct (afterConnect s && c_ping c && (lastping s + c_interval c <? now));
      [destruct (outPing s); [|destruct (negb (zombie s))]|].
    + destruct (idle s [Reconnect]) as [s2 ev2] eqn:EI. intro H; inversion H; subst.
      apply plain_sound. eapply plain_idle; eauto.
    + destruct (queueMsg c (set_ping s now true) (internal c_PING now)) as [s2 ev2] eqn:EQM.
      destruct (idle s2 ev2) as [s3 ev3] eqn:EI. intro H; inversion H; subst.
      apply plain_sound. eapply plain_idle; eauto. eapply plain_queueMsg; eauto.
    + destruct (idle s []) as [s2 ev2] eqn:EI. intro H; inversion H; subst.
      apply plain_sound. eapply plain_idle; eauto.
    + destruct (idle s []) as [s2 ev2] eqn:EI. intro H; inversion H; subst.
      apply plain_sound. eapply plain_idle; eauto.
Qed.

Lemma S_trans s e1 s1 e2 s2 : S_ s e1 s1 -> S_ s1 e2 s2 -> S_ s (e1 ++ e2) s2.
Proof. unfold S_. intros. apply Forall_app; auto. Qed.

Lemma plain_send_all ms : forall s acc s' evs,
  fold_left (fun acc m => let '(s1, evs) := sendMsg (fst acc) m in (s1, snd acc ++ evs)) ms (s, acc) = (s', evs) ->
  forallb plain acc = true -> forallb plain evs = true.
Proof.
  induction ms as [|m r IH]; intros s acc s' evs; simpl.
  - intros H A; inversion H; subst; exact A.
  - destruct (sendMsg s m) as [s1 e1] eqn:ES. intros H A. eapply IH; [exact H|].
    rewrite forallb_app, A. eapply plain_sendMsg; eauto.
Qed.

Lemma S_step s o s' evs : step c filt s o = (s', evs) -> S_ s evs s'.
Proof.
  unfold step, S_. destruct (dead s); [intro H; inversion H; constructor|].
  destruct o.
  - intro H. apply plain_sound. eapply plain_queueMsg; eauto.
  - intro H. apply plain_sound. eapply plain_sendMsg; eauto.
  - unfold takeMsg. apply (take_compose c filt S_); [apply S_take_body | apply S_trans].
  - unfold die. destruct (afterConnect (set_zombie s true)); intro H; inversion H; subst; apply plain_sound; reflexivity.
  - unfold reset.
    change (zombie (St [] [] [] 0 [] 0 now (zombie s) false false (dead s) (nxt s))) with (zombie s).
    destruct (zombie s).
    + intro H; inversion H; subst. apply plain_sound; reflexivity.
    + destruct (send_all _ (connect_msgs c)) as [s2 ev2] eqn:EF. intro H; inversion H; subst.
      unfold send_all in EF. apply plain_send_all in EF; [|reflexivity].
      apply plain_sound. simpl. exact EF.
  - intro H; inversion H; constructor.
  - intro H; inversion H; constructor.
Qed.

(* every message handed to the driver has a wire form; the only messages takeMsg
   itself discards are those whose filtered form has none *)
Theorem trace_sound ops s s' evs :
  run_from c filt s ops = (s', evs) -> Forall (ev_sound filt) evs.
Proof.
  apply (run_compose c filt S_); [intro; constructor | apply S_step | apply S_trans].
Qed.

Lemma in_unsendable e evs : In e (unsendable evs) -> exists out, In (Unsendable e out) evs.
Proof.
  unfold unsendable. intro H. apply in_flat_map in H. destruct H as [ev [A B]].
  destruct ev; simpl in B; try contradiction. destruct B as [<-|[]]. eauto.
Qed.

(* no loss: if what the filter chain makes of every accepted message has a wire
   form, takeMsg discards nothing: accepted = delivered + dropped by a filter +
   flushed by reset + pending *)
Theorem no_loss_encodable ops s' evs :
  run_from c filt st0 ops = (s', evs) ->
  (forall e, In e (accepted evs) -> enc_ok filt (snd e) = true) ->
  unsendable evs = [] /\
  Permutation (accepted evs) (delivered evs ++ dropped evs ++ flushed evs ++ pending s').
Proof.
  intros H A. pose proof (ledger c filt _ _ _ H) as L. pose proof (trace_sound _ _ _ _ H) as T.
  assert (U : unsendable evs = []).
  { destruct (unsendable evs) as [|e r] eqn:EU; [reflexivity|]. exfalso.
    assert (IU : In e (unsendable evs)) by (rewrite EU; left; reflexivity).
    destruct (in_unsendable _ _ IU) as [out IO].
    rewrite Forall_forall in T. specialize (T _ IO). simpl in T. destruct T as [_ T].
    assert (IA : In e (accepted evs)).
    { eapply Permutation_in; [apply Permutation_sym; exact L|].
      apply in_or_app; right. apply in_or_app; right. apply in_or_app; left. left. reflexivity. }
    rewrite (A _ IA) in T. discriminate. }
  split; [exact U|]. rewrite U in L. exact L.
Qed.
End WithCfg.
