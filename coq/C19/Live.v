(* C19/Live.v — eventual delivery under steady polling, with an explicit bound. *)
From Coq Require Import List NArith ZArith Bool Lia.
Import ListNotations.
Require Import Base.Wire Base.PyStr C19.Model C19.Spec C19.Ledger C19.Order.
Open Scope Z_scope.

Section WithCfg.
Variable c : cfg.
Variable filt : msg -> fres.
(* steady clock: the clock does not move inside one takeMsg call *)
Hypothesis steady : forall m dt, filt m = FDrop dt -> dt = 0.

Definition T_ : Z := Z.max 0 (c_throttle c).
Definition J_ : Z := Z.max 0 (c_join c).
Definition C_ : Z := (T_ + 1) * (J_ + 1) + 1.
Definition P_ (s : st) : Z := Z.of_nat (length (pending s)).
Definition wT (s : st) (now : Z) : Z := Z.max 0 (lastTake s + c_throttle c + 1 - now).
Definition wJ (s : st) (now : Z) : Z := Z.max 0 (lastJoin s + J_ - now).
(* the bound: number of polls (one per second, first one at clock reading now)
   after which everything pending in s has been taken *)
Definition Psi (s : st) (now : Z) : Z := P_ s * C_ + wT s now + (T_ + 1) * wJ s now.

Lemma C_eq : C_ = (T_ + 1) + (T_ + 1) * J_ + 1.
Proof. unfold C_. ring. Qed.
Lemma T_nonneg : 0 <= T_. Proof. unfold T_. lia. Qed.
Lemma J_nonneg : 0 <= J_. Proof. unfold J_. lia. Qed.

Lemma idle_alive s evs0 s' evs : zombie s = false -> idle s evs0 = (s', evs) -> s' = s.
Proof. unfold idle. intros Z. rewrite Z. simpl. intro H; inversion H; reflexivity. Qed.

(* what one activation of takeMsg does to a live (non-zombie) Irc *)
Definition consumed (s s1 : st) (now : Z) : Prop :=
  P_ s1 = P_ s - 1 /\ incl (pending s1) (pending s)
  /\ wT s1 now <= wT s now + (T_ + 1) /\ wJ s1 now <= wJ s now + J_.
Definition rotated (s s1 : st) (now : Z) : Prop :=
  P_ s1 = P_ s /\ incl (pending s1) (pending s)
  /\ lastTake s1 = now /\ lastJoin s1 = lastJoin s /\ 1 <= wJ s now.

Lemma P_cons (f q : list entry) (e : entry) : Z.of_nat (length (f ++ q)) = Z.of_nat (length (f ++ e :: q)) - 1.
Proof. rewrite !app_length. simpl. lia. Qed.

Lemma dequeue_live now s s2 r : dequeue c now s = (s2, r) ->
  fast s2 = fast s /\ lastTake s2 = lastTake s /\ zombie s2 = zombie s /\ nxt s2 = nxt s /\
  match r with
  | Some e => length (qpending s) = S (length (qpending s2)) /\ incl (qpending s2) (qpending s)
              /\ (lastJoin s2 = lastJoin s \/ lastJoin s2 = now)
  | None => length (qpending s2) = length (qpending s) /\ incl (qpending s2) (qpending s) /\ lastJoin s2 = lastJoin s
            /\ (qpending s = [] \/ now < lastJoin s + c_join c)
  end.
Proof.
  unfold dequeue, qpending. destruct s as [h n l lj f lt lp z ac op dd nx]. cbn.
  destruct h as [|x h']; [destruct n as [|x n']; [destruct l as [|x l']|]|].
  - intro H; inversion H; subst; cbn. repeat split; auto using incl_refl.
  - destruct (is_join x); [destruct (lj + c_join c <=? now) eqn:EL|]; intro H; inversion H; subst; cbn;
      repeat split; auto using incl_tl, incl_refl; try lia;
      try (rewrite app_length; simpl; lia);
      try (intros y K; apply in_app_or in K; destruct K as [K|[K|[]]]; [right | left]; auto; subst; reflexivity);
      try (right; apply Z.leb_gt in EL; lia).
  - intro H; inversion H; subst; cbn. repeat split; auto using incl_tl, incl_refl; try lia.
  - intro H; inversion H; subst; cbn. repeat split; auto using incl_tl, incl_refl; try lia.
Qed.

Lemma body_live s now s1 evs r :
  zombie s = false -> take_body c filt s now = (s1, evs, r) ->
  zombie s1 = false /\
  (((r = None \/ r = Some 0) /\ consumed s s1 now)
   \/ (r = None /\ (   (s1 = s /\ 1 <= wT s now)
                    \/ rotated s s1 now
                    \/ (pending s = [] /\ lastTake s1 = lastTake s /\ lastJoin s1 = lastJoin s)))).
Proof.
  intros ZS. unfold take_body.
  assert (FIN : forall s0 f e s2 evs0 r0, finish filt s0 f e now = (s2, evs0, r0) -> s2 = s0 /\ (r0 = None \/ r0 = Some 0)).
  { intros s0 f e s2 evs0 r0 H. apply finish_cases in H. destruct H as [-> [x [_ K]]]. split; [reflexivity|].
    destruct K as [[? [_ [-> _]]]|[[? [_ [-> _]]]|[dt [_ [-> K]]]]]; auto. right. rewrite (steady _ _ K). reflexivity. }
  destruct (fast s) as [|e fr] eqn:EF.
  - destruct (queue_nonempty s) eqn:EQ.
    + destruct (now - lastTake s <=? c_throttle c) eqn:ET.
      * destruct (idle s []) as [s2 ev2] eqn:EI. intro H; inversion H; subst.
        apply idle_alive in EI; auto. subst s1. split; [exact ZS|]. right. split; [reflexivity|]. left.
        split; [reflexivity|]. apply Z.leb_le in ET. unfold wT. lia.
      * apply Z.leb_gt in ET.
        destruct (dequeue c now (set_lastTake s now)) as [s2 [e|]] eqn:ED.
        -- intro H. apply FIN in H. destruct H as [-> RR].
           apply dequeue_live in ED. destruct ED as [F2 [LT2 [Z2 [_ [PL [IN LJ2]]]]]].
           assert (E1 : fast s2 = [] /\ lastTake s2 = now /\ zombie s2 = false) by (destruct s; cbn in *; subst; auto).
           destruct E1 as [F0 [LT0 Z0]]. split; [exact Z0|]. left. split; [exact RR|].
           assert (QE : qpending (set_lastTake s now) = qpending s) by (destruct s; reflexivity).
           assert (LE : lastJoin (set_lastTake s now) = lastJoin s) by (destruct s; reflexivity).
           rewrite QE in *. rewrite LE in *.
           unfold consumed, P_, pending, wT, wJ. rewrite F0, EF, LT0. simpl.
           split; [rewrite PL; lia|]. split; [exact IN|]. pose proof T_nonneg. pose proof J_nonneg. unfold T_, J_ in *.
           split; [lia|]. destruct LJ2 as [-> | ->]; lia.
        -- destruct (idle s2 []) as [s3 ev3] eqn:EI. intro H; inversion H; subst.
           apply dequeue_live in ED. destruct ED as [F2 [LT2 [Z2 [_ [PL [IN [LJ2 WH]]]]]]].
           assert (E1 : fast s2 = [] /\ lastTake s2 = now /\ zombie s2 = false) by (destruct s; cbn in *; subst; auto).
           destruct E1 as [F0 [LT0 Z0]].
           apply idle_alive in EI; auto. subst s1. split; [exact Z0|]. right. split; [reflexivity|]. right. left.
           assert (QE : qpending (set_lastTake s now) = qpending s) by (destruct s; reflexivity).
           assert (LE : lastJoin (set_lastTake s now) = lastJoin s) by (destruct s; reflexivity).
           rewrite QE in *. rewrite LE in *.
           unfold rotated, P_, pending. rewrite F0, EF. simpl.
           split; [rewrite PL; reflexivity|]. split; [exact IN|]. split; [exact LT0|]. split; [exact LJ2|].
           destruct WH as [WH|WH].
           ++ unfold queue_nonempty in EQ. rewrite WH in EQ. discriminate.
           ++ unfold wJ, J_. lia.
    + assert (PN : pending s = []).
      { unfold pending. rewrite EF. unfold queue_nonempty in EQ. destruct (qpending s); [reflexivity | discriminate]. }
      assert (G : forall s2, (zombie s2 = false /\ lastTake s2 = lastTake s /\ lastJoin s2 = lastJoin s) ->
                  zombie s2 = false /\
                  (((@None Z = None \/ @None Z = Some 0) /\ consumed s s2 now)
                   \/ (@None Z = None /\ ((s2 = s /\ 1 <= wT s now) \/ rotated s s2 now
                        \/ (pending s = [] /\ lastTake s2 = lastTake s /\ lastJoin s2 = lastJoin s))))).
      { intros s2 [A [B D]]. split; [exact A|]. right. split; [reflexivity|]. right. right. auto. }
      destruct (afterConnect s && c_ping c && (lastping s + c_interval c <? now));
        [destruct (outPing s); [|destruct (negb (zombie s))]|].
      * destruct (idle s [Reconnect]) as [s2 ev2] eqn:EI. intro H; inversion H; subst.
        apply idle_alive in EI; auto. subst s1. apply (G s); auto.
      * destruct (queueMsg c (set_ping s now true) (internal c_PING now)) as [s2 ev2] eqn:EQM.
        destruct (idle s2 ev2) as [s3 ev3] eqn:EI. intro H; inversion H; subst.
        assert (K : zombie s2 = false /\ lastTake s2 = lastTake s /\ lastJoin s2 = lastJoin s).
        { revert EQM. unfold queueMsg, enqueue. destruct s as [h n l lj f lt lp z ac op dd nx]. cbn in *. subst z. cbn.
          destruct (q_contains _ _ && c_dup c); [intro H0; inversion H0; subst; cbn; auto|].
          destruct (classify c_PING); intro H0; inversion H0; subst; cbn; auto. }
        destruct K as [K1 K2]. apply idle_alive in EI; auto. subst s1. apply (G s2); auto.
      * destruct (idle s []) as [s2 ev2] eqn:EI. intro H; inversion H; subst.
        apply idle_alive in EI; auto. subst s1. apply (G s); auto.
      * destruct (idle s []) as [s2 ev2] eqn:EI. intro H; inversion H; subst.
        apply idle_alive in EI; auto. subst s1. apply (G s); auto.
  - intro H. apply FIN in H. destruct H as [-> RR].
    split; [destruct s; exact ZS|]. left. split; [exact RR|].
    assert (E1 : fast (set_fast s fr) = fr /\ qpending (set_fast s fr) = qpending s
                 /\ lastTake (set_fast s fr) = lastTake s /\ lastJoin (set_fast s fr) = lastJoin s)
      by (destruct s; repeat split; reflexivity).
    destruct E1 as [E1 [E2 [E3 E4]]].
    unfold consumed, P_, pending, wT, wJ. rewrite E1, E2, E3, E4, EF.
    pose proof T_nonneg. pose proof J_nonneg.
    split; [rewrite !app_length; simpl length; lia|]. split; [apply incl_tl, incl_refl|]. lia.
Qed.

Definition oldE (n0 : nat) (e : entry) : Prop := (fst e < n0)%nat.
Definition newE (n0 : nat) (e : entry) : Prop := (n0 <= fst e)%nat.

Lemma Psi_mono s now : Psi s (now + 1) <= Psi s now.
Proof. unfold Psi, wT, wJ. pose proof T_nonneg. nia. Qed.

(* one poll: the bound decreases, or nothing old is left *)
Lemma take_live n0 : forall f s now s' evs,
  zombie s = false -> INV s -> Forall (oldE n0) (pending s) -> (n0 <= nxt s)%nat ->
  take c filt f s now = (s', evs) ->
  zombie s' = false /\
  ((Psi s' (now + 1) < Psi s now /\ Forall (oldE n0) (pending s')) \/ Forall (newE n0) (pending s')).
Proof.
  induction f as [|f IH]; intros s now s' evs ZS I OL N0; simpl;
    destruct (take_body c filt s now) as [[s1 e1] r] eqn:EB;
    destruct (body_live _ _ _ _ _ ZS EB) as [Z1 OUT];
    pose proof (Q_take_body c filt _ _ _ _ _ EB I) as [I1 [[NX [RF RQ]] _]].
  all: assert (CONS : consumed s s1 now -> Psi s1 now <= Psi s now - 1 /\ Forall (oldE n0) (pending s1)).
  all: try (intros [A [B [D E]]]; split;
            [unfold Psi; rewrite A; pose proof C_eq; pose proof T_nonneg; pose proof J_nonneg; nia
            | rewrite Forall_forall in *; intros x K; apply OL, B, K]).
  all: assert (REST : r = None -> (s1 = s /\ 1 <= wT s now) \/ rotated s s1 now
                \/ (pending s = [] /\ lastTake s1 = lastTake s /\ lastJoin s1 = lastJoin s) ->
              (Psi s1 (now + 1) < Psi s now /\ Forall (oldE n0) (pending s1)) \/ Forall (newE n0) (pending s1)).
  all: try (intros _ [[-> W1]|[[A [B [LT [LJ W1]]]]|[PN [LT LJ]]]];
            [ left; split; [unfold Psi, wT, wJ in *; pose proof T_nonneg; nia | exact OL]
            | left; split; [unfold Psi, wT, wJ in *; rewrite A, LT, LJ; pose proof T_nonneg; unfold T_ in *; nia
                           | rewrite Forall_forall in *; intros x K; apply OL, B, K]
            | right; rewrite Forall_forall; intros x K; unfold newE;
              unfold pending in K; apply in_app_or in K; destruct K as [K|K];
              [ apply RF in K; rewrite PN in *; unfold pending in PN; apply app_eq_nil in PN; destruct PN as [PF _];
                rewrite PF in K; destruct K
              | destruct (RQ x K) as [K1|K1]; [unfold pending in PN; apply app_eq_nil in PN; destruct PN as [_ PQ];
                                               rewrite PQ in K1; destruct K1 | lia] ] ]).
  - (* fuel 0 *)
    destruct r as [dt|]; intro H; inversion H; subst; (split; [exact Z1|]).
    + destruct OUT as [[_ CO]|[X _]]; [|discriminate]. destruct (CONS CO) as [A B]. left. split; [|exact B].
      pose proof (Psi_mono s' now). lia.
    + destruct OUT as [[_ CO]|[_ X]]; [|apply REST; auto]. destruct (CONS CO) as [A B]. left. split; [|exact B].
      pose proof (Psi_mono s' now). lia.
  - destruct r as [dt|].
    + destruct OUT as [[RR CO]|[X _]]; [|discriminate]. destruct RR as [X|X]; [discriminate|]. inversion X; subst dt.
      destruct (CONS CO) as [A B]. rewrite Z.add_0_r.
      destruct (take c filt f s1 now) as [s2 e2] eqn:ET. intro H; inversion H; subst.
      assert (N1 : (n0 <= nxt s1)%nat) by lia.
      destruct (IH _ _ _ _ Z1 I1 B N1 ET) as [Z2 [[L1 L2]|RI]]; (split; [exact Z2|]); [left; split; [lia | exact L2] | right; exact RI].
    + intro H; inversion H; subst. split; [exact Z1|].
      destruct OUT as [[_ CO]|[_ X]]; [|apply REST; auto]. destruct (CONS CO) as [A B]. left. split; [|exact B].
      pose proof (Psi_mono s' now). lia.
Qed.

Lemma take_zombie : forall f s now s' evs,
  zombie s = false -> take c filt f s now = (s', evs) -> zombie s' = false.
Proof.
  induction f as [|f IH]; intros s now s' evs ZS; simpl;
    destruct (take_body c filt s now) as [[s1 e1] r] eqn:EB;
    destruct (body_live _ _ _ _ _ ZS EB) as [Z1 _].
  - destruct r; intro H; inversion H; subst; exact Z1.
  - destruct r as [dt|]; [|intro H; inversion H; subst; exact Z1].
    destruct (take c filt f s1 (now + dt)) as [s2 e2] eqn:ET. intro H; inversion H; subst. eapply IH; eauto.
Qed.

(* steady polling: takeMsg once per second, first at clock reading t + 1 *)
Fixpoint polls (s : st) (t : Z) (n : nat) : st :=
  match n with O => s | S k => polls (fst (takeMsg c filt s (t + 1))) (t + 1) k end.

Lemma poll_new n0 s now :
  zombie s = false -> INV s -> (n0 <= nxt s)%nat -> Forall (newE n0) (pending s) ->
  let s' := fst (takeMsg c filt s now) in
  zombie s' = false /\ INV s' /\ (n0 <= nxt s')%nat /\ Forall (newE n0) (pending s').
Proof.
  intros ZS I N0 NW. destruct (takeMsg c filt s now) as [s' evs] eqn:ET. simpl.
  pose proof (Q_takeMsg c filt _ _ _ _ ET I) as [I' [[NX [RF RQ]] _]].
  split; [unfold takeMsg in ET; eapply take_zombie; eauto|]. split; [exact I'|]. split; [lia|].
  rewrite Forall_forall in *. intros x K. unfold newE. unfold pending in K. apply in_app_or in K.
  destruct K as [K|K].
  - apply NW. unfold pending. apply in_or_app. left. apply RF, K.
  - destruct (RQ x K) as [K1|K1]; [|lia]. apply NW. unfold pending. apply in_or_app. right. exact K1.
Qed.

Lemma polls_new n0 : forall n s t,
  zombie s = false -> INV s -> (n0 <= nxt s)%nat -> Forall (newE n0) (pending s) ->
  Forall (newE n0) (pending (polls s t n)).
Proof.
  induction n as [|n IH]; intros s t ZS I N0 NW; simpl; [exact NW|].
  destruct (poll_new n0 s (t + 1) ZS I N0 NW) as [Z1 [I1 [N1 NW1]]]. apply IH; auto.
Qed.

Lemma Psi_zero s now : Psi s now <= 0 -> pending s = [].
Proof.
  unfold Psi, P_, wT, wJ, C_. pose proof T_nonneg. pose proof J_nonneg. intro HB.
  destruct (pending s) as [|e r]; [reflexivity|]. exfalso. simpl length in HB.
  assert (0 < Z.of_nat (S (length r))) by lia. nia.
Qed.

(* after Psi polls nothing that was pending is pending any more *)
Theorem drain_under_polling n0 : forall n s t,
  zombie s = false -> INV s -> Forall (oldE n0) (pending s) -> (n0 <= nxt s)%nat ->
  Psi s (t + 1) <= Z.of_nat n ->
  Forall (newE n0) (pending (polls s t n)).
Proof.
  induction n as [|n IH]; intros s t ZS I OL N0 B; simpl.
  - rewrite (Psi_zero _ _ B). constructor.
  - destruct (takeMsg c filt s (t + 1)) as [s' evs] eqn:ET. simpl.
    pose proof (Q_takeMsg c filt _ _ _ _ ET I) as [I' [[NX _] _]].
    unfold takeMsg in ET. destruct (take_live n0 _ _ _ _ _ ZS I OL N0 ET) as [Z1 [[DEC OL1]|NW]].
    + apply IH; auto; lia.
    + apply polls_new; auto. lia.
Qed.
End WithCfg.

(* for a state reached by any history: everything pending in it has stamp < nxt *)
Theorem delivery_under_polling c filt :
  (forall m dt, filt m = FDrop dt -> dt = 0) ->
  forall ops s evs0, run_from c filt st0 ops = (s, evs0) -> zombie s = false ->
  forall t n, Psi c s (t + 1) <= Z.of_nat n ->
  forall e, In e (pending s) -> ~ In e (pending (polls c filt s t n)).
Proof.
  intros ST ops s evs0 HR ZS t n B e IN K.
  pose proof (INV_run c filt _ _ _ HR) as I.
  assert (OL : Forall (oldE (nxt s)) (pending s)).
  { destruct I as [_ [_ [_ [Bf [Bh [Bn [Bl _]]]]]]]. unfold pending, qpending, oldE.
    repeat (apply Forall_app; split); assumption. }
  pose proof (drain_under_polling c filt ST (nxt s) n s t ZS I OL (le_n _) B) as NW.
  rewrite Forall_forall in OL, NW. specialize (OL _ IN). specialize (NW _ K). unfold oldE, newE in *. lia.
Qed.

(* non-vacuity: rateLimit.join 5, three JOINs queued, polled once a second from
   t = 5: the bound is 21 polls; after 10 polls the third JOIN is still held
   back, after 21 nothing is pending *)
Definition l_cfg : cfg := Cfg 0 5 false false 120 false.
Definition l_join (i : Z) : msg := Msg i gen.T19.JOIN_CMD i 0%N 0 true.
Definition l_state : st :=
  fst (run_from l_cfg (fun _ => FPass) st0
         [Reset 1; Take 2; Take 3; Take 4; Connect; Queue (l_join 5); Queue (l_join 6); Queue (l_join 7)]).
Example polling_releases_joins :
  Psi l_cfg l_state 5 = 21 /\ length (pending (polls l_cfg (fun _ => FPass) l_state 4 10)) = 1%nat
  /\ pending (polls l_cfg (fun _ => FPass) l_state 4 21) = [].
Proof. vm_compute. auto. Qed.
