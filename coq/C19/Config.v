(* C19/Config.v — settings may change between calls: every call runs under the
   configuration in force when it is made (takeMsg/enqueue/dequeue read the
   registry at call time).  The trace theorems extend to such histories and the
   spacing clauses hold per call for the values in force at that call. *)
From Coq Require Import List NArith ZArith Bool Lia Permutation.
Import ListNotations.
Require Import Base.Wire Base.PyStr C19.Model C19.Spec C19.Ledger C19.Order C19.Rate C19.Encode.
Open Scope Z_scope.

Section X.
Variable filt : msg -> fres.

Lemma run_x_compose (Q : st -> list event -> st -> Prop) :
  (forall s, Q s [] s) ->
  (forall c s o s' evs, step c filt s o = (s', evs) -> Q s evs s') ->
  (forall s e1 s1 e2 s2, Q s e1 s1 -> Q s1 e2 s2 -> Q s (e1 ++ e2) s2) ->
  forall xs c s c' s' evs, run_x filt c s xs = (c', s', evs) -> Q s evs s'.
Proof.
  intros HR HS HT. induction xs as [|x r IH]; intros c s c' s' evs; simpl.
  - intro H; inversion H; subst. apply HR.
  - destruct x as [o|k v].
    + destruct (step c filt s o) as [s1 e1] eqn:ES.
      destruct (run_x filt c s1 r) as [[c2 s2] e2] eqn:ER. intro H; inversion H; subst.
      eapply HT; [eapply HS; eauto | eapply IH; eauto].
    + apply IH.
Qed.

Theorem ledger_x xs c c' s' evs :
  run_x filt c st0 xs = (c', s', evs) ->
  Permutation (accepted evs) (delivered evs ++ dropped evs ++ unsendable evs ++ flushed evs ++ pending s')
  /\ NoDup (map fst (delivered evs ++ dropped evs ++ unsendable evs ++ flushed evs ++ pending s'))
  /\ Forall (ev_sound filt) evs.
Proof.
  intro H.
  assert (HP : P st0 evs s').
  { revert H. apply run_x_compose; [apply P_refl | intros; eapply P_step; eauto | apply P_trans]. }
  assert (L : Permutation (accepted evs) (delivered evs ++ dropped evs ++ unsendable evs ++ flushed evs ++ pending s')).
  { destruct HP as [L _]. apply cnt_perm. intro y. specialize (L y). rewrite loss_split in L.
    change (pending st0) with (@nil entry) in L. cnt_norm. lia. }
  split; [exact L|]. split.
  - destruct HP as [_ [A _]]. eapply Permutation_NoDup; [apply Permutation_map; exact L|].
    rewrite A. apply seq_NoDup.
  - revert H. apply (run_x_compose (fun _ evs _ => Forall (ev_sound filt) evs));
      [intro; constructor | intros c0 s o s1 e1 K; exact (S_step c0 filt _ _ _ _ K) | intros; apply Forall_app; auto].
Qed.

Lemma INV_run_x xs c c' s evs : run_x filt c st0 xs = (c', s, evs) -> INV s.
Proof.
  intro H.
  assert (X : INV st0 -> INV s).
  { revert H. apply (run_x_compose (fun s0 _ s1 => INV s0 -> INV s1)); auto.
    intros c0 s0 o s1 e1 K I. exact (proj1 (QS_step c0 filt _ _ _ _ K I)). }
  apply X, INV_st0.
Qed.

(* priority and FIFO at a call made in a state reached with settings changing on the way *)
Theorem took_in_order_x xs c0 c s evs0 o s' evs f e now :
  run_x filt c0 st0 xs = (c, s, evs0) -> step c filt s o = (s', evs) ->
  In (Took f e now) evs -> took_ok f e s'.
Proof.
  intros HR HS HI. apply INV_run_x in HR. destruct (QS_step c filt _ _ _ _ HS HR) as [_ T]. eapply T; eauto.
Qed.

(* the spacing clauses, per call, for the values in force at that call: every
   release from the queue is more than throttleTime after the last release
   attempt (lastTake), every JOIN released at least rateLimit.join after the last one *)
Theorem spacing_in_force xs c0 c s evs0 o s' evs :
  0 <= c_throttle c -> join_is_low = true ->
  run_x filt c0 st0 xs = (c, s, evs0) -> step c filt s o = (s', evs) ->
  throttle_ok (c_throttle c) (Some (lastTake s)) evs = true
  /\ joinrate_ok (c_join c) (Some (lastJoin s)) evs = true.
Proof.
  intros T J HR HS. apply INV_run_x in HR.
  destruct (TJ_step c filt T J _ _ _ _ HS HR) as [_ K].
  destruct (K (Some (lastTake s)) (Some (lastJoin s))) as [lt' [lj' [_ [_ E]]]]; [simpl; lia | simpl; reflexivity|].
  destruct (E []) as [X Y]. rewrite app_nil_r in *. rewrite X, Y. split; reflexivity.
Qed.
End X.
