(* C19/Rate.v — throttle and JOIN-rate spacing along a whole history. *)
From Coq Require Import List NArith ZArith Bool Lia.
Import ListNotations.
Require Import Base.Wire Base.PyStr C19.Model C19.Spec C19.Ledger C19.Order.
Open Scope Z_scope.

Definition inert (ev : event) : bool :=
  match ev with Took FromQueue _ _ => false | Flushed _ => false | _ => true end.

Lemma skip_thr thr evs : forallb inert evs = true ->
  forall last rest, throttle_ok thr last (evs ++ rest) = throttle_ok thr last rest.
Proof.
  induction evs as [|ev r IH]; simpl; intros H last rest; [reflexivity|].
  apply andb_prop in H. destruct H as [H1 H2].
  destruct ev; try discriminate; try (apply IH; exact H2).
  destruct f; try discriminate. apply IH; exact H2.
Qed.
Lemma skip_join lim evs : forallb inert evs = true ->
  forall last rest, joinrate_ok lim last (evs ++ rest) = joinrate_ok lim last rest.
Proof.
  induction evs as [|ev r IH]; simpl; intros H last rest; [reflexivity|].
  apply andb_prop in H. destruct H as [H1 H2].
  destruct ev; try discriminate; try (apply IH; exact H2).
  destruct f; try discriminate. apply IH; exact H2.
Qed.

Section WithCfg.
Variable c : cfg.
Variable filt : msg -> fres.
Hypothesis thr_nonneg : 0 <= c_throttle c.
Hypothesis JL : join_is_low = true.

Definition linkT (last : option Z) (s : st) : Prop :=
  match last with Some t => t <= lastTake s | None => True end.
Definition linkJ (last : option Z) (s : st) : Prop :=
  match last with Some t => lastJoin s = t | None => True end.

Definition TJ (s : st) (evs : list event) (s' : st) : Prop :=
  INV s -> INV s' /\
  forall lt lj, linkT lt s -> linkJ lj s ->
  exists lt' lj', linkT lt' s' /\ linkJ lj' s' /\
    forall rest, throttle_ok (c_throttle c) lt (evs ++ rest) = throttle_ok (c_throttle c) lt' rest
              /\ joinrate_ok (c_join c) lj (evs ++ rest) = joinrate_ok (c_join c) lj' rest.

Lemma TJ_refl s : TJ s [] s.
Proof. intro I. split; [exact I|]. intros lt lj A B. exists lt, lj. auto. Qed.

Lemma TJ_trans s e1 s1 e2 s2 : TJ s e1 s1 -> TJ s1 e2 s2 -> TJ s (e1 ++ e2) s2.
Proof.
  intros T1 T2 I. destruct (T1 I) as [I1 K1]. destruct (T2 I1) as [I2 K2]. split; [exact I2|].
  intros lt lj A B. destruct (K1 lt lj A B) as [lt1 [lj1 [A1 [B1 E1]]]].
  destruct (K2 lt1 lj1 A1 B1) as [lt2 [lj2 [A2 [B2 E2]]]].
  exists lt2, lj2. split; [exact A2|]. split; [exact B2|].
  intro rest. rewrite <- app_assoc. destruct (E1 (e2 ++ rest)) as [X1 Y1]. destruct (E2 rest) as [X2 Y2].
  split; congruence.
Qed.

(* a step that leaves lastTake/lastJoin alone and emits only inert events *)
Lemma TJ_inert s evs s' : INV s' -> lastTake s' = lastTake s -> lastJoin s' = lastJoin s ->
  forallb inert evs = true -> TJ s evs s'.
Proof.
  intros I' ET EJ IN _. split; [exact I'|]. intros lt lj A B. exists lt, lj.
  split; [destruct lt; simpl in *; lia|]. split; [destruct lj; simpl in *; congruence|].
  intro rest. split; [apply skip_thr | apply skip_join]; exact IN.
Qed.

Lemma idle_shape s evs0 s' evs : idle s evs0 = (s', evs) -> forallb inert evs0 = true ->
  forallb inert evs = true /\ lastTake s' = lastTake s /\ lastJoin s' = lastJoin s /\ (INV s -> INV s').
Proof.
  unfold idle. intros H IN. destruct (zombie s && negb (fast_nonempty s) && negb (queue_nonempty s)); inversion H; subst.
  - rewrite forallb_app, IN. destruct s; cbn. auto.
  - auto.
Qed.

Lemma enqueue_shape s m s' evs : enqueue c s m = (s', evs) ->
  forallb inert evs = true /\ lastTake s' = lastTake s /\ lastJoin s' = lastJoin s.
Proof.
  unfold enqueue. destruct (q_contains s m && c_dup c).
  - intro H; inversion H; subst. auto.
  - destruct s; cbn. destruct (classify (mcmd m)); intro H; inversion H; subst; cbn; auto.
Qed.

Lemma queueMsg_shape s m s' evs : queueMsg c s m = (s', evs) ->
  forallb inert evs = true /\ lastTake s' = lastTake s /\ lastJoin s' = lastJoin s.
Proof.
  unfold queueMsg. destruct (zombie s); [intro H; inversion H; subst; auto | apply enqueue_shape].
Qed.

Lemma sendMsg_shape s m s' evs : sendMsg s m = (s', evs) ->
  forallb inert evs = true /\ lastTake s' = lastTake s /\ lastJoin s' = lastJoin s.
Proof.
  unfold sendMsg. destruct s; cbn. destruct zombie; intro H; inversion H; subst; cbn; auto.
Qed.

Lemma join_low e : is_join e = true -> ecls e = Low.
Proof.
  unfold is_join, ecls. intro H. apply seq_eqb_eq in H. rewrite H.
  unfold join_is_low in JL. destruct (classify gen.T19.JOIN_CMD); congruence.
Qed.

Lemma dequeue_rate now s s2 r : dequeue c now s = (s2, r) -> INV s ->
  lastTake s2 = lastTake s /\
  match r with
  | Some e => if is_join e then lastJoin s + c_join c <= now /\ lastJoin s2 = now
              else lastJoin s2 = lastJoin s
  | None => lastJoin s2 = lastJoin s
  end.
Proof.
  unfold dequeue. destruct s as [h n l lj f lt lp z ac op dd nx]. unfold INV. cbn.
  intros H [Ih [In_ [Il _]]].
  destruct h as [|e h'].
  2:{ inversion H; subst; cbn. split; [reflexivity|]. inversion Ih; subst.
      destruct (is_join e) eqn:EJ; [|reflexivity]. apply join_low in EJ. congruence. }
  destruct n as [|e n'].
  2:{ inversion H; subst; cbn. split; [reflexivity|]. inversion In_; subst.
      destruct (is_join e) eqn:EJ; [|reflexivity]. apply join_low in EJ. congruence. }
  destruct l as [|e l'].
  { inversion H; subst; cbn. auto. }
  destruct (is_join e) eqn:EJ; [destruct (lj + c_join c <=? now) eqn:EL|]; inversion H; subst; cbn.
  - rewrite EJ. apply Z.leb_le in EL. auto.
  - auto.
  - rewrite EJ. auto.
Qed.

Lemma TJ_take_body s now s1 evs r : take_body c filt s now = (s1, evs, r) -> TJ s evs s1.
Proof.
  intros HB I. pose proof (Q_take_body c filt _ _ _ _ _ HB I) as [I1 _]. split; [exact I1|].
  revert HB. unfold take_body.
  destruct (fast s) as [|e fr] eqn:EF.
  - destruct (queue_nonempty s) eqn:EQ.
    + destruct (now - lastTake s <=? c_throttle c) eqn:ET.
      * destruct (idle s []) as [s2 ev2] eqn:EI. intro H; inversion H; subst.
        destruct (idle_shape _ _ _ _ EI eq_refl) as [A [B [C _]]].
        apply (TJ_inert s evs s1 I1 B C A I).
      * apply Z.leb_gt in ET.
        destruct (dequeue c now (set_lastTake s now)) as [s2 [e|]] eqn:ED.
        -- intros H lt lj A B.
           assert (I0 : INV (set_lastTake s now)) by (destruct s; unf; exact I).
           destruct (dequeue_rate _ _ _ _ ED I0) as [LT LJ].
           assert (LT' : lastTake s2 = now) by (rewrite LT; destruct s; reflexivity).
           assert (LJ0 : lastJoin (set_lastTake s now) = lastJoin s) by (destruct s; reflexivity).
           rewrite LJ0 in LJ.
           assert (s1 = s2 /\ exists tl, evs = Took FromQueue e now :: tl /\ forallb inert tl = true).
           { apply finish_cases in H. destruct H as [-> [x [-> K0]]]. split; [reflexivity|].
             eexists; split; [reflexivity|].
             destruct K0 as [[? [-> _]]|[[? [-> _]]|[? [-> _]]]]; reflexivity. }
           destruct H0 as [-> [tl [-> IT]]].
           exists (Some now), (if is_join e then Some now else lj).
           split; [simpl; lia|]. split.
           { destruct (is_join e); simpl; [tauto|]. destruct lj; simpl in *; congruence. }
           intro rest. simpl. repeat rewrite (skip_thr _ _ IT). repeat rewrite (skip_join _ _ IT). split.
           ++ destruct lt as [t|]; [|reflexivity]. simpl in A.
              replace (c_throttle c <? now - t) with true; [reflexivity|]. symmetry. apply Z.ltb_lt. lia.
           ++ destruct (is_join e); [|reflexivity]. destruct lj as [t|]; [|reflexivity]. simpl in B.
              replace (t + c_join c <=? now) with true; [reflexivity|]. symmetry. apply Z.leb_le. lia.
        -- destruct (idle s2 []) as [s3 ev3] eqn:EI. intro H; inversion H; subst.
           assert (I0 : INV (set_lastTake s now)) by (destruct s; unf; exact I).
           destruct (dequeue_rate _ _ _ _ ED I0) as [LT LJ].
           assert (LT' : lastTake s2 = now) by (rewrite LT; destruct s; reflexivity).
           assert (LJ0 : lastJoin (set_lastTake s now) = lastJoin s) by (destruct s; reflexivity).
           rewrite LJ0 in LJ.
           destruct (idle_shape _ _ _ _ EI eq_refl) as [A [B [C _]]].
           intros lt lj A0 B0. exists lt, lj.
           split; [destruct lt; simpl in *; lia|]. split; [destruct lj; simpl in *; congruence|].
           intro rest. split; [apply skip_thr | apply skip_join]; exact A.
    + destruct (afterConnect s && c_ping c && (lastping s + c_interval c <? now)).
      * destruct (outPing s).
        -- destruct (idle s [Reconnect]) as [s2 ev2] eqn:EI. intro H; inversion H; subst.
           destruct (idle_shape _ _ _ _ EI eq_refl) as [A [B [C _]]].
           apply (TJ_inert s evs s1 I1 B C A I).
        -- destruct (negb (zombie s)).
           ++ destruct (queueMsg c (set_ping s now true) (internal c_PING now)) as [s2 ev2] eqn:EQM.
              destruct (idle s2 ev2) as [s3 ev3] eqn:EI. intro H; inversion H; subst.
              destruct (queueMsg_shape _ _ _ _ EQM) as [A0 [B0 C0]].
              destruct (idle_shape _ _ _ _ EI A0) as [A [B [C _]]].
              assert (lastTake s1 = lastTake s) by (rewrite B, B0; destruct s; reflexivity).
              assert (lastJoin s1 = lastJoin s) by (rewrite C, C0; destruct s; reflexivity).
              apply (TJ_inert s evs s1 I1 H0 H1 A I).
           ++ destruct (idle s []) as [s2 ev2] eqn:EI. intro H; inversion H; subst.
              destruct (idle_shape _ _ _ _ EI eq_refl) as [A [B [C _]]].
              apply (TJ_inert s evs s1 I1 B C A I).
      * destruct (idle s []) as [s2 ev2] eqn:EI. intro H; inversion H; subst.
        destruct (idle_shape _ _ _ _ EI eq_refl) as [A [B [C _]]].
        apply (TJ_inert s evs s1 I1 B C A I).
  - intro H.
    assert (s1 = set_fast s fr /\ forallb inert evs = true).
    { apply finish_cases in H. destruct H as [-> [x [-> K0]]]. split; [reflexivity|].
      destruct K0 as [[? [-> _]]|[[? [-> _]]|[? [-> _]]]]; reflexivity. }
    destruct H0 as [-> IN].
    apply (TJ_inert s evs (set_fast s fr) I1); auto; destruct s; reflexivity.
Qed.

Lemma TJ_takeMsg s now s' evs : takeMsg c filt s now = (s', evs) -> TJ s evs s'.
Proof. unfold takeMsg. apply take_compose; [apply TJ_take_body | apply TJ_trans]. Qed.

Lemma send_all_shape ms : forall s acc s' evs,
  fold_left (fun acc m => let '(s1, evs) := sendMsg (fst acc) m in (s1, snd acc ++ evs)) ms (s, acc) = (s', evs) ->
  forallb inert acc = true ->
  forallb inert evs = true /\ lastTake s' = lastTake s /\ lastJoin s' = lastJoin s.
Proof.
  induction ms as [|m r IH]; intros s acc s' evs; simpl.
  - intros H A; inversion H; subst. auto.
  - destruct (sendMsg s m) as [s1 e1] eqn:ES. intros H A.
    destruct (sendMsg_shape _ _ _ _ ES) as [A1 [B1 C1]].
    apply IH in H; [|rewrite forallb_app, A, A1; reflexivity].
    destruct H as [A2 [B2 C2]]. repeat split; congruence.
Qed.

Lemma TJ_step s o s' evs : step c filt s o = (s', evs) -> TJ s evs s'.
Proof.
  intros HS I. pose proof (QS_step c filt _ _ _ _ HS I) as [I' _]. revert HS I.
  unfold step. destruct (dead s).
  { intros H I0; inversion H; subst. apply TJ_refl; auto. }
  destruct o.
  - intros H. destruct (queueMsg_shape _ _ _ _ H) as [A [B C]]. apply TJ_inert; auto.
  - intros H. destruct (sendMsg_shape _ _ _ _ H) as [A [B C]]. apply TJ_inert; auto.
  - apply TJ_takeMsg.
  - unfold die. intros H. apply TJ_inert; auto;
      destruct s as [h n l lj f lt lp z ac op dd nx]; cbn in H; destruct ac; inversion H; subst; reflexivity.
  - unfold reset. intros H I0. split; [exact I'|]. intros lt lj _ _. exists None, None.
    split; [exact Logic.I|]. split; [exact Logic.I|].
    change (zombie (St [] [] [] 0 [] 0 now (zombie s) false false (dead s) (nxt s))) with (zombie s) in H.
    destruct (zombie s).
    + inversion H; subst. intro rest. simpl. auto.
    + destruct (send_all _ (connect_msgs c)) as [s2 ev2] eqn:EF. inversion H; subst.
      unfold send_all in EF. apply send_all_shape in EF; [|reflexivity]. destruct EF as [A _].
      intro rest. simpl. rewrite (skip_thr _ _ A), (skip_join _ _ A). auto.
  - intros H. inversion H; subst. apply TJ_inert; auto; destruct s; reflexivity.
  - intros H. inversion H; subst. apply TJ_inert; auto; destruct s; reflexivity.
Qed.

Lemma TJ_run ops s s' evs : run_from c filt s ops = (s', evs) -> TJ s evs s'.
Proof. apply run_compose; [apply TJ_refl | apply TJ_step | apply TJ_trans]. Qed.

Theorem throttle_joinrate ops s' evs :
  run_from c filt st0 ops = (s', evs) ->
  throttle_ok (c_throttle c) None evs = true /\ joinrate_ok (c_join c) None evs = true.
Proof.
  intro H. apply TJ_run in H. destruct (H INV_st0) as [_ K].
  destruct (K None None Logic.I Logic.I) as [lt' [lj' [_ [_ E]]]].
  destruct (E []) as [X Y]. rewrite app_nil_r in *. rewrite X, Y. split; reflexivity.
Qed.
End WithCfg.
