(* C19/Order.v — priority between classes and FIFO within a class. *)
From Coq Require Import List NArith ZArith Bool Lia.
Import ListNotations.
Require Import Base.Wire Base.PyStr C19.Model C19.Spec C19.Ledger.
Open Scope nat_scope.

(* x before y in the list and y not a JOIN  ==>  x was stamped before y *)
Fixpoint ord (l : list entry) : Prop :=
  match l with
  | [] => True
  | x :: r => Forall (fun y => is_join y = false -> fst x < fst y) r /\ ord r
  end.
Definition bounded (n : nat) (l : list entry) : Prop := Forall (fun e => fst e < n) l.

Lemma bounded_mono n n' l : bounded n l -> n <= n' -> bounded n' l.
Proof. intros H L. eapply Forall_impl; [|exact H]. simpl. intros; lia. Qed.

Lemma ord_snoc l n m : ord l -> bounded n l -> ord (l ++ [(n, m)]).
Proof.
  induction l as [|x r IH]; simpl; intros O B.
  - split; constructor.
  - destruct O as [F O]. inversion B; subst. split; [|auto].
    apply Forall_app. split; [exact F|]. constructor; [|constructor]. simpl. intros; lia.
Qed.

Lemma ord_rot r x : ord r -> is_join x = true -> ord (r ++ [x]).
Proof.
  induction r as [|y r IH]; simpl; intros O J.
  - split; constructor.
  - destruct O as [F O]. split; [|auto]. apply Forall_app. split; [exact F|].
    constructor; [|constructor]. intro H. congruence.
Qed.

Definition INV (s : st) : Prop :=
  Forall (fun e => ecls e = High) (hi s) /\ Forall (fun e => ecls e = Normal) (no s)
  /\ Forall (fun e => ecls e = Low) (lo s)
  /\ bounded (nxt s) (fast s) /\ bounded (nxt s) (hi s) /\ bounded (nxt s) (no s) /\ bounded (nxt s) (lo s)
  /\ ord (fast s) /\ ord (hi s) /\ ord (no s) /\ ord (lo s).

(* what a later part of the same takeMsg call may do to the queues *)
Definition R (s s' : st) : Prop :=
  nxt s <= nxt s' /\ incl (fast s') (fast s)
  /\ forall e', In e' (qpending s') -> In e' (qpending s) \/ nxt s <= fst e'.

(* what holds for an entry taken from source f, in the state the call ends in *)
Definition took_ok (f : src) (e : entry) (s' : st) : Prop :=
  match f with
  | FromFast => forall e', In e' (fast s') -> is_join e' = false -> fst e < fst e'
  | FromQueue =>
      fast s' = [] /\
      forall e', In e' (qpending s') ->
        (fst e' < fst e -> rank (ecls e) <= rank (ecls e'))
        /\ (ecls e' = ecls e -> is_join e' = false -> fst e < fst e')
  end.

Definition Q (s : st) (evs : list event) (s' : st) : Prop :=
  INV s -> INV s' /\ R s s' /\
  forall f e now, In (Took f e now) evs -> fst e < nxt s' /\ took_ok f e s'.

Lemma R_refl s : R s s.
Proof. repeat split; auto using incl_refl. Qed.

Lemma Q_trans s e1 s1 e2 s2 : Q s e1 s1 -> Q s1 e2 s2 -> Q s (e1 ++ e2) s2.
Proof.
  intros Q1 Q2 I. destruct (Q1 I) as [I1 [[N1 [F1 O1]] T1]]. destruct (Q2 I1) as [I2 [[N2 [F2 O2]] T2]].
  split; [exact I2|]. split.
  - split; [lia|]. split; [eapply incl_tran; eauto|].
    intros e' H. destruct (O2 e' H) as [H1|H1]; [|right; lia].
    destruct (O1 e' H1); [left; auto | right; lia].
  - intros f e now H. apply in_app_or in H. destruct H as [H|H]; [|apply T2 in H; exact H].
    apply T1 in H. destruct H as [B K]. split; [lia|].
    destruct f; simpl in *.
    + intros e' H1 J. apply K; auto.
    + destruct K as [K0 K]. split.
      * rewrite K0 in F2. destruct (fast s2); [reflexivity|]. exfalso. apply (F2 e0). left; reflexivity.
      * intros e' H1. destruct (O2 e' H1) as [H2|H2]; [apply K; exact H2|]. split; intros; lia.
Qed.

Lemma in_app3 (e : entry) a b d : In e (a ++ b ++ d) -> In e a \/ In e b \/ In e d.
Proof. intro H. apply in_app_or in H. destruct H; auto. apply in_app_or in H. destruct H; auto. Qed.

Lemma Forall_In {A} (Pp : A -> Prop) l x : Forall Pp l -> In x l -> Pp x.
Proof. intros H I. rewrite Forall_forall in H. auto. Qed.

Ltac unf := unfold INV, R, qpending in *; cbn in *.
Ltac rrefl := unf; repeat split; auto using incl_refl.

Lemma Forall_snoc {A} (Pp : A -> Prop) l x : Forall Pp l -> Pp x -> Forall Pp (l ++ [x]).
Proof. intros. apply Forall_app; split; auto. Qed.

Section WithCfg.
Variable c : cfg.
Variable filt : msg -> fres.

Lemma Q_noop s evs s' : INV s' -> R s s' -> (forall f e now, ~ In (Took f e now) evs) -> Q s evs s'.
Proof. intros I Rr N _. split; [exact I|]. split; [exact Rr|]. intros f e now H. exfalso. eapply N; eauto. Qed.

Lemma Q_idle s evs0 s' evs : idle s evs0 = (s', evs) ->
  (forall f e now, ~ In (Took f e now) evs0) -> Q s evs s'.
Proof.
  unfold idle. intros H N I.
  destruct (zombie s && negb (fast_nonempty s) && negb (queue_nonempty s)); inversion H; subst; clear H.
  - split; [destruct s; unf; exact I|]. split; [destruct s; rrefl|].
    intros f e now H. apply in_app_or in H. destruct H as [H|[H|[]]]; [exfalso; eapply N; eauto | discriminate].
  - split; [exact I|]. split; [apply R_refl|]. intros f e now H. exfalso; eapply N; eauto.
Qed.

Lemma INV_enqueue s m s' evs : enqueue c s m = (s', evs) -> INV s ->
  INV s' /\ R s s' /\ fast s' = fast s /\ (forall f e now, ~ In (Took f e now) evs).
Proof.
  unfold enqueue. destruct s as [h n l lj f lt lp z ac op dd nx]. unfold INV, R, qpending. cbn.
  destruct (q_contains _ _ && c_dup c).
  - intros H I; inversion H; subst. cbn. repeat split; try tauto; auto using incl_refl.
    intros ? ? ? [K|[]]; discriminate.
  - intros H [Ih [In_ [Il [Bf [Bh [Bn [Bl [Of [Oh [On Ol]]]]]]]]]].
    assert (forall x, bounded nx x -> bounded (S nx) x) by (intros; eapply bounded_mono; eauto).
    assert (NT : forall f0 e0 now0, ~ In (Took f0 e0 now0) [Accepted FromQueue (nx, m)]) by (intros ? ? ? [K|[]]; discriminate).
    unfold ecls in *.
    destruct (classify (mcmd m)) eqn:EC; inversion H; subst; cbn;
      (split; [repeat split; auto; try (apply ord_snoc; auto);
                unfold bounded in *; (apply Forall_snoc; [auto | cbn; first [exact EC | lia]])
              | split; [split; [lia|]; split; [apply incl_refl|];
                        intros e' K; apply in_app3 in K;
                        repeat (rewrite ?in_app_iff in *; cbn in * ); intuition (subst; cbn; auto)
                       | split; [reflexivity | exact NT]]]).
Qed.

Lemma Q_queueMsg s m s' evs : queueMsg c s m = (s', evs) -> Q s evs s'.
Proof.
  unfold queueMsg. destruct (zombie s).
  - intro H; inversion H; subst. intro I. split; [exact I|]. split; [apply R_refl|].
    intros ? ? ? [K|[]]; discriminate.
  - intros H I. destruct (INV_enqueue _ _ _ _ H I) as [I' [Rr [_ N]]].
    split; [exact I'|]. split; [exact Rr|]. intros f e now K. exfalso; eapply N; eauto.
Qed.

(* dequeue from a state whose fastqueue is empty *)
Lemma Q_dequeue now s s' r : dequeue c now s = (s', r) -> INV s -> fast s = [] ->
  INV s' /\ R s s' /\
  match r with Some e => fst e < nxt s' /\ took_ok FromQueue e s' | None => True end.
Proof.
  unfold dequeue. destruct s as [h n l lj f lt lp z ac op dd nx]. unfold INV, R, took_ok, qpending. cbn.
  intros H [Ih [In_ [Il [Bf [Bh [Bn [Bl [Of [Oh [On Ol]]]]]]]]]] EF. subst f.
  destruct h as [|e h'].
  2:{ inversion H; subst; cbn. inversion Ih; subst. inversion Bh; subst. destruct Oh as [Oh1 Oh2].
      split; [repeat split; auto|]. split.
      - split; [lia|]. split; [apply incl_refl|]. intros e' K. left. right. exact K.
      - split; [assumption|]. split; [reflexivity|]. intros e' K. split.
        + intros _. rewrite H2. simpl. lia.
        + intros EC J. apply in_app3 in K. destruct K as [K|[K|K]].
          * eapply (Forall_In _ _ _ Oh1 K); auto.
          * pose proof (Forall_In _ _ _ In_ K) as X. simpl in X. congruence.
          * pose proof (Forall_In _ _ _ Il K) as X. simpl in X. congruence. }
  destruct n as [|e n'].
  2:{ inversion H; subst; cbn. inversion In_; subst. inversion Bn; subst. destruct On as [On1 On2].
      split; [repeat split; auto|]. split.
      - split; [lia|]. split; [apply incl_refl|]. intros e' K. left. right. exact K.
      - split; [assumption|]. split; [reflexivity|]. intros e' K. split.
        + intros _. rewrite H2. simpl in K. apply in_app_or in K. destruct K as [K|K].
          * rewrite (Forall_In _ _ _ H3 K). simpl. lia.
          * rewrite (Forall_In _ _ _ Il K). simpl. lia.
        + intros EC J. simpl in K. apply in_app_or in K. destruct K as [K|K].
          * eapply (Forall_In _ _ _ On1 K); auto.
          * pose proof (Forall_In _ _ _ Il K) as X. simpl in X. congruence. }
  destruct l as [|e l'].
  { inversion H; subst; cbn. split; [repeat split; auto|]. split; [|exact Logic.I].
    split; [lia|]. split; [apply incl_refl|]. intros e' []. }
  inversion Il; subst. inversion Bl; subst. destruct Ol as [Ol1 Ol2].
  assert (TK : forall e', In e' ([] ++ [] ++ l') ->
       (fst e' < fst e -> rank (ecls e) <= rank (ecls e')) /\
       (ecls e' = ecls e -> is_join e' = false -> fst e < fst e')).
  { intros e' K. simpl in K. split.
    - intros _. rewrite H2, (Forall_In _ _ _ H3 K). simpl. lia.
    - intros _ J. eapply (Forall_In _ _ _ Ol1 K); auto. }
  destruct (is_join e) eqn:EJ; [destruct (lj + c_join c <=? now)%Z|]; inversion H; subst; cbn.
  - split; [repeat split; auto|]. split.
    + split; [lia|]. split; [apply incl_refl|]. intros e' K. left. right. exact K.
    + split; [assumption|]. split; [reflexivity|]. exact TK.
  - split.
    + repeat split; auto.
      * apply Forall_app; split; auto.
      * apply Forall_app; split; auto. 
      * apply ord_rot; auto.
    + split; [|exact Logic.I]. split; [lia|]. split; [apply incl_refl|].
      intros e' K. left. simpl in *. apply in_app_or in K. destruct K as [K|[K|[]]]; auto.
  - split; [repeat split; auto|]. split.
    + split; [lia|]. split; [apply incl_refl|]. intros e' K. left. right. exact K.
    + split; [assumption|]. split; [reflexivity|]. exact TK.
Qed.

Lemma Q_take_body s now s1 evs r : take_body c filt s now = (s1, evs, r) -> Q s evs s1.
Proof.
  unfold take_body.
  destruct (fast s) as [|e fr] eqn:EF.
  - destruct (queue_nonempty s) eqn:EQ.
    + destruct (now - lastTake s <=? c_throttle c)%Z.
      * destruct (idle s []) as [s2 ev2] eqn:EI. intro H; inversion H; subst.
        eapply Q_idle; eauto.
      * destruct (dequeue c now (set_lastTake s now)) as [s2 [e|]] eqn:ED.
        -- intros H I.
           assert (I0 : INV (set_lastTake s now)) by (destruct s; unf; exact I).
           assert (F0 : fast (set_lastTake s now) = []) by (destruct s; unf; exact EF).
           destruct (Q_dequeue _ _ _ _ ED I0 F0) as [I2 [R2 [B2 T2]]].
           assert (R s s2) by (destruct s; unf; exact R2).
           assert (s1 = s2 /\ forall f0 e0 now0, In (Took f0 e0 now0) evs -> f0 = FromQueue /\ e0 = e).
           { apply finish_cases in H. destruct H as [-> [x [-> K0]]]. split; [reflexivity|].
             intros ? ? ? [K|[K|[]]]; [inversion K; auto|].
             destruct K0 as [[? [-> _]]|[[? [-> _]]|[? [-> _]]]]; discriminate. }
           destruct H1 as [-> HT]. split; [exact I2|]. split; [exact H0|].
           intros f0 e0 now0 K. apply HT in K. destruct K as [-> ->]. split; assumption.
        -- destruct (idle s2 []) as [s3 ev3] eqn:EI. intro H; inversion H; subst. intro I.
           assert (I0 : INV (set_lastTake s now)) by (destruct s; unf; exact I).
           assert (F0 : fast (set_lastTake s now) = []) by (destruct s; unf; exact EF).
           destruct (Q_dequeue _ _ _ _ ED I0 F0) as [I2 [R2 _]].
           assert (Rs : R s s2) by (destruct s; unf; exact R2).
           assert (QI : Q s2 evs s1) by (eapply Q_idle; eauto).
           destruct (QI I2) as [I3 [R3 T3]]. split; [exact I3|]. split; [|exact T3].
           destruct Rs as [A1 [A2 A3]]. destruct R3 as [B1 [B2 B3]].
           split; [lia|]. split; [eapply incl_tran; eauto|].
           intros e' K. destruct (B3 e' K) as [K1|K1]; [|right; lia].
           destruct (A3 e' K1); [left; auto | right; lia].
    + destruct (afterConnect s && c_ping c && (lastping s + c_interval c <? now)%Z).
      * destruct (outPing s).
        -- destruct (idle s [Reconnect]) as [s2 ev2] eqn:EI. intro H; inversion H; subst.
           eapply Q_idle; eauto. intros ? ? ? [K|[]]; discriminate.
        -- destruct (negb (zombie s)).
           ++ destruct (queueMsg c (set_ping s now true) (internal c_PING now)) as [s2 ev2] eqn:EQM.
              destruct (idle s2 ev2) as [s3 ev3] eqn:EI. intro H; inversion H; subst. intro I.
              assert (I0 : INV (set_ping s now true)) by (destruct s; unf; exact I).
              unfold queueMsg in EQM.
              assert (NT2 : forall f e now0, ~ In (Took f e now0) ev2 ) .
              { destruct (zombie (set_ping s now true)).
                - inversion EQM; subst. intros ? ? ? [K|[]]; discriminate.
                - destruct (INV_enqueue _ _ _ _ EQM I0) as [_ [_ [_ N]]]. exact N. }
              assert (I2R : INV s2 /\ R s s2).
              { destruct (zombie (set_ping s now true)).
                - inversion EQM; subst. split; [exact I0 | destruct s; rrefl].
                - destruct (INV_enqueue _ _ _ _ EQM I0) as [I2 [R2 _]]. split; [exact I2 | destruct s; unf; exact R2]. }
              destruct I2R as [I2 Rs].
              assert (QI : Q s2 evs s1) by (eapply Q_idle; eauto).
              destruct (QI I2) as [I3 [R3 T3]]. split; [exact I3|]. split; [|exact T3].
              destruct Rs as [A1 [A2 A3]]. destruct R3 as [B1 [B2 B3]].
              split; [lia|]. split; [eapply incl_tran; eauto|].
              intros e' K. destruct (B3 e' K) as [K1|K1]; [|right; lia].
              destruct (A3 e' K1); [left; auto | right; lia].
           ++ destruct (idle s []) as [s2 ev2] eqn:EI. intro H; inversion H; subst.
              eapply Q_idle; eauto.
      * destruct (idle s []) as [s2 ev2] eqn:EI. intro H; inversion H; subst.
        eapply Q_idle; eauto.
  - intros H I.
    assert (s1 = set_fast s fr /\ forall f0 e0 now0, In (Took f0 e0 now0) evs -> f0 = FromFast /\ e0 = e).
    { apply finish_cases in H. destruct H as [-> [x [-> K0]]]. split; [reflexivity|].
      intros ? ? ? [K|[K|[]]]; [inversion K; auto|].
      destruct K0 as [[? [-> _]]|[[? [-> _]]|[? [-> _]]]]; discriminate. }
    destruct H0 as [-> HT].
    destruct s as [h n l lj f lt lp z ac op dd nx]. unfold INV, R, qpending in *. cbn in *. subst f.
    destruct I as [Ih [In_ [Il [Bf [Bh [Bn [Bl [Of [Oh [On Ol]]]]]]]]]].
    inversion Bf; subst. destruct Of as [Of1 Of2].
    split; [repeat split; auto|]. split.
    + split; [lia|]. split; [apply incl_tl, incl_refl|]. intros e' K; left; exact K.
    + intros f0 e0 now0 K. apply HT in K. destruct K as [-> ->]. split; [assumption|].
      simpl. intros e' K J. eapply (Forall_In _ _ _ Of1 K); auto.
Qed.

Lemma Q_takeMsg s now s' evs : takeMsg c filt s now = (s', evs) -> Q s evs s'.
Proof. unfold takeMsg. apply take_compose; [apply Q_take_body | apply Q_trans]. Qed.

(* INV along a history *)
Lemma INV_sendMsg s m s' evs : sendMsg s m = (s', evs) -> INV s ->
  INV s' /\ forall f e now, ~ In (Took f e now) evs.
Proof.
  unfold sendMsg. destruct s as [h n l lj f lt lp z ac op dd nx]. unfold INV. cbn.
  destruct z; intros H I; inversion H; subst; cbn.
  - split; [exact I|]. intros ? ? ? [K|[]]; discriminate.
  - destruct I as [Ih [In_ [Il [Bf [Bh [Bn [Bl [Of [Oh [On Ol]]]]]]]]]].
    assert (forall x, bounded nx x -> bounded (S nx) x) by (intros; eapply bounded_mono; eauto).
    split; [|intros ? ? ? [K|[]]; discriminate].
    repeat split; auto; try (apply ord_snoc; auto).
    unfold bounded in *. apply Forall_snoc; [auto | cbn; lia].
Qed.

Lemma INV_send_all ms : forall s acc s' evs,
  fold_left (fun acc m => let '(s1, evs) := sendMsg (fst acc) m in (s1, snd acc ++ evs)) ms (s, acc) = (s', evs) ->
  INV s -> (forall f e now, ~ In (Took f e now) acc) ->
  INV s' /\ forall f e now, ~ In (Took f e now) evs.
Proof.
  induction ms as [|m r IH]; intros s acc s' evs; simpl.
  - intros H I N; inversion H; subst. auto.
  - destruct (sendMsg s m) as [s1 e1] eqn:ES. intros H I N.
    destruct (INV_sendMsg _ _ _ _ ES I) as [I1 N1].
    eapply IH; eauto. intros f e now K. apply in_app_or in K. destruct K; [eapply N | eapply N1]; eauto.
Qed.

Definition QS (s : st) (evs : list event) (s' : st) : Prop :=
  INV s -> INV s' /\ forall f e now, In (Took f e now) evs -> took_ok f e s'.

Lemma QS_step s o s' evs : step c filt s o = (s', evs) -> QS s evs s'.
Proof.
  unfold step, QS. destruct (dead s).
  { intros H I; inversion H; subst. split; [exact I | intros ? ? ? []]. }
  destruct o.
  - intros H I. destruct (Q_queueMsg _ _ _ _ H I) as [I' [_ T]]. split; [exact I'|]. intros; eapply T; eauto.
  - intros H I. destruct (INV_sendMsg _ _ _ _ H I) as [I' N]. split; [exact I'|]. intros f e n K. exfalso; eapply N; eauto.
  - intros H I. destruct (Q_takeMsg _ _ _ _ H I) as [I' [_ T]]. split; [exact I'|]. intros; eapply T; eauto.
  - unfold die. intros H I.
    assert (INV s' /\ forall f e n, ~ In (Took f e n) evs).
    { destruct s as [h n l lj f lt lp z ac op dd nx]. cbn in H. destruct ac; inversion H; subst; (split; [exact I|]).
      - intros ? ? ? [].
      - intros ? ? ? [K|[]]; discriminate. }
    destruct H0 as [I' N]. split; [exact I'|]. intros f e n K. exfalso; eapply N; eauto.
  - unfold reset. intros H I.
    change (zombie (St [] [] [] 0 [] 0 now (zombie s) false false (dead s) (nxt s))) with (zombie s) in H.
    assert (I1 : INV (St [] [] [] 0 [] 0 now (zombie s) false false (dead s) (nxt s))).
    { unfold INV; cbn. repeat split; constructor. }
    assert (INV s' /\ forall f e n, ~ In (Took f e n) evs).
    { destruct (zombie s).
      - inversion H; subst. split; [exact I1|]. intros ? ? ? [K|[K|[]]]; discriminate.
      - destruct (send_all _ (connect_msgs c)) as [s2 ev2] eqn:EF. inversion H; subst.
        unfold send_all in EF. apply INV_send_all in EF; auto.
        destruct EF as [I2 N2]. split; [exact I2|]. intros f e n [K|K]; [discriminate | eapply N2; eauto]. }
    destruct H0 as [I' N]. split; [exact I'|]. intros f e n K. exfalso; eapply N; eauto.
  - intros H I; inversion H; subst. split; [destruct s; unf; exact I | intros ? ? ? []].
  - intros H I; inversion H; subst. split; [destruct s; unf; exact I | intros ? ? ? []].
Qed.

Lemma INV_st0 : INV st0.
Proof. unfold INV; cbn. repeat split; constructor. Qed.

Lemma INV_run ops s evs : run_from c filt st0 ops = (s, evs) -> INV s.
Proof.
  intro H.
  assert (X : INV st0 -> INV s).
  { revert H. generalize st0. revert s evs. 
    induction ops as [|o r IH]; intros s evs s0; simpl.
    - intro H; inversion H; subst; auto.
    - destruct (step c filt s0 o) as [s1 e1] eqn:ES.
      destruct (run_from c filt s1 r) as [s2 e2] eqn:ER. intro H; inversion H; subst.
      intro I. eapply IH; eauto. apply (QS_step _ _ _ _ ES I). }
  apply X, INV_st0.
Qed.

(* ---- the theorems ---- *)
Theorem took_in_order ops s evs0 o s' evs f e now :
  run_from c filt st0 ops = (s, evs0) -> step c filt s o = (s', evs) ->
  In (Took f e now) evs -> took_ok f e s'.
Proof.
  intros HR HS HI. apply INV_run in HR. destruct (QS_step _ _ _ _ HS HR) as [_ T]. eapply T; eauto.
Qed.

Theorem priority ops s evs0 o s' evs e now :
  run_from c filt st0 ops = (s, evs0) -> step c filt s o = (s', evs) ->
  In (Took FromQueue e now) evs ->
  fast s' = [] /\
  forall e', In e' (qpending s') -> fst e' < fst e -> rank (ecls e) <= rank (ecls e').
Proof.
  intros HR HS HI. pose proof (took_in_order _ _ _ _ _ _ _ _ _ HR HS HI) as [F K].
  split; [exact F|]. intros e' H. apply K; exact H.
Qed.

Theorem fifo_in_class ops s evs0 o s' evs f e now :
  run_from c filt st0 ops = (s, evs0) -> step c filt s o = (s', evs) ->
  In (Took f e now) evs ->
  forall e', is_join e' = false ->
    match f with
    | FromFast => In e' (fast s')
    | FromQueue => In e' (qpending s') /\ ecls e' = ecls e
    end -> fst e < fst e'.
Proof.
  intros HR HS HI e' J H. pose proof (took_in_order _ _ _ _ _ _ _ _ _ HR HS HI) as K.
  destruct f; simpl in K.
  - apply K; auto.
  - destruct H as [H1 H2]. destruct K as [_ K]. apply K; auto.
Qed.
End WithCfg.
