(* C19/Model.v — executable model of the send path of src/irclib.py:
   IrcMsgQueue.{enqueue,dequeue,reset} (216-296) and
   Irc.{queueMsg,sendMsg,takeMsg,die,reset,_queueConnectMessages,do376,doPong}
   (1221-1327, 1422-1446, 1526-1538, 2028-2039).
   Mirrors the Python statement by statement, including its defects.
   The clock, the composite outFilter chain and the configuration are inputs.
   Every accepted message is stamped with a ghost sequence number (nxt), used
   only to state the ledger / FIFO theorems.  No proofs in this file. *)
From Coq Require Import List NArith ZArith Bool.
Import ListNotations.
Require Import Base.Wire Base.PyStr.
Require gen.T19.
Open Scope Z_scope.

(* ---- messages ---- *)
(* mid: harness identity (0 for messages the bot makes itself); mcmd/mkey: the
   command and the content (prefix,args) class: IrcMsg.__eq__ compares both;
   mact/mdt: what the concrete filter chain of the harness does to it;
   menc: str(msg) can be encoded as UTF-8 (false: a lone surrogate somewhere):
   the new _truncateMsg encodes the line and raises UnicodeEncodeError otherwise. *)
Record msg := Msg { mid : Z; mcmd : str; mkey : Z; mact : N; mdt : Z; menc : bool }.
Definition entry : Type := (nat * msg)%type.

Definition msg_eqb (a b : msg) : bool :=
  seq_eqb (mcmd a) (mcmd b) && Z.eqb (mkey a) (mkey b) && Bool.eqb (menc a) (menc b).

Inductive cls := High | Normal | Low.
Definition classify_with (hi lo : list str) (c : str) : cls :=
  if existsb (seq_eqb c) hi then High
  else if existsb (seq_eqb c) lo then Low else Normal.
Definition classify (c : str) : cls := classify_with gen.T19.HIGH gen.T19.LOW c.
Definition ecls (e : entry) : cls := classify (mcmd (snd e)).
Definition is_join (e : entry) : bool := seq_eqb (mcmd (snd e)) gen.T19.JOIN_CMD.

Definition c_PING : str := [80; 73; 78; 71]%N.
Definition c_CAP : str := [67; 65; 80]%N.
Definition c_PASS : str := [80; 65; 83; 83]%N.
Definition c_NICK : str := [78; 73; 67; 75]%N.
Definition c_USER : str := [85; 83; 69; 82]%N.
Definition internal (c : str) (k : Z) : msg := Msg 0 c k 0%N 0 true.

(* ---- configuration (conf.supybot.protocols.irc.*, networks.<n>.password) ---- *)
Record cfg := Cfg { c_throttle : Z; c_join : Z; c_dup : bool; c_ping : bool;
                    c_interval : Z; c_pass : bool }.

(* ---- state ---- *)
Record st := St {
  hi : list entry; no : list entry; lo : list entry;   (* IrcMsgQueue *)
  lastJoin : Z;
  fast : list entry;                                   (* Irc.fastqueue *)
  lastTake : Z; lastping : Z;
  zombie : bool; afterConnect : bool; outPing : bool;
  dead : bool;                                         (* driver.die() was called *)
  nxt : nat }.

Definition st0 : st := St [] [] [] 0 [] 0 0 false false false false O.

Definition set_hi s v := St v (no s) (lo s) (lastJoin s) (fast s) (lastTake s) (lastping s) (zombie s) (afterConnect s) (outPing s) (dead s) (nxt s).
Definition set_no s v := St (hi s) v (lo s) (lastJoin s) (fast s) (lastTake s) (lastping s) (zombie s) (afterConnect s) (outPing s) (dead s) (nxt s).
Definition set_lo s v := St (hi s) (no s) v (lastJoin s) (fast s) (lastTake s) (lastping s) (zombie s) (afterConnect s) (outPing s) (dead s) (nxt s).
Definition set_lastJoin s v := St (hi s) (no s) (lo s) v (fast s) (lastTake s) (lastping s) (zombie s) (afterConnect s) (outPing s) (dead s) (nxt s).
Definition set_fast s v := St (hi s) (no s) (lo s) (lastJoin s) v (lastTake s) (lastping s) (zombie s) (afterConnect s) (outPing s) (dead s) (nxt s).
Definition set_lastTake s v := St (hi s) (no s) (lo s) (lastJoin s) (fast s) v (lastping s) (zombie s) (afterConnect s) (outPing s) (dead s) (nxt s).
Definition set_ping s t b := St (hi s) (no s) (lo s) (lastJoin s) (fast s) (lastTake s) t (zombie s) (afterConnect s) b (dead s) (nxt s).
Definition set_zombie s v := St (hi s) (no s) (lo s) (lastJoin s) (fast s) (lastTake s) (lastping s) v (afterConnect s) (outPing s) (dead s) (nxt s).
Definition set_afterConnect s v := St (hi s) (no s) (lo s) (lastJoin s) (fast s) (lastTake s) (lastping s) (zombie s) v (outPing s) (dead s) (nxt s).
Definition set_dead s v := St (hi s) (no s) (lo s) (lastJoin s) (fast s) (lastTake s) (lastping s) (zombie s) (afterConnect s) (outPing s) v (nxt s).
Definition set_nxt s v := St (hi s) (no s) (lo s) (lastJoin s) (fast s) (lastTake s) (lastping s) (zombie s) (afterConnect s) (outPing s) (dead s) v.

Definition qpending (s : st) : list entry := hi s ++ no s ++ lo s.
Definition pending (s : st) : list entry := fast s ++ qpending s.

(* ---- observable events ---- *)
Inductive src := FromFast | FromQueue.
Inductive event :=
| Accepted (f : src) (e : entry)           (* (f: into the fastqueue / into the queue) queueMsg -> True / sendMsg stored / bot's own message stored *)
| Refused (explicit : bool) (m : msg)      (* queueMsg -> False (explicit) / sendMsg on a zombie (silent) *)
| Took (f : src) (e : entry) (now : Z)     (* removed from its queue by takeMsg at clock reading now *)
| Dropped (e : entry)                      (* an outFilter returned None for it *)
| Delivered (e : entry) (out : msg) (now : Z)   (* takeMsg returned out (e after the filters) *)
| Unsendable (e : entry) (out : msg)       (* out has no wire form: _truncateMsg raised UnicodeEncodeError, the
                                              firewall around takeMsg swallowed it, takeMsg returned None *)
| Flushed (l : list entry)                 (* reset() cleared the queues *)
| Reconnect                                (* driver.reconnect() *)
| DriverDie.                               (* driver.die() *)

(* ---- IrcMsgQueue ---- *)
Definition q_contains (s : st) (m : msg) : bool :=
  existsb (fun e => msg_eqb m (snd e)) (no s)
  || existsb (fun e => msg_eqb m (snd e)) (lo s)
  || existsb (fun e => msg_eqb m (snd e)) (hi s).

(* IrcMsgQueue.enqueue *)
Definition enqueue (c : cfg) (s : st) (m : msg) : st * list event :=
  if q_contains s m && c_dup c then (s, [Refused true m])
  else
    let e := (nxt s, m) in
    let s1 := set_nxt s (S (nxt s)) in
    (match classify (mcmd m) with
     | High => set_hi s1 (hi s1 ++ [e])
     | Low => set_lo s1 (lo s1 ++ [e])
     | Normal => set_no s1 (no s1 ++ [e])
     end, [Accepted FromQueue e]).

(* IrcMsgQueue.dequeue; [now] is the time.time() read in the JOIN branch *)
Definition dequeue (c : cfg) (now : Z) (s : st) : st * option entry :=
  match hi s with
  | e :: r => (set_hi s r, Some e)
  | [] =>
    match no s with
    | e :: r => (set_no s r, Some e)
    | [] =>
      match lo s with
      | e :: r =>
          if is_join e then
            if lastJoin s + c_join c <=? now then (set_lastJoin (set_lo s r) now, Some e)
            else (set_lo s (r ++ [e]), None)
          else (set_lo s r, Some e)
      | [] => (s, None)
      end
    end
  end.

Definition queue_nonempty (s : st) : bool :=
  match qpending s with [] => false | _ => true end.
Definition fast_nonempty (s : st) : bool :=
  match fast s with [] => false | _ => true end.

(* ---- Irc.queueMsg / sendMsg ---- *)
Definition queueMsg (c : cfg) (s : st) (m : msg) : st * list event :=
  if zombie s then (s, [Refused true m]) else enqueue c s m.

Definition sendMsg (s : st) (m : msg) : st * list event :=
  if zombie s then (s, [Refused false m])
  else let e := (nxt s, m) in
       (set_fast (set_nxt s (S (nxt s))) (fast s ++ [e]), [Accepted FromFast e]).

(* ---- the outFilter chain: the composite of all callbacks ---- *)
Inductive fres := FPass | FRewrite (out : msg) | FDrop (dt : Z).
(* FDrop dt: some filter returned None; takeMsg calls itself and reads the
   clock again, dt later. *)

Section Take.
Variable c : cfg.
Variable filt : msg -> fres.

(* the tail of takeMsg when msg is None:
   elif self.zombie and not self.fastqueue and not self.queue: driver.die() *)
Definition idle (s : st) (evs : list event) : st * list event :=
  if zombie s && negb (fast_nonempty s) && negb (queue_nonempty s)
  then (set_dead s true, evs ++ [DriverDie]) else (s, evs).

(* what becomes of an entry removed from its queue: the filter chain, then
   _truncateMsg (which needs the UTF-8 form of the line).  An exception there
   leaves takeMsg through the firewall: None is returned at once, no zombie
   branch, no recursion; lastTake/lastJoin keep the values dequeue gave them. *)
Definition fin (e : entry) (out : msg) (now : Z) : event :=
  if menc out then Delivered e out now else Unsendable e out.
Definition finish (s1 : st) (f : src) (e : entry) (now : Z) : st * list event * option Z :=
  match filt (snd e) with
  | FPass => (s1, [Took f e now; fin e (snd e) now], None)
  | FRewrite out => (s1, [Took f e now; fin e out now], None)
  | FDrop dt => (s1, [Took f e now; Dropped e], Some dt)
  end.

(* one activation of takeMsg: returns the state, the events and, when a filter
   dropped the message, the delay until the recursive activation reads the clock *)
Definition take_body (s : st) (now : Z) : st * list event * option Z :=
  let after (s1 : st) (f : src) (e : entry) := finish s1 f e now in
  match fast s with
  | e :: r => after (set_fast s r) FromFast e
  | [] =>
    if queue_nonempty s then
      if now - lastTake s <=? c_throttle c then
        let '(s1, evs) := idle s [] in (s1, evs, None)
      else
        let s1 := set_lastTake s now in
        match dequeue c now s1 with
        | (s2, Some e) => after s2 FromQueue e
        | (s2, None) => let '(s3, evs) := idle s2 [] in (s3, evs, None)
        end
    else if afterConnect s && c_ping c && (lastping s + c_interval c <? now) then
      if outPing s then
        let '(s1, evs) := idle s [Reconnect] in (s1, evs, None)
      else if negb (zombie s) then
        let '(s1, evs) := queueMsg c (set_ping s now true) (internal c_PING now) in
        let '(s2, evs2) := idle s1 evs in (s2, evs2, None)
      else let '(s1, evs) := idle s [] in (s1, evs, None)
    else let '(s1, evs) := idle s [] in (s1, evs, None)
  end.

Fixpoint take (fuel : nat) (s : st) (now : Z) : st * list event :=
  let '(s1, evs, r) := take_body s now in
  match r with
  | None => (s1, evs)
  | Some dt =>
      match fuel with
      | O => (s1, evs)       (* not reached: fuel = number of pending messages *)
      | S f => let '(s2, evs2) := take f s1 (now + dt) in (s2, evs ++ evs2)
      end
  end.

Definition takeMsg (s : st) (now : Z) : st * list event :=
  take (length (pending s)) s now.

(* ---- die / reset / 376 / PONG ---- *)
(* Irc.die: zombie := True; if <gen.T19.DIE_AT_ONCE_TEST = "not self.afterConnect">: _reallyDie() *)
Definition die (s : st) : st * list event :=
  let s1 := set_zombie s true in
  if afterConnect s1 then (s1, []) else (set_dead s1 true, [DriverDie]).

Definition send_all (s : st) (ms : list msg) : st * list event :=
  fold_left (fun acc m => let '(s1, evs) := sendMsg (fst acc) m in (s1, snd acc ++ evs)) ms (s, []).

Definition connect_msgs : list msg :=
  [internal c_CAP (-1)] ++ (if c_pass c then [internal c_PASS (-1)] else [])
  ++ [internal c_NICK (-1); internal c_USER (-1)].

(* Irc.reset (also what Irc.__init__ does on the empty object) *)
Definition reset (s : st) (now : Z) : st * list event :=
  let flushed := pending s in
  let s1 := St [] [] [] 0 [] 0 now (zombie s) false false (dead s) (nxt s) in
  if zombie s1 then (set_dead s1 true, [Flushed flushed; DriverDie])
  else let '(s2, evs) := send_all s1 connect_msgs in (s2, Flushed flushed :: evs).

Inductive op :=
| Queue (m : msg) | Send (m : msg) | Take (now : Z) | Die | Reset (now : Z)
| Connect | Pong.

Definition step (s : st) (o : op) : st * list event :=
  if dead s then (s, [])          (* the history ends when the driver is killed *)
  else match o with
       | Queue m => queueMsg c s m
       | Send m => sendMsg s m
       | Take now => takeMsg s now
       | Die => die s
       | Reset now => reset s now
       | Connect => (set_afterConnect s true, [])
       | Pong => (set_ping s (lastping s) false, [])
       end.

Fixpoint run_from (s : st) (ops : list op) : st * list event :=
  match ops with
  | [] => (s, [])
  | o :: r => let '(s1, e1) := step s o in
              let '(s2, e2) := run_from s1 r in (s2, e1 ++ e2)
  end.

(* per-op results with state snapshots, for the correspondence run *)
Fixpoint run_obs (s : st) (ops : list op) : list (list event * st) :=
  match ops with
  | [] => []
  | o :: r => let '(s1, e1) := step s o in (e1, s1) :: run_obs s1 r
  end.
End Take.

(* ---- settings changed on the live bot (config supybot.protocols.irc.throttleTime 10 ...):
   every call reads the registry when it runs, so a history is a list of calls
   and of setting changes, and each call runs under the configuration in force ---- *)
Inductive xop := XOp (o : op) | XSet (k : N) (v : Z).
Definition set_cfg (c : cfg) (k : N) (v : Z) : cfg :=
  match k with
  | 0%N => Cfg v (c_join c) (c_dup c) (c_ping c) (c_interval c) (c_pass c)
  | 1%N => Cfg (c_throttle c) v (c_dup c) (c_ping c) (c_interval c) (c_pass c)
  | 2%N => Cfg (c_throttle c) (c_join c) (negb (v =? 0)) (c_ping c) (c_interval c) (c_pass c)
  | 3%N => Cfg (c_throttle c) (c_join c) (c_dup c) (negb (v =? 0)) (c_interval c) (c_pass c)
  | 4%N => Cfg (c_throttle c) (c_join c) (c_dup c) (c_ping c) v (c_pass c)
  | _ => c
  end.
Fixpoint run_x (filt : msg -> fres) (c : cfg) (s : st) (xs : list xop) : cfg * st * list event :=
  match xs with
  | [] => (c, s, [])
  | XSet k v :: r => run_x filt (set_cfg c k v) s r
  | XOp o :: r => let '(s1, e1) := step c filt s o in
                  let '(c2, s2, e2) := run_x filt c s1 r in (c2, s2, e1 ++ e2)
  end.
Fixpoint run_obs_x (filt : msg -> fres) (c : cfg) (s : st) (xs : list xop) : list (list event * st) :=
  match xs with
  | [] => []
  | XSet k v :: r => ([], s) :: run_obs_x filt (set_cfg c k v) s r
  | XOp o :: r => let '(s1, e1) := step c filt s o in (e1, s1) :: run_obs_x filt c s1 r
  end.

(* ---- the concrete filter chain installed by the harness ---- *)
Definition filt_of (m : msg) : fres :=
  match mact m with
  | 0%N => FPass
  | 1%N => FRewrite (Msg (mid m) (mcmd m) (mkey m + 1000) 0%N 0 true)
  | _ => FDrop (mdt m)
  end.

(* ---- wire ---- *)
Definition gMsg (v : value) : msg :=
  Msg (gZ (nth_v 0 v)) (gS (nth_v 1 v)) (gZ (nth_v 2 v)) (gN (nth_v 3 v)) (gZ (nth_v 4 v))
      (negb (gB (nth_v 5 v))).   (* 6th field: 1 = unencodable; absent = encodable *)
Definition gCfg (v : value) : cfg :=
  Cfg (gZ (nth_v 0 v)) (gZ (nth_v 1 v)) (gB (nth_v 2 v)) (gB (nth_v 3 v)) (gZ (nth_v 4 v)) (gB (nth_v 5 v)).
Definition gOp (v : value) : op :=
  match gN (nth_v 0 v) with
  | 0%N => Queue (gMsg (nth_v 1 v))
  | 1%N => Send (gMsg (nth_v 1 v))
  | 2%N => Take (gZ (nth_v 1 v))
  | 3%N => Die
  | 4%N => Reset (gZ (nth_v 1 v))
  | 5%N => Connect
  | _ => Pong
  end.

Definition gXop (v : value) : xop :=
  match gN (nth_v 0 v) with
  | 7%N => XSet (gN (nth_v 1 v)) (gZ (nth_v 2 v))
  | _ => XOp (gOp v)
  end.

Definition vE (e : entry) : value := L [I (mid (snd e)); vS (mcmd (snd e))].
Definition vEvent (ev : event) : value :=
  match ev with
  | Accepted _ e => L [I 0; vE e]
  | Refused b m => L [I 1; vB b; I (mid m)]
  | Took f e now => L [I 2; I (match f with FromFast => 0 | FromQueue => 1 end); vE e; I now]
  | Dropped e => L [I 3; vE e]
  | Delivered e out now => L [I 4; vE e; vS (mcmd out); I (mkey out); I now]
  | Unsendable e out => L [I 8; vE e]
  | Flushed l => L [I 5; L (map vE l)]
  | Reconnect => L [I 6]
  | DriverDie => L [I 7]
  end.
Definition vSt (s : st) : value :=
  L [L (map vE (fast s)); L (map vE (hi s)); L (map vE (no s)); L (map vE (lo s));
     I (lastTake s); I (lastJoin s); I (lastping s);
     vB (zombie s); vB (afterConnect s); vB (outPing s); vB (dead s)].

(* run: (0 (cfg ops)) -> per op (events, state after) *)
Definition run (v : value) : value :=
  let payload := nth_v 1 v in
  match gN (nth_v 0 v) with
  | 0%N =>
      let c := gCfg (nth_v 0 payload) in
      let ops := map gXop (gL (nth_v 1 payload)) in
      L (map (fun r => L [L (map vEvent (fst r)); vSt (snd r)]) (run_obs_x filt_of c st0 ops))
  | _ => L []
  end.
