(* C17/Lemmas.v — file-system lemmas, structure of the effect list of a save /
   an abort, and the crash-atomicity theorems (crash = any prefix). *)
From Coq Require Import List NArith Bool Lia Arith.
Import ListNotations.
Require Import Base.Wire Base.PyStr C17.Model C17.Names.
Require gen.T17.
Open Scope N_scope.

(* ---------- the file-system map ---------- *)
Lemma upd_same p v f : upd p v f p = v.
Proof. unfold upd. now rewrite seq_eqb_refl. Qed.

Lemma upd_other p q v f : q <> p -> upd p v f q = f q.
Proof. unfold upd. intro H. apply seq_eqb_neq in H. now rewrite H. Qed.

(* an effect that cannot change path p *)
Definition safe (p : path) (e : eff) : Prop :=
  match e with
  | Create q | Append q _ | Touch q | Remove q => q <> p
  | CloseF _ => True
  | Rename a b => a <> p /\ b <> p
  end.

Lemma apply1_safe p e f : safe p e -> apply1 f e p = f p.
Proof.
  destruct e; simpl; intro H.
  - apply upd_other; congruence.
  - destruct (f p0); [apply upd_other; congruence|reflexivity].
  - reflexivity.
  - destruct H as [Ha Hb]. destruct (f a); [|reflexivity].
    rewrite upd_other by congruence. apply upd_other; congruence.
  - destruct (f p0); [reflexivity|apply upd_other; congruence].
  - apply upd_other; congruence.
Qed.

Lemma apply_safe p es : forall f, Forall (safe p) es -> apply es f p = f p.
Proof.
  induction es as [|e es IH]; intros f H; [reflexivity|].
  inversion H; subst. unfold apply. simpl. fold (apply es (apply1 f e)).
  rewrite IH by assumption. now apply apply1_safe.
Qed.

Lemma apply_app a b f : apply (a ++ b) f = apply b (apply a f).
Proof. unfold apply. apply fold_left_app. Qed.

Lemma apply_cons e es f : apply (e :: es) f = apply es (apply1 f e).
Proof. reflexivity. Qed.

Lemma Forall_firstn {A} (P : A -> Prop) k l : Forall P l -> Forall P (firstn k l).
Proof.
  revert k. induction l as [|x l IH]; intros k H; destruct k; simpl; auto.
  inversion H; subst. constructor; auto.
Qed.

Lemma prefix_split {A} k (a b : list A) :
  firstn k (a ++ b) = firstn k a \/ exists j, firstn k (a ++ b) = a ++ firstn j b.
Proof.
  rewrite firstn_app. destruct (Nat.le_gt_cases k (length a)) as [H|H].
  - left. replace (k - length a)%nat with 0%nat by lia. simpl. apply app_nil_r.
  - right. exists (k - length a)%nat. rewrite firstn_all2 by lia. reflexivity.
Qed.

(* appends to one file *)
Lemma apply_appends p cs : forall f c, f p = Some c ->
  apply (map (Append p) cs) f p = Some (c ++ concat cs).
Proof.
  induction cs as [|b cs IH]; intros f c H; cbn [map concat].
  - now rewrite app_nil_r.
  - rewrite apply_cons. simpl apply1. rewrite H.
    rewrite (IH _ (c ++ b)) by apply upd_same. now rewrite app_assoc.
Qed.

Lemma appends_safe p q cs : p <> q -> Forall (safe q) (map (Append p) cs).
Proof. intro H. apply Forall_forall. intros e He. apply in_map_iff in He as [b [<- _]]. exact H. Qed.

(* ---------- chunks ---------- *)
Lemma firstn_add {A} n m (d : list A) : firstn (n + m) d = firstn n d ++ firstn m (skipn n d).
Proof.
  revert d. induction n as [|n IH]; intro d; [reflexivity|].
  destruct d as [|x d]; simpl; [now destruct m|]. now rewrite IH.
Qed.

Lemma chunks_fuel_concat fuel n : forall d, (0 < n)%nat -> (length d <= fuel)%nat ->
  concat (chunks_fuel fuel n d) = d.
Proof.
  induction fuel as [|fu IH]; intros d Hn Hl.
  - destruct d; [reflexivity|simpl in Hl; lia].
  - destruct d as [|x d]; [reflexivity|].
    cbn [chunks_fuel concat]. rewrite IH; [apply firstn_skipn|exact Hn|].
    rewrite skipn_length. cbn [length] in *. lia.
Qed.

Lemma chunks_concat n d : concat (chunks n d) = d.
Proof.
  unfold chunks. destruct n as [|n].
  - destruct d; [reflexivity|]. simpl. now rewrite app_nil_r.
  - apply chunks_fuel_concat; lia.
Qed.

Lemma chunks_fuel_prefix fuel n : forall d j, exists m,
  concat (firstn j (chunks_fuel fuel n d)) = firstn m d.
Proof.
  induction fuel as [|fu IH]; intros d j.
  - exists 0%nat. destruct j; reflexivity.
  - destruct d as [|x d]; [exists 0%nat; destruct j; reflexivity|].
    destruct j as [|j]; [exists 0%nat; reflexivity|].
    cbn [chunks_fuel firstn concat].
    destruct (IH (skipn n (x :: d)) j) as [m Hm]. rewrite Hm.
    exists (n + m)%nat. now rewrite firstn_add.
Qed.

Lemma chunks_prefix n d j : exists m, concat (firstn j (chunks n d)) = firstn m d.
Proof.
  unfold chunks. destruct n as [|n].
  - destruct d as [|x d]; [exists 0%nat; destruct j; reflexivity|].
    destruct j as [|j]; [exists 0%nat; reflexivity|].
    exists (length (x :: d)). cbn [firstn concat].
    rewrite firstn_nil. cbn [concat]. rewrite app_nil_r. now rewrite firstn_all.
  - apply chunks_fuel_prefix.
Qed.

(* a (possibly interrupted) copy onto dst: dst holds a prefix of the data *)
Lemma copy_prefix n data dst j f :
  j <> 0%nat ->
  exists m, apply (firstn j (copy_effs n data dst)) f dst = Some (firstn m data).
Proof.
  intro Hj. destruct j as [|j]; [congruence|].
  unfold copy_effs. cbn [firstn]. rewrite apply_cons. rewrite firstn_map.
  rewrite (apply_appends dst _ _ []) by (simpl; apply upd_same).
  destruct (chunks_prefix n data j) as [m Hm]. exists m. now rewrite Hm.
Qed.

Lemma copy_full n data dst f : apply (copy_effs n data dst) f dst = Some data.
Proof.
  unfold copy_effs. rewrite apply_cons.
  rewrite (apply_appends dst _ _ []) by (simpl; apply upd_same).
  now rewrite chunks_concat.
Qed.

Lemma copy_safe n data dst q : dst <> q -> Forall (safe q) (copy_effs n data dst).
Proof. intro H. constructor; [exact H|now apply appends_safe]. Qed.

(* ---------- structure of a session ---------- *)
Section Session.
Variables (cfg : config) (fn tok now : str) (chunk : nat).
Hypothesis Htok : token_ok tok = true.
Hypothesis Hnow : digits_ok now = true.
Let temp := temp_name cfg fn tok.
Let backup := backup_name cfg fn now.

Let Htf : temp <> fn := temp_neq_target cfg fn tok Htok.
Let Hbf : backup <> fn := backup_neq_target cfg fn now Hnow.
Let Htb : temp <> backup := temp_neq_backup cfg fn tok now Htok Hnow.

Lemma run_writes ws : forall f rest,
  run_ops cfg fn tok now chunk (St false false) f (map OWrite ws ++ rest) =
  let '(es, rs) := run_ops cfg fn tok now chunk (St false false)
                     (apply (map (Append temp) ws) f) rest in
  (map (Append temp) ws ++ es, map (fun _ => Ok tt) ws ++ rs).
Proof.
  induction ws as [|w ws IH]; intros f rest.
  - simpl. now destruct (run_ops cfg fn tok now chunk (St false false) f rest).
  - cbn [map app run_ops step a_closed]. fold temp.
    rewrite IH. cbn [apply fold_left]. fold (apply (map (Append temp) ws) (apply1 f (Append temp w))).
    destruct (run_ops cfg fn tok now chunk (St false false)
                (apply (map (Append temp) ws) (apply1 f (Append temp w))) rest).
    reflexivity.
Qed.

(* the file system when close()/rollback() is entered *)
Definition written (f0 : fs) (ws : list bytes) : fs :=
  apply (map (Append temp) ws) (apply [Create temp] f0).

Lemma written_temp f0 ws : written f0 ws temp = Some (concat ws).
Proof.
  unfold written. rewrite (apply_appends temp ws _ []); [reflexivity|].
  simpl. apply upd_same.
Qed.

Lemma written_other f0 ws q : temp <> q -> written f0 ws q = f0 q.
Proof.
  intro H. unfold written. rewrite apply_safe by now apply appends_safe.
  simpl. apply upd_other. congruence.
Qed.

Definition save_effects (old : option bytes) (ws : list bytes) : list eff :=
  (Create temp :: map (Append temp) ws ++ [CloseF temp])
  ++ close_tail cfg fn tok now chunk old (concat ws).

Lemma effects_save f0 ws :
  effects cfg fn tok now chunk f0 (save_ops ws) = save_effects (f0 fn) ws.
Proof.
  unfold effects, session, save_ops. fold temp. rewrite run_writes.
  fold (written f0 ws).
  cbn [run_ops step a_rolled a_closed]. unfold close_effs. fold temp.
  rewrite written_temp. rewrite written_other by exact Htf.
  cbn [fst]. unfold save_effects. fold temp.
  rewrite app_nil_r. cbn [app]. f_equal. rewrite <- app_assoc. reflexivity.
Qed.

Definition abort_effects (ws : list bytes) : list eff :=
  Create temp :: map (Append temp) ws ++ [CloseF temp; Remove temp].

Lemma effects_abort f0 ws :
  effects cfg fn tok now chunk f0 (abort_ops ws) = abort_effects ws.
Proof.
  unfold effects, session, abort_ops. fold temp. rewrite run_writes.
  fold (written f0 ws).
  cbn [run_ops step a_rolled a_closed]. fold temp. rewrite written_temp.
  cbn [fst]. unfold abort_effects. now rewrite app_nil_r.
Qed.

(* the part of a save before the target is touched: never changes the target *)
Definition head_effects (old : option bytes) (ws : list bytes) : list eff :=
  (Create temp :: map (Append temp) ws ++ [CloseF temp])
  ++ backup_effs cfg fn now chunk old (concat ws).

Lemma head_safe_target old ws : Forall (safe fn) (head_effects old ws).
Proof.
  unfold head_effects. apply Forall_app. split.
  - constructor; [exact Htf|]. apply Forall_app. split; [now apply appends_safe|].
    constructor; [exact Logic.I|constructor].
  - unfold backup_effs. fold backup. destruct old as [o|]; [|constructor].
    destruct (backup_wanted cfg (Some o) (concat ws)); [|constructor].
    now apply copy_safe.
Qed.

Lemma backup_safe_temp old new : Forall (safe temp) (backup_effs cfg fn now chunk old new).
Proof.
  unfold backup_effs. fold backup. destruct old as [o|]; [|constructor].
  destruct (backup_wanted cfg (Some o) new); [|constructor].
  apply copy_safe. congruence.
Qed.

Lemma head_temp f0 old ws : apply (head_effects old ws) f0 temp = Some (concat ws).
Proof.
  unfold head_effects. rewrite apply_app. rewrite apply_safe by apply backup_safe_temp.
  change (Create temp :: map (Append temp) ws ++ [CloseF temp])
    with ([Create temp] ++ map (Append temp) ws ++ [CloseF temp]).
  rewrite !apply_app. fold (written f0 ws). simpl. apply written_temp.
Qed.

Lemma head_target f0 old ws : apply (head_effects old ws) f0 fn = f0 fn.
Proof. apply apply_safe. apply head_safe_target. Qed.

Lemma save_effects_split old ws :
  save_effects old ws =
  if overwrite_allowed cfg old (concat ws)
  then head_effects old ws ++ Touch fn :: move_effs cfg fn tok chunk (concat ws)
  else Create temp :: map (Append temp) ws ++ [CloseF temp].
Proof.
  unfold save_effects, close_tail, head_effects.
  destruct (overwrite_allowed cfg old (concat ws)).
  - rewrite <- app_assoc. reflexivity.
  - now rewrite app_nil_r.
Qed.

Lemma nosave_safe_target ws : Forall (safe fn) (Create temp :: map (Append temp) ws ++ [CloseF temp]).
Proof.
  constructor; [exact Htf|]. apply Forall_app. split; [now apply appends_safe|].
  constructor; [exact Logic.I|constructor].
Qed.

(* --- C17_atomic_same_fs --- *)
Definition atomic_outcome (old : option bytes) (new : bytes) (t : option bytes) : Prop :=
  t = old \/ t = Some new \/ (old = None /\ t = Some []).

Lemma atomic_same_fs f0 ws k :
  xdev_eff cfg = false ->
  atomic_outcome (f0 fn) (concat ws)
    (apply (firstn k (effects cfg fn tok now chunk f0 (save_ops ws))) f0 fn).
Proof.
  intro Hx. rewrite effects_save, save_effects_split.
  destruct (overwrite_allowed cfg (f0 fn) (concat ws)).
  2:{ left. apply apply_safe. apply Forall_firstn. apply nosave_safe_target. }
  unfold move_effs. rewrite Hx. fold temp.
  destruct (prefix_split k (head_effects (f0 fn) ws) [Touch fn; Rename temp fn]) as [E|[j E]];
    rewrite E.
  - left. apply apply_safe. apply Forall_firstn. apply head_safe_target.
  - rewrite apply_app.
    pose proof (head_temp f0 (f0 fn) ws) as Ht. pose proof (head_target f0 (f0 fn) ws) as Hf.
    set (f1 := apply (head_effects (f0 fn) ws) f0) in *.
    destruct j as [|[|j]]; cbn [firstn].
    + left. exact Hf.
    + unfold apply. cbn [fold_left apply1]. rewrite Hf.
      destruct (f0 fn) eqn:Eo.
      * left. exact Hf.
      * right. right. split; [reflexivity|apply upd_same].
    + replace (firstn j []) with (@nil eff) by (now destruct j).
      right. left. unfold apply. cbn [fold_left apply1]. rewrite Hf.
      destruct (f0 fn) eqn:Eo.
      * rewrite Ht. apply upd_same.
      * rewrite upd_other by exact Htf. rewrite Ht. apply upd_same.
Qed.

(* --- complete run --- *)
Lemma save_final f0 ws :
  overwrite_allowed cfg (f0 fn) (concat ws) = true ->
  apply (effects cfg fn tok now chunk f0 (save_ops ws)) f0 fn = Some (concat ws).
Proof.
  intro Ho. rewrite effects_save, save_effects_split, Ho. rewrite apply_app, apply_cons.
  pose proof (head_temp f0 (f0 fn) ws) as Ht.
  set (f1 := apply (head_effects (f0 fn) ws) f0) in *.
  assert (Ht2 : apply1 f1 (Touch fn) temp = Some (concat ws)).
  { rewrite apply1_safe; [exact Ht|]. simpl. congruence. }
  unfold move_effs. fold temp. destruct (xdev_eff cfg).
  - rewrite apply_app. rewrite apply_safe.
    + apply copy_full.
    + constructor; [exact Htf|constructor].
  - unfold apply. cbn [fold_left apply1]. fold (apply1 f1 (Touch fn)). rewrite Ht2. apply upd_same.
Qed.

Lemma save_final_temp_removed f0 ws :
  overwrite_allowed cfg (f0 fn) (concat ws) = true ->
  apply (effects cfg fn tok now chunk f0 (save_ops ws)) f0 temp = None.
Proof.
  intro Ho. rewrite effects_save, save_effects_split, Ho. rewrite apply_app, apply_cons.
  pose proof (head_temp f0 (f0 fn) ws) as Ht.
  set (f1 := apply (head_effects (f0 fn) ws) f0) in *.
  assert (Ht2 : apply1 f1 (Touch fn) temp = Some (concat ws)).
  { rewrite apply1_safe; [exact Ht|]. simpl. congruence. }
  unfold move_effs. fold temp. destruct (xdev_eff cfg).
  - rewrite apply_app. unfold apply at 1. cbn [fold_left apply1]. apply upd_same.
  - unfold apply. cbn [fold_left apply1]. fold (apply1 f1 (Touch fn)). rewrite Ht2.
    rewrite upd_other by exact Htf. apply upd_same.
Qed.

(* --- the empty-overwrite rule --- *)
Lemma empty_overwrite_refused f0 ws o k :
  f0 fn = Some o -> concat ws = [] -> c_aeo cfg = false ->
  apply (firstn k (effects cfg fn tok now chunk f0 (save_ops ws))) f0 fn = Some o.
Proof.
  intros Ho He Ha. rewrite effects_save, save_effects_split.
  unfold overwrite_allowed. rewrite Ho, He, Ha. cbn [length Nat.eqb negb orb].
  rewrite <- Ho. apply apply_safe. apply Forall_firstn. apply nosave_safe_target.
Qed.

Lemma overwrite_allowed_iff old new :
  overwrite_allowed cfg old new = true <-> (new <> [] \/ c_aeo cfg = true \/ old = None).
Proof.
  unfold overwrite_allowed. rewrite !orb_true_iff, negb_true_iff, Nat.eqb_neq. split.
  - intros [[H|H]|H]; [left|right; left|right; right]; auto.
    + intro E. subst. apply H. reflexivity.
    + destruct old; [discriminate|reflexivity].
  - intros [H|[H|H]]; [left; left|left; right|right]; auto.
    + destruct new; [congruence|discriminate].
    + subst. reflexivity.
Qed.

(* --- rollback --- *)
Lemma abort_safe_target ws : Forall (safe fn) (abort_effects ws).
Proof.
  unfold abort_effects. constructor; [exact Htf|]. apply Forall_app. split; [now apply appends_safe|].
  constructor; [exact Logic.I|]. constructor; [exact Htf|constructor].
Qed.

Lemma rollback_keeps_old f0 ws k :
  apply (firstn k (effects cfg fn tok now chunk f0 (abort_ops ws))) f0 fn = f0 fn.
Proof. rewrite effects_abort. apply apply_safe, Forall_firstn, abort_safe_target. Qed.

Lemma rollback_removes_temp f0 ws :
  apply (effects cfg fn tok now chunk f0 (abort_ops ws)) f0 temp = None.
Proof.
  rewrite effects_abort. unfold abort_effects.
  change (Create temp :: map (Append temp) ws ++ [CloseF temp; Remove temp])
    with ([Create temp] ++ map (Append temp) ws ++ [CloseF temp; Remove temp]).
  rewrite !apply_app. unfold apply at 1. cbn [fold_left apply1]. apply upd_same.
Qed.

(* --- the backup rule --- *)
Lemma backup_made f0 ws o :
  f0 fn = Some o ->
  overwrite_allowed cfg (f0 fn) (concat ws) = true ->
  backup_wanted cfg (f0 fn) (concat ws) = true ->
  apply (effects cfg fn tok now chunk f0 (save_ops ws)) f0 backup = Some o.
Proof.
  intros Ho Hov Hb. rewrite effects_save, save_effects_split, Hov.
  rewrite apply_app. rewrite apply_safe.
  - unfold head_effects. rewrite apply_app. unfold backup_effs. rewrite Hb, Ho.
    fold backup. apply copy_full.
  - constructor; [simpl; congruence|].
    unfold move_effs. fold temp. destruct (xdev_eff cfg).
    + apply Forall_app. split; [apply copy_safe; congruence|].
      constructor; [exact Htb|constructor].
    + constructor; [split; [exact Htb|congruence]|constructor].
Qed.

Lemma backup_untouched f0 ws k :
  backup_wanted cfg (f0 fn) (concat ws) = false ->
  apply (firstn k (effects cfg fn tok now chunk f0 (save_ops ws))) f0 backup = f0 backup.
Proof.
  intro Hb. rewrite effects_save. apply apply_safe, Forall_firstn.
  unfold save_effects. apply Forall_app. split.
  - constructor; [exact Htb|]. apply Forall_app. split; [now apply appends_safe|].
    constructor; [exact Logic.I|constructor].
  - unfold close_tail. destruct (overwrite_allowed cfg (f0 fn) (concat ws)); [|constructor].
    apply Forall_app. split.
    + unfold backup_effs. rewrite Hb. destruct (f0 fn); constructor.
    + constructor; [simpl; congruence|].
      unfold move_effs. fold temp. destruct (xdev_eff cfg).
      * apply Forall_app. split; [apply copy_safe; congruence|].
        constructor; [exact Htb|constructor].
      * constructor; [split; [exact Htb|congruence]|constructor].
Qed.

(* --- tmpDir on another file system: old, or a prefix of new --- *)
Lemma xdev_prefix f0 ws k :
  let t := apply (firstn k (effects cfg fn tok now chunk f0 (save_ops ws))) f0 fn in
  t = f0 fn \/ exists m, t = Some (firstn m (concat ws)).
Proof.
  cbv zeta. rewrite effects_save, save_effects_split.
  destruct (overwrite_allowed cfg (f0 fn) (concat ws)).
  2:{ left. apply apply_safe. apply Forall_firstn. apply nosave_safe_target. }
  pose proof (head_temp f0 (f0 fn) ws) as Ht. pose proof (head_target f0 (f0 fn) ws) as Hf.
  destruct (prefix_split k (head_effects (f0 fn) ws)
              (Touch fn :: move_effs cfg fn tok chunk (concat ws))) as [E|[j E]]; rewrite E.
  { left. apply apply_safe. apply Forall_firstn. apply head_safe_target. }
  rewrite apply_app. set (f1 := apply (head_effects (f0 fn) ws) f0) in *.
  destruct j as [|j]; [left; exact Hf|]. cbn [firstn]. rewrite apply_cons.
  set (f2 := apply1 f1 (Touch fn)).
  assert (Hf2 : f2 fn = f0 fn \/ f2 fn = Some (firstn 0 (concat ws))).
  { unfold f2. simpl. destruct (f1 fn) eqn:E1; [left; congruence|right; apply upd_same]. }
  assert (Ht2 : f2 temp = Some (concat ws)).
  { unfold f2. rewrite apply1_safe; [exact Ht|]. simpl. congruence. }
  unfold move_effs. fold temp. destruct (xdev_eff cfg).
  - destruct (prefix_split j (copy_effs chunk (concat ws) fn) [Remove temp]) as [E2|[i E2]]; rewrite E2.
    + destruct j as [|j']; [destruct Hf2 as [H|H]; [left|right; exists 0%nat]; exact H|].
      right. apply copy_prefix. discriminate.
    + right. exists (length (concat ws)). rewrite firstn_all. rewrite apply_app.
      rewrite apply_safe; [apply copy_full|]. apply Forall_firstn. constructor; [exact Htf|constructor].
  - destruct j as [|j]; cbn [firstn].
    + destruct Hf2 as [H|H]; [left|right; exists 0%nat]; exact H.
    + replace (firstn j []) with (@nil eff) by (now destruct j).
      right. exists (length (concat ws)). rewrite firstn_all.
      unfold apply. cbn [fold_left apply1]. rewrite Ht2. apply upd_same.
Qed.

(* --- death by an exception: prefix, then the unwinding --- *)
Lemma unwind_safe_target inited pre f :
  unwind_commits = false ->
  Forall (safe fn) (unwind_effs cfg fn tok now chunk inited pre f).
Proof.
  intro Hu. unfold unwind_effs, unwind_op. rewrite Hu.
  destruct inited; [|constructor].
  cbn [step a_closed]. fold temp. destruct (existsb is_closeF pre); cbn [fst snd]; [constructor|].
  constructor; [exact Logic.I|]. destruct (f temp); [|constructor].
  constructor; [exact Htf|constructor].
Qed.

Lemma unwind_target inited pre f0 :
  unwind_commits = false ->
  apply (pre ++ unwind_effs cfg fn tok now chunk inited pre (apply pre f0)) f0 fn = apply pre f0 fn.
Proof. intro Hu. rewrite apply_app. apply apply_safe. now apply unwind_safe_target. Qed.

Lemma atomic_under_unwinding f0 ws k inited :
  unwind_commits = false ->
  xdev_eff cfg = false ->
  atomic_outcome (f0 fn) (concat ws)
    (apply (interrupted cfg fn tok now chunk f0 (save_ops ws) k inited) f0 fn).
Proof.
  intros Hu Hx. unfold interrupted. rewrite unwind_target by exact Hu. now apply atomic_same_fs.
Qed.

Lemma unwinding_old_or_prefix f0 ws k inited :
  unwind_commits = false ->
  let t := apply (interrupted cfg fn tok now chunk f0 (save_ops ws) k inited) f0 fn in
  t = f0 fn \/ exists m, t = Some (firstn m (concat ws)).
Proof.
  intro Hu. cbv zeta. unfold interrupted. rewrite unwind_target by exact Hu. apply xdev_prefix.
Qed.

(* an exception while the temp file is still open (outside __init__): the temp file is removed *)
Lemma unwinding_removes_temp f0 ops k :
  unwind_commits = false ->
  let pre := firstn k (effects cfg fn tok now chunk f0 ops) in
  existsb is_closeF pre = false ->
  apply (interrupted cfg fn tok now chunk f0 ops k true) f0 temp = None.
Proof.
  intros Hu pre Hc. unfold interrupted. fold pre. rewrite apply_app.
  unfold unwind_effs, unwind_op. rewrite Hu, Hc. cbn [step a_closed fst snd]. fold temp.
  destruct (apply pre f0 temp) eqn:E.
  - unfold apply at 1. cbn [fold_left apply1]. apply upd_same.
  - unfold apply at 1. cbn [fold_left apply1]. exact E.
Qed.
End Session.

(* the regenerated table says: unwinding never commits *)
Lemma table_unwind_rolls_back : unwind_commits = false.
Proof. vm_compute. reflexivity. Qed.

(* the regenerated table says: no caller swallows the I/O error of a write *)
Lemma table_no_swallow : write_errors_swallowed = false.
Proof. vm_compute. reflexivity. Qed.
