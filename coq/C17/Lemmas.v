(* C17/Lemmas.v — file-system lemmas, structure of the effect list of a save /
   an abort, and the crash-atomicity theorems (crash = any prefix). *)
From Coq Require Import List NArith Bool Lia Arith.
Import ListNotations.
Require Import Base.Wire Base.PyStr C17.Model C17.Names.
Require gen.T17.
Open Scope N_scope.

(* ---------- the file-system map ---------- *)
Lemma upd_same p v f : upd p v f p = v.
Proof. unfold upd. now rewrite seq_eqb_refl. Qed.

Lemma upd_other p q v f : q <> p -> upd p v f q = f q.
Proof. unfold upd. intro H. apply seq_eqb_neq in H. now rewrite H. Qed.

(* an effect that cannot change path p *)
Definition safe (p : path) (e : eff) : Prop :=
  match e with
  | Create q | Append q _ | Touch q | Remove q => q <> p
  | CloseF _ => True
  | Rename a b => a <> p /\ b <> p
  end.

Lemma apply1_safe p e f : safe p e -> apply1 f e p = f p.
Proof.
  destruct e; simpl; intro H.
  - apply upd_other; congruence.
  - destruct (f p0); [apply upd_other; congruence|reflexivity].
  - reflexivity.
  - destruct H as [Ha Hb]. destruct (f a); [|reflexivity].
    rewrite upd_other by congruence. apply upd_other; congruence.
  - destruct (f p0); [reflexivity|apply upd_other; congruence].
  - apply upd_other; congruence.
Qed.

Lemma apply_safe p es : forall f, Forall (safe p) es -> apply es f p = f p.
Proof.
  induction es as [|e es IH]; intros f H; [reflexivity|].
  inversion H; subst. unfold apply. simpl. fold (apply es (apply1 f e)).
  rewrite IH by assumption. now apply apply1_safe.
Qed.

Lemma apply_app a b f : apply (a ++ b) f = apply b (apply a f).
Proof. unfold apply. apply fold_left_app. Qed.

Lemma apply_cons e es f : apply (e :: es) f = apply es (apply1 f e).
Proof. reflexivity. Qed.

Lemma Forall_firstn {A} (P : A -> Prop) k l : Forall P l -> Forall P (firstn k l).
Proof.
  revert k. induction l as [|x l IH]; intros k H; destruct k; simpl; auto.
  inversion H; subst. constructor; auto.
Qed.

Lemma prefix_split {A} k (a b : list A) :
  firstn k (a ++ b) = firstn k a \/ exists j, firstn k (a ++ b) = a ++ firstn j b.
Proof.
  rewrite firstn_app. destruct (Nat.le_gt_cases k (length a)) as [H|H].
  - left. replace (k - length a)%nat with 0%nat by lia. simpl. apply app_nil_r.
  - right. exists (k - length a)%nat. rewrite firstn_all2 by lia. reflexivity.
Qed.

(* appends to one file *)
Lemma apply_appends p cs : forall f c, f p = Some c ->
  apply (map (Append p) cs) f p = Some (c ++ concat cs).
Proof.
  induction cs as [|b cs IH]; intros f c H; cbn [map concat].
  - now rewrite app_nil_r.
  - rewrite apply_cons. simpl apply1. rewrite H.
    rewrite (IH _ (c ++ b)) by apply upd_same. now rewrite app_assoc.
Qed.

Lemma appends_safe p q cs : p <> q -> Forall (safe q) (map (Append p) cs).
Proof. intro H. apply Forall_forall. intros e He. apply in_map_iff in He as [b [<- _]]. exact H. Qed.

(* ---------- chunks ---------- *)
Lemma firstn_add {A} n m (d : list A) : firstn (n + m) d = firstn n d ++ firstn m (skipn n d).
Proof.
  revert d. induction n as [|n IH]; intro d; [reflexivity|].
  destruct d as [|x d]; simpl; [now destruct m|]. now rewrite IH.
Qed.

Lemma chunks_fuel_concat fuel n : forall d, (0 < n)%nat -> (length d <= fuel)%nat ->
  concat (chunks_fuel fuel n d) = d.
Proof.
  induction fuel as [|fu IH]; intros d Hn Hl.
  - destruct d; [reflexivity|simpl in Hl; lia].
  - destruct d as [|x d]; [reflexivity|].
    cbn [chunks_fuel concat]. rewrite IH; [apply firstn_skipn|exact Hn|].
    rewrite skipn_length. cbn [length] in *. lia.
Qed.

Lemma chunks_concat n d : concat (chunks n d) = d.
Proof.
  unfold chunks. destruct n as [|n].
  - destruct d; [reflexivity|]. simpl. now rewrite app_nil_r.
  - apply chunks_fuel_concat; lia.
Qed.

Lemma chunks_fuel_prefix fuel n : forall d j, exists m,
  concat (firstn j (chunks_fuel fuel n d)) = firstn m d.
Proof.
  induction fuel as [|fu IH]; intros d j.
  - exists 0%nat. destruct j; reflexivity.
  - destruct d as [|x d]; [exists 0%nat; destruct j; reflexivity|].
    destruct j as [|j]; [exists 0%nat; reflexivity|].
    cbn [chunks_fuel firstn concat].
    destruct (IH (skipn n (x :: d)) j) as [m Hm]. rewrite Hm.
    exists (n + m)%nat. now rewrite firstn_add.
Qed.

Lemma chunks_prefix n d j : exists m, concat (firstn j (chunks n d)) = firstn m d.
Proof.
  unfold chunks. destruct n as [|n].
  - destruct d as [|x d]; [exists 0%nat; destruct j; reflexivity|].
    destruct j as [|j]; [exists 0%nat; reflexivity|].
    exists (length (x :: d)). cbn [firstn concat].
    rewrite firstn_nil. cbn [concat]. rewrite app_nil_r. now rewrite firstn_all.
  - apply chunks_fuel_prefix.
Qed.

(* a (possibly interrupted) copy onto dst: dst holds a prefix of the data *)
Lemma copy_prefix n data dst j f :
  j <> 0%nat ->
  exists m, apply (firstn j (copy_effs n data dst)) f dst = Some (firstn m data).
Proof.
  intro Hj. destruct j as [|j]; [congruence|].
  unfold copy_effs. cbn [firstn]. rewrite apply_cons. rewrite firstn_map.
  rewrite (apply_appends dst _ _ []) by (simpl; apply upd_same).
  destruct (chunks_prefix n data j) as [m Hm]. exists m. now rewrite Hm.
Qed.

Lemma copy_full n data dst f : apply (copy_effs n data dst) f dst = Some data.
Proof.
  unfold copy_effs. rewrite apply_cons.
  rewrite (apply_appends dst _ _ []) by (simpl; apply upd_same).
  now rewrite chunks_concat.
Qed.

Lemma copy_safe n data dst q : dst <> q -> Forall (safe q) (copy_effs n data dst).
Proof. intro H. constructor; [exact H|now apply appends_safe]. Qed.

(* ---------- structure of a session ---------- *)
Section Session.
Variables (cfg : config) (fn tok now : str) (chunk : nat).
Hypothesis Htok : token_ok tok = true.
Hypothesis Hnow : digits_ok now = true.
Let temp := temp_name cfg fn tok.
Let backup := backup_name cfg fn now.
Let tp := thr cfg fn.
(* a symlinked target points somewhere else than the paths the save uses *)
Hypothesis Hq : forall q, c_link cfg = Some q -> q <> fn /\ q <> temp /\ q <> backup.

Let Htf : temp <> fn := temp_neq_target cfg fn tok Htok.
Let Hbf : backup <> fn := backup_neq_target cfg fn now Hnow.
Let Htb : temp <> backup := temp_neq_backup cfg fn tok now Htok Hnow.

Lemma Htt : temp <> tp.
Proof.
  unfold tp, thr. destruct (c_link cfg) as [q|] eqn:E; [|exact Htf].
  destruct (Hq q eq_refl) as [_ [H _]]. congruence.
Qed.
Lemma Hbt : backup <> tp.
Proof.
  unfold tp, thr. destruct (c_link cfg) as [q|] eqn:E; [|exact Hbf].
  destruct (Hq q eq_refl) as [_ [_ H]]. congruence.
Qed.

(* the link (if the target is one) is still there: no regular file at fn *)
Definition alive (f : fs) : Prop :=
  match c_link cfg with Some _ => f fn = None | None => True end.

Lemma rd_safe es f : Forall (safe fn) es -> Forall (safe tp) es ->
  rd cfg fn (apply es f) = rd cfg fn f.
Proof.
  intros H1 H2. unfold rd. unfold tp, thr in H2. destruct (c_link cfg).
  - now rewrite !apply_safe.
  - now rewrite apply_safe.
Qed.

Lemma alive_safe es f : Forall (safe fn) es -> alive f -> alive (apply es f).
Proof.
  intros H Ha. unfold alive in *. destruct (c_link cfg); [|exact Logic.I].
  now rewrite apply_safe.
Qed.

Lemma rd_of_tp f : alive f -> rd cfg fn f = f tp.
Proof.
  unfold alive, rd, tp, thr. destruct (c_link cfg); intro H; [now rewrite H|reflexivity].
Qed.

Lemma tp_neq_fn : c_link cfg <> None -> tp <> fn.
Proof.
  intro H. unfold tp, thr. destruct (c_link cfg) as [q|] eqn:E; [|congruence].
  destruct (Hq q eq_refl) as [H1 _]. exact H1.
Qed.

(* effects that go through the link do not remove it *)
Lemma alive_after es f : alive f -> (c_link cfg <> None -> Forall (safe fn) es) -> alive (apply es f).
Proof.
  unfold alive. destruct (c_link cfg); [|trivial].
  intros Ha H. rewrite apply_safe; [exact Ha|apply H; discriminate].
Qed.

Lemma alive_touch f : alive f -> alive (apply1 f (Touch tp)).
Proof.
  intro Ha. change (apply1 f (Touch tp)) with (apply [Touch tp] f).
  apply alive_after; [exact Ha|]. intro H. constructor; [now apply tp_neq_fn|constructor].
Qed.

Lemma rd_touch f : alive f ->
  rd cfg fn (apply1 f (Touch tp))
  = match rd cfg fn f with Some b => Some b | None => Some [] end.
Proof.
  intro Ha. rewrite (rd_of_tp _ (alive_touch f Ha)), (rd_of_tp f Ha).
  cbn [apply1]. destruct (f tp) eqn:E; [exact E|apply upd_same].
Qed.

Lemma rd_rename f new : f temp = Some new ->
  rd cfg fn (apply1 f (Rename temp fn)) = Some new.
Proof.
  intro H. unfold rd. cbn [apply1]. rewrite H. destruct (c_link cfg); now rewrite upd_same.
Qed.

Lemma run_writes ws : forall f rest,
  run_ops cfg fn tok now chunk (St false false) f (map OWrite ws ++ rest) =
  let '(es, rs) := run_ops cfg fn tok now chunk (St false false)
                     (apply (map (Append temp) ws) f) rest in
  (map (Append temp) ws ++ es, map (fun _ => Ok tt) ws ++ rs).
Proof.
  induction ws as [|w ws IH]; intros f rest.
  - simpl. now destruct (run_ops cfg fn tok now chunk (St false false) f rest).
  - cbn [map app run_ops step a_closed]. fold temp.
    rewrite IH. cbn [apply fold_left]. fold (apply (map (Append temp) ws) (apply1 f (Append temp w))).
    destruct (run_ops cfg fn tok now chunk (St false false)
                (apply (map (Append temp) ws) (apply1 f (Append temp w))) rest).
    reflexivity.
Qed.

(* the file system when close()/rollback() is entered *)
Definition written (f0 : fs) (ws : list bytes) : fs :=
  apply (map (Append temp) ws) (apply [Create temp] f0).

Lemma written_temp f0 ws : written f0 ws temp = Some (concat ws).
Proof.
  unfold written. rewrite (apply_appends temp ws _ []); [reflexivity|].
  simpl. apply upd_same.
Qed.

Lemma written_safe p ws : temp <> p -> Forall (safe p) ([Create temp] ++ map (Append temp) ws).
Proof. intro H. constructor; [exact H|now apply appends_safe]. Qed.

Lemma written_rd f0 ws : rd cfg fn (written f0 ws) = rd cfg fn f0.
Proof.
  unfold written. rewrite <- apply_app. apply rd_safe; apply written_safe; [exact Htf|exact Htt].
Qed.

Definition save_effects (old : option bytes) (ws : list bytes) : list eff :=
  (Create temp :: map (Append temp) ws ++ [CloseF temp])
  ++ close_tail cfg fn tok now chunk old (concat ws).

Lemma effects_save f0 ws :
  effects cfg fn tok now chunk f0 (save_ops ws) = save_effects (rd cfg fn f0) ws.
Proof.
  unfold effects, session, save_ops. fold temp. rewrite run_writes.
  fold (written f0 ws).
  cbn [run_ops step a_rolled a_closed]. unfold close_effs. fold temp.
  rewrite written_temp. rewrite written_rd.
  cbn [fst]. unfold save_effects. fold temp.
  rewrite app_nil_r. cbn [app]. f_equal. rewrite <- app_assoc. reflexivity.
Qed.

Definition abort_effects (ws : list bytes) : list eff :=
  Create temp :: map (Append temp) ws ++ [CloseF temp; Remove temp].

Lemma effects_abort f0 ws :
  effects cfg fn tok now chunk f0 (abort_ops ws) = abort_effects ws.
Proof.
  unfold effects, session, abort_ops. fold temp. rewrite run_writes.
  fold (written f0 ws).
  cbn [run_ops step a_rolled a_closed]. fold temp. rewrite written_temp.
  cbn [fst]. unfold abort_effects. now rewrite app_nil_r.
Qed.

(* the part of a save before the target is touched: never changes the target *)
Definition head_effects (old : option bytes) (ws : list bytes) : list eff :=
  (Create temp :: map (Append temp) ws ++ [CloseF temp])
  ++ backup_effs cfg fn now chunk old (concat ws).

Lemma nosave_safe p ws : temp <> p ->
  Forall (safe p) (Create temp :: map (Append temp) ws ++ [CloseF temp]).
Proof.
  intro H. constructor; [exact H|]. apply Forall_app. split; [now apply appends_safe|].
  constructor; [exact Logic.I|constructor].
Qed.

Lemma backup_safe p old new : backup <> p -> Forall (safe p) (backup_effs cfg fn now chunk old new).
Proof.
  intro H. unfold backup_effs. fold backup. destruct old as [o|]; [|constructor].
  destruct (backup_wanted cfg (Some o) new); [|constructor].
  now apply copy_safe.
Qed.

Lemma head_safe p old ws : temp <> p -> backup <> p -> Forall (safe p) (head_effects old ws).
Proof.
  intros H1 H2. unfold head_effects. apply Forall_app. split;
    [now apply nosave_safe|now apply backup_safe].
Qed.

Lemma head_temp f0 old ws : apply (head_effects old ws) f0 temp = Some (concat ws).
Proof.
  unfold head_effects. rewrite apply_app. rewrite apply_safe by (apply backup_safe; congruence).
  change (Create temp :: map (Append temp) ws ++ [CloseF temp])
    with ([Create temp] ++ map (Append temp) ws ++ [CloseF temp]).
  rewrite !apply_app. fold (written f0 ws). simpl. apply written_temp.
Qed.

Lemma head_rd f0 old ws : rd cfg fn (apply (head_effects old ws) f0) = rd cfg fn f0.
Proof. apply rd_safe; apply head_safe; auto using Htt, Hbt. Qed.

Lemma head_alive f0 old ws : alive f0 -> alive (apply (head_effects old ws) f0).
Proof. apply alive_safe. now apply head_safe. Qed.

Lemma save_effects_split old ws :
  save_effects old ws =
  if overwrite_allowed cfg old (concat ws)
  then head_effects old ws ++ Touch tp :: move_effs cfg fn tok chunk (concat ws)
  else Create temp :: map (Append temp) ws ++ [CloseF temp].
Proof.
  unfold save_effects, close_tail, head_effects. fold tp.
  destruct (overwrite_allowed cfg old (concat ws)).
  - rewrite <- app_assoc. reflexivity.
  - now rewrite app_nil_r.
Qed.

(* --- C17_atomic_same_fs --- *)
Definition atomic_outcome (old : option bytes) (new : bytes) (t : option bytes) : Prop :=
  t = old \/ t = Some new \/ (old = None /\ t = Some []).

Lemma touch_temp f new : f temp = Some new -> apply1 f (Touch tp) temp = Some new.
Proof.
  intro H. rewrite apply1_safe; [exact H|]. simpl. pose proof Htt. congruence.
Qed.

Lemma atomic_same_fs f0 ws k :
  alive f0 -> xdev_eff cfg = false ->
  atomic_outcome (rd cfg fn f0) (concat ws)
    (rd cfg fn (apply (firstn k (effects cfg fn tok now chunk f0 (save_ops ws))) f0)).
Proof.
  intros Ha Hx. rewrite effects_save, save_effects_split.
  destruct (overwrite_allowed cfg (rd cfg fn f0) (concat ws)).
  2:{ left. apply rd_safe; apply Forall_firstn; apply nosave_safe; [exact Htf|exact Htt]. }
  unfold move_effs. rewrite Hx. fold temp.
  destruct (prefix_split k (head_effects (rd cfg fn f0) ws) [Touch tp; Rename temp fn]) as [E|[j E]];
    rewrite E.
  - left. apply rd_safe; apply Forall_firstn; apply head_safe; auto using Htt, Hbt.
  - rewrite apply_app.
    pose proof (head_temp f0 (rd cfg fn f0) ws) as Ht.
    pose proof (head_rd f0 (rd cfg fn f0) ws) as Hr.
    pose proof (head_alive f0 (rd cfg fn f0) ws Ha) as Ha1.
    set (f1 := apply (head_effects (rd cfg fn f0) ws) f0) in *.
    destruct j as [|[|j]]; cbn [firstn].
    + left. exact Hr.
    + unfold apply. cbn [fold_left]. rewrite (rd_touch f1 Ha1), Hr.
      destruct (rd cfg fn f0); [left; reflexivity|right; right; split; reflexivity].
    + replace (firstn j []) with (@nil eff) by (now destruct j).
      right. left. unfold apply. cbn [fold_left]. apply rd_rename. now apply touch_temp.
Qed.

(* --- complete run --- *)
Lemma save_final f0 ws :
  alive f0 ->
  overwrite_allowed cfg (rd cfg fn f0) (concat ws) = true ->
  rd cfg fn (apply (effects cfg fn tok now chunk f0 (save_ops ws)) f0) = Some (concat ws).
Proof.
  intros Ha Ho. rewrite effects_save, save_effects_split, Ho. rewrite apply_app, apply_cons.
  pose proof (head_temp f0 (rd cfg fn f0) ws) as Ht.
  pose proof (head_alive f0 (rd cfg fn f0) ws Ha) as Ha1.
  set (f1 := apply (head_effects (rd cfg fn f0) ws) f0) in *.
  pose proof (touch_temp f1 _ Ht) as Ht2. pose proof (alive_touch f1 Ha1) as Ha2.
  unfold move_effs. fold temp tp. destruct (xdev_eff cfg).
  - rewrite rd_of_tp.
    + rewrite apply_app. rewrite apply_safe.
      * apply copy_full.
      * constructor; [exact Htt|constructor].
    + apply alive_after; [exact Ha2|]. intro Hl. apply Forall_app. split.
      * apply copy_safe. now apply tp_neq_fn.
      * constructor; [exact Htf|constructor].
  - unfold apply. cbn [fold_left]. apply rd_rename. exact Ht2.
Qed.

Lemma save_final_temp_removed f0 ws :
  overwrite_allowed cfg (rd cfg fn f0) (concat ws) = true ->
  apply (effects cfg fn tok now chunk f0 (save_ops ws)) f0 temp = None.
Proof.
  intro Ho. rewrite effects_save, save_effects_split, Ho. rewrite apply_app, apply_cons.
  pose proof (head_temp f0 (rd cfg fn f0) ws) as Ht.
  set (f1 := apply (head_effects (rd cfg fn f0) ws) f0) in *.
  pose proof (touch_temp f1 _ Ht) as Ht2.
  unfold move_effs. fold temp tp. destruct (xdev_eff cfg).
  - rewrite apply_app. unfold apply at 1. cbn [fold_left apply1]. apply upd_same.
  - unfold apply. cbn [fold_left]. set (f2 := apply1 f1 (Touch tp)) in *.
    cbn [apply1]. rewrite Ht2. rewrite upd_other by exact Htf. apply upd_same.
Qed.

(* --- the empty-overwrite rule --- *)
Lemma empty_overwrite_refused f0 ws o k :
  rd cfg fn f0 = Some o -> concat ws = [] -> c_aeo cfg = false ->
  rd cfg fn (apply (firstn k (effects cfg fn tok now chunk f0 (save_ops ws))) f0) = Some o.
Proof.
  intros Ho He Ha. rewrite effects_save, save_effects_split.
  unfold overwrite_allowed. rewrite Ho, He, Ha. cbn [length Nat.eqb negb orb].
  rewrite <- Ho. apply rd_safe; apply Forall_firstn; apply nosave_safe; [exact Htf|exact Htt].
Qed.

Lemma overwrite_allowed_iff old new :
  overwrite_allowed cfg old new = true <-> (new <> [] \/ c_aeo cfg = true \/ old = None).
Proof.
  unfold overwrite_allowed. rewrite !orb_true_iff, negb_true_iff, Nat.eqb_neq. split.
  - intros [[H|H]|H]; [left|right; left|right; right]; auto.
    + intro E. subst. apply H. reflexivity.
    + destruct old; [discriminate|reflexivity].
  - intros [H|[H|H]]; [left; left|left; right|right]; auto.
    + destruct new; [congruence|discriminate].
    + subst. reflexivity.
Qed.

(* --- rollback --- *)
Lemma abort_safe p ws : temp <> p -> Forall (safe p) (abort_effects ws).
Proof.
  intro H. unfold abort_effects. constructor; [exact H|]. apply Forall_app. split; [now apply appends_safe|].
  constructor; [exact Logic.I|]. constructor; [exact H|constructor].
Qed.

Lemma rollback_keeps_old f0 ws k :
  rd cfg fn (apply (firstn k (effects cfg fn tok now chunk f0 (abort_ops ws))) f0) = rd cfg fn f0.
Proof. rewrite effects_abort. apply rd_safe; apply Forall_firstn; apply abort_safe; [exact Htf|exact Htt]. Qed.

Lemma rollback_removes_temp f0 ws :
  apply (effects cfg fn tok now chunk f0 (abort_ops ws)) f0 temp = None.
Proof.
  rewrite effects_abort. unfold abort_effects.
  change (Create temp :: map (Append temp) ws ++ [CloseF temp; Remove temp])
    with ([Create temp] ++ map (Append temp) ws ++ [CloseF temp; Remove temp]).
  rewrite !apply_app. unfold apply at 1. cbn [fold_left apply1]. apply upd_same.
Qed.

(* --- the backup rule --- *)
Lemma tail_safe_backup new : Forall (safe backup) (Touch tp :: move_effs cfg fn tok chunk new).
Proof.
  pose proof Hbt as Hbt'.
  constructor; [simpl; congruence|].
  unfold move_effs. fold temp tp. destruct (xdev_eff cfg).
  - apply Forall_app. split; [apply copy_safe; congruence|].
    constructor; [exact Htb|constructor].
  - constructor; [split; [exact Htb|congruence]|constructor].
Qed.

Lemma backup_made f0 ws o :
  rd cfg fn f0 = Some o ->
  overwrite_allowed cfg (rd cfg fn f0) (concat ws) = true ->
  backup_wanted cfg (rd cfg fn f0) (concat ws) = true ->
  apply (effects cfg fn tok now chunk f0 (save_ops ws)) f0 backup = Some o.
Proof.
  intros Ho Hov Hb. rewrite effects_save, save_effects_split, Hov.
  rewrite apply_app. rewrite apply_safe by apply tail_safe_backup.
  unfold head_effects. rewrite apply_app. unfold backup_effs. rewrite Hb, Ho.
  fold backup. apply copy_full.
Qed.

Lemma backup_untouched f0 ws k :
  backup_wanted cfg (rd cfg fn f0) (concat ws) = false ->
  apply (firstn k (effects cfg fn tok now chunk f0 (save_ops ws))) f0 backup = f0 backup.
Proof.
  intro Hb. rewrite effects_save. apply apply_safe, Forall_firstn.
  unfold save_effects. apply Forall_app. split.
  - apply nosave_safe. exact Htb.
  - unfold close_tail. destruct (overwrite_allowed cfg (rd cfg fn f0) (concat ws)); [|constructor].
    apply Forall_app. split.
    + unfold backup_effs. rewrite Hb. destruct (rd cfg fn f0); constructor.
    + apply tail_safe_backup.
Qed.

(* --- tmpDir on another file system: old, or a prefix of new --- *)
Lemma xdev_prefix f0 ws k :
  alive f0 ->
  let t := rd cfg fn (apply (firstn k (effects cfg fn tok now chunk f0 (save_ops ws))) f0) in
  t = rd cfg fn f0 \/ exists m, t = Some (firstn m (concat ws)).
Proof.
  intro Ha. cbv zeta. rewrite effects_save, save_effects_split.
  destruct (overwrite_allowed cfg (rd cfg fn f0) (concat ws)).
  2:{ left. apply rd_safe; apply Forall_firstn; apply nosave_safe; [exact Htf|exact Htt]. }
  pose proof (head_temp f0 (rd cfg fn f0) ws) as Ht.
  pose proof (head_rd f0 (rd cfg fn f0) ws) as Hr.
  pose proof (head_alive f0 (rd cfg fn f0) ws Ha) as Ha1.
  destruct (prefix_split k (head_effects (rd cfg fn f0) ws)
              (Touch tp :: move_effs cfg fn tok chunk (concat ws))) as [E|[j E]]; rewrite E.
  { left. apply rd_safe; apply Forall_firstn; apply head_safe; auto using Htt, Hbt. }
  rewrite apply_app. set (f1 := apply (head_effects (rd cfg fn f0) ws) f0) in *.
  destruct j as [|j]; [left; exact Hr|]. cbn [firstn]. rewrite apply_cons.
  pose proof (alive_touch f1 Ha1) as Ha2. pose proof (touch_temp f1 _ Ht) as Ht2.
  pose proof (rd_touch f1 Ha1) as Hr2. rewrite Hr in Hr2.
  set (f2 := apply1 f1 (Touch tp)) in *.
  assert (Hf2 : rd cfg fn f2 = rd cfg fn f0 \/ rd cfg fn f2 = Some (firstn 0 (concat ws))).
  { rewrite Hr2. destruct (rd cfg fn f0); [left|right]; reflexivity. }
  unfold move_effs. fold temp tp. destruct (xdev_eff cfg).
  - assert (Hal : forall es, (exists i, es = firstn i (copy_effs chunk (concat ws) tp ++ [Remove temp])) ->
                  alive (apply es f2)).
    { intros es [i ->]. apply alive_after; [exact Ha2|]. intro Hl. apply Forall_firstn.
      apply Forall_app. split; [apply copy_safe; now apply tp_neq_fn|].
      constructor; [exact Htf|constructor]. }
    rewrite rd_of_tp by (apply Hal; now exists j).
    destruct (prefix_split j (copy_effs chunk (concat ws) tp) [Remove temp]) as [E2|[i E2]]; rewrite E2.
    + destruct j as [|j'].
      * cbn [firstn]. change (apply [] f2) with f2. rewrite <- (rd_of_tp f2 Ha2).
        destruct Hf2 as [H|H]; [left|right; exists 0%nat]; exact H.
      * right. apply copy_prefix. discriminate.
    + right. exists (length (concat ws)). rewrite firstn_all. rewrite apply_app.
      rewrite apply_safe; [apply copy_full|]. apply Forall_firstn. constructor; [exact Htt|constructor].
  - destruct j as [|j]; cbn [firstn].
    + change (apply [] f2) with f2. destruct Hf2 as [H|H]; [left|right; exists 0%nat]; exact H.
    + replace (firstn j []) with (@nil eff) by (now destruct j).
      right. exists (length (concat ws)). rewrite firstn_all.
      unfold apply. cbn [fold_left]. apply rd_rename. exact Ht2.
Qed.

(* --- death by an exception: prefix, then the unwinding --- *)
Lemma unwind_safe p inited pre f :
  unwind_commits = false -> temp <> p ->
  Forall (safe p) (unwind_effs cfg fn tok now chunk inited pre f).
Proof.
  intros Hu Hp. unfold unwind_effs, unwind_op. rewrite Hu.
  destruct inited; [|constructor].
  cbn [step a_closed]. fold temp. destruct (existsb is_closeF pre); cbn [fst snd]; [constructor|].
  constructor; [exact Logic.I|]. destruct (f temp); [|constructor].
  constructor; [exact Hp|constructor].
Qed.

Lemma unwind_target inited pre f0 :
  unwind_commits = false ->
  rd cfg fn (apply (pre ++ unwind_effs cfg fn tok now chunk inited pre (apply pre f0)) f0)
  = rd cfg fn (apply pre f0).
Proof.
  intro Hu. rewrite apply_app. apply rd_safe; apply unwind_safe; auto using Htt.
Qed.

Lemma atomic_under_unwinding f0 ws k inited :
  unwind_commits = false -> alive f0 ->
  xdev_eff cfg = false ->
  atomic_outcome (rd cfg fn f0) (concat ws)
    (rd cfg fn (apply (interrupted cfg fn tok now chunk f0 (save_ops ws) k inited) f0)).
Proof.
  intros Hu Ha Hx. unfold interrupted. rewrite unwind_target by exact Hu. now apply atomic_same_fs.
Qed.

Lemma unwinding_old_or_prefix f0 ws k inited :
  unwind_commits = false -> alive f0 ->
  let t := rd cfg fn (apply (interrupted cfg fn tok now chunk f0 (save_ops ws) k inited) f0) in
  t = rd cfg fn f0 \/ exists m, t = Some (firstn m (concat ws)).
Proof.
  intros Hu Ha. cbv zeta. unfold interrupted. rewrite unwind_target by exact Hu. now apply xdev_prefix.
Qed.

(* an exception while the temp file is still open (outside __init__): the temp file is removed *)
Lemma unwinding_removes_temp f0 ops k :
  unwind_commits = false ->
  let pre := firstn k (effects cfg fn tok now chunk f0 ops) in
  existsb is_closeF pre = false ->
  apply (interrupted cfg fn tok now chunk f0 ops k true) f0 temp = None.
Proof.
  intros Hu pre Hc. unfold interrupted. fold pre. rewrite apply_app.
  unfold unwind_effs, unwind_op. rewrite Hu, Hc. cbn [step a_closed fst snd]. fold temp.
  destruct (apply pre f0 temp) eqn:E.
  - unfold apply at 1. cbn [fold_left apply1]. apply upd_same.
  - unfold apply at 1. cbn [fold_left apply1]. exact E.
Qed.
End Session.

(* the domain of a symlinked target: the path fn itself holds no regular file
   (it is the link), and the link points somewhere else than the paths the save uses *)
Definition link_ok (cfg : config) (fn tok now : str) (f0 : fs) : Prop :=
  match c_link cfg with
  | Some q => f0 fn = None /\ q <> fn /\ q <> temp_name cfg fn tok /\ q <> backup_name cfg fn now
  | None => True
  end.

Lemma link_ok_paths cfg fn tok now f0 : link_ok cfg fn tok now f0 ->
  forall q, c_link cfg = Some q ->
  q <> fn /\ q <> temp_name cfg fn tok /\ q <> backup_name cfg fn now.
Proof. unfold link_ok. intros H q E. rewrite E in H. tauto. Qed.

Lemma link_ok_alive cfg fn tok now f0 : link_ok cfg fn tok now f0 -> alive cfg fn f0.
Proof. unfold link_ok, alive. destruct (c_link cfg); tauto. Qed.

(* the regenerated table says: unwinding never commits *)
Lemma table_unwind_rolls_back : unwind_commits = false.
Proof. vm_compute. reflexivity. Qed.

(* the regenerated table says: no caller swallows the I/O error of a write *)
Lemma table_no_swallow : write_errors_swallowed = false.
Proof. vm_compute. reflexivity. Qed.

(* ---------- dbi.FlatfileMapping.add (in place) ---------- *)
Lemma table_flat_next_id_first : gen.T17.FLAT_ADD_NEXT_ID_FIRST = true.
Proof. vm_compute. reflexivity. Qed.

Lemma flat_ok_mono n m recs : (n <= m)%N ->
  forallb (fun r : N * str => N.ltb (fst r) n) recs = true ->
  forallb (fun r : N * str => N.ltb (fst r) m) recs = true.
Proof.
  intros Hle H. rewrite forallb_forall in *. intros r Hr. specialize (H r Hr).
  apply N.ltb_lt in H. apply N.ltb_lt. lia.
Qed.

Lemma flat_add_crash_safe st s k :
  flat_ok st = true ->
  let st' := fapply (firstn k (add_effects st s)) st in
  flat_ok st' = true /\
  (fl_recs st' = fl_recs st \/ fl_recs st' = fl_recs st ++ [(fl_next st, s)]).
Proof.
  intro H. unfold add_effects. rewrite table_flat_next_id_first. unfold flat_ok in *.
  destruct k as [|[|k]]; cbn [firstn fapply fold_left fapply1 fl_next fl_recs].
  - split; [exact H|left; reflexivity].
  - split; [|left; reflexivity]. apply (flat_ok_mono (fl_next st)); [lia|exact H].
  - replace (firstn k []) with (@nil feff) by (now destruct k).
    cbn [fold_left fl_next fl_recs]. split; [|right; reflexivity].
    rewrite forallb_app. apply andb_true_iff. split.
    + apply (flat_ok_mono (fl_next st)); [lia|exact H].
    + cbn [forallb fst]. rewrite andb_true_r. apply N.ltb_lt. lia.
Qed.

(* the other order (record first, header in a finally:) hands the same id out twice after a crash *)
Example flat_record_first_breaks :
  let st := Flat 3 [(1, [97]); (2, [98])] in
  flat_ok st = true /\ flat_ok (fapply [AppendRec 3 [99]] st) = false.
Proof. vm_compute. split; reflexivity. Qed.

(* ---------- dbi.FlatfileMapping.remove / set (in place) ---------- *)
Lemma without_none id recs : count_id id recs = 0%nat -> without id recs = recs.
Proof.
  unfold count_id, without. induction recs as [|r recs IH]; [reflexivity|].
  cbn [filter]. destruct (N.eqb (fst r) id); cbn [negb length]; [discriminate|].
  intro H. now rewrite IH.
Qed.

Lemma remove_first_none id recs : count_id id recs = 0%nat -> remove_first id recs = recs.
Proof.
  unfold count_id. induction recs as [|r recs IH]; [reflexivity|].
  cbn [filter remove_first]. destruct (N.eqb (fst r) id); cbn [length]; [discriminate|].
  intro H. now rewrite IH.
Qed.

Lemma remove_first_one id recs : count_id id recs = 1%nat -> remove_first id recs = without id recs.
Proof.
  unfold count_id, without. induction recs as [|r recs IH]; [discriminate|].
  cbn [filter remove_first]. destruct (N.eqb (fst r) id) eqn:E; cbn [negb length].
  - intro H. injection H as H. symmetry. now apply without_none.
  - intro H. now rewrite IH.
Qed.

Lemma unique_count id recs : ids_unique recs = true -> (count_id id recs <= 1)%nat.
Proof.
  unfold count_id. induction recs as [|r recs IH]; [intros; cbn; lia|].
  cbn [ids_unique filter]. intro H. apply andb_true_iff in H as [H1 H2].
  destruct (N.eqb (fst r) id) eqn:E; [|now apply IH].
  cbn [length]. apply N.eqb_eq in E. apply negb_true_iff in H1.
  assert (Hz : length (filter (fun r0 : N * str => N.eqb (fst r0) id) recs) = 0%nat).
  { destruct (filter (fun r0 : N * str => N.eqb (fst r0) id) recs) as [|x l] eqn:Ef; [reflexivity|].
    assert (Hin : In x (filter (fun r0 : N * str => N.eqb (fst r0) id) recs)) by (rewrite Ef; now left).
    apply filter_In in Hin as [Hin Hx]. exfalso.
    assert (existsb (fun x0 : N * str => N.eqb (fst x0) (fst r)) recs = true).
    { apply existsb_exists. exists x. split; [exact Hin|]. now rewrite E. }
    congruence. }
  lia.
Qed.

(* remove: with unique ids every death leaves the old or the new records *)
Lemma flat_remove_old_or_new st id k :
  ids_unique (fl_recs st) = true ->
  let st' := fapply2 (firstn k (remove_effects st id)) st in
  fl_recs st' = fl_recs st \/ fl_recs st' = removed_recs st id.
Proof.
  intro Hu. pose proof (unique_count id _ Hu) as Hc. unfold remove_effects, removed_recs.
  destruct (count_id id (fl_recs st)) as [|[|n]] eqn:E; [| |lia].
  - cbn [repeat]. replace (firstn k []) with (@nil feff2) by (now destruct k). left. reflexivity.
  - cbn [repeat]. destruct k as [|k]; [left; reflexivity|].
    cbn [firstn]. replace (firstn k []) with (@nil feff2) by (now destruct k).
    right. cbn. now apply remove_first_one.
Qed.

(* set: old, or the record LOST (the dashed-out window), or new *)
Lemma flat_set_old_lost_or_new st id s k :
  ids_unique (fl_recs st) = true ->
  let st' := fapply2 (firstn k (set_effects st id s)) st in
  fl_recs st' = fl_recs st \/ fl_recs st' = without id (fl_recs st) \/ fl_recs st' = set_recs st id s.
Proof.
  intro Hu. pose proof (unique_count id _ Hu) as Hc. unfold set_effects, remove_effects, set_recs.
  destruct (count_id id (fl_recs st)) as [|[|n]] eqn:E; [| |lia]; cbn [repeat app].
  - destruct k as [|k]; [left; reflexivity|]. cbn [firstn].
    replace (firstn k []) with (@nil feff2) by (now destruct k).
    right. right. cbn. now rewrite without_none.
  - destruct k as [|[|k]]; [left; reflexivity| |]; cbn [firstn].
    + right. left. cbn. now apply remove_first_one.
    + replace (firstn k []) with (@nil feff2) by (now destruct k).
      right. right. cbn. now rewrite remove_first_one.
Qed.

(* on the domain "the id is not in the file" set is a pure append: old or new *)
Lemma flat_set_on_domain st id s k :
  count_id id (fl_recs st) = 0%nat ->
  let st' := fapply2 (firstn k (set_effects st id s)) st in
  fl_recs st' = fl_recs st \/ fl_recs st' = set_recs st id s.
Proof.
  intro E. unfold set_effects, remove_effects, set_recs. rewrite E. cbn [repeat app].
  destruct k as [|k]; [left; reflexivity|]. cbn [firstn].
  replace (firstn k []) with (@nil feff2) by (now destruct k).
  right. cbn. now rewrite without_none.
Qed.

Lemma flat_set_refuted :
  let st := Flat 3 [(1, [97]); (2, [98])] in
  ids_unique (fl_recs st) = true /\ count_id 1 (fl_recs st) <> 0%nat /\
  let st' := fapply2 (firstn 1 (set_effects st 1 [99])) st in
  ~ (fl_recs st' = fl_recs st \/ fl_recs st' = set_recs st 1 [99]).
Proof.
  cbv zeta. split; [reflexivity|]. split; [vm_compute; discriminate|].
  intros [H|H]; vm_compute in H; discriminate.
Qed.
