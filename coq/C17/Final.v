(* C17/Final.v — the statements of Props.v, proved from Lemmas.v / Names.v / Witness.v *)
From Coq Require Import List NArith Bool.
Import ListNotations.
Require Import Base.Wire Base.PyStr C17.Model C17.Names C17.Lemmas C17.Witness.
Require gen.T17.

Ltac dom H := pose proof (link_ok_paths _ _ _ _ _ H); pose proof (link_ok_alive _ _ _ _ _ H).

Lemma C17_atomic_on_domain_l :
  forall cfg fn tok now chunk (f0 : fs) (ws : list bytes) k,
  token_ok tok = true -> digits_ok now = true -> link_ok cfg fn tok now f0 -> same_fs cfg = true ->
  let t := rd cfg fn (apply (firstn k (effects cfg fn tok now chunk f0 (save_ops ws))) f0) in
  t = rd cfg fn f0 \/ t = Some (concat ws) \/ (rd cfg fn f0 = None /\ t = Some []).
Proof.
  intros cfg fn tok now chunk f0 ws k Ht Hn Hl Hs. dom Hl. apply atomic_same_fs; auto.
  unfold same_fs in Hs. now apply negb_true_iff in Hs.
Qed.

Lemma C17_atomic_refuted_l :
  exists cfg fn tok now chunk (f0 : fs) (ws : list bytes) k,
  token_ok tok = true /\ digits_ok now = true /\ link_ok cfg fn tok now f0 /\ same_fs cfg = false /\
  let t := rd cfg fn (apply (firstn k (effects cfg fn tok now chunk f0 (save_ops ws))) f0) in
  ~ (t = rd cfg fn f0 \/ t = Some (concat ws) \/ (rd cfg fn f0 = None /\ t = Some [])).
Proof.
  exists w_cfg_x, w_fn, w_tok, w_now, 6%nat, w_f0, w_ws, 8%nat. exact atomic_refuted.
Qed.

Lemma C17_any_cfg_old_or_prefix_l :
  forall cfg fn tok now chunk (f0 : fs) (ws : list bytes) k,
  token_ok tok = true -> digits_ok now = true -> link_ok cfg fn tok now f0 ->
  let t := rd cfg fn (apply (firstn k (effects cfg fn tok now chunk f0 (save_ops ws))) f0) in
  t = rd cfg fn f0 \/ exists m, t = Some (firstn m (concat ws)).
Proof. intros until 2. intro Hl. dom Hl. apply xdev_prefix; assumption. Qed.

Lemma C17_temp_never_read_l :
  forall cfg fn tok now, token_ok tok = true -> digits_ok now = true ->
  temp_name cfg fn tok <> fn /\ backup_name cfg fn now <> fn /\
  temp_name cfg fn tok <> backup_name cfg fn now.
Proof.
  intros cfg fn tok now Ht Hn. split; [now apply temp_neq_target|].
  split; [now apply backup_neq_target|now apply temp_neq_backup].
Qed.

Lemma C17_rollback_keeps_old_l :
  forall cfg fn tok now chunk (f0 : fs) (ws : list bytes),
  token_ok tok = true -> digits_ok now = true -> link_ok cfg fn tok now f0 ->
  (forall k, rd cfg fn (apply (firstn k (effects cfg fn tok now chunk f0 (abort_ops ws))) f0) = rd cfg fn f0) /\
  apply (effects cfg fn tok now chunk f0 (abort_ops ws)) f0 (temp_name cfg fn tok) = None.
Proof.
  intros until 2. intro Hl. dom Hl.
  split; [intro k; now apply rollback_keeps_old|now apply rollback_removes_temp].
Qed.

Lemma C17_empty_overwrite_rule_l :
  forall cfg fn tok now chunk (f0 : fs) (ws : list bytes) o k,
  token_ok tok = true -> digits_ok now = true -> link_ok cfg fn tok now f0 ->
  rd cfg fn f0 = Some o -> concat ws = [] -> c_aeo cfg = false ->
  rd cfg fn (apply (firstn k (effects cfg fn tok now chunk f0 (save_ops ws))) f0) = Some o.
Proof. intros until 2. intro Hl. dom Hl. intros. now apply empty_overwrite_refused. Qed.

Lemma C17_save_completes_l :
  forall cfg fn tok now chunk (f0 : fs) (ws : list bytes),
  token_ok tok = true -> digits_ok now = true -> link_ok cfg fn tok now f0 ->
  (concat ws <> [] \/ c_aeo cfg = true \/ rd cfg fn f0 = None) ->
  rd cfg fn (apply (effects cfg fn tok now chunk f0 (save_ops ws)) f0) = Some (concat ws) /\
  apply (effects cfg fn tok now chunk f0 (save_ops ws)) f0 (temp_name cfg fn tok) = None.
Proof.
  intros cfg fn tok now chunk f0 ws Ht Hn Hl H. dom Hl. apply overwrite_allowed_iff in H.
  split; [now apply save_final|now apply save_final_temp_removed].
Qed.

Lemma C17_backup_rule_l :
  forall cfg fn tok now chunk (f0 : fs) (ws : list bytes),
  token_ok tok = true -> digits_ok now = true -> link_ok cfg fn tok now f0 ->
  (forall o, rd cfg fn f0 = Some o ->
     overwrite_allowed cfg (rd cfg fn f0) (concat ws) = true ->
     backup_wanted cfg (rd cfg fn f0) (concat ws) = true ->
     apply (effects cfg fn tok now chunk f0 (save_ops ws)) f0 (backup_name cfg fn now) = Some o) /\
  (backup_wanted cfg (rd cfg fn f0) (concat ws) = false ->
     forall k, apply (firstn k (effects cfg fn tok now chunk f0 (save_ops ws))) f0 (backup_name cfg fn now)
               = f0 (backup_name cfg fn now)).
Proof.
  intros cfg fn tok now chunk f0 ws Ht Hn Hl. dom Hl. split.
  - intros o Ho Hov Hb. now apply backup_made.
  - intros Hb k. now apply backup_untouched.
Qed.

Lemma C17_atomic_under_unwinding_l :
  forall cfg fn tok now chunk (f0 : fs) (ws : list bytes) k inited,
  token_ok tok = true -> digits_ok now = true -> link_ok cfg fn tok now f0 -> same_fs cfg = true ->
  let t := rd cfg fn (apply (interrupted cfg fn tok now chunk f0 (save_ops ws) k inited) f0) in
  t = rd cfg fn f0 \/ t = Some (concat ws) \/ (rd cfg fn f0 = None /\ t = Some []).
Proof.
  intros cfg fn tok now chunk f0 ws k inited Ht Hn Hl Hs. dom Hl.
  apply atomic_under_unwinding; auto using table_unwind_rolls_back.
  unfold same_fs in Hs. now apply negb_true_iff in Hs.
Qed.

Lemma C17_unwinding_any_cfg_old_or_prefix_l :
  forall cfg fn tok now chunk (f0 : fs) (ws : list bytes) k inited,
  token_ok tok = true -> digits_ok now = true -> link_ok cfg fn tok now f0 ->
  let t := rd cfg fn (apply (interrupted cfg fn tok now chunk f0 (save_ops ws) k inited) f0) in
  t = rd cfg fn f0 \/ exists m, t = Some (firstn m (concat ws)).
Proof. intros until 2. intro Hl. dom Hl. apply unwinding_old_or_prefix; auto using table_unwind_rolls_back. Qed.

Lemma C17_unwinding_removes_temp_l :
  forall cfg fn tok now chunk (f0 : fs) (ops : list op) k,
  token_ok tok = true -> digits_ok now = true ->
  existsb is_closeF (firstn k (effects cfg fn tok now chunk f0 ops)) = false ->
  apply (interrupted cfg fn tok now chunk f0 ops k true) f0 (temp_name cfg fn tok) = None.
Proof. intros. apply unwinding_removes_temp; auto using table_unwind_rolls_back. Qed.

Lemma C17_atomic_under_write_error_l :
  forall cfg fn tok now chunk (f0 : fs) (ws : list bytes) k inited j,
  token_ok tok = true -> digits_ok now = true -> link_ok cfg fn tok now f0 -> same_fs cfg = true ->
  let t := rd cfg fn (apply (write_error_effects cfg fn tok now chunk f0 ws k inited j) f0) in
  t = rd cfg fn f0 \/ t = Some (concat ws) \/ (rd cfg fn f0 = None /\ t = Some []).
Proof.
  intros cfg fn tok now chunk f0 ws k inited j Ht Hn Hl Hs. unfold write_error_effects.
  rewrite table_no_swallow. now apply C17_atomic_under_unwinding_l.
Qed.

Lemma C17_flat_add_never_reuses_an_id_l :
  forall (st : flat) (s : str) k, flat_ok st = true ->
  let st' := fapply (firstn k (add_effects st s)) st in
  flat_ok st' = true /\
  (fl_recs st' = fl_recs st \/ fl_recs st' = fl_recs st ++ [(fl_next st, s)]).
Proof. exact flat_add_crash_safe. Qed.

Lemma C17_flat_set_refuted_l :
  exists (st : flat) id s k,
  ids_unique (fl_recs st) = true /\ count_id id (fl_recs st) <> 0%nat /\
  let st' := fapply2 (firstn k (set_effects st id s)) st in
  ~ (fl_recs st' = fl_recs st \/ fl_recs st' = set_recs st id s).
Proof. exists (Flat 3 [(1, [97]); (2, [98])]), 1%N, [99%N], 1%nat. exact flat_set_refuted. Qed.
