(* C17/Witness.v — concrete witnesses: the refutation of atomicity when tmpDir is
   on another file system (finding F20), and non-vacuity examples. *)
From Coq Require Import List NArith Bool.
Import ListNotations.
Require Import Base.Wire Base.PyStr C17.Model C17.Names C17.Lemmas.
Require gen.T17.
Open Scope N_scope.

Definition same_fs (cfg : config) : bool := negb (xdev_eff cfg).

Definition w_fn : str := [99; 111; 110; 102; 47; 114; 97; 119; 46; 100; 98].
Definition w_tok : str := [51; 102; 55; 56; 54; 56; 53; 48; 101; 51; 56; 55; 53; 53; 48; 102; 100; 97; 98; 56; 51; 54; 101; 100; 55; 101; 54; 100; 99; 56; 56; 49; 100; 101; 50; 51; 48; 48; 49; 98].
Definition w_now : str := [49; 55; 48; 48; 48; 48; 48; 48; 48; 48].
Definition w_old : bytes := [79; 76; 68; 45; 49; 32; 79; 76; 68; 45; 50; 32].
Definition w_ws : list bytes := [[78; 69; 87; 45; 49; 32]; [78; 69; 87; 45; 50; 32]; [78; 69; 87; 45; 51; 32]].
Definition w_cfg_x : config := Cfg (Some [116; 109; 112]) true None true true None.
Definition w_cfg_s : config := Cfg (Some [116; 109; 112]) false (Some [98; 97; 99; 107; 117; 112]) true false None.
Definition w_f0 : fs := fun q => if seq_eqb q w_fn then Some w_old else None.

(* the state after the first 8 effects (create temp, 3 writes, close, touch,
   truncate target, first copied chunk of 6 bytes) *)
Lemma refute_target :
  apply (firstn 8 (effects w_cfg_x w_fn w_tok w_now 6 w_f0 (save_ops w_ws))) w_f0 w_fn
  = Some [78; 69; 87; 45; 49; 32].
Proof. vm_compute. reflexivity. Qed.

Lemma atomic_refuted :
  token_ok w_tok = true /\ digits_ok w_now = true /\ link_ok w_cfg_x w_fn w_tok w_now w_f0 /\
  same_fs w_cfg_x = false /\
  ~ atomic_outcome (rd w_cfg_x w_fn w_f0) (concat w_ws)
      (rd w_cfg_x w_fn (apply (firstn 8 (effects w_cfg_x w_fn w_tok w_now 6 w_f0 (save_ops w_ws))) w_f0)).
Proof.
  split; [vm_compute; reflexivity|]. split; [vm_compute; reflexivity|].
  split; [exact Logic.I|]. split; [vm_compute; reflexivity|].
  change (rd w_cfg_x w_fn) with (fun f : fs => f w_fn). cbv beta.
  rewrite refute_target. intros [H|[H|[H _]]]; vm_compute in H; discriminate.
Qed.

(* a symlinked target: conf/raw.db -> store/raw.db, same file system *)
Definition w_q : path := [115; 116; 111; 114; 101; 47; 114; 97; 119; 46; 100; 98].
Definition w_cfg_l : config := Cfg None false None true true (Some w_q).
Definition w_f0_l : fs := fun p => if seq_eqb p w_q then Some w_old else None.
Example ex_link_ok : link_ok w_cfg_l w_fn w_tok w_now w_f0_l /\ same_fs w_cfg_l = true
                     /\ rd w_cfg_l w_fn w_f0_l = Some w_old.
Proof.
  split; [|split; vm_compute; reflexivity].
  unfold link_ok. cbn [c_link w_cfg_l]. repeat split; vm_compute; discriminate || reflexivity.
Qed.
(* the clean commit replaces the LINK by the new file; the old file behind it is left as it was *)
Example ex_link_save :
  let f := apply (effects w_cfg_l w_fn w_tok w_now 0 w_f0_l (save_ops w_ws)) w_f0_l in
  rd w_cfg_l w_fn f = Some (concat w_ws) /\ f w_fn = Some (concat w_ws) /\ f w_q = Some w_old.
Proof. vm_compute. repeat split; reflexivity. Qed.

(* non-vacuity of the hypotheses used in Props.v *)
Example ex_token : token_ok w_tok = true.            Proof. vm_compute. reflexivity. Qed.
Example ex_now : digits_ok w_now = true.              Proof. vm_compute. reflexivity. Qed.
Example ex_same_fs : same_fs w_cfg_s = true.          Proof. vm_compute. reflexivity. Qed.
Example ex_same_fs_default : same_fs (Cfg None true None true true None) = true.
Proof. vm_compute. reflexivity. Qed.
(* a same-fs save with a backup really renames: the final target is the new content *)
Example ex_save :
  apply (effects w_cfg_s w_fn w_tok w_now 4 w_f0 (save_ops [[1; 2]; [3]])) w_f0 w_fn = Some [1; 2; 3]
  /\ apply (effects w_cfg_s w_fn w_tok w_now 4 w_f0 (save_ops [[1; 2]; [3]])) w_f0
       (backup_name w_cfg_s w_fn w_now) = Some w_old.
Proof. vm_compute. split; reflexivity. Qed.
Example ex_refused : w_f0 w_fn = Some w_old /\ concat [[]; []] = @nil N /\ c_aeo w_cfg_s = false.
Proof. vm_compute. repeat split; reflexivity. Qed.
Example ex_allowed : overwrite_allowed w_cfg_s (w_f0 w_fn) [1] = true.
Proof. vm_compute. reflexivity. Qed.
Example ex_backup_wanted : backup_wanted w_cfg_s (w_f0 w_fn) [1] = true.
Proof. vm_compute. reflexivity. Qed.
Example ex_backup_not_wanted : backup_wanted w_cfg_s (w_f0 w_fn) (w_old ++ [1]) = false.
Proof. vm_compute. reflexivity. Qed.

(* an exception after the first write of a same-fs save: the unwinding closes and
   removes the temp file, the target is still the old version *)
Example ex_unwind :
  let es := interrupted w_cfg_s w_fn w_tok w_now 4 w_f0 (save_ops [[1; 2]; [3]]) 2 true in
  length es = 4%nat /\ apply es w_f0 w_fn = Some w_old /\
  apply es w_f0 (temp_name w_cfg_s w_fn w_tok) = None.
Proof. vm_compute. repeat split; reflexivity. Qed.

(* a swallowed write error would commit a file that is neither old nor new: the
   reason why SWALLOW_WRITE_ERROR_SITES has to be empty (finding C17.F44, fixed) *)
Example ex_swallowed_would_break :
  ~ atomic_outcome (w_f0 w_fn) (concat w_ws)
      (apply (effects w_cfg_s w_fn w_tok w_now 6 w_f0 (swallowed_ops w_ws 1)) w_f0 w_fn).
Proof. intros [H|[H|[H _]]]; vm_compute in H; discriminate. Qed.
