(* C17/Model.v — executable model of src/utils/file.py:AtomicFile over a
   file-system model.  The file system is a map path -> option bytes; the
   AtomicFile methods are mirrored statement by statement as producers of
   primitive *effects* (what reaches the kernel, in program order).  A crash by
   process death = any prefix of the effect list (kernel buffers survive; power
   loss is out of scope).  No proofs in this file. *)
From Coq Require Import List NArith ZArith Bool.
Import ListNotations.
Require Import Base.Wire Base.PyStr.
Require gen.T17.
Open Scope N_scope.

Definition SLASH : N := 47.
Definition DOT : N := 46.

Definition path := str.
Definition fs := path -> option bytes.

Definition upd (p : path) (v : option bytes) (f : fs) : fs :=
  fun q => if seq_eqb q p then v else f q.

(* primitive effects (POSIX contract, trusted):
   Create p   = open(p,'w'/'wb'): create or truncate
   Append p b = write/sendfile of b at the end of p
   CloseF p   = close of the temp fd (flush of user-space buffers; no further change in this model)
   Rename a b = os.rename: atomic replace of b by a
   Touch p    = open(p,'a').close(): creates an empty file iff absent
   Remove p   = os.remove / os.unlink *)
Inductive eff : Type :=
| Create (p : path)
| Append (p : path) (b : bytes)
| CloseF (p : path)
| Rename (a b : path)
| Touch (p : path)
| Remove (p : path).

Definition apply1 (f : fs) (e : eff) : fs :=
  match e with
  | Create p => upd p (Some []) f
  | Append p b => match f p with Some c => upd p (Some (c ++ b)) f | None => f end
  | CloseF _ => f
  | Rename a b => match f a with Some c => upd b (Some c) (upd a None f) | None => f end
  | Touch p => match f p with Some _ => f | None => upd p (Some []) f end
  | Remove p => upd p None f
  end.

Definition apply (es : list eff) (f : fs) : fs := fold_left apply1 es f.

(* ---- os.path.basename / os.path.join (posixpath) ---- *)
Fixpoint basename_go (cur s : str) : str :=
  match s with
  | [] => cur
  | c :: s' => if N.eqb c SLASH then basename_go [] s' else basename_go (cur ++ [c]) s'
  end.
Definition basename (s : str) : str := basename_go [] s.

Definition path_join (a b : str) : str :=
  if startswith [SLASH] b then b
  else match a with
       | [] => b
       | _ => if endswith1 SLASH a then a ++ b else a ++ SLASH :: b
       end.

(* ---- configuration and names ---- *)
(* c_tmp/c_backup: tmpDir / backupDir after the defaults were forced.
   c_xdev: environment fact, "os.rename(temp, target) fails with EXDEV"
   (tmpDir on another file system).  It can only be true with a tmpDir. *)
Record config := Cfg {
  c_tmp : option str; c_xdev : bool; c_backup : option str;
  c_mbis : bool;    (* makeBackupIfSmaller *)
  c_aeo : bool;     (* allowEmptyOverwrite *)
  c_link : option path   (* environment fact: the target path is a symbolic link to this path
                            (e.g. conf/users.conf -> ../store/users.conf); None = not a link *)
}.

(* Symbolic link at the target path.  The map [fs] holds regular files only; a
   live link at fn -> q is "no regular file at fn", and everything that OPENS
   the path (open(fn,'a'), open(fn,'wb') of shutil.copyfile, exists/getsize,
   the loader) goes through to q, whereas os.rename(temp, fn) replaces the
   directory entry fn itself -- the link -- by the regular file (q keeps its old
   content).  [thr] = the path an open() of the target reaches, [rd] = what
   reading the target path yields. *)
Definition thr (cfg : config) (fn : path) : path :=
  match c_link cfg with Some q => q | None => fn end.
Definition rd (cfg : config) (fn : path) (f : fs) : option bytes :=
  match c_link cfg with
  | Some q => match f fn with Some b => Some b | None => f q end
  | None => f fn
  end.

Definition xdev_eff (cfg : config) : bool :=
  match c_tmp cfg with None => false | Some _ => c_xdev cfg end.

(* tok = mktemp() (explicit input), now = str(int(time.time())) (explicit input) *)
Definition temp_name (cfg : config) (fn tok : str) : path :=
  match c_tmp cfg with
  | None => fn ++ DOT :: tok                                   (* '%s.%s' % (filename, mktemp()) *)
  | Some d => path_join d (basename fn ++ DOT :: tok)
  end.

Definition backup_name (cfg : config) (fn now : str) : path :=
  let b := fn ++ gen.T17.BACKUP_INFIX ++ now in               (* '%s.backup.%s' *)
  match c_backup cfg with
  | None => b
  | Some d => path_join d (basename b)
  end.

(* ---- shutil.copyfile: open(dst,'wb') then sendfile in chunks of at most n bytes
   (n = 0: no cap, one chunk) ---- *)
Fixpoint chunks_fuel (fuel n : nat) (d : bytes) : list bytes :=
  match fuel with
  | O => []
  | S fu => match d with
            | [] => []
            | _ => firstn n d :: chunks_fuel fu n (skipn n d)
            end
  end.
Definition chunks (n : nat) (d : bytes) : list bytes :=
  match n with
  | O => match d with [] => [] | _ => [d] end
  | _ => chunks_fuel (length d) n d
  end.

Definition copy_effs (n : nat) (data : bytes) (dst : path) : list eff :=
  Create dst :: map (Append dst) (chunks n data).

(* ---- the AtomicFile object ---- *)
Record afst := St { a_closed : bool; a_rolled : bool }.
Inductive op : Type := OWrite (b : bytes) | OClose | ORollback.

(* ---- death by an exception that unwinds the stack (SystemExit from the SIGTERM
   handler, KeyboardInterrupt, an I/O error): what the unwinding does to the open
   AtomicFile is decided by the source (regenerated table T17): __del__ of the
   collected object / __exit__ with an exception in flight roll back, and no
   caller calls close() -- the COMMIT -- in a finally:/except: block.  Should any
   of these change, the unwinding commits. ---- *)
Definition unwind_commits : bool :=
  negb (gen.T17.DEL_ROLLS_BACK && gen.T17.EXIT_ROLLS_BACK
        && match gen.T17.COMMIT_ON_UNWIND_SITES with [] => true | _ => false end).
Definition unwind_op : op := if unwind_commits then OClose else ORollback.
Definition is_closeF (e : eff) : bool := match e with CloseF _ => true | _ => false end.

Section AF.
Variables (cfg : config) (fn tok now : str) (chunk : nat).
Let temp := temp_name cfg fn tok.
Let backup := backup_name cfg fn now.

(* AtomicFile.close, the part after self._fd.close(): [old] = the target as
   os.path.exists/getsize see it, [new] = the closed temp file *)
Definition overwrite_allowed (old : option bytes) (new : bytes) : bool :=
  negb (Nat.eqb (length new) 0) || c_aeo cfg
  || negb (match old with Some _ => true | None => false end).

Definition backup_wanted (old : option bytes) (new : bytes) : bool :=
  match old with
  | Some o =>
      c_mbis cfg && Nat.ltb (length new) (length o)
      && negb (match c_backup cfg with
               | Some d => seq_eqb d gen.T17.DEVNULL | None => false end)
  | None => false
  end.

Definition backup_effs (old : option bytes) (new : bytes) : list eff :=
  match old with
  | Some o => if backup_wanted old new then copy_effs chunk o backup else []   (* shutil.copy *)
  | None => []
  end.

Definition move_effs (new : bytes) : list eff :=
  if xdev_eff cfg
  then copy_effs chunk new (thr cfg fn) ++ [Remove temp]   (* shutil.move -> copy2 (opens the target) + unlink *)
  else [Rename temp fn].

Definition close_tail (old : option bytes) (new : bytes) : list eff :=
  if overwrite_allowed old new
  then backup_effs old new ++ [Touch (thr cfg fn)] ++ move_effs new
  else [].

Definition close_effs (f : fs) : res (list eff) :=
  match f temp with
  | None => Raise OtherError                          (* os.path.getsize: FileNotFoundError *)
  | Some new => Ok (close_tail (rd cfg fn f) new)
  end.

Definition step (st : afst) (f : fs) (o : op) : afst * list eff * res unit :=
  match o with
  | OWrite b =>
      if a_closed st then (st, [], Raise ValueError)           (* I/O operation on closed file *)
      else (st, [Append temp b], Ok tt)
  | ORollback =>
      if a_closed st then (st, [], Ok tt)
      else (St true true,
            CloseF temp :: (match f temp with Some _ => [Remove temp] | None => [] end),
            Ok tt)
  | OClose =>
      if a_rolled st then (st, [], Raise ValueError)
      else
        let c := if a_closed st then [] else [CloseF temp] in
        match close_effs f with
        | Ok es => (St true false, c ++ es, Ok tt)
        | Raise e => (St true false, c, Raise e)
        end
  end.

Fixpoint run_ops (st : afst) (f : fs) (ops : list op) : list eff * list (res unit) :=
  match ops with
  | [] => ([], [])
  | o :: ops' =>
      let '(st', es, r) := step st f o in
      let '(es', rs) := run_ops st' (apply es f) ops' in
      (es ++ es', r :: rs)
  end.

(* __init__ (codecs.open(temp,'w')) followed by the method calls *)
Definition session (f0 : fs) (ops : list op) : list eff * list (res unit) :=
  let '(es, rs) := run_ops (St false false) (apply [Create temp] f0) ops in
  (Create temp :: es, rs).

Definition effects (f0 : fs) (ops : list op) : list eff := fst (session f0 ops).

(* an exception raised after the first k effects: [pre] has happened, then the
   stack unwinds.  [inited] = the exception is raised outside __init__ (inside
   it the object has no _fd yet and __del__ can do nothing). *)
Definition unwind_effs (inited : bool) (pre : list eff) (f : fs) : list eff :=
  if inited then snd (fst (step (St (existsb is_closeF pre) false) f unwind_op)) else [].

Definition interrupted (f0 : fs) (ops : list op) (k : nat) (inited : bool) : list eff :=
  let pre := firstn k (effects f0 ops) in
  pre ++ unwind_effs inited pre (apply pre f0).
End AF.

(* what every caller does: write*, close *)
Definition save_ops (ws : list bytes) : list op := map OWrite ws ++ [OClose].
Definition abort_ops (ws : list bytes) : list op := map OWrite ws ++ [ORollback].

(* An I/O error (OSError) raised by the j-th write, after the first k effects.
   What happens next is decided by the callers (regenerated table T17,
   SWALLOW_WRITE_ERROR_SITES = the call sites that wrap fd.write in a try whose
   handler swallows an OSError): no such site -> the error propagates and the
   stack unwinds ([interrupted]); a swallowing caller would log it, go on and
   close() would COMMIT the file without that chunk ([swallowed_ops]; this was
   registry.close before the fix of finding C17.F44). *)
Definition write_errors_swallowed : bool :=
  match gen.T17.SWALLOW_WRITE_ERROR_SITES with [] => false | _ => true end.
Definition swallowed_ops (ws : list bytes) (j : nat) : list op :=
  save_ops (firstn j ws ++ skipn (S j) ws).
Definition write_error_effects (cfg : config) (fn tok now : str) (chunk : nat) (f0 : fs)
    (ws : list bytes) (k : nat) (inited : bool) (j : nat) : list eff :=
  if write_errors_swallowed then effects cfg fn tok now chunk f0 (swallowed_ops ws j)
  else interrupted cfg fn tok now chunk f0 (save_ops ws) k inited.

(* ---- dbi.FlatfileMapping.__iter__ (the loader of the file vacuum() rewrites):
   skip the first line (nextId); every other line is "id:record"; ids starting
   with '-' are removed records.  A line without ':' or with a non-numeric id
   raises ValueError (the iteration stops with that exception). ---- *)
Definition COLON : N := 58.
Definition MINUS : N := 45.
Definition LF : N := 10.
Definition CR : N := 13.
Fixpoint flat_lines (ls : list str) : res (list (str * str)) :=
  match ls with
  | [] => Ok []
  | l :: rest =>
      match split1 [COLON] (rstrip [CR; LF] l) with
      | None => Raise ValueError                       (* unpack of line.split(':', 1) *)
      | Some (id, rec) =>
          if startswith [MINUS] id then flat_lines rest
          else if nonempty id && forallb (fun c => N.leb 48 c && N.leb c 57) id
               then do r <- flat_lines rest; Ok ((id, rec) :: r)
               else Raise ValueError                    (* int(id) *)
      end
  end.
(* text cut into lines as a file iterator does (a final piece without LF is a line too) *)
Definition file_lines (text : str) : list str :=
  match rev (split_char LF text) with
  | [] :: r => rev r
  | _ => split_char LF text
  end.
Definition flat_load (text : str) : res (list (str * str)) := flat_lines (tl (file_lines text)).

(* ---- dbi.FlatfileMapping.add: an IN-PLACE writer (no AtomicFile): the record
   line is appended at the end of the file and the next-id header at offset 0 is
   rewritten (fixed width).  Two writes reach the kernel; their order is read
   from the source (regenerated table).  A flat file is abstracted to its header
   and its records. ---- *)
Record flat := Flat { fl_next : N; fl_recs : list (N * str) }.
Inductive feff : Type := SetNext (n : N) | AppendRec (id : N) (s : str).
Definition fapply1 (st : flat) (e : feff) : flat :=
  match e with
  | SetNext n => Flat n (fl_recs st)
  | AppendRec i s => Flat (fl_next st) (fl_recs st ++ [(i, s)])
  end.
Definition fapply (es : list feff) (st : flat) : flat := fold_left fapply1 es st.
Definition add_effects (st : flat) (s : str) : list feff :=
  let id := fl_next st in
  if gen.T17.FLAT_ADD_NEXT_ID_FIRST
  then [SetNext (id + 1); AppendRec id s]
  else [AppendRec id s; SetNext (id + 1)].
(* remove(id) and set(id, s), also in place.  remove scans the file and overwrites
   the id of every line that carries it with dashes, one small kernel write per
   such line, in file order ([Dash id] = the first live record with that id
   disappears); set = remove through the same file object, then the new line is
   appended at the end. *)
Fixpoint remove_first (id : N) (recs : list (N * str)) : list (N * str) :=
  match recs with
  | [] => []
  | r :: rest => if N.eqb (fst r) id then rest else r :: remove_first id rest
  end.
Definition without (id : N) (recs : list (N * str)) : list (N * str) :=
  filter (fun r => negb (N.eqb (fst r) id)) recs.
Definition count_id (id : N) (recs : list (N * str)) : nat :=
  length (filter (fun r => N.eqb (fst r) id) recs).
Inductive feff2 : Type := Dash (id : N) | Append2 (id : N) (s : str).
Definition fapply2_1 (st : flat) (e : feff2) : flat :=
  match e with
  | Dash i => Flat (fl_next st) (remove_first i (fl_recs st))
  | Append2 i s => Flat (fl_next st) (fl_recs st ++ [(i, s)])
  end.
Definition fapply2 (es : list feff2) (st : flat) : flat := fold_left fapply2_1 es st.
Definition remove_effects (st : flat) (id : N) : list feff2 :=
  repeat (Dash id) (count_id id (fl_recs st)).
Definition set_effects (st : flat) (id : N) (s : str) : list feff2 :=
  remove_effects st id ++ [Append2 id s].
(* the versions a reader may legitimately find *)
Definition removed_recs (st : flat) (id : N) : list (N * str) := without id (fl_recs st).
Definition set_recs (st : flat) (id : N) (s : str) : list (N * str) := without id (fl_recs st) ++ [(id, s)].
(* ids are unique (what add() maintains) *)
Fixpoint ids_unique (recs : list (N * str)) : bool :=
  match recs with
  | [] => true
  | r :: rest => negb (existsb (fun x => N.eqb (fst x) (fst r)) rest) && ids_unique rest
  end.

(* every id in the file is below the next id: add() can never hand out an id twice *)
Definition flat_ok (st : flat) : bool :=
  forallb (fun r => N.ltb (fst r) (fl_next st)) (fl_recs st).

(* mktemp() returns a hex digest: the contract the naming theorems need *)
Definition hexdigit (c : N) : bool :=
  (N.leb 48 c && N.leb c 57) || (N.leb 97 c && N.leb c 102).
Definition token_ok (tok : str) : bool := forallb hexdigit tok.
Definition digits_ok (s : str) : bool := forallb (fun c => N.leb 48 c && N.leb c 57) s.

(* ---- wire ---- *)
Definition gBytes (v : value) : bytes := gS v.
Definition gCfg (v : value) : config :=
  Cfg (gO gS (nth_v 0 v)) (gB (nth_v 1 v)) (gO gS (nth_v 2 v)) (gB (nth_v 3 v)) (gB (nth_v 4 v))
      (gO gS (nth_v 5 v)).
Definition gOp (v : value) : op :=
  match gN (nth_v 0 v) with
  | 0 => OWrite (gBytes (nth_v 1 v))
  | 1 => OClose
  | _ => ORollback
  end.
Definition gFs (v : value) : fs :=
  let l := map (fun e => (gS (nth_v 0 e), gBytes (nth_v 1 e))) (gL v) in
  fun q => dict_get q l.

Definition vLen (b : bytes) : value := vN (N.of_nat (length b)).
Definition vEff (e : eff) : value :=
  match e with
  | Create p => L [vN 0; vS p]
  | Append p b => L [vN 1; vS p; vLen b]
  | CloseF p => L [vN 2; vS p]
  | Rename a b => L [vN 3; vS a; vS b]
  | Touch p => L [vN 4; vS p]
  | Remove p => L [vN 5; vS p]
  end.
Definition vUnit (_ : unit) : value := L [].

(* the states after the first k effects for an ascending list of ks, in ONE pass
   over the effect list (the direct form  apply (firstn k es) f0  per k is
   quadratic for flushes with thousands of writes; op 3 returns the direct form
   and the harness cross-checks the two). *)
Fixpoint states_at (fuel i : nat) (es : list eff) (f : fs) (ks : list nat) (out : fs -> value) : list value :=
  match fuel with
  | O => []
  | S fu =>
      match ks with
      | [] => []
      | k :: ks' =>
          if Nat.leb k i then out f :: states_at fu i es f ks' out
          else match es with
               | [] => out f :: states_at fu i es f ks' out
               | e :: es' => states_at fu (S i) es' (apply1 f e) ks out
               end
      end
  end.

(* run: (op payload)
   op 0: (fn tok now cfg fs0 ops chunk ks full_temp) ->
         ((temp backup) results effects (state after the first k effects, for k in ks))
         state = (target-as-read temp backup link-target link-alive), each () or (bytes); temp is (length) when full_temp = 0
   op 3: same input, states computed as  apply (firstn k es) f0
   op 4: (fn tok now cfg fs0 ops chunk k inited full_temp) -> (effects-of-the-interrupted-flush final-state)
   op 6: (next recs record k) -> flat file (next recs ok) after the first k kernel writes of FlatfileMapping.add
   op 7: (next recs is_set id record k) -> (number of kernel writes, records after the first k) of FlatfileMapping.set / remove
   op 5: text -> FlatfileMapping records ((id record) ...) or an exception
   op 1: (a b) -> path_join a b ; op 2: s -> basename s *)
Definition vState (full : bool) (cfg : config) (fn t b : path) (f : fs) : value :=
  L [vO vS (rd cfg fn f); (if full then vO vS (f t) else vO vLen (f t)); vO vS (f b);
     (* the link target's own content, and whether the link is still there *)
     match c_link cfg with Some q => vO vS (f q) | None => L [] end;
     vB (match c_link cfg, f fn with Some _, None => true | _, _ => false end)].

Definition run_session (direct : bool) (p : value) : value :=
  let fn := gS (nth_v 0 p) in let tok := gS (nth_v 1 p) in let now := gS (nth_v 2 p) in
  let cfg := gCfg (nth_v 3 p) in let f0 := gFs (nth_v 4 p) in
  let ops := map gOp (gL (nth_v 5 p)) in
  let chunk := N.to_nat (gN (nth_v 6 p)) in
  let ks := map (fun k => N.to_nat (gN k)) (gL (nth_v 7 p)) in
  let full := gB (nth_v 8 p) in
  let '(es, rs) := session cfg fn tok now chunk f0 ops in
  let t := temp_name cfg fn tok in let b := backup_name cfg fn now in
  L [L [vS t; vS b];
     L (map (vR vUnit) rs);
     L (map vEff es);
     L (if direct then map (fun k => vState full cfg fn t b (apply (firstn k es) f0)) ks
        else states_at (length es + length ks + 1) 0 es f0 ks (vState full cfg fn t b))].

Definition run_unwind (p : value) : value :=
  let fn := gS (nth_v 0 p) in let tok := gS (nth_v 1 p) in let now := gS (nth_v 2 p) in
  let cfg := gCfg (nth_v 3 p) in let f0 := gFs (nth_v 4 p) in
  let ops := map gOp (gL (nth_v 5 p)) in
  let chunk := N.to_nat (gN (nth_v 6 p)) in
  let k := N.to_nat (gN (nth_v 7 p)) in
  let es := interrupted cfg fn tok now chunk f0 ops k (gB (nth_v 8 p)) in
  L [L (map vEff es);
     vState (gB (nth_v 9 p)) cfg fn (temp_name cfg fn tok) (backup_name cfg fn now) (apply es f0)].

Definition run (v : value) : value :=
  let p := nth_v 1 v in
  match gN (nth_v 0 v) with
  | 0 => run_session false p
  | 3 => run_session true p
  | 4 => run_unwind p
  | 6 => let st := Flat (gN (nth_v 0 p)) (map (fun r => (gN (nth_v 0 r), gS (nth_v 1 r))) (gL (nth_v 1 p))) in
         let st' := fapply (firstn (N.to_nat (gN (nth_v 3 p))) (add_effects st (gS (nth_v 2 p)))) st in
         L [vN (fl_next st'); L (map (fun r => L [vN (fst r); vS (snd r)]) (fl_recs st')); vB (flat_ok st')]
  | 7 => let st := Flat (gN (nth_v 0 p)) (map (fun r => (gN (nth_v 0 r), gS (nth_v 1 r))) (gL (nth_v 1 p))) in
         let id := gN (nth_v 3 p) in
         let es := if gB (nth_v 2 p) then set_effects st id (gS (nth_v 4 p)) else remove_effects st id in
         let st' := fapply2 (firstn (N.to_nat (gN (nth_v 5 p))) es) st in
         L [vN (N.of_nat (length es)); L (map (fun r => L [vN (fst r); vS (snd r)]) (fl_recs st'))]
  | 5 => vR (fun l => L (map (fun kv => L [vS (fst kv); vS (snd kv)]) l)) (flat_load (gS p))
  | 1 => vS (path_join (gS (nth_v 0 p)) (gS (nth_v 1 p)))
  | 2 => vS (basename (gS p))
  | _ => L []
  end.
