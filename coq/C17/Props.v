(* C17/Props.v — the property theorems, nothing else.
   Model: C17/Model.v (mirrors src/utils/file.py:AtomicFile over a file-system
   model; a crash by process death = any prefix [firstn k] of the effect list).
   Proofs: Names.v, Lemmas.v, Witness.v, Final.v. *)
From Coq Require Import List NArith ZArith Bool.
Import ListNotations.
Require Import Base.Wire Base.PyStr C17.Model C17.Names C17.Lemmas C17.Witness C17.Final C17.Compose.
Require gen.T17.

(* Full statement (C17_atomic_any_cfg):
     forall cfg fn tok now chunk f0 ws k, token_ok tok = true -> digits_ok now = true ->
       let t := rd cfg fn (apply (firstn k (effects cfg fn tok now chunk f0 (save_ops ws))) f0) in
       t = rd cfg fn f0 \/ t = Some (concat ws) \/ (rd cfg fn f0 = None /\ t = Some []).
   The pinned code violates it when tmpDir is on another file system (finding
   F20); proved: it holds whenever the temp file is on the target's file system
   (no tmpDir, or a tmpDir for which os.rename works), and fails on a witness
   outside.  The third disjunct is the open(target,'a') window of a first-ever
   save: an empty file where none existed. *)
Theorem C17_atomic_on_domain :
  forall cfg fn tok now chunk (f0 : fs) (ws : list bytes) k,
  token_ok tok = true -> digits_ok now = true -> link_ok cfg fn tok now f0 -> same_fs cfg = true ->
  let t := rd cfg fn (apply (firstn k (effects cfg fn tok now chunk f0 (save_ops ws))) f0) in
  t = rd cfg fn f0 \/ t = Some (concat ws) \/ (rd cfg fn f0 = None /\ t = Some []).
Proof. exact C17_atomic_on_domain_l. Qed.
Print Assumptions C17_atomic_on_domain.

Theorem C17_atomic_refuted :
  exists cfg fn tok now chunk (f0 : fs) (ws : list bytes) k,
  token_ok tok = true /\ digits_ok now = true /\ link_ok cfg fn tok now f0 /\ same_fs cfg = false /\
  let t := rd cfg fn (apply (firstn k (effects cfg fn tok now chunk f0 (save_ops ws))) f0) in
  ~ (t = rd cfg fn f0 \/ t = Some (concat ws) \/ (rd cfg fn f0 = None /\ t = Some [])).
Proof. exact C17_atomic_refuted_l. Qed.
Print Assumptions C17_atomic_refuted.

(* What does hold for every configuration: after any crash the target is the old
   version or a prefix of the new one (so the damage of F20 is a truncated new file). *)
Theorem C17_any_cfg_old_or_prefix :
  forall cfg fn tok now chunk (f0 : fs) (ws : list bytes) k,
  token_ok tok = true -> digits_ok now = true -> link_ok cfg fn tok now f0 ->
  let t := rd cfg fn (apply (firstn k (effects cfg fn tok now chunk f0 (save_ops ws))) f0) in
  t = rd cfg fn f0 \/ exists m, t = Some (firstn m (concat ws)).
Proof. exact C17_any_cfg_old_or_prefix_l. Qed.
Print Assumptions C17_any_cfg_old_or_prefix.

(* Temp and backup files never alias the target (the only path a loader opens),
   nor each other: for every target name, tmpDir and backupDir. *)
Theorem C17_temp_never_read :
  forall cfg fn tok now, token_ok tok = true -> digits_ok now = true ->
  temp_name cfg fn tok <> fn /\ backup_name cfg fn now <> fn /\
  temp_name cfg fn tok <> backup_name cfg fn now.
Proof. exact C17_temp_never_read_l. Qed.
Print Assumptions C17_temp_never_read.

(* write*; rollback (what __exit__ on an exception and __del__ do): the target is
   untouched at every instant, and the temp file is gone at the end. *)
Theorem C17_rollback_keeps_old :
  forall cfg fn tok now chunk (f0 : fs) (ws : list bytes),
  token_ok tok = true -> digits_ok now = true -> link_ok cfg fn tok now f0 ->
  (forall k, rd cfg fn (apply (firstn k (effects cfg fn tok now chunk f0 (abort_ops ws))) f0) = rd cfg fn f0) /\
  apply (effects cfg fn tok now chunk f0 (abort_ops ws)) f0 (temp_name cfg fn tok) = None.
Proof. exact C17_rollback_keeps_old_l. Qed.
Print Assumptions C17_rollback_keeps_old.

(* An empty new file never replaces an existing one unless allowEmptyOverwrite... *)
Theorem C17_empty_overwrite_rule :
  forall cfg fn tok now chunk (f0 : fs) (ws : list bytes) o k,
  token_ok tok = true -> digits_ok now = true -> link_ok cfg fn tok now f0 ->
  rd cfg fn f0 = Some o -> concat ws = [] -> c_aeo cfg = false ->
  rd cfg fn (apply (firstn k (effects cfg fn tok now chunk f0 (save_ops ws))) f0) = Some o.
Proof. exact C17_empty_overwrite_rule_l. Qed.
Print Assumptions C17_empty_overwrite_rule.

(* ...and in every other case an uncrashed save installs exactly the new content
   and removes the temp file, on any file-system layout. *)
Theorem C17_save_completes :
  forall cfg fn tok now chunk (f0 : fs) (ws : list bytes),
  token_ok tok = true -> digits_ok now = true -> link_ok cfg fn tok now f0 ->
  (concat ws <> [] \/ c_aeo cfg = true \/ rd cfg fn f0 = None) ->
  rd cfg fn (apply (effects cfg fn tok now chunk f0 (save_ops ws)) f0) = Some (concat ws) /\
  apply (effects cfg fn tok now chunk f0 (save_ops ws)) f0 (temp_name cfg fn tok) = None.
Proof. exact C17_save_completes_l. Qed.
Print Assumptions C17_save_completes.

(* Backup rule: when the new file is smaller than the old one (and backups are on,
   backupDir is not /dev/null) a completed save leaves a full copy of the old
   content in the backup file; otherwise the backup path is never touched. *)
Theorem C17_backup_rule :
  forall cfg fn tok now chunk (f0 : fs) (ws : list bytes),
  token_ok tok = true -> digits_ok now = true -> link_ok cfg fn tok now f0 ->
  (forall o, rd cfg fn f0 = Some o ->
     overwrite_allowed cfg (rd cfg fn f0) (concat ws) = true ->
     backup_wanted cfg (rd cfg fn f0) (concat ws) = true ->
     apply (effects cfg fn tok now chunk f0 (save_ops ws)) f0 (backup_name cfg fn now) = Some o) /\
  (backup_wanted cfg (rd cfg fn f0) (concat ws) = false ->
     forall k, apply (firstn k (effects cfg fn tok now chunk f0 (save_ops ws))) f0 (backup_name cfg fn now)
               = f0 (backup_name cfg fn now)).
Proof. exact C17_backup_rule_l. Qed.
Print Assumptions C17_backup_rule.

(* Death by an exception that unwinds the stack (SystemExit raised by the SIGTERM
   handler, KeyboardInterrupt, an I/O error at a write/close) after the first k
   effects: the effects of the interrupted flush are that prefix followed by what
   the unwinding does ([interrupted]; by the regenerated table T17: __del__ /
   __exit__ roll back and no caller commits in a finally:/except: block).  Same
   domain as C17_atomic_on_domain: the target is entirely old or entirely new.
   [inited] = the exception is raised outside AtomicFile.__init__. *)
Theorem C17_atomic_under_unwinding :
  forall cfg fn tok now chunk (f0 : fs) (ws : list bytes) k inited,
  token_ok tok = true -> digits_ok now = true -> link_ok cfg fn tok now f0 -> same_fs cfg = true ->
  let t := rd cfg fn (apply (interrupted cfg fn tok now chunk f0 (save_ops ws) k inited) f0) in
  t = rd cfg fn f0 \/ t = Some (concat ws) \/ (rd cfg fn f0 = None /\ t = Some []).
Proof. exact C17_atomic_under_unwinding_l. Qed.
Print Assumptions C17_atomic_under_unwinding.

(* ...and on every configuration (tmpDir on another file system included) it is old or a prefix of new. *)
Theorem C17_unwinding_any_cfg_old_or_prefix :
  forall cfg fn tok now chunk (f0 : fs) (ws : list bytes) k inited,
  token_ok tok = true -> digits_ok now = true -> link_ok cfg fn tok now f0 ->
  let t := rd cfg fn (apply (interrupted cfg fn tok now chunk f0 (save_ops ws) k inited) f0) in
  t = rd cfg fn f0 \/ exists m, t = Some (firstn m (concat ws)).
Proof. exact C17_unwinding_any_cfg_old_or_prefix_l. Qed.
Print Assumptions C17_unwinding_any_cfg_old_or_prefix.

(* An exception while the temp file is still open (any method-call sequence) removes the temp file. *)
Theorem C17_unwinding_removes_temp :
  forall cfg fn tok now chunk (f0 : fs) (ops : list op) k,
  token_ok tok = true -> digits_ok now = true ->
  existsb is_closeF (firstn k (effects cfg fn tok now chunk f0 ops)) = false ->
  apply (interrupted cfg fn tok now chunk f0 ops k true) f0 (temp_name cfg fn tok) = None.
Proof. exact C17_unwinding_removes_temp_l. Qed.
Print Assumptions C17_unwinding_removes_temp.

(* An I/O error (EIO, ENOSPC) raised by a write of the flush, for EVERY caller
   (users/channels/networks/ignores flush, registry.close, vacuum, world.flush):
   [write_error_effects] follows the regenerated table of call sites -- a caller
   that swallowed the error would go on and commit the file without that chunk;
   since the fix of finding C17.F44 (registry.close) no call site does, the error
   unwinds the stack, and the target is entirely old or entirely new.  This is
   the full statement; it replaces the former C17_write_error_swallowed_refuted. *)
Theorem C17_atomic_under_write_error :
  forall cfg fn tok now chunk (f0 : fs) (ws : list bytes) k inited j,
  token_ok tok = true -> digits_ok now = true -> link_ok cfg fn tok now f0 -> same_fs cfg = true ->
  let t := rd cfg fn (apply (write_error_effects cfg fn tok now chunk f0 ws k inited j) f0) in
  t = rd cfg fn f0 \/ t = Some (concat ws) \/ (rd cfg fn f0 = None /\ t = Some []).
Proof. exact C17_atomic_under_write_error_l. Qed.
Print Assumptions C17_atomic_under_write_error.

(* ---- the property text in one statement --------------------------------------
   [death] = every way the process can die during a flush (kill after k effects;
   an exception raised after k effects that unwinds the stack; an I/O error at
   the j-th write); [surviving] = the target file afterwards. *)
Theorem C17_atomic_any_death :
  forall cfg fn tok now chunk (f0 : fs) (ws : list bytes) (d : death),
  token_ok tok = true -> digits_ok now = true -> link_ok cfg fn tok now f0 -> same_fs cfg = true ->
  let t := surviving cfg fn tok now chunk f0 ws d in
  t = rd cfg fn f0 \/ t = Some (concat ws) \/ (rd cfg fn f0 = None /\ t = Some []).
Proof. exact atomic_any_death. Qed.
Print Assumptions C17_atomic_any_death.

(* ... and it loads: for every caller of the caller table (users, channels,
   networks, ignores, userdata, registry, vacuum), with the loader models of C16
   (ircdb readers), C15 (registry.open_registry) and the FlatfileMapping
   iterator, the surviving file loads to what the old file loads to, or to what
   the new file loads to -- whatever the death mode and instant.  [decode] is
   the text decoding of the file: any function mapping the empty file to the
   empty text.  The main configuration and a vacuumed FlatfileMapping exist
   beforehand ([must_exist]). *)
Theorem C17_loads :
  forall (decode : bytes -> res str), decode [] = Ok [] ->
  forall (c : caller) cfg fn tok now chunk (f0 : fs) (ws : list bytes) (d : death),
  token_ok tok = true -> digits_ok now = true -> link_ok cfg fn tok now f0 -> same_fs cfg = true ->
  (must_exist c = true -> rd cfg fn f0 <> None) ->
  let t := surviving cfg fn tok now chunk f0 ws d in
  load decode c t = load decode c (rd cfg fn f0) \/ load decode c t = load decode c (Some (concat ws)).
Proof. exact loads_old_or_new. Qed.
Print Assumptions C17_loads.

(* the first-ever-save window is harmless: an empty file loads to the same state as no file *)
Theorem C17_empty_file_loads_as_absent :
  forall (decode : bytes -> res str), decode [] = Ok [] ->
  forall c : caller, load decode c (Some []) = load decode c None.
Proof. exact empty_loads_as_absent. Qed.
Print Assumptions C17_empty_file_loads_as_absent.

(* composition with C16: when the new users file survives, it loads to exactly the saved accounts *)
Theorem C17_users_new_version_loads_exactly :
  forall (decode : bytes -> res str) db new,
  decode new = Ok (C16.Model.write_users db) -> C16.Model.users_dom db = true ->
  load decode CUsers (Some new)
  = Ok (LUsers (C16.Model.UState None (C16.Model.sort_users db)
                  (C16.Model.max_id (C16.Model.sort_users db) 0%Z), None)).
Proof. exact users_new_state. Qed.
Print Assumptions C17_users_new_version_loads_exactly.

(* The one database writer of the anchored modules that does NOT go through
   AtomicFile: dbi.FlatfileMapping.add (News, Note, URL, ... plugin databases)
   writes in place -- the record at the end, the next-id header at offset 0.
   Whatever prefix of its kernel writes survives a crash, the records are the
   old ones or the old ones plus the new one, and every id in the file is below
   the next id, so a restarted bot never hands an id out twice (which it did on
   the pinned tree, finding C17.F47, fixed: the header is now written first;
   the order is read from the source by the table extractor). *)
Theorem C17_flat_add_never_reuses_an_id :
  forall (st : flat) (s : str) k, flat_ok st = true ->
  let st' := fapply (firstn k (add_effects st s)) st in
  flat_ok st' = true /\
  (fl_recs st' = fl_recs st \/ fl_recs st' = fl_recs st ++ [(fl_next st, s)]).
Proof. exact C17_flat_add_never_reuses_an_id_l. Qed.
Print Assumptions C17_flat_add_never_reuses_an_id.

(* FlatfileMapping.remove(id), in place: with unique ids (what add() maintains)
   the single dashed-out id is one kernel write; every prefix leaves the old or
   the new records. *)
Theorem C17_flat_remove_old_or_new :
  forall (st : flat) id k, ids_unique (fl_recs st) = true ->
  let st' := fapply2 (firstn k (remove_effects st id)) st in
  fl_recs st' = fl_recs st \/ fl_recs st' = removed_recs st id.
Proof. exact flat_remove_old_or_new. Qed.
Print Assumptions C17_flat_remove_old_or_new.

(* FlatfileMapping.set(id, s), in place.  Full statement:
     forall st id s k, ids_unique (fl_recs st) = true ->
       let st' := fapply2 (firstn k (set_effects st id s)) st in
       fl_recs st' = fl_recs st \/ fl_recs st' = set_recs st id s.
   The pinned code violates it (finding C17.F49): the old line is dashed out
   before the new one is appended, and a death in between LOSES the record.
   Proved: it holds when the id is not in the file (set is then a pure append);
   it fails on a witness with the id present; and in general the only third
   outcome is "the record is gone". *)
Theorem C17_flat_set_on_domain :
  forall (st : flat) id s k, count_id id (fl_recs st) = 0%nat ->
  let st' := fapply2 (firstn k (set_effects st id s)) st in
  fl_recs st' = fl_recs st \/ fl_recs st' = set_recs st id s.
Proof. exact flat_set_on_domain. Qed.
Print Assumptions C17_flat_set_on_domain.

Theorem C17_flat_set_refuted :
  exists (st : flat) id s k,
  ids_unique (fl_recs st) = true /\ count_id id (fl_recs st) <> 0%nat /\
  let st' := fapply2 (firstn k (set_effects st id s)) st in
  ~ (fl_recs st' = fl_recs st \/ fl_recs st' = set_recs st id s).
Proof. exact C17_flat_set_refuted_l. Qed.
Print Assumptions C17_flat_set_refuted.

Theorem C17_flat_set_old_lost_or_new :
  forall (st : flat) id s k, ids_unique (fl_recs st) = true ->
  let st' := fapply2 (firstn k (set_effects st id s)) st in
  fl_recs st' = fl_recs st \/ fl_recs st' = without id (fl_recs st) \/ fl_recs st' = set_recs st id s.
Proof. exact flat_set_old_lost_or_new. Qed.
Print Assumptions C17_flat_set_old_lost_or_new.
