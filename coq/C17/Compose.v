(* C17/Compose.v — the property text in one statement: for every way the process
   can die during a flush (kill at an effect boundary; an exception that unwinds
   the stack; an I/O error at a write), and every caller of the caller table,
   the surviving file LOADS to the old or to the new state.  The loaders are the
   reader models of C16 (ircdb/unpreserve) and C15 (registry.open_registry) and
   the FlatfileMapping iterator of C17/Model.v. *)
From Coq Require Import List NArith ZArith Bool.
Import ListNotations.
Require Import Base.Wire Base.PyStr C17.Model C17.Names C17.Lemmas C17.Witness.
Require C16.Model C16.Roundtrip C15.Model.

(* ---- every death mode ---- *)
Inductive death : Type :=
| Kill (k : nat)                                  (* instantaneous death after k effects *)
| Unwind (k : nat) (inited : bool)                (* SystemExit/KeyboardInterrupt/... raised after k effects *)
| WriteError (k : nat) (inited : bool) (j : nat). (* OSError raised by the j-th write, after k effects *)

Definition death_effects cfg fn tok now chunk (f0 : fs) (ws : list bytes) (d : death) : list eff :=
  match d with
  | Kill k => firstn k (effects cfg fn tok now chunk f0 (save_ops ws))
  | Unwind k i => interrupted cfg fn tok now chunk f0 (save_ops ws) k i
  | WriteError k i j => write_error_effects cfg fn tok now chunk f0 ws k i j
  end.

(* the target file that survives, as reading the target path yields it (through a link, if it is one) *)
Definition surviving cfg fn tok now chunk (f0 : fs) (ws : list bytes) (d : death) : option bytes :=
  rd cfg fn (apply (death_effects cfg fn tok now chunk f0 ws d) f0).

Lemma atomic_any_death cfg fn tok now chunk f0 ws d :
  token_ok tok = true -> digits_ok now = true -> link_ok cfg fn tok now f0 -> same_fs cfg = true ->
  atomic_outcome (rd cfg fn f0) (concat ws) (surviving cfg fn tok now chunk f0 ws d).
Proof.
  intros Ht Hn Hl Hs. unfold same_fs in Hs. apply negb_true_iff in Hs.
  pose proof (link_ok_paths _ _ _ _ _ Hl). pose proof (link_ok_alive _ _ _ _ _ Hl).
  unfold surviving. destruct d as [k|k i|k i j]; cbn [death_effects].
  - now apply atomic_same_fs.
  - apply atomic_under_unwinding; auto using table_unwind_rolls_back.
  - unfold write_error_effects. rewrite table_no_swallow.
    apply atomic_under_unwinding; auto using table_unwind_rolls_back.
Qed.

(* ---- the caller table and the loaders ---- *)
Inductive caller : Type :=
| CUsers | CChannels | CNetworks | CIgnores     (* ircdb *.flush -> *.open *)
| CUserdata                                     (* world.flush -> registry.open_registry(userdata.conf) *)
| CRegistry                                     (* registry.close(conf.supybot) -> registry.open_registry *)
| CVacuum.                                      (* FlatfileMapping.vacuum -> FlatfileMapping.__iter__ *)
Definition callers : list caller := [CUsers; CChannels; CNetworks; CIgnores; CUserdata; CRegistry; CVacuum].

(* what a load delivers: the value of the loader model (state and, where the
   model has one, the exception that stopped the load) *)
Inductive loaded : Type :=
| LUsers (r : C16.Model.ustate * option exn)
| LChannels (r : C16.Model.cstate * option exn)
| LNetworks (r : C16.Model.nstate * option exn)
| LIgnores (r : list (str * Z))
| LRegistry (r : res (list (str * str)))
| LFlat (r : res (list (str * str))).

Definition load_text (c : caller) (text : str) : loaded :=
  match c with
  | CUsers => LUsers (C16.Model.read_users text)
  | CChannels => LChannels (C16.Model.read_channels text)
  | CNetworks => LNetworks (C16.Model.read_networks text)
  | CIgnores => LIgnores (C16.Model.read_ignores text)
  | CUserdata | CRegistry => LRegistry (C15.Model.open_registry text)
  | CVacuum => LFlat (flat_load text)
  end.

(* no file: the database every loader starts from when the file cannot be
   opened (ircdb: "resetting to empty"; userdata.conf is created empty by
   scripts/supybot).  The main configuration and a FlatfileMapping being
   vacuumed always exist beforehand (the bot was started from the one, vacuum()
   opens the other for reading first): [must_exist]. *)
Definition absent_state (c : caller) : loaded :=
  match c with
  | CUsers => LUsers (C16.Model.UState None [] 0%Z, None)
  | CChannels => LChannels (C16.Model.CState None C16.Model.fresh_chan false [], None)
  | CNetworks => LNetworks (C16.Model.NState None C16.Model.fresh_net [], None)
  | CIgnores => LIgnores []
  | CUserdata | CRegistry => LRegistry (Ok [])
  | CVacuum => LFlat (Ok [])
  end.
Definition must_exist (c : caller) : bool :=
  match c with CRegistry | CVacuum => true | _ => false end.

Section Loads.
(* the text decoding of the file (CPython's utf-8 codec): any function that
   maps the empty file to the empty text *)
Variable decode : bytes -> res str.
Hypothesis decode_empty : decode [] = Ok [].

Definition load (c : caller) (file : option bytes) : res loaded :=
  match file with
  | None => Ok (absent_state c)
  | Some b => do t <- decode b; Ok (load_text c t)
  end.

(* an empty file loads to the same state as no file, for every caller of the table *)
Lemma empty_loads_as_absent c : load c (Some []) = load c None.
Proof.
  unfold load. rewrite decode_empty. cbn [bind]. f_equal.
Qed.

Lemma loads_old_or_new c cfg fn tok now chunk f0 ws d :
  token_ok tok = true -> digits_ok now = true -> link_ok cfg fn tok now f0 -> same_fs cfg = true ->
  (must_exist c = true -> rd cfg fn f0 <> None) ->
  let t := surviving cfg fn tok now chunk f0 ws d in
  load c t = load c (rd cfg fn f0) \/ load c t = load c (Some (concat ws)).
Proof.
  intros Ht Hn Hl Hs Hex. cbv zeta.
  destruct (atomic_any_death cfg fn tok now chunk f0 ws d Ht Hn Hl Hs) as [E|[E|[E1 E2]]].
  - left. now rewrite E.
  - right. now rewrite E.
  - left. rewrite E2, E1. apply empty_loads_as_absent.
Qed.

(* the new version, when it survives, loads to exactly what the users flush
   saved (C16: reader on the writer's output), in id order, nothing raised *)
Lemma users_new_state db new :
  decode new = Ok (C16.Model.write_users db) -> C16.Model.users_dom db = true ->
  load CUsers (Some new)
  = Ok (LUsers (C16.Model.UState None (C16.Model.sort_users db)
                  (C16.Model.max_id (C16.Model.sort_users db) 0%Z), None)).
Proof.
  intros Hd Hdom. unfold load. rewrite Hd. cbn [bind load_text].
  now rewrite (C16.Roundtrip.users_roundtrip db Hdom).
Qed.
End Loads.

(* non-vacuity: a decoder with the contract (ASCII files: bytes are code points) *)
Example ex_decode : (fun b : bytes => @Ok str b) [] = Ok [].
Proof. reflexivity. Qed.
Example ex_must_exist : must_exist CVacuum = true /\ w_f0 w_fn <> None.
Proof. split; [reflexivity|]. vm_compute. discriminate. Qed.
