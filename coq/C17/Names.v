(* C17/Names.v — os.path.basename / os.path.join lemmas and the naming theorem:
   temp and backup paths never alias the target (nor each other). *)
From Coq Require Import List NArith Bool Lia Arith.
Import ListNotations.
Require Import Base.Wire Base.PyStr C17.Model.
Require gen.T17.
Open Scope N_scope.

Lemma mem_cons c x s : mem c (x :: s) = N.eqb c x || mem c s.
Proof. reflexivity. Qed.

Lemma go_nosep s : forall cur, mem SLASH s = false -> basename_go cur s = cur ++ s.
Proof.
  induction s as [|c s IH]; intros cur H; simpl.
  - now rewrite app_nil_r.
  - rewrite mem_cons in H. apply orb_false_iff in H as [H1 H2].
    rewrite N.eqb_sym in H1. rewrite H1. rewrite IH by exact H2.
    now rewrite <- app_assoc.
Qed.

Lemma go_app a : forall cur s, mem SLASH s = false ->
  basename_go cur (a ++ s) = basename_go cur a ++ s.
Proof.
  induction a as [|c a IH]; intros cur s H; simpl.
  - now apply go_nosep.
  - destruct (N.eqb c SLASH); now apply IH.
Qed.

Lemma go_slash d : forall cur x, basename_go cur (d ++ SLASH :: x) = basename_go [] x.
Proof.
  induction d as [|c d IH]; intros cur x; simpl.
  - reflexivity.
  - destruct (N.eqb c SLASH); apply IH.
Qed.

Lemma go_endslash d cur : endswith1 SLASH d = true -> basename_go cur d = [].
Proof.
  unfold endswith1, last_char. intro H.
  destruct (rev d) as [|c r] eqn:E; [discriminate|].
  apply N.eqb_eq in H. subst c.
  assert (Hd : d = rev r ++ [SLASH]).
  { rewrite <- (rev_involutive d), E. reflexivity. }
  rewrite Hd. rewrite go_slash. reflexivity.
Qed.

Lemma go_nosep_res s : forall cur, mem SLASH cur = false -> mem SLASH (basename_go cur s) = false.
Proof.
  induction s as [|c s IH]; intros cur H; simpl; [exact H|].
  destruct (N.eqb c SLASH) eqn:E.
  - now apply IH.
  - apply IH. rewrite mem_app, H, mem_cons. rewrite N.eqb_sym, E. reflexivity.
Qed.

Lemma basename_nosep s : mem SLASH (basename s) = false.
Proof. now apply go_nosep_res. Qed.

Lemma basename_app a s : mem SLASH s = false -> basename (a ++ s) = basename a ++ s.
Proof. apply go_app. Qed.

Lemma basename_join d x : mem SLASH x = false -> basename (path_join d x) = x.
Proof.
  intro H. unfold path_join.
  destruct (startswith [SLASH] x) eqn:Es.
  - destruct x as [|c x]; [discriminate|]. simpl in Es, H.
    rewrite andb_true_r in Es. rewrite Es in H. discriminate.
  - destruct d as [|c d].
    + unfold basename. now rewrite go_nosep.
    + destruct (endswith1 SLASH (c :: d)) eqn:Ee.
      * unfold basename. rewrite go_app by exact H. now rewrite go_endslash.
      * unfold basename. rewrite go_slash. now rewrite go_nosep.
Qed.

(* tokens and time stamps contain no separator *)
Lemma hexdigit_not c : hexdigit c = true -> N.eqb SLASH c = false /\ N.eqb DOT c = false.
Proof.
  unfold hexdigit, SLASH, DOT. intro H.
  apply orb_true_iff in H as [H|H]; apply andb_true_iff in H as [H1 H2];
    apply N.leb_le in H1; apply N.leb_le in H2; split; apply N.eqb_neq; lia.
Qed.

Lemma token_nosep tok : token_ok tok = true -> mem SLASH tok = false.
Proof.
  induction tok as [|c t IH]; intro H; [reflexivity|].
  unfold token_ok in H. cbn [forallb] in H.
  apply andb_true_iff in H as [H1 H2]. apply hexdigit_not in H1 as [H1 _].
  rewrite mem_cons, H1. now apply IH.
Qed.

Lemma digits_nosep s : digits_ok s = true -> mem SLASH s = false.
Proof.
  induction s as [|c t IH]; intro H; [reflexivity|].
  unfold digits_ok in H. cbn [forallb] in H.
  apply andb_true_iff in H as [H1 H2]. rewrite mem_cons. rewrite IH by exact H2.
  apply andb_true_iff in H1 as [Ha Hb]. apply N.leb_le in Ha. apply N.leb_le in Hb.
  replace (N.eqb SLASH c) with false; [reflexivity|]. symmetry. apply N.eqb_neq. unfold SLASH. lia.
Qed.

(* sanity of the regenerated naming constant: non-empty, no separator, and its
   tail is not a string of hex digits (so that  base.<token>  is never
   base<INFIX><now>) *)
Definition infix_ok (ix : str) : bool :=
  negb (mem SLASH ix) &&
  match ix with
  | [] => false
  | c :: rest => N.eqb c DOT && negb (forallb hexdigit rest)
  end.

Lemma table_infix_ok : infix_ok gen.T17.BACKUP_INFIX = true.
Proof. vm_compute. reflexivity. Qed.

Section Names.
Variables (cfg : config) (fn tok now : str).
Hypothesis Htok : token_ok tok = true.
Hypothesis Hnow : digits_ok now = true.

Lemma basename_temp : basename (temp_name cfg fn tok) = basename fn ++ DOT :: tok.
Proof.
  assert (Hs : mem SLASH (DOT :: tok) = false).
  { rewrite mem_cons. now rewrite token_nosep. }
  unfold temp_name. destruct (c_tmp cfg) as [d|].
  - apply basename_join. rewrite mem_app, basename_nosep. exact Hs.
  - now apply basename_app.
Qed.

Lemma basename_backup_gen ix : infix_ok ix = true ->
  basename (match c_backup cfg with
            | None => fn ++ ix ++ now
            | Some d => path_join d (basename (fn ++ ix ++ now)) end)
  = basename fn ++ ix ++ now.
Proof.
  intro Hix. unfold infix_ok in Hix. apply andb_true_iff in Hix as [Hix _].
  apply negb_true_iff in Hix.
  assert (Hs : mem SLASH (ix ++ now) = false).
  { now rewrite mem_app, Hix, digits_nosep. }
  destruct (c_backup cfg) as [d|].
  - rewrite basename_app by exact Hs. apply basename_join.
    now rewrite mem_app, basename_nosep.
  - now apply basename_app.
Qed.

Lemma basename_backup :
  basename (backup_name cfg fn now) = basename fn ++ gen.T17.BACKUP_INFIX ++ now.
Proof. apply basename_backup_gen. exact table_infix_ok. Qed.

Lemma app_neq_self {A} (l r : list A) : r <> [] -> l ++ r <> l.
Proof.
  intros Hr E. apply (f_equal (@length A)) in E. rewrite app_length in E.
  destruct r; [congruence|]. simpl in E. lia.
Qed.

Lemma temp_neq_target : temp_name cfg fn tok <> fn.
Proof.
  intro E. apply (f_equal basename) in E. rewrite basename_temp in E.
  revert E. apply app_neq_self. discriminate.
Qed.

Lemma infix_nonempty ix : infix_ok ix = true -> ix ++ now <> [].
Proof.
  unfold infix_ok. destruct ix; [rewrite andb_false_r; discriminate|discriminate].
Qed.

Lemma backup_neq_target : backup_name cfg fn now <> fn.
Proof.
  intro E. apply (f_equal basename) in E. rewrite basename_backup in E.
  revert E. apply app_neq_self. apply infix_nonempty. exact table_infix_ok.
Qed.

Lemma temp_neq_backup_gen ix : infix_ok ix = true ->
  basename fn ++ DOT :: tok <> basename fn ++ ix ++ now.
Proof.
  intros Hix E. apply app_inv_head in E.
  unfold infix_ok in Hix. apply andb_true_iff in Hix as [_ Hix].
  destruct ix as [|c rest]; [discriminate|].
  apply andb_true_iff in Hix as [_ Hix]. apply negb_true_iff in Hix.
  simpl in E. inversion E as [[Hc Ht]].
  unfold token_ok in Htok. rewrite Ht, forallb_app in Htok.
  apply andb_true_iff in Htok as [H1 _]. congruence.
Qed.

Lemma temp_neq_backup : temp_name cfg fn tok <> backup_name cfg fn now.
Proof.
  intro E. apply (f_equal basename) in E. rewrite basename_temp, basename_backup in E.
  revert E. apply temp_neq_backup_gen. exact table_infix_ok.
Qed.
End Names.
