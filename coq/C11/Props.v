(* C11/Props.v — the property theorems, nothing else.
   Model: C11/Model.v (mirrors SocketDriver._sendIfMsgs/_handleSocketError/_read,
   drivers.parseMsg).  Proofs: Incoming.v, Outgoing.v, AuxList.v; non-vacuity
   examples: Examples.v.
   Every theorem is stated for an arbitrary message type M, line decoder,
   whitespace set, message parser and separator byte: none of them matters. *)
From Coq Require Import List NArith.
Import ListNotations.
Require Import Base.Wire Base.PyStr C11.Model C11.Incoming C11.Outgoing.

(* ---- incoming ---- *)

(* For EVERY event trace (reads, partial writes, EAGAIN, errors, timeouts in any
   interleaving) the messages fed to the bot are exactly those of the complete
   lines of the concatenated received bytes (up to the first line on which the
   parser raises, which ends the driver); while the driver lives, the unparsed
   remainder is the open last piece. *)
Theorem C11_in_stream_any_trace :
  forall M decode ws (parse : str -> res M) sep tr,
  let st := run_trace M decode ws parse sep (init M) tr in
  delivered st = fst (spec_in M decode ws parse sep (received st)) /\
  (dead st = None -> inbuffer st = spec_rest sep (received st) /\
                     snd (spec_in M decode ws parse sep (received st)) = None).
Proof. exact in_stream_any_trace. Qed.
Print Assumptions C11_in_stream_any_trace.

(* Reading a stream in any non-empty chunks = the specification of the stream. *)
Theorem C11_in_reads_spec :
  forall M decode ws (parse : str -> res M) sep cs,
  Forall (fun c => c <> []) cs ->
  let st := run_trace M decode ws parse sep (init M) (reads cs) in
  delivered st = fst (spec_in M decode ws parse sep (concat cs)) /\
  dead st = snd (spec_in M decode ws parse sep (concat cs)) /\
  (dead st = None -> inbuffer st = spec_rest sep (concat cs)).
Proof. exact in_reads_spec. Qed.
Print Assumptions C11_in_reads_spec.

(* Lines of ANY length (IRCv3 tags make lines far longer than the 512 bytes of
   RFC 1459): a stream made of lines l1..lk, each followed by the separator and
   none containing it, and an unterminated rest, read in any non-empty chunks,
   feeds exactly the messages of l1..lk and keeps exactly the rest.  No bound on
   the length of a line or of the remainder held between two reads. *)
Theorem C11_in_lines_any_length :
  forall M decode ws (parse : str -> res M) sep ls rest cs,
  Forall (fun l => mem sep l = false) ls -> mem sep rest = false ->
  Forall (fun c => c <> []) cs ->
  concat cs = concat (map (fun l => l ++ [sep]) ls) ++ rest ->
  let st := run_trace M decode ws parse sep (init M) (reads cs) in
  delivered st = fst (feed_lines M decode ws parse ls) /\
  dead st = snd (feed_lines M decode ws parse ls) /\
  (dead st = None -> inbuffer st = rest).
Proof. exact in_lines_any_length. Qed.
Print Assumptions C11_in_lines_any_length.

(* The length made explicit: for every n, a line of n bytes cut anywhere. *)
Theorem C11_in_line_of_length :
  forall M decode ws (parse : str -> res M) sep (n : nat) line cs,
  length line = n -> mem sep line = false ->
  Forall (fun c => c <> []) cs -> concat cs = line ++ [sep] ->
  let st := run_trace M decode ws parse sep (init M) (reads cs) in
  delivered st = fst (feed_lines M decode ws parse [line]) /\
  dead st = snd (feed_lines M decode ws parse [line]) /\
  (dead st = None -> inbuffer st = []).
Proof. exact in_line_of_length. Qed.
Print Assumptions C11_in_line_of_length.

(* The delivered message sequence (and the driver's fate and remainder) is the
   same for any two partitions of one byte stream into recv() chunks -- inside a
   multi-byte character, between CR and LF, anywhere. *)
Theorem C11_in_partition :
  forall M decode ws (parse : str -> res M) sep cs1 cs2,
  Forall (fun c => c <> []) cs1 -> Forall (fun c => c <> []) cs2 ->
  concat cs1 = concat cs2 ->
  let st1 := run_trace M decode ws parse sep (init M) (reads cs1) in
  let st2 := run_trace M decode ws parse sep (init M) (reads cs2) in
  delivered st1 = delivered st2 /\ dead st1 = dead st2 /\
  (dead st1 = None -> inbuffer st1 = inbuffer st2).
Proof. exact in_partition. Qed.
Print Assumptions C11_in_partition.

(* With the except clause around parseMsg in _read (repair of C07.F4; the caught
   classes are regenerated from the source): if the parser raises nothing but what
   that clause catches -- true of IrcMsg since the repair of C05.F3, checked by
   the differential run -- then NO received byte stream can end the driver: a
   rejected line is skipped, every other complete line is delivered, in order,
   whatever the partition into reads. *)
Theorem C11_in_reads_never_killed :
  forall M decode ws (parse : str -> res M) sep,
  (forall s e, parse s = Raise e -> read_catches e = true) ->
  forall cs, Forall (fun c => c <> []) cs ->
  let st := run_trace M decode ws parse sep (init M) (reads cs) in
  dead st = None /\
  delivered st = accepted_msgs M decode ws parse (spec_lines sep (concat cs)) /\
  inbuffer st = spec_rest sep (concat cs).
Proof. exact in_reads_never_killed. Qed.
Print Assumptions C11_in_reads_never_killed.

(* ---- reconnection ---- *)

(* A reconnect leaves nothing of the previous connection behind (finding C11.F47
   repaired: reconnect() used to keep inbuffer, outbuffer and the EAGAIN count):
   after ANY history that left the driver alive -- a half-sent message in the
   out-buffer, the beginning of a line in the in-buffer, 121 EAGAINs counted --
   the driver continues on the new socket exactly as a fresh driver would.  All
   the per-connection theorems above and below therefore hold for every
   connection of the driver's life (wire, taken, received, delivered are the
   observations of the current connection). *)
Theorem C11_reconnect_fresh :
  forall M decode ws (parse : str -> res M) sep tr1 tr2,
  dead (run_trace M decode ws parse sep (init M) tr1) = None ->
  run_trace M decode ws parse sep (init M) (tr1 ++ EvReconnect :: tr2) =
  run_trace M decode ws parse sep (init M) tr2.
Proof. exact reconnect_fresh. Qed.
Print Assumptions C11_reconnect_fresh.

(* ---- outgoing ---- *)

(* Full statement (finding C11.F11 repaired: the out-buffer holds the unsent
   bytes).  For EVERY event trace: the bytes the socket has accepted, followed by
   the bytes still buffered, are exactly the UTF-8 encoding of the text of the
   messages that entered the buffer, in order, each once; that text is all the
   text taken from the queue -- unless a last batch had no UTF-8 encoding (a lone
   surrogate): its UnicodeEncodeError has then ended the driver before the
   buffer was touched. *)
Theorem C11_out_stream :
  forall M decode ws (parse : str -> res M) sep tr,
  let st := run_trace M decode ws parse sep (init M) tr in
  wire st ++ outbuffer st = utf8 (queued st) /\
  (taken st = queued st \/
   (dead st <> None /\ exists d, taken st = queued st ++ d /\ forallb encodable d = false)).
Proof. exact out_stream. Qed.
Print Assumptions C11_out_stream.

(* The clause as the property words it: whenever the text taken from the queue
   has a UTF-8 encoding, wire ++ outbuffer is that encoding -- any partial
   writes, EAGAINs, errors, reads in between. *)
Theorem C11_out_stream_encodable :
  forall M decode ws (parse : str -> res M) sep tr,
  let st := run_trace M decode ws parse sep (init M) tr in
  forallb encodable (taken st) = true ->
  wire st ++ outbuffer st = utf8 (taken st).
Proof. exact out_stream_encodable. Qed.
Print Assumptions C11_out_stream_encodable.

(* EAGAIN accounting (_handleSocketError): a send() raising EAGAIN moves no byte
   and loses no text; the connection survives it exactly while the count of
   consecutive EAGAINs has not passed the limit (regenerated constants). *)
Theorem C11_eagain_step :
  forall M decode ws (parse : str -> res M) sep (st : state M),
  dead st = None -> connected st = true -> outbuffer st <> [] ->
  let st' := step M decode ws parse sep st (EvSend [] (SErr gen.T11.EAGAIN)) in
  outbuffer st' = outbuffer st /\ wire st' = wire st /\ taken st' = taken st /\ dead st' = None /\
  connected st' = (eagains st <=? gen.T11.EAGAIN_MAX)%N /\
  ((eagains st <= gen.T11.EAGAIN_MAX)%N -> eagains st' = (eagains st + 1)%N).
Proof. exact eagain_step. Qed.
Print Assumptions C11_eagain_step.

(* EAGAINs count CONSECUTIVELY (every successful send() resets the counter): on a
   send-only trace of encodable text in which EAGAINs come in runs of at most
   EAGAIN_MAX+1 -- however many in total, nothing being received meanwhile -- the
   connection stays up and the stream invariant holds; sends accepting at least
   one byte then put every byte of every taken message on the wire. *)
Theorem C11_out_eagain_runs_survive :
  forall M decode ws (parse : str -> res M) sep tr,
  eagain_runs_ok 0 tr = true ->
  let st := run_trace M decode ws parse sep (init M) tr in
  connected st = true /\ dead st = None /\ wire st ++ outbuffer st = utf8 (taken st).
Proof. exact out_eagain_runs_survive. Qed.
Print Assumptions C11_out_eagain_runs_survive.

Theorem C11_out_eagain_runs_deliver :
  forall M decode ws (parse : str -> res M) sep tr ks,
  eagain_runs_ok 0 tr = true ->
  Forall (fun k => (1 <= k)%N) ks ->
  (length (outbuffer (run_trace M decode ws parse sep (init M) tr)) <= length ks)%nat ->
  let st' := run_trace M decode ws parse sep (init M) (tr ++ drains ks) in
  connected st' = true /\ dead st' = None /\ outbuffer st' = [] /\
  wire st' = utf8 (taken (run_trace M decode ws parse sep (init M) tr)).
Proof. exact out_eagain_runs_deliver. Qed.
Print Assumptions C11_out_eagain_runs_deliver.

(* Progress: on a live connection, sends that accept at least one byte empty
   the buffer within |outbuffer| calls: every buffered byte reaches the socket,
   no message is taken or lost meanwhile. *)
Theorem C11_out_progress :
  forall M decode ws (parse : str -> res M) sep ks st,
  dead st = None -> connected st = true ->
  Forall (fun k => (1 <= k)%N) ks ->
  (length (outbuffer st) <= length ks)%nat ->
  let st' := run_trace M decode ws parse sep st (drains ks) in
  outbuffer st' = [] /\ dead st' = None /\ connected st' = true /\ taken st' = taken st /\
  wire st' = wire st ++ outbuffer st.
Proof. exact out_progress. Qed.
Print Assumptions C11_out_progress.
