(* C11/Props.v — the property theorems, nothing else.
   Model: C11/Model.v (mirrors SocketDriver._sendIfMsgs/_handleSocketError/_read,
   drivers.parseMsg).  Proofs: Incoming.v, Outgoing.v, AuxList.v; non-vacuity
   examples: Examples.v.
   Every theorem is stated for an arbitrary message type M, line decoder,
   whitespace set, message parser and separator byte: none of them matters. *)
From Coq Require Import List NArith.
Import ListNotations.
Require Import Base.Wire Base.PyStr C11.Model C11.Incoming C11.Outgoing.

(* ---- incoming ---- *)

(* For EVERY event trace (reads, partial writes, EAGAIN, errors, timeouts in any
   interleaving) the messages fed to the bot are exactly those of the complete
   lines of the concatenated received bytes (up to the first line on which the
   parser raises, which ends the driver); while the driver lives, the unparsed
   remainder is the open last piece. *)
Theorem C11_in_stream_any_trace :
  forall M decode ws (parse : str -> res M) sep tr,
  let st := run_trace M decode ws parse sep (init M) tr in
  delivered st = fst (spec_in M decode ws parse sep (received st)) /\
  (dead st = None -> inbuffer st = spec_rest sep (received st) /\
                     snd (spec_in M decode ws parse sep (received st)) = None).
Proof. exact in_stream_any_trace. Qed.
Print Assumptions C11_in_stream_any_trace.

(* Reading a stream in any non-empty chunks = the specification of the stream. *)
Theorem C11_in_reads_spec :
  forall M decode ws (parse : str -> res M) sep cs,
  Forall (fun c => c <> []) cs ->
  let st := run_trace M decode ws parse sep (init M) (reads cs) in
  delivered st = fst (spec_in M decode ws parse sep (concat cs)) /\
  dead st = snd (spec_in M decode ws parse sep (concat cs)) /\
  (dead st = None -> inbuffer st = spec_rest sep (concat cs)).
Proof. exact in_reads_spec. Qed.
Print Assumptions C11_in_reads_spec.

(* The delivered message sequence (and the driver's fate and remainder) is the
   same for any two partitions of one byte stream into recv() chunks -- inside a
   multi-byte character, between CR and LF, anywhere. *)
Theorem C11_in_partition :
  forall M decode ws (parse : str -> res M) sep cs1 cs2,
  Forall (fun c => c <> []) cs1 -> Forall (fun c => c <> []) cs2 ->
  concat cs1 = concat cs2 ->
  let st1 := run_trace M decode ws parse sep (init M) (reads cs1) in
  let st2 := run_trace M decode ws parse sep (init M) (reads cs2) in
  delivered st1 = delivered st2 /\ dead st1 = dead st2 /\
  (dead st1 = None -> inbuffer st1 = inbuffer st2).
Proof. exact in_partition. Qed.
Print Assumptions C11_in_partition.

(* ---- outgoing ---- *)

(* Full statement:  forall tr, let st := run tr in wire st ++ utf8 (outbuffer st) = utf8 (taken st)
   (bytes accepted by the socket, then the encoding of what is still buffered =
   the encoding of all messages taken, in order, each once).
   The pinned code violates it (finding F11: the buffer is a str sliced by the
   byte count).  Proved: it holds on out_dom (no short write ended beyond a
   non-ASCII character), fails on a witness outside, fails on EVERY trace
   outside (the domain is exact), and all-ASCII traffic is inside. *)
Theorem C11_out_stream_on_domain :
  forall M decode ws (parse : str -> res M) sep tr,
  out_dom decode ws parse sep tr = true ->
  let st := run_trace M decode ws parse sep (init M) tr in
  wire st ++ utf8 (outbuffer st) = utf8 (taken st).
Proof. exact out_stream_on_domain. Qed.
Print Assumptions C11_out_stream_on_domain.

(* 'héllo', send() accepts 3 bytes, then everything: the socket gets 'hélo' *)
Theorem C11_out_stream_refuted :
  exists tr,
  out_dom utf8_decode_replace gen.T11.WHITESPACE (parse_tbl []) gen.T11.LINE_SEP tr = false /\
  let st := crun [] (init str) tr in
  outbuffer st = [] /\ wire st = utf8 [104; 233; 108; 111] /\ wire st <> utf8 (taken st).
Proof. exists f11_trace. exact f11_refutes. Qed.
Print Assumptions C11_out_stream_refuted.

Theorem C11_out_stream_off_domain :
  forall M decode ws (parse : str -> res M) sep tr,
  out_dom decode ws parse sep tr = false ->
  let st := run_trace M decode ws parse sep (init M) tr in
  (length (wire st) + length (utf8 (outbuffer st)) < length (utf8 (taken st)))%nat /\
  wire st ++ utf8 (outbuffer st) <> utf8 (taken st).
Proof. exact out_stream_off_domain. Qed.
Print Assumptions C11_out_stream_off_domain.

Theorem C11_out_ascii_in_domain :
  forall M decode ws (parse : str -> res M) sep tr,
  ascii_trace tr = true -> out_dom decode ws parse sep tr = true.
Proof. exact out_ascii_in_domain. Qed.
Print Assumptions C11_out_ascii_in_domain.

(* Complete writes are inside the domain whatever the text: every send()
   accepts at least as many bytes as the trace queues in total. *)
Theorem C11_out_full_sends_in_domain :
  forall M decode ws (parse : str -> res M) sep tr,
  full_sends (trace_bytes tr) tr = true -> out_dom decode ws parse sep tr = true.
Proof. exact out_full_in_domain. Qed.
Print Assumptions C11_out_full_sends_in_domain.

(* EAGAIN accounting (_handleSocketError): a send() raising EAGAIN moves no byte
   and loses no text; the connection survives it exactly while the count of
   consecutive EAGAINs has not passed the limit (regenerated constants). *)
Theorem C11_eagain_step :
  forall M decode ws (parse : str -> res M) sep (st : state M),
  dead st = None -> connected st = true ->
  outbuffer st <> [] -> forallb encodable (outbuffer st) = true ->
  let st' := step M decode ws parse sep st (EvSend [] (SErr gen.T11.EAGAIN)) in
  outbuffer st' = outbuffer st /\ wire st' = wire st /\ taken st' = taken st /\ dead st' = None /\
  connected st' = (eagains st <=? gen.T11.EAGAIN_MAX)%N /\
  ((eagains st <= gen.T11.EAGAIN_MAX)%N -> eagains st' = (eagains st + 1)%N).
Proof. exact eagain_step. Qed.
Print Assumptions C11_eagain_step.

(* Progress: on a live connection, sends that accept at least one byte empty
   the buffer within |outbuffer| calls (no message is taken or lost meanwhile). *)
Theorem C11_out_progress :
  forall M decode ws (parse : str -> res M) sep ks st,
  dead st = None -> connected st = true ->
  forallb encodable (outbuffer st) = true ->
  Forall (fun k => (1 <= k)%N) ks ->
  (length (outbuffer st) <= length ks)%nat ->
  let st' := run_trace M decode ws parse sep st (drains ks) in
  outbuffer st' = [] /\ dead st' = None /\ connected st' = true /\ taken st' = taken st.
Proof. exact out_progress. Qed.
Print Assumptions C11_out_progress.
