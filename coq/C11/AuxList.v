(* C11/AuxList.v — general list lemmas: splitting a concatenation on a
   separator, last/removelast of an append. *)
From Coq Require Import List NArith Bool Lia Arith.
Import ListNotations.
Require Import Base.Wire Base.PyStr.
Open Scope N_scope.

Lemma last_cons_ne {A} (x : A) l d : l <> [] -> last (x :: l) d = last l d.
Proof. destruct l; [contradiction|reflexivity]. Qed.

Lemma last_app_ne {A} (l l' : list A) d : l' <> [] -> last (l ++ l') d = last l' d.
Proof.
  intro H. induction l as [|x l IH]; [reflexivity|].
  cbn [app]. rewrite <- IH. apply last_cons_ne.
  intro E. apply app_eq_nil in E as [_ E]. contradiction.
Qed.

Lemma removelast_cons_ne {A} (x : A) l : l <> [] -> removelast (x :: l) = x :: removelast l.
Proof. destruct l; [contradiction|reflexivity]. Qed.

(* bytes.split(sep) of a concatenation: the complete pieces of the first part
   stay, its last (open) piece continues into the second part *)
Lemma split_char_app_gen c a b :
  split_char c (a ++ b) =
  removelast (split_char c a) ++ split_char c (last (split_char c a) [] ++ b).
Proof.
  induction a as [|x a IH]; [reflexivity|].
  cbn [app split_char]. destruct (N.eqb x c) eqn:E.
  - rewrite IH. rewrite removelast_cons_ne by apply split_char_nonnil.
    rewrite last_cons_ne by apply split_char_nonnil. reflexivity.
  - rewrite IH. destruct (split_char c a) as [|p ps] eqn:Es.
    { exfalso. eapply split_char_nonnil. exact Es. }
    destruct ps as [|q qs].
    + cbn [removelast last app]. cbn [split_char]. rewrite E.
      destruct (split_char c (p ++ b)) eqn:Ep; reflexivity.
    + simpl. reflexivity.
Qed.

Lemma split_char_nil c : split_char c [] = [[]].
Proof. reflexivity. Qed.

(* splitting a stream made of terminated lines and an unterminated rest gives
   back exactly those lines and that rest, whatever their lengths *)
Lemma split_char_lines c (ls : list str) rest :
  Forall (fun l => mem c l = false) ls ->
  split_char c (concat (map (fun l => l ++ [c]) ls) ++ rest) = ls ++ split_char c rest.
Proof.
  induction ls as [|l ls IH]; intro H; [reflexivity|].
  inversion H as [|? ? Hl Hls]; subst.
  cbn [map concat]. rewrite <- !app_assoc. cbn [app].
  rewrite split_char_app by exact Hl. rewrite (IH Hls). reflexivity.
Qed.
