(* C11/Examples.v — non-vacuity: concrete values meeting the hypotheses of the
   implications in Props.v, computed on the concrete instance the harness runs. *)
From Coq Require Import List NArith ZArith Bool.
Import ListNotations.
Require Import Base.Wire Base.PyStr C11.Model C11.Outgoing.
Open Scope N_scope.

Definition cdom := out_dom utf8_decode_replace gen.T11.WHITESPACE (parse_tbl []) gen.T11.LINE_SEP.

(* "PING :é\r\nX y\n" cut inside 'é' and between CR and LF, vs. in one piece:
   both deliver ["PING :é"; "X y"] *)
Definition ex_stream1 : list bytes := [[80;73;78;71;32;58;195]; [169;13]; [10;88;32]; [121;10]].
Definition ex_stream2 : list bytes := [[80;73;78;71;32;58;195;169;13;10;88;32;121;10]].

Example ex_partition_hyps :
  Forall (fun c : bytes => c <> []) ex_stream1 /\ Forall (fun c : bytes => c <> []) ex_stream2 /\
  concat ex_stream1 = concat ex_stream2 /\
  delivered (crun [] (init str) (reads ex_stream1)) = [[80;73;78;71;32;58;233]; [88;32;121]].
Proof. repeat split; repeat constructor; discriminate. Qed.

(* a non-ASCII message with a short write that ends inside the ASCII prefix and
   complete writes afterwards is inside the domain *)
Example ex_on_domain :
  cdom [EvSend [[104; 233; 108; 108; 111]] (Sent 1); EvSend [[8364]] (SErr 11); EvSend [] (Sent 1000)] = true.
Proof. vm_compute. reflexivity. Qed.

Example ex_ascii_trace :
  ascii_trace [EvSend [[80;73;78;71;13;10]; [65]] (Sent 2); EvRead Timeout [[66]] (SErr 11)] = true.
Proof. vm_compute. reflexivity. Qed.

(* a buffer left by a short write, drained by sends of 2 bytes *)
Example ex_progress_hyps :
  let st := crun [] (init str) [EvSend [[97;98;233;99]] (Sent 1)] in
  dead st = None /\ connected st = true /\ forallb encodable (outbuffer st) = true /\
  outbuffer st = [98;233;99] /\ (length (outbuffer st) <= length [2;2;2])%nat.
Proof. vm_compute. repeat split; auto. Qed.

(* a non-ASCII message and only complete writes (or errors) *)
Example ex_full_sends :
  let tr := [EvSend [[104; 233; 108; 108; 111]; [8364; 13; 10]] (SErr 11); EvRead Timeout [[128512]] (Sent 15)] in
  trace_bytes tr = 15%nat /\ full_sends (trace_bytes tr) tr = true.
Proof. vm_compute. split; reflexivity. Qed.

(* a pending non-ASCII buffer after 120 consecutive EAGAINs is still connected *)
Example ex_eagain_hyps :
  let st := crun [] (init str) (EvSend [[233]] (SErr 11) :: repeat (EvSend [] (SErr 11)) 119) in
  dead st = None /\ connected st = true /\ outbuffer st = [233] /\ eagains st = 120.
Proof. vm_compute. repeat split; reflexivity. Qed.
