(* C11/Examples.v — non-vacuity: concrete values meeting the hypotheses of the
   implications in Props.v, computed on the concrete instance the harness runs. *)
From Coq Require Import List NArith ZArith Bool.
Import ListNotations.
Require Import Base.Wire Base.PyStr C11.Model C11.Outgoing.
Open Scope N_scope.

(* "PING :é\r\nX y\n" cut inside 'é' and between CR and LF, vs. in one piece:
   both deliver ["PING :é"; "X y"] *)
Definition ex_stream1 : list bytes := [[80;73;78;71;32;58;195]; [169;13]; [10;88;32]; [121;10]].
Definition ex_stream2 : list bytes := [[80;73;78;71;32;58;195;169;13;10;88;32;121;10]].

Example ex_partition_hyps :
  Forall (fun c : bytes => c <> []) ex_stream1 /\ Forall (fun c : bytes => c <> []) ex_stream2 /\
  concat ex_stream1 = concat ex_stream2 /\
  delivered (crun [] (init str) (reads ex_stream1)) = [[80;73;78;71;32;58;233]; [88;32;121]].
Proof. repeat split; repeat constructor; discriminate. Qed.

(* text with a UTF-8 encoding, short writes cutting inside 'é' and '€', an EAGAIN *)
Example ex_encodable_hyps :
  let st := crun [] (init str)
              [EvSend [[104; 233; 108; 108; 111]] (Sent 2); EvSend [[8364]] (SErr 11); EvSend [] (Sent 3)] in
  forallb encodable (taken st) = true /\ wire st = [104; 195; 169; 108; 108] /\ outbuffer st = [111; 226; 130; 172].
Proof. vm_compute. repeat split; reflexivity. Qed.

(* a batch without a UTF-8 encoding: its exception ends the driver, the buffer is untouched *)
Example ex_unencodable :
  let st := crun [] (init str) [EvSend [[97]] (Sent 0); EvSend [[98]; [55296]] (Sent 9)] in
  dead st = Some UnicodeError /\ queued st = [97] /\ taken st = [97; 98; 55296] /\ outbuffer st = [97].
Proof. vm_compute. repeat split; reflexivity. Qed.

(* a buffer left by a short write, drained by sends of 2 bytes *)
Example ex_progress_hyps :
  let st := crun [] (init str) [EvSend [[97;98;233;99]] (Sent 1)] in
  dead st = None /\ connected st = true /\
  outbuffer st = [98;195;169;99] /\ (length (outbuffer st) <= length [2;2;2;2])%nat.
Proof. vm_compute. repeat split; auto. Qed.

(* a pending non-ASCII buffer after 120 consecutive EAGAINs is still connected *)
Example ex_eagain_hyps :
  let st := crun [] (init str) (EvSend [[233]] (SErr 11) :: repeat (EvSend [] (SErr 11)) 119) in
  dead st = None /\ connected st = true /\ outbuffer st = [195; 169] /\ eagains st = 120.
Proof. vm_compute. repeat split; reflexivity. Qed.

(* a parser that rejects the line ":" with MalformedIrcMsg meets the hypothesis of
   C11_in_reads_never_killed; "A b\n:\nC d\n" cut inside the rejected line
   delivers both neighbours and the driver lives *)
Example ex_parse_caught :
  forall s e, parse_tbl [([58], 8)] s = Raise e -> read_catches e = true.
Proof.
  intros s e. unfold parse_tbl. cbn [dict_get]. destruct (seq_eqb s [58]); [|discriminate].
  intro H. inversion H. reflexivity.
Qed.

Example ex_rejected_skipped :
  let st := crun [([58], 8)] (init str) (reads [[65;32;98;10;58]; [10;67;32;100;10]]) in
  dead st = None /\ delivered st = [[65;32;98]; [67;32;100]] /\ inbuffer st = [].
Proof. vm_compute. repeat split; reflexivity. Qed.

(* 300 isolated EAGAINs, each followed by a 1-byte write of a 300-byte text with
   a multi-byte character: meets eagain_runs_ok, far more than EAGAIN_MAX in total *)
Definition ex_iso_trace : list event :=
  EvSend [233 :: repeat 120 298] (SErr 11) ::
  concat (repeat [EvSend [] (Sent 1); EvSend [] (SErr 11)] 300).

Example ex_eagain_runs_hyps :
  eagain_runs_ok 0 ex_iso_trace = true /\
  length (filter (fun ev => match ev with EvSend _ (SErr _) => true | _ => false end) ex_iso_trace) = 301%nat /\
  connected (crun [] (init str) ex_iso_trace) = true /\
  length (wire (crun [] (init str) ex_iso_trace)) = 300%nat.
Proof. vm_compute. repeat split; reflexivity. Qed.

(* a line of 1000 bytes (> 512), cut after 600 bytes: 600 unterminated bytes wait
   in the buffer, then the whole line is delivered *)
Example ex_long_line :
  let line := repeat 120 1000 in
  let cs := [repeat 120 600; repeat 120 400 ++ [10]] in
  length line = 1000%nat /\ mem 10 line = false /\ concat cs = line ++ [10] /\
  length (inbuffer (crun [] (init str) (reads [repeat 120 600]))) = 600%nat /\
  delivered (crun [] (init str) (reads cs)) = [line].
Proof. vm_compute. repeat split; reflexivity. Qed.

(* the history of finding C11.F47: the beginning of a line received, a message
   half sent, the socket fails (code 104), then reconnect: alive, so the
   hypothesis of C11_reconnect_fresh holds; the new socket gets "CAP LS\r\n" only
   and the first line of the new server is delivered alone *)
Example ex_reconnect :
  let old := [EvRead (Data [58;111;108;100]) [] (Sent 0);
              EvSend [[80;82;73;86;77;83;71;32;120;13;10]] (Sent 4); EvSend [] (SErr 104)] in
  let st1 := crun [] (init str) old in
  let st2 := crun [] (init str) (old ++ [EvReconnect; EvSend [[67;65;80;13;10]] (Sent 99);
                                         EvRead (Data [58;110;101;119;10]) [] (Sent 0)]) in
  dead st1 = None /\ connected st1 = false /\ inbuffer st1 = [58;111;108;100] /\
  outbuffer st1 = [77;83;71;32;120;13;10] /\
  wire st2 = [67;65;80;13;10] /\ delivered st2 = [[58;110;101;119]].
Proof. vm_compute. repeat split; reflexivity. Qed.
