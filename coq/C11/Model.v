(* C11/Model.v — executable model of the byte-stream paths of
   src/drivers/Socket.py (SocketDriver._sendIfMsgs, ._handleSocketError,
   ._read), src/drivers/__init__.py (parseMsg, and the "an exception ends the
   driver" rule of drivers.run) and src/utils/str.py (decode_raw_line without
   charade).  Mirrors the Python statement by statement.  The out-buffer holds
   the unsent BYTES (repair of finding C11.F11: it used to be a str sliced by the
   byte count send() returned).  No proofs in this file. *)
From Coq Require Import List NArith ZArith Bool.
Import ListNotations.
Require Import Base.Wire Base.PyStr.
Require gen.T11.
Open Scope N_scope.

(* ------------------------------------------------------------------ *)
(* str.encode(): UTF-8, strict.  [utf8] is total on code points (surrogates get
   the generalised 3-byte form); [encode_str] raises where Python does. *)
Definition utf8_char (c : N) : bytes :=
  if c <? 0x80 then [c]
  else if c <? 0x800 then [0xC0 + c / 64; 0x80 + c mod 64]
  else if c <? 0x10000 then [0xE0 + c / 4096; 0x80 + (c / 64) mod 64; 0x80 + c mod 64]
  else [0xF0 + c / 262144; 0x80 + (c / 4096) mod 64; 0x80 + (c / 64) mod 64; 0x80 + c mod 64].

Definition utf8 (s : str) : bytes := flat_map utf8_char s.

Definition is_surrogate (c : N) : bool := (0xD800 <=? c) && (c <=? 0xDFFF).
Definition encodable (c : N) : bool := negb (is_surrogate c) && (c <=? 0x10FFFF).

Definition encode_str (s : str) : res bytes :=
  if forallb encodable s then Ok (utf8 s) else Raise UnicodeError.

(* ------------------------------------------------------------------ *)
(* bytes.decode('utf8', 'replace') as CPython does it: an invalid start byte
   is replaced alone; a sequence broken at its 2nd/3rd/4th byte has its valid
   prefix (1/2/3 bytes) replaced by one U+FFFD and decoding resumes at the
   offending byte; a valid prefix cut by the end of input gives one U+FFFD. *)
Definition FFFD : N := 0xFFFD.
Definition in_range (lo hi b : N) : bool := (lo <=? b) && (b <=? hi).
Definition is_cont (b : N) : bool := in_range 0x80 0xBF b.
(* admissible range of the second byte after lead byte b0 *)
Definition lo2 (b0 : N) : N := if b0 =? 0xE0 then 0xA0 else if b0 =? 0xF0 then 0x90 else 0x80.
Definition hi2 (b0 : N) : N := if b0 =? 0xED then 0x9F else if b0 =? 0xF4 then 0x8F else 0xBF.

Fixpoint utf8_decode_replace (bs : bytes) : str :=
  match bs with
  | [] => []
  | b0 :: t0 =>
      if b0 <? 0x80 then b0 :: utf8_decode_replace t0
      else if (b0 <? 0xC2) || (0xF4 <? b0) then FFFD :: utf8_decode_replace t0
      else if b0 <? 0xE0 then
        match t0 with
        | [] => [FFFD]
        | b1 :: t1 =>
            if is_cont b1 then ((b0 - 0xC0) * 64 + (b1 - 0x80)) :: utf8_decode_replace t1
            else FFFD :: utf8_decode_replace t0
        end
      else if b0 <? 0xF0 then
        match t0 with
        | [] => [FFFD]
        | b1 :: t1 =>
            if in_range (lo2 b0) (hi2 b0) b1 then
              match t1 with
              | [] => [FFFD]
              | b2 :: t2 =>
                  if is_cont b2 then
                    ((b0 - 0xE0) * 4096 + (b1 - 0x80) * 64 + (b2 - 0x80)) :: utf8_decode_replace t2
                  else FFFD :: utf8_decode_replace t1
              end
            else FFFD :: utf8_decode_replace t0
        end
      else
        match t0 with
        | [] => [FFFD]
        | b1 :: t1 =>
            if in_range (lo2 b0) (hi2 b0) b1 then
              match t1 with
              | [] => [FFFD]
              | b2 :: t2 =>
                  if is_cont b2 then
                    match t2 with
                    | [] => [FFFD]
                    | b3 :: t3 =>
                        if is_cont b3 then
                          ((b0 - 0xF0) * 262144 + (b1 - 0x80) * 4096 + (b2 - 0x80) * 64 + (b3 - 0x80))
                            :: utf8_decode_replace t3
                        else FFFD :: utf8_decode_replace t2
                    end
                  else FFFD :: utf8_decode_replace t1
              end
            else FFFD :: utf8_decode_replace t0
        end
  end.

(* ------------------------------------------------------------------ *)
(* Environment: what the operating system and the bot's queue answer.
   conn.send(data): accepts at most k bytes and returns how many (Sent k), or
   raises socket.error(code).  conn.recv(): bytes (empty = peer closed),
   socket.timeout, or socket.error(code).  msgs: what irc.takeMsg() hands out
   (str(m) of each message) before it returns None. *)
Inductive sres : Type := Sent (k : N) | SErr (code : N).
Inductive rres : Type := Data (b : bytes) | Timeout | RErr (code : N).
Inductive event : Type :=
| EvSend (msgs : list str) (s : sres)                 (* one call of _sendIfMsgs() *)
| EvRead (r : rres) (msgs : list str) (s : sres)      (* one call of _read() *)
| EvReconnect.                                        (* one call of reconnect() that obtains a new socket *)

Section Driver.
Variable M : Type.                      (* a parsed message *)
Variable decode : bytes -> str.         (* utils.str.decode_raw_line *)
Variable ws : list N.                   (* str.isspace set, for str.strip() *)
Variable parse : str -> res M.          (* ircmsgs.IrcMsg(s), s non-empty *)
Variable sep : N.                       (* the byte of inbuffer.split(...) *)

(* connected/eagains/inbuffer/outbuffer are the attributes of the driver;
   dead: an exception left the driver (drivers.run removes it for good);
   wire/taken/queued/received/delivered are ghost observations: bytes the
   socket accepted, text of every message taken from the queue, text of the
   messages whose encoding entered the out-buffer (= taken unless the encoding
   of a batch raised), bytes recv() returned, messages passed to irc.feedMsg. *)
Record state : Type := St {
  connected : bool; dead : option exn; eagains : N;
  inbuffer : bytes; outbuffer : bytes;
  wire : bytes; taken : str; queued : str;
  received : bytes; delivered : list M }.

Definition init : state := St true None 0 [] [] [] [] [] [] [].

Definition set_conn (st : state) (c : bool) : state :=
  St c (dead st) (eagains st) (inbuffer st) (outbuffer st) (wire st) (taken st) (queued st)
     (received st) (delivered st).
Definition set_dead (st : state) (e : exn) : state :=
  St (connected st) (Some e) (eagains st) (inbuffer st) (outbuffer st) (wire st) (taken st) (queued st)
     (received st) (delivered st).
Definition set_eagains (st : state) (n : N) : state :=
  St (connected st) (dead st) n (inbuffer st) (outbuffer st) (wire st) (taken st) (queued st)
     (received st) (delivered st).

(* _handleSocketError(e); None = the socket was closed *)
Definition handle_error (e : option N) (st : state) : state :=
  match e with
  | None => set_conn st false
  | Some code =>
      if negb (code =? gen.T11.EAGAIN) || (gen.T11.EAGAIN_MAX <? eagains st)
      then set_conn st false                 (* conn.close(); scheduleReconnect() *)
      else set_eagains st (eagains st + 1)
  end.

(* what conn.send(data) returns when the OS accepts at most k bytes *)
Definition sent_count (k : N) (data : bytes) : nat := N.to_nat (N.min k (N.of_nat (length data))).

(* data = ''.join(map(str, msgs)).encode(); self.outbuffer += data
   msgs = everything takeMsg() handed out.  UnicodeEncodeError (a lone
   surrogate) is not a socket.error: it leaves _sendIfMsgs before the buffer is
   touched, and the batch is lost with the driver. *)
Definition enqueue (msgs : list str) (st : state) : state :=
  let text := concat msgs in
  match encode_str text with
  | Raise e =>
      St (connected st) (Some e) (eagains st) (inbuffer st) (outbuffer st) (wire st)
         (taken st ++ text) (queued st) (received st) (delivered st)
  | Ok data =>
      St (connected st) (dead st) (eagains st) (inbuffer st) (outbuffer st ++ data) (wire st)
         (taken st ++ text) (queued st ++ text) (received st) (delivered st)
  end.

(* if self.outbuffer: try: sent = conn.send(outbuffer); outbuffer = outbuffer[sent:];
   eagains = 0  except socket.error as e: _handleSocketError(e) *)
Definition try_send (s : sres) (st : state) : state :=
  match outbuffer st with
  | [] => st
  | _ :: _ =>
      match s with
      | Sent k =>
          let n := sent_count k (outbuffer st) in
          St (connected st) (dead st) 0 (inbuffer st)
             (skipn n (outbuffer st))                   (* bytes sliced by the byte count *)
             (wire st ++ firstn n (outbuffer st)) (taken st) (queued st)
             (received st) (delivered st)
      | SErr code => handle_error (Some code) st
      end
  end.

(* _sendIfMsgs() with zombie = False *)
Definition send_if_msgs (msgs : list str) (s : sres) (st : state) : state :=
  if negb (connected st) then st                       (* if not self.connected: return *)
  else
    let st1 := enqueue msgs st in
    match dead st1 with
    | Some _ => st1                                    (* the encoding raised *)
    | None => try_send s st1
    end.

(* drivers.parseMsg *)
Definition parse_msg (s : str) : res (option M) :=
  match strip ws s with
  | [] => Ok None
  | s' => do m <- parse s'; Ok (Some m)
  end.

(* except ircmsgs.MalformedIrcMsg: log; continue  -- the regenerated except clause *)
Definition read_catches (e : exn) : bool := existsb (exn_eqb e) gen.T11.READ_CATCHES.

(* the `for line in lines` loop: messages fed, and the exception that left it.
   A line whose parse raises a caught exception is skipped (repair of C07.F4);
   any other exception leaves _read. *)
Fixpoint feed_lines (lines : list bytes) : list M * option exn :=
  match lines with
  | [] => ([], None)
  | l :: ls =>
      match parse_msg (decode l) with
      | Raise e => if read_catches e then feed_lines ls else ([], Some e)
      | Ok None => feed_lines ls
      | Ok (Some m) => let '(d, e) := feed_lines ls in (m :: d, e)
      end
  end.

(* _read() *)
Definition read (r : rres) (msgs : list str) (s : sres) (st : state) : state :=
  match r with
  | Timeout => send_if_msgs msgs s st                 (* except socket.timeout: pass *)
  | RErr code => handle_error (Some code) st          (* except socket.error: ...; return *)
  | Data [] => handle_error None st                   (* if not new_data: ...; return *)
  | Data b =>
      let pieces := split_char sep (inbuffer st ++ b) in
      let '(d, e) := feed_lines (removelast pieces) in
      let st1 := St (connected st) (dead st) 0 (last pieces []) (outbuffer st) (wire st) (taken st)
                    (queued st) (received st ++ b) (delivered st ++ d) in
      match e with
      | Some x => set_dead st1 x                      (* the exception leaves _read *)
      | None => send_if_msgs msgs s st1
      end
  end.

(* reconnect() when the new connection succeeds (run() once nextReconnectTime has
   passed, irc.driver.reconnect() from irclib / the Owner plugin): the old socket
   is closed, what was buffered for / from it is dropped, the EAGAIN count starts
   again (repair of C11.F47), irc.reset() empties the queues; the observations
   wire/taken/queued/received/delivered are those of the CURRENT connection.
   Failing connection attempts (DNS, connect, TLS: scheduleReconnect) and
   reconnect(wait=True) are not modelled. *)
Definition reconnect (st : state) : state := St true (dead st) 0 [] [] [] [] [] [] [].

Definition step (st : state) (ev : event) : state :=
  match dead st with
  | Some _ => st
  | None =>
      match ev with
      | EvSend msgs s => send_if_msgs msgs s st
      | EvRead r msgs s => read r msgs s st
      | EvReconnect => reconnect st
      end
  end.

Definition run_trace (st : state) (tr : list event) : state := fold_left step tr st.

(* all states after each event *)
Fixpoint run_snaps (st : state) (tr : list event) : list state :=
  match tr with
  | [] => []
  | ev :: tr' => let st' := step st ev in st' :: run_snaps st' tr'
  end.

(* ---- specification side of the incoming path ---- *)
Definition spec_lines (stream : bytes) : list bytes := removelast (split_char sep stream).
Definition spec_rest (stream : bytes) : bytes := last (split_char sep stream) [].
Definition spec_in (stream : bytes) : list M * option exn := feed_lines (spec_lines stream).
(* the messages of the lines that parse; rejected and blank lines give none *)
Definition accepted_msgs (lines : list bytes) : list M :=
  flat_map (fun l => match parse_msg (decode l) with Ok (Some m) => [m] | _ => [] end) lines.

End Driver.

Arguments connected {M}. Arguments dead {M}. Arguments eagains {M}. Arguments inbuffer {M}.
Arguments outbuffer {M}. Arguments wire {M}. Arguments taken {M}. Arguments queued {M}.
Arguments received {M}. Arguments delivered {M}.

(* reads of successive chunks with an idle queue *)
Definition reads (chunks : list bytes) : list event :=
  map (fun c => EvRead (Data c) [] (Sent 0)) chunks.
(* drain: sends with an idle queue *)
Definition drains (ks : list N) : list event := map (fun k => EvSend [] (Sent k)) ks.

(* ------------------------------------------------------------------ *)
(* Concrete instance run by the harness.  IrcMsg(s) is the subject of C05: here
   it enters as a finite table line -> exception code for the lines on which
   the real constructor raises (computed by the harness on the implementation);
   a message is identified by its line. *)
Definition exn_of_code (c : N) : exn :=
  match c with
  | 1 => IndexError | 2 => ValueError | 3 => KeyError | 4 => TypeError | 5 => AssertionError
  | 6 => AttributeError | 7 => UnicodeError | 8 => MalformedIrcMsg | 9 => SyntaxError
  | 10 => InvalidRegistryValue | 11 => DuplicateHostmask | _ => OtherError
  end.

Definition parse_tbl (tbl : list (str * N)) (s : str) : res str :=
  match dict_get s tbl with
  | Some c => Raise (exn_of_code c)
  | None => Ok s
  end.

Definition crun (tbl : list (str * N)) : state str -> list event -> state str :=
  run_trace str utf8_decode_replace gen.T11.WHITESPACE (parse_tbl tbl) gen.T11.LINE_SEP.

(* ---- wire ---- *)
Definition gSres (v : value) : sres :=
  match gN (nth_v 0 v) with 0 => Sent (gN (nth_v 1 v)) | _ => SErr (gN (nth_v 1 v)) end.
Definition gRres (v : value) : rres :=
  match gN (nth_v 0 v) with
  | 0 => Data (gS (nth_v 1 v))
  | 1 => Timeout
  | _ => RErr (gN (nth_v 1 v))
  end.
Definition gEvent (v : value) : event :=
  match gN (nth_v 0 v) with
  | 0 => EvSend (gLS (nth_v 1 v)) (gSres (nth_v 2 v))
  | 1 => EvRead (gRres (nth_v 1 v)) (gLS (nth_v 2 v)) (gSres (nth_v 3 v))
  | _ => EvReconnect
  end.
Definition gTbl (v : value) : list (str * N) :=
  map (fun kv => (gS (nth_v 0 kv), gN (nth_v 1 kv))) (gL v).

Definition vDead (d : option exn) : value :=
  match d with None => I 0%Z | Some e => I (exn_code e) end.
(* the driver's own attributes after an event, plus sizes of the observations *)
Definition vSnap (st : state str) : value :=
  L [vB (connected st); vDead (dead st); vN (eagains st); vS (inbuffer st); vS (outbuffer st);
     vN (N.of_nat (length (wire st))); vN (N.of_nat (length (delivered st)))].
Definition vFinal (st : state str) : value :=
  L [vS (wire st); vS (taken st); vS (received st); vLS (delivered st); vS (queued st)].

(* run: (op payload)
   op 0: (tbl events) -> ((snapshot after each event) final-observations)
   op 2: str -> result of str.encode()
   op 3: bytes -> bytes.decode('utf8','replace')
   op 4: str -> str.strip() *)
Definition run (v : value) : value :=
  let payload := nth_v 1 v in
  match gN (nth_v 0 v) with
  | 0 =>
      let tbl := gTbl (nth_v 0 payload) in
      let tr := map gEvent (gL (nth_v 1 payload)) in
      let snaps := run_snaps str utf8_decode_replace gen.T11.WHITESPACE (parse_tbl tbl) gen.T11.LINE_SEP
                             (init str) tr in
      L [L (map vSnap snaps); vFinal (last snaps (init str))]
  | 2 => vR vS (encode_str (gS payload))
  | 3 => vS (utf8_decode_replace (gS payload))
  | 4 => vS (strip gen.T11.WHITESPACE (gS payload))
  | _ => L []
  end.
