(* C11/Incoming.v — the incoming path: what is fed to the bot depends only on
   the concatenation of the received bytes.  Everything is proved for an
   arbitrary decoder, whitespace set, parser and separator byte. *)
From Coq Require Import List NArith ZArith Bool Lia.
Import ListNotations.
Require Import Base.Wire Base.PyStr C11.Model C11.AuxList.
Open Scope N_scope.

Section In.
Variable M : Type.
Variable decode : bytes -> str.
Variable ws : list N.
Variable parse : str -> res M.
Variable sep : N.

Notation state := (Model.state M).
Notation step := (Model.step M decode ws parse sep).
Notation run_trace := (Model.run_trace M decode ws parse sep).
Notation feed_lines := (Model.feed_lines M decode ws parse).
Notation spec_in := (Model.spec_in M decode ws parse sep).
Notation spec_lines := (Model.spec_lines sep).
Notation spec_rest := (Model.spec_rest sep).
Notation send_if_msgs := (Model.send_if_msgs M).
Notation handle_error := (Model.handle_error M).

Lemma feed_lines_app X Y :
  feed_lines (X ++ Y) =
  match feed_lines X with
  | (d, None) => let '(d', e) := feed_lines Y in (d ++ d', e)
  | (d, Some e) => (d, Some e)
  end.
Proof.
  induction X as [|l X IH]; cbn [app Model.feed_lines].
  - destruct (feed_lines Y); reflexivity.
  - destruct (parse_msg M ws parse (decode l)) as [[m|]|e].
    + rewrite IH. destruct (feed_lines X) as [d [e|]]; [reflexivity|].
      destruct (feed_lines Y). reflexivity.
    + exact IH.
    + destruct (read_catches e); [exact IH|reflexivity].
Qed.

(* extending the stream by one chunk *)
Lemma spec_extend r b :
  spec_lines (r ++ b) = spec_lines r ++ removelast (split_char sep (spec_rest r ++ b)) /\
  spec_rest (r ++ b) = last (split_char sep (spec_rest r ++ b)) [].
Proof.
  unfold Model.spec_lines, Model.spec_rest.
  rewrite (split_char_app_gen sep r b).
  split.
  - apply removelast_app. apply split_char_nonnil.
  - apply last_app_ne. apply split_char_nonnil.
Qed.

Lemma spec_in_extend r b :
  spec_in (r ++ b) =
  match spec_in r with
  | (d, None) =>
      let '(d', e) := feed_lines (removelast (split_char sep (spec_rest r ++ b))) in (d ++ d', e)
  | (d, Some e) => (d, Some e)
  end.
Proof.
  unfold Model.spec_in. destruct (spec_extend r b) as [Hl _]. rewrite Hl.
  apply feed_lines_app.
Qed.

(* the send half never touches the incoming side *)
Lemma handle_error_in e (st : state) :
  inbuffer (handle_error e st) = inbuffer st /\ received (handle_error e st) = received st /\
  delivered (handle_error e st) = delivered st /\ dead (handle_error e st) = dead st /\
  outbuffer (handle_error e st) = outbuffer st.
Proof.
  unfold Model.handle_error. destruct e as [c|]; [|cbn; auto].
  destruct (negb (c =? gen.T11.EAGAIN) || (gen.T11.EAGAIN_MAX <? eagains st)); cbn; auto.
Qed.

Lemma enqueue_in msgs (st : state) :
  inbuffer (enqueue M msgs st) = inbuffer st /\ received (enqueue M msgs st) = received st /\
  delivered (enqueue M msgs st) = delivered st.
Proof. unfold Model.enqueue. destruct (encode_str (concat msgs)); cbn; auto. Qed.

Lemma send_in msgs s (st : state) :
  inbuffer (send_if_msgs msgs s st) = inbuffer st /\ received (send_if_msgs msgs s st) = received st /\
  delivered (send_if_msgs msgs s st) = delivered st.
Proof.
  unfold Model.send_if_msgs. destruct (connected st); cbn [negb]; [|auto].
  pose proof (enqueue_in msgs st) as H1. set (st1 := enqueue M msgs st) in *.
  destruct (dead st1); [exact H1|].
  unfold Model.try_send. destruct (outbuffer st1); [exact H1|].
  destruct s as [k|c]; [cbn; exact H1|].
  destruct (handle_error_in (Some c) st1) as (A & B & C & _). rewrite A, B, C. exact H1.
Qed.

Lemma send_idle s (st : state) :
  outbuffer st = [] ->
  outbuffer (send_if_msgs [] s st) = [] /\ dead (send_if_msgs [] s st) = dead st.
Proof.
  intro H. unfold Model.send_if_msgs. destruct (connected st); cbn [negb]; [|auto].
  unfold Model.enqueue. cbn [concat encode_str forallb utf8 flat_map dead].
  destruct (dead st) eqn:Ed; cbn [outbuffer dead]; rewrite ?app_nil_r; [auto|].
  unfold Model.try_send. cbn [outbuffer]. rewrite H. cbn. auto.
Qed.

(* ---------------------------------------------------------------- *)
(* invariant over every trace: [received] is all that matters *)
Definition InInv (st : state) : Prop :=
  delivered st = fst (spec_in (received st)) /\
  match snd (spec_in (received st)) with
  | None => inbuffer st = spec_rest (received st)
  | Some e => dead st = Some e
  end.

Lemma in_inv_init : InInv (init M).
Proof. split; reflexivity. Qed.

Lemma in_inv_same (st st' : state) :
  dead st = None ->
  inbuffer st' = inbuffer st -> received st' = received st -> delivered st' = delivered st ->
  InInv st -> InInv st'.
Proof.
  intros Hdead Hi Hr Hd [H1 H2]. unfold InInv. rewrite Hi, Hr, Hd. split; [exact H1|].
  destruct (snd (spec_in (received st))); [congruence|exact H2].
Qed.

Lemma in_inv_step st ev : InInv st -> InInv (step st ev).
Proof.
  intro Hinv. unfold Model.step. destruct (dead st) eqn:Ed; [exact Hinv|].
  destruct ev as [msgs s|r msgs s|]; [| |split; reflexivity].
  - destruct (send_in msgs s st) as (A & B & C). eapply in_inv_same; eauto.
  - destruct r as [b| |c]; cbn [Model.read].
    + destruct b as [|b0 b'].
      * destruct (handle_error_in None st) as (A & B & C & _). eapply in_inv_same; eauto.
      * set (b := b0 :: b'). destruct Hinv as [H1 H2].
        destruct (spec_in (received st)) as [d0 e0] eqn:Esp. cbn [fst snd] in H1, H2.
        destruct e0 as [e0|]; [congruence|].
        rewrite H2.
        pose proof (spec_in_extend (received st) b) as Hx. rewrite Esp in Hx.
        destruct (spec_extend (received st) b) as [_ Hrest].
        destruct (feed_lines (removelast (split_char sep (spec_rest (received st) ++ b)))) as [d e] eqn:Ef.
        destruct e as [x|].
        -- unfold InInv. cbn [set_dead received delivered inbuffer dead].
           rewrite Hx. cbn [fst snd]. split; [rewrite H1; reflexivity|reflexivity].
        -- match goal with |- InInv (send_if_msgs msgs s ?st1) => set (st1' := st1) end.
           destruct (send_in msgs s st1') as (A & B & C).
           unfold InInv. rewrite A, B, C. cbn [st1' received delivered inbuffer].
           rewrite Hx. cbn [fst snd]. split; [rewrite H1; reflexivity|symmetry; exact Hrest].
    + destruct (send_in msgs s st) as (A & B & C). eapply in_inv_same; eauto.
    + destruct (handle_error_in (Some c) st) as (A & B & C & _). eapply in_inv_same; eauto.
Qed.

Lemma in_inv_run tr : forall st, InInv st -> InInv (run_trace st tr).
Proof.
  induction tr as [|ev tr IH]; intros st H; [exact H|].
  cbn [Model.run_trace fold_left]. apply IH. apply in_inv_step. exact H.
Qed.

(* For every trace whatsoever (sends, partial writes, errors, timeouts
   interleaved at will): the messages fed to the bot are those of the complete
   lines of the received bytes, up to the first line on which the parser raises;
   while the driver lives, the unparsed remainder is the last, open piece. *)
Theorem in_stream_any_trace tr :
  let st := run_trace (init M) tr in
  delivered st = fst (spec_in (received st)) /\
  (dead st = None -> inbuffer st = spec_rest (received st) /\ snd (spec_in (received st)) = None).
Proof.
  cbn zeta. destruct (in_inv_run tr _ in_inv_init) as [H1 H2]. split; [exact H1|].
  intro Hd. destruct (snd (spec_in (received (run_trace (init M) tr)))); [congruence|auto].
Qed.

(* A reconnect leaves nothing of the previous connection behind (repair of
   C11.F47): whatever happened before -- half-sent message in the out-buffer,
   beginning of a line in the in-buffer, EAGAIN count -- the driver continues
   exactly like a fresh one on the new socket. *)
Theorem reconnect_fresh tr1 tr2 :
  dead (run_trace (init M) tr1) = None ->
  run_trace (init M) (tr1 ++ EvReconnect :: tr2) = run_trace (init M) tr2.
Proof.
  intro Hd. unfold Model.run_trace. rewrite fold_left_app. cbn [fold_left].
  fold (run_trace (init M) tr1). unfold Model.step at 2. rewrite Hd. unfold Model.reconnect. rewrite Hd. reflexivity.
Qed.

(* ---------------------------------------------------------------- *)
(* successive reads of the chunks of a stream *)
Definition ReadInv (st : state) (r : bytes) : Prop :=
  outbuffer st = [] /\ delivered st = fst (spec_in r) /\ dead st = snd (spec_in r) /\
  (snd (spec_in r) = None -> inbuffer st = spec_rest r).

Lemma read_inv_step st r c :
  c <> [] -> ReadInv st r -> ReadInv (step st (EvRead (Data c) [] (Sent 0))) (r ++ c).
Proof.
  intros Hc (Ho & Hd & Hdead & Hin).
  pose proof (spec_in_extend r c) as Hx.
  destruct (spec_extend r c) as [_ Hrest].
  unfold Model.step. destruct (spec_in r) as [d0 e0] eqn:Esp. cbn [fst snd] in *.
  destruct e0 as [e0|].
  - rewrite Hdead. unfold ReadInv. rewrite Hx. cbn [fst snd]. repeat split; auto; try discriminate.
  - rewrite Hdead. specialize (Hin eq_refl). destruct c as [|c0 c']; [congruence|].
    cbn [Model.read]. rewrite Hin.
    destruct (feed_lines (removelast (split_char sep (spec_rest r ++ c0 :: c')))) as [d e] eqn:Ef.
    destruct e as [x|].
    + unfold ReadInv. rewrite Hx. cbn. repeat split; auto; try congruence; try discriminate.
    + match goal with |- ReadInv (send_if_msgs [] (Sent 0) ?st1) _ => set (st1' := st1) end.
      destruct (send_in [] (Sent 0) st1') as (A & B & C).
      destruct (send_idle (Sent 0) st1' Ho) as [D E].
      unfold ReadInv. rewrite A, C, D, E, Hx. cbn [st1' fst snd delivered dead inbuffer].
      repeat split; auto; try congruence.
Qed.

Lemma read_inv_run cs : forall st r,
  Forall (fun c => c <> []) cs -> ReadInv st r -> ReadInv (run_trace st (reads cs)) (r ++ concat cs).
Proof.
  induction cs as [|c cs IH]; intros st r Hne H.
  - cbn. rewrite app_nil_r. exact H.
  - inversion Hne as [|? ? Hc Hcs]; subst.
    cbn [reads map Model.run_trace fold_left concat]. rewrite app_assoc.
    apply (IH _ _ Hcs). apply read_inv_step; assumption.
Qed.

(* reading a stream in any non-empty chunks = the specification of the whole stream *)
Theorem in_reads_spec cs :
  Forall (fun c => c <> []) cs ->
  let st := run_trace (init M) (reads cs) in
  delivered st = fst (spec_in (concat cs)) /\
  dead st = snd (spec_in (concat cs)) /\
  (dead st = None -> inbuffer st = spec_rest (concat cs)).
Proof.
  intro Hne. cbn zeta.
  assert (H0 : ReadInv (init M) []) by (repeat split; reflexivity).
  destruct (read_inv_run cs _ _ Hne H0) as (_ & Hd & Hdead & Hin). cbn [app] in *.
  repeat split; auto. intro Hn. apply Hin. congruence.
Qed.

(* Lines of ANY length: a stream made of lines l1..lk (each followed by the
   separator, none containing it) and an unterminated rest, read in any
   non-empty chunks, feeds exactly the messages of l1..lk and keeps exactly the
   rest -- there is no bound on the length of a line or of the rest. *)
Theorem in_lines_any_length ls rest cs :
  Forall (fun l => mem sep l = false) ls -> mem sep rest = false ->
  Forall (fun c => c <> []) cs ->
  concat cs = concat (map (fun l => l ++ [sep]) ls) ++ rest ->
  let st := run_trace (init M) (reads cs) in
  delivered st = fst (feed_lines ls) /\ dead st = snd (feed_lines ls) /\
  (dead st = None -> inbuffer st = rest).
Proof.
  intros Hls Hrest Hne E. cbn zeta.
  destruct (in_reads_spec cs Hne) as (A & B & C). cbn zeta in *.
  unfold Model.spec_in, Model.spec_lines, Model.spec_rest in *. rewrite E in *.
  rewrite (split_char_lines sep ls rest Hls), (split_char_nomem sep rest Hrest) in *.
  rewrite removelast_last in *. rewrite last_last in *. auto.
Qed.

(* the same with the length of the line explicit: one line of n bytes, n arbitrary *)
Theorem in_line_of_length (n : nat) line cs :
  length line = n -> mem sep line = false ->
  Forall (fun c => c <> []) cs -> concat cs = line ++ [sep] ->
  let st := run_trace (init M) (reads cs) in
  delivered st = fst (feed_lines [line]) /\ dead st = snd (feed_lines [line]) /\
  (dead st = None -> inbuffer st = []).
Proof.
  intros _ Hl Hne E.
  apply (in_lines_any_length [line] [] cs); auto.
  cbn [map concat]. rewrite !app_nil_r. exact E.
Qed.

(* the partition of the stream into reads is invisible *)
Theorem in_partition cs1 cs2 :
  Forall (fun c => c <> []) cs1 -> Forall (fun c => c <> []) cs2 ->
  concat cs1 = concat cs2 ->
  let st1 := run_trace (init M) (reads cs1) in
  let st2 := run_trace (init M) (reads cs2) in
  delivered st1 = delivered st2 /\ dead st1 = dead st2 /\
  (dead st1 = None -> inbuffer st1 = inbuffer st2).
Proof.
  intros H1 H2 E. cbn zeta.
  destruct (in_reads_spec cs1 H1) as (A1 & B1 & C1).
  destruct (in_reads_spec cs2 H2) as (A2 & B2 & C2).
  rewrite A1, A2, B1, B2, E. repeat split; auto.
  intro Hn. rewrite C1, C2; [rewrite E; reflexivity| |]; congruence.
Qed.

(* ---------------------------------------------------------------- *)
(* With the except clause around parseMsg (repair of C07.F4): if the parser
   only ever raises exceptions that clause catches, no received line can end the
   driver, a rejected line is skipped and the lines after it are delivered. *)
Section NoKill.
Hypothesis parse_caught : forall s e, parse s = Raise e -> read_catches e = true.

Lemma parse_msg_caught s e : parse_msg M ws parse s = Raise e -> read_catches e = true.
Proof.
  unfold Model.parse_msg. destruct (strip ws s) as [|c s']; [discriminate|].
  destruct (parse (c :: s')) as [m|e'] eqn:Ep; cbn; [discriminate|].
  intro H. inversion H; subst. eapply parse_caught. exact Ep.
Qed.

Lemma feed_lines_total lines :
  feed_lines lines = (accepted_msgs M decode ws parse lines, None).
Proof.
  induction lines as [|l ls IH]; [reflexivity|].
  cbn [Model.feed_lines Model.accepted_msgs flat_map].
  fold (accepted_msgs M decode ws parse ls).
  destruct (parse_msg M ws parse (decode l)) as [[m|]|e] eqn:Ep.
  - rewrite IH. reflexivity.
  - exact IH.
  - rewrite (parse_msg_caught _ _ Ep). exact IH.
Qed.

Theorem in_reads_never_killed cs :
  Forall (fun c => c <> []) cs ->
  let st := run_trace (init M) (reads cs) in
  dead st = None /\
  delivered st = accepted_msgs M decode ws parse (spec_lines (concat cs)) /\
  inbuffer st = spec_rest (concat cs).
Proof.
  intro Hne. cbn zeta. destruct (in_reads_spec cs Hne) as (A & B & C).
  unfold Model.spec_in in *. rewrite feed_lines_total in *. cbn [fst snd] in *. auto.
Qed.
End NoKill.

End In.
