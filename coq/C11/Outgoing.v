(* C11/Outgoing.v — the outgoing path: bytes accepted by the socket vs. the
   UTF-8 encoding of the messages taken from the queue. *)
From Coq Require Import List NArith ZArith Bool Lia Arith.
Import ListNotations.
Require Import Base.Wire Base.PyStr C11.Model C11.AuxList.
Open Scope N_scope.

(* ---------------------------------------------------------------- *)
(* UTF-8 facts *)
Lemma utf8_app a b : utf8 (a ++ b) = utf8 a ++ utf8 b.
Proof. unfold utf8. apply flat_map_app. Qed.

Lemma utf8_char_ascii c : is_ascii c = true -> utf8_char c = [c].
Proof. unfold is_ascii, utf8_char. intro H. rewrite H. reflexivity. Qed.

Lemma utf8_char_len c : (1 <= length (utf8_char c))%nat.
Proof.
  unfold utf8_char. destruct (c <? 128); [cbn; lia|].
  destruct (c <? 2048); [cbn; lia|]. destruct (c <? 65536); cbn; lia.
Qed.

Lemma utf8_char_len2 c : is_ascii c = false -> (2 <= length (utf8_char c))%nat.
Proof.
  unfold is_ascii, utf8_char. intro H. rewrite H.
  destruct (c <? 2048); [cbn; lia|]. destruct (c <? 65536); cbn; lia.
Qed.

Lemma utf8_len_le s : (length s <= length (utf8 s))%nat.
Proof.
  induction s as [|c s IH]; [cbn; lia|].
  change (utf8 (c :: s)) with (utf8_char c ++ utf8 s). rewrite app_length.
  pose proof (utf8_char_len c). cbn [length]. lia.
Qed.

Lemma utf8_len_lt s : forallb is_ascii s = false -> (length s < length (utf8 s))%nat.
Proof.
  induction s as [|c s IH]; [discriminate|].
  change (utf8 (c :: s)) with (utf8_char c ++ utf8 s). rewrite app_length. cbn [forallb length].
  destruct (is_ascii c) eqn:E; cbn [andb]; intro H.
  - specialize (IH H). pose proof (utf8_char_len c). lia.
  - pose proof (utf8_char_len2 c E). pose proof (utf8_len_le s). lia.
Qed.

Lemma utf8_ascii s : forallb is_ascii s = true -> utf8 s = s.
Proof.
  induction s as [|c s IH]; [reflexivity|]. cbn [forallb]. intro H.
  apply andb_true_iff in H as [Hc Hs].
  change (utf8 (c :: s)) with (utf8_char c ++ utf8 s).
  rewrite (utf8_char_ascii c Hc), (IH Hs). reflexivity.
Qed.

Lemma encode_ok s d : encode_str s = Ok d -> d = utf8 s.
Proof. unfold encode_str. destruct (forallb encodable s); congruence. Qed.

Lemma sent_count_le k data : (sent_count k data <= length data)%nat.
Proof. unfold sent_count. lia. Qed.

Lemma sent_count_pos k data : 1 <= k -> (1 <= length data)%nat -> (1 <= sent_count k data)%nat.
Proof. unfold sent_count. lia. Qed.

(* ---------------------------------------------------------------- *)
(* cutting n bytes off the encoding while dropping n characters off the text *)
Lemma utf8_split n buf : utf8 buf = utf8 (firstn n buf) ++ utf8 (skipn n buf).
Proof. rewrite <- utf8_app. rewrite firstn_skipn. reflexivity. Qed.

Lemma cut_len n buf :
  (n <= length (utf8 buf))%nat -> (n + length (utf8 (skipn n buf)) <= length (utf8 buf))%nat.
Proof.
  intro Hn. destruct (Nat.le_gt_cases n (length buf)) as [Hle|Hgt].
  - rewrite (utf8_split n buf). rewrite app_length.
    pose proof (utf8_len_le (firstn n buf)). rewrite firstn_length_le in H by exact Hle. lia.
  - rewrite skipn_all2 by lia. cbn. lia.
Qed.

Lemma cut_len_strict n buf :
  (n <= length (utf8 buf))%nat -> cut_ok n buf (utf8 buf) = false ->
  (n + length (utf8 (skipn n buf)) < length (utf8 buf))%nat.
Proof.
  intros Hn Hc. unfold cut_ok in Hc. apply orb_false_iff in Hc as [Hne Hna].
  apply Nat.eqb_neq in Hne.
  destruct (Nat.le_gt_cases n (length buf)) as [Hle|Hgt].
  - rewrite (utf8_split n buf). rewrite app_length.
    pose proof (utf8_len_lt (firstn n buf) Hna). rewrite firstn_length_le in H by exact Hle. lia.
  - rewrite skipn_all2 by lia. cbn. lia.
Qed.

Lemma cut_exact n buf :
  (n <= length (utf8 buf))%nat -> cut_ok n buf (utf8 buf) = true ->
  firstn n (utf8 buf) ++ utf8 (skipn n buf) = utf8 buf.
Proof.
  intros Hn Hc. unfold cut_ok in Hc. apply orb_true_iff in Hc as [Heq|Hasc].
  - apply Nat.eqb_eq in Heq. rewrite firstn_all2 by lia.
    rewrite skipn_all2 by (pose proof (utf8_len_le buf); lia). cbn. apply app_nil_r.
  - rewrite (utf8_split n buf). rewrite (utf8_ascii _ Hasc).
    destruct (Nat.le_gt_cases n (length buf)) as [Hle|Hgt].
    + rewrite firstn_app. rewrite firstn_length_le by exact Hle.
      rewrite Nat.sub_diag. cbn [firstn]. rewrite app_nil_r.
      rewrite firstn_firstn. rewrite Nat.min_id. reflexivity.
    + rewrite skipn_all2 by lia. cbn [utf8 flat_map]. rewrite !app_nil_r.
      rewrite (firstn_all2 buf) by lia. rewrite firstn_all2 by lia. reflexivity.
Qed.

Lemma forallb_firstn {A} (f : A -> bool) n l : forallb f l = true -> forallb f (firstn n l) = true.
Proof.
  revert n. induction l as [|x l IH]; intros [|n] H; try reflexivity.
  cbn in *. apply andb_true_iff in H as [H1 H2]. rewrite H1. cbn. apply IH. exact H2.
Qed.

Lemma forallb_skipn {A} (f : A -> bool) n l : forallb f l = true -> forallb f (skipn n l) = true.
Proof.
  revert n. induction l as [|x l IH]; intros [|n] H; try reflexivity; try exact H.
  cbn in *. apply andb_true_iff in H as [H1 H2]. apply IH. exact H2.
Qed.

Lemma forallb_concat {A} (f : A -> bool) ls :
  forallb (forallb f) ls = true -> forallb f (concat ls) = true.
Proof.
  induction ls as [|l ls IH]; [reflexivity|]. cbn [forallb concat]. intro H.
  apply andb_true_iff in H as [H1 H2]. rewrite forallb_app, H1, (IH H2). reflexivity.
Qed.

(* ---------------------------------------------------------------- *)
Section Out.
Variable M : Type.
Variable decode : bytes -> str.
Variable ws : list N.
Variable parse : str -> res M.
Variable sep : N.

Notation state := (Model.state M).
Notation step := (Model.step M decode ws parse sep).
Notation run_trace := (Model.run_trace M decode ws parse sep).
Notation send_if_msgs := (Model.send_if_msgs M).
Notation handle_error := (Model.handle_error M).
Notation try_send := (Model.try_send M).
Notation enqueue := (Model.enqueue M).

(* the invariant, and what replaces it once a short write has slipped *)
Definition OInv (st : state) : Prop :=
  if slipped st
  then (length (wire st) + length (utf8 (outbuffer st)) < length (utf8 (taken st)))%nat
  else wire st ++ utf8 (outbuffer st) = utf8 (taken st).

Lemma oinv_same (st st' : state) :
  wire st' = wire st -> outbuffer st' = outbuffer st -> taken st' = taken st -> slipped st' = slipped st ->
  OInv st -> OInv st'.
Proof. unfold OInv. intros -> -> -> ->. auto. Qed.

Lemma handle_error_out e (st : state) :
  wire (handle_error e st) = wire st /\ outbuffer (handle_error e st) = outbuffer st /\
  taken (handle_error e st) = taken st /\ slipped (handle_error e st) = slipped st.
Proof.
  unfold Model.handle_error. destruct e as [c|]; [|cbn; auto].
  destruct (negb (c =? gen.T11.EAGAIN) || (gen.T11.EAGAIN_MAX <? eagains st)); cbn; auto.
Qed.

Lemma oinv_enqueue msgs st : OInv st -> OInv (enqueue msgs st).
Proof.
  unfold OInv. cbn [Model.enqueue slipped wire outbuffer taken].
  rewrite !utf8_app. destruct (slipped st); intro H.
  - rewrite !app_length. lia.
  - rewrite app_assoc, H. reflexivity.
Qed.

Lemma oinv_flush s st : OInv st -> OInv (try_send s st).
Proof.
  intro H. unfold Model.try_send. destruct (outbuffer st) as [|c0 ob'] eqn:Eo; [exact H|].
  destruct (encode_str (c0 :: ob')) as [data|e] eqn:Ee.
  2:{ eapply oinv_same; [..|exact H]; reflexivity. }
  apply encode_ok in Ee. rewrite <- Eo in *. clear Eo c0 ob'.
  destruct s as [k|c].
  2:{ destruct (handle_error_out (Some c) st) as (A & B & C & D). eapply oinv_same; eauto. }
  set (n := sent_count k data).
  assert (Hn : (n <= length (utf8 (outbuffer st)))%nat) by (subst data; apply sent_count_le).
  unfold OInv in *. cbn [slipped wire outbuffer taken]. subst data.
  destruct (slipped st); cbn [orb].
  - rewrite app_length, firstn_length_le by exact Hn.
    pose proof (cut_len n (outbuffer st) Hn). lia.
  - destruct (cut_ok n (outbuffer st) (utf8 (outbuffer st))) eqn:Ec; cbn [negb].
    + rewrite <- app_assoc. rewrite (cut_exact n _ Hn Ec). exact H.
    + rewrite app_length, firstn_length_le by exact Hn.
      pose proof (cut_len_strict n (outbuffer st) Hn Ec).
      rewrite <- H. rewrite app_length. lia.
Qed.

Lemma oinv_send msgs s st : OInv st -> OInv (send_if_msgs msgs s st).
Proof.
  intro H. unfold Model.send_if_msgs. destruct (connected st); cbn [negb]; [|exact H].
  apply oinv_flush. apply oinv_enqueue. exact H.
Qed.

Lemma oinv_step st ev : OInv st -> OInv (step st ev).
Proof.
  intro H. unfold Model.step. destruct (dead st); [exact H|].
  destruct ev as [msgs s|r msgs s]; [apply oinv_send; exact H|].
  destruct r as [b| |c]; cbn [Model.read].
  - destruct b as [|b0 b'].
    + destruct (handle_error_out None st) as (A & B & C & D). eapply oinv_same; eauto.
    + destruct (Model.feed_lines M decode ws parse
                  (removelast (split_char sep (inbuffer st ++ b0 :: b')))) as [d [x|]].
      * eapply oinv_same; [..|exact H]; reflexivity.
      * apply oinv_send. eapply oinv_same; [..|exact H]; reflexivity.
  - apply oinv_send; exact H.
  - destruct (handle_error_out (Some c) st) as (A & B & C & D). eapply oinv_same; eauto.
Qed.

Lemma oinv_run tr : forall st, OInv st -> OInv (run_trace st tr).
Proof.
  induction tr as [|ev tr IH]; intros st H; [exact H|].
  cbn [Model.run_trace fold_left]. apply IH. apply oinv_step. exact H.
Qed.

Lemma oinv_init : OInv (init M).
Proof. reflexivity. Qed.

(* On the domain: what the socket has accepted, followed by the encoding of
   what is still buffered, is exactly the encoding of the messages taken so
   far (in order, each once) -- for every trace. *)
Theorem out_stream_on_domain tr :
  out_dom decode ws parse sep tr = true ->
  let st := run_trace (init M) tr in
  wire st ++ utf8 (outbuffer st) = utf8 (taken st).
Proof.
  unfold out_dom. intro Hd. apply negb_true_iff in Hd. cbn zeta.
  pose proof (oinv_run tr _ oinv_init) as H. unfold OInv in H. rewrite Hd in H. exact H.
Qed.

(* The domain is exact: outside it bytes are missing for good. *)
Theorem out_stream_off_domain tr :
  out_dom decode ws parse sep tr = false ->
  let st := run_trace (init M) tr in
  (length (wire st) + length (utf8 (outbuffer st)) < length (utf8 (taken st)))%nat /\
  wire st ++ utf8 (outbuffer st) <> utf8 (taken st).
Proof.
  unfold out_dom. intro Hd. apply negb_false_iff in Hd. cbn zeta.
  pose proof (oinv_run tr _ oinv_init) as H. unfold OInv in H. rewrite Hd in H.
  split; [exact H|]. intro E. apply (f_equal (@length N)) in E. rewrite app_length in E. lia.
Qed.

(* ---------------------------------------------------------------- *)
(* all-ASCII traffic is inside the domain, whatever send() returns *)
Definition ev_msgs (ev : event) : list str :=
  match ev with EvSend msgs _ => msgs | EvRead _ msgs _ => msgs end.
Definition ascii_trace (tr : list event) : bool :=
  forallb (fun ev => forallb (forallb is_ascii) (ev_msgs ev)) tr.

Definition AInv (st : state) : Prop := forallb is_ascii (outbuffer st) = true /\ slipped st = false.

Lemma ainv_same (st st' : state) :
  outbuffer st' = outbuffer st -> slipped st' = slipped st -> AInv st -> AInv st'.
Proof. unfold AInv. intros -> ->. auto. Qed.

Lemma ainv_send msgs s st :
  forallb (forallb is_ascii) msgs = true -> AInv st -> AInv (send_if_msgs msgs s st).
Proof.
  intros Hm [Ha Hs]. unfold Model.send_if_msgs. destruct (connected st); cbn [negb]; [|split; assumption].
  assert (H1 : AInv (enqueue msgs st)).
  { split; [|exact Hs]. cbn. rewrite forallb_app, Ha. cbn. apply forallb_concat. exact Hm. }
  revert H1. generalize (enqueue msgs st). intros st1 [Ha1 Hs1].
  unfold Model.try_send. destruct (outbuffer st1) as [|c0 ob'] eqn:Eo; [split; [rewrite Eo; reflexivity|assumption]|].
  destruct (encode_str (c0 :: ob')) as [data|e]; [|split; cbn; congruence].
  rewrite <- Eo in *.
  destruct s as [k|c].
  - split; cbn.
    + apply forallb_skipn. exact Ha1.
    + rewrite Hs1. unfold cut_ok. rewrite (forallb_firstn _ _ _ Ha1). rewrite orb_true_r. reflexivity.
  - destruct (handle_error_out (Some c) st1) as (_ & B & _ & D). eapply ainv_same; eauto. split; assumption.
Qed.

Lemma ainv_step st ev :
  forallb (forallb is_ascii) (ev_msgs ev) = true -> AInv st -> AInv (step st ev).
Proof.
  intros Hm H. unfold Model.step. destruct (dead st); [exact H|].
  destruct ev as [msgs s|r msgs s]; cbn [ev_msgs] in Hm; [apply ainv_send; assumption|].
  destruct r as [b| |c]; cbn [Model.read].
  - destruct b as [|b0 b'].
    + destruct (handle_error_out None st) as (_ & B & _ & D). eapply ainv_same; eauto.
    + destruct (Model.feed_lines M decode ws parse
                  (removelast (split_char sep (inbuffer st ++ b0 :: b')))) as [d [x|]].
      * eapply ainv_same; [..|exact H]; reflexivity.
      * apply ainv_send; [assumption|]. eapply ainv_same; [..|exact H]; reflexivity.
  - apply ainv_send; assumption.
  - destruct (handle_error_out (Some c) st) as (_ & B & _ & D). eapply ainv_same; eauto.
Qed.

Theorem out_ascii_in_domain tr :
  ascii_trace tr = true -> out_dom decode ws parse sep tr = true.
Proof.
  intro Ht. unfold out_dom. apply negb_true_iff.
  assert (H : forall st, AInv st -> AInv (run_trace st tr)).
  { induction tr as [|ev tr IH]; intros st Hst; [exact Hst|].
    cbn [ascii_trace forallb] in Ht. apply andb_true_iff in Ht as [He Ht].
    cbn [Model.run_trace fold_left]. apply (IH Ht). apply ainv_step; assumption. }
  apply (H (init M)). split; reflexivity.
Qed.

(* ---------------------------------------------------------------- *)
(* complete writes are inside the domain too, whatever the text: if every
   send() accepts at least as many bytes as the whole trace ever queues *)
Definition ev_sres (ev : event) : sres :=
  match ev with EvSend _ s => s | EvRead _ _ s => s end.
Definition trace_bytes (tr : list event) : nat :=
  fold_right (fun ev acc => (length (utf8 (concat (ev_msgs ev))) + acc)%nat) 0%nat tr.
Definition sres_full (B : nat) (s : sres) : bool :=
  match s with Sent k => N.of_nat B <=? k | SErr _ => true end.
Definition full_sends (B : nat) (tr : list event) : bool :=
  forallb (fun ev => sres_full B (ev_sres ev)) tr.

Lemma send_noslip msgs s st B :
  OInv st -> slipped st = false ->
  (length (utf8 (taken st)) + length (utf8 (concat msgs)) <= B)%nat ->
  sres_full B s = true ->
  slipped (send_if_msgs msgs s st) = false /\ (length (utf8 (taken (send_if_msgs msgs s st))) <= length (utf8 (taken st)) + length (utf8 (concat msgs)))%nat.
Proof.
  intros Ho Hs Hb Hf. unfold Model.send_if_msgs. destruct (connected st); cbn [negb]; [|split; [exact Hs|lia]].
  pose proof (oinv_enqueue msgs st Ho) as Ho1.
  assert (Hs1 : slipped (enqueue msgs st) = false) by exact Hs.
  assert (Ht1 : taken (enqueue msgs st) = taken st ++ concat msgs) by reflexivity.
  revert Ho1 Hs1 Ht1. generalize (enqueue msgs st). intros st1 Ho1 Hs1 Ht1.
  assert (Hlen : (length (utf8 (taken st1)) = length (utf8 (taken st)) + length (utf8 (concat msgs)))%nat)
    by (rewrite Ht1, utf8_app, app_length; reflexivity).
  assert (Hob : (length (utf8 (outbuffer st1)) <= B)%nat).
  { unfold OInv in Ho1. rewrite Hs1 in Ho1. apply (f_equal (@length N)) in Ho1.
    rewrite app_length in Ho1. lia. }
  unfold Model.try_send. destruct (outbuffer st1) as [|c0 ob'] eqn:Eo; [split; [exact Hs1|lia]|].
  destruct (encode_str (c0 :: ob')) as [data|e] eqn:Ee; [|split; [exact Hs1|cbn [set_dead taken]; lia]].
  apply encode_ok in Ee. rewrite <- Eo in *. subst data.
  destruct s as [k|c].
  - cbn [slipped taken]. split; [|lia]. rewrite Hs1. cbn [orb]. apply negb_false_iff.
    unfold cut_ok. apply orb_true_iff. left. apply Nat.eqb_eq.
    unfold sent_count. cbn [sres_full] in Hf. apply N.leb_le in Hf. lia.
  - destruct (handle_error_out (Some c) st1) as (_ & _ & C & D). rewrite C, D. split; [exact Hs1|lia].
Qed.

Lemma step_noslip st ev B :
  OInv st -> slipped st = false ->
  (length (utf8 (taken st)) + length (utf8 (concat (ev_msgs ev))) <= B)%nat ->
  sres_full B (ev_sres ev) = true ->
  slipped (step st ev) = false /\ (length (utf8 (taken (step st ev))) <= length (utf8 (taken st)) + length (utf8 (concat (ev_msgs ev))))%nat.
Proof.
  intros Ho Hs Hb Hf. unfold Model.step. destruct (dead st); [split; [exact Hs|lia]|].
  destruct ev as [msgs s|r msgs s]; cbn [ev_msgs ev_sres] in *; [apply (send_noslip msgs s st B); assumption|].
  destruct r as [b| |c]; cbn [Model.read].
  - destruct b as [|b0 b'].
    + destruct (handle_error_out None st) as (_ & _ & C & D). rewrite C, D. split; [exact Hs|lia].
    + destruct (Model.feed_lines M decode ws parse
                  (removelast (split_char sep (inbuffer st ++ b0 :: b')))) as [d [x|]].
      * cbn [set_dead slipped taken]. split; [exact Hs|lia].
      * match goal with |- context [send_if_msgs msgs s ?st1] =>
          pose proof (send_noslip msgs s st1 B) as Hx end.
        cbn [slipped taken] in Hx. apply Hx; assumption.
  - apply (send_noslip msgs s st B); assumption.
  - destruct (handle_error_out (Some c) st) as (_ & _ & C & D). rewrite C, D. split; [exact Hs|lia].
Qed.

Lemma run_noslip tr : forall st B,
  OInv st -> slipped st = false ->
  (length (utf8 (taken st)) + trace_bytes tr <= B)%nat ->
  full_sends B tr = true ->
  slipped (run_trace st tr) = false.
Proof.
  induction tr as [|ev tr IH]; intros st B Ho Hs Hb Hf; [exact Hs|].
  cbn [trace_bytes fold_right] in Hb. fold (trace_bytes tr) in Hb.
  cbn [full_sends forallb] in Hf. apply andb_true_iff in Hf as [Hf1 Hf2].
  cbn [Model.run_trace fold_left].
  destruct (step_noslip st ev B Ho Hs) as [A1 A2]; [lia|exact Hf1|].
  apply (IH _ B); [apply oinv_step; exact Ho|exact A1|lia|exact Hf2].
Qed.

Theorem out_full_in_domain tr :
  full_sends (trace_bytes tr) tr = true -> out_dom decode ws parse sep tr = true.
Proof.
  intro Hf. unfold out_dom. apply negb_true_iff.
  apply (run_noslip tr (init M) (trace_bytes tr)); [exact oinv_init|reflexivity|cbn; lia|exact Hf].
Qed.

(* ---------------------------------------------------------------- *)
(* progress: while the connection lives, sends that accept at least one byte
   empty the buffer after at most |outbuffer| calls; nothing else moves *)
Theorem out_progress ks : forall st,
  dead st = None -> connected st = true ->
  forallb encodable (outbuffer st) = true ->
  Forall (fun k => 1 <= k) ks ->
  (length (outbuffer st) <= length ks)%nat ->
  let st' := run_trace st (drains ks) in
  outbuffer st' = [] /\ dead st' = None /\ connected st' = true /\ taken st' = taken st.
Proof.
  induction ks as [|k ks IH]; intros st Hd Hc He Hk Hl.
  - cbn in *. destruct (outbuffer st); [auto|cbn in Hl; lia].
  - inversion Hk as [|? ? Hk1 Hks]; subst.
    cbn [drains map Model.run_trace fold_left]. fold (drains ks).
    set (st1 := step st (EvSend [] (Sent k))).
    assert (H1 : dead st1 = None /\ connected st1 = true /\ forallb encodable (outbuffer st1) = true /\
                 (length (outbuffer st1) <= length ks)%nat /\ taken st1 = taken st).
    { unfold st1, Model.step. rewrite Hd. unfold Model.send_if_msgs. rewrite Hc. cbn [negb].
      unfold Model.try_send. cbn [Model.enqueue outbuffer concat]. rewrite !app_nil_r.
      destruct (outbuffer st) as [|c0 ob'] eqn:Eo.
      - cbn. rewrite Eo. cbn. repeat split; auto; try apply app_nil_r; try lia.
      - unfold encode_str. rewrite He.
        cbn [connected dead outbuffer taken]. rewrite <- Eo in *.
        repeat split; auto; try apply app_nil_r.
        + apply forallb_skipn. exact He.
        + rewrite skipn_length.
          assert (1 <= sent_count k (utf8 (outbuffer st)))%nat.
          { apply sent_count_pos; [exact Hk1|]. pose proof (utf8_len_le (outbuffer st)).
            rewrite Eo in *. cbn [length] in *. lia. }
          cbn [length] in Hl. rewrite Eo in *. cbn [length] in *. lia. }
    destruct H1 as (A & B & C & D & E).
    destruct (IH st1 A B C Hks D) as (F & G & H & I).
    unfold Model.run_trace in *. cbn zeta in *. repeat split; auto; congruence.
Qed.

(* EAGAIN accounting of _handleSocketError: a send() that raises EAGAIN moves no
   byte and loses no text; the connection survives it exactly while the count
   of consecutive EAGAINs has not passed the limit *)
Theorem eagain_step st :
  dead st = None -> connected st = true ->
  outbuffer st <> [] -> forallb encodable (outbuffer st) = true ->
  let st' := step st (EvSend [] (SErr gen.T11.EAGAIN)) in
  outbuffer st' = outbuffer st /\ wire st' = wire st /\ taken st' = taken st /\ dead st' = None /\
  connected st' = (eagains st <=? gen.T11.EAGAIN_MAX) /\
  (eagains st <= gen.T11.EAGAIN_MAX -> eagains st' = eagains st + 1).
Proof.
  destruct st as [c d e ib ob w t sl r dl].
  cbn [dead connected outbuffer eagains wire taken]. intros -> -> Hne He.
  unfold Model.step, Model.send_if_msgs, Model.try_send, Model.enqueue, Model.handle_error,
    Model.set_conn, Model.set_eagains.
  cbn [dead connected outbuffer eagains wire taken inbuffer slipped received delivered negb concat].
  rewrite !app_nil_r. destruct ob as [|c0 ob']; [congruence|].
  unfold encode_str. rewrite He. rewrite N.eqb_refl. cbn [negb orb].
  destruct (gen.T11.EAGAIN_MAX <? e) eqn:El;
    cbn [dead connected outbuffer eagains wire taken inbuffer slipped received delivered].
  - apply N.ltb_lt in El. repeat split; auto.
    + symmetry. apply N.leb_gt. exact El.
    + intro. lia.
  - apply N.ltb_ge in El. repeat split; auto.
    symmetry. apply N.leb_le. exact El.
Qed.

End Out.

(* ---------------------------------------------------------------- *)
(* the witness of finding F11: 'héllo', send() accepts 3 of its 6 bytes *)
Definition f11_trace : list event :=
  [EvSend [[104; 233; 108; 108; 111]] (Sent 3); EvSend [] (Sent 1000)].

Lemma f11_refutes :
  out_dom utf8_decode_replace gen.T11.WHITESPACE (parse_tbl []) gen.T11.LINE_SEP f11_trace = false /\
  let st := crun [] (init str) f11_trace in
  outbuffer st = [] /\ wire st = utf8 [104; 233; 108; 111] /\ wire st <> utf8 (taken st).
Proof. vm_compute. repeat split. discriminate. Qed.
