(* C11/Outgoing.v — the outgoing path: bytes accepted by the socket vs. the
   UTF-8 encoding of the messages taken from the queue.  The out-buffer holds
   bytes (repair of C11.F11), so the invariant holds on every trace. *)
From Coq Require Import List NArith ZArith Bool Lia Arith.
Import ListNotations.
Require Import Base.Wire Base.PyStr C11.Model C11.AuxList.
Open Scope N_scope.

Lemma utf8_app a b : utf8 (a ++ b) = utf8 a ++ utf8 b.
Proof. unfold utf8. apply flat_map_app. Qed.

Lemma encode_ok s d : encode_str s = Ok d -> d = utf8 s.
Proof. unfold encode_str. destruct (forallb encodable s); congruence. Qed.

Lemma encode_raise s e : encode_str s = Raise e -> forallb encodable s = false.
Proof. unfold encode_str. destruct (forallb encodable s); [discriminate|reflexivity]. Qed.

Lemma sent_count_le k data : (sent_count k data <= length data)%nat.
Proof. unfold sent_count. lia. Qed.

Lemma sent_count_pos k data : 1 <= k -> (1 <= length data)%nat -> (1 <= sent_count k data)%nat.
Proof. unfold sent_count. lia. Qed.

(* ---------------------------------------------------------------- *)
Section Out.
Variable M : Type.
Variable decode : bytes -> str.
Variable ws : list N.
Variable parse : str -> res M.
Variable sep : N.

Notation state := (Model.state M).
Notation step := (Model.step M decode ws parse sep).
Notation run_trace := (Model.run_trace M decode ws parse sep).
Notation send_if_msgs := (Model.send_if_msgs M).
Notation handle_error := (Model.handle_error M).
Notation try_send := (Model.try_send M).
Notation enqueue := (Model.enqueue M).

(* the invariant: what the socket accepted, then what is still buffered, is the
   encoding of the text that entered the buffer; that text is all the text
   taken from the queue, except for a last batch without a UTF-8 encoding,
   whose exception ended the driver *)
Definition OInv (st : state) : Prop :=
  wire st ++ outbuffer st = utf8 (queued st) /\
  (taken st = queued st \/
   (dead st <> None /\ exists d, taken st = queued st ++ d /\ forallb encodable d = false)).

Lemma oinv_same (st st' : state) :
  wire st' = wire st -> outbuffer st' = outbuffer st -> taken st' = taken st -> queued st' = queued st ->
  (dead st <> None -> dead st' <> None) ->
  OInv st -> OInv st'.
Proof.
  unfold OInv. intros -> -> -> -> Hd [H1 H2]. split; [exact H1|].
  destruct H2 as [H2|[H2 H3]]; [left; exact H2|right; split; auto].
Qed.

Lemma handle_error_out e (st : state) :
  wire (handle_error e st) = wire st /\ outbuffer (handle_error e st) = outbuffer st /\
  taken (handle_error e st) = taken st /\ queued (handle_error e st) = queued st /\
  dead (handle_error e st) = dead st.
Proof.
  unfold Model.handle_error. destruct e as [c|]; [|cbn; auto].
  destruct (negb (c =? gen.T11.EAGAIN) || (gen.T11.EAGAIN_MAX <? eagains st)); cbn; auto.
Qed.

Lemma oinv_enqueue msgs st : dead st = None -> OInv st -> OInv (enqueue msgs st).
Proof.
  intros Hd [H1 H2]. destruct H2 as [H2|[H2 _]]; [|congruence].
  unfold Model.enqueue. destruct (encode_str (concat msgs)) as [data|e] eqn:Ee.
  - apply encode_ok in Ee. subst data. split; cbn [wire outbuffer queued taken].
    + rewrite utf8_app, app_assoc, H1. reflexivity.
    + left. rewrite H2. reflexivity.
  - apply encode_raise in Ee. split; cbn [wire outbuffer queued taken dead]; [exact H1|].
    right. split; [discriminate|]. exists (concat msgs). rewrite H2. auto.
Qed.

Lemma oinv_try_send s st : OInv st -> OInv (try_send s st).
Proof.
  intro H. unfold Model.try_send. destruct (outbuffer st) as [|c0 ob'] eqn:Eo; [exact H|].
  rewrite <- Eo in *. clear Eo c0 ob'.
  destruct s as [k|c].
  - destruct H as [H1 H2]. split; cbn [wire outbuffer queued taken dead]; [|exact H2].
    rewrite <- app_assoc, firstn_skipn. exact H1.
  - destruct (handle_error_out (Some c) st) as (A & B & C & D & E).
    eapply oinv_same; eauto; try (rewrite E; auto).
Qed.

Lemma oinv_send msgs s st : dead st = None -> OInv st -> OInv (send_if_msgs msgs s st).
Proof.
  intros Hd H. unfold Model.send_if_msgs. destruct (connected st); cbn [negb]; [|exact H].
  pose proof (oinv_enqueue msgs st Hd H) as H1.
  destruct (dead (enqueue msgs st)); [exact H1|]. apply oinv_try_send. exact H1.
Qed.

Lemma oinv_step st ev : OInv st -> OInv (step st ev).
Proof.
  intro H. unfold Model.step. destruct (dead st) eqn:Hd; [exact H|].
  destruct ev as [msgs s|r msgs s|]; [apply oinv_send; assumption| |split; [reflexivity|left; reflexivity]].
  destruct r as [b| |c]; cbn [Model.read].
  - destruct b as [|b0 b'].
    + destruct (handle_error_out None st) as (A & B & C & D & E). eapply oinv_same; eauto; try congruence.
    + destruct (Model.feed_lines M decode ws parse
                  (removelast (split_char sep (inbuffer st ++ b0 :: b')))) as [d [x|]].
      * eapply oinv_same; [..|exact H]; try reflexivity. congruence.
      * apply oinv_send; [exact Hd|]. eapply oinv_same; [..|exact H]; try reflexivity. auto.
  - apply oinv_send; assumption.
  - destruct (handle_error_out (Some c) st) as (A & B & C & D & E). eapply oinv_same; eauto; try congruence.
Qed.

Lemma oinv_run tr : forall st, OInv st -> OInv (run_trace st tr).
Proof.
  induction tr as [|ev tr IH]; intros st H; [exact H|].
  cbn [Model.run_trace fold_left]. apply IH. apply oinv_step. exact H.
Qed.

Lemma oinv_init : OInv (init M).
Proof. split; [reflexivity|left; reflexivity]. Qed.

(* For EVERY trace: the bytes the socket has accepted, followed by the bytes
   still buffered, are exactly the UTF-8 encoding of the text of the messages
   that entered the buffer (in order, each once); that text is everything taken
   from the queue, unless a last batch had no UTF-8 encoding (a lone
   surrogate), in which case its exception has ended the driver. *)
Theorem out_stream tr :
  let st := run_trace (init M) tr in
  wire st ++ outbuffer st = utf8 (queued st) /\
  (taken st = queued st \/
   (dead st <> None /\ exists d, taken st = queued st ++ d /\ forallb encodable d = false)).
Proof. cbn zeta. exact (oinv_run tr _ oinv_init). Qed.

(* the clause as the property states it, for text that has a UTF-8 encoding *)
Theorem out_stream_encodable tr :
  let st := run_trace (init M) tr in
  forallb encodable (taken st) = true ->
  wire st ++ outbuffer st = utf8 (taken st).
Proof.
  cbn zeta. destruct (out_stream tr) as [H1 [H2|(_ & d & H2 & H3)]]; cbn zeta in *; intro He.
  - rewrite H2. exact H1.
  - rewrite H2, forallb_app in He. apply andb_true_iff in He as [_ He]. congruence.
Qed.

(* ---------------------------------------------------------------- *)
(* progress: while the connection lives, sends that accept at least one byte
   empty the buffer after at most |outbuffer| calls; nothing else moves *)
Theorem out_progress ks : forall st,
  dead st = None -> connected st = true ->
  Forall (fun k => 1 <= k) ks ->
  (length (outbuffer st) <= length ks)%nat ->
  let st' := run_trace st (drains ks) in
  outbuffer st' = [] /\ dead st' = None /\ connected st' = true /\ taken st' = taken st /\
  wire st' = wire st ++ outbuffer st.
Proof.
  induction ks as [|k ks IH]; intros st Hd Hc Hk Hl.
  - cbn in *. destruct (outbuffer st); [rewrite app_nil_r; auto|cbn in Hl; lia].
  - inversion Hk as [|? ? Hk1 Hks]; subst.
    cbn [drains map Model.run_trace fold_left]. fold (drains ks).
    set (st1 := step st (EvSend [] (Sent k))).
    assert (H1 : dead st1 = None /\ connected st1 = true /\
                 (length (outbuffer st1) <= length ks)%nat /\ taken st1 = taken st /\
                 wire st1 ++ outbuffer st1 = wire st ++ outbuffer st).
    { unfold st1. clear st1 IH. destruct st as [c d e ib ob w t q r dl].
      cbn [dead connected outbuffer taken wire] in *. subst c d.
      unfold Model.step, Model.send_if_msgs, Model.enqueue.
      cbn [dead connected negb concat encode_str forallb utf8 flat_map outbuffer eagains wire taken inbuffer
           queued received delivered].
      unfold Model.try_send.
      cbn [dead connected outbuffer eagains wire taken inbuffer queued received delivered].
      rewrite !app_nil_r. destruct ob as [|c0 ob'];
        cbn [dead connected outbuffer eagains wire taken inbuffer queued received delivered].
      - repeat split; auto. cbn. lia.
      - repeat split; auto.
        + rewrite skipn_length.
          assert (1 <= sent_count k (c0 :: ob'))%nat by (apply sent_count_pos; [exact Hk1|cbn [length]; lia]).
          cbn [length] in *. lia.
        + rewrite <- app_assoc, firstn_skipn. reflexivity. }
    destruct H1 as (A & B & D & E & F).
    destruct (IH st1 A B Hks D) as (G & H & I & J & K).
    unfold Model.run_trace in *. cbn zeta in *. repeat split; auto; try congruence.
Qed.

(* EAGAIN accounting of _handleSocketError: a send() that raises EAGAIN moves no
   byte and loses no text; the connection survives it exactly while the count
   of consecutive EAGAINs has not passed the limit *)
Theorem eagain_step st :
  dead st = None -> connected st = true -> outbuffer st <> [] ->
  let st' := step st (EvSend [] (SErr gen.T11.EAGAIN)) in
  outbuffer st' = outbuffer st /\ wire st' = wire st /\ taken st' = taken st /\ dead st' = None /\
  connected st' = (eagains st <=? gen.T11.EAGAIN_MAX) /\
  (eagains st <= gen.T11.EAGAIN_MAX -> eagains st' = eagains st + 1).
Proof.
  destruct st as [c d e ib ob w t q r dl].
  cbn [dead connected outbuffer eagains wire taken]. intros -> -> Hne.
  unfold Model.step, Model.send_if_msgs, Model.enqueue.
  cbn [dead connected negb concat encode_str forallb utf8 flat_map outbuffer eagains wire taken inbuffer queued
       received delivered].
  unfold Model.try_send, Model.handle_error, Model.set_conn, Model.set_eagains.
  cbn [dead connected outbuffer eagains wire taken inbuffer queued received delivered].
  rewrite !app_nil_r. destruct ob as [|c0 ob']; [congruence|].
  rewrite N.eqb_refl. cbn [negb orb].
  destruct (gen.T11.EAGAIN_MAX <? e) eqn:El;
    cbn [dead connected outbuffer eagains wire taken inbuffer queued received delivered].
  - apply N.ltb_lt in El. repeat split; auto.
    + symmetry. apply N.leb_gt. exact El.
    + intro. lia.
  - apply N.ltb_ge in El. repeat split; auto.
    symmetry. apply N.leb_le. exact El.
Qed.

(* ---------------------------------------------------------------- *)
(* EAGAINs that come in runs of at most EAGAIN_MAX+1 never end the connection,
   however many there are in total: the counter is reset by every successful
   send().  Send-only traces (nothing is received: a slow, silent server), text
   with a UTF-8 encoding. *)
Fixpoint eagain_runs_ok (r : N) (tr : list event) : bool :=
  match tr with
  | [] => true
  | EvSend msgs s :: t =>
      forallb encodable (concat msgs) &&
      match s with
      | Sent _ => eagain_runs_ok 0 t
      | SErr c => (c =? gen.T11.EAGAIN) && (r <=? gen.T11.EAGAIN_MAX) && eagain_runs_ok (r + 1) t
      end
  | EvRead _ _ _ :: _ => false
  | EvReconnect :: t => eagain_runs_ok 0 t             (* a new connection: the count starts again *)
  end.

(* r = number of EAGAIN events immediately before *)
Definition KInv (st : state) (r : N) : Prop :=
  connected st = true /\ dead st = None /\ eagains st <= r /\ (outbuffer st = [] -> eagains st = 0).

Lemma kinv_sent st r msgs k :
  KInv st r -> forallb encodable (concat msgs) = true -> KInv (step st (EvSend msgs (Sent k))) 0.
Proof.
  destruct st as [c d e ib ob w t q rc dl]. unfold KInv.
  cbn [dead connected outbuffer eagains]. intros (-> & -> & He & Hz) Hm.
  unfold Model.step, Model.send_if_msgs, Model.enqueue, encode_str.
  cbn [dead connected negb]. rewrite Hm. cbn [dead]. unfold Model.try_send. cbn [outbuffer].
  destruct (ob ++ utf8 (concat msgs)) as [|c0 ob'] eqn:Eo; cbn [dead connected outbuffer eagains].
  - apply app_eq_nil in Eo as [Eo _]. rewrite (Hz Eo). repeat split; auto; try lia.
  - repeat split; auto; try lia; try discriminate.
Qed.

Lemma kinv_eagain st r msgs :
  KInv st r -> forallb encodable (concat msgs) = true -> r <= gen.T11.EAGAIN_MAX ->
  KInv (step st (EvSend msgs (SErr gen.T11.EAGAIN))) (r + 1).
Proof.
  destruct st as [c d e ib ob w t q rc dl]. unfold KInv.
  cbn [dead connected outbuffer eagains]. intros (-> & -> & He & Hz) Hm Hr.
  unfold Model.step, Model.send_if_msgs, Model.enqueue, encode_str.
  cbn [dead connected negb]. rewrite Hm. cbn [dead]. unfold Model.try_send. cbn [outbuffer].
  destruct (ob ++ utf8 (concat msgs)) as [|c0 ob'] eqn:Eo; cbn [dead connected outbuffer eagains].
  - apply app_eq_nil in Eo as [Eo _]. rewrite (Hz Eo). repeat split; auto; try lia.
  - unfold Model.handle_error, Model.set_conn, Model.set_eagains. cbn [eagains].
    rewrite N.eqb_refl. cbn [negb orb].
    assert (El : (gen.T11.EAGAIN_MAX <? e) = false) by (apply N.ltb_ge; lia).
    rewrite El. cbn [dead connected outbuffer eagains]. repeat split; auto; try lia; try discriminate.
Qed.

Lemma kinv_run tr : forall st r,
  KInv st r -> eagain_runs_ok r tr = true ->
  connected (run_trace st tr) = true /\ dead (run_trace st tr) = None.
Proof.
  induction tr as [|ev tr IH]; intros st r HK Hok.
  - destruct HK as (A & B & _). auto.
  - destruct ev as [msgs s|? ? ?|]; [|discriminate|].
    2:{ cbn [eagain_runs_ok] in Hok. cbn [Model.run_trace fold_left]. apply (IH _ 0); [|exact Hok].
        destruct HK as (A & B & _). unfold Model.step. rewrite B. unfold Model.reconnect. rewrite B.
        repeat split; cbn; auto; lia. }
    cbn [eagain_runs_ok] in Hok. apply andb_true_iff in Hok as [Hm Hok].
    cbn [Model.run_trace fold_left]. destruct s as [k|c].
    + apply (IH _ 0); [apply (kinv_sent st r); assumption|exact Hok].
    + apply andb_true_iff in Hok as [Hok Ht]. apply andb_true_iff in Hok as [Hc Hr].
      apply N.eqb_eq in Hc. subst c. apply N.leb_le in Hr.
      apply (IH _ (r + 1)); [apply kinv_eagain; assumption|exact Ht].
Qed.

Theorem out_eagain_runs_survive tr :
  eagain_runs_ok 0 tr = true ->
  let st := run_trace (init M) tr in
  connected st = true /\ dead st = None /\ wire st ++ outbuffer st = utf8 (taken st).
Proof.
  intro Hok. cbn zeta.
  assert (H0 : KInv (init M) 0) by (repeat split; cbn; auto; lia).
  destruct (kinv_run tr _ _ H0 Hok) as [A B]. repeat split; auto.
  destruct (out_stream tr) as [H1 [H2|(H2 & _)]]; cbn zeta in *; [|congruence].
  rewrite H2. exact H1.
Qed.

(* ... and sends accepting at least one byte then put every byte on the wire *)
Theorem out_eagain_runs_deliver tr ks :
  eagain_runs_ok 0 tr = true ->
  Forall (fun k => 1 <= k) ks ->
  (length (outbuffer (run_trace (init M) tr)) <= length ks)%nat ->
  let st' := run_trace (init M) (tr ++ drains ks) in
  connected st' = true /\ dead st' = None /\ outbuffer st' = [] /\
  wire st' = utf8 (taken (run_trace (init M) tr)).
Proof.
  intros Hok Hk Hl. cbn zeta. unfold Model.run_trace. rewrite fold_left_app.
  fold (run_trace (init M) tr). fold (run_trace (run_trace (init M) tr) (drains ks)).
  destruct (out_eagain_runs_survive tr Hok) as (A & B & C). cbn zeta in *.
  destruct (out_progress ks _ B A Hk Hl) as (D & E & F & _ & G). cbn zeta in *.
  repeat split; auto. rewrite G. exact C.
Qed.

End Out.

(* ---------------------------------------------------------------- *)
(* the former witness of finding C11.F11: 'héllo', send() accepts 3 of its 6
   bytes, then everything: the socket now receives all 6 bytes *)
Definition f11_trace : list event :=
  [EvSend [[104; 233; 108; 108; 111]] (Sent 3); EvSend [] (Sent 1000)].

Lemma f11_repaired :
  let st := crun [] (init str) f11_trace in
  outbuffer st = [] /\ wire st = utf8 [104; 233; 108; 108; 111] /\ wire st = utf8 (taken st).
Proof. vm_compute. repeat split. Qed.
