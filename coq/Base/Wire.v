(* Wire.v — the generic value type exchanged between the Python harness and the
   extracted model binary, plus Python-exception enum and result monad.
   No proofs here: everything is executable. *)
From Coq Require Import List NArith ZArith Bool.
Import ListNotations.
Open Scope N_scope.

(* A value on the wire: an integer or a list of values.  Strings are lists of
   code points; booleans are 0/1; None is the empty list where the model says
   so.  The OCaml driver prints/reads these as s-expressions "(1 2 (3))". *)
Inductive value : Type :=
| I (z : Z)
| L (l : list value).

Definition str := list N.          (* Unicode code points *)
Definition bytes := list N.        (* each < 256 *)

Definition vN (n : N) : value := I (Z.of_N n).
Definition vB (b : bool) : value := I (if b then 1%Z else 0%Z).
Definition vS (s : str) : value := L (map vN s).
Definition vLS (l : list str) : value := L (map vS l).
Definition vO {A} (f : A -> value) (o : option A) : value :=
  match o with None => L [] | Some a => L [f a] end.

Definition gN (v : value) : N := match v with I z => Z.to_N z | L _ => 0 end.
Definition gZ (v : value) : Z := match v with I z => z | L _ => 0%Z end.
Definition gB (v : value) : bool := match v with I z => negb (Z.eqb z 0) | L _ => false end.
Definition gL (v : value) : list value := match v with I _ => [] | L l => l end.
Definition gS (v : value) : str := map gN (gL v).
Definition gLS (v : value) : list str := map gS (gL v).
Definition gO {A} (f : value -> A) (v : value) : option A :=
  match v with L [x] => Some (f x) | _ => None end.
Definition nth_v (n : nat) (v : value) : value := nth n (gL v) (L []).

(* Python exceptions the models distinguish. *)
Inductive exn : Type :=
| IndexError | ValueError | KeyError | TypeError | AssertionError
| AttributeError | UnicodeError | MalformedIrcMsg | SyntaxError
| InvalidRegistryValue | DuplicateHostmask | OtherError.

Definition exn_code (e : exn) : Z :=
  match e with
  | IndexError => 1 | ValueError => 2 | KeyError => 3 | TypeError => 4
  | AssertionError => 5 | AttributeError => 6 | UnicodeError => 7
  | MalformedIrcMsg => 8 | SyntaxError => 9 | InvalidRegistryValue => 10
  | DuplicateHostmask => 11 | OtherError => 12
  end%Z.

Definition exn_eqb (a b : exn) : bool := Z.eqb (exn_code a) (exn_code b).

Inductive res (A : Type) : Type :=
| Ok (a : A)
| Raise (e : exn).
Arguments Ok {A} a.
Arguments Raise {A} e.

Definition bind {A B} (r : res A) (f : A -> res B) : res B :=
  match r with Ok a => f a | Raise e => Raise e end.
Notation "'do' x <- r ; k" := (bind r (fun x => k))
  (at level 200, x pattern, r at level 100, k at level 200).

(* wire form of a result: (0 v) for Ok, (1 code) for Raise *)
Definition vR {A} (f : A -> value) (r : res A) : value :=
  match r with
  | Ok a => L [I 0%Z; f a]
  | Raise e => L [I 1%Z; I (exn_code e)]
  end.

(* executable equality on wire values (used by the thorough-tier cross-check of
   the extracted binary against evaluation inside Coq) *)
Fixpoint value_eqb (a b : value) : bool :=
  match a, b with
  | I x, I y => Z.eqb x y
  | L la, L lb =>
      (fix go (la lb : list value) : bool :=
         match la, lb with
         | [], [] => true
         | x :: la', y :: lb' => value_eqb x y && go la' lb'
         | _, _ => false
         end) la lb
  | _, _ => false
  end.
