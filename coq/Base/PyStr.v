(* PyStr.v — Python str primitives over code-point lists, with the lemmas the
   property proofs use.  Definitions are executable and total. *)
From Coq Require Import List NArith Bool Lia Arith.
Import ListNotations.
Require Import Base.Wire.
Open Scope N_scope.

Definition ceq (a b : N) : bool := N.eqb a b.

Fixpoint seq_eqb (a b : str) : bool :=
  match a, b with
  | [], [] => true
  | x :: a', y :: b' => N.eqb x y && seq_eqb a' b'
  | _, _ => false
  end.

Lemma seq_eqb_eq a b : seq_eqb a b = true <-> a = b.
Proof.
  revert b; induction a as [|x a IH]; intros [|y b]; simpl; split; intro H;
    try congruence; try discriminate.
  - apply andb_true_iff in H as [H1 H2]. apply N.eqb_eq in H1. apply IH in H2. congruence.
  - inversion H; subst. rewrite N.eqb_refl. simpl. apply IH. reflexivity.
Qed.

Lemma seq_eqb_refl a : seq_eqb a a = true.
Proof. apply seq_eqb_eq; reflexivity. Qed.

Lemma seq_eqb_neq a b : seq_eqb a b = false <-> a <> b.
Proof.
  split; intro H.
  - intro E. apply seq_eqb_eq in E. congruence.
  - destruct (seq_eqb a b) eqn:E; [|reflexivity]. apply seq_eqb_eq in E. contradiction.
Qed.

Definition mem (c : N) (l : list N) : bool := existsb (N.eqb c) l.

Lemma mem_In c l : mem c l = true <-> In c l.
Proof.
  unfold mem. rewrite existsb_exists. split.
  - intros [x [Hin He]]. apply N.eqb_eq in He. subst. exact Hin.
  - intro H. exists c. split; [exact H|apply N.eqb_refl].
Qed.

Lemma mem_false c l : mem c l = false <-> ~ In c l.
Proof.
  split; intro H.
  - intro Hin. apply mem_In in Hin. congruence.
  - destruct (mem c l) eqn:E; [|reflexivity]. apply mem_In in E. contradiction.
Qed.

Lemma mem_app c a b : mem c (a ++ b) = mem c a || mem c b.
Proof. unfold mem. apply existsb_app. Qed.

(* s.startswith(p) *)
Fixpoint startswith (p s : str) : bool :=
  match p, s with
  | [], _ => true
  | x :: p', y :: s' => N.eqb x y && startswith p' s'
  | _ :: _, [] => false
  end.

Lemma startswith_app p s : startswith p (p ++ s) = true.
Proof. induction p; simpl; [reflexivity|]. rewrite N.eqb_refl. exact IHp. Qed.

(* s.endswith([c]) for a single character *)
Definition last_char (s : str) : option N :=
  match rev s with [] => None | c :: _ => Some c end.
Definition endswith1 (c : N) (s : str) : bool :=
  match last_char s with Some d => N.eqb c d | None => false end.

Lemma last_char_app s c : last_char (s ++ [c]) = Some c.
Proof. unfold last_char. rewrite rev_app_distr. reflexivity. Qed.

(* s.split(sep, 1) for a non-empty separator: first occurrence. *)
Fixpoint split1 (sep s : str) : option (str * str) :=
  match s with
  | [] => None
  | c :: s' =>
      if startswith sep s then Some ([], skipn (length sep) s)
      else match split1 sep s' with
           | Some (a, b) => Some (c :: a, b)
           | None => None
           end
  end.

(* 'sep in s' *)
Definition contains (sep s : str) : bool :=
  match split1 sep s with Some _ => true | None => false end.

(* s.split(c) on one character: always at least one piece *)
Fixpoint split_char (c : N) (s : str) : list str :=
  match s with
  | [] => [[]]
  | x :: s' =>
      if N.eqb x c then [] :: split_char c s'
      else match split_char c s' with
           | [] => [[x]]           (* unreachable *)
           | p :: ps => (x :: p) :: ps
           end
  end.

Definition nonempty (s : str) : bool := match s with [] => false | _ => true end.

Fixpoint join (sep : str) (l : list str) : str :=
  match l with
  | [] => []
  | [x] => x
  | x :: l' => x ++ sep ++ join sep l'
  end.

(* s.rstrip(chars) *)
Definition rstrip (chars : list N) (s : str) : str :=
  rev ((fix go (r : str) : str :=
          match r with
          | [] => []
          | c :: r' => if mem c chars then go r' else r
          end) (rev s)).

Fixpoint lstrip (chars : list N) (s : str) : str :=
  match s with
  | [] => []
  | c :: s' => if mem c chars then lstrip chars s' else s
  end.

Definition strip (chars : list N) (s : str) : str := rstrip chars (lstrip chars s).

(* association lists keyed by strings: Python dict with insertion order *)
Fixpoint dict_get {A} (k : str) (d : list (str * A)) : option A :=
  match d with
  | [] => None
  | (k', v) :: d' => if seq_eqb k k' then Some v else dict_get k d'
  end.
Fixpoint dict_set {A} (k : str) (v : A) (d : list (str * A)) : list (str * A) :=
  match d with
  | [] => [(k, v)]
  | (k', v') :: d' => if seq_eqb k k' then (k', v) :: d' else (k', v') :: dict_set k v d'
  end.
Definition dict_has {A} (k : str) (d : list (str * A)) : bool :=
  match dict_get k d with Some _ => true | None => false end.

(* ------------------------------------------------------------------ *)
(* Lemmas *)

Lemma split_char_nonnil c s : split_char c s <> [].
Proof.
  induction s as [|x s IH]; simpl; [discriminate|].
  destruct (N.eqb x c); [discriminate|].
  destruct (split_char c s); discriminate.
Qed.

Lemma split_char_nomem c s : mem c s = false -> split_char c s = [s].
Proof.
  induction s as [|x s IH]; simpl; intro H; [reflexivity|].
  apply orb_false_iff in H as [H1 H2].
  rewrite N.eqb_sym in H1. rewrite H1. rewrite (IH H2). reflexivity.
Qed.

Lemma split_char_app c a b :
  mem c a = false ->
  split_char c (a ++ c :: b) = a :: split_char c b.
Proof.
  induction a as [|x a IH]; simpl; intro H.
  - rewrite N.eqb_refl. reflexivity.
  - apply orb_false_iff in H as [H1 H2]. rewrite N.eqb_sym in H1. rewrite H1.
    rewrite (IH H2). reflexivity.
Qed.

(* joining pieces that do not contain the separator and splitting again *)
Lemma split_char_join c (l : list str) :
  l <> [] -> Forall (fun p => mem c p = false) l ->
  split_char c (join [c] l) = l.
Proof.
  induction l as [|x l IH]; intros Hne Hall; [congruence|].
  inversion Hall as [|? ? Hx Hl]; subst.
  destruct l as [|y l'].
  - simpl. apply split_char_nomem. exact Hx.
  - change (join [c] (x :: y :: l')) with (x ++ c :: join [c] (y :: l')).
    rewrite split_char_app by exact Hx. f_equal. apply IH; [discriminate|exact Hl].
Qed.

Lemma rstrip_app_keep chars s c :
  mem c chars = false -> rstrip chars (s ++ [c]) = s ++ [c].
Proof.
  intro H. unfold rstrip. rewrite rev_app_distr. simpl. rewrite H.
  simpl. rewrite rev_involutive. reflexivity.
Qed.

Lemma rstrip_app_strip chars s t :
  forallb (fun c => mem c chars) t = true ->
  rstrip chars (s ++ t) = rstrip chars s.
Proof.
  revert s. induction t as [|c t IH] using rev_ind; intros s H.
  - rewrite app_nil_r. reflexivity.
  - rewrite forallb_app in H. apply andb_true_iff in H as [Ht Hc].
    simpl in Hc. rewrite andb_true_r in Hc.
    rewrite app_assoc. unfold rstrip at 1. rewrite rev_app_distr. simpl. rewrite Hc.
    fold (rstrip chars (s ++ t)). apply IH. exact Ht.
Qed.

Lemma rstrip_nil chars : rstrip chars [] = [].
Proof. reflexivity. Qed.

Lemma rstrip_id chars s :
  match last_char s with Some c => mem c chars = false | None => True end ->
  rstrip chars s = s.
Proof.
  unfold last_char, rstrip. intro H.
  destruct (rev s) as [|c r] eqn:E.
  - apply (f_equal (@rev N)) in E. rewrite rev_involutive in E. subst. reflexivity.
  - rewrite H. rewrite <- E. apply rev_involutive.
Qed.

(* no occurrence of the two-character sequence c1 c2 *)
Fixpoint no_pair (c1 c2 : N) (s : str) : bool :=
  match s with
  | x :: ((y :: _) as s') => negb (N.eqb x c1 && N.eqb y c2) && no_pair c1 c2 s'
  | _ => true
  end.

Lemma split1_pair c1 c2 a b :
  c1 <> c2 -> no_pair c1 c2 a = true ->
  split1 [c1; c2] (a ++ c1 :: c2 :: b) = Some (a, b).
Proof.
  intros Hne. induction a as [|x a IH]; intro Hnp.
  - simpl. rewrite !N.eqb_refl. reflexivity.
  - cbn [app split1].
    assert (Hsw : startswith [c1; c2] (x :: a ++ c1 :: c2 :: b) = false).
    { simpl. destruct (N.eqb c1 x) eqn:E1; [|reflexivity]. apply N.eqb_eq in E1. subst x.
      destruct a as [|y a'].
      - simpl. destruct (N.eqb c2 c1) eqn:E2; [|reflexivity].
        apply N.eqb_eq in E2. congruence.
      - simpl in *. rewrite N.eqb_refl in Hnp. simpl in Hnp.
        destruct (N.eqb c2 y) eqn:E2; [|reflexivity]. apply N.eqb_eq in E2. subst y.
        rewrite N.eqb_refl in Hnp. discriminate. }
    rewrite Hsw. rewrite IH; [reflexivity|].
    destruct a as [|y a']; [reflexivity|]. simpl in Hnp.
    apply andb_true_iff in Hnp as [_ Hnp]. exact Hnp.
Qed.

Lemma split1_none_pair c1 c2 s :
  no_pair c1 c2 s = true -> split1 [c1; c2] s = None.
Proof.
  induction s as [|x s IH]; intro H; [reflexivity|].
  cbn [split1].
  assert (Hsw : startswith [c1; c2] (x :: s) = false).
  { simpl. destruct s as [|y s']; [destruct (N.eqb c1 x); reflexivity|].
    simpl in H. apply andb_true_iff in H as [H _].
    destruct (N.eqb c1 x) eqn:E1; [|reflexivity]. simpl.
    destruct (N.eqb c2 y) eqn:E2; [|reflexivity].
    rewrite (N.eqb_sym x c1), (N.eqb_sym y c2), E1, E2 in H. discriminate. }
  rewrite Hsw. rewrite IH; [reflexivity|].
  destruct s as [|y s']; [reflexivity|]. simpl in H. apply andb_true_iff in H as [_ H]. exact H.
Qed.

Lemma split1_char c a b :
  mem c a = false -> split1 [c] (a ++ c :: b) = Some (a, b).
Proof.
  induction a as [|x a IH]; intro H.
  - simpl. rewrite N.eqb_refl. reflexivity.
  - simpl in H. apply orb_false_iff in H as [H1 H2].
    cbn [app split1]. simpl startswith. rewrite H1. simpl. rewrite (IH H2). reflexivity.
Qed.

Lemma split1_char_none c s : mem c s = false -> split1 [c] s = None.
Proof.
  induction s as [|x s IH]; intro H; [reflexivity|].
  simpl in H. apply orb_false_iff in H as [H1 H2].
  cbn [split1]. simpl startswith. rewrite H1. simpl. rewrite (IH H2). reflexivity.
Qed.

Lemma no_pair_nomem c1 c2 s : mem c1 s = false -> no_pair c1 c2 s = true.
Proof.
  induction s as [|x s IH]; intro H; [reflexivity|].
  simpl in H. apply orb_false_iff in H as [H1 H2].
  destruct s as [|y s']; [reflexivity|].
  change (no_pair c1 c2 (x :: y :: s')) with
    (negb (N.eqb x c1 && N.eqb y c2) && no_pair c1 c2 (y :: s')).
  rewrite (N.eqb_sym x c1), H1. simpl. apply IH. exact H2.
Qed.
