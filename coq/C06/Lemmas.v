(* C06/Lemmas.v — one_line spec and the proofs about the constructor / reply pipeline *)
From Coq Require Import List NArith ZArith Bool Arith Lia ZifyBool.
Import ListNotations.
Require Import Base.Wire Base.PyStr C05.Model C06.Model.
Require gen.T05 gen.T06.
Open Scope N_scope.

(* ---- the spec: exactly one line ---- *)
(* l is body CR LF where body holds no CR, no LF and no NUL *)
Definition one_line (l : str) : Prop :=
  exists body, l = body ++ [CR; LF] /\ valid_arg body = true.

(* message invariant established by the keyword constructor (plus line-safe
   prefix/command/tag keys, which never come from users) *)
Definition tag_okb (kv : str * option str) : bool :=
  valid_arg (fst kv) && match snd kv with Some v => negb (mem 0 v) | None => true end.
Definition wf_outb (m : msg) : bool :=
  valid_arg (m_prefix m) && valid_arg (m_command m) && forallb valid_arg (m_args m)
  && forallb tag_okb (m_tags m).

(* ---- valid_arg algebra ---- *)
Lemma valid_arg_app a b : valid_arg (a ++ b) = valid_arg a && valid_arg b.
Proof.
  unfold valid_arg. rewrite !mem_app.
  destruct (mem CR a), (mem CR b), (mem LF a), (mem LF b), (mem 0 a), (mem 0 b); reflexivity.
Qed.

Lemma valid_arg_cons c s : valid_arg (c :: s) = valid_arg [c] && valid_arg s.
Proof. exact (valid_arg_app [c] s). Qed.

Lemma valid_arg_1 c : c <> CR -> c <> LF -> c <> 0 -> valid_arg [c] = true.
Proof.
  intros H1 H2 H3. unfold valid_arg, mem. cbn [existsb].
  rewrite (proj2 (N.eqb_neq CR c)), (proj2 (N.eqb_neq LF c)), (proj2 (N.eqb_neq 0 c)); auto.
Qed.

Lemma valid_arg_1_ge c : 14 <= c -> valid_arg [c] = true.
Proof. intro H. apply valid_arg_1; unfold CR, LF; lia. Qed.

Lemma valid_arg_nil : valid_arg [] = true.
Proof. reflexivity. Qed.

Lemma valid_arg_join sep l :
  valid_arg sep = true -> forallb valid_arg l = true -> valid_arg (join sep l) = true.
Proof.
  intros Hs. induction l as [|x l IH]; intro H; [reflexivity|].
  simpl in H. apply andb_true_iff in H as [Hx Hl].
  destruct l as [|y l']; [exact Hx|].
  change (join sep (x :: y :: l')) with (x ++ sep ++ join sep (y :: l')).
  rewrite !valid_arg_app, Hx, Hs, (IH Hl). reflexivity.
Qed.

Lemma valid_arg_flat_map (f : N -> str) s :
  (forall c, In c s -> valid_arg (f c) = true) -> valid_arg (flat_map f s) = true.
Proof.
  induction s as [|c s IH]; intro H; [reflexivity|].
  simpl. rewrite valid_arg_app, (H c (or_introl eq_refl)). simpl.
  apply IH. intros d Hd. apply H. right. exact Hd.
Qed.

Lemma valid_arg_firstn n s : valid_arg s = true -> valid_arg (firstn n s) = true.
Proof.
  intro H. rewrite <- (firstn_skipn n s) in H. rewrite valid_arg_app in H.
  apply andb_true_iff in H as [H _]. exact H.
Qed.

Lemma forallb_rev {A} (f : A -> bool) l : forallb f (rev l) = forallb f l.
Proof.
  induction l as [|x l IH]; [reflexivity|]. simpl. rewrite forallb_app, IH. simpl.
  rewrite andb_true_r. apply andb_comm.
Qed.

Lemma mem_rev c l : mem c (rev l) = mem c l.
Proof.
  induction l as [|a l IH]; [reflexivity|]. cbn [rev]. rewrite mem_app, IH.
  unfold mem. cbn [existsb]. rewrite orb_false_r. apply orb_comm.
Qed.

Lemma valid_arg_rev l : valid_arg (rev l) = valid_arg l.
Proof. unfold valid_arg. rewrite !mem_rev. reflexivity. Qed.

(* the executable test the harness sees is the spec *)
Lemma one_line_iff l : one_line l <-> one_lineb l = true.
Proof.
  unfold one_line, one_lineb. split.
  - intros [body [-> Hb]]. rewrite rev_app_distr. cbn [rev app].
    rewrite !N.eqb_refl, valid_arg_rev, Hb. reflexivity.
  - destruct (rev l) as [|lf [|cr body]] eqn:E; try discriminate. intro H.
    apply andb_true_iff in H as [H Hb]. apply andb_true_iff in H as [H1 H2].
    apply N.eqb_eq in H1, H2. subst lf cr.
    exists (rev body). split; [|rewrite valid_arg_rev; exact Hb].
    rewrite <- (rev_involutive l), E. cbn [rev]. rewrite <- app_assoc. reflexivity.
Qed.

(* ---- isValidArgument (regenerated character list) is the C05 predicate ---- *)
Definition invalid_chars_ok : bool :=
  forallb (fun c => mem c [CR; LF; 0]) gen.T06.INVALID_CHARS
  && forallb (fun c => mem c gen.T06.INVALID_CHARS) [CR; LF; 0].

Lemma valid_argument_eq s : valid_argument s = valid_arg s.
Proof.
  assert (Hok : invalid_chars_ok = true) by (vm_compute; reflexivity).
  unfold invalid_chars_ok in Hok. apply andb_true_iff in Hok as [H1 H2].
  apply eq_true_iff_eq. unfold valid_argument, valid_arg. split.
  - intro H. rewrite forallb_forall in H.
    assert (Hc : In CR gen.T06.INVALID_CHARS) by (apply mem_In; vm_compute; reflexivity).
    assert (Hl : In LF gen.T06.INVALID_CHARS) by (apply mem_In; vm_compute; reflexivity).
    assert (Hn : In 0 gen.T06.INVALID_CHARS) by (apply mem_In; vm_compute; reflexivity).
    rewrite (H _ Hc), (H _ Hl), (H _ Hn). reflexivity.
  - intro H. apply andb_true_iff in H as [H Hn]. apply andb_true_iff in H as [Hc Hl].
    apply forallb_forall. intros x Hx. rewrite forallb_forall in H1. specialize (H1 x Hx).
    apply mem_In in H1. destruct H1 as [<-|[<-|[<-|[]]]]; assumption.
Qed.

Lemma forallb_valid_argument l : forallb valid_argument l = forallb valid_arg l.
Proof. induction l as [|x l IH]; [reflexivity|]. simpl. rewrite valid_argument_eq, IH. reflexivity. Qed.

(* ---- tag escaping removes CR and LF (table-driven) ---- *)
Definition esc_table_ok (t : esc_table) : bool :=
  forallb (fun kv => valid_arg (snd kv)) t
  && existsb (fun kv => N.eqb (fst kv) CR) t && existsb (fun kv => N.eqb (fst kv) LF) t.

Lemma esc_lookup_img t c img :
  forallb (fun kv => valid_arg (snd kv)) t = true -> esc_lookup t c = Some img -> valid_arg img = true.
Proof.
  induction t as [|[k i] t IH]; simpl; intros H E; [discriminate|].
  apply andb_true_iff in H as [H1 H2].
  destruct (N.eqb c k); [inversion E; subst; exact H1|]. exact (IH H2 E).
Qed.

Lemma esc_lookup_key t c :
  existsb (fun kv => N.eqb (fst kv) c) t = true -> esc_lookup t c <> None.
Proof.
  induction t as [|[k i] t IH]; simpl; intro H; [discriminate|].
  destruct (N.eqb_spec c k); [discriminate|].
  apply orb_true_iff in H as [H|H].
  - apply N.eqb_eq in H. simpl in H. congruence.
  - exact (IH H).
Qed.

Lemma escape_with_valid t v :
  esc_table_ok t = true -> mem 0 v = false -> valid_arg (escape_with t v) = true.
Proof.
  unfold esc_table_ok. intros H H0.
  apply andb_true_iff in H as [H HL]. apply andb_true_iff in H as [HI HC].
  unfold escape_with. apply valid_arg_flat_map. intros c Hc.
  destruct (esc_lookup t c) as [img|] eqn:E.
  - exact (esc_lookup_img _ _ _ HI E).
  - apply valid_arg_1.
    + intro; subst c. exact (esc_lookup_key _ _ HC E).
    + intro; subst c. exact (esc_lookup_key _ _ HL E).
    + intro; subst c. apply mem_false in H0. contradiction.
Qed.

Lemma escape_valid v : mem 0 v = false -> valid_arg (escape v) = true.
Proof. apply escape_with_valid. vm_compute. reflexivity. Qed.

Lemma format_tag_valid kv : tag_okb kv = true -> valid_arg (format_tag kv) = true.
Proof.
  destruct kv as [k [v|]]; unfold tag_okb; simpl; intro H.
  - apply andb_true_iff in H as [Hk Hv]. apply negb_true_iff in Hv.
    rewrite valid_arg_app, Hk. simpl. rewrite valid_arg_cons, (escape_valid _ Hv). reflexivity.
  - rewrite andb_true_r in H. exact H.
Qed.

Lemma format_server_tags_valid t :
  forallb tag_okb t = true -> valid_arg (format_server_tags t) = true.
Proof.
  intro H. unfold format_server_tags. rewrite valid_arg_cons. simpl.
  apply valid_arg_join; [reflexivity|].
  induction t as [|kv t IH]; [reflexivity|]. simpl in *.
  apply andb_true_iff in H as [H1 H2]. rewrite (format_tag_valid _ H1), (IH H2). reflexivity.
Qed.

(* ---- __str__ of a well-formed message is one line ---- *)
Lemma serialize_body_line m :
  valid_arg (m_prefix m) = true -> valid_arg (m_command m) = true ->
  forallb valid_arg (m_args m) = true ->
  exists body, serialize_body m = body ++ crlf /\ valid_arg body = true.
Proof.
  intros Hp Hc Ha. unfold serialize_body.
  set (head := match m_prefix m with [] => m_command m | _ => COLON :: m_prefix m ++ [SP] ++ m_command m end).
  assert (Hh : valid_arg head = true).
  { unfold head. destruct (m_prefix m) as [|x p] eqn:E; [exact Hc|].
    rewrite valid_arg_cons. rewrite !valid_arg_app, Hp, Hc. reflexivity. }
  rewrite <- (forallb_rev valid_arg) in Ha.
  destruct (rev (m_args m)) as [|a [|b r]] eqn:E.
  - exists head. rewrite Hh. auto.
  - simpl in Ha. rewrite andb_true_r in Ha.
    exists (head ++ [SP; COLON] ++ a). rewrite !app_assoc. split; [reflexivity|].
    rewrite !valid_arg_app, Hh, Ha. reflexivity.
  - simpl in Ha. apply andb_true_iff in Ha as [Ha Hr].
    exists (head ++ [SP] ++ join [SP] (rev (b :: r)) ++ [SP; COLON] ++ a).
    split; [rewrite <- !app_assoc; reflexivity|].
    rewrite !valid_arg_app, Hh, Ha.
    rewrite (valid_arg_join [SP]); [reflexivity|reflexivity|].
    rewrite forallb_rev. exact Hr.
Qed.

Lemma serialize_one_line m : wf_outb m = true -> one_line (serialize m).
Proof.
  unfold wf_outb. intro H.
  apply andb_true_iff in H as [H Ht]. apply andb_true_iff in H as [H Ha].
  apply andb_true_iff in H as [Hp Hc].
  destruct (serialize_body_line m Hp Hc Ha) as [body [E Hb]].
  unfold serialize. destruct (m_tags m) as [|kv t] eqn:Et.
  - exists body. auto.
  - exists (format_server_tags (kv :: t) ++ [SP] ++ body). split.
    + rewrite E. rewrite <- !app_assoc. reflexivity.
    + rewrite !valid_arg_app, (format_server_tags_valid _ Ht), Hb. reflexivity.
Qed.

(* ---- the keyword constructor ---- *)
Lemma ctor_ok p c a t m : ctor p c a t = Ok m -> m = Msg t p c a /\ forallb valid_arg a = true.
Proof.
  unfold ctor. destruct c; [discriminate|].
  destruct (forallb valid_argument a) eqn:E; [|discriminate].
  intro H. inversion H. rewrite <- forallb_valid_argument. auto.
Qed.

Lemma ctor_line p c a t m :
  ctor p c a t = Ok m ->
  valid_arg p = true -> valid_arg c = true -> forallb tag_okb t = true ->
  one_line (serialize m).
Proof.
  intros H Hp Hc Ht. apply ctor_ok in H as [-> Ha].
  apply serialize_one_line. unfold wf_outb. simpl. rewrite Hp, Hc, Ha, Ht. reflexivity.
Qed.

Lemma ctor_wf p c a t m :
  ctor p c a t = Ok m ->
  valid_arg p = true -> valid_arg c = true -> forallb tag_okb t = true -> wf_outb m = true.
Proof.
  intros H Hp Hc Ht. apply ctor_ok in H as [-> Ha].
  unfold wf_outb. simpl. rewrite Hp, Hc, Ha, Ht. reflexivity.
Qed.

(* ---- repr never yields CR, LF or NUL ---- *)
Lemma hexdigit_valid d : valid_arg [hexdigit d] = true.
Proof. apply valid_arg_1_ge. unfold hexdigit. destruct (d <? 10); lia. Qed.

Lemma hexn_valid n c : valid_arg (hexn n c) = true.
Proof.
  revert c. induction n as [|n IH]; intro c; [reflexivity|].
  simpl. rewrite valid_arg_app, IH, hexdigit_valid. reflexivity.
Qed.

Lemma bsl_hex_valid x n c : 14 <= x -> valid_arg (BSL :: x :: hexn n c) = true.
Proof.
  intro H. rewrite (valid_arg_cons BSL), (valid_arg_cons x), (valid_arg_1_ge x H), hexn_valid. reflexivity.
Qed.

Lemma repr_char_valid q c : 14 <= q -> valid_arg (repr_char q c) = true.
Proof.
  intro Hq. unfold repr_char.
  assert (HB : valid_arg [BSL] = true) by reflexivity.
  destruct ((c =? q) || (c =? BSL)) eqn:E1.
  { rewrite valid_arg_cons, HB. simpl. apply valid_arg_1_ge.
    apply orb_true_iff in E1 as [E|E]; apply N.eqb_eq in E; subst; [exact Hq|unfold BSL; lia]. }
  destruct (c =? 9); [reflexivity|].
  destruct (c =? LF); [reflexivity|].
  destruct (c =? CR); [reflexivity|].
  destruct ((c <? 32) || (c =? 127)) eqn:E2.
  { apply bsl_hex_valid. lia. }
  apply orb_false_iff in E2 as [E2 _].
  assert (Hc : valid_arg [c] = true) by (apply valid_arg_1_ge; lia).
  destruct (c <? 127); [exact Hc|].
  destruct (printable c); [exact Hc|].
  destruct (c <? 256); [|destruct (c <? 65536)]; apply bsl_hex_valid; lia.
Qed.

Lemma repr_valid s : valid_arg (repr s) = true.
Proof.
  unfold repr.
  assert (Hq : 14 <= repr_quote s) by (unfold repr_quote; destruct (_ && _); unfold QUOTE1, QUOTE2; lia).
  rewrite valid_arg_cons, valid_arg_app.
  rewrite (valid_arg_1_ge _ Hq). simpl.
  rewrite (valid_arg_flat_map (repr_char (repr_quote s))); [reflexivity|].
  intros c _. apply repr_char_valid. exact Hq.
Qed.

Lemma safeArgument_valid s : valid_arg (safeArgument s) = true.
Proof.
  unfold safeArgument. destruct (valid_argument s) eqn:E.
  - rewrite <- valid_argument_eq. exact E.
  - apply repr_valid.
Qed.

(* safeArgument leaves already-safe text alone *)
Lemma safeArgument_id s : valid_arg s = true -> safeArgument s = s.
Proof. intro H. unfold safeArgument. rewrite valid_argument_eq, H. reflexivity. Qed.

(* ---- _makeReply ---- *)
Section Reply.
Variables errp emptym : str.
Hypothesis Herr : valid_arg errp = true.
Hypothesis Hempty : valid_arg emptym = true.

Definition replytag_ok (c : rcfg) : bool :=
  match r_replytag c with Some (Some v) => negb (mem 0 v) | _ => true end.

Lemma set_reply_tag_wf c m :
  replytag_ok c = true -> m_tags m = [] -> wf_outb m = true -> wf_outb (set_reply_tag c m) = true.
Proof.
  unfold set_reply_tag, replytag_ok. intros Hr Ht Hw.
  destruct (r_replytag c) as [v|]; [|exact Hw].
  unfold wf_outb in *. simpl. rewrite Ht in *. simpl.
  apply andb_true_iff in Hw as [Hw _]. rewrite Hw. simpl.
  unfold tag_okb. simpl. destruct v; [rewrite Hr|]; reflexivity.
Qed.

Lemma maker_none_ok cmd rcpt s m :
  maker cmd rcpt s [] None = Ok m -> valid_arg cmd = true ->
  m_tags m = [] /\ wf_outb m = true.
Proof.
  unfold maker. intros H Hc. split.
  - apply ctor_ok in H as [-> _]. reflexivity.
  - exact (ctor_wf _ _ _ _ _ H eq_refl Hc eq_refl).
Qed.

(* whatever _makeReply returns is exactly one line *)
Lemma makeReply_line c s m :
  replytag_ok c = true ->
  makeReply errp emptym c s = Ok m -> one_line (serialize m).
Proof.
  intros Hr. unfold makeReply, action, notice, privmsg.
  destruct (r_action c); [|destruct (reply_notice c)];
    (match goal with |- context [maker ?cmd ?t ?p [] None] => destruct (maker cmd t p [] None) as [m0|e] eqn:E end;
     simpl; [|discriminate]; intro H; inversion H; subst m;
     apply maker_none_ok in E as [Ht Hw]; [|vm_compute; reflexivity];
     apply serialize_one_line; apply set_reply_tag_wf; assumption).
Qed.

(* the payload _makeReply builds is safe whenever the name it may prefix is *)
Lemma reply_payload_valid c s :
  valid_arg (reply_to c) = true -> valid_arg (reply_payload errp emptym c s) = true.
Proof.
  intro Hto. unfold reply_payload.
  set (s1 := if r_error c then errp ++ s else s).
  set (s2 := if r_stripCtcp c then strip [SOH] s1 else s1).
  assert (H3 : valid_arg (match safeArgument s2 with [] => if r_action c then safeArgument s2 else emptym | _ => safeArgument s2 end) = true).
  { pose proof (safeArgument_valid s2) as Hs. destruct (safeArgument s2) eqn:E; [|exact Hs].
    destruct (r_action c); [reflexivity|exact Hempty]. }
  destruct (reply_prefixNick c && isPublic c (reply_target c) && negb (isPublic c (reply_to c))); [|exact H3].
  rewrite !valid_arg_app, Hto, H3. reflexivity.
Qed.

(* _makeReply never fails when the names taken from the message / to= are line-safe *)
Lemma makeReply_total c s :
  valid_arg (reply_target c) = true -> valid_arg (reply_to c) = true ->
  exists m, makeReply errp emptym c s = Ok m.
Proof.
  intros Ht Hto. unfold makeReply, action, notice, privmsg, maker, ctor.
  pose proof (reply_payload_valid c s Hto) as Hp.
  destruct (r_action c); [|destruct (reply_notice c)]; cbn [gen.T06.CMD_ACTION gen.T06.CMD_NOTICE gen.T06.CMD_PRIVMSG];
    cbn [forallb]; rewrite !valid_argument_eq, Ht; try rewrite Hp; try (rewrite !valid_arg_app, Hp); simpl; eauto.
Qed.
End Reply.

(* ---- a NUL in the msgid copied into +draft/reply survives: tag escaping has no image for it ---- *)
Definition nul_tag_cfg : rcfg :=
  RCfg [35; 99] [98; 111; 98] None [[35; 99]] None None None false false true
       false false true false false true (Some (Some [97; 0; 98])).

Lemma reply_tag_nul_refuted :
  replytag_ok nul_tag_cfg = false /\ escape [0] = [0] /\
  exists m, makeReply_real nul_tag_cfg [104; 105] = Ok m /\ ~ one_line (serialize m).
Proof.
  split; [reflexivity|]. split; [vm_compute; reflexivity|].
  eexists. split; [vm_compute; reflexivity|].
  intro H. apply one_line_iff in H. vm_compute in H. discriminate.
Qed.

(* ---- IrcMsg(msg=m) alone is a pure copy ---- *)
Lemma ctor_copy m : copy_msg m = m.
Proof. destruct m. reflexivity. Qed.

Lemma ctor_copy_fields m :
  m_prefix (copy_msg m) = m_prefix m /\ m_command (copy_msg m) = m_command m
  /\ m_args (copy_msg m) = m_args m /\ m_tags (copy_msg m) = m_tags m.
Proof. rewrite ctor_copy. auto. Qed.

Lemma ctor_copy_line m : one_line (serialize (copy_msg m)) <-> one_line (serialize m).
Proof. rewrite ctor_copy. reflexivity. Qed.

Lemma ctor_copy_wf m : wf_outb (copy_msg m) = wf_outb m.
Proof. rewrite ctor_copy. reflexivity. Qed.

(* ---- the msg= branch checks nothing ---- *)
Definition smuggle_base : msg := Msg [] [] gen.T06.CMD_PRIVMSG [[35; 99]; [97]].
Definition smuggle_text : str := [97; CR; LF; 81; 85; 73; 84].   (* "a\r\nQUIT" *)

Lemma msg_branch_unchecked :
  exists m, maker gen.T06.CMD_PRIVMSG [35; 99] smuggle_text [] (Some smuggle_base) = Ok m
            /\ one_lineb (serialize m) = false /\ ~ one_line (serialize m)
            /\ ctor [] gen.T06.CMD_PRIVMSG [[35; 99]; smuggle_text] [] = Raise AssertionError.
Proof.
  eexists. split; [reflexivity|]. split; [vm_compute; reflexivity|]. split; [|vm_compute; reflexivity].
  intro H. apply one_line_iff in H. vm_compute in H. discriminate.
Qed.
