(* C06/Truncate.v — Irc._truncateMsg and the takeMsg pipeline: line shape is
   preserved and the untagged part is bounded to 512 bytes of UTF-8 (repaired C06.F19). *)
From Coq Require Import List NArith ZArith Bool Arith Lia ZifyBool.
Import ListNotations.
Require Import Base.Wire Base.PyStr C05.Model C06.Model C06.Lemmas.
Require gen.T06.
Open Scope N_scope.

(* sanity of the regenerated constants: any one character fits in keep, keep + len(tail) <= limit = MAX_LINE_SIZE, tail = CR LF *)
Definition trunc_table_ok : bool :=
  (4 <=? gen.T06.TRUNC_KEEP)%nat
  && (gen.T06.TRUNC_KEEP + 2 <=? gen.T06.TRUNC_LIMIT)%nat
  && (gen.T06.TRUNC_LIMIT =? gen.T06.MAX_LINE_SIZE)%nat
  && seq_eqb gen.T06.TRUNC_TAIL crlf.

Lemma trunc_table_ok_true : trunc_table_ok = true.
Proof. vm_compute. reflexivity. Qed.

Lemma trunc_consts :
  (4 <= gen.T06.TRUNC_KEEP)%nat /\ (gen.T06.TRUNC_KEEP + 2 <= gen.T06.TRUNC_LIMIT)%nat
  /\ gen.T06.TRUNC_LIMIT = gen.T06.MAX_LINE_SIZE /\ gen.T06.TRUNC_TAIL = crlf.
Proof.
  pose proof trunc_table_ok_true as H. unfold trunc_table_ok in H.
  apply andb_true_iff in H as [H H4]. apply andb_true_iff in H as [H H3].
  apply andb_true_iff in H as [H1 H2].
  apply Nat.leb_le in H1, H2. apply Nat.eqb_eq in H3. apply seq_eqb_eq in H4. auto.
Qed.

(* ---- split1 on one character ---- *)
Lemma split1_char_inv c s a b :
  split1 [c] s = Some (a, b) -> s = a ++ c :: b /\ mem c a = false.
Proof.
  revert a b. induction s as [|x s IH]; intros a b H; [discriminate|].
  cbn [split1] in H. cbn [startswith] in H. rewrite andb_true_r in H.
  destruct (N.eqb_spec c x).
  - cbn in H. inversion H; subst. auto.
  - destruct (split1 [c] s) as [[a' b']|] eqn:E; [|discriminate].
    injection H as <- <-. destruct (IH a' b' eq_refl) as [-> Hm].
    split; [reflexivity|]. unfold mem. cbn [existsb]. fold (mem c a').
    rewrite Hm. apply N.eqb_neq in n. rewrite n. reflexivity.
Qed.

Lemma split_tagpart_app l tg rest : split_tagpart l = Ok (tg, rest) -> l = tg ++ rest.
Proof.
  unfold split_tagpart. destruct l as [|c l']; [discriminate|].
  destruct (c =? AT).
  - destruct (split1 [SP] (c :: l')) as [[a b]|] eqn:E; [|discriminate].
    intro H. inversion H; subst. apply split1_char_inv in E as [-> _].
    rewrite <- app_assoc. reflexivity.
  - intro H. inversion H; subst. reflexivity.
Qed.

(* the tag part is recognised again after the rest has been replaced *)
Lemma split_tagpart_replace l tg rest rest' :
  split_tagpart l = Ok (tg, rest) ->
  (tg = [] -> exists c r r', rest = c :: r /\ rest' = c :: r') ->
  split_tagpart (tg ++ rest') = Ok (tg, rest').
Proof.
  unfold split_tagpart. destruct l as [|c l']; [discriminate|].
  destruct (c =? AT) eqn:EA.
  - destruct (split1 [SP] (c :: l')) as [[a b]|] eqn:E; [|discriminate].
    intros H _. inversion H; subst. apply split1_char_inv in E as [E Hm].
    destruct a as [|x a'].
    + cbn in E. inversion E; subst. discriminate EA.
    + cbn in E. inversion E; subst x. cbn [app]. rewrite EA.
      change (c :: (a' ++ [SP]) ++ rest') with (((c :: a') ++ [SP]) ++ rest').
      rewrite <- (app_assoc (c :: a') [SP] rest'). change ([SP] ++ rest') with (SP :: rest').
      rewrite (split1_char SP (c :: a') rest' Hm). reflexivity.
  - intros H Hn. inversion H; subst. destruct (Hn eq_refl) as [c' [r [r' [E ->]]]].
    inversion E; subst. cbn [app]. rewrite EA. reflexivity.
Qed.

(* ---- bytes ---- *)
Lemma utf8_len_app a b : utf8_len (a ++ b) = (utf8_len a + utf8_len b)%nat.
Proof. induction a as [|c a IH]; [reflexivity|]. cbn [app utf8_len]. rewrite IH. lia. Qed.

Lemma utf8_len1_pos c : (1 <= utf8_len1 c <= 4)%nat.
Proof. unfold utf8_len1. destruct (c <? 128), (c <? 2048), (c <? 65536); lia. Qed.

Lemma length_le_utf8 s : (length s <= utf8_len s)%nat.
Proof.
  induction s as [|c s IH]; [cbn; lia|]. cbn [length utf8_len]. pose proof (utf8_len1_pos c). lia.
Qed.

(* take_bytes n s is a prefix of s that fits in n bytes *)
Lemma take_bytes_prefix n s : exists q, s = take_bytes n s ++ q.
Proof.
  revert n. induction s as [|c s IH]; intro n; [exists []; reflexivity|].
  cbn [take_bytes]. destruct (Nat.leb (utf8_len1 c) n).
  - destruct (IH (n - utf8_len1 c)%nat) as [q Hq]. exists q. cbn [app]. rewrite <- Hq. reflexivity.
  - exists (c :: s). reflexivity.
Qed.

Lemma take_bytes_len n s : (utf8_len (take_bytes n s) <= n)%nat.
Proof.
  revert n. induction s as [|c s IH]; intro n; [cbn; lia|].
  cbn [take_bytes]. destruct (Nat.leb (utf8_len1 c) n) eqn:E; [|cbn; lia].
  apply Nat.leb_le in E. cbn [utf8_len]. specialize (IH (n - utf8_len1 c)%nat). lia.
Qed.

Lemma take_bytes_head n c s : (utf8_len1 c <= n)%nat -> exists r', take_bytes n (c :: s) = c :: r'.
Proof. intro H. cbn [take_bytes]. apply Nat.leb_le in H. rewrite H. eauto. Qed.

(* ---- shape of truncate ---- *)
Lemma truncate_shape l r :
  truncate l = Ok r ->
  exists tg rest, split_tagpart l = Ok (tg, rest) /\
    ((Nat.ltb gen.T06.TRUNC_LIMIT (utf8_len rest) = false /\ r = l) \/
     (Nat.ltb gen.T06.TRUNC_LIMIT (utf8_len rest) = true /\
      r = tg ++ take_bytes gen.T06.TRUNC_KEEP rest ++ gen.T06.TRUNC_TAIL)).
Proof.
  unfold truncate. destruct (split_tagpart l) as [[tg rest]|e] eqn:E; [|discriminate].
  cbn [bind fst snd]. exists tg, rest. split; [reflexivity|].
  destruct (existsb is_surrogate rest); [discriminate|].
  destruct (Nat.ltb gen.T06.TRUNC_LIMIT (utf8_len rest)); inversion H; auto.
Qed.

(* the last character of a line is its LF: a suffix of at most one character weighs at most one byte *)
Lemma short_suffix_light (p q body : str) :
  p ++ q = body ++ [CR; LF] -> (length q <= 1)%nat -> (utf8_len q <= 1)%nat.
Proof.
  intros E Hq. destruct q as [|x [|y q']]; [cbn; lia| |cbn in Hq; lia].
  change (body ++ [CR; LF]) with (body ++ [CR] ++ [LF]) in E. rewrite app_assoc in E.
  apply app_inj_tail in E as [_ ->]. cbn. lia.
Qed.

(* truncation keeps a line a line *)
Lemma truncate_preserves l r : one_line l -> truncate l = Ok r -> one_line r.
Proof.
  intros [body [El Hb]] H. destruct (truncate_shape _ _ H) as [tg [rest [Es [[_ ->]|[Hlt ->]]]]].
  - exists body. auto.
  - destruct trunc_consts as [_ [HK [_ ->]]].
    apply split_tagpart_app in Es. apply Nat.ltb_lt in Hlt.
    remember gen.T06.TRUNC_KEEP as K. remember gen.T06.TRUNC_LIMIT as LIM.
    destruct (take_bytes_prefix K rest) as [q Hq]. pose proof (take_bytes_len K rest) as Hlen.
    set (p := take_bytes K rest) in *.
    exists (tg ++ p). split; [rewrite <- app_assoc; reflexivity|].
    (* q, what is cut off, holds at least the final CR LF *)
    assert (Hq2 : (2 <= length q)%nat).
    { destruct (le_lt_dec 2 (length q)) as [|Hs]; [assumption|exfalso].
      assert (E : (tg ++ p) ++ q = body ++ [CR; LF]).
      { rewrite <- app_assoc, <- Hq, <- Es. exact El. }
      pose proof (short_suffix_light _ _ _ E ltac:(lia)) as Hl.
      rewrite Hq, utf8_len_app in Hlt. lia. }
    assert (E : tg ++ p = firstn (length (tg ++ p)) body).
    { assert (E1 : firstn (length (tg ++ p)) l = tg ++ p).
      { rewrite Es, Hq, app_assoc. rewrite firstn_app, Nat.sub_diag, firstn_all. cbn [firstn].
        apply app_nil_r. }
      rewrite <- E1 at 1. rewrite El, firstn_app.
      assert (Elen : (length body + 2 = length (tg ++ p) + length q)%nat).
      { apply (f_equal (@length N)) in El. rewrite Es, Hq, app_assoc, !app_length in El.
        rewrite app_length. cbn in El. lia. }
      replace (length (tg ++ p) - length body)%nat with 0%nat by lia.
      cbn [firstn]. apply app_nil_r. }
    rewrite E. apply valid_arg_firstn. exact Hb.
Qed.

(* the untagged part of the result weighs at most MAX_LINE_SIZE bytes: the full statement
   (it was refuted for multi-byte text before the repair of C06.F19) *)
Lemma truncate_len_bytes l r :
  truncate l = Ok r -> (utf8_len (untagged r) <= gen.T06.MAX_LINE_SIZE)%nat.
Proof.
  intro H. destruct (truncate_shape _ _ H) as [tg [rest [Es [[Hlt ->]|[Hlt ->]]]]];
    destruct trunc_consts as [HK1 [HK [HL HT]]].
  - unfold untagged. rewrite Es. cbn [snd]. apply Nat.ltb_ge in Hlt. lia.
  - apply Nat.ltb_lt in Hlt.
    assert (Er : split_tagpart (tg ++ take_bytes gen.T06.TRUNC_KEEP rest ++ gen.T06.TRUNC_TAIL)
                 = Ok (tg, take_bytes gen.T06.TRUNC_KEEP rest ++ gen.T06.TRUNC_TAIL)).
    { apply (split_tagpart_replace l tg rest); [exact Es|].
      intros _. destruct rest as [|c rest']; [cbn in Hlt; lia|].
      destruct (take_bytes_head gen.T06.TRUNC_KEEP c rest') as [r' Hr'].
      { pose proof (utf8_len1_pos c). lia. }
      rewrite Hr'. cbn [app]. eauto. }
    unfold untagged. rewrite Er. cbn [snd]. rewrite utf8_len_app, HT.
    pose proof (take_bytes_len gen.T06.TRUNC_KEEP rest). cbn [utf8_len crlf]. unfold utf8_len1. cbn. lia.
Qed.

(* hence also in characters *)
Lemma truncate_len_chars l r :
  truncate l = Ok r -> (length (untagged r) <= gen.T06.MAX_LINE_SIZE)%nat.
Proof.
  intro H. pose proof (truncate_len_bytes _ _ H). pose proof (length_le_utf8 (untagged r)). lia.
Qed.

(* the old witness of C06.F19: PRIVMSG #c :<600 x U+00E9> CR LF now leaves as 512 bytes *)
Definition witness_multibyte : str :=
  [80; 82; 73; 86; 77; 83; 71; 32; 35; 99; 32; 58] ++ repeat 233 600 ++ crlf.

Lemma truncate_multibyte_example :
  exists r, truncate witness_multibyte = Ok r /\ one_lineb r = true /\ utf8_len (untagged r) = 512%nat.
Proof. eexists. split; [vm_compute; reflexivity|]. split; vm_compute; reflexivity. Qed.

(* the only failure of truncate on a well-formed tagged or untagged line is the encoder's *)
Lemma truncate_surrogate_free l tg rest :
  split_tagpart l = Ok (tg, rest) -> existsb is_surrogate rest = false -> exists r, truncate l = Ok r.
Proof.
  intros Es Hs. unfold truncate. rewrite Es. cbn [bind fst snd]. rewrite Hs.
  destruct (Nat.ltb gen.T06.TRUNC_LIMIT (utf8_len rest)); eauto.
Qed.

(* ---- takeMsg: label, filters, truncate ---- *)
Lemma dict_set_tags_ok k v (t : tags) :
  tag_okb (k, v) = true -> forallb tag_okb t = true -> forallb tag_okb (dict_set k v t) = true.
Proof.
  intro Hk. induction t as [|[k' v'] t IH]; intro H.
  - cbn. rewrite Hk. reflexivity.
  - cbn [forallb] in H. apply andb_true_iff in H as [H1 H2]. cbn [dict_set].
    destruct (seq_eqb k k') eqn:E.
    + apply seq_eqb_eq in E. subst k'. cbn [forallb]. rewrite Hk, H2. reflexivity.
    + cbn [forallb]. rewrite H1, (IH H2). reflexivity.
Qed.

Definition label_ok (lbl : option str) : bool :=
  match lbl with Some l => negb (mem 0 l) | None => true end.

Lemma add_label_wf lbl m : label_ok lbl = true -> wf_outb m = true -> wf_outb (add_label lbl m) = true.
Proof.
  unfold add_label. destruct lbl as [l|]; [|auto]. intros Hl Hw.
  destruct (dict_has label_key (m_tags m)); [exact Hw|].
  unfold wf_outb in *. cbn [m_tags m_prefix m_command m_args].
  apply andb_true_iff in Hw as [Hw Ht]. rewrite Hw. cbn [andb].
  apply dict_set_tags_ok; [|exact Ht]. unfold tag_okb. cbn [fst snd]. unfold label_ok in Hl. rewrite Hl. reflexivity.
Qed.

Definition filter_ok (f : msg -> option msg) : Prop :=
  forall x y, wf_outb x = true -> f x = Some y -> wf_outb y = true.

Lemma run_filters_wf fs m m' :
  Forall filter_ok fs -> wf_outb m = true -> run_filters fs m = Some m' -> wf_outb m' = true.
Proof.
  intro Hf. revert m. induction Hf as [|f fs Hf1 _ IH]; intros m Hw H.
  - cbn in H. inversion H; subst. exact Hw.
  - cbn [run_filters] in H. destruct (f m) as [y|] eqn:E; [|discriminate].
    exact (IH y (Hf1 m y Hw E) H).
Qed.

Lemma take_line_ok lbl fs m l :
  wf_outb m = true -> label_ok lbl = true -> Forall filter_ok fs ->
  take_line lbl fs m = Some l ->
  one_line l /\ (utf8_len (untagged l) <= gen.T06.MAX_LINE_SIZE)%nat.
Proof.
  intros Hw Hl Hf. unfold take_line.
  destruct (run_filters fs (add_label lbl m)) as [m'|] eqn:E; [|discriminate].
  destruct (truncate (serialize m')) as [l'|e] eqn:H1; [|discriminate].
  intro H. inversion H; subst l'. clear H.
  pose proof (run_filters_wf _ _ _ Hf (add_label_wf _ _ Hl Hw) E) as Hw'.
  split.
  - exact (truncate_preserves _ _ (serialize_one_line _ Hw') H1).
  - exact (truncate_len_bytes _ _ H1).
Qed.
