(* C06/Truncate.v — Irc._truncateMsg and the takeMsg pipeline: line shape is
   preserved, the untagged part is bounded in characters, and in bytes only
   for ASCII text. *)
From Coq Require Import List NArith ZArith Bool Arith Lia ZifyBool.
Import ListNotations.
Require Import Base.Wire Base.PyStr C05.Model C06.Model C06.Lemmas.
Require gen.T06.
Open Scope N_scope.

(* sanity of the regenerated constants: keep + len(tail) <= limit = MAX_LINE_SIZE, tail = CR LF *)
Definition trunc_table_ok : bool :=
  (1 <=? gen.T06.TRUNC_KEEP)%nat
  && (gen.T06.TRUNC_KEEP + 2 <=? gen.T06.TRUNC_LIMIT)%nat
  && (gen.T06.TRUNC_LIMIT =? gen.T06.MAX_LINE_SIZE)%nat
  && seq_eqb gen.T06.TRUNC_TAIL crlf.

Lemma trunc_table_ok_true : trunc_table_ok = true.
Proof. vm_compute. reflexivity. Qed.

Lemma trunc_consts :
  (1 <= gen.T06.TRUNC_KEEP)%nat /\ (gen.T06.TRUNC_KEEP + 2 <= gen.T06.TRUNC_LIMIT)%nat
  /\ gen.T06.TRUNC_LIMIT = gen.T06.MAX_LINE_SIZE /\ gen.T06.TRUNC_TAIL = crlf.
Proof.
  pose proof trunc_table_ok_true as H. unfold trunc_table_ok in H.
  apply andb_true_iff in H as [H H4]. apply andb_true_iff in H as [H H3].
  apply andb_true_iff in H as [H1 H2].
  apply Nat.leb_le in H1, H2. apply Nat.eqb_eq in H3. apply seq_eqb_eq in H4. auto.
Qed.

(* ---- split1 on one character ---- *)
Lemma split1_char_inv c s a b :
  split1 [c] s = Some (a, b) -> s = a ++ c :: b /\ mem c a = false.
Proof.
  revert a b. induction s as [|x s IH]; intros a b H; [discriminate|].
  cbn [split1] in H. cbn [startswith] in H. rewrite andb_true_r in H.
  destruct (N.eqb_spec c x).
  - cbn in H. inversion H; subst. auto.
  - destruct (split1 [c] s) as [[a' b']|] eqn:E; [|discriminate].
    injection H as <- <-. destruct (IH a' b' eq_refl) as [-> Hm].
    split; [reflexivity|]. unfold mem. cbn [existsb]. fold (mem c a').
    rewrite Hm. apply N.eqb_neq in n. rewrite n. reflexivity.
Qed.

Lemma split_tagpart_app l tg rest : split_tagpart l = Ok (tg, rest) -> l = tg ++ rest.
Proof.
  unfold split_tagpart. destruct l as [|c l']; [discriminate|].
  destruct (c =? AT).
  - destruct (split1 [SP] (c :: l')) as [[a b]|] eqn:E; [|discriminate].
    intro H. inversion H; subst. apply split1_char_inv in E as [-> _].
    rewrite <- app_assoc. reflexivity.
  - intro H. inversion H; subst. reflexivity.
Qed.

(* the tag part is recognised again after the rest has been replaced *)
Lemma split_tagpart_replace l tg rest rest' :
  split_tagpart l = Ok (tg, rest) ->
  (tg = [] -> exists c r r', rest = c :: r /\ rest' = c :: r') ->
  split_tagpart (tg ++ rest') = Ok (tg, rest').
Proof.
  unfold split_tagpart. destruct l as [|c l']; [discriminate|].
  destruct (c =? AT) eqn:EA.
  - destruct (split1 [SP] (c :: l')) as [[a b]|] eqn:E; [|discriminate].
    intros H _. inversion H; subst. apply split1_char_inv in E as [E Hm].
    destruct a as [|x a'].
    + cbn in E. inversion E; subst. discriminate EA.
    + cbn in E. inversion E; subst x. cbn [app]. rewrite EA.
      change (c :: (a' ++ [SP]) ++ rest') with (((c :: a') ++ [SP]) ++ rest').
      rewrite <- (app_assoc (c :: a') [SP] rest'). change ([SP] ++ rest') with (SP :: rest').
      rewrite (split1_char SP (c :: a') rest' Hm). reflexivity.
  - intros H Hn. inversion H; subst. destruct (Hn eq_refl) as [c' [r [r' [E ->]]]].
    inversion E; subst. cbn [app]. rewrite EA. reflexivity.
Qed.

(* ---- shape of truncate ---- *)
Lemma truncate_shape l r :
  truncate l = Ok r ->
  exists tg rest, split_tagpart l = Ok (tg, rest) /\
    ((Nat.ltb gen.T06.TRUNC_LIMIT (length rest) = false /\ r = l) \/
     (Nat.ltb gen.T06.TRUNC_LIMIT (length rest) = true /\
      r = tg ++ firstn gen.T06.TRUNC_KEEP rest ++ gen.T06.TRUNC_TAIL)).
Proof.
  unfold truncate. destruct (split_tagpart l) as [[tg rest]|e] eqn:E; [|discriminate].
  cbn [bind fst snd]. exists tg, rest. split; [reflexivity|].
  destruct (Nat.ltb gen.T06.TRUNC_LIMIT (length rest)); inversion H; auto.
Qed.

(* truncation keeps a line a line *)
Lemma truncate_preserves l r : one_line l -> truncate l = Ok r -> one_line r.
Proof.
  intros [body [El Hb]] H. destruct (truncate_shape _ _ H) as [tg [rest [Es [[_ ->]|[Hlt ->]]]]].
  - exists body. auto.
  - destruct trunc_consts as [_ [HK [_ ->]]].
    apply split_tagpart_app in Es. apply Nat.ltb_lt in Hlt.
    remember gen.T06.TRUNC_KEEP as K. remember gen.T06.TRUNC_LIMIT as LIM.
    exists (tg ++ firstn K rest). split; [rewrite <- app_assoc; reflexivity|].
    assert (Elen : (length body + 2 = length tg + length rest)%nat).
    { apply (f_equal (@length N)) in El. rewrite Es, !app_length in El. cbn in El. lia. }
    assert (E : tg ++ firstn K rest = firstn (length tg + K) body).
    { assert (E1 : firstn (length tg + K) l = tg ++ firstn K rest).
      { rewrite Es. apply firstn_app_2. }
      rewrite <- E1, El. rewrite firstn_app.
      replace (length tg + K - length body)%nat with 0%nat by lia.
      cbn [firstn]. rewrite app_nil_r. reflexivity. }
    rewrite E. apply valid_arg_firstn. exact Hb.
Qed.

(* the untagged part of the result has at most MAX_LINE_SIZE characters *)
Lemma truncate_len_chars l r :
  truncate l = Ok r -> (length (untagged r) <= gen.T06.MAX_LINE_SIZE)%nat.
Proof.
  intro H. destruct (truncate_shape _ _ H) as [tg [rest [Es [[Hlt ->]|[Hlt ->]]]]];
    destruct trunc_consts as [HK1 [HK [HL HT]]].
  - unfold untagged. rewrite Es. cbn [snd]. apply Nat.ltb_ge in Hlt. lia.
  - apply Nat.ltb_lt in Hlt.
    assert (Er : split_tagpart (tg ++ firstn gen.T06.TRUNC_KEEP rest ++ gen.T06.TRUNC_TAIL)
                 = Ok (tg, firstn gen.T06.TRUNC_KEEP rest ++ gen.T06.TRUNC_TAIL)).
    { apply (split_tagpart_replace l tg rest); [exact Es|].
      intros _. destruct rest as [|c rest']; [cbn in Hlt; lia|].
      destruct gen.T06.TRUNC_KEEP as [|k]; [lia|]. cbn [firstn app]. eauto. }
    unfold untagged. rewrite Er. cbn [snd]. rewrite app_length, firstn_length, HT. cbn [length crlf].
    lia.
Qed.

(* ---- bytes ---- *)
Lemma utf8_len_ascii s : ascii s = true -> utf8_len s = length s.
Proof.
  induction s as [|c s IH]; [reflexivity|]. cbn [ascii forallb]. intro H.
  apply andb_true_iff in H as [Hc Hs]. cbn [utf8_len length]. unfold utf8_len1. rewrite Hc.
  rewrite (IH Hs). reflexivity.
Qed.

Lemma utf8_len_bound s : (utf8_len s <= 4 * length s)%nat.
Proof.
  induction s as [|c s IH]; [cbn; lia|]. cbn [utf8_len length]. unfold utf8_len1.
  destruct (c <? 128), (c <? 2048), (c <? 65536); lia.
Qed.

Lemma ascii_app a b : ascii (a ++ b) = ascii a && ascii b.
Proof. apply forallb_app. Qed.

Lemma ascii_firstn n s : ascii s = true -> ascii (firstn n s) = true.
Proof.
  intro H. rewrite <- (firstn_skipn n s), ascii_app in H. apply andb_true_iff in H as [H _]. exact H.
Qed.

Lemma untagged_suffix l : exists p, l = p ++ untagged l.
Proof.
  unfold untagged. destruct (split_tagpart l) as [[tg rest]|e] eqn:E.
  - exists tg. cbn [snd]. apply split_tagpart_app. exact E.
  - exists []. reflexivity.
Qed.

Lemma truncate_ascii l r : ascii l = true -> truncate l = Ok r -> ascii r = true.
Proof.
  intros Ha H. destruct (truncate_shape _ _ H) as [tg [rest [Es [[_ ->]|[_ ->]]]]]; [exact Ha|].
  destruct trunc_consts as [_ [_ [_ ->]]].
  apply split_tagpart_app in Es. rewrite Es, ascii_app in Ha. apply andb_true_iff in Ha as [H1 H2].
  rewrite !ascii_app, H1, (ascii_firstn _ _ H2). reflexivity.
Qed.

(* on ASCII lines the byte bound holds *)
Lemma truncate_len_bytes_ascii l r :
  ascii l = true -> truncate l = Ok r -> (utf8_len (untagged r) <= gen.T06.MAX_LINE_SIZE)%nat.
Proof.
  intros Ha H. pose proof (truncate_ascii _ _ Ha H) as Hr.
  destruct (untagged_suffix r) as [p Ep]. rewrite Ep, ascii_app in Hr.
  apply andb_true_iff in Hr as [_ Hu]. rewrite (utf8_len_ascii _ Hu).
  exact (truncate_len_chars _ _ H).
Qed.

(* in general only four times the limit *)
Lemma truncate_len_bytes_any l r :
  truncate l = Ok r -> (utf8_len (untagged r) <= 4 * gen.T06.MAX_LINE_SIZE)%nat.
Proof.
  intro H. pose proof (truncate_len_chars _ _ H). pose proof (utf8_len_bound (untagged r)). lia.
Qed.

(* witness: PRIVMSG #c :<600 x U+00E9> CR LF *)
Definition witness_multibyte : str :=
  [80; 82; 73; 86; 77; 83; 71; 32; 35; 99; 32; 58] ++ repeat 233 600 ++ crlf.

Lemma truncate_len_bytes_refuted :
  exists l r, one_line l /\ ascii l = false /\ truncate l = Ok r /\ one_line r
              /\ (length (untagged r) <= gen.T06.MAX_LINE_SIZE)%nat
              /\ (gen.T06.MAX_LINE_SIZE < utf8_len (untagged r))%nat.
Proof.
  exists witness_multibyte. eexists.
  split; [apply one_line_iff; vm_compute; reflexivity|].
  split; [vm_compute; reflexivity|].
  split; [vm_compute; reflexivity|].
  split; [apply one_line_iff; vm_compute; reflexivity|].
  split; apply Nat.leb_le; vm_compute; reflexivity.
Qed.

(* ---- takeMsg: label, filters, truncate ---- *)
Lemma dict_set_tags_ok k v (t : tags) :
  tag_okb (k, v) = true -> forallb tag_okb t = true -> forallb tag_okb (dict_set k v t) = true.
Proof.
  intro Hk. induction t as [|[k' v'] t IH]; intro H.
  - cbn. rewrite Hk. reflexivity.
  - cbn [forallb] in H. apply andb_true_iff in H as [H1 H2]. cbn [dict_set].
    destruct (seq_eqb k k') eqn:E.
    + apply seq_eqb_eq in E. subst k'. cbn [forallb]. rewrite Hk, H2. reflexivity.
    + cbn [forallb]. rewrite H1, (IH H2). reflexivity.
Qed.

Definition label_ok (lbl : option str) : bool :=
  match lbl with Some l => negb (mem 0 l) | None => true end.

Lemma add_label_wf lbl m : label_ok lbl = true -> wf_outb m = true -> wf_outb (add_label lbl m) = true.
Proof.
  unfold add_label. destruct lbl as [l|]; [|auto]. intros Hl Hw.
  destruct (dict_has label_key (m_tags m)); [exact Hw|].
  unfold wf_outb in *. cbn [m_tags m_prefix m_command m_args].
  apply andb_true_iff in Hw as [Hw Ht]. rewrite Hw. cbn [andb].
  apply dict_set_tags_ok; [|exact Ht]. unfold tag_okb. cbn [fst snd]. unfold label_ok in Hl. rewrite Hl. reflexivity.
Qed.

Definition filter_ok (f : msg -> option msg) : Prop :=
  forall x y, wf_outb x = true -> f x = Some y -> wf_outb y = true.

Lemma run_filters_wf fs m m' :
  Forall filter_ok fs -> wf_outb m = true -> run_filters fs m = Some m' -> wf_outb m' = true.
Proof.
  intro Hf. revert m. induction Hf as [|f fs Hf1 _ IH]; intros m Hw H.
  - cbn in H. inversion H; subst. exact Hw.
  - cbn [run_filters] in H. destruct (f m) as [y|] eqn:E; [|discriminate].
    exact (IH y (Hf1 m y Hw E) H).
Qed.

Lemma take_line_ok lbl fs m l :
  wf_outb m = true -> label_ok lbl = true -> Forall filter_ok fs ->
  take_line lbl fs m = Some (Ok l) ->
  one_line l /\ (length (untagged l) <= gen.T06.MAX_LINE_SIZE)%nat.
Proof.
  intros Hw Hl Hf. unfold take_line.
  destruct (run_filters fs (add_label lbl m)) as [m'|] eqn:E; [|discriminate].
  intro H. inversion H as [H1]. clear H.
  pose proof (run_filters_wf _ _ _ Hf (add_label_wf _ _ Hl Hw) E) as Hw'.
  split.
  - exact (truncate_preserves _ _ (serialize_one_line _ Hw') H1).
  - exact (truncate_len_chars _ _ H1).
Qed.

(* truncation cannot fail on a message that carries tags or whose line does not start with '@' *)
Lemma truncate_total_tagged m :
  m_tags m <> [] -> exists r, truncate (serialize m) = Ok r.
Proof.
  intro Ht. unfold serialize. destruct (m_tags m) as [|kv t] eqn:E; [congruence|].
  unfold truncate, split_tagpart, format_server_tags. cbn [app]. rewrite N.eqb_refl.
  set (j := join [SEMI] (map format_tag (kv :: t))).
  destruct (split1 [SP] (AT :: j ++ SP :: serialize_body m)) as [[a b]|] eqn:E1.
  - cbn [bind fst snd]. destruct (Nat.ltb gen.T06.TRUNC_LIMIT (length b)); eauto.
  - exfalso. assert (Hc : contains [SP] (AT :: j ++ SP :: serialize_body m) = false)
      by (unfold contains; rewrite E1; reflexivity).
    clear E1. unfold contains in Hc.
    destruct (split1 [SP] (AT :: j ++ SP :: serialize_body m)) eqn:E2; [discriminate|].
    assert (Hin : In SP (AT :: j ++ SP :: serialize_body m)).
    { right. apply in_or_app. right. left. reflexivity. }
    clear -E2 Hin. revert E2 Hin. generalize (AT :: j ++ SP :: serialize_body m). intro s.
    induction s as [|x s IH]; intros E2 Hin; [contradiction|].
    cbn [split1 startswith] in E2. rewrite andb_true_r in E2.
    destruct (N.eqb_spec SP x); [discriminate|].
    destruct (split1 [SP] s) as [[? ?]|] eqn:E3; [discriminate|].
    destruct Hin as [->|Hin]; [congruence|]. exact (IH eq_refl Hin).
Qed.
