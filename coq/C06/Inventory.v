(* C06/Inventory.v — the call sites that reach the unchecked msg= branch of
   IrcMsg.__init__ (regenerated into gen/T06.v on every run) against the
   reviewed list.  A new site, a moved site or a changed shape breaks the
   reflection lemma. *)
From Coq Require Import List NArith Bool String.
Import ListNotations.
Require gen.T06.
Open Scope N_scope.

Definition site := (string * string * N * string * bool * bool)%type.
Definition s_file (s : site) : string := let '(f, _, _, _, _, _) := s in f.
Definition s_func (s : site) : string := let '(_, g, _, _, _, _) := s in g.
Definition s_kind (s : site) : N := let '(_, _, k, _, _, _) := s in k.

Definition in_ircmsgs (s : site) : bool := String.eqb (s_file s) "src/ircmsgs.py".

(* kind 2: IrcMsg(msg=m) and nothing else -- a pure copy (C06.Lemmas.ctor_copy: same prefix,
   command, args and tags, hence the same line); t06.py classifies fail-closed on keywords *)
Definition pure_copy (s : site) : bool := N.eqb (s_kind s) 2.

(* Reviewed sites outside src/ircmsgs.py that override some field.  All but Irc.feedMsg
   (emulated echo, fed back to the bot, not sent) rebuild an *outgoing* message inside an outFilter: the text
   they pass has been through the constructor check once and is then rewritten
   by a regexp / filter command.  They are exercised by the live outFilter
   exploration of the harness. *)
Definition reviewed_external : list site :=
  [("plugins/BadWords/plugin.py", "BadWords.outFilter", 1, "privmsg", true, true);
   ("plugins/Filter/plugin.py", "Filter.outFilter", 0, "IrcMsg", true, true);
   ("plugins/Filter/plugin.py", "Filter.outFilter", 1, "action", true, true);
   ("plugins/Google/plugin.py", "Google.outFilter", 1, "privmsg", true, true);
   ("plugins/ShrinkUrl/plugin.py", "ShrinkUrl._outFilterThread", 1, "privmsg", true, false);
   ("src/irclib.py", "Irc.feedMsg", 0, "IrcMsg", false, false)]%string.

Definition inventory_okb : bool :=
  (* inside ircmsgs.py: only the message makers forwarding their own msg= parameter *)
  forallb (fun s => negb (in_ircmsgs s) || pure_copy s
                    || (N.eqb (s_kind s) 0 && existsb (String.eqb (s_func s)) gen.T06.MAKERS_WITH_MSG))
          gen.T06.MSGCTOR_SITES.

Lemma inventory_external :
  filter (fun s => negb (in_ircmsgs s) && negb (pure_copy s)) gen.T06.MSGCTOR_SITES = reviewed_external.
Proof. vm_compute. reflexivity. Qed.

Lemma inventory_makers : inventory_okb = true.
Proof. vm_compute. reflexivity. Qed.

Lemma inventory :
  forall s, In s gen.T06.MSGCTOR_SITES ->
  In s reviewed_external \/
  (s_file s = "src/ircmsgs.py"%string /\ s_kind s = 0 /\ In (s_func s) gen.T06.MAKERS_WITH_MSG) \/
  s_kind s = 2.
Proof.
  intros s Hin. destruct (pure_copy s) eqn:P.
  { right. right. apply N.eqb_eq. exact P. }
  destruct (in_ircmsgs s) eqn:E.
  - right. left. pose proof inventory_makers as H. unfold inventory_okb in H.
    rewrite forallb_forall in H. specialize (H s Hin). rewrite E, P in H. cbn [negb orb] in H.
    apply andb_true_iff in H as [H1 H2]. apply N.eqb_eq in H1.
    apply existsb_exists in H2 as [x [Hx Ex]]. apply String.eqb_eq in Ex. subst x.
    unfold in_ircmsgs in E. apply String.eqb_eq in E. auto.
  - left. rewrite <- inventory_external. apply filter_In. rewrite E, P. auto.
Qed.

(* ---- the hypotheses of C06_ctor_line (line-safe prefix, command and tag keys) as an inventory fact ----
   The keyword constructor asserts only on args.  Every IrcMsg(...) call of src/ and plugins/ passes a string
   literal as command= and either no prefix=, a literal, or (inside an ircmsgs.py maker) the maker's own `prefix`
   parameter, and no maker is ever called with a prefix -- EXCEPT the sites below, each reviewed:
     Autocomplete.doTagmsg  server_tags = {+draft/reply: msgid (server), response: command names}  (tag values: escaped; NUL: finding C06.F47)
     Debug.sendquote, Owner.ircquote   raw line given by the OWNER (outside the property's quantifier)
     drivers.parseMsg       incoming line, not sent
     Irc.feedMsg            prefix=self.prefix on the emulated echo, fed back to the bot, not sent
     ircmsgs._whois         command=COMMAND, bound to the literals WHOIS / WHOWAS by functools.partial (pinned by t06.py)
     ircmsgs.dcc            prefix from **kwargs; nobody calls it with one *)
Definition reviewed_kwctor : list (string * string * string) :=
  [("plugins/Autocomplete/plugin.py", "Autocomplete.doTagmsg", "server_tags");
   ("plugins/Debug/plugin.py", "Debug.sendquote", "raw line");
   ("plugins/Owner/plugin.py", "Owner.ircquote", "raw line");
   ("src/drivers/__init__.py", "parseMsg", "raw line");
   ("src/irclib.py", "Irc.feedMsg", "prefix=self.prefix");
   ("src/ircmsgs.py", "_whois", "command=COMMAND");
   ("src/ircmsgs.py", "dcc", "prefix=kwargs.get('prefix', '')")]%string.

Lemma kwctor_sites : gen.T06.KWCTOR_ODD = reviewed_kwctor.
Proof. vm_compute. reflexivity. Qed.
