(* C06/Model.v — executable model of the path from reply text to the line
   handed to the network driver:
     ircutils.isValidArgument / safeArgument (with Python's repr of a str),
     the keyword branch and the msg= branch of IrcMsg.__init__ (ircmsgs.py:254-286),
     the reply message makers privmsg / notice / action,
     callbacks._makeReply (callbacks.py:184-256),
     label insertion, the outFilter chain and Irc._truncateMsg (byte-counting, repaired C06.F19) inside
     Irc.takeMsg (irclib.py:1236-1300), and the UTF-8 length the socket
     driver's str.encode() produces.
   IrcMsg.__str__, the msg record and tag escaping are reused from C05.Model.
   Mirrors the Python statement by statement, defects included.  No proofs. *)
From Coq Require Import List NArith ZArith Bool Arith.
Import ListNotations.
Require Import Base.Wire Base.PyStr.
Require Import C05.Model.
Require gen.T06.
Open Scope N_scope.

Definition NUL : N := 0.
Definition SOH : N := 1.      (* '\x01', the CTCP delimiter *)
Definition QUOTE1 : N := 39.  (* apostrophe *)
Definition QUOTE2 : N := 34.  (* double quote *)

(* ---- ircutils.isValidArgument (forbidden characters from the regenerated table) ---- *)
Definition valid_argument (s : str) : bool :=
  forallb (fun c => negb (mem c s)) gen.T06.INVALID_CHARS.

(* ---- repr(s) for a str: CPython unicode_repr ---- *)
Definition in_ranges (c : N) (r : list (N * N)) : bool :=
  existsb (fun lh => N.leb (fst lh) c && N.leb c (snd lh)) r.
Definition printable (c : N) : bool := negb (in_ranges c gen.T06.NONPRINTABLE).

Definition hexdigit (d : N) : N := if d <? 10 then 48 + d else 87 + d.
(* n lower-case hex digits of c, most significant first *)
Fixpoint hexn (n : nat) (c : N) : str :=
  match n with
  | O => []
  | S n' => hexn n' (c / 16) ++ [hexdigit (c mod 16)]
  end.

Definition repr_char (q c : N) : str :=
  if (c =? q) || (c =? BSL) then [BSL; c]
  else if c =? 9 then [BSL; 116]
  else if c =? LF then [BSL; 110]
  else if c =? CR then [BSL; 114]
  else if (c <? 32) || (c =? 127) then BSL :: 120 :: hexn 2 c
  else if c <? 127 then [c]
  else if printable c then [c]
  else if c <? 256 then BSL :: 120 :: hexn 2 c
  else if c <? 65536 then BSL :: 117 :: hexn 4 c
  else BSL :: 85 :: hexn 8 c.

Definition repr_quote (s : str) : N :=
  if mem QUOTE1 s && negb (mem QUOTE2 s) then QUOTE2 else QUOTE1.

Definition repr (s : str) : str :=
  let q := repr_quote s in
  q :: flat_map (repr_char q) s ++ [q].

(* ---- ircutils.safeArgument (str input) ---- *)
Definition safeArgument (s : str) : str :=
  if valid_argument s then s else repr s.

(* ---- IrcMsg.__init__, keyword forms ---- *)
(* msg is None: the only branch with the argument assert *)
Definition ctor (prefix command : str) (args : list str) (tg : tags) : res msg :=
  match command with
  | [] => Raise MalformedIrcMsg               (* 'IRC messages require a command.' *)
  | _ =>
      if forallb valid_argument args then Ok (Msg tg prefix command args)
      else Raise AssertionError
  end.

(* msg is not None: every attribute not given is copied, nothing is checked *)
Definition ctor_from (prefix command : str) (args : list str) (m : msg) : msg :=
  Msg (m_tags m)
      (match prefix with [] => m_prefix m | _ => prefix end)
      (match command with [] => m_command m | _ => command end)
      (match args with [] => m_args m | _ => args end).

(* IrcMsg(msg=m) with no other argument: a copy *)
Definition copy_msg (m : msg) : msg := ctor_from [] [] [] m.

(* privmsg / notice / action(recipient, s, prefix='', msg=None), strictRfc off *)
Definition maker (cmd recipient s prefix : str) (mo : option msg) : res msg :=
  match mo with
  | None => ctor prefix cmd [recipient; s] []
  | Some m =>
      let prefix' := match prefix with [] => m_prefix m | _ => prefix end in
      Ok (ctor_from prefix' cmd [recipient; s] m)
  end.

Definition privmsg := maker gen.T06.CMD_PRIVMSG.
Definition notice := maker gen.T06.CMD_NOTICE.
Definition action (recipient s prefix : str) (mo : option msg) : res msg :=
  maker gen.T06.CMD_ACTION recipient (gen.T06.ACTION_PRE ++ s ++ gen.T06.ACTION_POST) prefix mo.

(* ---- callbacks._makeReply ---- *)
(* Everything _makeReply reads besides the text: the message being replied to
   (reply target, nick, msgid), the keyword arguments, the configuration values
   and the answers of irc.isChannel(stripChannelPrefix(.)) on the names it asks
   about (r_publics = the names for which the answer is True). *)
Record rcfg := RCfg {
  r_replyto : str;            (* ircutils.replyTo(msg) *)
  r_nick : str;               (* msg.nick *)
  r_to : option str;          (* to= *)
  r_publics : list str;       (* names on which isPublic() answers True *)
  r_notice : option bool;     (* notice= *)
  r_private : option bool;    (* private= *)
  r_prefixNick : option bool; (* prefixNick= *)
  r_action : bool;            (* action= (truthiness) *)
  r_error : bool;             (* error= *)
  r_stripCtcp : bool;         (* stripCtcp= *)
  c_notice : bool;            (* supybot.reply.withNotice *)
  c_private : bool;           (* supybot.reply.inPrivate *)
  c_prefixNick : bool;        (* supybot.reply.withNickPrefix *)
  c_errNotice : bool;         (* supybot.reply.error.withNotice *)
  c_errPrivate : bool;        (* supybot.reply.error.inPrivate *)
  c_noticeWhenPrivate : bool; (* supybot.reply.withNoticeWhenPrivate *)
  r_replytag : option (option str)   (* Some v: '+draft/reply' tag gets msg.server_tags['msgid'] = v *)
}.

Definition draft_reply_key : str := [43; 100; 114; 97; 102; 116; 47; 114; 101; 112; 108; 121]. (* "+draft/reply" *)

Section MakeReply.
(* the two translated literals _('Error: ') and _('Error: I tried to send you an empty message.') *)
Variables err_prefix empty_msg : str.

Definition isPublic (c : rcfg) (x : str) : bool := existsb (seq_eqb x) (r_publics c).
Definition dflt (o : option bool) (d : bool) : bool := match o with Some b => b | None => d end.

(* the payload handed to the message maker, and (target, notice) *)
Definition reply_target0 (c : rcfg) : str :=
  match r_to c with
  | Some t => if isPublic c t then t else r_replyto c
  | None => r_replyto c
  end.

Definition reply_private (c : rcfg) : bool :=
  let p := dflt (r_private c) (c_private c) in
  if r_error c then c_errPrivate c || p else p.

Definition reply_to (c : rcfg) : str := match r_to c with None => r_nick c | Some t => t end.

Definition reply_target (c : rcfg) : str :=
  if reply_private c then reply_to c else reply_target0 c.

Definition reply_prefixNick (c : rcfg) : bool :=
  let p := dflt (r_prefixNick c) (c_prefixNick c) in
  let p := if reply_private c then false else p in
  if r_action c then false else p.

Definition reply_notice (c : rcfg) : bool :=
  let n := dflt (r_notice c) (c_notice c) in
  let n := if r_error c then c_errNotice c || n else n in
  if negb (isPublic c (reply_target c)) && c_noticeWhenPrivate c then true else n.

Definition reply_payload (c : rcfg) (s : str) : str :=
  let s := if r_error c then err_prefix ++ s else s in
  let s := if r_stripCtcp c then strip [SOH] s else s in
  let s := safeArgument s in
  let s := match s with [] => if r_action c then s else empty_msg | _ => s end in
  if reply_prefixNick c && isPublic c (reply_target c) && negb (isPublic c (reply_to c))
  then reply_to c ++ [COLON; SP] ++ s else s.

Definition set_reply_tag (c : rcfg) (m : msg) : msg :=
  match r_replytag c with
  | None => m
  | Some v => Msg (dict_set draft_reply_key v (m_tags m)) (m_prefix m) (m_command m) (m_args m)
  end.

Definition makeReply (c : rcfg) (s : str) : res msg :=
  let target := reply_target c in
  let s := reply_payload c s in
  do m <- (if r_action c then action target s [] None
           else if reply_notice c then notice target s [] None
           else privmsg target s [] None);
  Ok (set_reply_tag c m).
End MakeReply.

Definition makeReply_real := makeReply gen.T06.ERR_PREFIX gen.T06.EMPTY_MSG.

(* ---- Irc.takeMsg: label, outFilter chain, _truncateMsg ---- *)
Definition label_key : str := [108; 97; 98; 101; 108].   (* "label" *)

(* lbl = Some l when labeled-response is acknowledged (l = ircutils.makeLabel()) *)
Definition add_label (lbl : option str) (m : msg) : msg :=
  match lbl with
  | None => m
  | Some l =>
      if dict_has label_key (m_tags m) then m
      else Msg (dict_set label_key (Some l) (m_tags m)) (m_prefix m) (m_command m) (m_args m)
  end.

(* for callback in reversed(callbacks): msg = callback.outFilter(irc, msg); None drops it *)
Fixpoint run_filters (fs : list (msg -> option msg)) (m : msg) : option msg :=
  match fs with
  | [] => Some m
  | f :: fs' => match f m with Some m' => run_filters fs' m' | None => None end
  end.

(* the split of str(msg) into "@tags " and the rest *)
Definition split_tagpart (l : str) : res (str * str) :=
  match l with
  | [] => Raise IndexError                              (* msg_str[0] *)
  | c :: _ =>
      if c =? AT then
        match split1 [SP] l with
        | Some (a, b) => Ok (a ++ [SP], b)
        | None => Raise ValueError                      (* unpack of 1 value *)
        end
      else Ok ([], l)
  end.

(* len(c.encode('utf-8')) *)
Definition utf8_len1 (c : N) : nat :=
  if c <? 128 then 1%nat else if c <? 2048 then 2%nat else if c <? 65536 then 3%nat else 4%nat.
Fixpoint utf8_len (s : str) : nat :=
  match s with [] => O | c :: s' => (utf8_len1 c + utf8_len s')%nat end.

(* str.encode('utf-8') raises UnicodeEncodeError on a lone surrogate *)
Definition is_surrogate (c : N) : bool := (55296 <=? c) && (c <=? 57343).

(* s.encode('utf-8')[:n].decode('utf-8', 'ignore'): the characters whose
   encoding lies entirely within the first n bytes (the cut-through one is dropped) *)
Fixpoint take_bytes (n : nat) (s : str) : str :=
  match s with
  | [] => []
  | c :: s' => if Nat.leb (utf8_len1 c) n then c :: take_bytes (n - utf8_len1 c) s' else []
  end.

(* Irc._truncateMsg: the resulting str(msg).  The limit counts the bytes of the
   UTF-8 encoding of the part after the tags; the cut falls on a character boundary. *)
Definition truncate (l : str) : res str :=
  do tr <- split_tagpart l;
  if existsb is_surrogate (snd tr) then Raise UnicodeError     (* msg_rest_str.encode('utf-8') *)
  else if Nat.ltb gen.T06.TRUNC_LIMIT (utf8_len (snd tr))
  then Ok (fst tr ++ take_bytes gen.T06.TRUNC_KEEP (snd tr) ++ gen.T06.TRUNC_TAIL)
  else Ok l.

(* what the driver receives for one queued message: None = nothing (dropped by a
   filter, or an exception inside takeMsg: Irc.__firewalled__ lists takeMsg, so
   log.firewall logs it and takeMsg returns None) *)
Definition take_line (lbl : option str) (fs : list (msg -> option msg)) (m : msg) : option str :=
  match run_filters fs (add_label lbl m) with
  | None => None
  | Some m' => match truncate (serialize m') with Ok l => Some l | Raise _ => None end
  end.

(* ---- plugins/Filter: Filter.outFilter, the per-channel output filter ---- *)
(* ircmsgs.isAction / unAction on the canonical form "\x01ACTION " text "\x01" (text without leading
   white space; other CTCP-looking payloads are outside the domain the harness compares) *)
Definition un_action (s : str) : option str :=
  if startswith gen.T06.ACTION_PRE s && endswith1 SOH s
     && Nat.ltb (length gen.T06.ACTION_PRE) (length s)
  then Some (removelast (skipn (length gen.T06.ACTION_PRE) s))
  else None.

Definition apply_filters (fs : list (str -> str)) (s : str) : str := fold_left (fun acc f => f acc) fs s.

(* active = msg.channel in self.outFilters; fs = the filter commands installed there, as text -> text.
   The message is rebuilt through the msg= branch: nothing is checked again. *)
Definition filter_outFilter (active : bool) (fs : list (str -> str)) (m : msg) : msg :=
  if (seq_eqb (m_command m) gen.T06.CMD_PRIVMSG || seq_eqb (m_command m) gen.T06.CMD_NOTICE) && active then
    match m_args m with
    | target :: payload :: _ =>
        match un_action payload with
        | Some t =>
            match action target (apply_filters fs t) [] (Some m) with Ok m' => m' | Raise _ => m end
        | None => ctor_from [] [] [target; apply_filters fs payload] m
        end
    | _ => m                       (* IndexError: outFilter is firewalled and returns msg *)
    end
  else m.

(* ---- what is measured on the wire ---- *)
(* the line without its "@tags " part (the 512 limit excludes tags) *)
Definition untagged (l : str) : str :=
  match split_tagpart l with Ok tr => snd tr | Raise _ => l end.

Definition ascii (s : str) : bool := forallb (fun c => c <? 128) s.

(* exactly one line: ends with CR LF and has no CR, LF or NUL before that *)
Definition one_lineb (l : str) : bool :=
  match rev l with
  | lf :: cr :: body => (lf =? LF) && (cr =? CR) && valid_arg body
  | _ => false
  end.

(* ---- wire ---- *)
Definition gOB (v : value) : option bool := gO gB v.
Definition gCfg (v : value) : rcfg :=
  RCfg (gS (nth_v 0 v)) (gS (nth_v 1 v)) (gO gS (nth_v 2 v)) (gLS (nth_v 3 v))
       (gOB (nth_v 4 v)) (gOB (nth_v 5 v)) (gOB (nth_v 6 v))
       (gB (nth_v 7 v)) (gB (nth_v 8 v)) (gB (nth_v 9 v))
       (gB (nth_v 10 v)) (gB (nth_v 11 v)) (gB (nth_v 12 v))
       (gB (nth_v 13 v)) (gB (nth_v 14 v)) (gB (nth_v 15 v))
       (gO (gO gS) (nth_v 16 v)).

Definition vNat (n : nat) : value := vN (N.of_nat n).

Definition vLine (l : str) : value :=
  L [vS l; vB (one_lineb l); vNat (length (untagged l)); vNat (utf8_len (untagged l))].

(* run: (op payload)
   0 s                       -> safeArgument s
   1 (cfg s)                 -> result of makeReply, serialised
   2 (tags prefix cmd args)  -> result of the keyword constructor, serialised
   3 l                       -> result of _truncateMsg on the line l, with measurements
   4 (cmd rcpt s prefix msg) -> maker with msg= (unchecked branch), serialised
   5 ((lbl) msg)             -> label + truncate of a constructor-built message
   6 s                       -> repr s
   7 (active k msg)          -> Filter.outFilter with k times the 'reverse' filter installed, serialised *)
Definition run (v : value) : value :=
  let p := nth_v 1 v in
  match gN (nth_v 0 v) with
  | 0 => vS (safeArgument (gS p))
  | 1 => vR (fun m => vLine (serialize m)) (makeReply_real (gCfg (nth_v 0 p)) (gS (nth_v 1 p)))
  | 2 => vR (fun m => vLine (serialize m))
            (ctor (gS (nth_v 1 p)) (gS (nth_v 2 p)) (gLS (nth_v 3 p)) (gTags (nth_v 0 p)))
  | 3 => vR vLine (truncate (gS p))
  | 4 => vR (fun m => vLine (serialize m))
            (maker (gS (nth_v 0 p)) (gS (nth_v 1 p)) (gS (nth_v 2 p)) (gS (nth_v 3 p))
                   (Some (gMsg (nth_v 4 p))))
  | 5 => match take_line (gO gS (nth_v 0 p)) [] (gMsg (nth_v 1 p)) with
         | Some l => vR vLine (Ok l)
         | None => L []
         end
  | 6 => vS (repr (gS p))
  | 7 => vLine (serialize (filter_outFilter (gB (nth_v 0 p)) (repeat (@rev N) (N.to_nat (gN (nth_v 1 p))))
                                            (gMsg (nth_v 2 p))))
  | _ => L []
  end.
