(* C06/OutFilter.v — Filter.outFilter rebuilds an already validated message through the
   unchecked msg= branch: it keeps the constructor invariant exactly when every installed
   filter maps line-safe text to line-safe text; and the whitelist Filter._filterCommands
   (regenerated) holds only filters validated as such by the harness. *)
From Coq Require Import List NArith Bool Arith Lia String.
Import ListNotations.
Require Import Base.Wire Base.PyStr C05.Model C06.Model C06.Lemmas C06.Truncate.
Require gen.T06.
Open Scope N_scope.

(* a filter command is line-preserving when it cannot create CR, LF or NUL *)
Definition line_preserving (f : str -> str) : Prop := forall s, valid_arg s = true -> valid_arg (f s) = true.

Lemma valid_arg_skipn n s : valid_arg s = true -> valid_arg (skipn n s) = true.
Proof.
  intro H. rewrite <- (firstn_skipn n s), valid_arg_app in H. apply andb_true_iff in H as [_ H]. exact H.
Qed.

Lemma valid_arg_removelast s : valid_arg s = true -> valid_arg (removelast s) = true.
Proof.
  intro H. destruct s as [|c s]; [reflexivity|].
  rewrite removelast_firstn_len. apply valid_arg_firstn. exact H.
Qed.

Lemma un_action_valid s t : valid_arg s = true -> un_action s = Some t -> valid_arg t = true.
Proof.
  unfold un_action. intros H E. destruct (_ && _); [|discriminate]. injection E as <-.
  exact (valid_arg_removelast _ (valid_arg_skipn (List.length gen.T06.ACTION_PRE) s H)).
Qed.

Lemma apply_filters_valid fs s :
  Forall line_preserving fs -> valid_arg s = true -> valid_arg (apply_filters fs s) = true.
Proof.
  intro Hf. revert s. unfold apply_filters. induction Hf as [|f fs Hf1 _ IH]; intros s H; [exact H|].
  cbn [fold_left]. apply IH. apply Hf1. exact H.
Qed.

(* with line-preserving filters the output filter keeps the invariant of constructor-built messages *)
Lemma outFilter_wf active fs m :
  Forall line_preserving fs -> wf_outb m = true -> wf_outb (filter_outFilter active fs m) = true.
Proof.
  intros Hf Hw. unfold filter_outFilter.
  destruct ((seq_eqb (m_command m) gen.T06.CMD_PRIVMSG || seq_eqb (m_command m) gen.T06.CMD_NOTICE) && active); [|exact Hw].
  destruct (m_args m) as [|target [|payload rest]] eqn:Ea; try exact Hw.
  unfold wf_outb in Hw. rewrite Ea in Hw. cbn [forallb] in Hw.
  apply andb_true_iff in Hw as [Hw Ht]. apply andb_true_iff in Hw as [Hw Ha].
  apply andb_true_iff in Hw as [Hp Hc].
  apply andb_true_iff in Ha as [Hta Ha]. apply andb_true_iff in Ha as [Hpa _].
  destruct (un_action payload) as [t|] eqn:Eu.
  - pose proof (apply_filters_valid fs t Hf (un_action_valid _ _ Hpa Eu)) as Hs.
    unfold action, maker. unfold wf_outb, ctor_from. cbn [m_prefix m_command m_args m_tags forallb].
    assert (Hcmd : valid_arg gen.T06.CMD_ACTION = true) by (vm_compute; reflexivity).
    assert (Hpre : valid_arg gen.T06.ACTION_PRE = true) by (vm_compute; reflexivity).
    assert (Hpost : valid_arg gen.T06.ACTION_POST = true) by (vm_compute; reflexivity).
    rewrite !valid_arg_app, Hpre, Hs, Hpost, Hta, Ht.
    replace (valid_arg match m_prefix m with [] => m_prefix m | _ :: _ => m_prefix m end) with true
      by (destruct (m_prefix m); rewrite Hp; reflexivity).
    change gen.T06.CMD_ACTION with [80; 82; 73; 86; 77; 83; 71] in *. cbn [valid_arg]. reflexivity.
  - pose proof (apply_filters_valid fs payload Hf Hpa) as Hs.
    unfold wf_outb, ctor_from. cbn [m_prefix m_command m_args m_tags forallb].
    rewrite Hp, Hc, Hta, Hs, Ht. reflexivity.
Qed.

Lemma outFilter_filter_ok active fs :
  Forall line_preserving fs -> filter_ok (fun m => Some (filter_outFilter active fs m)).
Proof. intros Hf x y Hw E. inversion E; subst. apply outFilter_wf; assumption. Qed.

(* a filter that can produce CR LF (a decoder) breaks it: nothing re-validates the rebuilt message *)
Definition decoder_like : str -> str := fun _ => smuggle_text.
Definition digits_msg : msg := Msg [] [] gen.T06.CMD_PRIVMSG [[35; 99]; [48; 49]].   (* PRIVMSG #c :01 *)

Lemma outFilter_unchecked :
  wf_outb digits_msg = true /\ one_line (serialize digits_msg)
  /\ ~ line_preserving decoder_like
  /\ ~ one_line (serialize (filter_outFilter true [decoder_like] digits_msg)).
Proof.
  split; [vm_compute; reflexivity|]. split; [apply one_line_iff; vm_compute; reflexivity|]. split.
  - intro H. specialize (H [] eq_refl). vm_compute in H. discriminate.
  - intro H. apply one_line_iff in H. vm_compute in H. discriminate.
Qed.

(* ---- the whitelist ---- *)
(* Filter commands validated as line-preserving output filters: the harness calls each of them on
   hostile one-line inputs (every code point up to U+02FF, formatting codes, long and multi-byte text,
   and digit/hex/morse spellings of CR LF and NUL) and installs each as a live output filter.  A decoder
   (unbinary, unhexlify, unmorse, ...) must never be on this list. *)
Definition validated_out_filters : list string :=
  ["jeffk"; "leet"; "rot13"; "hexlify"; "binary"; "scramble"; "morse"; "reverse"; "colorize"; "squish";
   "supa1337"; "stripcolor"; "aol"; "rainbow"; "spellit"; "hebrew"; "undup"; "uwu"; "gnu"; "shrink";
   "uniud"; "capwords"; "caps"; "vowelrot"]%string.

Definition whitelist_okb : bool :=
  forallb (fun c => existsb (String.eqb c) validated_out_filters) gen.T06.FILTER_COMMANDS.

Lemma whitelist_validated : forall c, In c gen.T06.FILTER_COMMANDS -> In c validated_out_filters.
Proof.
  assert (H : whitelist_okb = true) by (vm_compute; reflexivity).
  unfold whitelist_okb in H. rewrite forallb_forall in H. intros c Hc.
  specialize (H c Hc). apply existsb_exists in H as [x [Hx E]]. apply String.eqb_eq in E. subst. exact Hx.
Qed.
