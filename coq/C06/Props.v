(* C06/Props.v — the property theorems, nothing else.
   Model: C06/Model.v (mirrors ircutils.isValidArgument/safeArgument, IrcMsg.__init__ keyword
   branches, privmsg/notice/action, callbacks._makeReply, Irc.takeMsg/_truncateMsg; __str__ from C05).
   Proofs: Lemmas.v, Truncate.v, Inventory.v.
   one_line l := exists body, l = body ++ [CR; LF] /\ body has no CR, LF, NUL. *)
From Coq Require Import List NArith String.
Import ListNotations.
Require Import Base.Wire Base.PyStr C05.Model C06.Model C06.Lemmas C06.Truncate C06.Inventory C06.OutFilter.
Require gen.T06.

(* Every message the keyword constructor accepts (the assert passes) serialises to exactly one
   line, for line-safe prefix / command / tag keys and tag values without NUL. *)
Theorem C06_ctor_line :
  forall p c a t m, ctor p c a t = Ok m ->
  valid_arg p = true -> valid_arg c = true -> forallb tag_okb t = true ->
  one_line (serialize m).
Proof. exact ctor_line. Qed.
Print Assumptions C06_ctor_line.

(* safeArgument never returns CR, LF or NUL, whatever the text (repr of a str is modelled). *)
Theorem C06_safeArgument_safe : forall s, valid_arg (safeArgument s) = true.
Proof. exact safeArgument_valid. Qed.
Print Assumptions C06_safeArgument_safe.

(* Whatever _makeReply returns, for any text, any keyword arguments, any reply configuration and any
   origin, is exactly one line.  (The two translated literals are arbitrary; the msgid copied
   into +draft/reply must not hold NUL.) *)
Theorem C06_reply_line :
  forall errp emptym c s m, replytag_ok c = true ->
  makeReply errp emptym c s = Ok m -> one_line (serialize m).
Proof. exact makeReply_line. Qed.
Print Assumptions C06_reply_line.

(* Outside that domain the statement fails (finding C06.F47): the msgid of the triggering line is
   server-controlled; tag escaping (regenerated SERVER_TAG_ESCAPE) has no image for NUL, so a NUL in it
   reaches the line.  Needs experimentalExtensions + message-tags and a server that passes a NUL. *)
Theorem C06_reply_tag_nul_refuted :
  replytag_ok nul_tag_cfg = false /\ escape [0%N] = [0%N] /\
  exists m, makeReply_real nul_tag_cfg [104; 105]%N = Ok m /\ ~ one_line (serialize m).
Proof. exact reply_tag_nul_refuted. Qed.
Print Assumptions C06_reply_tag_nul_refuted.

(* ... and it does return a message (no AssertionError) whenever the names it copies from the
   triggering message / to= are line-safe: the user's text alone can never make it fail. *)
Theorem C06_reply_never_raises :
  forall errp emptym, valid_arg emptym = true ->
  forall c s, valid_arg (reply_target c) = true -> valid_arg (reply_to c) = true ->
  exists m, makeReply errp emptym c s = Ok m.
Proof. exact makeReply_total. Qed.
Print Assumptions C06_reply_never_raises.

(* Truncation keeps a line a line ... *)
Theorem C06_truncate_preserves : forall l r, one_line l -> truncate l = Ok r -> one_line r.
Proof. exact truncate_preserves. Qed.
Print Assumptions C06_truncate_preserves.

(* ... and bounds the part after the tags to MAX_LINE_SIZE (512) BYTES of UTF-8, for every line,
   multi-byte text included.  This is the full statement: before the repair of C06.F19
   (_truncateMsg counted characters) it was proved for ASCII only and refuted on the witness below. *)
Theorem C06_len_bytes :
  forall l r, truncate l = Ok r -> (utf8_len (untagged r) <= gen.T06.MAX_LINE_SIZE)%nat.
Proof. exact truncate_len_bytes. Qed.
Print Assumptions C06_len_bytes.

(* hence also at most 512 characters *)
Theorem C06_len_chars :
  forall l r, truncate l = Ok r -> (List.length (untagged r) <= gen.T06.MAX_LINE_SIZE)%nat.
Proof. exact truncate_len_chars. Qed.
Print Assumptions C06_len_chars.

(* non-vacuity on the old witness of C06.F19 (PRIVMSG #c :<600 x e-acute>): truncated to exactly 512 bytes *)
Theorem C06_len_bytes_example :
  exists r, truncate witness_multibyte = Ok r /\ one_lineb r = true /\ utf8_len (untagged r) = 512%nat.
Proof. exact truncate_multibyte_example. Qed.
Print Assumptions C06_len_bytes_example.

(* _truncateMsg fails only through the encoder (lone surrogate: takeMsg is firewalled, the message is logged and
   dropped -- this closed C06.F22) or a malformed tag part *)
Theorem C06_truncate_total :
  forall l tg rest, split_tagpart l = Ok (tg, rest) -> existsb is_surrogate rest = false ->
  exists r, truncate l = Ok r.
Proof. exact truncate_surrogate_free. Qed.
Print Assumptions C06_truncate_total.

(* The whole takeMsg step: a constructor-built message, an optional label, any chain of outFilters
   that keep the constructor invariant, then _truncateMsg under takeMsg's firewall: whatever the driver gets is one line of
   at most 512 bytes after the tags (hence encodable: a line with a lone surrogate is never handed over). *)
Theorem C06_take_line :
  forall lbl fs m l, wf_outb m = true -> label_ok lbl = true -> Forall filter_ok fs ->
  take_line lbl fs m = Some l ->
  one_line l /\ (utf8_len (untagged l) <= gen.T06.MAX_LINE_SIZE)%nat.
Proof. exact take_line_ok. Qed.
Print Assumptions C06_take_line.

(* The msg= branch of the constructor checks nothing: the same arguments the keyword branch
   rejects with AssertionError produce a two-line message. *)
Theorem C06_msg_branch_refuted :
  exists m, maker gen.T06.CMD_PRIVMSG [35; 99]%N smuggle_text [] (Some smuggle_base) = Ok m
            /\ one_lineb (serialize m) = false /\ ~ one_line (serialize m)
            /\ ctor [] gen.T06.CMD_PRIVMSG [[35; 99]%N; smuggle_text] [] = Raise AssertionError.
Proof. exact msg_branch_unchecked. Qed.
Print Assumptions C06_msg_branch_refuted.

(* IrcMsg(msg=m) with no other argument is a pure copy: same prefix, command, args and tags,
   so it serialises to one line exactly when m does, and keeps the constructor invariant. *)
Theorem C06_ctor_copy :
  forall m, copy_msg m = m /\ (one_line (serialize (copy_msg m)) <-> one_line (serialize m))
            /\ wf_outb (copy_msg m) = wf_outb m.
Proof. intro m. split; [apply ctor_copy|]. split; [apply ctor_copy_line|apply ctor_copy_wf]. Qed.
Print Assumptions C06_ctor_copy.

(* Every call site that reaches the msg= branch is one of the reviewed sites, a message maker of
   ircmsgs.py forwarding its own msg= parameter, or a pure copy (kind 2: IrcMsg(msg=m) alone,
   covered by C06_ctor_copy) -- regenerated inventory. *)
Theorem C06_inventory :
  forall s, In s gen.T06.MSGCTOR_SITES ->
  In s reviewed_external \/
  (s_file s = "src/ircmsgs.py"%string /\ s_kind s = 0%N /\ In (s_func s) gen.T06.MAKERS_WITH_MSG) \/
  s_kind s = 2%N.
Proof. exact inventory. Qed.
Print Assumptions C06_inventory.

(* Filter.outFilter (per-channel output filter, rebuilds the message through the msg= branch): with filter
   commands that cannot create CR, LF or NUL it keeps the constructor invariant, so it is one of the
   outFilters C06_take_line quantifies over ... *)
Theorem C06_outfilter_preserves :
  forall active fs, Forall line_preserving fs ->
  (forall m, wf_outb m = true -> wf_outb (filter_outFilter active fs m) = true)
  /\ filter_ok (fun m => Some (filter_outFilter active fs m)).
Proof. intros a fs H. split; [intros m; apply outFilter_wf; exact H|apply outFilter_filter_ok; exact H]. Qed.
Print Assumptions C06_outfilter_preserves.

(* ... and with a filter that can (a decoder) the rebuilt message is not one line: nothing re-validates. *)
Theorem C06_outfilter_unchecked :
  wf_outb digits_msg = true /\ one_line (serialize digits_msg)
  /\ ~ line_preserving decoder_like
  /\ ~ one_line (serialize (filter_outFilter true [decoder_like] digits_msg)).
Proof. exact outFilter_unchecked. Qed.
Print Assumptions C06_outfilter_unchecked.

(* Hence the whitelist Filter._filterCommands (regenerated) may only name filters validated as
   line-preserving by the harness (function-level and live); no decoder is among them. *)
Theorem C06_outfilter_whitelist :
  forall c, In c gen.T06.FILTER_COMMANDS -> In c validated_out_filters.
Proof. exact whitelist_validated. Qed.
Print Assumptions C06_outfilter_whitelist.

(* The side conditions of C06_ctor_line never depend on users: apart from the reviewed sites, every IrcMsg(...)
   call in src/ and plugins/ has a literal command, no user-supplied prefix and no server_tags (regenerated). *)
Theorem C06_ctor_sites : gen.T06.KWCTOR_ODD = reviewed_kwctor.
Proof. exact kwctor_sites. Qed.
Print Assumptions C06_ctor_sites.
