(* C04/Glob.v — the matcher equals declarative glob semantics and is invariant
   under rfc1459 case folding of pattern and hostmask *)
From Coq Require Import List NArith ZArith Bool Lia.
Import ListNotations.
Require Import Base.Wire Base.PyStr C04.Model.
Require C03.Model C03.Fold.
Open Scope N_scope.

(* declarative semantics of a compiled pattern: a split of the hostmask *)
Inductive gsem : list atom -> str -> Prop :=
| gs_nil : gsem [] []
| gs_nil_lf : gsem [] [LF]
| gs_star p h1 h2 : forallb notlf h1 = true -> gsem p h2 -> gsem (AStar :: p) (h1 ++ h2)
| gs_any p c h : notlf c = true -> gsem p h -> gsem (AAny :: p) (c :: h)
| gs_cls l p c h : existsb (ci_eq c) l = true -> gsem p h -> gsem (ACls l :: p) (c :: h)
| gs_lit x p c h : ci_eq c x = true -> gsem p h -> gsem (ALit x :: p) (c :: h).

Definition star (p' : list atom) : str -> bool :=
  fix star (h : str) : bool :=
    gmatch p' h || match h with c :: h' => notlf c && star h' | [] => false end.

Lemma gmatch_star p' h : gmatch (AStar :: p') h = star p' h.
Proof. reflexivity. Qed.

Lemma star_unfold p' h :
  star p' h = gmatch p' h || match h with c :: h' => notlf c && star p' h' | [] => false end.
Proof. destruct h; reflexivity. Qed.

Lemma star_sound p' (IH : forall h, gmatch p' h = true -> gsem p' h) h :
  star p' h = true -> gsem (AStar :: p') h.
Proof.
  induction h as [|c h IHh]; rewrite star_unfold; intro H.
  - rewrite orb_false_r in H. apply (gs_star p' [] []); [reflexivity|apply IH; exact H].
  - apply orb_true_iff in H as [H|H].
    + apply (gs_star p' [] (c :: h)); [reflexivity|apply IH; exact H].
    + apply andb_true_iff in H as [Hc Hs]. specialize (IHh Hs).
      inversion IHh as [| |p0 h1 h2 Hh1 Hg Ep Eh| | |]; subst.
      apply (gs_star p' (c :: h1) h2); [cbn [forallb]; rewrite Hc; exact Hh1|exact Hg].
Qed.

Lemma star_complete p' h1 h2 :
  forallb notlf h1 = true -> gmatch p' h2 = true -> star p' (h1 ++ h2) = true.
Proof.
  intros H1 H2. induction h1 as [|c h1 IH]; rewrite star_unfold.
  - cbn [app]. rewrite H2. reflexivity.
  - cbn [forallb] in H1. apply andb_true_iff in H1 as [Hc H1]. cbn [app].
    rewrite Hc, (IH H1). apply orb_true_r.
Qed.

Theorem gmatch_correct p h : gmatch p h = true <-> gsem p h.
Proof.
  split.
  - revert h. induction p as [|a p IH]; intros h H.
    + destruct h as [|c [|d r]]; cbn in H; try discriminate; [constructor|].
      apply N.eqb_eq in H. subst. constructor.
    + destruct a as [| |l|x].
      * rewrite gmatch_star in H. apply star_sound; assumption.
      * destruct h as [|c h]; [discriminate|]. cbn [gmatch] in H. apply andb_true_iff in H as [H1 H2].
        constructor; [exact H1|apply IH; exact H2].
      * destruct h as [|c h]; [discriminate|]. cbn [gmatch] in H. apply andb_true_iff in H as [H1 H2].
        constructor; [exact H1|apply IH; exact H2].
      * destruct h as [|c h]; [discriminate|]. cbn [gmatch] in H. apply andb_true_iff in H as [H1 H2].
        constructor; [exact H1|apply IH; exact H2].
  - intro H. induction H as [| |p h1 h2 H1 _ IH|p c h Hc _ IH|l p c h Hc _ IH|x p c h Hc _ IH].
    + reflexivity.
    + reflexivity.
    + rewrite gmatch_star. apply star_complete; assumption.
    + cbn [gmatch]. rewrite Hc, IH. reflexivity.
    + cbn [gmatch]. rewrite Hc, IH. reflexivity.
    + cbn [gmatch]. rewrite Hc, IH. reflexivity.
Qed.

(* ---- invariance under rfc1459 folding ---- *)
Definition fc := C03.Model.fold_char.
Definition lc := C03.Model.lower_char.

(* two characters are equal under IRC case rules *)
Definition irc_eq (a b : N) : bool := N.eqb (fc a) (fc b).

(* what one compiled atom accepts *)
Definition accepts (a : atom) (c : N) : bool :=
  match a with
  | AStar => notlf c | AAny => notlf c
  | ACls l => existsb (ci_eq c) l
  | ALit x => ci_eq c x
  end.

Definition ascii : list N := map N.of_nat (seq 0 128).

Definition atom_kind (a : atom) : N :=
  match a with AStar => 0 | AAny => 1 | ACls _ => 2 | ALit _ => 3 end.

Lemma In_ascii c : (c < 128)%N -> In c ascii.
Proof.
  intro H. unfold ascii. apply in_map_iff. exists (N.to_nat c). split; [apply N2Nat.id|].
  apply in_seq. lia.
Qed.

Definition is_ascii (s : str) : bool := forallb (fun c => N.ltb c 128) s.

(* finite check over ASCII x ASCII: folding the pattern character and the
   hostmask character does not change what the compiled atom accepts *)
Definition fold_atom_ok (x c : N) : bool :=
  N.eqb (atom_kind (compile_char (fc x))) (atom_kind (compile_char x))
  && Bool.eqb (accepts (compile_char (fc x)) (fc c)) (accepts (compile_char x) c)
  && Bool.eqb (notlf (fc c)) (notlf c).

Lemma fold_atom_ok_ascii : forallb (fun x => forallb (fold_atom_ok x) ascii) ascii = true.
Proof. vm_compute. reflexivity. Qed.

Lemma fold_atom_ok_lt x c : (x < 128)%N -> (c < 128)%N -> fold_atom_ok x c = true.
Proof.
  intros Hx Hc. pose proof fold_atom_ok_ascii as H. rewrite forallb_forall in H.
  specialize (H x (In_ascii x Hx)). rewrite forallb_forall in H. exact (H c (In_ascii c Hc)).
Qed.

Lemma notlf_fc c : (c < 128)%N -> notlf (fc c) = notlf c.
Proof.
  intro Hc. pose proof (fold_atom_ok_lt 0 c ltac:(lia) Hc) as H. unfold fold_atom_ok in H.
  apply andb_true_iff in H as [_ H]. apply eqb_prop in H. exact H.
Qed.

(* generic: gmatch only looks at the atoms through [accepts] *)
Lemma gmatch_accepts a p c h :
  gmatch (a :: p) (c :: h) =
  match a with
  | AStar => star p (c :: h)
  | _ => accepts a c && gmatch p h
  end.
Proof. destruct a; reflexivity. Qed.

Lemma gmatch_nil_cons a p : match a with AStar => True | _ => gmatch (a :: p) [] = false end.
Proof. destruct a; trivial. Qed.

Section Rel.
Variable phi : N -> N.
Variable dom : N -> Prop.
Hypothesis phi_lf : forall c, dom c -> notlf (phi c) = notlf c.

Definition arel (a b : atom) : Prop :=
  atom_kind a = atom_kind b /\ forall c, dom c -> accepts b (phi c) = accepts a c.

Lemma gmatch_rel p1 p2 :
  Forall2 arel p1 p2 -> forall h, Forall dom h -> gmatch p2 (map phi h) = gmatch p1 h.
Proof.
  induction 1 as [|a b p1 p2 [Hk Hacc] _ IH]; intros h Hd.
  - destruct h as [|c [|d r]]; [reflexivity| |reflexivity].
    cbn [map gmatch]. inversion Hd; subst.
    pose proof (phi_lf c H1) as Hl. unfold notlf in Hl. apply (f_equal negb) in Hl. rewrite !negb_involutive in Hl. exact Hl.
  - destruct a, b; try discriminate.
    + (* star *) rewrite !gmatch_star.
      induction h as [|c h IHh].
      * cbn [map]. rewrite !star_unfold. pose proof (IH [] Hd) as E. cbn [map] in E. rewrite E. reflexivity.
      * cbn [map]. rewrite (star_unfold p2), (star_unfold p1). inversion Hd; subst.
        rewrite <- IHh by assumption. change (phi c :: map phi h) with (map phi (c :: h)).
        rewrite (IH (c :: h) Hd). rewrite phi_lf by assumption. reflexivity.
    + destruct h as [|hc h]; [reflexivity|]. inversion Hd; subst. cbn [map].
      rewrite !gmatch_accepts. rewrite Hacc by assumption. rewrite IH by assumption. reflexivity.
    + destruct h as [|hc h]; [reflexivity|]. inversion Hd; subst. cbn [map].
      rewrite !gmatch_accepts. rewrite Hacc by assumption. rewrite IH by assumption. reflexivity.
    + destruct h as [|hc h]; [reflexivity|]. inversion Hd; subst. cbn [map].
      rewrite !gmatch_accepts. rewrite Hacc by assumption. rewrite IH by assumption. reflexivity.
Qed.
End Rel.

(* matching is invariant under rfc1459 folding of pattern and hostmask (ASCII text) *)
Theorem hmatch_fold pat h :
  is_ascii pat = true -> is_ascii h = true ->
  hmatch (C03.Model.fold pat) (C03.Model.fold h) = hmatch pat h.
Proof.
  intros Hp Hh. unfold hmatch, compile, C03.Model.fold.
  apply (gmatch_rel fc (fun c => (c < 128)%N)).
  - intros c Hc. apply notlf_fc. exact Hc.
  - unfold is_ascii in Hp. rewrite forallb_forall in Hp. clear Hh.
    induction pat as [|x pat IH]; [constructor|].
    cbn [map]. constructor.
    + assert (Hx : (x < 128)%N) by (apply N.ltb_lt; apply Hp; left; reflexivity).
      split.
      * pose proof (fold_atom_ok_lt x 0 Hx ltac:(lia)) as H. unfold fold_atom_ok in H.
        apply andb_true_iff in H as [H _]. apply andb_true_iff in H as [H _]. apply N.eqb_eq in H. symmetry. exact H.
      * intros c Hc. pose proof (fold_atom_ok_lt x c Hx Hc) as H. unfold fold_atom_ok in H.
        apply andb_true_iff in H as [H _]. apply andb_true_iff in H as [_ H]. apply eqb_prop in H. exact H.
    + apply IH. intros y Hy. apply Hp. right. exact Hy.
  - unfold is_ascii in Hh. rewrite forallb_forall in Hh. apply Forall_forall. intros c Hc.
    apply N.ltb_lt. apply Hh. exact Hc.
Qed.

(* non-vacuity / witness: "N[ck!*@*" matches "n{CK!u@h" *)
Example hmatch_example :
  hmatch [78;91;99;107;33;42;64;42] [110;123;67;75;33;117;64;104] = true.
Proof. vm_compute. reflexivity. Qed.
