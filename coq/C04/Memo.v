(* C04/Memo.v — the two memo layers in front of the matcher
   (ircutils.hostmaskPatternEqual: _patternCache keyed by the pattern,
   _hostmaskPatternEqualCache keyed by (pattern, hostmask); both CacheDicts that
   drop everything when they hold gen.T04.CACHE_MAX keys).  The key expressions
   and sizes are pinned by table T04.  Memoised = direct, for every sequence of
   lookups: the answer for a hostmask never depends on what was asked before. *)
From Coq Require Import List NArith ZArith Bool Lia.
Import ListNotations.
Require Import Base.Wire Base.PyStr C04.Model.
Require gen.T04.
Open Scope N_scope.

Definition key_eqb (a b : str * str) : bool := seq_eqb (fst a) (fst b) && seq_eqb (snd a) (snd b).

Fixpoint memo_get (k : str * str) (c : list ((str * str) * bool)) : option bool :=
  match c with
  | [] => None
  | (k', b) :: r => if key_eqb k k' then Some b else memo_get k r
  end.

(* CacheDict.__setitem__ on a key that is not there *)
Definition memo_put (k : str * str) (b : bool) (c : list ((str * str) * bool)) : list ((str * str) * bool) :=
  (if N.leb gen.T04.CACHE_MAX (N.of_nat (length c)) then [] else c) ++ [(k, b)].

(* the compiled-pattern cache holds, per pattern, the atoms it compiles to *)
Fixpoint pat_get (p : str) (pc : list (str * list atom)) : option (list atom) :=
  match pc with
  | [] => None
  | (p', a) :: r => if seq_eqb p p' then Some a else pat_get p r
  end.
Definition pat_put (p : str) (a : list atom) (pc : list (str * list atom)) : list (str * list atom) :=
  (if N.leb gen.T04.CACHE_MAX (N.of_nat (length pc)) then [] else pc) ++ [(p, a)].

(* _hostmaskPatternEqual(pattern, hostmask) *)
Definition inner (pc : list (str * list atom)) (p h : str) : list (str * list atom) * bool :=
  match pat_get p pc with
  | Some a => (pc, gmatch a h)
  | None => let a := compile p in (pat_put p a pc, gmatch a h)
  end.

(* hostmaskPatternEqual(pattern, hostmask) *)
Definition memo_lookup (pc : list (str * list atom)) (c : list ((str * str) * bool)) (p h : str)
  : list (str * list atom) * list ((str * str) * bool) * bool :=
  match memo_get (p, h) c with
  | Some b => (pc, c, b)
  | None => let '(pc', b) := inner pc p h in (pc', memo_put (p, h) b c, b)
  end.

Definition pc_ok (pc : list (str * list atom)) : Prop := forall p a, In (p, a) pc -> a = compile p.
Definition c_ok (c : list ((str * str) * bool)) : Prop := forall k b, In (k, b) c -> b = hmatch (fst k) (snd k).

Lemma key_eqb_eq a b : key_eqb a b = true -> a = b.
Proof.
  destruct a, b. unfold key_eqb. cbn [fst snd]. intro H. apply andb_true_iff in H as [H1 H2].
  apply seq_eqb_eq in H1. apply seq_eqb_eq in H2. congruence.
Qed.

Lemma memo_get_In k c b : memo_get k c = Some b -> In (k, b) c.
Proof.
  induction c as [|[k' b'] c IH]; [discriminate|]. cbn [memo_get]. destruct (key_eqb k k') eqn:E.
  - intro H. inversion H; subst. apply key_eqb_eq in E. subst. left. reflexivity.
  - intro H. right. exact (IH H).
Qed.

Lemma pat_get_In p pc a : pat_get p pc = Some a -> In (p, a) pc.
Proof.
  induction pc as [|[p' a'] pc IH]; [discriminate|]. cbn [pat_get]. destruct (seq_eqb p p') eqn:E.
  - intro H. inversion H; subst. apply seq_eqb_eq in E. subst. left. reflexivity.
  - intro H. right. exact (IH H).
Qed.

(* one lookup: the memoised answer is the matcher's, and the caches stay sound *)
Theorem memo_lookup_direct pc c p h :
  pc_ok pc -> c_ok c ->
  let '(pc', c', b) := memo_lookup pc c p h in b = hmatch p h /\ pc_ok pc' /\ c_ok c'.
Proof.
  intros Hpc Hc. unfold memo_lookup. destruct (memo_get (p, h) c) as [b|] eqn:Eg.
  - split; [exact (Hc _ _ (memo_get_In _ _ _ Eg))|]. split; assumption.
  - unfold inner. destruct (pat_get p pc) as [a|] eqn:Ep.
    + assert (Ea : a = compile p) by exact (Hpc _ _ (pat_get_In _ _ _ Ep)). subst a.
      split; [reflexivity|]. split; [exact Hpc|].
      intros k b Hin. unfold memo_put in Hin. apply in_app_iff in Hin as [Hin|[E|[]]].
      * destruct (N.leb gen.T04.CACHE_MAX (N.of_nat (length c))); [destruct Hin|exact (Hc _ _ Hin)].
      * inversion E; subst. reflexivity.
    + split; [reflexivity|]. split.
      * intros p2 a2 Hin. unfold pat_put in Hin. apply in_app_iff in Hin as [Hin|[E|[]]].
        -- destruct (N.leb gen.T04.CACHE_MAX (N.of_nat (length pc))); [destruct Hin|exact (Hpc _ _ Hin)].
        -- inversion E; subst. reflexivity.
      * intros k b Hin. unfold memo_put in Hin. apply in_app_iff in Hin as [Hin|[E|[]]].
        -- destruct (N.leb gen.T04.CACHE_MAX (N.of_nat (length c))); [destruct Hin|exact (Hc _ _ Hin)].
        -- inversion E; subst. reflexivity.
Qed.

(* any sequence of lookups from empty caches: every answer is the matcher's *)
Fixpoint memo_run (pc : list (str * list atom)) (c : list ((str * str) * bool)) (qs : list (str * str)) : list bool :=
  match qs with
  | [] => []
  | (p, h) :: r => let '(pc', c', b) := memo_lookup pc c p h in b :: memo_run pc' c' r
  end.

Theorem memo_run_direct qs : memo_run [] [] qs = map (fun q => hmatch (fst q) (snd q)) qs.
Proof.
  assert (H : forall pc c, pc_ok pc -> c_ok c -> memo_run pc c qs = map (fun q => hmatch (fst q) (snd q)) qs).
  { induction qs as [|[p h] qs IH]; intros pc c Hpc Hc; [reflexivity|]. cbn [memo_run map fst snd].
    pose proof (memo_lookup_direct pc c p h Hpc Hc) as Hl.
    destruct (memo_lookup pc c p h) as [[pc' c'] b]. destruct Hl as [Hb [Hpc' Hc']]. rewrite Hb, (IH _ _ Hpc' Hc'). reflexivity. }
  apply H; intros ? ? [].
Qed.

(* non-vacuity: the genuine sender, then the KELVIN SIGN twin: the second answer is the matcher's own, false *)
Example memo_twin_example :
  memo_run [] [] [([107;33;42;64;42], [107;33;117;64;104]); ([107;33;42;64;42], [8490;33;117;64;104])] = [true; false].
Proof. vm_compute. reflexivity. Qed.
