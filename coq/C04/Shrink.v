(* C04/Shrink.v — the account list only ever "shrinks" under the lazy removals
   of the lookup paths: same ids in the same order, and every account
   recognises (by mask or by a login, expired or not) at most what it did. *)
From Coq Require Import List NArith ZArith Bool Lia.
Import ListNotations.
Require Import Base.Wire Base.PyStr C04.Model C04.Sound C04.Assoc C04.Prune.
Open Scope N_scope.

Definition le_user (u' u : user) : Prop := forall h, recog_ever u' h = true -> recog_ever u h = true.

Lemma le_user_refl u : le_user u u.
Proof. intros h H. exact H. Qed.

Lemma le_user_trans a b c : le_user a b -> le_user b c -> le_user a c.
Proof. intros H1 H2 h H. apply H2. apply H1. exact H. Qed.

Lemma le_user_false u' u h : le_user u' u -> recog_ever u h = false -> recog_ever u' h = false.
Proof. intros H Hf. destruct (recog_ever u' h) eqn:E; [|reflexivity]. rewrite (H _ E) in Hf. discriminate. Qed.

(* us' is us with some accounts shrunk *)
Definition pruned (us us' : list (N * user)) : Prop :=
  Forall2 (fun a b => fst b = fst a /\ le_user (snd b) (snd a)) us us'.

Lemma pruned_refl us : pruned us us.
Proof. induction us as [|[i u] us IH]; constructor; [split; [reflexivity|apply le_user_refl]|exact IH]. Qed.

Lemma pruned_trans a b c : pruned a b -> pruned b c -> pruned a c.
Proof.
  intro H. revert c. induction H as [|x y a b [Hk Hle] H IH]; intros c Hc; inversion Hc as [|? z ? c' [Hk' Hle'] Hc']; subst; constructor.
  - split; [congruence|eapply le_user_trans; eassumption].
  - apply IH. exact Hc'.
Qed.

Lemma pruned_keys us us' : pruned us us' -> map fst us' = map fst us.
Proof. intro H. induction H as [|x y a b [Hk _] H IH]; [reflexivity|]. cbn [map]. rewrite Hk, IH. reflexivity. Qed.

Lemma pruned_nget us us' k u' :
  pruned us us' -> nget k us' = Some u' -> exists u, nget k us = Some u /\ le_user u' u.
Proof.
  intro H. induction H as [|[i u] [i' v] a b [Hk Hle] H IH]; [discriminate|].
  cbn [fst snd] in *. subst i'. cbn [nget]. destruct (N.eqb i k).
  - intro E. inversion E; subst. exists u. auto.
  - exact IH.
Qed.

Lemma pruned_nget_fwd us us' k u :
  pruned us us' -> nget k us = Some u -> exists u', nget k us' = Some u' /\ le_user u' u.
Proof.
  intro H. induction H as [|[i v] [i' v'] a b [Hk Hle] H IH]; [discriminate|].
  cbn [fst snd] in *. subst i'. cbn [nget]. destruct (N.eqb i k).
  - intro E. inversion E; subst. exists v'. auto.
  - exact IH.
Qed.

Lemma pruned_nget_none us us' k : pruned us us' -> nget k us = None -> nget k us' = None.
Proof.
  intros H Hn. destruct (nget k us') as [u'|] eqn:E; [|reflexivity].
  destruct (pruned_nget _ _ _ _ H E) as [u [Hu _]]. congruence.
Qed.

(* replacing one account by a smaller one *)
Lemma pruned_nset us k u u' :
  nget k us = Some u -> le_user u' u -> pruned us (nset k u' us).
Proof.
  induction us as [|[i v] us IH]; [discriminate|]. cbn [nget nset]. destruct (N.eqb i k) eqn:E.
  - intros Hu Hle. inversion Hu; subst. constructor; [split; [reflexivity|exact Hle]|apply pruned_refl].
  - intros Hu Hle. constructor; [split; [reflexivity|apply le_user_refl]|apply IH; assumption].
Qed.

(* the User plugin's in-place edit and its undo: putting the stored record
   back into a pruned copy of the edited list gives a pruned copy of the
   original list *)
Lemma pruned_rollback us k u u0 us1 :
  nget k us = Some u0 -> pruned (nset k u us) us1 -> pruned us (nset k u0 us1).
Proof.
  revert us1. induction us as [|[i v] us IH]; [discriminate|]. intros us1. cbn [nget nset]. destruct (N.eqb i k) eqn:E.
  - intros Hu H. inversion Hu; subst. inversion H as [|? [i' v'] ? b [Hk Hle] Hr]; subst. cbn [fst snd] in *. subst i'.
    cbn [nset]. rewrite E. constructor; [split; [reflexivity|apply le_user_refl]|exact Hr].
  - intros Hu H. inversion H as [|? [i' v'] ? b [Hk Hle] Hr]; subst. cbn [fst snd] in *. subst i'.
    cbn [nset]. rewrite E. constructor; [split; [reflexivity|exact Hle]|apply IH; assumption].
Qed.

(* ---- the functions that prune ---- *)
Lemma le_user_checkHostmask istr t now u h ua : le_user (fst (checkHostmask istr t now u h ua)) u.
Proof. intros h2. apply checkHostmask_ever. Qed.

Lemma scan_users_pruned t now h us : pruned us (fst (scan_users t now h us)).
Proof.
  induction us as [|[i u] us IH]; [constructor|]. cbn [scan_users].
  pose proof (le_user_checkHostmask false t now u h true) as Hle.
  destruct (checkHostmask false t now u h true) as [u' x]. cbn [fst] in Hle.
  destruct (scan_users t now h us) as [r' ids]. cbn [fst] in *.
  constructor; [split; [reflexivity|exact Hle]|exact IH].
Qed.

(* after a scan, an account that is not among the matches has no login from
   h left and no mask matching h *)
Lemma scan_users_clean t now h us k u' :
  nget k (fst (scan_users t now h us)) = Some u' ->
  ~ In k (map fst (snd (scan_users t now h us))) -> recog_ever u' h = false.
Proof.
  induction us as [|[i u] us IH]; [discriminate|]. cbn [scan_users].
  pose proof (checkHostmask_clean t now u h) as Hc.
  destruct (checkHostmask false t now u h true) as [u1 x]. cbn [fst snd] in Hc.
  destruct (scan_users t now h us) as [r' ids]. cbn [fst snd] in *. cbn [nget].
  destruct (N.eqb i k) eqn:E.
  - intros Hu Hni. inversion Hu; subst u1. apply N.eqb_eq in E. subst i.
    destruct (truthy x); [exfalso; apply Hni; left; reflexivity|apply Hc; reflexivity].
  - intros Hu Hni. apply IH; [exact Hu|]. intro Hin. apply Hni. destruct (truthy x); [right|]; exact Hin.
Qed.

Lemma overlap_one_pruned t now self hm us : pruned us (fst (overlap_one t now self hm us)).
Proof.
  induction us as [|[i u] us IH]; [constructor|]. cbn [overlap_one].
  destruct (N.eqb i self).
  - destruct (overlap_one t now self hm us) as [r' b]. cbn [fst] in *.
    constructor; [split; [reflexivity|apply le_user_refl]|exact IH].
  - pose proof (le_user_checkHostmask true t now u hm true) as Hle.
    destruct (checkHostmask true t now u hm true) as [u' x]. cbn [fst] in Hle.
    destruct (truthy x); [cbn [fst]; constructor; [split; [reflexivity|exact Hle]|apply pruned_refl]|].
    destruct (existsb (fun other => hmatch hm other) (u_masks u'));
      [cbn [fst]; constructor; [split; [reflexivity|exact Hle]|apply pruned_refl]|].
    destruct (overlap_one t now self hm us) as [r' b]. cbn [fst] in *.
    constructor; [split; [reflexivity|exact Hle]|exact IH].
Qed.

Lemma overlap_all_pruned t now self hms us : pruned us (fst (overlap_all t now self hms us)).
Proof.
  revert us. induction hms as [|hm hms IH]; intro us; [apply pruned_refl|]. cbn [overlap_all].
  pose proof (overlap_one_pruned t now self hm us) as H1.
  destruct (overlap_one t now self hm us) as [us' b]. cbn [fst] in H1.
  destruct b; [exact H1|]. eapply pruned_trans; [exact H1|apply IH].
Qed.

Lemma le_user_less_masks u ms :
  (forall p, In p ms -> In p (u_masks u)) -> le_user (User (u_name u) ms (u_auth u) (u_secure u)) u.
Proof.
  intros Hsub h. unfold recog_ever, mask_match. cbn [u_auth u_masks u_secure]. intro H.
  apply orb_true_iff in H as [H|H]; [rewrite H; reflexivity|].
  apply existsb_exists in H as [p [Hin Hp]]. apply orb_true_iff. right. apply existsb_exists. exists p. auto.
Qed.

Lemma remove_offending_pruned us ids : pruned us (fst (remove_offending us ids)).
Proof.
  revert us. induction ids as [|[i x] ids IH]; intro us; [apply pruned_refl|]. cbn [remove_offending].
  destruct x as [|p|]; try apply pruned_refl.
  rewrite uget_nget. destruct (nget i us) as [u|] eqn:Eu; [|apply pruned_refl].
  unfold iset_remove. destruct (existsb (ieq p) (u_masks u)); [|apply pruned_refl].
  rewrite uset_nset. eapply pruned_trans; [|apply IH].
  apply (pruned_nset us i u); [exact Eu|]. apply le_user_less_masks.
  intros q Hq. apply filter_In in Hq as [Hq _]. exact Hq.
Qed.

(* ---- who is recognised now does not change under these removals ---- *)
Lemma recognised_nset t now h us k u u' :
  nget k us = Some u -> recog t now u' h = recog t now u h ->
  map fst (filter (fun iu => recog t now (snd iu) h) (nset k u' us)) =
  map fst (filter (fun iu => recog t now (snd iu) h) us).
Proof.
  induction us as [|[i v] us IH]; [discriminate|]. cbn [nget nset]. destruct (N.eqb i k) eqn:E.
  - intros Hu Hr. inversion Hu; subst. cbn [filter snd]. rewrite Hr. destruct (recog t now u h); reflexivity.
  - intros Hu Hr. cbn [filter snd]. destruct (recog t now v h); cbn [map]; rewrite (IH Hu Hr); reflexivity.
Qed.

(* a unique recogniser, stated pointwise, is what the recomputation lists *)
Lemma filter_none {B} (f : B -> bool) l : (forall x, In x l -> f x = false) -> filter f l = [].
Proof.
  induction l as [|x l IH]; intro H; [reflexivity|]. cbn [filter]. rewrite (H x (or_introl eq_refl)).
  apply IH. intros y Hy. apply H. right. exact Hy.
Qed.

Lemma recognised_unique (f : user -> bool) us id u :
  NoDup (map fst us) -> nget id us = Some u -> f u = true ->
  (forall k uk, k <> id -> nget k us = Some uk -> f uk = false) ->
  map fst (filter (fun iu => f (snd iu)) us) = [id].
Proof.
  induction us as [|[i v] us IH]; [discriminate|]. intros Hnd Hu Hf Hother.
  cbn [map fst] in Hnd. inversion Hnd as [|? ? Hni Hnd']; subst. cbn [nget] in Hu. cbn [filter snd].
  destruct (N.eqb i id) eqn:E.
  - apply N.eqb_eq in E. subst i. inversion Hu; subst v. rewrite Hf. cbn [map fst]. f_equal.
    rewrite filter_none; [reflexivity|]. intros [k uk] Hin. cbn [snd]. apply (Hother k).
    + intro Ek. subst k. apply Hni. apply in_map_iff. exists (id, uk). auto.
    + cbn [nget]. destruct (N.eqb id k) eqn:Ek.
      * apply N.eqb_eq in Ek. subst k. exfalso. apply Hni. apply in_map_iff. exists (id, uk). auto.
      * apply In_nget; assumption.
  - assert (Hv : f v = false).
    { apply (Hother i); [intro Ei; subst; rewrite N.eqb_refl in E; discriminate|]. cbn [nget]. rewrite N.eqb_refl. reflexivity. }
    rewrite Hv. apply IH; try assumption. intros k uk Hk Hg. apply (Hother k); [exact Hk|]. cbn [nget].
    destruct (N.eqb i k) eqn:Ek; [|exact Hg].
    apply N.eqb_eq in Ek. subst k. exfalso. apply Hni. apply nget_In in Hg. apply in_map_iff. exists (i, uk). auto.
Qed.
