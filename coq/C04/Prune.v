(* C04/Prune.v — what checkHostmask's lazy removal of expired logins does to an
   account: it removes expired entries only (so who is recognised *now* does
   not change), and a scan that does not hit removes every expired entry (so
   afterwards no login from the scanned hostmask is left, expired or not). *)
From Coq Require Import List NArith ZArith Bool Lia.
Import ListNotations.
Require Import Base.Wire Base.PyStr C04.Model C04.Sound C04.Assoc.
Open Scope N_scope.

Lemma auth_eqb_eq a b : auth_eqb a b = true <-> a = b.
Proof.
  unfold auth_eqb. destruct a as [w m], b as [w' m']. cbn [fst snd]. split.
  - intro H. apply andb_true_iff in H as [H1 H2]. apply Z.eqb_eq in H1. apply seq_eqb_eq in H2. congruence.
  - intro H. inversion H; subst. rewrite Z.eqb_refl, seq_eqb_refl. reflexivity.
Qed.

Lemma auth_eqb_refl a : auth_eqb a a = true.
Proof. apply auth_eqb_eq. reflexivity. Qed.

(* ---- remove_first ---- *)
Lemma remove_first_In x l e : In e (remove_first x l) -> In e l.
Proof.
  induction l as [|y l IH]; cbn [remove_first]; [intros []|].
  destruct (auth_eqb x y); [intro H; right; exact H|].
  intros [H|H]; [left; exact H|right; exact (IH H)].
Qed.

Lemma remove_first_keep x l e : In e l -> x <> e -> In e (remove_first x l).
Proof.
  induction l as [|y l IH]; cbn [remove_first]; [intros []|].
  intros [H|H] Hne.
  - subst y. destruct (auth_eqb x e) eqn:E; [apply auth_eqb_eq in E; contradiction|left; reflexivity].
  - destruct (auth_eqb x y); [exact H|right; exact (IH H Hne)].
Qed.

Definition prune (rs l : list (Z * str)) : list (Z * str) := fold_left (fun a x => remove_first x a) rs l.

Lemma prune_In rs l e : In e (prune rs l) -> In e l.
Proof.
  revert l. induction rs as [|r rs IH]; intro l; [exact (fun H => H)|].
  cbn [prune fold_left]. intro H. apply (remove_first_In r). exact (IH _ H).
Qed.

Lemma prune_keep rs l e : In e l -> ~ In e rs -> In e (prune rs l).
Proof.
  revert l. induction rs as [|r rs IH]; intros l Hin Hni; [exact Hin|].
  cbn [prune fold_left]. apply IH.
  - apply remove_first_keep; [exact Hin|]. intro E. apply Hni. left. exact E.
  - intro H. apply Hni. right. exact H.
Qed.

(* counting occurrences *)
Fixpoint cnt (x : Z * str) (l : list (Z * str)) : nat :=
  match l with
  | [] => O
  | y :: l' => ((if auth_eqb x y then 1 else 0) + cnt x l')%nat
  end.

Lemma cnt_In x l : In x l -> (0 < cnt x l)%nat.
Proof.
  induction l as [|y l IH]; [intros []|]. cbn [cnt]. intros [H|H].
  - subst. rewrite auth_eqb_refl. lia.
  - specialize (IH H). lia.
Qed.

Lemma cnt_remove_first x y l :
  cnt y (remove_first x l) = if auth_eqb x y then pred (cnt y l) else cnt y l.
Proof.
  induction l as [|z l IH]; [cbn; destruct (auth_eqb x y); reflexivity|].
  cbn [remove_first cnt]. destruct (auth_eqb x z) eqn:Exz.
  - apply auth_eqb_eq in Exz. subst z. destruct (auth_eqb x y) eqn:Exy.
    + apply auth_eqb_eq in Exy. subst y. rewrite auth_eqb_refl. reflexivity.
    + destruct (auth_eqb y x) eqn:Eyx; [apply auth_eqb_eq in Eyx; subst; rewrite auth_eqb_refl in Exy; discriminate|reflexivity].
  - cbn [cnt]. rewrite IH. destruct (auth_eqb x y) eqn:Exy; [|reflexivity].
    apply auth_eqb_eq in Exy. subst y. rewrite Exz. cbn [plus]. reflexivity.
Qed.

Lemma cnt_prune y rs l : cnt y (prune rs l) = (cnt y l - cnt y rs)%nat.
Proof.
  revert l. induction rs as [|r rs IH]; intro l; [cbn; lia|].
  cbn [prune fold_left cnt]. fold (prune rs (remove_first r l)). rewrite IH, cnt_remove_first.
  destruct (auth_eqb r y) eqn:E.
  - apply auth_eqb_eq in E. subst r. rewrite auth_eqb_refl. lia.
  - destruct (auth_eqb y r) eqn:E2; [apply auth_eqb_eq in E2; subst; rewrite auth_eqb_refl in E; discriminate|lia].
Qed.

(* ---- scan_auth ---- *)
(* everything it schedules for removal is expired *)
Lemma scan_auth_removals eqf t now h auth rem e :
  In e (snd (scan_auth eqf t now h auth rem)) -> In e rem \/ expired t now (fst e) = true.
Proof.
  revert rem. induction auth as [|[w m] auth IH]; intro rem; [cbn; auto|].
  cbn [scan_auth]. fold (expired t now w). destruct (expired t now w) eqn:Ex.
  - intro H. apply IH in H as [[H|H]|H]; [subst; right; exact Ex|left; exact H|right; exact H].
  - destruct (eqf h m); [cbn; auto|apply IH].
Qed.

(* a scan that does not hit schedules every expired entry, with multiplicity *)
Lemma scan_auth_cnt eqf t now h auth rem y :
  fst (scan_auth eqf t now h auth rem) = false -> expired t now (fst y) = true ->
  cnt y (snd (scan_auth eqf t now h auth rem)) = (cnt y auth + cnt y rem)%nat.
Proof.
  revert rem. induction auth as [|[w m] auth IH]; intros rem Hf Hy; [reflexivity|].
  cbn [scan_auth] in *. fold (expired t now w) in *. destruct (expired t now w) eqn:Ex.
  - rewrite (IH _ Hf Hy). cbn [cnt]. lia.
  - destruct (eqf h m); [discriminate|]. rewrite (IH _ Hf Hy). cbn [cnt].
    destruct (auth_eqb y (w, m)) eqn:E; [|lia].
    apply auth_eqb_eq in E. subst y. cbn [fst] in Hy. congruence.
Qed.

(* ---- checkHostmask ---- *)
Lemma checkHostmask_fields istr t now u h ua :
  let u' := fst (checkHostmask istr t now u h ua) in
  u_name u' = u_name u /\ u_masks u' = u_masks u /\ u_secure u' = u_secure u.
Proof.
  unfold checkHostmask. destruct ua; [|cbn; auto].
  destruct (scan_auth (auth_eq istr u h) t now h (u_auth u) []) as [hit rem].
  destruct hit; cbn; auto.
Qed.

Lemma checkHostmask_auth istr t now u h :
  u_auth (fst (checkHostmask istr t now u h true)) =
  prune (snd (scan_auth (auth_eq istr u h) t now h (u_auth u) [])) (u_auth u).
Proof.
  unfold checkHostmask.
  destruct (scan_auth (auth_eq istr u h) t now h (u_auth u) []) as [hit rem].
  destruct hit; reflexivity.
Qed.

(* only expired logins are removed ... *)
Lemma checkHostmask_sub istr t now u h ua e :
  In e (u_auth (fst (checkHostmask istr t now u h ua))) -> In e (u_auth u).
Proof.
  destruct ua; [|exact (fun H => H)]. rewrite checkHostmask_auth. apply prune_In.
Qed.

Lemma checkHostmask_keep istr t now u h ua e :
  In e (u_auth u) -> expired t now (fst e) = false -> In e (u_auth (fst (checkHostmask istr t now u h ua))).
Proof.
  destruct ua; [|intros H _; exact H]. rewrite checkHostmask_auth. intros Hin Hex.
  apply prune_keep; [exact Hin|]. intro Hr. apply scan_auth_removals in Hr as [[]|Hr]. congruence.
Qed.

(* ... so the account recognises exactly the same hostmasks now as before *)
Lemma checkHostmask_recog istr t now u h ua h2 :
  recog t now (fst (checkHostmask istr t now u h ua)) h2 = recog t now u h2.
Proof.
  pose proof (checkHostmask_fields istr t now u h ua) as [_ [Hm Hs]]. cbv zeta in Hm, Hs.
  unfold recog, mask_match. rewrite Hm, Hs. f_equal. f_equal. unfold live_auth.
  set (f := fun e : Z * str => negb (expired t now (fst e)) && seq_eqb h2 (snd e)).
  destruct (existsb f (u_auth u)) eqn:E.
  - apply existsb_exists in E as [e [Hin He]]. apply existsb_exists. exists e. split; [|exact He].
    apply checkHostmask_keep; [exact Hin|]. unfold f in He. apply andb_true_iff in He as [He _].
    apply negb_true_iff in He. exact He.
  - destruct (existsb f (u_auth (fst (checkHostmask istr t now u h ua)))) eqn:E2; [|reflexivity].
    apply existsb_exists in E2 as [e [Hin He]]. apply checkHostmask_sub in Hin.
    assert (existsb f (u_auth u) = true) by (apply existsb_exists; eauto). congruence.
Qed.

(* the account's hostmasks and logins, expired or not *)
(* with its current masks and flag: a login (expired or not) of an account that
   is not secure, or a matching mask *)
Definition recog_ever (u : user) (h : str) : bool :=
  (existsb (fun e => seq_eqb h (snd e)) (u_auth u) && negb (u_secure u)) || mask_match u h.

Lemma recog_recog_ever t now u h : recog t now u h = true -> recog_ever u h = true.
Proof.
  unfold recog, recog_ever, live_auth. intro H. apply orb_true_iff in H as [H|H]; [|rewrite H; apply orb_true_r].
  apply andb_true_iff in H as [H Hs]. rewrite Hs, andb_true_r.
  apply existsb_exists in H as [e [Hin He]]. apply andb_true_iff in He as [_ He].
  apply orb_true_iff. left. apply existsb_exists. exists e. auto.
Qed.

(* the removal never adds anything *)
Lemma checkHostmask_ever istr t now u h ua h2 :
  recog_ever (fst (checkHostmask istr t now u h ua)) h2 = true -> recog_ever u h2 = true.
Proof.
  pose proof (checkHostmask_fields istr t now u h ua) as [_ [Hm Hs]]. cbv zeta in Hm, Hs.
  unfold recog_ever, mask_match. rewrite Hm, Hs. intro H. apply orb_true_iff in H as [H|H]; [|rewrite H; apply orb_true_r].
  apply andb_true_iff in H as [H Hsec]. rewrite Hsec, andb_true_r.
  apply existsb_exists in H as [e [Hin He]]. apply checkHostmask_sub in Hin.
  apply orb_true_iff. left. apply existsb_exists. exists e. auto.
Qed.

(* an account that does not accept h has, after the check, no login from h
   left at all (the expired ones were all removed) and no matching mask *)
Lemma checkHostmask_clean t now u h :
  truthy (snd (checkHostmask false t now u h true)) = false ->
  recog_ever (fst (checkHostmask false t now u h true)) h = false.
Proof.
  intro Ht. pose proof (checkHostmask_truthy t now u h) as Hr. rewrite Ht in Hr.
  pose proof (checkHostmask_truthy_gen false t now u h) as Hg. rewrite Ht in Hg.
  symmetry in Hr, Hg. unfold recog in Hr. apply orb_false_iff in Hr as [Hlive Hmask]. apply orb_false_iff in Hg as [Hhit0 _].
  pose proof (checkHostmask_fields false t now u h true) as [_ [Hm Hs]]. cbv zeta in Hm, Hs.
  unfold recog_ever. apply orb_false_iff. split; [|unfold mask_match in *; rewrite Hm; exact Hmask].
  rewrite Hs. destruct (u_secure u) eqn:Esec; [apply andb_false_r|]. rewrite andb_true_r. cbn [negb] in Hlive. rewrite andb_true_r in Hlive.
  destruct (existsb (fun e => seq_eqb h (snd e)) (u_auth (fst (checkHostmask false t now u h true)))) eqn:E; [|reflexivity].
  exfalso.
  apply existsb_exists in E as [e [Hin He]]. rewrite checkHostmask_auth in Hin.
  pose proof (scan_auth_hit (auth_eq false u h) t now h (u_auth u) []) as Hhit.
  unfold live_auth in Hhit0. rewrite Hhit0 in Hhit.
  destruct (expired t now (fst e)) eqn:Ex.
  - pose proof (cnt_In _ _ Hin) as Hpos. rewrite cnt_prune in Hpos.
    rewrite (scan_auth_cnt (auth_eq false u h) t now h (u_auth u) [] e Hhit Ex) in Hpos. cbn [cnt] in Hpos. lia.
  - apply prune_In in Hin. unfold live_auth in Hlive.
    assert (existsb (fun e0 => negb (expired t now (fst e0)) && seq_eqb h (snd e0)) (u_auth u) = true).
    { apply existsb_exists. exists e. split; [exact Hin|]. rewrite Ex, He. reflexivity. }
    congruence.
Qed.
