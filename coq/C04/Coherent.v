(* C04/Coherent.v — cache coherence as an invariant over arbitrary histories,
   on the domain: no login timeout, no ambiguous lookup *)
From Coq Require Import List NArith ZArith Bool Lia.
Import ListNotations.
Require Import Base.Wire Base.PyStr C04.Model C04.Sound C04.Assoc.
Open Scope N_scope.

(* ---- with timeout 0 nothing expires and lookups do not mutate accounts ---- *)
Lemma expired_t0 now w : expired 0 now w = false.
Proof. reflexivity. Qed.

Definition recog0 (u : user) (h : str) : bool :=
  existsb (fun e => seq_eqb h (snd e)) (u_auth u) || mask_match u h.

Lemma recog_t0 now u h : recog 0 now u h = recog0 u h.
Proof.
  reflexivity.
Qed.

Lemma scan_auth_t0 eqf now h auth rem : snd (scan_auth eqf 0 now h auth rem) = rem.
Proof.
  revert rem. induction auth as [|[w m] auth IH]; intro rem; [reflexivity|].
  cbn [scan_auth]. change (negb (Z.eqb 0 0) && Z.ltb (w + 0) now) with false. cbv iota.
  destruct (eqf h m); [reflexivity|apply IH].
Qed.

Lemma checkHostmask_t0 istr now u h ua : fst (checkHostmask istr 0 now u h ua) = u.
Proof.
  unfold checkHostmask. destruct ua; [|reflexivity].
  pose proof (scan_auth_t0 (if istr then ieq else seq_eqb) now h (u_auth u) []) as H.
  destruct (scan_auth (if istr then ieq else seq_eqb) 0 now h (u_auth u) []) as [hit rem].
  cbn [snd] in H. subst rem. cbn [fold_left]. destruct u; destruct hit; reflexivity.
Qed.

Lemma scan_users_t0 now h us : fst (scan_users 0 now h us) = us.
Proof.
  induction us as [|[i u] us IH]; [reflexivity|]. cbn [scan_users].
  pose proof (checkHostmask_t0 false now u h true) as Hc.
  destruct (checkHostmask false 0 now u h true) as [u' x]. cbn [fst] in Hc. subst u'.
  destruct (scan_users 0 now h us) as [r' ids]. cbn [fst] in *. subst r'. reflexivity.
Qed.

Lemma overlap_one_t0 now self hm us : fst (overlap_one 0 now self hm us) = us.
Proof.
  induction us as [|[i u] us IH]; [reflexivity|]. cbn [overlap_one].
  destruct (N.eqb i self).
  - destruct (overlap_one 0 now self hm us) as [r' b]. cbn [fst] in *. subst. reflexivity.
  - pose proof (checkHostmask_t0 true now u hm true) as Hc.
    destruct (checkHostmask true 0 now u hm true) as [u' x]. cbn [fst] in Hc. subst u'.
    destruct (truthy x); [reflexivity|].
    destruct (existsb (fun other => hmatch hm other) (u_masks u)); [reflexivity|].
    destruct (overlap_one 0 now self hm us) as [r' b]. cbn [fst] in *. subst. reflexivity.
Qed.

Lemma overlap_all_t0 now self hms us : fst (overlap_all 0 now self hms us) = us.
Proof.
  revert us. induction hms as [|hm hms IH]; intro us; [reflexivity|]. cbn [overlap_all].
  pose proof (overlap_one_t0 now self hm us) as H1.
  destruct (overlap_one 0 now self hm us) as [us' b]. cbn [fst] in H1. subst us'.
  destruct b; [reflexivity|apply IH].
Qed.

(* ---- the invariant ---- *)
(* account j recognises hostmask h (own mask or login) *)
Definition R (s : st) (h : str) (j : N) : Prop :=
  exists u, nget j (s_users s) = Some u /\ recog0 u h = true.

Record CacheInv (s : st) : Prop := {
  i_fwd_rev : forall h j, dict_get h (s_hcache s) = Some j ->
                          exists l, nget j (s_hrev s) = Some l /\ In h l;
  i_rev_fwd : forall j l, nget j (s_hrev s) = Some l ->
                          NoDup l /\ forall h, In h l -> dict_get h (s_hcache s) = Some j;
  i_name : forall j n, nget j (s_nrev s) = Some n -> dict_get n (s_ncache s) = Some j
}.

Record Inv (s : st) : Prop := {
  i_nodup : NoDup (map fst (s_users s));
  i_cache : CacheInv s;
  (* coherence: every cached answer is an account that recognises the hostmask *)
  i_coh : forall h j, dict_get h (s_hcache s) = Some j -> R s h j
}.

Definition init : st := St [] [] [] [] [] 0.

Lemma Inv_init : Inv init.
Proof.
  split; [constructor| |intros h j H; discriminate].
  split; intros; discriminate.
Qed.

(* ---- invalidateCache(id) ---- *)
Definition drop_loop (s1 : st) (id : N) :=
  fix go (hs : list str) (c : list (str * N)) : res st :=
    match hs with
    | [] => Ok (St (s_users s1) c (ndel id (s_hrev s1)) (s_ncache s1) (s_nrev s1) (s_next s1))
    | h :: r => if dict_has h c then go r (sdel h c) else Raise KeyError
    end.

Lemma drop_loop_ok s1 id hs c :
  NoDup hs -> (forall h, In h hs -> dict_get h c = Some id) ->
  exists c', drop_loop s1 id hs c = Ok (St (s_users s1) c' (ndel id (s_hrev s1)) (s_ncache s1) (s_nrev s1) (s_next s1))
          /\ (forall h j, dict_get h c' = Some j <-> (dict_get h c = Some j /\ ~ In h hs)).
Proof.
  revert c. induction hs as [|h hs IH]; intros c Hnd Hall.
  - exists c. split; [reflexivity|]. intros h j. split; [intro H; split; [exact H|intros []]|intros [H _]; exact H].
  - inversion Hnd as [|? ? Hni Hnd']; subst. cbn [drop_loop]. fold (drop_loop s1 id).
    unfold dict_has. rewrite (Hall h (or_introl eq_refl)).
    destruct (IH (sdel h c) Hnd') as [c' [Hgo Hc']].
    { intros h2 Hin. rewrite dict_get_sdel_other; [apply Hall; right; exact Hin|].
      apply seq_eqb_neq. intro E. subst. contradiction. }
    exists c'. split; [exact Hgo|]. intros h2 j. rewrite Hc'. split.
    + intros [Hg Hn]. apply dict_get_sdel_some in Hg as [Hg Hne]. split; [exact Hg|].
      intros [E|Hin]; [subst; rewrite seq_eqb_refl in Hne; discriminate|contradiction].
    + intros [Hg Hn]. split.
      * rewrite dict_get_sdel_other; [exact Hg|]. apply seq_eqb_neq. intro E. subst. apply Hn. left. reflexivity.
      * intro Hin. apply Hn. right. exact Hin.
Qed.

Lemma invalidate_id_ok s id :
  CacheInv s ->
  exists s', invalidate_id s id = Ok s'
    /\ s_users s' = s_users s /\ s_next s' = s_next s
    /\ (forall h j, dict_get h (s_hcache s') = Some j <-> (dict_get h (s_hcache s) = Some j /\ j <> id))
    /\ CacheInv s'.
Proof.
  intros [I2 I3 I5]. unfold invalidate_id.
  (* name part *)
  set (s1 := match nget id (s_nrev s) with
             | Some n => St (s_users s) (s_hcache s) (s_hrev s) (sdel n (s_ncache s)) (ndel id (s_nrev s)) (s_next s)
             | None => s end).
  assert (Hs1 : (match nget id (s_nrev s) with
                 | Some n => if dict_has n (s_ncache s)
                             then Ok (St (s_users s) (s_hcache s) (s_hrev s) (sdel n (s_ncache s)) (ndel id (s_nrev s)) (s_next s))
                             else Raise KeyError
                 | None => Ok s end) = Ok s1).
  { unfold s1. destruct (nget id (s_nrev s)) as [n|] eqn:En; [|reflexivity].
    unfold dict_has. rewrite (I5 _ _ En). reflexivity. }
  rewrite Hs1. cbn [bind].
  assert (Hu1 : s_users s1 = s_users s /\ s_hcache s1 = s_hcache s /\ s_hrev s1 = s_hrev s /\ s_next s1 = s_next s).
  { unfold s1. destruct (nget id (s_nrev s)); auto. }
  destruct Hu1 as [Hu [Hc [Hr Hn]]].
  assert (I5' : forall j n, nget j (s_nrev s1) = Some n -> dict_get n (s_ncache s1) = Some j).
  { unfold s1. destruct (nget id (s_nrev s)) as [n0|] eqn:En; [|exact I5]. cbn [s_nrev s_ncache].
    intros j n Hj. destruct (N.eq_dec j id) as [E|E]; [subst; rewrite nget_ndel_same in Hj; discriminate|].
    rewrite nget_ndel_other in Hj by exact E. pose proof (I5 _ _ Hj) as Hg.
    rewrite dict_get_sdel_other; [exact Hg|]. apply seq_eqb_neq. intro En2. subst n.
    rewrite (I5 _ _ En) in Hg. inversion Hg. congruence. }
  destruct (nget id (s_hrev s1)) as [hs|] eqn:Eh; rewrite Hr in Eh.
  - destruct (I3 _ _ Eh) as [Hnd Hall].
    fold (drop_loop s1 id). rewrite Hc.
    destruct (drop_loop_ok s1 id hs (s_hcache s) Hnd Hall) as [c' [Hgo Hc']].
    rewrite Hgo. eexists. split; [reflexivity|]. cbn [s_users s_next s_hcache].
    split; [exact Hu|]. split; [exact Hn|].
    assert (Hiff : forall h j, dict_get h c' = Some j <-> dict_get h (s_hcache s) = Some j /\ j <> id).
    { intros h j. rewrite Hc'. split.
      - intros [Hg Hni]. split; [exact Hg|]. intro E. subst j.
        destruct (I2 _ _ Hg) as [l [Hl Hin]]. rewrite Eh in Hl. inversion Hl; subst. contradiction.
      - intros [Hg Hne]. split; [exact Hg|]. intro Hin. rewrite (Hall _ Hin) in Hg. inversion Hg. congruence. }
    split; [exact Hiff|]. split; cbn [s_hcache s_hrev s_ncache s_nrev].
    + intros h j Hg. apply Hiff in Hg as [Hg Hne]. rewrite Hr. rewrite nget_ndel_other by exact Hne. apply I2. exact Hg.
    + intros j l Hl. rewrite Hr in Hl. destruct (N.eq_dec j id) as [E|E]; [subst; rewrite nget_ndel_same in Hl; discriminate|].
      rewrite nget_ndel_other in Hl by exact E. destruct (I3 _ _ Hl) as [Hnd' Hall']. split; [exact Hnd'|].
      intros h Hin. apply Hiff. split; [apply Hall'; exact Hin|exact E].
    + exact I5'.
  - exists s1. split; [reflexivity|]. split; [exact Hu|]. split; [exact Hn|].
    assert (Hiff : forall h j, dict_get h (s_hcache s1) = Some j <-> dict_get h (s_hcache s) = Some j /\ j <> id).
    { intros h j. rewrite Hc. split; [|intros [H _]; exact H]. intro Hg. split; [exact Hg|].
      intro E. subst. destruct (I2 _ _ Hg) as [l [Hl _]]. congruence. }
    split; [exact Hiff|]. split.
    + rewrite Hc, Hr. exact I2.
    + rewrite Hc, Hr. exact I3.
    + exact I5'.
Qed.

(* ---- small helpers ---- *)
Lemma CacheInv_users s us : CacheInv s -> CacheInv (with_users s us).
Proof. intros [A B C]. split; assumption. Qed.

Lemma with_users_self s : with_users s (s_users s) = s.
Proof. destruct s; reflexivity. Qed.

Lemma R_other s s' h j :
  (forall u, nget j (s_users s) = Some u -> nget j (s_users s') = Some u) -> R s h j -> R s' h j.
Proof. intros H [u [Hu Hr]]. exists u. split; [apply H; exact Hu|exact Hr]. Qed.

Definition ids_bounded (s : st) : Prop :=
  forall j u, nget j (s_users s) = Some u -> (j <= s_next s)%N.

(* ---- lookups ---- *)
Lemma recognised_In t now s h id :
  In id (recognised_by t now s h) -> NoDup (map fst (s_users s)) ->
  exists u, nget id (s_users s) = Some u /\ recog t now u h = true.
Proof.
  unfold recognised_by. intros Hin Hnd. apply in_map_iff in Hin as [[i u] [Hi Hin]]. cbn in Hi. subst i.
  apply filter_In in Hin as [Hin Hr]. cbn [snd] in Hr. exists u. split; [apply In_nget; assumption|exact Hr].
Qed.

Lemma lookup_preserves now s h :
  Inv s -> ids_bounded s -> (length (recognised_by 0 now s h) <= 1)%nat ->
  Inv (fst (getUserId 0 now s h)) /\ ids_bounded (fst (getUserId 0 now s h)).
Proof.
  intros [Hnd [I2 I3 I5] Hcoh] Hb Hlen. unfold getUserId.
  destruct (dict_get h (s_hcache s)) as [id0|] eqn:Emiss; [split; [split; [|split|]|]; assumption|].
  pose proof (scan_users_t0 now h (s_users s)) as Hus.
  pose proof (scan_users_ids 0 now h (s_users s)) as Hids.
  destruct (scan_users 0 now h (s_users s)) as [us ids]. cbn [fst snd] in Hus, Hids. subst us.
  fold (recognised_by 0 now s h) in Hids.
  destruct ids as [|[id x] [|e r]].
  - cbn [fst]. rewrite with_users_self. split; [split; [|split|]|]; assumption.
  - cbn [fst]. cbn [map fst] in Hids.
    assert (HR : R s h id).
    { assert (Hin : In id (recognised_by 0 now s h)) by (rewrite <- Hids; left; reflexivity).
      destruct (recognised_In _ _ _ _ _ Hin Hnd) as [u [Hu Hr]]. exists u. split; [exact Hu|]. rewrite <- (recog_t0 now). exact Hr. }
    split; [|exact Hb].
    split; cbn [s_users s_hcache s_hrev s_ncache s_nrev]; [exact Hnd| |].
    + split; cbn [s_users s_hcache s_hrev s_ncache s_nrev]; [| |exact I5].
      * intros h2 j Hg. rewrite dict_get_snoc in Hg.
        destruct (dict_get h2 (s_hcache s)) as [j0|] eqn:Eold.
        -- inversion Hg; subst j0. destruct (I2 _ _ Eold) as [l [Hl Hin]].
           destruct (N.eq_dec j id) as [E|E].
           ++ subst j. rewrite Hl. rewrite nget_nset_same. eexists. split; [reflexivity|].
              destruct (existsb (seq_eqb h) l); [exact Hin|apply in_or_app; left; exact Hin].
           ++ exists l. split; [|exact Hin].
              destruct (nget id (s_hrev s)); rewrite nget_nset_other by exact E; exact Hl.
        -- destruct (seq_eqb h2 h) eqn:Eh; [|discriminate]. inversion Hg; subst j. apply seq_eqb_eq in Eh. subst h2.
           destruct (nget id (s_hrev s)) as [l|] eqn:El; rewrite nget_nset_same; eexists; split; try reflexivity.
           ++ destruct (existsb (seq_eqb h) l) eqn:Ex; [|apply in_or_app; right; left; reflexivity].
              apply existsb_exists in Ex as [y [Hy Hey]]. apply seq_eqb_eq in Hey. subst y. exact Hy.
           ++ left. reflexivity.
      * intros j l Hl. destruct (N.eq_dec j id) as [E|E].
        -- subst j.
           assert (Hnew : forall l0, (nget id (s_hrev s) = Some l0 \/ (nget id (s_hrev s) = None /\ l0 = [])) ->
                   l = (if existsb (seq_eqb h) l0 then l0 else l0 ++ [h]) ->
                   NoDup l /\ forall h2, In h2 l -> dict_get h2 (s_hcache s ++ [(h, id)]) = Some id).
           { intros l0 Hl0 El. 
             assert (Hold : NoDup l0 /\ forall h2, In h2 l0 -> dict_get h2 (s_hcache s) = Some id).
             { destruct Hl0 as [Hl0|[_ Hl0]]; [apply I3; exact Hl0|subst; split; [constructor|intros ? []]]. }
             destruct Hold as [Hnd0 Hall0].
             assert (Hni : ~ In h l0) by (intro Hin; rewrite (Hall0 _ Hin) in Emiss; discriminate).
             assert (Hex : existsb (seq_eqb h) l0 = false).
             { destruct (existsb (seq_eqb h) l0) eqn:Ex; [|reflexivity].
               apply existsb_exists in Ex as [y [Hy Hey]]. apply seq_eqb_eq in Hey. subst y. contradiction. }
             rewrite Hex in El. subst l. split; [apply NoDup_app_snoc; assumption|].
             intros h2 Hin. rewrite dict_get_snoc. apply in_app_iff in Hin as [Hin|[Hin|[]]].
             - rewrite (Hall0 _ Hin). reflexivity.
             - subst h2. rewrite Emiss, seq_eqb_refl. reflexivity. }
           destruct (nget id (s_hrev s)) as [l0|] eqn:El0; rewrite nget_nset_same in Hl; injection Hl as El.
           ++ apply (Hnew l0); [left; reflexivity|symmetry; exact El].
           ++ apply (Hnew []); [right; split; reflexivity|symmetry; exact El].
        -- assert (Hl' : nget j (s_hrev s) = Some l).
           { destruct (nget id (s_hrev s)); rewrite nget_nset_other in Hl by exact E; exact Hl. }
           destruct (I3 _ _ Hl') as [Hnd' Hall']. split; [exact Hnd'|].
           intros h2 Hin. rewrite dict_get_snoc, (Hall' _ Hin). reflexivity.
    + intros h2 j Hg. rewrite dict_get_snoc in Hg.
      destruct (dict_get h2 (s_hcache s)) as [j0|] eqn:Eold.
      * inversion Hg; subst j0. destruct (Hcoh _ _ Eold) as [u Hu]. exists u. exact Hu.
      * destruct (seq_eqb h2 h) eqn:Eh; [|discriminate]. inversion Hg; subst j. apply seq_eqb_eq in Eh. subst h2.
        destruct HR as [u Hu]. exists u. exact Hu.
  - exfalso. rewrite <- Hids in Hlen. cbn in Hlen. lia.
Qed.

(* ---- setUser ---- *)
Lemma name_lookup_facts s0 name :
  CacheInv s0 ->
  CacheInv (fst (getUserIdByName s0 name))
  /\ s_users (fst (getUserIdByName s0 name)) = s_users s0
  /\ s_hcache (fst (getUserIdByName s0 name)) = s_hcache s0
  /\ s_hrev (fst (getUserIdByName s0 name)) = s_hrev s0
  /\ s_next (fst (getUserIdByName s0 name)) = s_next s0.
Proof.
  intros HC. pose proof HC as [I2 I3 I5]. unfold getUserIdByName.
  destruct (dict_get (C03.Model.lower name) (s_ncache s0)) as [i|] eqn:Ec; [cbn [fst]; auto|].
  destruct (find_name (C03.Model.lower name) (s_users s0)) as [i|]; [|cbn [fst]; auto].
  cbn [fst s_users s_hcache s_hrev s_next]. split; [|auto].
  split; cbn [s_hcache s_hrev]; [exact I2|exact I3|].
  cbn [s_nrev s_ncache]. intros j n Hj.
  destruct (N.eq_dec j i) as [E|E].
  - subst j. rewrite nget_nset_same in Hj. inversion Hj; subst n. apply dict_get_set_same.
  - rewrite nget_nset_other in Hj by exact E. pose proof (I5 _ _ Hj) as Hg.
    rewrite dict_get_set_other; [exact Hg|]. apply seq_eqb_neq. intro En. subst n. congruence.
Qed.

Lemma rollback_restores id u users :
  rollback (uget id users) id (match uget id users with Some _ => uset id u users | None => users end) = users.
Proof.
  unfold rollback. rewrite !uget_nget, ?uset_nset.
  destruct (nget id users) as [u0|] eqn:E; [|reflexivity].
  rewrite !uset_nset, nset_nset_same. apply nset_noop. exact E.
Qed.

Lemma Inv_same_users s s' :
  Inv s -> s_users s' = s_users s -> s_hcache s' = s_hcache s -> CacheInv s' -> Inv s'.
Proof.
  intros [Hnd _ Hcoh] Hu Hc HC. split; [rewrite Hu; exact Hnd|exact HC|].
  intros h j Hg. rewrite Hc in Hg. destruct (Hcoh _ _ Hg) as [x [Hx Hr]]. exists x. rewrite Hu. auto.
Qed.

Lemma set_preserves now s id u :
  Inv s -> ids_bounded s ->
  Inv (fst (setUser 0 now s id u)) /\ ids_bounded (fst (setUser 0 now s id u)).
Proof.
  intros HI Hb. pose proof HI as [Hnd HC Hcoh].
  unfold setUser.
  set (us0 := match uget id (s_users s) with Some _ => uset id u (s_users s) | None => s_users s end).
  set (s0 := St us0 (s_hcache s) (s_hrev s) (s_ncache s) (s_nrev s) (N.max (s_next s) id)).
  assert (HC0 : CacheInv s0) by (destruct HC as [A B C]; split; assumption).
  destruct (name_lookup_facts s0 (u_name u) HC0) as [HC1 [Hu1 [Hc1 [Hr1 Hn1]]]].
  destruct (getUserIdByName s0 (u_name u)) as [s1 r]. cbn [fst] in HC1, Hu1, Hc1, Hr1, Hn1.
  change (s_users s0) with us0 in Hu1. change (s_hcache s0) with (s_hcache s) in Hc1.
  change (s_hrev s0) with (s_hrev s) in Hr1. change (s_next s0) with (N.max (s_next s) id) in Hn1.
  assert (Hroll : rollback (uget id (s_users s)) id us0 = s_users s) by apply rollback_restores.
  assert (Hbound_old : forall s', s_users s' = s_users s -> s_next s' = N.max (s_next s) id -> ids_bounded s').
  { intros s' Hu' Hn' j x Hj. rewrite Hu' in Hj. rewrite Hn'. specialize (Hb _ _ Hj). lia. }
  destruct (match r with Ok other => negb (N.eqb other id) | Raise _ => false end).
  { cbn [fst]. rewrite Hu1, Hroll. split.
    - apply (Inv_same_users s); [exact HI|reflexivity|exact Hc1|apply CacheInv_users; exact HC1].
    - apply Hbound_old; [reflexivity|exact Hn1]. }
  pose proof (overlap_all_t0 now id (u_masks u) (s_users s1)) as Hov.
  destruct (overlap_all 0 now id (u_masks u) (s_users s1)) as [us1 dup]. cbn [fst] in Hov. subst us1.
  destruct dup.
  { cbn [fst]. rewrite Hu1, Hroll. split.
    - apply (Inv_same_users s); [exact HI|reflexivity|exact Hc1|apply CacheInv_users; apply CacheInv_users; exact HC1].
    - apply Hbound_old; [reflexivity|exact Hn1]. }
  rewrite with_users_self.
  destruct (invalidate_id_ok s1 id HC1) as [s3 [Hinv [Hu3 [Hn3 [Hiff HC3]]]]].
  rewrite Hinv. cbn [fst].
  assert (Hfinal : uset id u (s_users s3) = nset id u (s_users s)).
  { rewrite Hu3, Hu1. unfold us0. rewrite !uget_nget, !uset_nset.
    destruct (nget id (s_users s)); [apply nset_nset_same|reflexivity]. }
  rewrite Hfinal. split.
  - split; cbn [s_users s_hcache].
    + apply NoDup_nset. exact Hnd.
    + apply CacheInv_users. exact HC3.
    + intros h j Hg. apply Hiff in Hg as [Hg Hne]. rewrite Hc1 in Hg.
      apply (R_other s); [|apply Hcoh; exact Hg].
      intros x Hx. unfold with_users. cbn [s_users]. rewrite nget_nset_other by exact Hne. exact Hx.
  - intros j x Hj. unfold with_users in *. cbn [s_users s_next] in *. rewrite Hn3, Hn1.
    destruct (N.eq_dec j id) as [E|E]; [subst; lia|].
    rewrite nget_nset_other in Hj by exact E. specialize (Hb _ _ Hj). lia.
Qed.

(* ---- delUser / newUser / addAuth ---- *)
Lemma del_preserves s id :
  Inv s -> ids_bounded s -> Inv (fst (delUser s id)) /\ ids_bounded (fst (delUser s id)).
Proof.
  intros HI Hb. pose proof HI as [Hnd HC Hcoh]. unfold delUser.
  destruct (uget id (s_users s)); [|split; assumption].
  destruct (invalidate_id_ok (with_users s (udel id (s_users s))) id (CacheInv_users _ _ HC))
    as [s1 [Hinv [Hu [Hn [Hiff HC1]]]]].
  rewrite Hinv. cbn [fst]. unfold with_users in Hu, Hn, Hiff. cbn [s_users s_next s_hcache] in Hu, Hn, Hiff.
  split.
  - split.
    + rewrite Hu. rewrite udel_ndel. apply NoDup_ndel. exact Hnd.
    + exact HC1.
    + intros h j Hg. apply Hiff in Hg as [Hg Hne].
      apply (R_other s); [|apply Hcoh; exact Hg].
      intros x Hx. rewrite Hu, udel_ndel. rewrite nget_ndel_other by exact Hne. exact Hx.
  - intros j x Hj. rewrite Hu, udel_ndel in Hj. rewrite Hn.
    destruct (N.eq_dec j id) as [E|E]; [subst; rewrite nget_ndel_same in Hj; discriminate|].
    rewrite nget_ndel_other in Hj by exact E. exact (Hb _ _ Hj).
Qed.

Lemma new_preserves s :
  Inv s -> ids_bounded s -> Inv (fst (newUser s)) /\ ids_bounded (fst (newUser s)).
Proof.
  intros [Hnd [I2 I3 I5] Hcoh] Hb. unfold newUser. cbn [fst]. rewrite uset_nset.
  assert (Hfresh : forall j x, nget j (s_users s) = Some x -> j <> s_next s + 1).
  { intros j x Hj E. specialize (Hb _ _ Hj). lia. }
  split.
  - split; cbn [s_users s_hcache s_hrev s_ncache s_nrev].
    + apply NoDup_nset. exact Hnd.
    + split; assumption.
    + intros h j Hg. destruct (Hcoh _ _ Hg) as [x [Hx Hr]]. exists x. split; [|exact Hr].
      cbn [s_users]. rewrite nget_nset_other; [exact Hx|]. eapply Hfresh. exact Hx.
  - intros j x Hj. cbn [s_users s_next] in *.
    destruct (N.eq_dec j (s_next s + 1)) as [E|E]; [subst; lia|].
    rewrite nget_nset_other in Hj by exact E. specialize (Hb _ _ Hj). lia.
Qed.

Lemma addAuth_keeps_recog now u h u' h2 :
  addAuth now u h = Ok u' -> recog0 u h2 = true -> recog0 u' h2 = true.
Proof.
  unfold addAuth. destruct (truthy (first_match (u_masks u) h) || negb (u_secure u)); [|discriminate].
  intro H. inversion H; subst u'. unfold recog0, mask_match. cbn [u_auth u_masks].
  rewrite dedupe_masks. rewrite existsb_app. intro Hr.
  apply orb_true_iff in Hr as [Hr|Hr]; [rewrite Hr; reflexivity|rewrite Hr; apply orb_true_r].
Qed.

Lemma auth_preserves now s id h :
  Inv s -> ids_bounded s -> Inv (fst (opAddAuth now s id h)) /\ ids_bounded (fst (opAddAuth now s id h)).
Proof.
  intros HI Hb. pose proof HI as [Hnd HC Hcoh]. unfold opAddAuth. rewrite uget_nget.
  destruct (nget id (s_users s)) as [u|] eqn:Eu; [|split; assumption].
  destruct (addAuth now u h) as [u'|e] eqn:Ea; [|split; assumption].
  cbn [fst]. rewrite uset_nset. unfold with_users. split.
  - split; cbn [s_users s_hcache].
    + apply NoDup_nset. exact Hnd.
    + destruct HC as [A B C]. split; assumption.
    + intros h2 j Hg. destruct (Hcoh _ _ Hg) as [x [Hx Hr]].
      destruct (N.eq_dec j id) as [E|E].
      * subst j. rewrite Eu in Hx. inversion Hx; subst x. exists u'. split; [cbn [s_users]; apply nget_nset_same|].
        eapply addAuth_keeps_recog; eassumption.
      * exists x. split; [cbn [s_users]; rewrite nget_nset_other by exact E; exact Hx|exact Hr].
  - intros j x Hj. cbn [s_users s_next] in *.
    destruct (N.eq_dec j id) as [E|E]; [subst; exact (Hb _ _ Eu)|].
    rewrite nget_nset_other in Hj by exact E. exact (Hb _ _ Hj).
Qed.

(* ---- clearAuth ---- *)
Lemma invalidate_h_ok s h :
  CacheInv s ->
  exists s', invalidate_h s h = Ok s'
    /\ s_users s' = s_users s /\ s_next s' = s_next s
    /\ (forall h2 j, dict_get h2 (s_hcache s') = Some j -> dict_get h2 (s_hcache s) = Some j)
    /\ dict_get h (s_hcache s') = None
    /\ CacheInv s'.
Proof.
  intros HC. pose proof HC as [I2 I3 I5]. unfold invalidate_h.
  destruct (dict_get h (s_hcache s)) as [id|] eqn:Eg.
  2:{ exists s. split; [reflexivity|]. split; [reflexivity|]. split; [reflexivity|]. split; [auto|]. split; [exact Eg|exact HC]. }
  destruct (I2 _ _ Eg) as [l [Hl Hin]]. rewrite Hl.
  assert (Hex : existsb (seq_eqb h) l = true).
  { apply existsb_exists. exists h. split; [exact Hin|apply seq_eqb_refl]. }
  rewrite Hex.
  destruct (I3 _ _ Hl) as [Hnd Hall].
  set (l' := filter (fun x => negb (seq_eqb h x)) l).
  set (smid := St (s_users s) (sdel h (s_hcache s))
                  (match l' with [] => ndel id (s_hrev s) | _ => nset id l' (s_hrev s) end)
                  (s_ncache s) (s_nrev s) (s_next s)).
  assert (Hl'in : forall x, In x l' <-> In x l /\ x <> h).
  { intro x. unfold l'. rewrite filter_In. split; intros [A B]; split; auto.
    - intro E. subst. rewrite seq_eqb_refl in B. discriminate.
    - apply negb_true_iff. apply seq_eqb_neq. congruence. }
  assert (HCmid : CacheInv smid).
  { unfold smid. split; cbn [s_hcache s_hrev s_ncache s_nrev].
    - intros h2 j Hg. apply dict_get_sdel_some in Hg as [Hg Hne]. apply seq_eqb_neq in Hne.
      destruct (I2 _ _ Hg) as [l2 [Hl2 Hin2]].
      destruct (N.eq_dec j id) as [E|E].
      + subst j. rewrite Hl in Hl2. inversion Hl2; subst l2.
        assert (Hin' : In h2 l') by (apply Hl'in; auto).
        destruct l' as [|y r] eqn:El'; [destruct Hin'|]. rewrite nget_nset_same. eexists. split; [reflexivity|exact Hin'].
      + exists l2. split; [|exact Hin2].
        destruct l'; [rewrite nget_ndel_other by exact E|rewrite nget_nset_other by exact E]; exact Hl2.
    - intros j l2 Hl2. destruct (N.eq_dec j id) as [E|E].
      + subst j. destruct l' as [|y r] eqn:El'; [rewrite nget_ndel_same in Hl2; discriminate|].
        rewrite nget_nset_same in Hl2. inversion Hl2; subst l2. split.
        * rewrite <- El'. unfold l'. apply NoDup_filter. exact Hnd.
        * intros h2 Hin2. apply Hl'in in Hin2 as [Hin2 Hne].
          rewrite dict_get_sdel_other; [apply Hall; exact Hin2|]. apply seq_eqb_neq. exact Hne.
      + assert (Hl2' : nget j (s_hrev s) = Some l2).
        { destruct l'; [rewrite nget_ndel_other in Hl2 by exact E|rewrite nget_nset_other in Hl2 by exact E]; exact Hl2. }
        destruct (I3 _ _ Hl2') as [Hnd2 Hall2]. split; [exact Hnd2|].
        intros h2 Hin2. rewrite dict_get_sdel_other; [apply Hall2; exact Hin2|].
        apply seq_eqb_neq. intro E2. subst h2. rewrite (Hall2 _ Hin2) in Eg. inversion Eg. congruence.
    - exact I5. }
  destruct (invalidate_id_ok smid id HCmid) as [s' [Hinv [Hu [Hn [Hiff HC']]]]].
  fold l'. fold smid. rewrite Hinv. exists s'. split; [reflexivity|].
  split; [exact Hu|]. split; [exact Hn|]. split; [|split; [|exact HC']].
  - intros h2 j Hg. apply Hiff in Hg as [Hg _]. unfold smid in Hg. cbn [s_hcache] in Hg.
    apply dict_get_sdel_some in Hg as [Hg _]. exact Hg.
  - destruct (dict_get h (s_hcache s')) as [j|] eqn:E; [|reflexivity].
    apply Hiff in E as [E _]. unfold smid in E. cbn [s_hcache] in E. rewrite dict_get_sdel_same in E. discriminate.
Qed.

Lemma invalidate_fold_ok (masks : list (Z * str)) s :
  CacheInv s ->
  exists s', fold_left (fun (acc : res st) e => do a <- acc; invalidate_h a (snd e)) masks (Ok s) = Ok s'
    /\ s_users s' = s_users s /\ s_next s' = s_next s
    /\ (forall h2 j, dict_get h2 (s_hcache s') = Some j -> dict_get h2 (s_hcache s) = Some j)
    /\ (forall e, In e masks -> dict_get (snd e) (s_hcache s') = None)
    /\ CacheInv s'.
Proof.
  revert s. induction masks as [|e masks IH]; intros s HC.
  - exists s. split; [reflexivity|]. split; [reflexivity|]. split; [reflexivity|]. split; [auto|]. split; [intros e []|exact HC].
  - cbn [fold_left bind]. destruct (invalidate_h_ok s (snd e) HC) as [s1 [H1 [Hu1 [Hn1 [Hsub1 [Hnone1 HC1]]]]]].
    rewrite H1. destruct (IH s1 HC1) as [s' [H' [Hu' [Hn' [Hsub' [Hnone' HC']]]]]].
    exists s'. split; [exact H'|]. split; [congruence|]. split; [congruence|].
    split; [intros h2 j Hg; apply Hsub1; apply Hsub'; exact Hg|]. split; [|exact HC'].
    intros e2 [E|Hin]; [subst e2|apply Hnone'; exact Hin].
    destruct (dict_get (snd e) (s_hcache s')) as [j|] eqn:Eg; [|reflexivity].
    apply Hsub' in Eg. congruence.
Qed.

Lemma clear_preserves s id :
  Inv s -> ids_bounded s -> Inv (fst (opClearAuth s id)) /\ ids_bounded (fst (opClearAuth s id)).
Proof.
  intros HI Hb. pose proof HI as [Hnd HC Hcoh]. unfold opClearAuth. rewrite uget_nget.
  destruct (nget id (s_users s)) as [u|] eqn:Eu; [|split; assumption].
  destruct (invalidate_fold_ok (u_auth u) s HC) as [s1 [Hf [Hu1 [Hn1 [Hsub [Hnone HC1]]]]]].
  rewrite Hf. cbn [fst]. rewrite uset_nset, Hu1. unfold with_users. split.
  - split; cbn [s_users s_hcache].
    + apply NoDup_nset. exact Hnd.
    + destruct HC1 as [A B C]. split; assumption.
    + intros h2 j Hg. pose proof (Hsub _ _ Hg) as Hold. destruct (Hcoh _ _ Hold) as [x [Hx Hr]].
      destruct (N.eq_dec j id) as [E|E].
      * subst j. rewrite Eu in Hx. inversion Hx; subst x. eexists. split; [cbn [s_users]; apply nget_nset_same|].
        unfold recog0 in *. cbn [u_auth existsb orb]. unfold mask_match in *. cbn [u_masks].
        apply orb_true_iff in Hr as [Hr|Hr]; [|exact Hr].
        apply existsb_exists in Hr as [e [Hin He]]. apply seq_eqb_eq in He. subst h2.
        rewrite (Hnone _ Hin) in Hg. discriminate.
      * exists x. split; [cbn [s_users]; rewrite nget_nset_other by exact E; exact Hx|exact Hr].
  - intros j x Hj. cbn [s_users s_next] in *. rewrite Hn1.
    destruct (N.eq_dec j id) as [E|E]; [subst; exact (Hb _ _ Eu)|].
    rewrite nget_nset_other in Hj by exact E. exact (Hb _ _ Hj).
Qed.

(* ---- histories ---- *)
(* the domain: every lookup in the history is unambiguous when it happens
   (at most one account recognises the hostmask) *)
Definition op_ok (now : Z) (s : st) (o : op) : Prop :=
  match o with
  | OLookup h => (length (recognised_by 0 now s h) <= 1)%nat
  | _ => True
  end.

Fixpoint run_ops (s : st) (ops : list (Z * op)) : st :=
  match ops with
  | [] => s
  | (now, o) :: r => run_ops (fst (step 0 now s o)) r
  end.

Fixpoint hist_ok (s : st) (ops : list (Z * op)) : Prop :=
  match ops with
  | [] => True
  | (now, o) :: r => op_ok now s o /\ hist_ok (fst (step 0 now s o)) r
  end.

Lemma step_preserves now s o :
  Inv s -> ids_bounded s -> op_ok now s o ->
  Inv (fst (step 0 now s o)) /\ ids_bounded (fst (step 0 now s o)).
Proof.
  intros HI Hb Hok. destruct o as [h|id u|id| |id h|id]; cbn [step].
  - apply lookup_preserves; assumption.
  - pose proof (set_preserves now s id u HI Hb) as H. destruct (setUser 0 now s id u). exact H.
  - pose proof (del_preserves s id HI Hb) as H. destruct (delUser s id). exact H.
  - pose proof (new_preserves s HI Hb) as H. destruct (newUser s). exact H.
  - pose proof (auth_preserves now s id h HI Hb) as H. destruct (opAddAuth now s id h). exact H.
  - pose proof (clear_preserves s id HI Hb) as H. destruct (opClearAuth s id). exact H.
Qed.

Theorem history_preserves s ops :
  Inv s -> ids_bounded s -> hist_ok s ops -> Inv (run_ops s ops) /\ ids_bounded (run_ops s ops).
Proof.
  revert s. induction ops as [|[now o] ops IH]; intros s HI Hb Hok; [auto|].
  cbn [run_ops]. cbn [hist_ok] in Hok. destruct Hok as [Ho Hr].
  destruct (step_preserves now s o HI Hb Ho) as [HI' Hb']. apply IH; assumption.
Qed.

(* a cached answer is exactly what the cache-free recomputation gives *)
Theorem cached_is_recomputed now s h id :
  Inv s -> (length (recognised_by 0 now s h) <= 1)%nat ->
  dict_get h (s_hcache s) = Some id ->
  recognised_by 0 now s h = [id].
Proof.
  intros [Hnd _ Hcoh] Hlen Hg. destruct (Hcoh _ _ Hg) as [u [Hu Hr]].
  assert (Hin : In id (recognised_by 0 now s h)).
  { unfold recognised_by. apply in_map_iff. exists (id, u). split; [reflexivity|].
    apply filter_In. split; [apply nget_In; exact Hu|]. cbn [snd]. rewrite recog_t0. exact Hr. }
  destruct (recognised_by 0 now s h) as [|x [|y r]]; [destruct Hin| |cbn in Hlen; lia].
  destruct Hin as [E|[]]. subst. reflexivity.
Qed.

(* Cache coherence over arbitrary histories on the domain (no login timeout,
   unambiguous lookups): whatever a lookup answers after any history from the
   empty database is what a cache-free recomputation gives. *)
Theorem lookup_coherent_on_domain ops now h id :
  hist_ok init ops ->
  (length (recognised_by 0 now (run_ops init ops) h) <= 1)%nat ->
  snd (getUserId 0 now (run_ops init ops) h) = Ok id ->
  recognised_by 0 now (run_ops init ops) h = [id].
Proof.
  intros Hok Hlen Hres.
  assert (Hb0 : ids_bounded init) by (intros j u Hj; discriminate).
  destruct (history_preserves init ops Inv_init Hb0 Hok) as [HI _].
  set (s := run_ops init ops) in *.
  destruct (dict_get h (s_hcache s)) as [j|] eqn:Eg.
  - unfold getUserId in Hres. rewrite Eg in Hres. cbn [snd] in Hres. inversion Hres; subst j.
    eapply cached_is_recomputed; eassumption.
  - destruct (getUserId 0 now s h) as [s' r] eqn:Eq. cbn [snd] in Hres. subst r.
    eapply lookup_sound_miss; eassumption.
Qed.

(* ---- the pinned code violates coherence outside that domain ---- *)
(* (a) login timeout: identify at t=1000, warm the cache, look up at t=1030 with timeout 10 *)
Definition u1 : user := User [117;49] [[122;122;33;122;122;64;122;122]] [] false.
Definition hAB : str := [97;98;33;120;64;121].
Example expired_login_refuted :
  let s0 := fst (newUser init) in
  let s1 := fst (setUser 10 1000 s0 1 u1) in
  let s2 := fst (opAddAuth 1000 s1 1 hAB) in
  let s3 := fst (getUserId 10 1000 s2 hAB) in
  snd (getUserId 10 1030 s3 hAB) = Ok 1 /\ recognised_by 10 1030 s3 hAB = [].
Proof. vm_compute. auto. Qed.

(* (b) overlapping globs: a*!*@* and *b!*@* are both accepted; ab!x@y is then ambiguous *)
Example overlap_refuted :
  let s0 := fst (newUser (fst (newUser init))) in
  let s1 := fst (setUser 0 1000 s0 1 (User [117;49] [[97;42;33;42;64;42]] [] false)) in
  let '(s2, r) := setUser 0 1000 s1 2 (User [117;50] [[42;98;33;42;64;42]] [] false) in
  r = Ok tt /\ recognised_by 0 1000 s2 hAB = [1; 2].
Proof. vm_compute. auto. Qed.

(* (c) a login from a hostmask another account owns: the cached answer stays *)
Example login_vs_mask_refuted :
  let s0 := fst (newUser (fst (newUser init))) in
  let s1 := fst (setUser 0 1000 s0 1 (User [117;49] [hAB] [] false)) in
  let s2 := fst (setUser 0 1000 s1 2 (User [117;50] [[122;122;33;122;122;64;122;122]] [] false)) in
  let s3 := fst (getUserId 0 1000 s2 hAB) in
  let s4 := fst (opAddAuth 1000 s3 2 hAB) in
  snd (getUserId 0 1000 s4 hAB) = Ok 1 /\ recognised_by 0 1000 s4 hAB = [1; 2].
Proof. vm_compute. auto. Qed.

(* non-vacuity of the domain: a history with registrations, a login, lookups *)
Example hist_ok_example :
  hist_ok init [(1000%Z, ONew); (1000%Z, OSet 1 u1); (1001%Z, OAuth 1 hAB); (1002%Z, OLookup hAB);
                (1003%Z, OLookup [122;122;33;122;122;64;122;122]); (1004%Z, OClear 1); (1005%Z, OLookup hAB)].
Proof. vm_compute. repeat split; lia. Qed.
