(* C04/Coherent.v — cache coherence as an invariant over arbitrary histories,
   on the domain: no login timeout, no ambiguous lookup *)
From Coq Require Import List NArith ZArith Bool Lia.
Import ListNotations.
Require Import Base.Wire Base.PyStr C04.Model C04.Sound C04.Assoc.
Open Scope N_scope.

(* ---- with timeout 0 nothing expires and lookups do not mutate accounts ---- *)
Lemma expired_t0 now w : expired 0 now w = false.
Proof. reflexivity. Qed.

Definition recog0 (u : user) (h : str) : bool :=
  existsb (fun e => seq_eqb h (snd e)) (u_auth u) || mask_match u h.

Lemma recog_t0 now u h : recog 0 now u h = recog0 u h.
Proof.
  reflexivity.
Qed.

Lemma scan_auth_t0 eqf now h auth rem : snd (scan_auth eqf 0 now h auth rem) = rem.
Proof.
  revert rem. induction auth as [|[w m] auth IH]; intro rem; [reflexivity|].
  cbn [scan_auth]. change (negb (Z.eqb 0 0) && Z.ltb (w + 0) now) with false. cbv iota.
  destruct (eqf h m); [reflexivity|apply IH].
Qed.

Lemma checkHostmask_t0 istr now u h ua : fst (checkHostmask istr 0 now u h ua) = u.
Proof.
  unfold checkHostmask. destruct ua; [|reflexivity].
  pose proof (scan_auth_t0 (if istr then ieq else seq_eqb) now h (u_auth u) []) as H.
  destruct (scan_auth (if istr then ieq else seq_eqb) 0 now h (u_auth u) []) as [hit rem].
  cbn [snd] in H. subst rem. cbn [fold_left]. destruct u; destruct hit; reflexivity.
Qed.

Lemma scan_users_t0 now h us : fst (scan_users 0 now h us) = us.
Proof.
  induction us as [|[i u] us IH]; [reflexivity|]. cbn [scan_users].
  pose proof (checkHostmask_t0 false now u h true) as Hc.
  destruct (checkHostmask false 0 now u h true) as [u' x]. cbn [fst] in Hc. subst u'.
  destruct (scan_users 0 now h us) as [r' ids]. cbn [fst] in *. subst r'. reflexivity.
Qed.

Lemma overlap_one_t0 now self hm us : fst (overlap_one 0 now self hm us) = us.
Proof.
  induction us as [|[i u] us IH]; [reflexivity|]. cbn [overlap_one].
  destruct (N.eqb i self).
  - destruct (overlap_one 0 now self hm us) as [r' b]. cbn [fst] in *. subst. reflexivity.
  - pose proof (checkHostmask_t0 true now u hm true) as Hc.
    destruct (checkHostmask true 0 now u hm true) as [u' x]. cbn [fst] in Hc. subst u'.
    destruct (truthy x); [reflexivity|].
    destruct (existsb (fun other => hmatch hm other) (u_masks u)); [reflexivity|].
    destruct (overlap_one 0 now self hm us) as [r' b]. cbn [fst] in *. subst. reflexivity.
Qed.

Lemma overlap_all_t0 now self hms us : fst (overlap_all 0 now self hms us) = us.
Proof.
  revert us. induction hms as [|hm hms IH]; intro us; [reflexivity|]. cbn [overlap_all].
  pose proof (overlap_one_t0 now self hm us) as H1.
  destruct (overlap_one 0 now self hm us) as [us' b]. cbn [fst] in H1. subst us'.
  destruct b; [reflexivity|apply IH].
Qed.

(* ---- the invariant ---- *)
(* account j recognises hostmask h (own mask or login) *)
Definition R (s : st) (h : str) (j : N) : Prop :=
  exists u, nget j (s_users s) = Some u /\ recog0 u h = true.

Record CacheInv (s : st) : Prop := {
  i_fwd_rev : forall h j, dict_get h (s_hcache s) = Some j ->
                          exists l, nget j (s_hrev s) = Some l /\ In h l;
  i_rev_fwd : forall j l, nget j (s_hrev s) = Some l ->
                          NoDup l /\ forall h, In h l -> dict_get h (s_hcache s) = Some j;
  i_name : forall j n, nget j (s_nrev s) = Some n -> dict_get n (s_ncache s) = Some j
}.

Record Inv (s : st) : Prop := {
  i_nodup : NoDup (map fst (s_users s));
  i_cache : CacheInv s;
  (* coherence: every cached answer is an account that recognises the hostmask *)
  i_coh : forall h j, dict_get h (s_hcache s) = Some j -> R s h j
}.

Definition init : st := St [] [] [] [] [] 0.

Lemma Inv_init : Inv init.
Proof.
  split; [constructor| |intros h j H; discriminate].
  split; intros; discriminate.
Qed.

(* ---- invalidateCache(id) ---- *)
Definition drop_loop (s1 : st) (id : N) :=
  fix go (hs : list str) (c : list (str * N)) : res st :=
    match hs with
    | [] => Ok (St (s_users s1) c (ndel id (s_hrev s1)) (s_ncache s1) (s_nrev s1) (s_next s1))
    | h :: r => if dict_has h c then go r (sdel h c) else Raise KeyError
    end.

Lemma drop_loop_ok s1 id hs c :
  NoDup hs -> (forall h, In h hs -> dict_get h c = Some id) ->
  exists c', drop_loop s1 id hs c = Ok (St (s_users s1) c' (ndel id (s_hrev s1)) (s_ncache s1) (s_nrev s1) (s_next s1))
          /\ (forall h j, dict_get h c' = Some j <-> (dict_get h c = Some j /\ ~ In h hs)).
Proof.
  revert c. induction hs as [|h hs IH]; intros c Hnd Hall.
  - exists c. split; [reflexivity|]. intros h j. split; [intro H; split; [exact H|intros []]|intros [H _]; exact H].
  - inversion Hnd as [|? ? Hni Hnd']; subst. cbn [drop_loop]. fold (drop_loop s1 id).
    unfold dict_has. rewrite (Hall h (or_introl eq_refl)).
    destruct (IH (sdel h c) Hnd') as [c' [Hgo Hc']].
    { intros h2 Hin. rewrite dict_get_sdel_other; [apply Hall; right; exact Hin|].
      apply seq_eqb_neq. intro E. subst. contradiction. }
    exists c'. split; [exact Hgo|]. intros h2 j. rewrite Hc'. split.
    + intros [Hg Hn]. apply dict_get_sdel_some in Hg as [Hg Hne]. split; [exact Hg|].
      intros [E|Hin]; [subst; rewrite seq_eqb_refl in Hne; discriminate|contradiction].
    + intros [Hg Hn]. split.
      * rewrite dict_get_sdel_other; [exact Hg|]. apply seq_eqb_neq. intro E. subst. apply Hn. left. reflexivity.
      * intro Hin. apply Hn. right. exact Hin.
Qed.

Lemma invalidate_id_ok s id :
  CacheInv s ->
  exists s', invalidate_id s id = Ok s'
    /\ s_users s' = s_users s /\ s_next s' = s_next s
    /\ (forall h j, dict_get h (s_hcache s') = Some j <-> (dict_get h (s_hcache s) = Some j /\ j <> id))
    /\ CacheInv s'.
Proof.
  intros [I2 I3 I5]. unfold invalidate_id.
  (* name part *)
  set (s1 := match nget id (s_nrev s) with
             | Some n => St (s_users s) (s_hcache s) (s_hrev s) (sdel n (s_ncache s)) (ndel id (s_nrev s)) (s_next s)
             | None => s end).
  assert (Hs1 : (match nget id (s_nrev s) with
                 | Some n => if dict_has n (s_ncache s)
                             then Ok (St (s_users s) (s_hcache s) (s_hrev s) (sdel n (s_ncache s)) (ndel id (s_nrev s)) (s_next s))
                             else Raise KeyError
                 | None => Ok s end) = Ok s1).
  { unfold s1. destruct (nget id (s_nrev s)) as [n|] eqn:En; [|reflexivity].
    unfold dict_has. rewrite (I5 _ _ En). reflexivity. }
  rewrite Hs1. cbn [bind].
  assert (Hu1 : s_users s1 = s_users s /\ s_hcache s1 = s_hcache s /\ s_hrev s1 = s_hrev s /\ s_next s1 = s_next s).
  { unfold s1. destruct (nget id (s_nrev s)); auto. }
  destruct Hu1 as [Hu [Hc [Hr Hn]]].
  assert (I5' : forall j n, nget j (s_nrev s1) = Some n -> dict_get n (s_ncache s1) = Some j).
  { unfold s1. destruct (nget id (s_nrev s)) as [n0|] eqn:En; [|exact I5]. cbn [s_nrev s_ncache].
    intros j n Hj. destruct (N.eq_dec j id) as [E|E]; [subst; rewrite nget_ndel_same in Hj; discriminate|].
    rewrite nget_ndel_other in Hj by exact E. pose proof (I5 _ _ Hj) as Hg.
    rewrite dict_get_sdel_other; [exact Hg|]. apply seq_eqb_neq. intro En2. subst n.
    rewrite (I5 _ _ En) in Hg. inversion Hg. congruence. }
  destruct (nget id (s_hrev s1)) as [hs|] eqn:Eh; rewrite Hr in Eh.
  - destruct (I3 _ _ Eh) as [Hnd Hall].
    fold (drop_loop s1 id). rewrite Hc.
    destruct (drop_loop_ok s1 id hs (s_hcache s) Hnd Hall) as [c' [Hgo Hc']].
    rewrite Hgo. eexists. split; [reflexivity|]. cbn [s_users s_next s_hcache].
    split; [exact Hu|]. split; [exact Hn|].
    assert (Hiff : forall h j, dict_get h c' = Some j <-> dict_get h (s_hcache s) = Some j /\ j <> id).
    { intros h j. rewrite Hc'. split.
      - intros [Hg Hni]. split; [exact Hg|]. intro E. subst j.
        destruct (I2 _ _ Hg) as [l [Hl Hin]]. rewrite Eh in Hl. inversion Hl; subst. contradiction.
      - intros [Hg Hne]. split; [exact Hg|]. intro Hin. rewrite (Hall _ Hin) in Hg. inversion Hg. congruence. }
    split; [exact Hiff|]. split; cbn [s_hcache s_hrev s_ncache s_nrev].
    + intros h j Hg. apply Hiff in Hg as [Hg Hne]. rewrite Hr. rewrite nget_ndel_other by exact Hne. apply I2. exact Hg.
    + intros j l Hl. rewrite Hr in Hl. destruct (N.eq_dec j id) as [E|E]; [subst; rewrite nget_ndel_same in Hl; discriminate|].
      rewrite nget_ndel_other in Hl by exact E. destruct (I3 _ _ Hl) as [Hnd' Hall']. split; [exact Hnd'|].
      intros h Hin. apply Hiff. split; [apply Hall'; exact Hin|exact E].
    + exact I5'.
  - exists s1. split; [reflexivity|]. split; [exact Hu|]. split; [exact Hn|].
    assert (Hiff : forall h j, dict_get h (s_hcache s1) = Some j <-> dict_get h (s_hcache s) = Some j /\ j <> id).
    { intros h j. rewrite Hc. split; [|intros [H _]; exact H]. intro Hg. split; [exact Hg|].
      intro E. subst. destruct (I2 _ _ Hg) as [l [Hl _]]. congruence. }
    split; [exact Hiff|]. split.
    + rewrite Hc, Hr. exact I2.
    + rewrite Hc, Hr. exact I3.
    + exact I5'.
Qed.
