(* C04/Coherent.v — cache coherence as an invariant over arbitrary histories,
   for every login timeout and every clock.  Domain left: an accepted setUser
   must not make the account match a hostmask that another account recognises
   (the overlap test of setUser is literal: finding F6). *)
From Coq Require Import List NArith ZArith Bool Lia.
Import ListNotations.
Require Import Base.Wire Base.PyStr C04.Model C04.Sound C04.Assoc C04.Prune C04.Shrink.
Open Scope N_scope.

(* ---- the invariant ---- *)
(* every hostmask -> id key of _hostmaskCache is listed in the id -> set key
   (what invalidateCache(id) relies on to find them).  The converse does not
   hold: when the dictionary fills up between the two writes of an entry only
   the id -> set half survives (CacheDict eviction), and the name cache is not
   needed for the hostmask lookups at all. *)
Record CacheInv (s : st) : Prop := {
  i_fwd_rev : forall h j, dict_get h (s_hcache s) = Some j ->
                          exists l, nget j (s_hrev s) = Some l /\ In h l
}.

(* account j does not recognise h, by mask or by any login (expired or not) *)
Definition D1 (us : list (N * user)) (j : N) (h : str) : Prop :=
  forall u, nget j us = Some u -> recog_ever u h = false.
(* no account other than j does *)
Definition D2 (us : list (N * user)) (j : N) (h : str) : Prop :=
  forall k u, k <> j -> nget k us = Some u -> recog_ever u h = false.
(* coherence: a cached answer j for h is the only possible answer: whenever j
   recognises h (which the lookup re-checks), nobody else does *)
Definition Coh (us : list (N * user)) (c : list (str * N)) : Prop :=
  forall h j, dict_get h c = Some j -> D1 us j h \/ D2 us j h.
Definition Live (us : list (N * user)) (c : list (str * N)) : Prop :=
  forall h j, dict_get h c = Some j -> nget j us <> None.

Record Inv (s : st) : Prop := {
  i_nodup : NoDup (map fst (s_users s));
  i_cache : CacheInv s;
  i_live : Live (s_users s) (s_hcache s);
  i_coh : Coh (s_users s) (s_hcache s)
}.

Definition init : st := St [] [] [] [] [] 0.

Lemma Inv_init : Inv init.
Proof.
  split; [constructor| |intros h j H; discriminate|intros h j H; discriminate].
  split; intros; discriminate.
Qed.

Definition ids_bounded (s : st) : Prop :=
  forall j u, nget j (s_users s) = Some u -> (j <= s_next s)%N.

Lemma D1_pruned us us' j h : pruned us us' -> D1 us j h -> D1 us' j h.
Proof.
  intros Hp H u' Hu'. destruct (pruned_nget _ _ _ _ Hp Hu') as [u [Hu Hle]].
  eapply le_user_false; [exact Hle|apply H; exact Hu].
Qed.

Lemma D2_pruned us us' j h : pruned us us' -> D2 us j h -> D2 us' j h.
Proof.
  intros Hp H k u' Hk Hu'. destruct (pruned_nget _ _ _ _ Hp Hu') as [u [Hu Hle]].
  eapply le_user_false; [exact Hle|eapply H; eassumption].
Qed.

Definition csub (c' c : list (str * N)) : Prop := forall h j, dict_get h c' = Some j -> dict_get h c = Some j.

Lemma Coh_sub us us' c c' : Coh us c -> pruned us us' -> csub c' c -> Coh us' c'.
Proof.
  intros H Hp Hs h j Hg. destruct (H _ _ (Hs _ _ Hg)) as [A|B]; [left; eapply D1_pruned|right; eapply D2_pruned]; eassumption.
Qed.

Lemma Live_sub us us' c c' : Live us c -> pruned us us' -> csub c' c -> Live us' c'.
Proof.
  intros HL Hp Hs h j Hg Hn. apply (HL _ _ (Hs _ _ Hg)).
  destruct (nget j us) as [u|] eqn:E; [|reflexivity].
  destruct (pruned_nget_fwd _ _ _ _ Hp E) as [u' [Hu' _]]. congruence.
Qed.

Lemma Inv_sub s s' :
  Inv s -> pruned (s_users s) (s_users s') -> CacheInv s' -> csub (s_hcache s') (s_hcache s) -> Inv s'.
Proof.
  intros [Hnd _ HL Hc] Hp HC Hs. split.
  - rewrite (pruned_keys _ _ Hp). exact Hnd.
  - exact HC.
  - eapply Live_sub; eassumption.
  - eapply Coh_sub; eassumption.
Qed.

Lemma bounded_pruned s s' :
  ids_bounded s -> pruned (s_users s) (s_users s') -> (s_next s <= s_next s')%N -> ids_bounded s'.
Proof.
  intros Hb Hp Hn j u' Hj. destruct (pruned_nget _ _ _ _ Hp Hj) as [u [Hu _]]. specialize (Hb _ _ Hu). lia.
Qed.

Lemma csub_refl c : csub c c.
Proof. intros h j H. exact H. Qed.

(* ---- invalidateCache(id) ---- *)
Lemma sdel_fold_get (hs : list str) : forall (c : list (str * N)) h j,
  dict_get h (fold_left (fun c0 h0 => sdel h0 c0) hs c) = Some j <-> (dict_get h c = Some j /\ ~ In h hs).
Proof.
  induction hs as [|h0 hs IH]; intros c h j; cbn [fold_left].
  - split; [intro H; split; [exact H|intros []]|intros [H _]; exact H].
  - rewrite IH. split.
    + intros [Hg Hn]. apply dict_get_sdel_some in Hg as [Hg Hne]. split; [exact Hg|].
      intros [E|Hin]; [subst; rewrite seq_eqb_refl in Hne; discriminate|contradiction].
    + intros [Hg Hn]. split.
      * rewrite dict_get_sdel_other; [exact Hg|]. apply seq_eqb_neq. intro E. subst. apply Hn. left. reflexivity.
      * intro Hin. apply Hn. right. exact Hin.
Qed.

Lemma invalidate_id_ok s id :
  CacheInv s ->
  exists s', invalidate_id s id = Ok s'
    /\ s_users s' = s_users s /\ s_next s' = s_next s
    /\ (forall h j, dict_get h (s_hcache s') = Some j -> dict_get h (s_hcache s) = Some j /\ j <> id)
    /\ CacheInv s'.
Proof.
  intros [I2]. unfold invalidate_id.
  set (s1 := match nget id (s_nrev s) with
             | Some n => St (s_users s) (s_hcache s) (s_hrev s) (sdel n (s_ncache s)) (ndel id (s_nrev s)) (s_next s)
             | None => s end).
  assert (Hu1 : s_users s1 = s_users s /\ s_hcache s1 = s_hcache s /\ s_hrev s1 = s_hrev s /\ s_next s1 = s_next s).
  { unfold s1. destruct (nget id (s_nrev s)); auto. }
  destruct Hu1 as [Hu [Hc [Hr Hn]]].
  destruct (nget id (s_hrev s1)) as [hs|] eqn:Eh; rewrite Hr in Eh.
  - eexists. split; [reflexivity|]. cbn [s_users s_next s_hcache s_hrev]. split; [exact Hu|]. split; [exact Hn|].
    rewrite Hc, Hr.
    assert (Hsub : forall h j, dict_get h (fold_left (fun c0 h0 => sdel h0 c0) hs (s_hcache s)) = Some j ->
                               dict_get h (s_hcache s) = Some j /\ j <> id).
    { intros h j Hg. apply sdel_fold_get in Hg as [Hg Hni]. split; [exact Hg|]. intro E. subst j.
      destruct (I2 _ _ Hg) as [l [Hl Hin]]. rewrite Eh in Hl. inversion Hl; subst. contradiction. }
    split; [exact Hsub|]. split. cbn [s_hcache s_hrev].
    intros h j Hg. apply Hsub in Hg as [Hg Hne]. rewrite nget_ndel_other by exact Hne. apply I2. exact Hg.
  - exists s1. split; [reflexivity|]. split; [exact Hu|]. split; [exact Hn|]. rewrite Hc.
    split.
    + intros h j Hg. split; [exact Hg|]. intro E. subst. destruct (I2 _ _ Hg) as [l [Hl _]]. congruence.
    + split. rewrite Hc, Hr. exact I2.
Qed.

(* ---- small helpers ---- *)
Lemma CacheInv_users s us : CacheInv s -> CacheInv (with_users s us).
Proof. intros [A]. split; assumption. Qed.

Lemma with_users_self s : with_users s (s_users s) = s.
Proof. destruct s; reflexivity. Qed.


Lemma dict_set_absent {A} k (v : A) l : dict_get k l = None -> dict_set k v l = l ++ [(k, v)].
Proof.
  induction l as [|[k' v'] l IH]; [reflexivity|]. cbn [dict_get dict_set app].
  destruct (seq_eqb k k'); [discriminate|]. intro H. rewrite (IH H). reflexivity.
Qed.

(* ---- lookups ---- *)
Lemma dict_get_set k k' (v : N) l : dict_get k' (dict_set k v l) = if seq_eqb k' k then Some v else dict_get k' l.
Proof.
  destruct (seq_eqb k' k) eqn:E; [apply seq_eqb_eq in E; subst; apply dict_get_set_same|apply dict_get_set_other; exact E].
Qed.

(* the two writes of a cached answer, with the eviction rule of CacheDict *)
Lemma hinsert_ok h id c r c' r' :
  hinsert h id c r = (c', r') ->
  (forall h2 j, dict_get h2 c = Some j -> exists l, nget j r = Some l /\ In h2 l) ->
  (forall h2 j, dict_get h2 c' = Some j -> exists l, nget j r' = Some l /\ In h2 l) /\
  (forall h2 j, dict_get h2 c' = Some j -> dict_get h2 c = Some j \/ (h2 = h /\ j = id)).
Proof.
  unfold hinsert. intros E I2.
  set (c1 := fst (if cache_full c r then ([], []) else (c, r))) in *.
  set (r1 := snd (if cache_full c r then ([], []) else (c, r))) in *.
  assert (E1 : (if cache_full c r then ([], []) else (c, r)) = (c1, r1)) by (unfold c1, r1; destruct (cache_full c r); reflexivity).
  rewrite E1 in E.
  assert (I1 : forall h2 j, dict_get h2 c1 = Some j -> (exists l, nget j r1 = Some l /\ In h2 l) /\ dict_get h2 c = Some j).
  { unfold c1, r1. destruct (cache_full c r); cbn [fst snd]; [intros h2 j H; discriminate|]. intros h2 j H. split; [apply I2; exact H|exact H]. }
  assert (Hc2 : forall h2 j, dict_get h2 (dict_set h id c1) = Some j ->
                 (h2 = h /\ j = id) \/ (h2 <> h /\ dict_get h2 c1 = Some j)).
  { intros h2 j H. rewrite dict_get_set in H. destruct (seq_eqb h2 h) eqn:Eh.
    - apply seq_eqb_eq in Eh. inversion H. auto.
    - apply seq_eqb_neq in Eh. auto. }
  destruct (nget id r1) as [l|] eqn:El.
  - inversion E; subst c' r'. clear E. split.
    + intros h2 j Hg. apply Hc2 in Hg as [[E1' E2']|[Hne Hg]].
      * subst. rewrite nget_nset_same. eexists. split; [reflexivity|].
        destruct (existsb (seq_eqb h) l) eqn:Ex; [|apply in_or_app; right; left; reflexivity].
        apply existsb_exists in Ex as [y [Hy Hey]]. apply seq_eqb_eq in Hey. subst y. exact Hy.
      * destruct (I1 _ _ Hg) as [[l2 [Hl2 Hin2]] _]. destruct (N.eq_dec j id) as [Ej|Ej].
        -- subst j. rewrite El in Hl2. inversion Hl2; subst l2. rewrite nget_nset_same. eexists. split; [reflexivity|].
           destruct (existsb (seq_eqb h) l); [exact Hin2|apply in_or_app; left; exact Hin2].
        -- exists l2. split; [rewrite nget_nset_other by exact Ej; exact Hl2|exact Hin2].
    + intros h2 j Hg. apply Hc2 in Hg as [[E1' E2']|[Hne Hg]]; [right; auto|left; apply (I1 _ _ Hg)].
  - destruct (cache_full (dict_set h id c1) r1); inversion E; subst c' r'; clear E.
    + split; intros h2 j Hg; discriminate.
    + split.
      * intros h2 j Hg. apply Hc2 in Hg as [[E1' E2']|[Hne Hg]].
        -- subst. rewrite nget_nset_same. eexists. split; [reflexivity|left; reflexivity].
        -- destruct (I1 _ _ Hg) as [[l2 [Hl2 Hin2]] _]. destruct (N.eq_dec j id) as [Ej|Ej]; [subst; congruence|].
           exists l2. split; [rewrite nget_nset_other by exact Ej; exact Hl2|exact Hin2].
      * intros h2 j Hg. apply Hc2 in Hg as [[E1' E2']|[Hne Hg]]; [right; auto|left; apply (I1 _ _ Hg)].
Qed.

Lemma miss_preserves t now s h :
  Inv s -> ids_bounded s ->
  Inv (fst (lookup_miss t now s h)) /\ ids_bounded (fst (lookup_miss t now s h)).
Proof.
  intros HI Hb. pose proof HI as [Hnd HC HL Hcoh]. pose proof HC as [I2]. unfold lookup_miss.
  pose proof (scan_users_pruned t now h (s_users s)) as Hp.
  pose proof (scan_users_ids t now h (s_users s)) as Hids.
  pose proof (scan_users_clean t now h (s_users s)) as Hclean.
  destruct (scan_users t now h (s_users s)) as [us ids]. cbn [fst snd] in Hp, Hids, Hclean.
  destruct ids as [|[id x] [|e r]].
  - cbn [fst]. split.
    + apply (Inv_sub s); [exact HI|exact Hp|apply CacheInv_users; exact HC|apply csub_refl].
    + apply (bounded_pruned s); [exact Hb|exact Hp|apply N.le_refl].
  - cbn [map fst] in Hids.
    assert (Hid : nget id us <> None).
    { assert (Hin : In id (map fst (filter (fun iu => recog t now (snd iu) h) (s_users s)))) by (rewrite <- Hids; left; reflexivity).
      apply in_map_iff in Hin as [[i u] [Hi Hin]]. cbn in Hi. subst i. apply filter_In in Hin as [Hin _].
      pose proof (In_nget _ _ _ Hnd Hin) as Hu. destruct (pruned_nget_fwd _ _ _ _ Hp Hu) as [u' [Hu' _]]. congruence. }
    destruct (hinsert h id (s_hcache s) (s_hrev s)) as [c' r'] eqn:Ei.
    destruct (hinsert_ok _ _ _ _ _ _ Ei I2) as [I2' Hent]. cbn [fst].
    split; [|apply (bounded_pruned s); [exact Hb|exact Hp|apply N.le_refl]].
    split; cbn [s_users s_hcache s_hrev s_ncache s_nrev].
    + rewrite (pruned_keys _ _ Hp). exact Hnd.
    + split. exact I2'.
    + intros h2 j Hg. apply Hent in Hg as [Hg|[E1 E2]].
      * eapply Live_sub; [exact HL|exact Hp|apply csub_refl|exact Hg].
      * subst. exact Hid.
    + intros h2 j Hg. apply Hent in Hg as [Hg|[E1 E2]].
      * eapply Coh_sub; [exact Hcoh|exact Hp|apply csub_refl|exact Hg].
      * subst. right. intros k u' Hk Hu'. apply (Hclean k u' Hu'). cbn [map fst]. intros [E|[]]. congruence.
  - pose proof (remove_offending_pruned us ((id, x) :: e :: r)) as Hp2.
    destruct (remove_offending us ((id, x) :: e :: r)) as [us' ex]. cbn [fst] in *.
    assert (Hp3 : pruned (s_users s) us') by (eapply pruned_trans; eassumption).
    split.
    + apply (Inv_sub s); [exact HI|exact Hp3|apply CacheInv_users; exact HC|apply csub_refl].
    + apply (bounded_pruned s); [exact Hb|exact Hp3|apply N.le_refl].
Qed.

Lemma invalidate_h_ok s h :
  CacheInv s ->
  exists s', invalidate_h s h = Ok s'
    /\ s_users s' = s_users s /\ s_next s' = s_next s
    /\ (forall h2 j, dict_get h2 (s_hcache s') = Some j -> dict_get h2 (s_hcache s) = Some j)
    /\ dict_get h (s_hcache s') = None
    /\ CacheInv s'.
Proof.
  intros HC. pose proof HC as [I2]. unfold invalidate_h.
  destruct (dict_get h (s_hcache s)) as [id|] eqn:Eg.
  2:{ exists s. split; [reflexivity|]. split; [reflexivity|]. split; [reflexivity|]. split; [auto|]. split; [exact Eg|exact HC]. }
  destruct (I2 _ _ Eg) as [l [Hl Hin]]. rewrite Hl.
  assert (Hex : existsb (seq_eqb h) l = true).
  { apply existsb_exists. exists h. split; [exact Hin|apply seq_eqb_refl]. }
  rewrite Hex.
  set (l' := filter (fun x => negb (seq_eqb h x)) l).
  set (smid := St (s_users s) (sdel h (s_hcache s))
                  (match l' with [] => ndel id (s_hrev s) | _ => nset id l' (s_hrev s) end)
                  (s_ncache s) (s_nrev s) (s_next s)).
  assert (Hl'in : forall x, In x l' <-> In x l /\ x <> h).
  { intro x. unfold l'. rewrite filter_In. split; intros [A B]; split; auto.
    - intro E. subst. rewrite seq_eqb_refl in B. discriminate.
    - apply negb_true_iff. apply seq_eqb_neq. congruence. }
  assert (HCmid : CacheInv smid).
  { unfold smid. split; cbn [s_hcache s_hrev s_ncache s_nrev].
    intros h2 j Hg. apply dict_get_sdel_some in Hg as [Hg Hne]. apply seq_eqb_neq in Hne.
    destruct (I2 _ _ Hg) as [l2 [Hl2 Hin2]].
    destruct (N.eq_dec j id) as [E|E].
    + subst j. rewrite Hl in Hl2. inversion Hl2; subst l2.
      assert (Hin' : In h2 l') by (apply Hl'in; auto).
      destruct l' as [|y r] eqn:El'; [destruct Hin'|]. rewrite nget_nset_same. eexists. split; [reflexivity|exact Hin'].
    + exists l2. split; [|exact Hin2].
      destruct l'; [rewrite nget_ndel_other by exact E|rewrite nget_nset_other by exact E]; exact Hl2. }
  destruct (invalidate_id_ok smid id HCmid) as [s' [Hinv [Hu [Hn [Hiff HC']]]]].
  fold l'. fold smid. rewrite Hinv. exists s'. split; [reflexivity|].
  split; [exact Hu|]. split; [exact Hn|]. split; [|split; [|exact HC']].
  - intros h2 j Hg. apply Hiff in Hg as [Hg _]. unfold smid in Hg. cbn [s_hcache] in Hg.
    apply dict_get_sdel_some in Hg as [Hg _]. exact Hg.
  - destruct (dict_get h (s_hcache s')) as [j|] eqn:E; [|reflexivity].
    apply Hiff in E as [E _]. unfold smid in E. cbn [s_hcache] in E. rewrite dict_get_sdel_same in E. discriminate.
Qed.

Lemma invalidate_fold_ok (masks : list (Z * str)) s :
  CacheInv s ->
  exists s', invalidate_auth s masks = Ok s'
    /\ s_users s' = s_users s /\ s_next s' = s_next s
    /\ (forall h2 j, dict_get h2 (s_hcache s') = Some j -> dict_get h2 (s_hcache s) = Some j)
    /\ (forall e, In e masks -> dict_get (snd e) (s_hcache s') = None)
    /\ CacheInv s'.
Proof.
  unfold invalidate_auth. revert s. induction masks as [|e masks IH]; intros s HC.
  - exists s. split; [reflexivity|]. split; [reflexivity|]. split; [reflexivity|]. split; [auto|]. split; [intros e []|exact HC].
  - cbn [fold_left bind]. destruct (invalidate_h_ok s (snd e) HC) as [s1 [H1 [Hu1 [Hn1 [Hsub1 [Hnone1 HC1]]]]]].
    rewrite H1. destruct (IH s1 HC1) as [s' [H' [Hu' [Hn' [Hsub' [Hnone' HC']]]]]].
    exists s'. split; [exact H'|]. split; [congruence|]. split; [congruence|].
    split; [intros h2 j Hg; apply Hsub1; apply Hsub'; exact Hg|]. split; [|exact HC'].
    intros e2 [E|Hin]; [subst e2|apply Hnone'; exact Hin].
    destruct (dict_get (snd e) (s_hcache s')) as [j|] eqn:Eg; [|reflexivity].
    apply Hsub' in Eg. congruence.
Qed.


Lemma lookup_preserves t now s h :
  Inv s -> ids_bounded s ->
  Inv (fst (getUserId t now s h)) /\ ids_bounded (fst (getUserId t now s h)).
Proof.
  intros HI Hb. pose proof HI as [Hnd HC HL Hcoh]. unfold getUserId.
  destruct (dict_get h (s_hcache s)) as [id|] eqn:Eg; [|apply miss_preserves; assumption].
  rewrite uget_nget. destruct (nget id (s_users s)) as [u|] eqn:Eu; [|exfalso; exact (HL _ _ Eg Eu)].
  pose proof (le_user_checkHostmask false t now u h true) as Hle.
  destruct (checkHostmask false t now u h true) as [u' x]. cbn [fst] in Hle.
  cbv zeta. rewrite uset_nset.
  assert (Hp1 : pruned (s_users s) (s_users (with_users s (nset id u' (s_users s))))).
  { cbn [with_users s_users]. apply (pruned_nset _ _ u); assumption. }
  assert (HI1 : Inv (with_users s (nset id u' (s_users s)))).
  { apply (Inv_sub s); [exact HI|exact Hp1|apply CacheInv_users; exact HC|apply csub_refl]. }
  assert (Hb1 : ids_bounded (with_users s (nset id u' (s_users s)))).
  { apply (bounded_pruned s); [exact Hb|exact Hp1|apply N.le_refl]. }
  destruct (truthy x); [split; assumption|].
  destruct (invalidate_h_ok _ h (i_cache _ HI1)) as [s2 [Hinv [Hu2 [Hn2 [Hsub [Hnone HC2]]]]]].
  rewrite Hinv. apply miss_preserves.
  - apply (Inv_sub (with_users s (nset id u' (s_users s)))); [exact HI1|rewrite Hu2; apply pruned_refl|exact HC2|exact Hsub].
  - apply (bounded_pruned (with_users s (nset id u' (s_users s)))); [exact Hb1|rewrite Hu2; apply pruned_refl|rewrite Hn2; apply N.le_refl].
Qed.

(* ---- setUser ---- *)
Lemma name_lookup_facts s0 name :
  CacheInv s0 ->
  CacheInv (fst (getUserIdByName s0 name))
  /\ s_users (fst (getUserIdByName s0 name)) = s_users s0
  /\ s_hcache (fst (getUserIdByName s0 name)) = s_hcache s0
  /\ s_hrev (fst (getUserIdByName s0 name)) = s_hrev s0
  /\ s_next (fst (getUserIdByName s0 name)) = s_next s0.
Proof.
  intros HC. pose proof HC as [I2]. unfold getUserIdByName.
  destruct (dict_get (C03.Model.lower name) (s_ncache s0)) as [i|] eqn:Ec; [cbn [fst]; auto|].
  destruct (find_name (C03.Model.lower name) (s_users s0)) as [i|]; [|cbn [fst]; auto].
  destruct (ninsert (C03.Model.lower name) i (s_ncache s0) (s_nrev s0)) as [nc nr].
  cbn [fst s_users s_hcache s_hrev s_next]. split; [|auto]. split. exact I2.
Qed.

Lemma rollback_restores id u users :
  rollback (uget id users) id (match uget id users with Some _ => uset id u users | None => users end) = users.
Proof.
  unfold rollback. rewrite !uget_nget, ?uset_nset.
  destruct (nget id users) as [u0|] eqn:E; [|reflexivity].
  rewrite !uset_nset, nset_nset_same. apply nset_noop. exact E.
Qed.


Definition auth_masks (u : user) : list str := map snd (u_auth u).

Lemma no_login_ever u h : ~ In h (auth_masks u) -> mask_match u h = false -> recog_ever u h = false.
Proof.
  intros Hni Hm. unfold recog_ever. rewrite Hm, orb_false_r.
  destruct (existsb (fun e => seq_eqb h (snd e)) (u_auth u)) eqn:E; [|reflexivity].
  exfalso. apply existsb_exists in E as [e [Hin He]]. apply seq_eqb_eq in He. apply Hni.
  unfold auth_masks. apply in_map_iff. exists e. auto.
Qed.

Lemma rollback_pruned id u users us1 :
  pruned (match uget id users with Some _ => uset id u users | None => users end) us1 ->
  pruned users (rollback (uget id users) id us1).
Proof.
  unfold rollback. rewrite !uget_nget. destruct (nget id users) as [u0|] eqn:E; [|exact (fun H => H)].
  rewrite !uset_nset. apply pruned_rollback. exact E.
Qed.

(* setUser from a state in which the stored record of [id] may already have
   been edited in place: the cache has to be coherent only for the hostmasks
   the account is not logged in from (those entries are dropped first). *)
Lemma set_gen t now s id u :
  NoDup (map fst (s_users s)) -> CacheInv s -> Live (s_users s) (s_hcache s) -> ids_bounded s ->
  (forall h j, dict_get h (s_hcache s) = Some j -> ~ In h (auth_masks u) -> D1 (s_users s) j h \/ D2 (s_users s) j h) ->
  (snd (setUser t now s id u) = Ok tt ->
   forall h j, dict_get h (s_hcache s) = Some j -> j <> id -> mask_match u h = true -> D2 (s_users s) j h -> D1 (s_users s) j h) ->
  Inv (fst (setUser t now s id u)) /\ ids_bounded (fst (setUser t now s id u)).
Proof.
  intros Hnd HC HL Hb Hc. unfold setUser.
  set (us0 := match uget id (s_users s) with Some _ => uset id u (s_users s) | None => s_users s end).
  set (s00 := St us0 (s_hcache s) (s_hrev s) (s_ncache s) (s_nrev s) (N.max (s_next s) id)).
  assert (HC00 : CacheInv s00) by (destruct HC as [A]; split; assumption).
  destruct (invalidate_fold_ok (u_auth u) s00 HC00) as [s0 [Hf [Hu0 [Hn0 [Hsub0 [Hnone0 HC0]]]]]].
  rewrite Hf.
  change (s_users s00) with us0 in Hu0. change (s_next s00) with (N.max (s_next s) id) in Hn0.
  change (s_hcache s00) with (s_hcache s) in Hsub0.
  destruct (name_lookup_facts s0 (u_name u) HC0) as [HC1 [Hu1 [Hc1 [Hr1 Hn1]]]].
  destruct (getUserIdByName s0 (u_name u)) as [s1 r]. cbn [fst] in HC1, Hu1, Hc1, Hr1, Hn1.
  rewrite Hu0 in Hu1. rewrite Hn0 in Hn1.
  (* entries that survive the first invalidation are not login hostmasks of u *)
  assert (Hnotauth : forall h j, dict_get h (s_hcache s0) = Some j -> ~ In h (auth_masks u)).
  { intros h j Hg Hin. unfold auth_masks in Hin. apply in_map_iff in Hin as [e [He Hin]]. subst h.
    rewrite (Hnone0 _ Hin) in Hg. discriminate. }
  assert (Hnd0 : NoDup (map fst us0)).
  { unfold us0. rewrite uget_nget. destruct (nget id (s_users s)); [rewrite uset_nset; apply NoDup_nset|]; exact Hnd. }
  (* the two refusals: the stored record is put back *)
  assert (Hfail : forall s' us1, pruned us0 us1 -> CacheInv s' ->
            s_users s' = rollback (uget id (s_users s)) id us1 ->
            csub (s_hcache s') (s_hcache s0) -> s_next s' = N.max (s_next s) id ->
            Inv s' /\ ids_bounded s').
  { intros s' us1 Hp HC' Hu' Hs' Hn'.
    assert (Hp' : pruned (s_users s) (s_users s')) by (rewrite Hu'; apply (rollback_pruned id u); exact Hp).
    split.
    - split.
      + rewrite (pruned_keys _ _ Hp'). exact Hnd.
      + exact HC'.
      + eapply Live_sub; [exact HL|exact Hp'|]. intros h j Hg. apply Hsub0. apply Hs'. exact Hg.
      + intros h j Hg. pose proof (Hs' _ _ Hg) as Hg0.
        destruct (Hc _ _ (Hsub0 _ _ Hg0) (Hnotauth _ _ Hg0)) as [A|B];
          [left; eapply D1_pruned|right; eapply D2_pruned]; eassumption.
    - intros j x Hj. destruct (pruned_nget _ _ _ _ Hp' Hj) as [x0 [Hx0 _]]. rewrite Hn'. specialize (Hb _ _ Hx0). lia. }
  destruct (match r with Ok other => negb (N.eqb other id) | Raise _ => false end).
  { intros _. cbn [fst]. apply (Hfail _ us0).
    - apply pruned_refl.
    - apply CacheInv_users. exact HC1.
    - cbn [with_users s_users]. rewrite Hu1. reflexivity.
    - cbn [with_users s_hcache]. rewrite Hc1. apply csub_refl.
    - cbn [with_users s_next]. exact Hn1. }
  pose proof (overlap_all_pruned t now id (u_masks u) (s_users s1)) as Hov.
  destruct (overlap_all t now id (u_masks u) (s_users s1)) as [us1 dup]. cbn [fst] in Hov. rewrite Hu1 in Hov.
  destruct dup.
  { intros _. cbn [fst]. apply (Hfail _ us1).
    - exact Hov.
    - apply CacheInv_users. apply CacheInv_users. exact HC1.
    - reflexivity.
    - cbn [with_users s_hcache]. rewrite Hc1. apply csub_refl.
    - cbn [with_users s_next]. exact Hn1. }
  destruct (invalidate_id_ok (with_users s1 us1) id (CacheInv_users _ _ HC1)) as [s3 [Hinv [Hu3 [Hn3 [Hiff HC3]]]]].
  rewrite Hinv. cbn [fst snd]. intro Hdom. specialize (Hdom eq_refl).
  cbn [with_users s_users s_next s_hcache] in Hu3, Hn3, Hiff. rewrite Hc1 in Hiff. rewrite Hn1 in Hn3.
  rewrite Hu3, uset_nset.
  (* accounts other than id: a pruned copy of what they were in s *)
  assert (Hother : forall j x, j <> id -> nget j us1 = Some x ->
             exists x0, nget j (s_users s) = Some x0 /\ le_user x x0).
  { intros j x Hne Hj. destruct (pruned_nget _ _ _ _ Hov Hj) as [x0 [Hx0 Hle]]. exists x0. split; [|exact Hle].
    unfold us0 in Hx0. rewrite uget_nget in Hx0. destruct (nget id (s_users s)); [|exact Hx0].
    rewrite uset_nset, nget_nset_other in Hx0 by exact Hne. exact Hx0. }
  assert (HD1 : forall j h, j <> id -> D1 (s_users s) j h -> D1 (nset id u us1) j h).
  { intros j h Hne HD x Hx. rewrite nget_nset_other in Hx by exact Hne.
    destruct (Hother _ _ Hne Hx) as [x0 [Hx0 Hle]]. eapply le_user_false; [exact Hle|apply HD; exact Hx0]. }
  split.
  - split; cbn [with_users s_users s_hcache].
    + apply NoDup_nset. rewrite (pruned_keys _ _ Hov). exact Hnd0.
    + apply CacheInv_users. exact HC3.
    + intros h j Hg. apply Hiff in Hg as [Hg Hne]. rewrite nget_nset_other by exact Hne.
      pose proof (HL _ _ (Hsub0 _ _ Hg)) as Hlive. intro Hn. apply Hlive.
      destruct (nget j (s_users s)) as [x0|] eqn:Ex0; [|reflexivity]. exfalso.
      assert (Hx0' : nget j us0 = Some x0).
      { unfold us0. rewrite uget_nget. destruct (nget id (s_users s)); [|exact Ex0].
        rewrite uset_nset, nget_nset_other by exact Hne. exact Ex0. }
      destruct (pruned_nget_fwd _ _ _ _ Hov Hx0') as [x [Hx _]]. congruence.
    + intros h j Hg. apply Hiff in Hg as [Hg Hne].
      pose proof (Hnotauth _ _ Hg) as Hna.
      destruct (Hc _ _ (Hsub0 _ _ Hg) Hna) as [A|B]; [left; apply HD1; assumption|].
      destruct (mask_match u h) eqn:Em.
      * left. apply HD1; [exact Hne|]. apply (Hdom h j); try assumption. apply Hsub0. exact Hg.
      * right. intros k x Hk Hx. destruct (N.eq_dec k id) as [E|E].
        -- subst k. rewrite nget_nset_same in Hx. inversion Hx; subst x. apply no_login_ever; assumption.
        -- rewrite nget_nset_other in Hx by exact E. destruct (Hother _ _ E Hx) as [x0 [Hx0 Hle]].
           eapply le_user_false; [exact Hle|eapply B; eassumption].
  - intros j x Hj. cbn [with_users s_users s_next] in *. rewrite Hn3.
    destruct (N.eq_dec j id) as [E|E]; [subst; lia|].
    rewrite nget_nset_other in Hj by exact E. destruct (Hother _ _ E Hj) as [x0 [Hx0 _]]. specialize (Hb _ _ Hx0). lia.
Qed.

(* the domain left (finding F6): when setUser accepts (id, u), a hostmask that
   u's masks match and that the stored record of id did not recognise is
   recognised by no other account, by mask or by a login hostmask.  setUser
   itself only tests this literally. *)
Definition set_dom (s : st) (id : N) (u : user) : Prop :=
  forall h j uj, j <> id -> nget j (s_users s) = Some uj -> mask_match u h = true ->
    (forall uo, nget id (s_users s) = Some uo -> recog_ever uo h = false) ->
    recog_ever uj h = false.

Lemma set_preserves t now s id u :
  Inv s -> ids_bounded s -> (snd (setUser t now s id u) = Ok tt -> set_dom s id u) ->
  Inv (fst (setUser t now s id u)) /\ ids_bounded (fst (setUser t now s id u)).
Proof.
  intros [Hnd HC HL Hcoh] Hb Hdom. apply set_gen; try assumption.
  - intros h j Hg _. apply Hcoh. exact Hg.
  - intros Hok h j Hg Hne Hm HD2 uj Huj. apply (Hdom Hok h j uj Hne Huj Hm).
    intros uo Huo. apply (HD2 id uo); [congruence|exact Huo].
Qed.

(* ---- identify: addAuth on the stored record, then setUser ---- *)
Lemma addAuth_shape now u h u' :
  addAuth now u h = Ok u' -> u' = User (u_name u) (u_masks u) (dedupe_auth (u_auth u ++ [(now, h)])) (u_secure u).
Proof.
  unfold addAuth. destruct (truthy (first_match (u_masks u) h) || negb (u_secure u)); [|discriminate].
  intro H. inversion H. reflexivity.
Qed.

Lemma addAuth_ever now u h u' h2 :
  addAuth now u h = Ok u' -> seq_eqb h2 h = false -> recog_ever u' h2 = recog_ever u h2.
Proof.
  intros H Hne. apply addAuth_shape in H. subst u'. unfold recog_ever, mask_match. cbn [u_auth u_masks u_secure].
  rewrite dedupe_masks, existsb_app. cbn [existsb snd]. rewrite Hne, !orb_false_r. reflexivity.
Qed.

Lemma addAuth_mask now u h u' h2 : addAuth now u h = Ok u' -> mask_match u' h2 = mask_match u h2.
Proof. intro H. apply addAuth_shape in H. subst u'. reflexivity. Qed.

Lemma addAuth_login now u h u' : addAuth now u h = Ok u' -> In h (auth_masks u').
Proof.
  intro H. pose proof (addAuth_shape _ _ _ _ H) as Hs.
  assert (E : existsb (fun e => seq_eqb h (snd e)) (u_auth u') = true).
  { subst u'. cbn [u_auth]. rewrite dedupe_masks, existsb_app. cbn [existsb snd]. rewrite seq_eqb_refl. apply orb_true_r. }
  apply existsb_exists in E as [e [Hin He]]. apply seq_eqb_eq in He. subst h.
  unfold auth_masks. apply in_map_iff. exists e. auto.
Qed.

Lemma identify_preserves t now s id h :
  Inv s -> ids_bounded s ->
  Inv (fst (opIdentify t now s id h)) /\ ids_bounded (fst (opIdentify t now s id h)).
Proof.
  intros HI Hb. pose proof HI as [Hnd HC HL Hcoh]. unfold opIdentify. rewrite uget_nget.
  destruct (nget id (s_users s)) as [u|] eqn:Eu; [|split; assumption].
  destruct (addAuth now u h) as [u'|e] eqn:Ea; [|split; assumption].
  rewrite uset_nset.
  assert (Hne : forall h2, ~ In h2 (auth_masks u') -> recog_ever u' h2 = recog_ever u h2).
  { intros h2 Hni. apply (addAuth_ever _ _ _ _ _ Ea).
    destruct (seq_eqb h2 h) eqn:E; [|reflexivity].
    apply seq_eqb_eq in E. subst h2. exfalso. apply Hni. eapply addAuth_login. exact Ea. }
  apply set_gen; cbn [with_users s_users s_hcache s_next].
  - apply NoDup_nset. exact Hnd.
  - apply CacheInv_users. exact HC.
  - intros h2 j Hg. destruct (N.eq_dec j id) as [E|E]; [subst; rewrite nget_nset_same; discriminate|].
    rewrite nget_nset_other by exact E. exact (HL _ _ Hg).
  - intros j x Hj. cbn [with_users s_users s_next] in *. destruct (N.eq_dec j id) as [E|E]; [subst; exact (Hb _ _ Eu)|].
    rewrite nget_nset_other in Hj by exact E. exact (Hb _ _ Hj).
  - intros h2 j Hg Hni. destruct (Hcoh _ _ Hg) as [A|B].
    + left. intros x Hx. destruct (N.eq_dec j id) as [E|E].
      * subst j. rewrite nget_nset_same in Hx. inversion Hx; subst x. rewrite (Hne _ Hni). apply A. exact Eu.
      * rewrite nget_nset_other in Hx by exact E. apply A. exact Hx.
    + right. intros k x Hk Hx. destruct (N.eq_dec k id) as [E|E].
      * subst k. rewrite nget_nset_same in Hx. inversion Hx; subst x. rewrite (Hne _ Hni). apply (B id); assumption.
      * rewrite nget_nset_other in Hx by exact E. apply (B k); assumption.
  - intros _ h2 j Hg Hnej Hm HD2. exfalso.
    assert (Hr : recog_ever u' h2 = false) by (apply (HD2 id); [congruence|apply nget_nset_same]).
    unfold recog_ever in Hr. rewrite Hm, orb_true_r in Hr. discriminate.
Qed.

(* ---- delUser / newUser ---- *)
Lemma del_preserves s id :
  Inv s -> ids_bounded s -> Inv (fst (delUser s id)) /\ ids_bounded (fst (delUser s id)).
Proof.
  intros HI Hb. pose proof HI as [Hnd HC HL Hcoh]. unfold delUser.
  destruct (uget id (s_users s)); [|split; assumption].
  destruct (invalidate_id_ok (with_users s (udel id (s_users s))) id (CacheInv_users _ _ HC))
    as [s1 [Hinv [Hu [Hn [Hiff HC1]]]]].
  rewrite Hinv. cbn [fst]. unfold with_users in Hu, Hn, Hiff. cbn [s_users s_next s_hcache] in Hu, Hn, Hiff.
  assert (Hkeep : forall k x, nget k (s_users s1) = Some x -> nget k (s_users s) = Some x /\ k <> id).
  { intros k x Hx. rewrite Hu, udel_ndel in Hx. destruct (N.eq_dec k id) as [E|E]; [subst; rewrite nget_ndel_same in Hx; discriminate|].
    rewrite nget_ndel_other in Hx by exact E. auto. }
  split.
  - split.
    + rewrite Hu. rewrite udel_ndel. apply NoDup_ndel. exact Hnd.
    + exact HC1.
    + intros h j Hg. apply Hiff in Hg as [Hg Hne]. rewrite Hu, udel_ndel, nget_ndel_other by exact Hne. exact (HL _ _ Hg).
    + intros h j Hg. apply Hiff in Hg as [Hg Hne]. destruct (Hcoh _ _ Hg) as [A|B].
      * left. intros x Hx. apply A. apply (Hkeep _ _ Hx).
      * right. intros k x Hk Hx. apply (B k); [exact Hk|apply (Hkeep _ _ Hx)].
  - intros j x Hj. rewrite Hn. apply Hkeep in Hj as [Hj _]. exact (Hb _ _ Hj).
Qed.

Lemma new_preserves s :
  Inv s -> ids_bounded s -> Inv (fst (newUser s)) /\ ids_bounded (fst (newUser s)).
Proof.
  intros [Hnd [I2] HL Hcoh] Hb. unfold newUser. cbn [fst]. rewrite uset_nset.
  assert (Hfresh : forall j x, nget j (s_users s) = Some x -> j <> s_next s + 1).
  { intros j x Hj E. specialize (Hb _ _ Hj). lia. }
  assert (Hget : forall k x, nget k (nset (s_next s + 1) (User [] [] [] false) (s_users s)) = Some x ->
            nget k (s_users s) = Some x \/ x = User [] [] [] false).
  { intros k x Hx. destruct (N.eq_dec k (s_next s + 1)) as [E|E].
    - subst k. rewrite nget_nset_same in Hx. inversion Hx. auto.
    - rewrite nget_nset_other in Hx by exact E. auto. }
  split.
  - split; cbn [s_users s_hcache s_hrev s_ncache s_nrev].
    + apply NoDup_nset. exact Hnd.
    + split; assumption.
    + intros h j Hg. pose proof (HL _ _ Hg) as Hl. destruct (nget j (s_users s)) as [x|] eqn:Ex; [|congruence].
      rewrite nget_nset_other; [rewrite Ex; discriminate|]. eapply Hfresh. exact Ex.
    + intros h j Hg. destruct (Hcoh _ _ Hg) as [A|B].
      * left. intros x Hx. apply Hget in Hx as [Hx|Hx]; [apply A; exact Hx|subst x; reflexivity].
      * right. intros k x Hk Hx. apply Hget in Hx as [Hx|Hx]; [apply (B k); assumption|subst x; reflexivity].
  - intros j x Hj. cbn [s_users s_next] in *.
    destruct (N.eq_dec j (s_next s + 1)) as [E|E]; [subst; lia|].
    rewrite nget_nset_other in Hj by exact E. specialize (Hb _ _ Hj). lia.
Qed.

(* ---- clearAuth ---- *)
Lemma clear_preserves s id :
  Inv s -> ids_bounded s -> Inv (fst (opClearAuth s id)) /\ ids_bounded (fst (opClearAuth s id)).
Proof.
  intros HI Hb. pose proof HI as [Hnd HC HL Hcoh]. unfold opClearAuth. rewrite uget_nget.
  destruct (nget id (s_users s)) as [u|] eqn:Eu; [|split; assumption].
  destruct (invalidate_fold_ok (u_auth u) s HC) as [s1 [Hf [Hu1 [Hn1 [Hsub [Hnone HC1]]]]]].
  rewrite Hf. cbn [fst]. rewrite uset_nset, Hu1.
  assert (Hp : pruned (s_users s) (nset id (User (u_name u) (u_masks u) [] (u_secure u)) (s_users s))).
  { apply (pruned_nset _ _ u); [exact Eu|]. intros h. unfold recog_ever, mask_match. cbn [u_auth u_masks u_secure existsb andb orb].
    intro H. rewrite H. apply orb_true_r. }
  split.
  - apply (Inv_sub s); [exact HI|exact Hp|apply CacheInv_users; exact HC1|exact Hsub].
  - apply (bounded_pruned s); [exact Hb|exact Hp|cbn [with_users s_next]; rewrite Hn1; apply N.le_refl].
Qed.

(* ---- histories ---- *)
Definition op_ok (t now : Z) (s : st) (o : op) : Prop :=
  match o with
  | OSet id u => snd (setUser t now s id u) = Ok tt -> set_dom s id u
  | _ => True
  end.

Fixpoint run_ops (t : Z) (s : st) (ops : list (Z * op)) : st :=
  match ops with
  | [] => s
  | (now, o) :: r => run_ops t (fst (step t now s o)) r
  end.

Fixpoint hist_ok (t : Z) (s : st) (ops : list (Z * op)) : Prop :=
  match ops with
  | [] => True
  | (now, o) :: r => op_ok t now s o /\ hist_ok t (fst (step t now s o)) r
  end.

Lemma step_preserves t now s o :
  Inv s -> ids_bounded s -> op_ok t now s o ->
  Inv (fst (step t now s o)) /\ ids_bounded (fst (step t now s o)).
Proof.
  intros HI Hb Hok. destruct o as [h|id u|id| |id h|id]; cbn [step].
  - apply lookup_preserves; assumption.
  - pose proof (set_preserves t now s id u HI Hb Hok) as H. destruct (setUser t now s id u). exact H.
  - pose proof (del_preserves s id HI Hb) as H. destruct (delUser s id). exact H.
  - pose proof (new_preserves s HI Hb) as H. destruct (newUser s). exact H.
  - pose proof (identify_preserves t now s id h HI Hb) as H. destruct (opIdentify t now s id h). exact H.
  - pose proof (clear_preserves s id HI Hb) as H. destruct (opClearAuth s id). exact H.
Qed.

Theorem history_preserves t s ops :
  Inv s -> ids_bounded s -> hist_ok t s ops -> Inv (run_ops t s ops) /\ ids_bounded (run_ops t s ops).
Proof.
  revert s. induction ops as [|[now o] ops IH]; intros s HI Hb Hok; [auto|].
  cbn [run_ops]. cbn [hist_ok] in Hok. destruct Hok as [Ho Hr].
  destruct (step_preserves t now s o HI Hb Ho) as [HI' Hb']. apply IH; assumption.
Qed.

(* ---- the lookup, case by case ---- *)
Lemma invalidate_id_users s id s' : invalidate_id s id = Ok s' -> s_users s' = s_users s.
Proof.
  unfold invalidate_id.
  set (s1 := match nget id (s_nrev s) with
             | Some n => St (s_users s) (s_hcache s) (s_hrev s) (sdel n (s_ncache s)) (ndel id (s_nrev s)) (s_next s)
             | None => s end).
  assert (Hu1 : s_users s1 = s_users s) by (unfold s1; destruct (nget id (s_nrev s)); reflexivity).
  destruct (nget id (s_hrev s1)); intro H; inversion H; exact Hu1.
Qed.

Lemma invalidate_h_users s h s' : invalidate_h s h = Ok s' -> s_users s' = s_users s.
Proof.
  unfold invalidate_h. destruct (dict_get h (s_hcache s)) as [id|]; [|intro H; inversion H; reflexivity].
  destruct (nget id (s_hrev s)) as [l|]; [|discriminate].
  destruct (existsb (seq_eqb h) l); [|discriminate].
  intro H. apply invalidate_id_users in H. exact H.
Qed.

(* Either the cached account still accepts the hostmask and is the answer, or
   the answer is the recomputation's, on a state whose accounts recognise
   exactly the same hostmasks now (only expired logins were dropped). *)
Lemma lookup_cases t now s h :
  (exists id u, dict_get h (s_hcache s) = Some id /\ nget id (s_users s) = Some u /\
                recog t now u h = true /\ snd (getUserId t now s h) = Ok id)
  \/ (exists s2, snd (getUserId t now s h) = snd (lookup_miss t now s2 h) /\
                 recognised_by t now s2 h = recognised_by t now s h).
Proof.
  unfold getUserId. destruct (dict_get h (s_hcache s)) as [id|] eqn:Eg; [|right; exists s; auto].
  rewrite uget_nget. destruct (nget id (s_users s)) as [u|] eqn:Eu; [|right; exists s; auto].
  pose proof (checkHostmask_truthy t now u h) as Ht.
  pose proof (checkHostmask_recog false t now u h true h) as Hr.
  destruct (checkHostmask false t now u h true) as [u' x]. cbn [fst snd] in Ht, Hr.
  cbv zeta. rewrite uset_nset.
  assert (Hsame : recognised_by t now (with_users s (nset id u' (s_users s))) h = recognised_by t now s h).
  { unfold recognised_by. cbn [with_users s_users]. apply (recognised_nset _ _ _ _ _ u); assumption. }
  destruct (truthy x).
  - left. exists id, u. cbn [snd]. auto.
  - right. destruct (invalidate_h (with_users s (nset id u' (s_users s))) h) as [s2|e] eqn:Ei.
    + exists s2. split; [reflexivity|]. rewrite <- Hsame. unfold recognised_by.
      rewrite (invalidate_h_users _ _ _ Ei). reflexivity.
    + eexists. split; [reflexivity|exact Hsame].
Qed.

(* For EVERY state, clock and timeout (no invariant needed): an answer is an
   account that recognises the hostmask now - by a mask of its own, or by a
   login from exactly that hostmask that has not timed out. *)
Theorem answer_recognised t now s h id :
  snd (getUserId t now s h) = Ok id ->
  exists u, In (id, u) (s_users s) /\ recog t now u h = true.
Proof.
  intro H. destruct (lookup_cases t now s h) as [[j [u [_ [Hu [Hr Ha]]]]]|[s2 [Ha Hsame]]].
  - rewrite H in Ha. inversion Ha; subst j. exists u. split; [apply nget_In; exact Hu|exact Hr].
  - rewrite H in Ha. symmetry in Ha. apply miss_sound in Ha. rewrite Hsame in Ha.
    assert (Hin : In id (recognised_by t now s h)) by (rewrite Ha; left; reflexivity).
    unfold recognised_by in Hin. apply in_map_iff in Hin as [[i u] [Hi Hin]]. cbn in Hi. subst i.
    apply filter_In in Hin as [Hin Hr]. exists u. auto.
Qed.

(* For every state: whoever is the one account recognising the hostmask is answered. *)
Theorem lookup_complete t now s h id :
  recognised_by t now s h = [id] -> snd (getUserId t now s h) = Ok id.
Proof.
  intro H. destruct (lookup_cases t now s h) as [[j [u [_ [Hu [Hr Ha]]]]]|[s2 [Ha Hsame]]].
  - assert (Hin : In j (recognised_by t now s h)).
    { unfold recognised_by. apply in_map_iff. exists (j, u). split; [reflexivity|].
      apply filter_In. split; [apply nget_In; exact Hu|exact Hr]. }
    rewrite H in Hin. destruct Hin as [E|[]]. subst j. exact Ha.
  - rewrite Ha. apply miss_complete. rewrite Hsame. exact H.
Qed.

Theorem lookup_unknown_any t now s h :
  recognised_by t now s h = [] -> snd (getUserId t now s h) = Raise KeyError.
Proof.
  intro H. destruct (lookup_cases t now s h) as [[j [u [_ [Hu [Hr Ha]]]]]|[s2 [Ha Hsame]]].
  - assert (Hin : In j (recognised_by t now s h)).
    { unfold recognised_by. apply in_map_iff. exists (j, u). split; [reflexivity|].
      apply filter_In. split; [apply nget_In; exact Hu|exact Hr]. }
    rewrite H in Hin. destruct Hin.
  - rewrite Ha. apply miss_unknown. rewrite Hsame. exact H.
Qed.

(* Under the invariant an answer is the ONLY account recognising the hostmask *)
Theorem answer_unique t now s h id :
  Inv s -> snd (getUserId t now s h) = Ok id -> recognised_by t now s h = [id].
Proof.
  intros [Hnd _ _ Hcoh] H. destruct (lookup_cases t now s h) as [[j [u [Hg [Hu [Hr Ha]]]]]|[s2 [Ha Hsame]]].
  - rewrite H in Ha. inversion Ha; subst j. unfold recognised_by.
    apply (recognised_unique (fun x => recog t now x h) _ id u); try assumption.
    intros k uk Hk Huk. destruct (Hcoh _ _ Hg) as [A|B].
    + specialize (A u Hu). rewrite (recog_recog_ever _ _ _ _ Hr) in A. discriminate.
    + specialize (B k uk Hk Huk). destruct (recog t now uk h) eqn:E; [|reflexivity].
      rewrite (recog_recog_ever _ _ _ _ E) in B. discriminate.
  - rewrite H in Ha. symmetry in Ha. apply miss_sound in Ha. rewrite Hsame in Ha. exact Ha.
Qed.

(* Cache coherence over arbitrary histories, for every login timeout and every
   clock: after any history from the empty database in which setUser's overlap
   test was sufficient (set_dom), a lookup answers id exactly when id is the one
   account a cache-free recomputation finds. *)
Theorem lookup_coherent_on_domain t ops now h id :
  hist_ok t init ops ->
  (snd (getUserId t now (run_ops t init ops) h) = Ok id <->
   recognised_by t now (run_ops t init ops) h = [id]).
Proof.
  intro Hok.
  assert (Hb0 : ids_bounded init) by (intros j u Hj; discriminate).
  destruct (history_preserves t init ops Inv_init Hb0 Hok) as [HI _].
  split; [apply answer_unique; exact HI|apply lookup_complete].
Qed.

(* ---- what is left outside the domain (finding F6) ---- *)
Definition u1 : user := User [117;49] [[122;122;33;122;122;64;122;122]] [] false.
Definition hAB : str := [97;98;33;120;64;121].
Definition uA : user := User [117;49] [[97;42;33;42;64;42]] [] false.     (* a*!*@* *)
Definition uB : user := User [117;50] [[42;98;33;42;64;42]] [] false.     (* *b!*@* *)

(* overlapping globs: a*!*@* and *b!*@* are both accepted; ab!x@y, cached for
   account 1, is then answered although two accounts recognise it *)
Definition overlap_ops : list (Z * op) :=
  [(1000%Z, ONew); (1000%Z, ONew); (1000%Z, OSet 1 uA); (1000%Z, OLookup hAB); (1000%Z, OSet 2 uB)].

Example overlap_accepted :
  snd (setUser 0 1000 (run_ops 0 init [(1000%Z, ONew); (1000%Z, ONew); (1000%Z, OSet 1 uA); (1000%Z, OLookup hAB)]) 2 uB) = Ok tt.
Proof. vm_compute. reflexivity. Qed.

Example overlap_refuted :
  snd (getUserId 0 1000 (run_ops 0 init overlap_ops) hAB) = Ok 1 /\
  recognised_by 0 1000 (run_ops 0 init overlap_ops) hAB = [1; 2].
Proof. vm_compute. auto. Qed.

Lemma overlap_outside_domain : ~ hist_ok 0 init overlap_ops.
Proof.
  intro H. cbn [hist_ok overlap_ops] in H. destruct H as [_ [_ [_ [_ [H _]]]]].
  cbn [op_ok] in H. specialize (H overlap_accepted).
  specialize (H hAB 1 uA).
  assert (E : recog_ever uA hAB = false).
  { apply H.
    - discriminate.
    - vm_compute. reflexivity.
    - vm_compute. reflexivity.
    - intros uo Huo. vm_compute in Huo. inversion Huo. vm_compute. reflexivity. }
  vm_compute in E. discriminate.
Qed.

Theorem coherent_refuted :
  exists t ops now h id,
    ~ hist_ok t init ops /\
    snd (getUserId t now (run_ops t init ops) h) = Ok id /\
    recognised_by t now (run_ops t init ops) h <> [id].
Proof.
  exists 0%Z, overlap_ops, 1000%Z, hAB, 1. split; [exact overlap_outside_domain|].
  destruct overlap_refuted as [A B]. split; [exact A|]. rewrite B. discriminate.
Qed.

(* ---- non-vacuity: the witnesses of the repaired findings are inside the domain ---- *)
Lemma set_dom_fresh_mask s id u :
  (forall h j uj, j <> id -> nget j (s_users s) = Some uj -> mask_match u h = true -> recog_ever uj h = false) ->
  set_dom s id u.
Proof. intros H h j uj Hne Hj Hm _. exact (H h j uj Hne Hj Hm). Qed.

Ltac eval_users H :=
  match type of H with nget _ ?us = Some _ => let v := eval vm_compute in us in change us with v in H end.

(* F5: identify at t=1000 with timeout 10, warm the cache, look up at t=1030 *)
Definition expired_ops : list (Z * op) :=
  [(1000%Z, ONew); (1000%Z, OSet 1 u1); (1000%Z, OAuth 1 hAB); (1000%Z, OLookup hAB)].

Example expired_in_domain : hist_ok 10 init expired_ops.
Proof.
  cbn [hist_ok expired_ops op_ok]. repeat split; try exact Logic.I.
  intros _ h j uj Hne Hj. eval_users Hj. cbn [nget] in Hj.
  destruct (N.eqb 1 j) eqn:E; [apply N.eqb_eq in E; congruence|discriminate].
Qed.

Example expired_login_not_answered :
  dict_get hAB (s_hcache (run_ops 10 init expired_ops)) = Some 1 /\
  snd (getUserId 10 1030 (run_ops 10 init expired_ops) hAB) = Raise KeyError /\
  recognised_by 10 1030 (run_ops 10 init expired_ops) hAB = [].
Proof. vm_compute. auto. Qed.

(* F22: ab!x@y is account 1's mask and cached; then it identifies as account 2 *)
Definition u2z : user := User [117;50] [] [] false.
Definition login_ops : list (Z * op) :=
  [(1000%Z, ONew); (1000%Z, ONew); (1000%Z, OSet 1 (User [117;49] [hAB] [] false)); (1000%Z, OSet 2 u2z);
   (1000%Z, OLookup hAB); (1000%Z, OAuth 2 hAB)].

Example login_in_domain : hist_ok 0 init login_ops.
Proof.
  cbn [hist_ok login_ops op_ok]. repeat split; try exact Logic.I.
  - intros _ h j uj Hne Hj. eval_users Hj. cbn [nget] in Hj.
    destruct (N.eqb 1 j) eqn:E1; [apply N.eqb_eq in E1; congruence|].
    destruct (N.eqb 2 j) eqn:E2; [|discriminate]. inversion Hj. intros _ _. reflexivity.
  - intros _ h j uj Hne Hj Hm _. vm_compute in Hm. discriminate.
Qed.

Example login_elsewhere_not_answered :
  dict_get hAB (s_hcache (run_ops 0 init [(1000%Z, ONew); (1000%Z, ONew); (1000%Z, OSet 1 (User [117;49] [hAB] [] false));
                                          (1000%Z, OSet 2 u2z); (1000%Z, OLookup hAB)])) = Some 1 /\
  (exists e, snd (getUserId 0 1000 (run_ops 0 init login_ops) hAB) = Raise e) /\
  recognised_by 0 1000 (run_ops 0 init login_ops) hAB = [1; 2].
Proof. vm_compute. split; [reflexivity|]. split; [eexists; reflexivity|reflexivity]. Qed.
