(* C04/Cmd.v — the command layer (User plugin): a refused command leaves the
   user database as it was; an accepted `hostmask add` keeps the invariant. *)
From Coq Require Import List NArith ZArith Bool Lia.
Import ListNotations.
Require Import Base.Wire Base.PyStr C04.Model C04.Sound C04.Assoc C04.Prune C04.Shrink C04.Coherent.
Require gen.T04.
Open Scope N_scope.

(* ---- the table: around users.setUser every command has a handler for
   DuplicateHostmask that puts the live account back (hostmask add: only a mask
   it added itself; register: also for addHostmask's ValueError) ---- *)
Definition undo_ok (hs : list (exn * bool)) (e : exn) : bool :=
  match first_handler hs e with Some true => true | _ => false end.

Definition cmd_tables_ok : bool :=
  undo_ok gen.T04.HM_ADD_HANDLERS DuplicateHostmask && gen.T04.HM_ADD_GUARDED &&
  undo_ok gen.T04.IDENTIFY_HANDLERS DuplicateHostmask && undo_ok gen.T04.UNIDENTIFY_HANDLERS DuplicateHostmask &&
  undo_ok gen.T04.CHANGENAME_HANDLERS DuplicateHostmask && undo_ok gen.T04.REMOVE_HANDLERS DuplicateHostmask &&
  undo_ok gen.T04.REGISTER_HANDLERS DuplicateHostmask && undo_ok gen.T04.REGISTER_HANDLERS ValueError &&
  undo_ok gen.T04.SECURE_HANDLERS DuplicateHostmask && negb gen.T04.SECURE_GUARD_USEAUTH.

Lemma T04_ok : cmd_tables_ok = true.
Proof. vm_compute. reflexivity. Qed.

Lemma undo_ok_spec hs e : undo_ok hs e = true -> first_handler hs e = Some true.
Proof. unfold undo_ok. destruct (first_handler hs e) as [[|]|]; try discriminate. reflexivity. Qed.

Ltac table_fact := apply undo_ok_spec; vm_compute; reflexivity.
Lemma T04_add_handler : first_handler gen.T04.HM_ADD_HANDLERS DuplicateHostmask = Some true.
Proof. table_fact. Qed.
Lemma T04_add_guarded : gen.T04.HM_ADD_GUARDED = true.
Proof. vm_compute. reflexivity. Qed.
Lemma T04_identify : first_handler gen.T04.IDENTIFY_HANDLERS DuplicateHostmask = Some true.
Proof. table_fact. Qed.
Lemma T04_unidentify : first_handler gen.T04.UNIDENTIFY_HANDLERS DuplicateHostmask = Some true.
Proof. table_fact. Qed.
Lemma T04_changename : first_handler gen.T04.CHANGENAME_HANDLERS DuplicateHostmask = Some true.
Proof. table_fact. Qed.
Lemma T04_remove : first_handler gen.T04.REMOVE_HANDLERS DuplicateHostmask = Some true.
Proof. table_fact. Qed.
Lemma T04_register : first_handler gen.T04.REGISTER_HANDLERS DuplicateHostmask = Some true.
Proof. table_fact. Qed.
Lemma T04_register_v : first_handler gen.T04.REGISTER_HANDLERS ValueError = Some true.
Proof. table_fact. Qed.
Lemma T04_secure : first_handler gen.T04.SECURE_HANDLERS DuplicateHostmask = Some true.
Proof. table_fact. Qed.

Section SameDb.
Variables (t now : Z).

(* the account as the property sees it: name, masks, secure flag, and the
   logins that have not timed out (lookups drop expired ones lazily) *)
Definition same_user (u u' : user) : Prop :=
  u_name u' = u_name u /\ u_masks u' = u_masks u /\ u_secure u' = u_secure u /\
  (forall e, In e (u_auth u') -> In e (u_auth u)) /\
  (forall e, In e (u_auth u) -> expired t now (fst e) = false -> In e (u_auth u')).

Lemma same_user_refl u : same_user u u.
Proof. repeat split; auto. Qed.

Lemma same_user_trans a b c : same_user a b -> same_user b c -> same_user a c.
Proof.
  intros [A1 [A2 [A3 [A4 A5]]]] [B1 [B2 [B3 [B4 B5]]]]. repeat split; try congruence.
  - intros e H. apply A4. apply B4. exact H.
  - intros e H Hx. apply B5; [apply A5; assumption|exact Hx].
Qed.

Lemma same_user_le u u' : same_user u u' -> le_user u' u.
Proof.
  intros [_ [Hm [Hsec [Hs _]]]] h. unfold recog_ever, mask_match. rewrite Hm, Hsec. intro H.
  apply orb_true_iff in H as [H|H]; [|rewrite H; apply orb_true_r].
  apply andb_true_iff in H as [H Hn]. rewrite Hn, andb_true_r.
  apply existsb_exists in H as [e [Hin He]]. apply orb_true_iff. left. apply existsb_exists. exists e. auto.
Qed.

Definition same_db (us us' : list (N * user)) : Prop :=
  Forall2 (fun a b => fst b = fst a /\ same_user (snd a) (snd b)) us us'.

Lemma same_db_refl us : same_db us us.
Proof. induction us as [|[i u] us IH]; constructor; [split; [reflexivity|apply same_user_refl]|exact IH]. Qed.

Lemma same_db_trans a b c : same_db a b -> same_db b c -> same_db a c.
Proof.
  intro H. revert c. induction H as [|x y a b [Hk Hle] H IH]; intros c Hc; inversion Hc as [|? z ? c' [Hk' Hle'] Hc']; subst; constructor.
  - split; [congruence|eapply same_user_trans; eassumption].
  - apply IH. exact Hc'.
Qed.

Lemma same_db_pruned us us' : same_db us us' -> pruned us us'.
Proof.
  intro H. induction H as [|x y a b [Hk Hs] H IH]; constructor; [|exact IH].
  split; [exact Hk|apply same_user_le; exact Hs].
Qed.

Lemma same_db_nget us us' k u' :
  same_db us us' -> nget k us' = Some u' -> exists u, nget k us = Some u /\ same_user u u'.
Proof.
  intro H. induction H as [|[i u] [i' v] a b [Hk Hle] H IH]; [discriminate|].
  cbn [fst snd] in *. subst i'. cbn [nget]. destruct (N.eqb i k).
  - intro E. inversion E; subst. exists u. auto.
  - exact IH.
Qed.

Lemma same_db_nset us k u u' : nget k us = Some u -> same_user u u' -> same_db us (nset k u' us).
Proof.
  induction us as [|[i v] us IH]; [discriminate|]. cbn [nget nset]. destruct (N.eqb i k) eqn:E.
  - intros Hu Hle. inversion Hu; subst. constructor; [split; [reflexivity|exact Hle]|apply same_db_refl].
  - intros Hu Hle. constructor; [split; [reflexivity|apply same_user_refl]|apply IH; assumption].
Qed.

(* undoing an in-place edit of account k *)
Lemma same_db_rollback us k u u0 us1 :
  nget k us = Some u0 -> same_db (nset k u us) us1 -> same_db us (nset k u0 us1).
Proof.
  revert us1. induction us as [|[i v] us IH]; [discriminate|]. intros us1. cbn [nget nset]. destruct (N.eqb i k) eqn:E.
  - intros Hu H. inversion Hu; subst. inversion H as [|? [i' v'] ? b [Hk Hle] Hr]; subst. cbn [fst snd] in *. subst i'.
    cbn [nset]. rewrite E. constructor; [split; [reflexivity|apply same_user_refl]|exact Hr].
  - intros Hu H. inversion H as [|? [i' v'] ? b [Hk Hle] Hr]; subst. cbn [fst snd] in *. subst i'.
    cbn [nset]. rewrite E. constructor; [split; [reflexivity|exact Hle]|apply IH; assumption].
Qed.

Lemma checkHostmask_same istr u h ua : same_user u (fst (checkHostmask istr t now u h ua)).
Proof.
  pose proof (checkHostmask_fields istr t now u h ua) as [A [B C]]. cbv zeta in A, B, C.
  split; [exact A|]. split; [exact B|]. split; [exact C|]. split.
  - intros e. apply checkHostmask_sub.
  - intros e. apply checkHostmask_keep.
Qed.

Lemma scan_users_same h us : same_db us (fst (scan_users t now h us)).
Proof.
  induction us as [|[i u] us IH]; [constructor|]. cbn [scan_users].
  pose proof (checkHostmask_same false u h true) as Hle.
  destruct (checkHostmask false t now u h true) as [u' x]. cbn [fst] in Hle.
  destruct (scan_users t now h us) as [r' ids]. cbn [fst] in *.
  constructor; [split; [reflexivity|exact Hle]|exact IH].
Qed.

Lemma overlap_one_same self hm us : same_db us (fst (overlap_one t now self hm us)).
Proof.
  induction us as [|[i u] us IH]; [constructor|]. cbn [overlap_one].
  destruct (N.eqb i self).
  - destruct (overlap_one t now self hm us) as [r' b]. cbn [fst] in *.
    constructor; [split; [reflexivity|apply same_user_refl]|exact IH].
  - pose proof (checkHostmask_same true u hm true) as Hle.
    destruct (checkHostmask true t now u hm true) as [u' x]. cbn [fst] in Hle.
    destruct (truthy x); [cbn [fst]; constructor; [split; [reflexivity|exact Hle]|apply same_db_refl]|].
    destruct (existsb (fun other => hmatch hm other) (u_masks u'));
      [cbn [fst]; constructor; [split; [reflexivity|exact Hle]|apply same_db_refl]|].
    destruct (overlap_one t now self hm us) as [r' b]. cbn [fst] in *.
    constructor; [split; [reflexivity|exact Hle]|exact IH].
Qed.

Lemma overlap_all_same self hms us : same_db us (fst (overlap_all t now self hms us)).
Proof.
  revert us. induction hms as [|hm hms IH]; intro us; [apply same_db_refl|]. cbn [overlap_all].
  pose proof (overlap_one_same self hm us) as H1.
  destruct (overlap_one t now self hm us) as [us' b]. cbn [fst] in H1.
  destruct b; [exact H1|]. eapply same_db_trans; [exact H1|apply IH].
Qed.

(* ---- lookups that do not run the Multiple-matches branch ---- *)
Lemma miss_same_db s h :
  (forall e, snd (lookup_miss t now s h) = Raise e -> (length (recognised_by t now s h) <= 1)%nat) ->
  same_db (s_users s) (s_users (fst (lookup_miss t now s h))).
Proof.
  intro H.
  assert (Hlen : (length (recognised_by t now s h) <= 1)%nat).
  { destruct (snd (lookup_miss t now s h)) as [id|e] eqn:E; [|exact (H e eq_refl)].
    rewrite (miss_sound _ _ _ _ _ E). cbn. lia. }
  clear H. revert Hlen. unfold lookup_miss, recognised_by. rewrite <- scan_users_ids.
  pose proof (scan_users_same h (s_users s)) as Hs.
  destruct (scan_users t now h (s_users s)) as [us ids]. cbn [fst snd] in *.
  destruct ids as [|[id x] [|e r]]; cbn [map length]; intro Hlen.
  - exact Hs.
  - destruct (hinsert h id (s_hcache s) (s_hrev s)). exact Hs.
  - lia.
Qed.

Lemma getUserId_same_db s h :
  (forall e, snd (getUserId t now s h) = Raise e -> (length (recognised_by t now s h) <= 1)%nat) ->
  same_db (s_users s) (s_users (fst (getUserId t now s h))).
Proof.
  unfold getUserId. destruct (dict_get h (s_hcache s)) as [id|] eqn:Eg; [|apply miss_same_db].
  rewrite uget_nget. destruct (nget id (s_users s)) as [u|] eqn:Eu; [|apply miss_same_db].
  pose proof (checkHostmask_same false u h true) as Hsu.
  pose proof (checkHostmask_recog false t now u h true h) as Hr.
  destruct (checkHostmask false t now u h true) as [u' x]. cbn [fst snd] in Hsu, Hr.
  cbv zeta. rewrite uset_nset.
  assert (Hsame : recognised_by t now (with_users s (nset id u' (s_users s))) h = recognised_by t now s h).
  { unfold recognised_by. cbn [with_users s_users]. apply (recognised_nset _ _ _ _ _ u); assumption. }
  assert (H1 : same_db (s_users s) (s_users (with_users s (nset id u' (s_users s))))).
  { cbn [with_users s_users]. apply (same_db_nset _ _ u); assumption. }
  destruct (truthy x); [intros _; exact H1|].
  destruct (invalidate_h (with_users s (nset id u' (s_users s))) h) as [s2|e] eqn:Ei; intro H.
  - eapply same_db_trans; [exact H1|]. rewrite <- (invalidate_h_users _ _ _ Ei). apply miss_same_db.
    intros e He. specialize (H e He).
    assert (E2 : recognised_by t now s2 h = recognised_by t now s h).
    { rewrite <- Hsame. unfold recognised_by. rewrite (invalidate_h_users _ _ _ Ei). reflexivity. }
    rewrite E2. exact H.
  - eapply same_db_trans; [exact H1|]. apply miss_same_db. intros e0 He. rewrite Hsame. exact (H e0 He).
Qed.

(* what the commands carry along: the invariant, and - as long as no lookup
   ran the Multiple-matches branch - an unchanged database *)
Definition R (a : bool) (s s' : st) : Prop :=
  Inv s' /\ ids_bounded s' /\ (a = false -> same_db (s_users s) (s_users s')).

Lemma R_trans a b s s' s'' : R a s s' -> R b s' s'' -> R (a || b) s s''.
Proof.
  intros [_ [_ H1]] [I2 [B2 H2]]. split; [exact I2|]. split; [exact B2|].
  intro E. apply orb_false_iff in E as [Ea Eb]. eapply same_db_trans; [apply H1; exact Ea|apply H2; exact Eb].
Qed.

Lemma lookup_same s h s' r : lookup t now s h = (s', r, false) -> same_db (s_users s) (s_users s').
Proof.
  unfold lookup. pose proof (getUserId_same_db s h) as H.
  destruct (getUserId t now s h) as [s1 r1]. cbn [fst snd] in H. intro E. inversion E; subst. apply H.
  intros e He. subst r. rewrite <- recognisers_spec. unfold ambiguous in H3.
  destruct (length (recognisers t now s h)) as [|[|n]]; [lia|lia|]. cbn in H3. discriminate.
Qed.

Lemma lookup_R s h s' r a : Inv s -> ids_bounded s -> lookup t now s h = (s', r, a) -> R a s s'.
Proof.
  intros HI Hb E. destruct (lookup_preserves t now s h HI Hb) as [HI' Hb'].
  assert (Es : s' = fst (getUserId t now s h)).
  { unfold lookup in E. destruct (getUserId t now s h). inversion E. reflexivity. }
  split; [rewrite Es; exact HI'|]. split; [rewrite Es; exact Hb'|].
  intro Ea. subst a. eapply lookup_same. exact E.
Qed.

Lemma resolve_R s name s' tgt :
  Inv s -> ids_bounded s -> resolve s name = (s', tgt) ->
  R false s s' /\ (forall uid u, tgt = Some (uid, u) -> nget uid (s_users s') = Some u).
Proof.
  intros HI Hb. unfold resolve.
  destruct (name_lookup_facts s name (i_cache _ HI)) as [HC1 [Hu1 [Hc1 [Hr1 Hn1]]]].
  destruct (getUserIdByName s name) as [s1 r]. cbn [fst] in *.
  assert (HR : R false s s1).
  { split; [|split].
    - apply (Inv_sub s); [exact HI|rewrite Hu1; apply pruned_refl|exact HC1|rewrite Hc1; apply csub_refl].
    - apply (bounded_pruned s); [exact Hb|rewrite Hu1; apply pruned_refl|rewrite Hn1; apply N.le_refl].
    - intros _. rewrite Hu1. apply same_db_refl. }
  destruct r as [id|e]; intro E; inversion E; subst; (split; [exact HR|]).
  - intros uid u Ht. rewrite uget_nget in Ht. destruct (nget id (s_users s')) eqn:En; inversion Ht; subst. exact En.
  - intros uid u Ht. discriminate.
Qed.

Lemma store_R s uid u u' :
  Inv s -> ids_bounded s -> nget uid (s_users s) = Some u -> same_user u u' -> R false s (store s uid u').
Proof.
  intros HI Hb Hu Hs. unfold store. rewrite uset_nset.
  assert (Hp : pruned (s_users s) (nset uid u' (s_users s))) by (apply (pruned_nset _ _ u); [exact Hu|apply same_user_le; exact Hs]).
  split; [|split].
  - apply (Inv_sub s); [exact HI|exact Hp|apply CacheInv_users; apply (i_cache _ HI)|apply csub_refl].
  - apply (bounded_pruned s); [exact Hb|exact Hp|apply N.le_refl].
  - intros _. cbn [with_users s_users]. apply (same_db_nset _ _ u); assumption.
Qed.

Lemma R_refl s : Inv s -> ids_bounded s -> R false s s.
Proof. intros HI Hb. split; [exact HI|]. split; [exact Hb|]. intros _. apply same_db_refl. Qed.

Lemma authorised_R o s uid u P s' ok :
  Inv s -> ids_bounded s -> nget uid (s_users s) = Some u ->
  authorised t now o s uid u P = (s', ok) -> R false s s'.
Proof.
  intros HI Hb Hu. unfold authorised. destruct (o_pw o).
  - intro E. inversion E; subst. apply R_refl; assumption.
  - pose proof (checkHostmask_same false u P true) as Hs.
    destruct (checkHostmask false t now u P true) as [u1 x]. cbn [fst] in Hs.
    intro E. inversion E; subst. eapply store_R; eassumption.
Qed.

(* ---- users.setUser refusing an account that is already stored ---- *)
Lemma setUser_refused s id u e :
  CacheInv s -> nget id (s_users s) = Some u ->
  snd (setUser t now s id u) = Raise e ->
  e = DuplicateHostmask /\
  same_db (s_users s) (s_users (fst (setUser t now s id u))) /\
  nget id (s_users (fst (setUser t now s id u))) = Some u.
Proof.
  intros HC Hu. unfold setUser. rewrite !uget_nget, Hu, uset_nset, (nset_noop _ _ _ Hu).
  set (s00 := St (s_users s) (s_hcache s) (s_hrev s) (s_ncache s) (s_nrev s) (N.max (s_next s) id)).
  assert (HC00 : CacheInv s00) by (destruct HC as [A]; split; assumption).
  destruct (invalidate_fold_ok (u_auth u) s00 HC00) as [s0 [Hf [Hu0 [Hn0 [Hsub0 [Hnone0 HC0]]]]]].
  rewrite Hf. change (s_users s00) with (s_users s) in Hu0.
  destruct (name_lookup_facts s0 (u_name u) HC0) as [HC1 [Hu1 [Hc1 [Hr1 Hn1]]]].
  destruct (getUserIdByName s0 (u_name u)) as [s1 r]. cbn [fst] in HC1, Hu1, Hc1, Hr1, Hn1.
  rewrite Hu0 in Hu1.
  destruct (match r with Ok other => negb (N.eqb other id) | Raise _ => false end).
  { cbn [fst snd with_users s_users]. intro E. inversion E. split; [reflexivity|].
    unfold rollback. rewrite uset_nset, Hu1, (nset_noop _ _ _ Hu). split; [apply same_db_refl|exact Hu]. }
  pose proof (overlap_all_same id (u_masks u) (s_users s1)) as Hov.
  destruct (overlap_all t now id (u_masks u) (s_users s1)) as [us1 dup]. cbn [fst] in Hov. rewrite Hu1 in Hov.
  destruct dup.
  { cbn [fst snd with_users s_users]. intro E. inversion E. split; [reflexivity|].
    unfold rollback. rewrite uset_nset. split; [|apply nget_nset_same].
    apply (same_db_rollback _ _ u); [exact Hu|]. rewrite (nset_noop _ _ _ Hu). exact Hov. }
  destruct (invalidate_id_ok (with_users s1 us1) id (CacheInv_users _ _ HC1)) as [s3 [Hinv _]].
  rewrite Hinv. cbn [snd]. discriminate.
Qed.

(* users.setUser only ever refuses with DuplicateHostmask: in particular never with
   a KeyError out of the cache bookkeeping, whatever CacheDict has evicted *)
Lemma setUser_only_refuses s id u e :
  CacheInv s -> snd (setUser t now s id u) = Raise e -> e = DuplicateHostmask.
Proof.
  intros HC. unfold setUser.
  set (us0 := match uget id (s_users s) with Some _ => uset id u (s_users s) | None => s_users s end).
  set (s00 := St us0 (s_hcache s) (s_hrev s) (s_ncache s) (s_nrev s) (N.max (s_next s) id)).
  assert (HC00 : CacheInv s00) by (destruct HC as [A]; split; assumption).
  destruct (invalidate_fold_ok (u_auth u) s00 HC00) as [s0 [Hf [_ [_ [_ [_ HC0]]]]]]. rewrite Hf.
  destruct (name_lookup_facts s0 (u_name u) HC0) as [HC1 _].
  destruct (getUserIdByName s0 (u_name u)) as [s1 r]. cbn [fst] in HC1.
  destruct (match r with Ok other => negb (N.eqb other id) | Raise _ => false end); [cbn; intro E; inversion E; reflexivity|].
  destruct (overlap_all t now id (u_masks u) (s_users s1)) as [us1 dup].
  destruct dup; [cbn; intro E; inversion E; reflexivity|].
  destruct (invalidate_id_ok (with_users s1 us1) id (CacheInv_users _ _ HC1)) as [s3 [Hinv _]].
  rewrite Hinv. cbn. discriminate.
Qed.

Lemma ieq_refl x : ieq x x = true.
Proof. unfold ieq. apply seq_eqb_refl. Qed.

Lemma iset_add_remove x l :
  existsb (ieq x) l = false -> iset_remove x (iset_add x l) = Ok l.
Proof.
  intro H. unfold iset_add, iset_remove. rewrite H.
  rewrite existsb_app. cbn [existsb]. rewrite ieq_refl. cbn [orb]. rewrite orb_true_r.
  rewrite filter_app. cbn [filter]. rewrite ieq_refl. cbn [negb]. rewrite app_nil_r. f_equal.
  induction l as [|y l IH]; [reflexivity|]. cbn [existsb] in H. apply orb_false_iff in H as [Hy Hl].
  cbn [filter]. rewrite Hy. cbn [negb]. rewrite (IH Hl). reflexivity.
Qed.

(* an in-place edit u0 -> u2 of account uid refused by users.setUser, and undone *)
Lemma refused_edit s uid u0 u2 s' e :
  CacheInv s -> nget uid (s_users s) = Some u0 ->
  setUser t now (store s uid u2) uid u2 = (s', Raise e) ->
  e = DuplicateHostmask /\ nget uid (s_users s') = Some u2 /\
  same_db (s_users s) (s_users (store s' uid u0)).
Proof.
  intros HC Hu E.
  assert (HC' : CacheInv (store s uid u2)) by (apply CacheInv_users; exact HC).
  assert (Hu2 : nget uid (s_users (store s uid u2)) = Some u2).
  { unfold store. cbn [with_users s_users]. rewrite uset_nset. apply nget_nset_same. }
  pose proof (setUser_refused (store s uid u2) uid u2 e HC' Hu2) as H. rewrite E in H. cbn [fst snd] in H.
  destruct (H eq_refl) as [Ee [Hdb Hu']]. split; [exact Ee|]. split; [exact Hu'|].
  unfold store in *. cbn [with_users s_users] in *. rewrite uset_nset in *.
  apply (same_db_rollback _ _ u2); assumption.
Qed.

(* hostmask add, from the edit on: refused => the account list is put back *)
Lemma add_commit_refused s4 uid u1 mask :
  CacheInv s4 -> nget uid (s_users s4) = Some u1 ->
  snd (fst (add_commit t now s4 uid u1 mask)) = false ->
  same_db (s_users s4) (s_users (fst (fst (add_commit t now s4 uid u1 mask)))).
Proof.
  intros HC Hu. unfold add_commit.
  set (u2 := set_masks u1 (iset_add mask (u_masks u1))).
  pose proof (refused_edit s4 uid u1 u2) as Href.
  destruct (setUser t now (store s4 uid u2) uid u2) as [s6 r6].
  destruct r6 as [x|e]; [cbn; discriminate|].
  destruct (Href s6 e HC Hu eq_refl) as [Ee [Hu6 Hdb]]. subst e.
  rewrite T04_add_handler, T04_add_guarded. cbn [andb].
  destruct (existsb (ieq mask) (u_masks u1)) eqn:Ehad.
  - (* the account owned the mask: nothing was added, nothing is removed *)
    cbn [fst snd]. intros _.
    assert (Eu : u2 = u1) by (unfold u2, iset_add; rewrite Ehad; destruct u1; reflexivity).
    unfold store in Hdb. cbn [with_users s_users] in Hdb. rewrite uset_nset in Hdb.
    rewrite Eu in Hu6. rewrite (nset_noop _ _ _ Hu6) in Hdb. exact Hdb.
  - rewrite uget_nget, Hu6.
    assert (Erm : iset_remove mask (u_masks u2) = Ok (u_masks u1)).
    { unfold u2. cbn [set_masks u_masks]. apply iset_add_remove. exact Ehad. }
    rewrite !Erm. cbn [fst snd]. intros _.
    assert (Eu : set_masks u2 (u_masks u1) = u1) by (destruct u1; reflexivity).
    rewrite Eu. unfold store. cbn [with_users s_users]. rewrite uset_nset.
    unfold store in Hdb. cbn [with_users s_users] in Hdb. rewrite uset_nset in Hdb. exact Hdb.
Qed.

Lemma add_prepare_R o s P name mask :
  Inv s -> ids_bounded s ->
  match add_prepare t now o s P name mask with
  | PErr s' amb => R amb s s'
  | PGo s4 amb uid u1 => R amb s s4 /\ nget uid (s_users s4) = Some u1
  end.
Proof.
  intros HI Hb. unfold add_prepare.
  destruct (lookup t now s P) as [[s1 r1] a0] eqn:E1.
  pose proof (lookup_R _ _ _ _ _ HI Hb E1) as R1. destruct R1 as [I1 [B1 D1]].
  destruct (resolve s1 name) as [s2 tgt] eqn:E2.
  destruct (resolve_R _ _ _ _ I1 B1 E2) as [R2 Ht].
  assert (R02 : R a0 s s2).
  { replace a0 with (a0 || false) by apply orb_false_r. eapply R_trans; [split; [exact I1|split; [exact B1|exact D1]]|exact R2]. }
  destruct tgt as [[uid u0]|]; [|exact R02].
  destruct (negb (o_shape o)); [exact R02|].
  destruct R2 as [I2 [B2 _]].
  destruct (lookup t now s2 mask) as [[s3 r3] a3] eqn:E3.
  pose proof (lookup_R _ _ _ _ _ I2 B2 E3) as R3.
  assert (R03 : R (a0 || a3) s s3) by (eapply R_trans; eassumption).
  assert (Hcont :
    match (match uget uid (s_users s3) with
           | None => PErr s3 (a0 || a3)
           | Some u =>
             let '(s4, ok) := authorised t now o s3 uid u P in
             if negb ok then PErr s4 (a0 || a3) else
             if negb (o_long o) then PErr s4 (a0 || a3) else
             match uget uid (s_users s4) with
             | None => PErr s4 (a0 || a3)
             | Some u1 => PGo s4 (a0 || a3) uid u1
             end
           end) with
    | PErr s' amb => R amb s s'
    | PGo s4 amb uid u1 => R amb s s4 /\ nget uid (s_users s4) = Some u1
    end).
  { rewrite uget_nget. destruct (nget uid (s_users s3)) as [u|] eqn:Eu; [|exact R03].
    destruct R3 as [I3 [B3 _]].
    destruct (authorised t now o s3 uid u P) as [s4 ok] eqn:E4.
    pose proof (authorised_R _ _ _ _ _ _ _ I3 B3 Eu E4) as R4.
    assert (R04 : R (a0 || a3) s s4).
    { replace (a0 || a3) with ((a0 || a3) || false) by apply orb_false_r. eapply R_trans; eassumption. }
    destruct (negb ok); [exact R04|]. destruct (negb (o_long o)); [exact R04|].
    rewrite uget_nget. destruct (nget uid (s_users s4)) as [u1|] eqn:Eu1; [|exact R04].
    split; [exact R04|exact Eu1]. }
  destruct r3 as [other|e].
  - destruct (N.eqb other uid); [exact Hcont|exact R03].
  - destruct e; try exact R03. exact Hcont.
Qed.

(* ---- the other commands: a refusal either happens before the account is
   edited, or comes out of users.setUser and the handler undoes the edit ---- *)
Lemma cmd_remove_R o s P name mask :
  Inv s -> ids_bounded s ->
  let out := cmd_remove t now o s P name mask in
  r_ok out = false -> r_amb out = false -> same_db (s_users s) (s_users (r_st out)).
Proof.
  intros HI Hb. unfold cmd_remove.
  destruct (lookup t now s P) as [[s1 r1] a0] eqn:E1.
  pose proof (lookup_R _ _ _ _ _ HI Hb E1) as R1. pose proof R1 as [I1 [B1 _]].
  destruct (resolve s1 name) as [s2 tgt] eqn:E2.
  destruct (resolve_R _ _ _ _ I1 B1 E2) as [R2 Ht]. pose proof R2 as [I2 [B2 _]].
  assert (R02 : R (a0 || false) s s2) by (eapply R_trans; eassumption).
  rewrite orb_false_r in R02.
  destruct tgt as [[uid u0]|]; [|cbn; intros _ Ea; apply R02; exact Ea].
  specialize (Ht uid u0 eq_refl).
  destruct (authorised t now o s2 uid u0 P) as [s3 ok] eqn:E3.
  pose proof (authorised_R _ _ _ _ _ _ _ I2 B2 Ht E3) as R3.
  assert (R03 : R (a0 || false) s s3) by (eapply R_trans; eassumption).
  rewrite orb_false_r in R03. pose proof R03 as [I3 [B3 D3]].
  destruct (negb ok); [cbn; intros _ Ea; apply D3; exact Ea|].
  rewrite uget_nget. destruct (nget uid (s_users s3)) as [u1|] eqn:Eu1; [|cbn; intros _ Ea; apply D3; exact Ea].
  destruct (if seq_eqb mask ALL then Ok [] else iset_remove mask (u_masks u1)) as [ms|e];
    [|cbn; intros _ Ea; apply D3; exact Ea].
  pose proof (refused_edit s3 uid u1 (set_masks u1 ms)) as Href.
  destruct (setUser t now (store s3 uid (set_masks u1 ms)) uid (set_masks u1 ms)) as [s4 r4].
  destruct r4 as [x|e]; [cbn; intros; discriminate|].
  destruct (Href s4 e (i_cache _ I3) Eu1 eq_refl) as [Ee [Hu4 Hdb]]. subst e.
  rewrite T04_remove, uget_nget, Hu4. cbn [r_ok r_amb r_st]. intros _ Ea.
  assert (Eu : set_masks (set_masks u1 ms) (u_masks u1) = u1) by (destruct u1; reflexivity). rewrite Eu.
  eapply same_db_trans; [apply D3; exact Ea|exact Hdb].
Qed.

Lemma cmd_identify_R o s P name :
  Inv s -> ids_bounded s ->
  let out := cmd_identify t now o s P name in
  r_ok out = false -> r_amb out = false -> same_db (s_users s) (s_users (r_st out)).
Proof.
  intros HI Hb. unfold cmd_identify.
  destruct (lookup t now s P) as [[s1 r1] a0] eqn:E1.
  pose proof (lookup_R _ _ _ _ _ HI Hb E1) as R1. pose proof R1 as [I1 [B1 _]].
  destruct (resolve s1 name) as [s2 tgt] eqn:E2.
  destruct (resolve_R _ _ _ _ I1 B1 E2) as [R2 Ht]. pose proof R2 as [I2 [B2 _]].
  assert (R02 : R (a0 || false) s s2) by (eapply R_trans; eassumption).
  rewrite orb_false_r in R02. pose proof R02 as [_ [_ D2]].
  destruct tgt as [[uid u0]|]; [|cbn; intros _ Ea; apply D2; exact Ea].
  specialize (Ht uid u0 eq_refl).
  destruct (o_pw o); [|cbn; intros _ Ea; apply D2; exact Ea].
  destruct (addAuth now u0 P) as [u'|e] eqn:Ea0; [|cbn; intros _ Ea; apply D2; exact Ea].
  pose proof (refused_edit s2 uid u0 u') as Href.
  destruct (setUser t now (store s2 uid u') uid u') as [s3 r3].
  destruct r3 as [x|e]; [cbn; intros; discriminate|].
  destruct (Href s3 e (i_cache _ I2) Ht eq_refl) as [Ee [Hu3 Hdb]]. subst e.
  rewrite T04_identify, uget_nget, Hu3. cbn [r_ok r_amb r_st]. intros _ Ea.
  assert (Eu : set_auth u' (u_auth u0) = u0).
  { rewrite (addAuth_shape _ _ _ _ Ea0). destruct u0; reflexivity. }
  rewrite Eu. eapply same_db_trans; [apply D2; exact Ea|exact Hdb].
Qed.

Lemma opClearAuth_ok s uid s2 x :
  CacheInv s -> opClearAuth s uid = (s2, Ok x) ->
  exists u s1, nget uid (s_users s) = Some u /\ s_users s1 = s_users s /\ CacheInv s1 /\ s2 = store s1 uid (set_auth u []).
Proof.
  intros HC. unfold opClearAuth. rewrite uget_nget. destruct (nget uid (s_users s)) as [u|] eqn:Eu; [|intro E; inversion E].
  destruct (invalidate_fold_ok (u_auth u) s HC) as [s1 [Hf [Hu1 [_ [_ [_ HC1]]]]]]. rewrite Hf.
  intro E. inversion E. exists u, s1. split; [reflexivity|]. split; [exact Hu1|]. split; [exact HC1|]. reflexivity.
Qed.

Lemma cmd_unidentify_R s P :
  Inv s -> ids_bounded s ->
  let out := cmd_unidentify t now s P in
  r_ok out = false -> r_amb out = false -> same_db (s_users s) (s_users (r_st out)).
Proof.
  intros HI Hb. unfold cmd_unidentify.
  destruct (lookup t now s P) as [[s1 r1] a0] eqn:E1.
  pose proof (lookup_R _ _ _ _ _ HI Hb E1) as [I1 [B1 D1]].
  destruct r1 as [uid|e]; [|cbn; intros _ Ea; apply D1; exact Ea].
  destruct (opClearAuth s1 uid) as [s2 r2] eqn:E2.
  destruct r2 as [x|e].
  - destruct (opClearAuth_ok _ _ _ _ (i_cache _ I1) E2) as [u [s1' [Hu [Hus [HC1 Es2]]]]]. subst s2.
    assert (Hucl : nget uid (s_users (store s1' uid (set_auth u []))) = Some (set_auth u [])).
    { unfold store. cbn [with_users s_users]. rewrite uset_nset. apply nget_nset_same. }
    rewrite uget_nget, Hucl.
    assert (Hu' : nget uid (s_users s1') = Some u) by (rewrite Hus; exact Hu).
    pose proof (refused_edit s1' uid u (set_auth u [])) as Href.
    destruct (setUser t now (store s1' uid (set_auth u [])) uid (set_auth u [])) as [s3 r3].
    destruct r3 as [y|e]; [cbn; intros; discriminate|].
    destruct (Href s3 e HC1 Hu' eq_refl) as [Ee [Hu3 Hdb]]. subst e.
    rewrite T04_unidentify, !uget_nget, Hu3, Hu. cbn [r_ok r_amb r_st]. intros _ Ea.
    assert (Eu : set_auth (set_auth u []) (u_auth u) = u) by (destruct u; reflexivity). rewrite Eu.
    eapply same_db_trans; [apply D1; exact Ea|]. rewrite <- Hus. exact Hdb.
  - cbn. intros _ Ea.
    assert (s2 = s1).
    { unfold opClearAuth in E2. destruct (uget uid (s_users s1)) as [u|]; [|inversion E2; reflexivity].
      destruct (invalidate_auth s1 (u_auth u)); inversion E2. reflexivity. }
    subst s2. apply D1. exact Ea.
Qed.

Lemma cmd_changename_R o s P name newname :
  Inv s -> ids_bounded s ->
  let out := cmd_changename t now o s P name newname in
  r_ok out = false -> r_amb out = false -> same_db (s_users s) (s_users (r_st out)).
Proof.
  intros HI Hb. unfold cmd_changename.
  destruct (lookup t now s P) as [[s1 r1] a0] eqn:E1.
  pose proof (lookup_R _ _ _ _ _ HI Hb E1) as R1. pose proof R1 as [I1 [B1 _]].
  destruct (resolve s1 name) as [s2 tgt] eqn:E2.
  destruct (resolve_R _ _ _ _ I1 B1 E2) as [R2 Ht]. pose proof R2 as [I2 [B2 _]].
  assert (R02 : R (a0 || false) s s2) by (eapply R_trans; eassumption).
  rewrite orb_false_r in R02.
  destruct tgt as [[uid u0]|]; [|cbn; intros _ Ea; apply R02; exact Ea].
  specialize (Ht uid u0 eq_refl).
  destruct (name_lookup_facts s2 newname (i_cache _ I2)) as [HC3 [Hu3 [Hc3 [Hr3 Hn3]]]].
  destruct (getUserIdByName s2 newname) as [s3 r3]. cbn [fst] in *.
  assert (R3 : R false s2 s3).
  { split; [|split].
    - apply (Inv_sub s2); [exact I2|rewrite Hu3; apply pruned_refl|exact HC3|rewrite Hc3; apply csub_refl].
    - apply (bounded_pruned s2); [exact B2|rewrite Hu3; apply pruned_refl|rewrite Hn3; apply N.le_refl].
    - intros _. rewrite Hu3. apply same_db_refl. }
  assert (R03 : R (a0 || false) s s3) by (eapply R_trans; eassumption).
  rewrite orb_false_r in R03. pose proof R3 as [I3 [B3 _]].
  destruct r3 as [x|e]; [cbn; intros _ Ea; apply R03; exact Ea|].
  destruct (negb (o_name o)); [cbn; intros _ Ea; apply R03; exact Ea|].
  pose proof (checkHostmask_same false u0 P true) as Hs.
  destruct (checkHostmask false t now u0 P true) as [u1 x]. cbn [fst] in Hs.
  assert (Hu03 : nget uid (s_users s3) = Some u0) by (rewrite Hu3; exact Ht).
  pose proof (store_R s3 uid u0 u1 I3 B3 Hu03 Hs) as R4.
  assert (R04 : R (a0 || false) s (store s3 uid u1)) by (eapply R_trans; eassumption).
  rewrite orb_false_r in R04. pose proof R04 as [I4 [B4 D4]].
  destruct (truthy x || o_pw o); [|cbn; intros _ Ea; apply D4; exact Ea].
  assert (Hu14 : nget uid (s_users (store s3 uid u1)) = Some u1).
  { unfold store. cbn [with_users s_users]. rewrite uset_nset. apply nget_nset_same. }
  pose proof (refused_edit (store s3 uid u1) uid u1 (set_name u1 newname)) as Href.
  destruct (setUser t now (store (store s3 uid u1) uid (set_name u1 newname)) uid (set_name u1 newname)) as [s5 r5].
  destruct r5 as [y|e5]; [cbn; intros; discriminate|].
  destruct (Href s5 e5 (i_cache _ I4) Hu14 eq_refl) as [Ee [Hu5 Hdb]]. subst e5.
  rewrite T04_changename, uget_nget, Hu5.
  assert (Eu : set_name (set_name u1 newname) (u_name u1) = u1) by (destruct u1; reflexivity). rewrite Eu.
  destruct (invalidate_id (store s5 uid u1) uid) as [s7|e7] eqn:Ei; cbn [r_ok r_amb r_st]; intros _ Ea.
  - rewrite (invalidate_id_users _ _ _ Ei). eapply same_db_trans; [apply D4; exact Ea|exact Hdb].
  - eapply same_db_trans; [apply D4; exact Ea|exact Hdb].
Qed.

(* deleting an account that was only just created *)
Lemma same_db_ndel_fresh us id u us1 :
  nget id us = None -> same_db (nset id u us) us1 -> same_db us (ndel id us1).
Proof.
  revert us1. induction us as [|[i v] us IH]; intros us1 Hn H.
  - cbn [nset] in H. inversion H as [|? [i' v'] ? b [Hk _] Hr]; subst. inversion Hr; subst. cbn [fst] in Hk. subst i'.
    unfold ndel. cbn [filter fst]. rewrite N.eqb_refl. cbn [negb]. constructor.
  - cbn [nget] in Hn. destruct (N.eqb i id) eqn:E; [discriminate|]. cbn [nset] in H. rewrite E in H.
    inversion H as [|? [i' v'] ? b [Hk Hle] Hr]; subst. cbn [fst snd] in *. subst i'.
    unfold ndel. cbn [filter fst]. rewrite E. cbn [negb]. constructor; [split; [reflexivity|exact Hle]|].
    apply IH; assumption.
Qed.

Lemma delUser_users s id u : nget id (s_users s) = Some u -> s_users (fst (delUser s id)) = ndel id (s_users s).
Proof.
  intro Hu. unfold delUser. rewrite uget_nget, Hu.
  destruct (invalidate_id (with_users s (udel id (s_users s))) id) as [s1|e] eqn:Ei; cbn [fst].
  - rewrite (invalidate_id_users _ _ _ Ei). reflexivity.
  - reflexivity.
Qed.

Lemma cmd_register_R o s P name :
  Inv s -> ids_bounded s ->
  let out := cmd_register t now o s P name in
  r_ok out = false -> r_amb out = false -> same_db (s_users s) (s_users (r_st out)).
Proof.
  intros HI Hb. unfold cmd_register.
  destruct (lookup t now s P) as [[s1 r1] a0] eqn:E1.
  pose proof (lookup_R _ _ _ _ _ HI Hb E1) as R1. pose proof R1 as [I1 [B1 _]].
  destruct (name_lookup_facts s1 name (i_cache _ I1)) as [HC2 [Hu2 [Hc2 [Hr2 Hn2]]]].
  destruct (getUserIdByName s1 name) as [s2 rn]. cbn [fst] in *.
  assert (D02 : a0 = false -> same_db (s_users s) (s_users s2)).
  { intro Ea. rewrite Hu2. destruct R1 as [_ [_ D1]]. apply D1. exact Ea. }
  destruct rn as [x|e]; [cbn; intros _ Ea; apply D02; exact Ea|].
  destruct (negb (o_name o)); [cbn; intros _ Ea; apply D02; exact Ea|].
  assert (Hfresh : nget (s_next s2 + 1) (s_users s2) = None).
  { destruct (nget (s_next s2 + 1) (s_users s2)) as [v|] eqn:Ev; [|reflexivity]. exfalso.
    rewrite Hu2 in Ev. specialize (B1 _ _ Ev). rewrite Hn2 in B1. lia. }
  assert (Hgo : forall addmask,
    let out := (let '(s3, id) := newUser s2 in
                let undo (s' : st) (e : exn) :=
                  match first_handler gen.T04.REGISTER_HANDLERS e with
                  | Some true => Out (fst (delUser s' id)) false a0 true
                  | _ => Out s' false a0 true
                  end in
                if addmask && negb (o_long o) then undo (store s3 id (User name [] [] false)) ValueError
                else let u := User name (if addmask then [P] else []) [] false in
                     let '(s4, r4) := setUser t now (store s3 id u) id u in
                     match r4 with Ok _ => Out s4 true a0 false | Raise e => undo s4 e end) in
    r_ok out = false -> r_amb out = false -> same_db (s_users s) (s_users (r_st out))).
  { intro addmask. unfold newUser. cbv zeta. set (id := s_next s2 + 1) in *.
    set (s3 := St (uset id (User [] [] [] false) (s_users s2)) (s_hcache s2) (s_hrev s2) (s_ncache s2) (s_nrev s2) id).
    assert (HC3 : CacheInv s3) by (destruct HC2 as [A]; split; assumption).
    assert (Hstore : forall u, s_users (store s3 id u) = nset id u (s_users s2)).
    { intro u. unfold store, s3. cbn [with_users s_users]. rewrite !uset_nset. apply nset_nset_same. }
    destruct (addmask && negb (o_long o)).
    - rewrite T04_register_v. cbn [r_ok r_amb r_st]. intros _ Ea.
      rewrite (delUser_users _ _ (User name [] [] false)); [|rewrite Hstore; apply nget_nset_same].
      eapply same_db_trans; [apply D02; exact Ea|]. rewrite Hstore.
      apply (same_db_ndel_fresh _ _ (User name [] [] false)); [exact Hfresh|apply same_db_refl].
    - set (u := User name (if addmask then [P] else []) [] false).
      assert (Hnu : nget id (s_users (store s3 id u)) = Some u) by (rewrite Hstore; apply nget_nset_same).
      assert (HCs : CacheInv (store s3 id u)) by (apply CacheInv_users; exact HC3).
      pose proof (setUser_refused (store s3 id u) id u) as Href.
      destruct (setUser t now (store s3 id u) id u) as [s4 r4]. cbn [fst snd] in Href.
      destruct r4 as [y|e4]; [cbn; intros; discriminate|].
      destruct (Href e4 HCs Hnu eq_refl) as [Ee [Hdb Hu4]]. subst e4.
      rewrite T04_register. cbn [r_ok r_amb r_st]. intros _ Ea.
      rewrite (delUser_users _ _ u Hu4).
      eapply same_db_trans; [apply D02; exact Ea|].
      apply (same_db_ndel_fresh _ _ u); [exact Hfresh|]. rewrite <- Hstore. exact Hdb. }
  destruct r1 as [x|e1].
  - destruct (o_owner o); [apply Hgo|cbn; intros _ Ea; apply D02; exact Ea].
  - destruct e1; try (cbn; intros _ Ea; apply D02; exact Ea). apply Hgo.
Qed.

Lemma cmd_secure_R o s P value :
  Inv s -> ids_bounded s ->
  let out := cmd_secure t now o s P value in
  r_ok out = false -> r_amb out = false -> same_db (s_users s) (s_users (r_st out)).
Proof.
  intros HI Hb. unfold cmd_secure.
  destruct (lookup t now s P) as [[s1 r1] a0] eqn:E1.
  pose proof (lookup_R _ _ _ _ _ HI Hb E1) as [I1 [B1 D1]].
  destruct r1 as [uid|e]; [|cbn; intros _ Ea; apply D1; exact Ea].
  rewrite uget_nget. destruct (nget uid (s_users s1)) as [u|] eqn:Eu; [|cbn; intros _ Ea; apply D1; exact Ea].
  destruct (negb (o_pw o)); [cbn; intros _ Ea; apply D1; exact Ea|].
  pose proof (checkHostmask_same false u P gen.T04.SECURE_GUARD_USEAUTH) as Hs.
  destruct (checkHostmask false t now u P gen.T04.SECURE_GUARD_USEAUTH) as [u1 x]. cbn [fst] in Hs.
  pose proof (store_R s1 uid u u1 I1 B1 Eu Hs) as [I2 [B2 D2]]. cbv zeta.
  destruct (truthy x); [|cbn; intros _ Ea; eapply same_db_trans; [apply D1; exact Ea|apply D2; reflexivity]].
  set (v := match value with Some b => b | None => negb (u_secure u) end).
  pose proof (refused_edit (store s1 uid u1) uid u1 (set_secure u1 v)) as Href.
  destruct (setUser t now (store (store s1 uid u1) uid (set_secure u1 v)) uid (set_secure u1 v)) as [s3 r3].
  destruct r3 as [y|e3]; [cbn; intros; discriminate|].
  assert (Hu1 : nget uid (s_users (store s1 uid u1)) = Some u1).
  { unfold store. cbn [with_users s_users]. rewrite uset_nset. apply nget_nset_same. }
  destruct (Href s3 e3 (i_cache _ I2) Hu1 eq_refl) as [Ee [Hu3 Hdb]]. subst e3.
  rewrite T04_secure, uget_nget, Hu3. cbn [r_ok r_amb r_st]. intros _ Ea.
  assert (Eq : set_secure (set_secure u1 v) (u_secure u1) = u1) by (destruct u1; reflexivity). rewrite Eq.
  eapply same_db_trans; [apply D1; exact Ea|]. eapply same_db_trans; [apply D2; reflexivity|exact Hdb].
Qed.

(* ---- the theorem ---- *)
(* the domain left: no lookup of the command ran the Multiple-matches branch
   (whose removal of the offending hostmasks is the lookup's own doing) *)
Definition no_trace_dom (out : outcome) : Prop := r_amb out = false.

Theorem refused_no_trace o s P c :
  Inv s -> ids_bounded s ->
  let out := run_cmd t now o s P c in
  r_ok out = false -> no_trace_dom out ->
  same_db (s_users s) (s_users (r_st out)).
Proof.
  intros HI Hb. unfold run_cmd, no_trace_dom.
  set (body := cmd_body t now o s P c).
  destruct (lookup t now (r_st body) P) as [[s' r'] a'] eqn:EL.
  cbn [r_ok r_amb r_set r_st]. intros Hok Hamb.
  apply orb_false_iff in Hamb as [Hamb Ha']. subst a'.
  eapply same_db_trans; [|eapply lookup_same; exact EL].
  unfold body in *. clear body EL. destruct c as [name mask|name mask|name| |name newname|name|value]; cbn [cmd_body] in *.
  - (* hostmask add *)
    unfold cmd_add in *. pose proof (add_prepare_R o s P name mask HI Hb) as Hp.
    destruct (add_prepare t now o s P name mask) as [s1 amb|s4 amb uid u1].
    + cbn [r_amb r_st] in *. destruct Hp as [_ [_ D]]. apply D. exact Hamb.
    + destruct Hp as [[I4 [B4 D4]] Hu1].
      pose proof (add_commit_refused s4 uid u1 mask (i_cache _ I4) Hu1) as Hc.
      destruct (add_commit t now s4 uid u1 mask) as [[s6 ok] raised]. cbn [fst snd r_ok r_amb r_st] in *.
      specialize (D4 Hamb). eapply same_db_trans; [exact D4|]. apply Hc. exact Hok.
  - apply cmd_remove_R; assumption.
  - apply cmd_identify_R; assumption.
  - apply cmd_unidentify_R; assumption.
  - apply cmd_changename_R; assumption.
  - apply cmd_register_R; assumption.
  - apply cmd_secure_R; assumption.
Qed.

(* ---- an accepted hostmask add keeps the invariant ---- *)
Theorem add_commit_accepted s4 uid u1 mask :
  Inv s4 -> ids_bounded s4 -> nget uid (s_users s4) = Some u1 ->
  let u2 := set_masks u1 (iset_add mask (u_masks u1)) in
  snd (fst (add_commit t now s4 uid u1 mask)) = true ->
  set_dom s4 uid u2 ->
  Inv (fst (fst (add_commit t now s4 uid u1 mask))) /\ ids_bounded (fst (fst (add_commit t now s4 uid u1 mask))).
Proof.
  intros HI Hb Hu u2 Hok Hdom. pose proof HI as [Hnd HC HL Hcoh].
  assert (Hauth : u_auth u2 = u_auth u1) by reflexivity.
  assert (Hrec : forall h, mask_match u2 h = false -> recog_ever u2 h = recog_ever u1 h -> True) by auto.
  assert (Hever : forall h, recog_ever u2 h = (existsb (fun e => seq_eqb h (snd e)) (u_auth u1) && negb (u_secure u1)) || mask_match u2 h) by reflexivity.
  assert (Hmono : forall h, recog_ever u1 h = true -> recog_ever u2 h = true).
  { intros h H. rewrite Hever. unfold recog_ever in H. apply orb_true_iff in H as [H|H]; [rewrite H; reflexivity|].
    apply orb_true_iff. right. unfold mask_match in *. unfold u2. cbn [set_masks u_masks]. unfold iset_add.
    destruct (existsb (ieq mask) (u_masks u1)); [exact H|]. rewrite existsb_app, H. reflexivity. }
  assert (Hsetgen : Inv (fst (setUser t now (store s4 uid u2) uid u2)) /\ ids_bounded (fst (setUser t now (store s4 uid u2) uid u2))
                    \/ snd (setUser t now (store s4 uid u2) uid u2) <> Ok tt).
  { destruct (snd (setUser t now (store s4 uid u2) uid u2)) as [[]|e] eqn:Es; [left|right; discriminate].
    apply set_gen; unfold store; cbn [with_users s_users s_hcache s_next]; rewrite ?uset_nset.
    - apply NoDup_nset. exact Hnd.
    - apply CacheInv_users. exact HC.
    - intros h j Hg. destruct (N.eq_dec j uid) as [E|E]; [subst; rewrite nget_nset_same; discriminate|].
      rewrite nget_nset_other by exact E. exact (HL _ _ Hg).
    - intros j x Hj. cbn [with_users s_users s_next] in *.
      destruct (N.eq_dec j uid) as [E|E]; [subst; exact (Hb _ _ Hu)|].
      rewrite nget_nset_other in Hj by exact E. exact (Hb _ _ Hj).
    - (* coherence of the cache for the edited list *)
      intros h j Hg _.
      assert (Hothers : mask_match u2 h = true -> recog_ever u1 h = false ->
                        forall k x, k <> uid -> nget k (s_users s4) = Some x -> recog_ever x h = false).
      { intros Hm H1 k x Hk Hx. apply (Hdom h k x Hk Hx Hm). intros uo Huo. rewrite Hu in Huo. inversion Huo; subst. exact H1. }
      assert (Hkeep : mask_match u2 h = false -> recog_ever u1 h = false -> recog_ever u2 h = false).
      { intros Hm H1. rewrite Hever, Hm, orb_false_r. unfold recog_ever in H1. apply orb_false_iff in H1 as [H1 _]. exact H1. }
      destruct (Hcoh _ _ Hg) as [A|B]; destruct (N.eq_dec j uid) as [E|E].
      + subst j. specialize (A u1 Hu). destruct (mask_match u2 h) eqn:Em.
        * right. intros k x Hk Hx. rewrite nget_nset_other in Hx by exact Hk. exact (Hothers eq_refl A k x Hk Hx).
        * left. intros x Hx. rewrite nget_nset_same in Hx. inversion Hx; subst x. exact (Hkeep eq_refl A).
      + left. intros x Hx. rewrite nget_nset_other in Hx by exact E. apply A. exact Hx.
      + subst j. right. intros k x Hk Hx. rewrite nget_nset_other in Hx by exact Hk. apply (B k); assumption.
      + assert (H1 : recog_ever u1 h = false) by (apply (B uid); [congruence|exact Hu]).
        destruct (mask_match u2 h) eqn:Em.
        * left. intros x Hx. rewrite nget_nset_other in Hx by exact E. exact (Hothers eq_refl H1 j x E Hx).
        * right. intros k x Hk Hx. destruct (N.eq_dec k uid) as [Ek|Ek].
          -- subst k. rewrite nget_nset_same in Hx. inversion Hx; subst x. exact (Hkeep eq_refl H1).
          -- rewrite nget_nset_other in Hx by exact Ek. apply (B k); assumption.
    - intros _ h j Hg Hne Hm HD2. exfalso.
      assert (Hr : recog_ever u2 h = false) by (apply (HD2 uid); [congruence|apply nget_nset_same]).
      rewrite Hever, Hm, orb_true_r in Hr. discriminate. }
  unfold add_commit in *. fold u2 in Hok |- *.
  destruct (setUser t now (store s4 uid u2) uid u2) as [s6 r6]. cbn [fst snd] in *.
  destruct r6 as [[]|e].
  - cbn [fst snd]. destruct Hsetgen as [H|H]; [exact H|contradiction].
  - exfalso. destruct (first_handler gen.T04.HM_ADD_HANDLERS e) as [[|]|]; try (cbn in Hok; discriminate).
    destruct (gen.T04.HM_ADD_GUARDED && existsb (ieq mask) (u_masks u1)); [cbn in Hok; discriminate|].
    destruct (uget uid (s_users s6)) as [u6|]; [|cbn in Hok; discriminate].
    destruct (iset_remove mask (u_masks u6)); cbn in Hok; discriminate.
Qed.

End SameDb.

Theorem accepted_add_keeps_invariant t now o s P name mask :
  Inv s -> ids_bounded s ->
  r_ok (run_cmd t now o s P (CAdd name mask)) = true ->
  (forall s4 amb uid u1, add_prepare t now o s P name mask = PGo s4 amb uid u1 ->
                         set_dom s4 uid (set_masks u1 (iset_add mask (u_masks u1)))) ->
  Inv (r_st (run_cmd t now o s P (CAdd name mask))) /\ ids_bounded (r_st (run_cmd t now o s P (CAdd name mask))).
Proof.
  intros HI Hb. unfold run_cmd. cbn [cmd_body]. unfold cmd_add.
  pose proof (add_prepare_R t now o s P name mask HI Hb) as Hp.
  destruct (add_prepare t now o s P name mask) as [s1 amb|s4 amb uid u1].
  - cbn [r_st r_ok]. destruct (lookup t now s1 P) as [[s' r'] a']. cbn. discriminate.
  - destruct Hp as [[I4 [B4 _]] Hu1]. intros Hok Hdom. specialize (Hdom s4 amb uid u1 eq_refl).
    pose proof (add_commit_accepted t now s4 uid u1 mask I4 B4 Hu1) as Hc. cbv zeta in Hc.
    destruct (add_commit t now s4 uid u1 mask) as [[s6 ok] raised]. cbn [fst snd r_st r_ok] in *.
    assert (Hok' : ok = true).
    { destruct (lookup t now s6 P) as [[s' r'] a']. cbn in Hok. exact Hok. }
    destruct (Hc Hok' Hdom) as [I6 B6].
    pose proof (lookup_preserves t now s6 P I6 B6) as Hl. unfold lookup.
    destruct (getUserId t now s6 P) as [s' r']. cbn [fst] in Hl. cbn [r_st]. exact Hl.
Qed.

(* ---- non-vacuity: the old witnesses of the repaired findings F23 / F24 and
   the refused overlapping hostmask add are refusals inside the domain ---- *)
Definition hQ : str := [113;33;113;64;113].                                  (* q!q@q *)
Definition nU1 : str := [117;49].
Definition orc_pw : oracle := Oracle true false true true true.
Definition f23_state : st :=
  run_ops 0 init [(1000%Z, ONew); (1000%Z, ONew); (1000%Z, OSet 1 (User nU1 [hAB] [] false));
                  (1000%Z, OSet 2 (User [117;50] [] [] false)); (1000%Z, OAuth 2 hAB)].

(* identify refused by users.setUser: the login is taken back *)
Example identify_refused_no_trace :
  let out := run_cmd 0 1000 orc_pw f23_state hQ (CIdentify nU1) in
  r_ok out = false /\ r_amb out = false /\ r_set out = true /\
  s_users (r_st out) = s_users f23_state /\ recognised_by 0 1000 (r_st out) hQ = [].
Proof. vm_compute. auto 6. Qed.

(* hostmask add of an owned mask, refused because of another mask: the owned mask stays *)
Definition hZZ : str := [122;122;33;122;122;64;122;122].
Definition f24_state : st :=
  run_ops 0 init [(1000%Z, ONew); (1000%Z, ONew); (1000%Z, OSet 1 (User nU1 [hAB; hZZ] [] false));
                  (1000%Z, OSet 2 (User [117;50] [] [] false)); (1000%Z, OAuth 2 hZZ)].
Example add_owned_refused_no_trace :
  let out := run_cmd 0 1000 orc_pw f24_state hQ (CAdd nU1 hAB) in
  r_ok out = false /\ r_amb out = false /\ r_set out = true /\ s_users (r_st out) = s_users f24_state.
Proof. vm_compute. auto 6. Qed.

(* bob adds a mask that overlaps alice's; users.setUser refuses; the edit is undone *)
Definition add_state : st :=
  run_ops 0 init [(1000%Z, ONew); (1000%Z, ONew); (1000%Z, OSet 1 (User nU1 [[97;98;33;42;64;121]] [] false));
                  (1000%Z, OSet 2 (User [117;50] [hZZ] [] false))].
Definition mWide : str := [42;33;42;64;121].                                 (* *!*@y *)

Example add_refused_in_domain :
  let out := run_cmd 0 1000 orc_pw add_state hZZ (CAdd [117;50] mWide) in
  r_ok out = false /\ r_set out = true /\ no_trace_dom out /\ s_users (r_st out) = s_users add_state.
Proof. vm_compute. auto 6. Qed.

(* the old witness of F26: user set secure refused by users.setUser puts the flag back *)
Example secure_refused_no_trace :
  let out := run_cmd 0 1000 orc_pw f24_state hAB (CSecure (Some true)) in
  r_ok out = false /\ r_amb out = false /\ r_set out = true /\ s_users (r_st out) = s_users f24_state.
Proof. vm_compute. auto 6. Qed.

Example add_accepted_example :
  r_ok (run_cmd 0 1000 orc_pw add_state hZZ (CAdd [117;50] hQ)) = true.
Proof. vm_compute. reflexivity. Qed.
