(* C04/Assoc.v — lemmas about the association lists of the model *)
From Coq Require Import List NArith ZArith Bool Lia.
Import ListNotations.
Require Import Base.Wire Base.PyStr C04.Model.
Open Scope N_scope.

Lemma NoDup_app_snoc {B} (l : list B) x : NoDup l -> ~ In x l -> NoDup (l ++ [x]).
Proof.
  intros Hnd Hni. induction l as [|y l IH]; [constructor; [intros []|constructor]|].
  inversion Hnd as [|? ? Hy Hl]; subst. cbn [app]. constructor.
  - intro Hin. apply in_app_iff in Hin as [Hin|[Hin|[]]]; [contradiction|]. subst. apply Hni. left. reflexivity.
  - apply IH; [exact Hl|]. intro Hin. apply Hni. right. exact Hin.
Qed.

Lemma seq_eqb_sym a b : seq_eqb a b = seq_eqb b a.
Proof.
  destruct (seq_eqb a b) eqn:E1, (seq_eqb b a) eqn:E2; try reflexivity.
  - apply seq_eqb_eq in E1. subst. rewrite seq_eqb_refl in E2. discriminate.
  - apply seq_eqb_eq in E2. subst. rewrite seq_eqb_refl in E1. discriminate.
Qed.

Section NKeys.
Context {A : Type}.
Implicit Types (l : list (N * A)).

Lemma nget_nset_same id (v : A) l : nget id (nset id v l) = Some v.
Proof.
  induction l as [|[i w] l IH]; cbn [nset nget]; [rewrite N.eqb_refl; reflexivity|].
  destruct (N.eqb i id) eqn:E; cbn [nget]; rewrite E; [reflexivity|exact IH].
Qed.

Lemma nget_nset_other id j (v : A) l : j <> id -> nget j (nset id v l) = nget j l.
Proof.
  intro Hne. induction l as [|[i w] l IH]; cbn [nset nget].
  - destruct (N.eqb id j) eqn:E; [apply N.eqb_eq in E; congruence|reflexivity].
  - destruct (N.eqb i id) eqn:E; cbn [nget].
    + apply N.eqb_eq in E. subst i. destruct (N.eqb id j) eqn:E2; [apply N.eqb_eq in E2; congruence|reflexivity].
    + destruct (N.eqb i j); [reflexivity|exact IH].
Qed.

Lemma nget_ndel_same id l : nget id (@ndel A id l) = None.
Proof.
  induction l as [|[i w] l IH]; [reflexivity|]. cbn [ndel filter fst].
  destruct (N.eqb i id) eqn:E; cbn [negb]; [exact IH|]. cbn [nget]. rewrite E. exact IH.
Qed.

Lemma nget_ndel_other id j l : j <> id -> nget j (@ndel A id l) = nget j l.
Proof.
  intro Hne. induction l as [|[i w] l IH]; [reflexivity|]. cbn [ndel filter fst].
  destruct (N.eqb i id) eqn:E; cbn [negb].
  - apply N.eqb_eq in E. subst i. cbn [nget].
    destruct (N.eqb id j) eqn:E2; [apply N.eqb_eq in E2; congruence|exact IH].
  - cbn [nget]. destruct (N.eqb i j); [reflexivity|exact IH].
Qed.

Lemma nget_In id (v : A) l : nget id l = Some v -> In (id, v) l.
Proof.
  induction l as [|[i w] l IH]; cbn [nget]; [discriminate|].
  destruct (N.eqb i id) eqn:E; intro H.
  - inversion H; subst. apply N.eqb_eq in E. subst. left. reflexivity.
  - right. apply IH. exact H.
Qed.

Lemma In_nget id (v : A) l : NoDup (map fst l) -> In (id, v) l -> nget id l = Some v.
Proof.
  induction l as [|[i w] l IH]; intros Hnd Hin; [destruct Hin|].
  cbn [map fst] in Hnd. inversion Hnd as [|? ? Hni Hnd']; subst.
  cbn [nget]. destruct Hin as [Hin|Hin].
  - inversion Hin; subst. rewrite N.eqb_refl. reflexivity.
  - destruct (N.eqb i id) eqn:E.
    + apply N.eqb_eq in E. subst i. exfalso. apply Hni. apply in_map_iff. exists (id, v). auto.
    + apply IH; assumption.
Qed.

Lemma keys_nset id (v : A) l :
  map fst (nset id v l) = if existsb (N.eqb id) (map fst l) then map fst l else map fst l ++ [id].
Proof.
  induction l as [|[i w] l IH]; [reflexivity|]. cbn [nset map fst existsb].
  rewrite (N.eqb_sym id i). destruct (N.eqb i id) eqn:E; cbn [map fst orb]; [reflexivity|].
  rewrite IH. destruct (existsb (N.eqb id) (map fst l)); reflexivity.
Qed.

Lemma NoDup_nset id (v : A) l : NoDup (map fst l) -> NoDup (map fst (nset id v l)).
Proof.
  intro H. rewrite keys_nset. destruct (existsb (N.eqb id) (map fst l)) eqn:E; [exact H|].
  apply NoDup_app_snoc; [exact H|].
  intro Hin. assert (existsb (N.eqb id) (map fst l) = true).
  { apply existsb_exists. exists id. split; [exact Hin|apply N.eqb_refl]. }
  congruence.
Qed.

Lemma NoDup_ndel id l : NoDup (map fst l) -> NoDup (map fst (@ndel A id l)).
Proof.
  induction l as [|[i w] l IH]; intro H; [constructor|]. cbn [map fst] in H. inversion H as [|? ? Hni Hnd]; subst.
  cbn [ndel filter fst]. destruct (negb (N.eqb i id)); [|apply IH; exact Hnd].
  cbn [map fst]. constructor; [|apply IH; exact Hnd].
  intro Hin. apply Hni. apply in_map_iff in Hin as [[k x] [Hk Hin]]. cbn in Hk. subst k.
  apply filter_In in Hin as [Hin _]. apply in_map_iff. exists (i, x). auto.
Qed.

Lemma In_ndel id l j (v : A) : In (j, v) (ndel id l) -> In (j, v) l /\ j <> id.
Proof.
  unfold ndel. intro H. apply filter_In in H as [Hin Hb]. cbn [fst] in Hb.
  split; [exact Hin|]. intro E. subst. rewrite N.eqb_refl in Hb. discriminate.
Qed.
End NKeys.

Lemma uget_nget id us : uget id us = nget id us.
Proof. induction us as [|[i u] us IH]; [reflexivity|]. cbn [uget nget]. rewrite IH. reflexivity. Qed.
Lemma uset_nset id u us : uset id u us = nset id u us.
Proof. induction us as [|[i v] us IH]; [reflexivity|]. cbn [uset nset]. rewrite IH. reflexivity. Qed.
Lemma udel_ndel id us : udel id us = ndel id us.
Proof. reflexivity. Qed.

Section SKeys.
Context {A : Type}.
Implicit Types (l : list (str * A)).

Lemma dict_get_sdel_same k l : dict_get k (@sdel A k l) = None.
Proof.
  induction l as [|[k2 v] l IH]; [reflexivity|]. cbn [sdel filter fst].
  destruct (seq_eqb k2 k) eqn:E; cbn [negb]; [exact IH|].
  cbn [dict_get]. rewrite seq_eqb_sym, E. exact IH.
Qed.

Lemma dict_get_sdel_other k k' l : seq_eqb k' k = false -> dict_get k' (@sdel A k l) = dict_get k' l.
Proof.
  intro Hne. induction l as [|[k2 v] l IH]; [reflexivity|]. cbn [sdel filter fst].
  destruct (seq_eqb k2 k) eqn:E; cbn [negb].
  - apply seq_eqb_eq in E. subst k2. cbn [dict_get]. rewrite Hne. exact IH.
  - cbn [dict_get]. destruct (seq_eqb k' k2); [reflexivity|exact IH].
Qed.

Lemma dict_get_sdel_some k k' l v : dict_get k' (@sdel A k l) = Some v -> dict_get k' l = Some v /\ seq_eqb k' k = false.
Proof.
  intro H. destruct (seq_eqb k' k) eqn:E.
  - apply seq_eqb_eq in E. subst. rewrite dict_get_sdel_same in H. discriminate.
  - rewrite dict_get_sdel_other in H by exact E. auto.
Qed.

Lemma dict_get_snoc k l k2 (v : A) :
  dict_get k (l ++ [(k2, v)]) =
  match dict_get k l with Some w => Some w | None => if seq_eqb k k2 then Some v else None end.
Proof.
  induction l as [|[k3 w] l IH]; cbn [app dict_get]; [reflexivity|].
  destruct (seq_eqb k k3); [reflexivity|exact IH].
Qed.

Lemma dict_has_get k l : dict_has k l = match @dict_get A k l with Some _ => true | None => false end.
Proof. reflexivity. Qed.

Lemma dict_get_set_same k (v : A) l : dict_get k (dict_set k v l) = Some v.
Proof.
  induction l as [|[k2 w] l IH]; cbn [dict_set dict_get]; [rewrite seq_eqb_refl; reflexivity|].
  destruct (seq_eqb k k2) eqn:E; cbn [dict_get]; rewrite E; [reflexivity|exact IH].
Qed.

Lemma dict_get_set_other k k' (v : A) l : seq_eqb k' k = false -> dict_get k' (dict_set k v l) = dict_get k' l.
Proof.
  intro Hne. induction l as [|[k2 w] l IH]; cbn [dict_set dict_get]; [rewrite Hne; reflexivity|].
  destruct (seq_eqb k k2) eqn:E; cbn [dict_get].
  - apply seq_eqb_eq in E. subst k2. rewrite Hne. reflexivity.
  - destruct (seq_eqb k' k2); [reflexivity|exact IH].
Qed.
End SKeys.

Section NKeys2.
Context {A : Type}.
Implicit Types (l : list (N * A)).

Lemma nset_nset_same id (v w : A) l : nset id w (nset id v l) = nset id w l.
Proof.
  induction l as [|[i x] l IH]; cbn [nset].
  - rewrite N.eqb_refl. reflexivity.
  - destruct (N.eqb i id) eqn:E; cbn [nset]; rewrite E; [reflexivity|]. rewrite IH. reflexivity.
Qed.

Lemma nset_noop id (v : A) l : nget id l = Some v -> nset id v l = l.
Proof.
  induction l as [|[i x] l IH]; cbn [nget nset]; [discriminate|].
  destruct (N.eqb i id) eqn:E; intro H.
  - inversion H; subst. reflexivity.
  - rewrite IH by exact H. reflexivity.
Qed.

Lemma nget_None_notin id l : nget id l = None -> ~ In id (map fst l).
Proof.
  induction l as [|[i x] l IH]; cbn [nget map fst]; [intros _ []|].
  destruct (N.eqb i id) eqn:E; [discriminate|]. intros H [Hin|Hin].
  - subst. rewrite N.eqb_refl in E. discriminate.
  - exact (IH H Hin).
Qed.
End NKeys2.

Lemma existsb_rev {B} (f : B -> bool) l : existsb f (rev l) = existsb f l.
Proof.
  destruct (existsb f l) eqn:E.
  - apply existsb_exists in E as [x [Hin Hf]]. apply existsb_exists. exists x. split; [apply in_rev in Hin; exact Hin|exact Hf].
  - destruct (existsb f (rev l)) eqn:E2; [|reflexivity].
    apply existsb_exists in E2 as [x [Hin Hf]]. apply in_rev in Hin.
    assert (existsb f l = true) by (apply existsb_exists; eauto). congruence.
Qed.

Lemma uniq_rev_masks h seen l :
  existsb (fun e => seq_eqb h (snd e)) (uniq_rev seen l) =
  negb (existsb (seq_eqb h) seen) && existsb (fun e : Z * str => seq_eqb h (snd e)) l.
Proof.
  revert seen. induction l as [|[w m] l IH]; intro seen; [rewrite andb_false_r; reflexivity|].
  cbn [uniq_rev existsb snd]. destruct (existsb (seq_eqb m) seen) eqn:Em.
  - rewrite IH. destruct (seq_eqb h m) eqn:Eh; [|reflexivity].
    apply seq_eqb_eq in Eh. subst m. rewrite Em. reflexivity.
  - cbn [existsb snd]. rewrite IH. cbn [existsb].
    destruct (seq_eqb h m) eqn:Eh; cbn [orb].
    + apply seq_eqb_eq in Eh. subst m. rewrite Em. reflexivity.
    + reflexivity.
Qed.

Lemma dedupe_masks h a :
  existsb (fun e => seq_eqb h (snd e)) (dedupe_auth a) = existsb (fun e : Z * str => seq_eqb h (snd e)) a.
Proof. unfold dedupe_auth. rewrite existsb_rev, uniq_rev_masks, existsb_rev. reflexivity. Qed.
