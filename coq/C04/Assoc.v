(* C04/Assoc.v — lemmas about the association lists of the model *)
From Coq Require Import List NArith ZArith Bool Lia.
Import ListNotations.
Require Import Base.Wire Base.PyStr C04.Model.
Open Scope N_scope.

Section NKeys.
Context {A : Type}.
Implicit Types (l : list (N * A)).

Lemma nget_nset_same id (v : A) l : nget id (nset id v l) = Some v.
Proof.
  induction l as [|[i w] l IH]; cbn [nset nget]; [rewrite N.eqb_refl; reflexivity|].
  destruct (N.eqb i id) eqn:E; cbn [nget]; rewrite E; [reflexivity|exact IH].
Qed.

Lemma nget_nset_other id j (v : A) l : j <> id -> nget j (nset id v l) = nget j l.
Proof.
  intro Hne. induction l as [|[i w] l IH]; cbn [nset nget].
  - destruct (N.eqb id j) eqn:E; [apply N.eqb_eq in E; congruence|reflexivity].
  - destruct (N.eqb i id) eqn:E; cbn [nget].
    + apply N.eqb_eq in E. subst i. destruct (N.eqb id j) eqn:E2; [apply N.eqb_eq in E2; congruence|reflexivity].
    + destruct (N.eqb i j); [reflexivity|exact IH].
Qed.

Lemma nget_ndel_same id l : nget id (@ndel A id l) = None.
Proof.
  induction l as [|[i w] l IH]; [reflexivity|]. cbn [ndel filter fst].
  destruct (N.eqb i id) eqn:E; cbn [negb]; [exact IH|]. cbn [nget]. rewrite E. exact IH.
Qed.

Lemma nget_ndel_other id j l : j <> id -> nget j (@ndel A id l) = nget j l.
Proof.
  intro Hne. induction l as [|[i w] l IH]; [reflexivity|]. cbn [ndel filter fst].
  destruct (N.eqb i id) eqn:E; cbn [negb].
  - apply N.eqb_eq in E. subst i. cbn [nget].
    destruct (N.eqb id j) eqn:E2; [apply N.eqb_eq in E2; congruence|exact IH].
  - cbn [nget]. destruct (N.eqb i j); [reflexivity|exact IH].
Qed.

Lemma nget_In id (v : A) l : nget id l = Some v -> In (id, v) l.
Proof.
  induction l as [|[i w] l IH]; cbn [nget]; [discriminate|].
  destruct (N.eqb i id) eqn:E; intro H.
  - inversion H; subst. apply N.eqb_eq in E. subst. left. reflexivity.
  - right. apply IH. exact H.
Qed.

Lemma In_nget id (v : A) l : NoDup (map fst l) -> In (id, v) l -> nget id l = Some v.
Proof.
  induction l as [|[i w] l IH]; intros Hnd Hin; [destruct Hin|].
  cbn [map fst] in Hnd. inversion Hnd as [|? ? Hni Hnd']; subst.
  cbn [nget]. destruct Hin as [Hin|Hin].
  - inversion Hin; subst. rewrite N.eqb_refl. reflexivity.
  - destruct (N.eqb i id) eqn:E.
    + apply N.eqb_eq in E. subst i. exfalso. apply Hni. apply in_map_iff. exists (id, v). auto.
    + apply IH; assumption.
Qed.

Lemma keys_nset id (v : A) l :
  map fst (nset id v l) = if existsb (N.eqb id) (map fst l) then map fst l else map fst l ++ [id].
Proof.
  induction l as [|[i w] l IH]; [reflexivity|]. cbn [nset map fst existsb].
  rewrite (N.eqb_sym id i). destruct (N.eqb i id) eqn:E; cbn [map fst orb]; [reflexivity|].
  rewrite IH. destruct (existsb (N.eqb id) (map fst l)); reflexivity.
Qed.

Lemma NoDup_nset id (v : A) l : NoDup (map fst l) -> NoDup (map fst (nset id v l)).
Proof.
  intro H. rewrite keys_nset. destruct (existsb (N.eqb id) (map fst l)) eqn:E; [exact H|].
  apply NoDup_app_snoc; [exact H|].
  intro Hin. assert (existsb (N.eqb id) (map fst l) = true).
  { apply existsb_exists. exists id. split; [exact Hin|apply N.eqb_refl]. }
  congruence.
Qed.

Lemma NoDup_ndel id l : NoDup (map fst l) -> NoDup (map fst (@ndel A id l)).
Proof.
  induction l as [|[i w] l IH]; intro H; [constructor|]. cbn [map fst] in H. inversion H as [|? ? Hni Hnd]; subst.
  cbn [ndel filter fst]. destruct (negb (N.eqb i id)); [|apply IH; exact Hnd].
  cbn [map fst]. constructor; [|apply IH; exact Hnd].
  intro Hin. apply Hni. apply in_map_iff in Hin as [[k x] [Hk Hin]]. cbn in Hk. subst k.
  apply filter_In in Hin as [Hin _]. apply in_map_iff. exists (i, x). auto.
Qed.

Lemma In_ndel id l j (v : A) : In (j, v) (ndel id l) -> In (j, v) l /\ j <> id.
Proof.
  unfold ndel. intro H. apply filter_In in H as [Hin Hb]. cbn [fst] in Hb.
  split; [exact Hin|]. intro E. subst. rewrite N.eqb_refl in Hb. discriminate.
Qed.
End NKeys.

Lemma NoDup_app_snoc_N : True. Proof. trivial. Qed.

Lemma uget_nget id us : uget id us = nget id us.
Proof. induction us as [|[i u] us IH]; [reflexivity|]. cbn [uget nget]. rewrite IH. reflexivity. Qed.
Lemma uset_nset id u us : uset id u us = nset id u us.
Proof. induction us as [|[i v] us IH]; [reflexivity|]. cbn [uset nset]. rewrite IH. reflexivity. Qed.
Lemma udel_ndel id us : udel id us = ndel id us.
Proof. reflexivity. Qed.

Section SKeys.
Context {A : Type}.
Implicit Types (l : list (str * A)).

Lemma dict_get_sdel_same k l : dict_get k (@sdel A k l) = None.
Proof.
  induction l as [|[k2 v] l IH]; [reflexivity|]. cbn [sdel filter fst].
  destruct (seq_eqb k2 k) eqn:E; cbn [negb]; [exact IH|].
  cbn [dict_get]. rewrite seq_eqb_sym_local. rewrite E. exact IH.
Qed.
End SKeys.
