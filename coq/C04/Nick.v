(* C04/Nick.v — Irc.doNick following an identification through a nick change:
   the login is MOVED to the new hostmask (no growth, nothing left behind). *)
From Coq Require Import List NArith ZArith Bool Lia.
Import ListNotations.
Require Import Base.Wire Base.PyStr C04.Model C04.Sound C04.Assoc.
Require gen.T04.
Open Scope N_scope.

Lemma T04_nick_replaces : gen.T04.NICK_FOLLOW_REPLACES = true.
Proof. vm_compute. reflexivity. Qed.

(* what happens to one login when client P becomes newP *)
Definition moved (P newP : str) (e : Z * str) : Z * str := if ieq P (snd e) then (fst e, newP) else e.

Lemma byname_users' s name : s_users (fst (getUserIdByName s name)) = s_users s.
Proof.
  unfold getUserIdByName. destruct (dict_get (C03.Model.lower name) (s_ncache s)); [reflexivity|].
  destruct (find_name (C03.Model.lower name) (s_users s)) as [i|]; [|reflexivity].
  destruct (ninsert (C03.Model.lower name) i (s_ncache s) (s_nrev s)). reflexivity.
Qed.

(* an accepted users.setUser stores exactly the record it was given *)
Lemma setUser_ok_record t now s id u s' x : setUser t now s id u = (s', Ok x) -> nget id (s_users s') = Some u.
Proof.
  unfold setUser.
  destruct (invalidate_auth _ (u_auth u)) as [s0|e]; [|intro H; inversion H].
  destruct (getUserIdByName s0 (u_name u)) as [s1 r].
  destruct (match r with Ok other => negb (N.eqb other id) | Raise _ => false end); [intro H; inversion H|].
  destruct (overlap_all t now id (u_masks u) (s_users s1)) as [us1 dup].
  destruct dup; [intro H; inversion H|].
  destruct (invalidate_id (with_users s1 us1) id) as [s3|e]; intro H; inversion H.
  cbn [with_users s_users]. rewrite uset_nset. apply nget_nset_same.
Qed.

Lemma follow_loop_auth t now id P newP todo : forall done s s',
  follow_loop t now id P newP done todo [] s = (s', Ok tt) ->
  (exists u, nget id (s_users s) = Some u /\ u_auth u = done ++ todo) ->
  exists u', nget id (s_users s') = Some u' /\ u_auth u' = done ++ map (moved P newP) todo.
Proof.
  induction todo as [|[w m] rest IH]; intros done s s' H [u [Hu Ha]].
  - cbn [follow_loop] in H. inversion H; subst. exists u. split; [exact Hu|]. cbn [map]. exact Ha.
  - cbn [follow_loop] in H. cbn [map]. unfold moved at 1. cbn [snd fst]. destruct (ieq P m) eqn:Em.
    + rewrite uget_nget, Hu, T04_nick_replaces in H. rewrite app_nil_r in H.
      set (u' := set_auth u ((done ++ [(w, newP)]) ++ rest)) in *.
      destruct (setUser t now (store s id u') id u') as [s1 r] eqn:Es. destruct r as [[]|e]; [|inversion H].
      replace (done ++ (w, newP) :: map (moved P newP) rest) with ((done ++ [(w, newP)]) ++ map (moved P newP) rest)
        by (rewrite <- app_assoc; reflexivity).
      apply (IH _ _ _ H). exists u'. split; [exact (setUser_ok_record _ _ _ _ _ _ _ Es)|reflexivity].
    + replace (done ++ (w, m) :: map (moved P newP) rest) with ((done ++ [(w, m)]) ++ map (moved P newP) rest)
        by (rewrite <- app_assoc; reflexivity).
      apply (IH _ _ _ H). exists u. split; [exact Hu|]. rewrite Ha, <- app_assoc. reflexivity.
Qed.

(* After a followed nick change of a recognised client the account's logins are
   those it had, with the old hostmask replaced by the new one: the same number
   of logins, and none from the old hostmask (unless the nick only changed case). *)
Theorem nick_follow_moves_login t now s P newP s' id u :
  nickchange t now true s P newP = (s', Ok tt) ->
  snd (getUserId t now s P) = Ok id ->
  nget id (s_users (fst (getUserId t now s P))) = Some u ->
  exists u', nget id (s_users s') = Some u' /\
             u_auth u' = map (moved P newP) (u_auth u) /\
             length (u_auth u') = length (u_auth u) /\
             (ieq P newP = false -> forall e, In e (u_auth u') -> ieq P (snd e) = false).
Proof.
  unfold nickchange. cbn [negb]. destruct (getUserId t now s P) as [s1 r]. cbn [fst snd].
  intros H Hr Hu. subst r. rewrite uget_nget, Hu in H.
  destruct (follow_loop_auth t now id P newP (u_auth u) [] s1 s' H) as [u' [Hu' Ha]].
  { exists u. split; [exact Hu|reflexivity]. }
  cbn [app] in Ha. exists u'. split; [exact Hu'|]. split; [exact Ha|]. split; [rewrite Ha; apply map_length|].
  intros Hne e Hin. rewrite Ha in Hin. apply in_map_iff in Hin as [e0 [He0 _]]. subst e. unfold moved.
  destruct (ieq P (snd e0)) eqn:E; cbn [snd]; [exact Hne|exact E].
Qed.

(* non-vacuity: identified from ab!x@y, nick change to zed: the login is zed!x@y's *)
Definition hAB' : str := [97;98;33;120;64;121].
Definition hZed : str := [122;101;100;33;120;64;121].
Definition nick_state : st :=
  St [(1, User [117;49] [[122;122;33;122;122;64;122;122]] [(1000%Z, hAB')] false)] [] [] [] [] 1.
Example nick_follow_example :
  let '(s', r) := nickchange 0 1001 true nick_state hAB' hZed in
  r = Ok tt /\ s_users s' = [(1, User [117;49] [[122;122;33;122;122;64;122;122]] [(1000%Z, hZed)] false)] /\
  snd (getUserId 0 1001 s' hAB') = Raise KeyError /\ snd (getUserId 0 1001 s' hZed) = Ok 1.
Proof. vm_compute. auto. Qed.
