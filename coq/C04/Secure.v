(* C04/Secure.v — "a 'secure' account additionally requires a matching
   registered mask", over histories of API operations and User plugin commands.
   Since the repair of C04.F25 the rule is applied where an account is
   recognised (IrcUser.checkHostmask), so it holds in every state. *)
From Coq Require Import List NArith ZArith Bool Lia.
Import ListNotations.
Require Import Base.Wire Base.PyStr C04.Model C04.Sound C04.Assoc C04.Prune C04.Shrink C04.Coherent C04.Cmd.
Open Scope N_scope.

(* whoever is answered is recognised now, and if the account is secure one of
   its registered masks matches the hostmask: for every state, clock, timeout *)
Theorem secure_needs_mask_state t now s h id :
  snd (getUserId t now s h) = Ok id ->
  exists u, In (id, u) (s_users s) /\ recog t now u h = true /\ (u_secure u = true -> mask_match u h = true).
Proof.
  intro H. destruct (answer_recognised t now s h id H) as [u [Hin Hr]]. exists u. split; [exact Hin|]. split; [exact Hr|].
  intro Hsec. unfold recog in Hr. rewrite Hsec, andb_false_r in Hr. exact Hr.
Qed.

(* ---- histories of API operations and commands ---- *)
Inductive hop := HApi (o : op) | HCmd (orc : oracle) (P : str) (c : cmd).

Definition hstep (t now : Z) (s : st) (h : hop) : st :=
  match h with
  | HApi o => fst (step t now s o)
  | HCmd orc P c => r_st (run_cmd t now orc s P c)
  end.

Fixpoint hrun (t : Z) (s : st) (ops : list (Z * hop)) : st :=
  match ops with
  | [] => s
  | (now, h) :: r => hrun t (hstep t now s h) r
  end.

Theorem secure_needs_mask_after_history t ops now h id :
  snd (getUserId t now (hrun t init ops) h) = Ok id ->
  exists u, In (id, u) (s_users (hrun t init ops)) /\ recog t now u h = true /\
            (u_secure u = true -> mask_match u h = true).
Proof. apply secure_needs_mask_state. Qed.

(* ---- the old witness of F25: identify while the flag is off, then
   `user set secure <password> True` from a matching hostmask; the login from
   q!q@q is still in the account but no longer recognises anybody ---- *)
Definition f25_ops : list (Z * hop) :=
  [(1000%Z, HApi ONew); (1000%Z, HApi (OSet 1 (User nU1 [hAB] [] false)));
   (1000%Z, HCmd orc_pw hQ (CIdentify nU1)); (1000%Z, HCmd orc_pw hAB (CSecure (Some true)))].

Example f25_repaired :
  s_users (hrun 0 init f25_ops) = [(1, User nU1 [hAB] [(1000%Z, hQ)] true)] /\
  snd (getUserId 0 1000 (hrun 0 init f25_ops) hQ) = Raise KeyError /\
  snd (getUserId 0 1000 (hrun 0 init f25_ops) hAB) = Ok 1.
Proof. vm_compute. auto. Qed.
