(* C04/Secure.v — "a 'secure' account additionally requires a matching
   registered mask", over histories of API operations and User plugin commands.
   The code enforces it where a login is made (addAuth); SecInv says that every
   login of a secure account is from a hostmask one of its masks matches. *)
From Coq Require Import List NArith ZArith Bool Lia.
Import ListNotations.
Require Import Base.Wire Base.PyStr C04.Model C04.Sound C04.Assoc C04.Prune C04.Shrink C04.Coherent C04.Cmd.
Require gen.T04.
Open Scope N_scope.

Definition SecInv (u : user) : Prop :=
  u_secure u = true -> forall e, In e (u_auth u) -> mask_match u (snd e) = true.
Definition SecAll (us : list (N * user)) : Prop := forall k u, In (k, u) us -> SecInv u.

Lemma SecAll_nil : SecAll [].
Proof. intros k u []. Qed.

(* same masks and flag, fewer logins *)
Definition sub_user (u u' : user) : Prop :=
  u_masks u' = u_masks u /\ u_secure u' = u_secure u /\ (forall e, In e (u_auth u') -> In e (u_auth u)).

Lemma SecInv_sub u u' : SecInv u -> sub_user u u' -> SecInv u'.
Proof.
  intros H [Hm [Hs Ha]] Hsec e Hin. unfold mask_match. rewrite Hm. apply H; [congruence|apply Ha; exact Hin].
Qed.

Lemma same_user_sub t now u u' : same_user t now u u' -> sub_user u u'.
Proof. intros [_ [Hm [Hs [Ha _]]]]. split; [exact Hm|]. split; [exact Hs|exact Ha]. Qed.

Lemma SecAll_same_db t now us us' : SecAll us -> same_db t now us us' -> SecAll us'.
Proof.
  intros HS H. induction H as [|[i u] [i' u'] a b [Hk Hsu] H IH]; [exact SecAll_nil|].
  cbn [fst snd] in *. subst i'. intros k x [E|Hin].
  - inversion E; subst. eapply SecInv_sub; [eapply HS; left; reflexivity|eapply same_user_sub; exact Hsu].
  - apply (IH (fun k0 u0 H0 => HS k0 u0 (or_intror H0)) k x Hin).
Qed.

Lemma SecAll_uset us id u : SecAll us -> SecInv u -> SecAll (uset id u us).
Proof.
  intros HS Hu. induction us as [|[i v] us IH]; cbn [uset].
  - intros k x [E|[]]. inversion E; subst. exact Hu.
  - destruct (N.eqb i id).
    + intros k x [E|Hin]; [inversion E; subst; exact Hu|apply (HS k x); right; exact Hin].
    + intros k x [E|Hin]; [apply (HS k x); left; exact E|].
      apply (IH (fun k0 u0 H0 => HS k0 u0 (or_intror H0)) k x Hin).
Qed.

Lemma SecAll_udel us id : SecAll us -> SecAll (udel id us).
Proof. intros HS k x Hin. unfold udel in Hin. apply filter_In in Hin as [Hin _]. exact (HS k x Hin). Qed.

Lemma SecAll_get us k u : SecAll us -> uget k us = Some u -> SecInv u.
Proof. intros HS H. rewrite uget_nget in H. apply nget_In in H. exact (HS k u H). Qed.

Lemma SecAll_store s id u : SecAll (s_users s) -> SecInv u -> SecAll (s_users (store s id u)).
Proof. intros. unfold store. cbn [with_users s_users]. apply SecAll_uset; assumption. Qed.

(* ---- the primitives ---- *)
Lemma byname_users s name : s_users (fst (getUserIdByName s name)) = s_users s.
Proof.
  unfold getUserIdByName. destruct (dict_get (C03.Model.lower name) (s_ncache s)); [reflexivity|].
  destruct (find_name (C03.Model.lower name) (s_users s)); reflexivity.
Qed.

Lemma invalidate_auth_users auth s s' : invalidate_auth s auth = Ok s' -> s_users s' = s_users s.
Proof.
  unfold invalidate_auth. revert s. induction auth as [|e auth IH]; intro s; cbn [fold_left].
  - intro H. inversion H. reflexivity.
  - cbn [bind]. destruct (invalidate_h s (snd e)) as [s1|x] eqn:E1.
    + intro H. rewrite (IH _ H). exact (invalidate_h_users _ _ _ E1).
    + intro H. exfalso. clear -H. induction auth as [|a auth IH]; cbn [fold_left bind] in H; [discriminate|exact (IH H)].
Qed.

Lemma lookup_SecAll t now s h s' r a :
  SecAll (s_users s) -> lookup t now s h = (s', r, a) -> a = false -> SecAll (s_users s').
Proof. intros HS E Ea. subst a. eapply SecAll_same_db; [exact HS|eapply lookup_same; exact E]. Qed.

Lemma SecInv_checkHostmask istr t now u h ua : SecInv u -> SecInv (fst (checkHostmask istr t now u h ua)).
Proof. intro H. eapply SecInv_sub; [exact H|eapply same_user_sub; apply checkHostmask_same]. Qed.

(* users.setUser never breaks it when the record it is given is fine *)
Lemma setUser_SecAll t now s id u :
  SecAll (s_users s) -> SecInv u -> SecAll (s_users (fst (setUser t now s id u))).
Proof.
  intros HS Hu. unfold setUser.
  set (us0 := match uget id (s_users s) with Some _ => uset id u (s_users s) | None => s_users s end).
  assert (HS0 : SecAll us0) by (unfold us0; destruct (uget id (s_users s)); [apply SecAll_uset; assumption|exact HS]).
  assert (Hroll : forall us1, SecAll us1 -> SecAll (rollback (uget id (s_users s)) id us1)).
  { intros us1 H1. unfold rollback. destruct (uget id (s_users s)) as [u0|] eqn:E0; [|exact H1].
    apply SecAll_uset; [exact H1|]. exact (SecAll_get _ _ _ HS E0). }
  set (s00 := St us0 (s_hcache s) (s_hrev s) (s_ncache s) (s_nrev s) (N.max (s_next s) id)).
  destruct (invalidate_auth s00 (u_auth u)) as [s0|e] eqn:Ei; [|exact HS0].
  pose proof (invalidate_auth_users _ _ _ Ei) as Hu0. change (s_users s00) with us0 in Hu0.
  pose proof (byname_users s0 (u_name u)) as Hu1.
  destruct (getUserIdByName s0 (u_name u)) as [s1 r]. cbn [fst] in Hu1. rewrite Hu0 in Hu1.
  destruct (match r with Ok other => negb (N.eqb other id) | Raise _ => false end).
  { cbn [fst with_users s_users]. apply Hroll. rewrite Hu1. exact HS0. }
  pose proof (overlap_all_same t now id (u_masks u) (s_users s1)) as Hov.
  destruct (overlap_all t now id (u_masks u) (s_users s1)) as [us1 dup]. cbn [fst] in Hov. rewrite Hu1 in Hov.
  assert (HS1 : SecAll us1) by (eapply SecAll_same_db; eassumption).
  destruct dup; [cbn [fst with_users s_users]; apply Hroll; exact HS1|].
  destruct (invalidate_id (with_users s1 us1) id) as [s3|e] eqn:E3; cbn [fst with_users s_users].
  - rewrite (invalidate_id_users _ _ _ E3). cbn [with_users s_users]. apply SecAll_uset; assumption.
  - exact HS1.
Qed.

(* after a refusal the account that was edited in place is still the edited record *)
Lemma overlap_one_self t now self hm us : nget self (fst (overlap_one t now self hm us)) = nget self us.
Proof.
  induction us as [|[i u] us IH]; [reflexivity|]. cbn [overlap_one]. destruct (N.eqb i self) eqn:E.
  - destruct (overlap_one t now self hm us) as [r' b]. cbn [fst nget]. rewrite E. reflexivity.
  - destruct (checkHostmask true t now u hm true) as [u' x].
    destruct (truthy x); [cbn [fst nget]; rewrite E; reflexivity|].
    destruct (existsb (fun other => hmatch hm other) (u_masks u')); [cbn [fst nget]; rewrite E; reflexivity|].
    destruct (overlap_one t now self hm us) as [r' b]. cbn [fst nget] in *. rewrite E. exact IH.
Qed.

Lemma overlap_all_self t now self hms us : nget self (fst (overlap_all t now self hms us)) = nget self us.
Proof.
  revert us. induction hms as [|hm hms IH]; intro us; [reflexivity|]. cbn [overlap_all].
  pose proof (overlap_one_self t now self hm us) as H1.
  destruct (overlap_one t now self hm us) as [us' b]. cbn [fst] in H1.
  destruct b; [exact H1|]. rewrite IH. exact H1.
Qed.

Lemma setUser_raise_record t now s id u e :
  nget id (s_users s) = Some u -> snd (setUser t now s id u) = Raise e ->
  nget id (s_users (fst (setUser t now s id u))) = Some u.
Proof.
  intros Hu. unfold setUser. rewrite !uget_nget, Hu, uset_nset, (nset_noop _ _ _ Hu).
  set (s00 := St (s_users s) (s_hcache s) (s_hrev s) (s_ncache s) (s_nrev s) (N.max (s_next s) id)).
  destruct (invalidate_auth s00 (u_auth u)) as [s0|x] eqn:Ei; [|intros _; exact Hu].
  pose proof (invalidate_auth_users _ _ _ Ei) as Hu0. change (s_users s00) with (s_users s) in Hu0.
  pose proof (byname_users s0 (u_name u)) as Hu1.
  destruct (getUserIdByName s0 (u_name u)) as [s1 r]. cbn [fst] in Hu1. rewrite Hu0 in Hu1.
  destruct (match r with Ok other => negb (N.eqb other id) | Raise _ => false end).
  { intros _. cbn [fst with_users s_users]. unfold rollback. rewrite uset_nset. apply nget_nset_same. }
  pose proof (overlap_all_self t now id (u_masks u) (s_users s1)) as Hov.
  destruct (overlap_all t now id (u_masks u) (s_users s1)) as [us1 dup]. cbn [fst] in Hov. rewrite Hu1, Hu in Hov.
  destruct dup; [intros _; cbn [fst with_users s_users]; unfold rollback; rewrite uset_nset; apply nget_nset_same|].
  destruct (invalidate_id (with_users s1 us1) id) as [s3|x] eqn:E3; cbn [fst snd with_users s_users]; [discriminate|].
  intros _. exact Hov.
Qed.

Lemma mask_match_more u ms h :
  (forall p, In p (u_masks u) -> In p ms) -> mask_match u h = true -> mask_match (set_masks u ms) h = true.
Proof.
  unfold mask_match. cbn [set_masks u_masks]. intros Hsub H. apply existsb_exists in H as [p [Hin Hp]].
  apply existsb_exists. exists p. auto.
Qed.

Lemma SecInv_add_mask u mask : SecInv u -> SecInv (set_masks u (iset_add mask (u_masks u))).
Proof.
  intros H Hsec e Hin. cbn [set_masks u_secure u_auth] in *. apply mask_match_more.
  - intros p Hp. unfold iset_add. destruct (existsb (ieq mask) (u_masks u)); [exact Hp|apply in_or_app; left; exact Hp].
  - apply H; assumption.
Qed.

Lemma SecInv_addAuth now u h u' : SecInv u -> addAuth now u h = Ok u' -> SecInv u'.
Proof.
  intros H Ha. unfold addAuth in Ha.
  destruct (truthy (first_match (u_masks u) h) || negb (u_secure u)) eqn:Eg; [|discriminate].
  inversion Ha; subst u'. clear Ha. intros Hsec e Hin. cbn [u_secure u_auth] in *. unfold mask_match. cbn [u_masks].
  rewrite Hsec in Eg. cbn [negb] in Eg. rewrite orb_false_r in Eg. rewrite first_match_truthy in Eg.
  unfold dedupe_auth in Hin. apply in_rev in Hin.
  assert (Hsub : forall seen l x, In x (uniq_rev seen l) -> In x l).
  { clear. intros seen l. revert seen. induction l as [|[w m] l IH]; intros seen x; [intros []|]. cbn [uniq_rev].
    destruct (existsb (seq_eqb m) seen); [intro H; right; exact (IH _ _ H)|].
    intros [E|H]; [left; exact E|right; exact (IH _ _ H)]. }
  apply Hsub in Hin. apply in_rev in Hin. apply in_app_iff in Hin as [Hin|[E|[]]].
  - apply (H Hsec e Hin).
  - subst e. exact Eg.
Qed.

(* ---- API operations ---- *)
Lemma getUserId_SecAll t now s h :
  SecAll (s_users s) -> ambiguous t now s h = false -> SecAll (s_users (fst (getUserId t now s h))).
Proof.
  intros HS Ha. eapply SecAll_same_db; [exact HS|]. apply getUserId_same_db. intros e _.
  rewrite <- recognisers_spec. unfold ambiguous in Ha.
  destruct (length (recognisers t now s h)) as [|[|n]]; [lia|lia|]. cbn in Ha. discriminate.
Qed.

Lemma delUser_SecAll s id : SecAll (s_users s) -> SecAll (s_users (fst (delUser s id))).
Proof.
  intro HS. unfold delUser. destruct (uget id (s_users s)); [|exact HS].
  destruct (invalidate_id (with_users s (udel id (s_users s))) id) as [s1|e] eqn:E; cbn [fst].
  - rewrite (invalidate_id_users _ _ _ E). cbn [with_users s_users]. apply SecAll_udel. exact HS.
  - cbn [with_users s_users]. apply SecAll_udel. exact HS.
Qed.

Lemma SecInv_empty name ms : SecInv (User name ms [] false).
Proof. intros H. discriminate. Qed.

Lemma SecInv_noauth u : SecInv (set_auth u []).
Proof. intros _ e []. Qed.

Lemma newUser_SecAll s : SecAll (s_users s) -> SecAll (s_users (fst (newUser s))).
Proof. intro HS. unfold newUser. cbn [fst s_users]. apply SecAll_uset; [exact HS|apply SecInv_empty]. Qed.

Lemma opClearAuth_shape s uid s2 x :
  opClearAuth s uid = (s2, Ok x) ->
  exists u, nget uid (s_users s) = Some u /\ s_users s2 = uset uid (set_auth u []) (s_users s).
Proof.
  unfold opClearAuth. rewrite uget_nget. destruct (nget uid (s_users s)) as [u|]; [|intro E; inversion E].
  destruct (invalidate_auth s (u_auth u)) as [s1|e] eqn:Ei; intro E; inversion E.
  exists u. split; [reflexivity|]. cbn [with_users s_users]. rewrite (invalidate_auth_users _ _ _ Ei). reflexivity.
Qed.

Lemma opClearAuth_SecAll s uid : SecAll (s_users s) -> SecAll (s_users (fst (opClearAuth s uid))).
Proof.
  intro HS. destruct (opClearAuth s uid) as [s2 r] eqn:E. destruct r as [x|e].
  - destruct (opClearAuth_shape _ _ _ _ E) as [u [_ Hs2]]. cbn [fst]. rewrite Hs2. apply SecAll_uset; [exact HS|apply SecInv_noauth].
  - unfold opClearAuth in E. destruct (uget uid (s_users s)) as [u|]; [|inversion E; subst; exact HS].
    destruct (invalidate_auth s (u_auth u)); inversion E. subst. exact HS.
Qed.

Lemma opIdentify_SecAll t now s id h : SecAll (s_users s) -> SecAll (s_users (fst (opIdentify t now s id h))).
Proof.
  intro HS. unfold opIdentify. destruct (uget id (s_users s)) as [u|] eqn:Eu; [|exact HS].
  destruct (addAuth now u h) as [u'|e] eqn:Ea; [|exact HS].
  assert (Hu' : SecInv u') by (eapply SecInv_addAuth; [exact (SecAll_get _ _ _ HS Eu)|exact Ea]).
  apply setUser_SecAll; [cbn [with_users s_users]; apply SecAll_uset; assumption|exact Hu'].
Qed.

(* ---- commands ---- *)
Lemma resolve_users s name s' tgt :
  resolve s name = (s', tgt) ->
  s_users s' = s_users s /\ (forall uid u, tgt = Some (uid, u) -> nget uid (s_users s') = Some u).
Proof.
  unfold resolve. pose proof (byname_users s name) as Hu.
  destruct (getUserIdByName s name) as [s1 r]. cbn [fst] in Hu.
  destruct r as [id|e]; intro E; inversion E; subst; (split; [exact Hu|]).
  - intros uid u Ht. rewrite uget_nget in Ht. destruct (nget id (s_users s')) eqn:En; inversion Ht; subst. exact En.
  - intros uid u Ht. discriminate.
Qed.

Lemma authorised_SecAll t now o s uid u P s' ok :
  SecAll (s_users s) -> nget uid (s_users s) = Some u -> authorised t now o s uid u P = (s', ok) -> SecAll (s_users s').
Proof.
  intros HS Hu. unfold authorised. destruct (o_pw o); [intro E; inversion E; subst; exact HS|].
  pose proof (SecInv_checkHostmask false t now u P true) as Hc.
  destruct (checkHostmask false t now u P true) as [u1 x]. cbn [fst] in Hc.
  intro E. inversion E; subst. apply SecAll_store; [exact HS|]. apply Hc. apply (HS uid). apply nget_In. exact Hu.
Qed.

Lemma store_record s uid u : nget uid (s_users (store s uid u)) = Some u.
Proof. unfold store. cbn [with_users s_users]. rewrite uset_nset. apply nget_nset_same. Qed.

Lemma add_prepare_SecAll t now o s P name mask :
  SecAll (s_users s) ->
  match add_prepare t now o s P name mask with
  | PErr s' amb => amb = false -> SecAll (s_users s')
  | PGo s4 amb uid u1 => amb = false -> SecAll (s_users s4) /\ nget uid (s_users s4) = Some u1
  end.
Proof.
  intro HS. unfold add_prepare.
  destruct (lookup t now s P) as [[s1 r1] a0] eqn:E1.
  destruct (resolve s1 name) as [s2 tgt] eqn:E2. destruct (resolve_users _ _ _ _ E2) as [Hu2 Ht].
  assert (H2 : a0 = false -> SecAll (s_users s2)) by (intro Ea; rewrite Hu2; eapply lookup_SecAll; eassumption).
  destruct tgt as [[uid u0]|]; [|exact H2]. destruct (negb (o_shape o)); [exact H2|].
  destruct (lookup t now s2 mask) as [[s3 r3] a3] eqn:E3.
  assert (H3 : a0 || a3 = false -> SecAll (s_users s3)).
  { intro Ea. apply orb_false_iff in Ea as [Ea0 Ea3]. eapply lookup_SecAll; [apply H2; exact Ea0|exact E3|exact Ea3]. }
  assert (Hcont :
    match (match uget uid (s_users s3) with
           | None => PErr s3 (a0 || a3)
           | Some u =>
             let '(s4, ok) := authorised t now o s3 uid u P in
             if negb ok then PErr s4 (a0 || a3) else
             if negb (o_long o) then PErr s4 (a0 || a3) else
             match uget uid (s_users s4) with
             | None => PErr s4 (a0 || a3)
             | Some u1 => PGo s4 (a0 || a3) uid u1
             end
           end) with
    | PErr s' amb => amb = false -> SecAll (s_users s')
    | PGo s4 amb uid u1 => amb = false -> SecAll (s_users s4) /\ nget uid (s_users s4) = Some u1
    end).
  { rewrite uget_nget. destruct (nget uid (s_users s3)) as [u|] eqn:Eu; [|exact H3].
    destruct (authorised t now o s3 uid u P) as [s4 ok] eqn:E4.
    assert (H4 : a0 || a3 = false -> SecAll (s_users s4)).
    { intro Ea. eapply authorised_SecAll; [apply H3; exact Ea|exact Eu|exact E4]. }
    destruct (negb ok); [exact H4|]. destruct (negb (o_long o)); [exact H4|].
    rewrite uget_nget. destruct (nget uid (s_users s4)) as [u1|] eqn:Eu1; [|exact H4].
    intro Ea. split; [apply H4; exact Ea|exact Eu1]. }
  destruct r3 as [other|e].
  - destruct (N.eqb other uid); [exact Hcont|exact H3].
  - destruct e; try exact H3. exact Hcont.
Qed.

Lemma add_commit_SecAll t now s4 uid u1 mask :
  SecAll (s_users s4) -> nget uid (s_users s4) = Some u1 ->
  SecAll (s_users (fst (fst (add_commit t now s4 uid u1 mask)))).
Proof.
  intros HS Hu. unfold add_commit.
  assert (H1 : SecInv u1) by (apply (HS uid); apply nget_In; exact Hu).
  set (u2 := set_masks u1 (iset_add mask (u_masks u1))).
  assert (H2 : SecInv u2) by (apply SecInv_add_mask; exact H1).
  pose proof (setUser_SecAll t now (store s4 uid u2) uid u2 (SecAll_store _ _ _ HS H2) H2) as H6.
  pose proof (setUser_raise_record t now (store s4 uid u2) uid u2) as Hrec.
  destruct (setUser t now (store s4 uid u2) uid u2) as [s6 r6]. cbn [fst snd] in *.
  destruct r6 as [x|e]; [exact H6|].
  specialize (Hrec e (store_record _ _ _) eq_refl).
  destruct (first_handler gen.T04.HM_ADD_HANDLERS e) as [[|]|]; try exact H6.
  rewrite T04_add_guarded. cbn [andb].
  destruct (existsb (ieq mask) (u_masks u1)) eqn:Ehad; [exact H6|].
  rewrite uget_nget, Hrec.
  assert (Erm : iset_remove mask (u_masks u2) = Ok (u_masks u1)).
  { unfold u2. cbn [set_masks u_masks]. apply iset_add_remove. exact Ehad. }
  rewrite Erm. cbn [fst].
  assert (Eu : set_masks u2 (u_masks u1) = u1) by (destruct u1; reflexivity).
  rewrite Eu. apply SecAll_store; assumption.
Qed.

Lemma cmd_add_SecAll t now o s P name mask :
  SecAll (s_users s) ->
  let out := cmd_add t now o s P name mask in r_amb out = false -> SecAll (s_users (r_st out)).
Proof.
  intro HS. unfold cmd_add. pose proof (add_prepare_SecAll t now o s P name mask HS) as Hp.
  destruct (add_prepare t now o s P name mask) as [s1 amb|s4 amb uid u1]; [exact Hp|].
  pose proof (add_commit_SecAll t now s4 uid u1 mask) as Hc.
  destruct (add_commit t now s4 uid u1 mask) as [[s6 ok] raised]. cbn [fst r_amb r_st] in *.
  intro Ea. destruct (Hp Ea) as [H4 Hu]. exact (Hc H4 Hu).
Qed.

Lemma cmd_identify_SecAll t now o s P name :
  SecAll (s_users s) ->
  let out := cmd_identify t now o s P name in r_amb out = false -> SecAll (s_users (r_st out)).
Proof.
  intro HS. unfold cmd_identify.
  destruct (lookup t now s P) as [[s1 r1] a0] eqn:E1.
  destruct (resolve s1 name) as [s2 tgt] eqn:E2. destruct (resolve_users _ _ _ _ E2) as [Hu2 Ht].
  assert (H2 : a0 = false -> SecAll (s_users s2)) by (intro Ea; rewrite Hu2; eapply lookup_SecAll; eassumption).
  destruct tgt as [[uid u0]|]; [|exact H2]. specialize (Ht uid u0 eq_refl).
  destruct (o_pw o); [|exact H2].
  destruct (addAuth now u0 P) as [u'|e] eqn:Ea0; [|exact H2].
  cbv zeta.
  assert (H0 : a0 = false -> SecInv u0) by (intro Ea; apply (H2 Ea uid); apply nget_In; exact Ht).
  assert (H' : a0 = false -> SecInv u') by (intro Ea; eapply SecInv_addAuth; [apply H0; exact Ea|exact Ea0]).
  assert (H3 : a0 = false -> SecAll (s_users (fst (setUser t now (store s2 uid u') uid u')))).
  { intro Ea. apply setUser_SecAll; [apply SecAll_store; [apply H2; exact Ea|apply H'; exact Ea]|apply H'; exact Ea]. }
  pose proof (setUser_raise_record t now (store s2 uid u') uid u') as Hrec.
  destruct (setUser t now (store s2 uid u') uid u') as [s3 r3]. cbn [fst snd] in *.
  destruct r3 as [x|e]; [exact H3|].
  specialize (Hrec e (store_record _ _ _) eq_refl). rewrite uget_nget, Hrec.
  destruct (first_handler gen.T04.IDENTIFY_HANDLERS e) as [[|]|]; try exact H3.
  cbn [r_st r_amb]. intro Ea.
  assert (Eu : set_auth u' (u_auth u0) = u0) by (rewrite (addAuth_shape _ _ _ _ Ea0); destruct u0; reflexivity).
  rewrite Eu. apply SecAll_store; [apply H3; exact Ea|apply H0; exact Ea].
Qed.

Lemma cmd_unidentify_SecAll t now s P :
  SecAll (s_users s) ->
  let out := cmd_unidentify t now s P in r_amb out = false -> SecAll (s_users (r_st out)).
Proof.
  intro HS. unfold cmd_unidentify.
  destruct (lookup t now s P) as [[s1 r1] a0] eqn:E1.
  assert (H1 : a0 = false -> SecAll (s_users s1)) by (intro Ea; eapply lookup_SecAll; eassumption).
  destruct r1 as [uid|e]; [|exact H1].
  pose proof (opClearAuth_SecAll s1 uid) as Hc.
  destruct (opClearAuth s1 uid) as [s2 r2] eqn:E2. cbn [fst] in Hc.
  destruct r2 as [x|e]; [|intro Ea; exact (Hc (H1 Ea))].
  destruct (opClearAuth_shape _ _ _ _ E2) as [u1 [Hu1 Hs2]].
  assert (Hcl : nget uid (s_users s2) = Some (set_auth u1 [])) by (rewrite Hs2, uset_nset; apply nget_nset_same).
  rewrite uget_nget, Hcl. cbv zeta.
  assert (H3 : a0 = false -> SecAll (s_users (fst (setUser t now s2 uid (set_auth u1 []))))).
  { intro Ea. apply setUser_SecAll; [exact (Hc (H1 Ea))|apply SecInv_noauth]. }
  pose proof (setUser_raise_record t now s2 uid (set_auth u1 [])) as Hrec.
  destruct (setUser t now s2 uid (set_auth u1 [])) as [s3 r3]. cbn [fst snd] in *.
  destruct r3 as [y|e]; [exact H3|].
  specialize (Hrec e Hcl eq_refl). rewrite !uget_nget, Hrec, Hu1.
  destruct (first_handler gen.T04.UNIDENTIFY_HANDLERS e) as [[|]|]; try exact H3.
  cbn [r_st r_amb]. intro Ea.
  assert (Eu : set_auth (set_auth u1 []) (u_auth u1) = u1) by (destruct u1; reflexivity).
  rewrite Eu. apply SecAll_store; [apply H3; exact Ea|]. apply (H1 Ea uid). apply nget_In. exact Hu1.
Qed.

Lemma SecInv_set_name u n : SecInv u -> SecInv (set_name u n).
Proof. intro H. exact H. Qed.

Lemma cmd_changename_SecAll t now o s P name newname :
  SecAll (s_users s) ->
  let out := cmd_changename t now o s P name newname in r_amb out = false -> SecAll (s_users (r_st out)).
Proof.
  intro HS. unfold cmd_changename.
  destruct (lookup t now s P) as [[s1 r1] a0] eqn:E1.
  destruct (resolve s1 name) as [s2 tgt] eqn:E2. destruct (resolve_users _ _ _ _ E2) as [Hu2 Ht].
  assert (H2 : a0 = false -> SecAll (s_users s2)) by (intro Ea; rewrite Hu2; eapply lookup_SecAll; eassumption).
  destruct tgt as [[uid u0]|]; [|exact H2]. specialize (Ht uid u0 eq_refl).
  pose proof (byname_users s2 newname) as Hu3.
  destruct (getUserIdByName s2 newname) as [s3 r3]. cbn [fst] in Hu3.
  assert (H3 : a0 = false -> SecAll (s_users s3)) by (intro Ea; rewrite Hu3; apply H2; exact Ea).
  destruct r3 as [x|e]; [exact H3|]. destruct (negb (o_name o)); [exact H3|].
  pose proof (SecInv_checkHostmask false t now u0 P true) as Hc.
  destruct (checkHostmask false t now u0 P true) as [u1 x]. cbn [fst] in Hc. cbv zeta.
  assert (H4 : a0 = false -> SecInv u1 /\ SecAll (s_users (store s3 uid u1))).
  { intro Ea. assert (H1 : SecInv u1) by (apply Hc; apply (H2 Ea uid); apply nget_In; exact Ht).
    split; [exact H1|apply SecAll_store; [apply H3; exact Ea|exact H1]]. }
  destruct (truthy x || o_pw o); [|intro Ea; apply (H4 Ea)].
  assert (H5 : a0 = false -> SecAll (s_users (fst (setUser t now (store (store s3 uid u1) uid (set_name u1 newname)) uid (set_name u1 newname))))).
  { intro Ea. destruct (H4 Ea) as [H1 HS4].
    apply setUser_SecAll; [apply SecAll_store; [exact HS4|apply SecInv_set_name; exact H1]|apply SecInv_set_name; exact H1]. }
  destruct (setUser t now (store (store s3 uid u1) uid (set_name u1 newname)) uid (set_name u1 newname)) as [s5 r5]. cbn [fst] in H5.
  destruct r5 as [y|e5]; [exact H5|].
  destruct (first_handler gen.T04.CHANGENAME_HANDLERS e5) as [[|]|]; try exact H5.
  destruct (uget uid (s_users s5)) as [u5|] eqn:Eu5; [|exact H5].
  assert (H6 : a0 = false -> SecAll (s_users (store s5 uid (set_name u5 (u_name u1))))).
  { intro Ea. apply SecAll_store; [apply H5; exact Ea|]. apply SecInv_set_name. exact (SecAll_get _ _ _ (H5 Ea) Eu5). }
  destruct (invalidate_id (store s5 uid (set_name u5 (u_name u1))) uid) as [s7|e7] eqn:E7; cbn [r_st r_amb].
  - rewrite (invalidate_id_users _ _ _ E7). exact H6.
  - exact H6.
Qed.

Lemma cmd_register_SecAll t now o s P name :
  SecAll (s_users s) ->
  let out := cmd_register t now o s P name in r_amb out = false -> SecAll (s_users (r_st out)).
Proof.
  intro HS. unfold cmd_register.
  destruct (lookup t now s P) as [[s1 r1] a0] eqn:E1.
  pose proof (byname_users s1 name) as Hu2.
  destruct (getUserIdByName s1 name) as [s2 rn]. cbn [fst] in Hu2.
  assert (H2 : a0 = false -> SecAll (s_users s2)) by (intro Ea; rewrite Hu2; eapply lookup_SecAll; eassumption).
  destruct rn as [x|e]; [exact H2|]. destruct (negb (o_name o)); [exact H2|].
  assert (Hgo : forall addmask,
    let out := (let '(s3, id) := newUser s2 in
                let undo (s' : st) (e : exn) :=
                  match first_handler gen.T04.REGISTER_HANDLERS e with
                  | Some true => Out (fst (delUser s' id)) false a0 true
                  | _ => Out s' false a0 true
                  end in
                if addmask && negb (o_long o) then undo (store s3 id (User name [] [] false)) ValueError
                else let u := User name (if addmask then [P] else []) [] false in
                     let '(s4, r4) := setUser t now (store s3 id u) id u in
                     match r4 with Ok _ => Out s4 true a0 false | Raise e => undo s4 e end) in
    r_amb out = false -> SecAll (s_users (r_st out))).
  { intro addmask. pose proof (newUser_SecAll s2) as Hn. destruct (newUser s2) as [s3 id]. cbn [fst] in Hn. cbv zeta.
    assert (Hundo : forall s' e, SecAll (s_users s') ->
              SecAll (s_users (r_st (match first_handler gen.T04.REGISTER_HANDLERS e with
                                     | Some true => Out (fst (delUser s' id)) false a0 true
                                     | _ => Out s' false a0 true end)))).
    { intros s' e0 H'. destruct (first_handler gen.T04.REGISTER_HANDLERS e0) as [[|]|]; cbn [r_st]; try exact H'.
      apply delUser_SecAll. exact H'. }
    destruct (addmask && negb (o_long o)).
    - intro Ea. apply Hundo. apply SecAll_store; [apply Hn; apply H2|apply SecInv_empty].
      destruct (first_handler gen.T04.REGISTER_HANDLERS ValueError) as [[|]|]; exact Ea.
    - set (u := User name (if addmask then [P] else []) [] false).
      pose proof (setUser_SecAll t now (store s3 id u) id u) as H4.
      destruct (setUser t now (store s3 id u) id u) as [s4 r4]. cbn [fst] in H4.
      assert (Hcore : a0 = false -> SecAll (s_users s4)).
      { intro Ea. apply H4; [apply SecAll_store; [apply Hn; apply H2; exact Ea|apply SecInv_empty]|apply SecInv_empty]. }
      destruct r4 as [y|e4]; [exact Hcore|].
      intro Ea. apply Hundo. apply Hcore. destruct (first_handler gen.T04.REGISTER_HANDLERS e4) as [[|]|]; exact Ea. }
  destruct r1 as [x|e1].
  - destruct (o_owner o); [apply Hgo|exact H2].
  - destruct e1; try exact H2. apply Hgo.
Qed.

(* ---- histories of API operations and commands ---- *)
Inductive hop := HApi (o : op) | HCmd (orc : oracle) (P : str) (c : cmd).

Definition hstep (t now : Z) (s : st) (h : hop) : st :=
  match h with
  | HApi o => fst (step t now s o)
  | HCmd orc P c => r_st (run_cmd t now orc s P c)
  end.

(* the domain: no lookup runs the Multiple-matches branch (it strips masks);
   users.setUser is given a record that respects the rule; and the two commands
   that can turn a login into one without a matching mask - hostmask remove and
   user set secure - did not do so (finding F25: they do not check) *)
Definition hop_ok (t now : Z) (s : st) (h : hop) : Prop :=
  match h with
  | HApi (OLookup x) => ambiguous t now s x = false
  | HApi (OSet id u) => SecInv u
  | HApi _ => True
  | HCmd orc P c =>
      r_amb (run_cmd t now orc s P c) = false /\
      match c with
      | CRemove _ _ | CSecure _ => SecAll (s_users (r_st (run_cmd t now orc s P c)))
      | _ => True
      end
  end.

Fixpoint hrun (t : Z) (s : st) (ops : list (Z * hop)) : st :=
  match ops with
  | [] => s
  | (now, h) :: r => hrun t (hstep t now s h) r
  end.

Fixpoint hhist_ok (t : Z) (s : st) (ops : list (Z * hop)) : Prop :=
  match ops with
  | [] => True
  | (now, h) :: r => hop_ok t now s h /\ hhist_ok t (hstep t now s h) r
  end.

Lemma cmd_body_SecAll t now o s P c :
  SecAll (s_users s) ->
  match c with CRemove _ _ | CSecure _ => False | _ => True end ->
  r_amb (cmd_body t now o s P c) = false -> SecAll (s_users (r_st (cmd_body t now o s P c))).
Proof.
  intros HS Hc. destruct c as [name mask|name mask|name| |name newname|name|value]; cbn [cmd_body]; try destruct Hc.
  - apply cmd_add_SecAll; exact HS.
  - apply cmd_identify_SecAll; exact HS.
  - apply cmd_unidentify_SecAll; exact HS.
  - apply cmd_changename_SecAll; exact HS.
  - apply cmd_register_SecAll; exact HS.
Qed.

Lemma hstep_SecAll t now s h : SecAll (s_users s) -> hop_ok t now s h -> SecAll (s_users (hstep t now s h)).
Proof.
  intros HS Hok. destruct h as [o|orc P c]; cbn [hstep].
  - destruct o as [x|id u|id| |id x|id]; cbn [step hop_ok] in *.
    + apply getUserId_SecAll; assumption.
    + pose proof (setUser_SecAll t now s id u HS Hok) as H. destruct (setUser t now s id u). exact H.
    + pose proof (delUser_SecAll s id HS) as H. destruct (delUser s id). exact H.
    + pose proof (newUser_SecAll s HS) as H. destruct (newUser s). exact H.
    + pose proof (opIdentify_SecAll t now s id x HS) as H. destruct (opIdentify t now s id x). exact H.
    + pose proof (opClearAuth_SecAll s id HS) as H. destruct (opClearAuth s id). exact H.
  - cbn [hop_ok] in Hok. destruct Hok as [Hamb Hres].
    assert (Hgen : match c with CRemove _ _ | CSecure _ => False | _ => True end ->
                   SecAll (s_users (r_st (run_cmd t now orc s P c)))).
    { intro Hc. revert Hamb. unfold run_cmd.
      pose proof (cmd_body_SecAll t now orc s P c HS Hc) as Hb.
      destruct (lookup t now (r_st (cmd_body t now orc s P c)) P) as [[s' r'] a'] eqn:EL. cbn [r_amb r_st].
      intro Ea. apply orb_false_iff in Ea as [Ea1 Ea2]. eapply lookup_SecAll; [apply Hb; exact Ea1|exact EL|exact Ea2]. }
    destruct c; try (apply Hgen; exact Logic.I); exact Hres.
Qed.

Lemma hrun_SecAll t s ops : SecAll (s_users s) -> hhist_ok t s ops -> SecAll (s_users (hrun t s ops)).
Proof.
  revert s. induction ops as [|[now h] ops IH]; intros s HS Hok; [exact HS|].
  cbn [hrun]. cbn [hhist_ok] in Hok. destruct Hok as [Ho Hr]. apply IH; [apply hstep_SecAll; assumption|exact Hr].
Qed.

(* whoever is answered is recognised now, and if the account is secure one of
   its registered masks matches the hostmask *)
Theorem secure_needs_mask_state t now s h id :
  SecAll (s_users s) -> snd (getUserId t now s h) = Ok id ->
  exists u, In (id, u) (s_users s) /\ recog t now u h = true /\ (u_secure u = true -> mask_match u h = true).
Proof.
  intros HS H. destruct (answer_recognised t now s h id H) as [u [Hin Hr]]. exists u. split; [exact Hin|]. split; [exact Hr|].
  intro Hsec. unfold recog in Hr. apply orb_true_iff in Hr as [Hr|Hr]; [|exact Hr].
  unfold live_auth in Hr. apply existsb_exists in Hr as [e [He Hx]]. apply andb_true_iff in Hx as [_ Hx].
  apply seq_eqb_eq in Hx. subst h. exact (HS id u Hin Hsec e He).
Qed.

Theorem secure_needs_mask_on_domain t ops now h id :
  hhist_ok t init ops -> snd (getUserId t now (hrun t init ops) h) = Ok id ->
  exists u, In (id, u) (s_users (hrun t init ops)) /\ recog t now u h = true /\
            (u_secure u = true -> mask_match u h = true).
Proof.
  intros Hok. apply secure_needs_mask_state. apply hrun_SecAll; [exact SecAll_nil|exact Hok].
Qed.

(* ---- outside the domain (finding F25) ---- *)
Definition f25_ops : list (Z * hop) :=
  [(1000%Z, HApi ONew); (1000%Z, HApi (OSet 1 (User nU1 [hAB] [] false)));
   (1000%Z, HCmd orc_pw hQ (CIdentify nU1)); (1000%Z, HCmd orc_pw hAB (CSecure (Some true)))].

Example f25_state :
  s_users (hrun 0 init f25_ops) = [(1, User nU1 [hAB] [(1000%Z, hQ)] true)] /\
  snd (getUserId 0 1000 (hrun 0 init f25_ops) hQ) = Ok 1 /\
  mask_match (User nU1 [hAB] [(1000%Z, hQ)] true) hQ = false.
Proof. vm_compute. auto. Qed.

Theorem secure_needs_mask_refuted :
  exists t ops now h id,
    ~ hhist_ok t init ops /\ snd (getUserId t now (hrun t init ops) h) = Ok id /\
    forall u, In (id, u) (s_users (hrun t init ops)) -> u_secure u = true /\ mask_match u h = false.
Proof.
  exists 0%Z, f25_ops, 1000%Z, hQ, 1. destruct f25_state as [Hs [Hl Hm]]. split; [|split; [exact Hl|]].
  - intro H. cbn [hhist_ok f25_ops] in H. destruct H as [_ [_ [_ [[_ Hsec] _]]]].
    match type of Hsec with SecAll ?us =>
      assert (E : us = [(1, User nU1 [hAB] [(1000%Z, hQ)] true)]) by (vm_compute; reflexivity); rewrite E in Hsec end.
    specialize (Hsec 1 _ (or_introl eq_refl) eq_refl (1000%Z, hQ) (or_introl eq_refl)). cbn [snd] in Hsec. congruence.
  - rewrite Hs. intros u [E|[]]. inversion E; subst. split; [reflexivity|exact Hm].
Qed.

(* non-vacuity: identify on a secure account from a matching hostmask, remove of an unused mask *)
Definition sec_ok_ops : list (Z * hop) :=
  [(1000%Z, HApi ONew); (1000%Z, HApi (OSet 1 (User nU1 [hAB; hZZ] [] true)));
   (1000%Z, HCmd orc_pw hAB (CIdentify nU1)); (1000%Z, HCmd orc_pw hQ (CIdentify nU1));
   (1001%Z, HCmd orc_pw hAB (CSecure (Some true))); (1002%Z, HApi (OLookup hAB))].

Example sec_ok_in_domain :
  hhist_ok 0 init sec_ok_ops /\ snd (getUserId 0 1003 (hrun 0 init sec_ok_ops) hAB) = Ok 1.
Proof.
  split; [|vm_compute; reflexivity].
  cbn [hhist_ok sec_ok_ops hop_ok]. repeat split; try exact Logic.I; try (vm_compute; reflexivity).
  - intros Hsec e []. 
  - intros k u Hin. vm_compute in Hin. destruct Hin as [E|[]]. inversion E; subst.
    intros _ e [He|[]]. subst e. vm_compute. reflexivity.
Qed.
