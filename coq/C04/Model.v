(* C04/Model.v — executable model of hostmask glob matching
   (ircutils._hostmaskPatternEqual, src/ircutils.py:171-208) and of the user
   lookup state machine (IrcUser.checkHostmask/addAuth/clearAuth,
   UsersDictionary.getUserId/setUser/delUser/newUser/invalidateCache,
   src/ircdb.py:271-349, 688-897), as repaired for findings C04.F5 (getUserId
   re-checks a cached id with checkHostmask) and C04.F22 (setUser first drops
   the cache entries of the hostmasks in user.auth).  The clock and the login
   timeout are inputs.  The hostmask cache is modelled in its forward direction
   (hostmask -> id); the reverse index only serves invalidation.  No proofs here. *)
From Coq Require Import List NArith ZArith Bool.
Import ListNotations.
Require Import Base.Wire Base.PyStr.
Require C03.Model.
Require gen.T04.
Open Scope N_scope.

Definition LF : N := 10.

(* ---- glob -> regex atoms ---- *)
Inductive atom := AStar | AAny | ACls (l : list N) | ALit (c : N).

Definition compile_char (c : N) : atom :=
  if N.eqb c 42 then AStar                                   (* '*' -> .*   *)
  else if N.eqb c 63 then AAny                               (* '?' -> .    *)
  else if N.eqb c 91 || N.eqb c 123 then ACls [91; 123]      (* [ {  *)
  else if N.eqb c 125 || N.eqb c 93 then ACls [125; 93]      (* } ]  *)
  else if N.eqb c 124 || N.eqb c 92 then ACls [124; 92]      (* | \  *)
  else if N.eqb c 94 || N.eqb c 126 then ACls [126; 94]      (* ^ ~  *)
  else ALit c.
Definition compile (p : str) : list atom := map compile_char p.

(* re.I on ASCII letters *)
Definition ci_eq (a b : N) : bool := N.eqb (C03.Model.lower_char a) (C03.Model.lower_char b).
Definition notlf (c : N) : bool := negb (N.eqb c LF).

(* re.compile(atoms + '$', re.I).match(h) is not None *)
Fixpoint gmatch (p : list atom) (h : str) {struct p} : bool :=
  match p with
  | [] => match h with [] => true | [c] => N.eqb c LF | _ => false end
  | AStar :: p' =>
      (fix star (h : str) : bool :=
         gmatch p' h || match h with c :: h' => notlf c && star h' | [] => false end) h
  | AAny :: p' => match h with c :: h' => notlf c && gmatch p' h' | [] => false end
  | ACls l :: p' => match h with c :: h' => existsb (ci_eq c) l && gmatch p' h' | [] => false end
  | ALit x :: p' => match h with c :: h' => ci_eq c x && gmatch p' h' | [] => false end
  end.

Definition hmatch (pat h : str) : bool := gmatch (compile pat) h.

(* ---- users ---- *)
Record user := User { u_name : str; u_masks : list str; u_auth : list (Z * str); u_secure : bool }.
(* _hostmaskCache holds hostmask -> id and id -> set of hostmasks in one
   CacheDict; _nameCache holds lowered name -> id and id -> lowered name. *)
Record st := St {
  s_users : list (N * user);
  s_hcache : list (str * N);          (* forward: hostmask -> id *)
  s_hrev : list (N * list str);       (* reverse: id -> hostmasks *)
  s_ncache : list (str * N);          (* lowered name -> id *)
  s_nrev : list (N * str);            (* id -> lowered name *)
  s_next : N
}.

Inductive hres := RTrue | RPat (p : str) | RFalse.
Definition truthy (r : hres) : bool := match r with RFalse => false | _ => true end.

Definition auth_eqb (a b : Z * str) : bool := Z.eqb (fst a) (fst b) && seq_eqb (snd a) (snd b).
Fixpoint remove_first (x : Z * str) (l : list (Z * str)) : list (Z * str) :=
  match l with
  | [] => []
  | y :: l' => if auth_eqb x y then l' else y :: remove_first x l'
  end.

(* the for loop over self.auth: (matched, removals collected so far) *)
Fixpoint scan_auth (eqf : str -> str -> bool) (timeout now : Z) (h : str) (auth removals : list (Z * str))
  : bool * list (Z * str) :=
  match auth with
  | [] => (false, removals)
  | (w, m) :: rest =>
      if negb (Z.eqb timeout 0) && Z.ltb (w + timeout) now
      then scan_auth eqf timeout now h rest ((w, m) :: removals)
      else if eqf h m then (true, removals)
      else scan_auth eqf timeout now h rest removals
  end.

Fixpoint first_match (masks : list str) (h : str) : hres :=
  match masks with
  | [] => RFalse
  | p :: ms => if hmatch p h then RPat p else first_match ms h
  end.

(* IrcSet of hostmasks: rfc1459-insensitive *)
Definition ieq (a b : str) : bool := seq_eqb (C03.Model.fold a) (C03.Model.fold b).

(* IrcUser.checkHostmask(hostmask, useAuth).  [istr]: the argument is an
   IrcString taken out of an IrcSet (setUser's loop), whose == folds case *)
(* `hostmask == authmask and (not self.secure or self.checkHostmask(hostmask, useAuth=False))`:
   a login only counts for a secure account if one of its masks matches as well (repair of C04.F25) *)
Definition auth_eq (istr : bool) (u : user) (h : str) : str -> str -> bool :=
  fun a b => (if istr then ieq else seq_eqb) a b && (negb (u_secure u) || truthy (first_match (u_masks u) h)).

Definition checkHostmask (istr : bool) (timeout now : Z) (u : user) (h : str) (useAuth : bool) : user * hres :=
  if useAuth then
    let '(hit, removals) := scan_auth (auth_eq istr u h) timeout now h (u_auth u) [] in
    let u' := User (u_name u) (u_masks u) (fold_left (fun a x => remove_first x a) removals (u_auth u)) (u_secure u) in
    if hit then (u', RTrue) else (u', first_match (u_masks u) h)
  else (u, first_match (u_masks u) h).

Definition iset_remove (x : str) (l : list str) : res (list str) :=
  if existsb (ieq x) l then Ok (filter (fun y => negb (ieq x y)) l) else Raise KeyError.

(* keep the last entry per mask, order preserved *)
Fixpoint uniq_rev (seen : list str) (l : list (Z * str)) : list (Z * str) :=
  match l with
  | [] => []
  | (w, m) :: l' => if existsb (seq_eqb m) seen then uniq_rev seen l' else (w, m) :: uniq_rev (m :: seen) l'
  end.
Definition dedupe_auth (a : list (Z * str)) : list (Z * str) := rev (uniq_rev [] (rev a)).

Definition addAuth (now : Z) (u : user) (h : str) : res user :=
  if truthy (first_match (u_masks u) h) || negb (u_secure u)
  then Ok (User (u_name u) (u_masks u) (dedupe_auth (u_auth u ++ [(now, h)])) (u_secure u))
  else Raise ValueError.

(* ---- the dictionary ---- *)
Fixpoint uget (id : N) (us : list (N * user)) : option user :=
  match us with [] => None | (i, u) :: r => if N.eqb i id then Some u else uget id r end.
Fixpoint uset (id : N) (u : user) (us : list (N * user)) : list (N * user) :=
  match us with
  | [] => [(id, u)]
  | (i, v) :: r => if N.eqb i id then (i, u) :: r else (i, v) :: uset id u r
  end.
Definition udel (id : N) (us : list (N * user)) : list (N * user) :=
  filter (fun iu => negb (N.eqb (fst iu) id)) us.

(* association lists keyed by ids *)
Fixpoint nget {A} (id : N) (l : list (N * A)) : option A :=
  match l with [] => None | (i, v) :: r => if N.eqb i id then Some v else nget id r end.
Fixpoint nset {A} (id : N) (v : A) (l : list (N * A)) : list (N * A) :=
  match l with
  | [] => [(id, v)]
  | (i, w) :: r => if N.eqb i id then (i, v) :: r else (i, w) :: nset id v r
  end.
Definition ndel {A} (id : N) (l : list (N * A)) : list (N * A) :=
  filter (fun e => negb (N.eqb (fst e) id)) l.
Definition sdel {A} (k : str) (l : list (str * A)) : list (str * A) :=
  filter (fun e => negb (seq_eqb (fst e) k)) l.

Definition with_users (s : st) (us : list (N * user)) : st :=
  St us (s_hcache s) (s_hrev s) (s_ncache s) (s_nrev s) (s_next s).

(* the miss path of getUserId: every user's checkHostmask, in dict order;
   returns the users (with expired logins removed) and the matches *)
Fixpoint scan_users (timeout now : Z) (h : str) (us : list (N * user))
  : list (N * user) * list (N * hres) :=
  match us with
  | [] => ([], [])
  | (i, u) :: r =>
      let '(u', x) := checkHostmask false timeout now u h true in
      let '(r', ids) := scan_users timeout now h r in
      ((i, u') :: r', if truthy x then (i, x) :: ids else ids)
  end.

(* the "Multiple matches" branch: removeHostmask on each; a login match is
   `True`, and removeHostmask(True) raises KeyError *)
Fixpoint remove_offending (us : list (N * user)) (ids : list (N * hres)) : list (N * user) * exn :=
  match ids with
  | [] => (us, DuplicateHostmask)
  | (i, x) :: r =>
      match x, uget i us with
      | RPat p, Some u =>
          match iset_remove p (u_masks u) with
          | Ok ms => remove_offending (uset i (User (u_name u) ms (u_auth u) (u_secure u)) us) r
          | Raise e => (us, e)
          end
      | _, _ => (us, KeyError)
      end
  end.

(* the `except KeyError:` body of getUserId: every user's checkHostmask, then
   cache a unique match *)
(* CacheDict(gen.T04.CACHE_MAX).__setitem__: `if len(self.d) >= self.max: self.d.clear()` before the write.
   _hostmaskCache holds the hostmask -> id keys and the id -> set keys in ONE dictionary (so do the two halves of
   _nameCache): a write that finds it full drops both kinds. *)
Definition cache_full {A B} (c : list A) (r : list B) : bool :=
  N.leb gen.T04.CACHE_MAX (N.of_nat (length c + length r)).

(* self._hostmaskCache[s] = id;  try: self._hostmaskCache[id].add(s)  except KeyError: self._hostmaskCache[id] = set([s]) *)
Definition hinsert (h : str) (id : N) (c : list (str * N)) (r : list (N * list str)) : list (str * N) * list (N * list str) :=
  let '(c1, r1) := if cache_full c r then ([], []) else (c, r) in
  let c2 := dict_set h id c1 in
  match nget id r1 with
  | Some l => (c2, nset id (if existsb (seq_eqb h) l then l else l ++ [h]) r1)
  | None => if cache_full c2 r1 then ([], [(id, [h])]) else (c2, nset id [h] r1)
  end.

(* self._nameCache[s] = id;  self._nameCache[id] = s *)
Definition ninsert (n : str) (id : N) (c : list (str * N)) (r : list (N * str)) : list (str * N) * list (N * str) :=
  let '(c1, r1) := if cache_full c r then ([], []) else (c, r) in
  let c2 := dict_set n id c1 in
  if cache_full c2 r1 then ([], [(id, n)]) else (c2, nset id n r1).

Definition lookup_miss (timeout now : Z) (s : st) (h : str) : st * res N :=
  let '(us, ids) := scan_users timeout now h (s_users s) in
  match ids with
  | [] => (with_users s us, Raise KeyError)
  | [(id, _)] =>
      let '(c, rev) := hinsert h id (s_hcache s) (s_hrev s) in
      (St us c rev (s_ncache s) (s_nrev s) (s_next s), Ok id)
  | _ =>
      let '(us', e) := remove_offending us ids in
      (with_users s us', Raise e)
  end.

(* cache-free recomputation: who recognises h right now (no side effects) *)
Definition recognisers (timeout now : Z) (s : st) (h : str) : list N :=
  map fst (snd (scan_users timeout now h (s_users s))).

(* getUserId(name) for a string that is not a hostmask *)
Fixpoint find_name (n : str) (us : list (N * user)) : option N :=
  match us with
  | [] => None
  | (i, u) :: r => if seq_eqb n (C03.Model.lower (u_name u)) then Some i else find_name n r
  end.
Definition getUserIdByName (s : st) (name : str) : st * res N :=
  let n := C03.Model.lower name in
  match dict_get n (s_ncache s) with
  | Some id => (s, Ok id)
  | None =>
      match find_name n (s_users s) with
      | Some id => let '(nc, nr) := ninsert n id (s_ncache s) (s_nrev s) in
                   (St (s_users s) (s_hcache s) (s_hrev s) nc nr (s_next s), Ok id)
      | None => (s, Raise KeyError)
      end
  end.

(* invalidateCache(id) (and the same lines of delUser): the name entries, then
   the hostmask entries; the other half of an entry is removed with
   pop(key, None), it may have been evicted (repair of C04.F28) *)
Definition invalidate_id (s : st) (id : N) : res st :=
  let s1 := match nget id (s_nrev s) with
            | Some n => St (s_users s) (s_hcache s) (s_hrev s) (sdel n (s_ncache s)) (ndel id (s_nrev s)) (s_next s)
            | None => s
            end in
  match nget id (s_hrev s1) with
  | Some hs => Ok (St (s_users s1) (fold_left (fun c h => sdel h c) hs (s_hcache s1)) (ndel id (s_hrev s1))
                      (s_ncache s1) (s_nrev s1) (s_next s1))
  | None => Ok s1
  end.

(* invalidateCache(hostmask=h): the local variable `id` is rebound by the
   pop, so the `if id is not None` block then drops everything cached for that id *)
Definition invalidate_h (s : st) (h : str) : res st :=
  match dict_get h (s_hcache s) with
  | None => Ok s
  | Some id =>
      match nget id (s_hrev s) with
      | None => Raise KeyError
      | Some l =>
          if existsb (seq_eqb h) l then
            let l' := filter (fun x => negb (seq_eqb h x)) l in
            invalidate_id
              (St (s_users s) (sdel h (s_hcache s))
                  (match l' with [] => ndel id (s_hrev s) | _ => nset id l' (s_hrev s) end)
                  (s_ncache s) (s_nrev s) (s_next s)) id
          else Raise KeyError
      end
  end.

(* invalidateCache(hostmask=m) for every login (when, m) of a list *)
Definition invalidate_auth (s : st) (auth : list (Z * str)) : res st :=
  fold_left (fun (acc : res st) e => do a <- acc; invalidate_h a (snd e)) auth (Ok s).

(* getUserId(hostmask): a cached id is answered only if that account's
   checkHostmask still accepts the hostmask (which also drops its expired
   logins); otherwise the entry is invalidated and the `raise KeyError` lands
   in the recomputation.  self.users[id] on a vanished id is a KeyError too.
   (A KeyError out of invalidateCache itself would be caught by the same
   handler with the cache half-edited; that needs an inconsistent cache and the
   model then recomputes from the unedited one.) *)
Definition getUserId (timeout now : Z) (s : st) (h : str) : st * res N :=
  match dict_get h (s_hcache s) with
  | Some id =>
      match uget id (s_users s) with
      | Some u =>
          let '(u', x) := checkHostmask false timeout now u h true in
          let s1 := with_users s (uset id u' (s_users s)) in
          if truthy x then (s1, Ok id)
          else match invalidate_h s1 h with
               | Ok s2 => lookup_miss timeout now s2 h
               | Raise _ => lookup_miss timeout now s1 h
               end
      | None => lookup_miss timeout now s h
      end
  | None => lookup_miss timeout now s h
  end.

(* the overlap loops of setUser for one hostmask of the user being set *)
Fixpoint overlap_one (timeout now : Z) (self : N) (hm : str) (us : list (N * user))
  : list (N * user) * bool :=
  match us with
  | [] => ([], false)
  | (i, u) :: r =>
      if N.eqb i self then
        let '(r', b) := overlap_one timeout now self hm r in ((i, u) :: r', b)
      else
        let '(u', x) := checkHostmask true timeout now u hm true in
        if truthy x then ((i, u') :: r, true)
        else if existsb (fun other => hmatch hm other) (u_masks u') then ((i, u') :: r, true)
        else let '(r', b) := overlap_one timeout now self hm r in ((i, u') :: r', b)
  end.

Fixpoint overlap_all (timeout now : Z) (self : N) (hms : list str) (us : list (N * user))
  : list (N * user) * bool :=
  match hms with
  | [] => (us, false)
  | hm :: r =>
      let '(us', b) := overlap_one timeout now self hm us in
      if b then (us', true) else overlap_all timeout now self r us'
  end.

(* what the User plugin does: mutate the stored object in place (if any), call
   users.setUser(user), and on DuplicateHostmask undo the mutation *)
Definition rollback (orig : option user) (id : N) (us : list (N * user)) : list (N * user) :=
  match orig with Some u0 => uset id u0 us | None => us end.

Definition setUser (timeout now : Z) (s : st) (id : N) (u : user) : st * res unit :=
  let orig := uget id (s_users s) in
  let us0 := match orig with Some _ => uset id u (s_users s) | None => s_users s end in
  let s00 := St us0 (s_hcache s) (s_hrev s) (s_ncache s) (s_nrev s) (N.max (s_next s) id) in
  (* for (when, hostmask) in user.auth: self.invalidateCache(hostmask=hostmask) *)
  match invalidate_auth s00 (u_auth u) with
  | Raise e => (s00, Raise e)
  | Ok s0 =>
  let '(s1, r) := getUserIdByName s0 (u_name u) in
  let dupname := match r with Ok other => negb (N.eqb other id) | Raise _ => false end in
  if dupname then (with_users s1 (rollback orig id (s_users s1)), Raise DuplicateHostmask)
  else
    let '(us1, dup) := overlap_all timeout now id (u_masks u) (s_users s1) in
    let s2 := with_users s1 us1 in
    if dup then (with_users s2 (rollback orig id us1), Raise DuplicateHostmask)
    else match invalidate_id s2 id with
         | Ok s3 => (with_users s3 (uset id u (s_users s3)), Ok tt)
         | Raise e => (s2, Raise e)
         end
  end.

(* delUser: same cache removal pattern as invalidateCache(id) *)
Definition delUser (s : st) (id : N) : st * res unit :=
  match uget id (s_users s) with
  | None => (s, Raise KeyError)
  | Some _ =>
      let s0 := with_users s (udel id (s_users s)) in
      match invalidate_id s0 id with
      | Ok s1 => (s1, Ok tt)
      | Raise e => (s0, Raise e)
      end
  end.

Definition newUser (s : st) : st * N :=
  let id := s_next s + 1 in
  (St (uset id (User [] [] [] false) (s_users s)) (s_hcache s) (s_hrev s) (s_ncache s) (s_nrev s) id, id).

(* user.addAuth(h) on the stored object (no setUser) *)
Definition opAddAuth (now : Z) (s : st) (id : N) (h : str) : st * res unit :=
  match uget id (s_users s) with
  | None => (s, Raise KeyError)
  | Some u =>
      match addAuth now u h with
      | Ok u' => (with_users s (uset id u' (s_users s)), Ok tt)
      | Raise e => (s, Raise e)
      end
  end.

(* what every caller of addAuth does (User.identify, GPG, NickAuth):
   user.addAuth(h) on the stored object, then users.setUser(user) *)
Definition opIdentify (timeout now : Z) (s : st) (id : N) (h : str) : st * res unit :=
  match uget id (s_users s) with
  | None => (s, Raise KeyError)
  | Some u =>
      match addAuth now u h with
      | Ok u' => setUser timeout now (with_users s (uset id u' (s_users s))) id u'
      | Raise e => (s, Raise e)
      end
  end.

(* user.clearAuth(): invalidateCache(hostmask=...) for each login, then auth = [] *)
Definition opClearAuth (s : st) (id : N) : st * res unit :=
  match uget id (s_users s) with
  | None => (s, Raise KeyError)
  | Some u =>
      let r := invalidate_auth s (u_auth u) in
      match r with
      | Ok s1 => (with_users s1 (uset id (User (u_name u) (u_masks u) [] (u_secure u)) (s_users s1)), Ok tt)
      | Raise e => (s, Raise e)      (* partial invalidations are not kept by the model: see harness note *)
      end
  end.

(* ---- operations as data (for histories) ---- *)
Inductive op :=
| OLookup (h : str)
| OSet (id : N) (u : user)
| ODel (id : N)
| ONew
| OAuth (id : N) (h : str)
| OClear (id : N).

Definition unit_res (r : res unit) : res N := match r with Ok _ => Ok 0 | Raise e => Raise e end.

(* one step at clock [now] with login timeout [timeout] *)
Definition step (timeout now : Z) (s : st) (o : op) : st * res N :=
  match o with
  | OLookup h => getUserId timeout now s h
  | OSet id u => let '(s', r) := setUser timeout now s id u in (s', unit_res r)
  | ODel id => let '(s', r) := delUser s id in (s', unit_res r)
  | ONew => let '(s', id) := newUser s in (s', Ok id)
  | OAuth id h => let '(s', r) := opIdentify timeout now s id h in (s', unit_res r)
  | OClear id => let '(s', r) := opClearAuth s id in (s', unit_res r)
  end.

(* ---- the User plugin commands that edit hostmasks, logins and names ----
   (plugins/User/plugin.py: hostmask add/remove, identify, unidentify,
   changename, register).  [P] is msg.prefix.  Passwords, the owner capability
   and the pure syntax checks are inputs (oracle); which except clause catches
   what around users.setUser comes from the regenerated table gen.T04. *)
Record oracle := Oracle {
  o_pw : bool;        (* user.checkPassword(password) *)
  o_owner : bool;     (* the caller has the owner capability *)
  o_shape : bool;     (* ircutils.isUserHostmask(hostmask) *)
  o_long : bool;      (* len(unWildcardHostmask(hostmask)) >= 3 *)
  o_name : bool       (* _checkName accepts the name *)
}.

Inductive cmd :=
| CAdd (name mask : str)
| CRemove (name mask : str)
| CIdentify (name : str)
| CUnidentify
| CChangename (name newname : str)
| CRegister (name : str)
| CSecure (value : option bool).       (* user set secure <password> [<True|False>] *)

(* state, "The operation succeeded", a lookup ran the Multiple-matches branch,
   users.setUser (or the edit just before it) raised *)
Record outcome := Out { r_st : st; r_ok : bool; r_amb : bool; r_set : bool }.

(* `except h:` catches e (DuplicateHostmask is a ValueError) *)
Definition catches (h e : exn) : bool :=
  exn_eqb h e || (exn_eqb h ValueError && exn_eqb e DuplicateHostmask).
Fixpoint first_handler (hs : list (exn * bool)) (e : exn) : option bool :=
  match hs with
  | [] => None
  | (h, rb) :: r => if catches h e then Some rb else first_handler r e
  end.

Definition ambiguous (timeout now : Z) (s : st) (h : str) : bool :=
  Nat.ltb 1 (length (recognisers timeout now s h)).
Definition lookup (timeout now : Z) (s : st) (h : str) : st * res N * bool :=
  let '(s', r) := getUserId timeout now s h in
  (s', r, match r with Ok _ => false | Raise _ => ambiguous timeout now s h end).

Definition store (s : st) (id : N) (u : user) : st := with_users s (uset id u (s_users s)).
Definition set_masks (u : user) (ms : list str) : user := User (u_name u) ms (u_auth u) (u_secure u).
Definition set_name (u : user) (n : str) : user := User n (u_masks u) (u_auth u) (u_secure u).
Definition set_auth (u : user) (a : list (Z * str)) : user := User (u_name u) (u_masks u) a (u_secure u).
Definition iset_add (x : str) (l : list str) : list str := if existsb (ieq x) l then l else l ++ [x].

(* the otherUser converter on a plain name: users.getUser(name) *)
Definition resolve (s : st) (name : str) : st * option (N * user) :=
  let '(s', r) := getUserIdByName s name in
  match r with
  | Ok id => (s', match uget id (s_users s') with Some u => Some (id, u) | None => None end)
  | Raise _ => (s', None)
  end.

(* `not user.checkPassword(pw) and not user.checkHostmask(msg.prefix) and not owner` is false *)
Definition authorised (timeout now : Z) (o : oracle) (s : st) (uid : N) (u : user) (P : str) : st * bool :=
  if o_pw o then (s, true)
  else let '(u1, x) := checkHostmask false timeout now u P true in
       (store s uid u1, truthy x || o_owner o).

Definition ALL : str := [97; 108; 108].

(* hostmask add, up to the edit: lookups and refusals that touch nothing *)
Inductive prep := PErr (s : st) (amb : bool) | PGo (s : st) (amb : bool) (uid : N) (u : user).

Definition add_prepare (timeout now : Z) (o : oracle) (s : st) (P name mask : str) : prep :=
  let '(s1, _, a0) := lookup timeout now s P in           (* dispatcher: checkIgnored, capability checks *)
  let '(s2, tgt) := resolve s1 name in
  match tgt with
  | None => PErr s2 a0
  | Some (uid, _) =>
    if negb (o_shape o) then PErr s2 a0 else
    let '(s3, r3, a3) := lookup timeout now s2 mask in     (* otherId = ircdb.users.getUserId(hostmask) *)
    let amb := a0 || a3 in
    let continue :=
      match uget uid (s_users s3) with
      | None => PErr s3 amb
      | Some u =>
        let '(s4, ok) := authorised timeout now o s3 uid u P in
        if negb ok then PErr s4 amb else
        if negb (o_long o) then PErr s4 amb else               (* user.addHostmask: ValueError *)
        match uget uid (s_users s4) with
        | None => PErr s4 amb
        | Some u1 => PGo s4 amb uid u1
        end
      end in
    match r3 with
    | Ok other => if N.eqb other uid then continue else PErr s3 amb
    | Raise KeyError => continue
    | Raise _ => PErr s3 amb
    end
  end.

(* user.addHostmask(hostmask) on the live account, users.setUser(user), and the
   except clauses around it (gen.T04.HM_ADD_HANDLERS): (state, succeeded, setUser raised) *)
Definition add_commit (timeout now : Z) (s4 : st) (uid : N) (u1 : user) (mask : str) : st * bool * bool :=
  let u2 := set_masks u1 (iset_add mask (u_masks u1)) in
  let '(s6, r6) := setUser timeout now (store s4 uid u2) uid u2 in
  match r6 with
  | Ok _ => (s6, true, false)
  | Raise e =>
      match first_handler gen.T04.HM_ADD_HANDLERS e with
      | Some true =>                                  (* [if not alreadyThere:] user.removeHostmask(hostmask) *)
          if gen.T04.HM_ADD_GUARDED && existsb (ieq mask) (u_masks u1) then (s6, false, true) else
          match uget uid (s_users s6) with
          | Some u6 =>
              match iset_remove mask (u_masks u6) with
              | Ok ms => (store s6 uid (set_masks u6 ms), false, true)
              | Raise _ => (s6, false, true)
              end
          | None => (s6, false, true)
          end
      | _ => (s6, false, true)
      end
  end.

Definition cmd_add (timeout now : Z) (o : oracle) (s : st) (P name mask : str) : outcome :=
  match add_prepare timeout now o s P name mask with
  | PErr s' amb => Out s' false amb false
  | PGo s4 amb uid u1 =>
      let '(s6, ok, raised) := add_commit timeout now s4 uid u1 mask in
      Out s6 ok amb raised
  end.

Definition cmd_remove (timeout now : Z) (o : oracle) (s : st) (P name mask : str) : outcome :=
  let '(s1, _, a0) := lookup timeout now s P in
  let '(s2, tgt) := resolve s1 name in
  match tgt with
  | None => Out s2 false a0 false
  | Some (uid, u) =>
    let '(s3, ok) := authorised timeout now o s2 uid u P in
    if negb ok then Out s3 false a0 false else
    match uget uid (s_users s3) with
    | None => Out s3 false a0 false
    | Some u1 =>
      match (if seq_eqb mask ALL then Ok [] else iset_remove mask (u_masks u1)) with
      | Raise _ => Out s3 false a0 false
      | Ok ms =>
          let u2 := set_masks u1 ms in
          let '(s4, r4) := setUser timeout now (store s3 uid u2) uid u2 in
          match r4 with
          | Ok _ => Out s4 true a0 false
          | Raise e =>
              match first_handler gen.T04.REMOVE_HANDLERS e, uget uid (s_users s4) with
              | Some true, Some u4 => Out (store s4 uid (set_masks u4 (u_masks u1))) false a0 true   (* user.hostmasks = hostmasks *)
              | _, _ => Out s4 false a0 true
              end
          end
      end
    end
  end.

Definition cmd_identify (timeout now : Z) (o : oracle) (s : st) (P name : str) : outcome :=
  let '(s1, _, a0) := lookup timeout now s P in
  let '(s2, tgt) := resolve s1 name in
  match tgt with
  | None => Out s2 false a0 false
  | Some (uid, u) =>
    if o_pw o then
      match addAuth now u P with
      | Raise _ => Out s2 false a0 false
      | Ok u' =>
          let '(s3, r3) := setUser timeout now (store s2 uid u') uid u' in
          match r3 with
          | Ok _ => Out s3 true a0 false
          | Raise e =>
              match first_handler gen.T04.IDENTIFY_HANDLERS e, uget uid (s_users s3) with
              | Some true, Some u3 => Out (store s3 uid (set_auth u3 (u_auth u))) false a0 true      (* user.auth = auth *)
              | _, _ => Out s3 false a0 true
              end
          end
      end
    else Out s2 false a0 false
  end.

Definition cmd_unidentify (timeout now : Z) (s : st) (P : str) : outcome :=
  let '(s1, r1, a0) := lookup timeout now s P in
  match r1 with
  | Raise _ => Out s1 false a0 false
  | Ok uid =>
    let '(s2, r2) := opClearAuth s1 uid in
    match r2 with
    | Raise _ => Out s2 false a0 false                   (* opClearAuth leaves the state alone when it raises *)
    | Ok _ =>
        match uget uid (s_users s2) with
        | Some u =>
            let '(s3, r3) := setUser timeout now s2 uid u in
            match r3 with
            | Ok _ => Out s3 true a0 false
            | Raise e =>
                match first_handler gen.T04.UNIDENTIFY_HANDLERS e, uget uid (s_users s3), uget uid (s_users s1) with
                | Some true, Some u3, Some u1 => Out (store s3 uid (set_auth u3 (u_auth u1))) false a0 true   (* user.auth = auth *)
                | _, _, _ => Out s3 false a0 true
                end
            end
        | None => Out s2 false a0 true
        end
    end
  end.

Definition cmd_changename (timeout now : Z) (o : oracle) (s : st) (P name newname : str) : outcome :=
  let '(s1, _, a0) := lookup timeout now s P in
  let '(s2, tgt) := resolve s1 name in
  match tgt with
  | None => Out s2 false a0 false
  | Some (uid, u) =>
    let '(s3, r3) := getUserIdByName s2 newname in
    match r3 with
    | Ok _ => Out s3 false a0 false
    | Raise _ =>
      if negb (o_name o) then Out s3 false a0 false else
      (* user.checkHostmask(msg.prefix) or user.checkPassword(password) *)
      let '(u1, x) := checkHostmask false timeout now u P true in
      let s4 := store s3 uid u1 in
      if truthy x || o_pw o then
        let u2 := set_name u1 newname in
        let '(s5, r5) := setUser timeout now (store s4 uid u2) uid u2 in
        match r5 with
        | Ok _ => Out s5 true a0 false
        | Raise e =>
            match first_handler gen.T04.CHANGENAME_HANDLERS e, uget uid (s_users s5) with
            | Some true, Some u5 =>                       (* user.name = oldname; users.invalidateCache(user.id) *)
                let s6 := store s5 uid (set_name u5 (u_name u1)) in
                match invalidate_id s6 uid with
                | Ok s7 => Out s7 false a0 true
                | Raise _ => Out s6 false a0 true
                end
            | _, _ => Out s5 false a0 true
            end
        end
      else Out s4 false a0 false
    end
  end.

Definition cmd_register (timeout now : Z) (o : oracle) (s : st) (P name : str) : outcome :=
  let '(s1, r1, a0) := lookup timeout now s P in
  let '(s2, rn) := getUserIdByName s1 name in
  match rn with
  | Ok _ => Out s2 false a0 false
  | Raise _ =>
    if negb (o_name o) then Out s2 false a0 false else
    let go (addmask : bool) :=
      let '(s3, id) := newUser s2 in
      (* except ValueError: users.delUser(user.id); raise *)
      let undo (s' : st) (e : exn) :=
        match first_handler gen.T04.REGISTER_HANDLERS e with
        | Some true => Out (fst (delUser s' id)) false a0 true
        | _ => Out s' false a0 true
        end in
      if addmask && negb (o_long o) then undo (store s3 id (User name [] [] false)) ValueError
      else
        let u := User name (if addmask then [P] else []) [] false in
        let '(s4, r4) := setUser timeout now (store s3 id u) id u in
        match r4 with Ok _ => Out s4 true a0 false | Raise e => undo s4 e end in
    match r1 with
    | Ok _ => if o_owner o then go false else Out s2 false a0 false
    | Raise KeyError => go true
    | Raise _ => Out s2 false a0 false
    end
  end.

(* user set secure: the sender's own account; the guard is
   user.checkPassword(password) and user.checkHostmask(msg.prefix, useAuth=False)
   (gen.T04.SECURE_GUARD_USEAUTH is the useAuth argument of that call) *)
Definition set_secure (u : user) (v : bool) : user := User (u_name u) (u_masks u) (u_auth u) v.
Definition cmd_secure (timeout now : Z) (o : oracle) (s : st) (P : str) (value : option bool) : outcome :=
  let '(s1, r1, a0) := lookup timeout now s P in
  match r1 with
  | Raise _ => Out s1 false a0 false
  | Ok uid =>
    match uget uid (s_users s1) with
    | None => Out s1 false a0 false
    | Some u =>
      let v := match value with Some b => b | None => negb (u_secure u) end in
      if negb (o_pw o) then Out s1 false a0 false else
      let '(u1, x) := checkHostmask false timeout now u P gen.T04.SECURE_GUARD_USEAUTH in
      let s2 := store s1 uid u1 in
      if truthy x then
        let u2 := set_secure u1 v in
        let '(s3, r3) := setUser timeout now (store s2 uid u2) uid u2 in
        match r3 with
        | Ok _ => Out s3 true a0 false
        | Raise e =>
            match first_handler gen.T04.SECURE_HANDLERS e, uget uid (s_users s3) with
            | Some true, Some u3 => Out (store s3 uid (set_secure u3 (u_secure u1))) false a0 true    (* user.secure = secure *)
            | _, _ => Out s3 false a0 true
            end
        end
      else Out s2 false a0 false
    end
  end.

Definition cmd_body (timeout now : Z) (o : oracle) (s : st) (P : str) (c : cmd) : outcome :=
  match c with
  | CAdd name mask => cmd_add timeout now o s P name mask
  | CRemove name mask => cmd_remove timeout now o s P name mask
  | CIdentify name => cmd_identify timeout now o s P name
  | CUnidentify => cmd_unidentify timeout now s P
  | CChangename name newname => cmd_changename timeout now o s P name newname
  | CRegister name => cmd_register timeout now o s P name
  | CSecure value => cmd_secure timeout now o s P value
  end.

(* sending the reply looks the sender up once more (reply options per user) *)
Definition run_cmd (timeout now : Z) (o : oracle) (s : st) (P : str) (c : cmd) : outcome :=
  let out := cmd_body timeout now o s P c in
  let '(s', _, a) := lookup timeout now (r_st out) P in
  Out s' (r_ok out) (r_amb out || a) (r_set out).

(* ---- Irc.doNick with supybot.followIdentificationThroughNickChanges (src/irclib.py):
   a client P that is recognised changes nick; its hostmask becomes newP.  For
   every entry (when, m) of a COPY of user.auth with strEqual(P, m) the entry is
   moved to newP (gen.T04.NICK_FOLLOW_REPLACES: replaced in place) and
   users.setUser(u) is called; a refusal of setUser ends the handler.
   [done ++ todo ++ extra] is user.auth, [todo] what the loop has not seen yet. *)
Fixpoint follow_loop (timeout now : Z) (id : N) (P newP : str) (done todo extra : list (Z * str)) (s : st)
  : st * res unit :=
  match todo with
  | [] => (s, Ok tt)
  | (w, m) :: rest =>
      if ieq P m then
        match uget id (s_users s) with
        | None => (s, Raise KeyError)
        | Some u =>
            let '(done', extra') :=
              if gen.T04.NICK_FOLLOW_REPLACES then (done ++ [(w, newP)], extra)
              else (done ++ [(w, m)], extra ++ [(w, newP)]) in
            let u' := set_auth u (done' ++ rest ++ extra') in
            let '(s', r) := setUser timeout now (store s id u') id u' in
            match r with
            | Ok _ => follow_loop timeout now id P newP done' rest extra' s'
            | Raise e => (s', Raise e)
            end
        end
      else follow_loop timeout now id P newP (done ++ [(w, m)]) rest extra s
  end.

Definition nickchange (timeout now : Z) (follow : bool) (s : st) (P newP : str) : st * res unit :=
  if negb follow then (s, Ok tt) else
  let '(s1, r) := getUserId timeout now s P in
  match r with
  | Raise KeyError => (s1, Ok tt)
  | Raise e => (s1, Raise e)
  | Ok id =>
      match uget id (s_users s1) with
      | None => (s1, Ok tt)
      | Some u => follow_loop timeout now id P newP [] (u_auth u) [] s1
      end
  end.

(* ---- wire ---- *)
Definition gAuth (v : value) : list (Z * str) := map (fun e => (gZ (nth_v 0 e), gS (nth_v 1 e))) (gL v).
Definition gUser (v : value) : user :=
  User (gS (nth_v 0 v)) (gLS (nth_v 1 v)) (gAuth (nth_v 2 v)) (gB (nth_v 3 v)).
Definition gSt (v : value) : st :=
  St (map (fun e => (gN (nth_v 0 e), gUser (nth_v 1 e))) (gL (nth_v 0 v)))
     (map (fun e => (gS (nth_v 0 e), gN (nth_v 1 e))) (gL (nth_v 1 v)))
     (map (fun e => (gN (nth_v 0 e), gLS (nth_v 1 e))) (gL (nth_v 2 v)))
     (map (fun e => (gS (nth_v 0 e), gN (nth_v 1 e))) (gL (nth_v 3 v)))
     (map (fun e => (gN (nth_v 0 e), gS (nth_v 1 e))) (gL (nth_v 4 v)))
     (gN (nth_v 5 v)).
Definition vUser (u : user) : value :=
  L [vS (u_name u); vLS (u_masks u); L (map (fun e => L [I (fst e); vS (snd e)]) (u_auth u)); vB (u_secure u)].
Definition vSt (s : st) : value :=
  L [L (map (fun e => L [vN (fst e); vUser (snd e)]) (s_users s));
     L (map (fun e => L [vS (fst e); vN (snd e)]) (s_hcache s));
     L (map (fun e => L [vN (fst e); vLS (snd e)]) (s_hrev s));
     L (map (fun e => L [vS (fst e); vN (snd e)]) (s_ncache s));
     L (map (fun e => L [vN (fst e); vS (snd e)]) (s_nrev s));
     vN (s_next s)].
Definition gOp (v : value) : op :=
  let a := nth_v 1 v in let b := nth_v 2 v in
  match gN (nth_v 0 v) with
  | 0 => OLookup (gS a)
  | 1 => OSet (gN a) (gUser b)
  | 2 => ODel (gN a)
  | 3 => ONew
  | 4 => OAuth (gN a) (gS b)
  | _ => OClear (gN a)
  end.

Definition gOracle (v : value) : oracle :=
  Oracle (gB (nth_v 0 v)) (gB (nth_v 1 v)) (gB (nth_v 2 v)) (gB (nth_v 3 v)) (gB (nth_v 4 v)).
Definition gCmd (v : value) : cmd :=
  let a := gS (nth_v 1 v) in let b := gS (nth_v 2 v) in
  match gN (nth_v 0 v) with
  | 0 => CAdd a b
  | 1 => CRemove a b
  | 2 => CIdentify a
  | 3 => CUnidentify
  | 4 => CChangename a b
  | 5 => CRegister a
  | _ => CSecure (match gN (nth_v 1 v) with 0 => Some false | 1 => Some true | _ => None end)
  end.

(* run (kind payload):
   0: (pattern hostmask) -> bool                       glob matcher
   1: (timeout now state op) -> (state' result)        one step
   2: (timeout now state hostmask) -> list of ids      cache-free recognisers
   4: (timeout now state prefix newprefix follow) -> (state' result)   a NICK message from prefix seen by the bot
   3: (timeout now state prefix cmd oracle) -> (state' ok ambiguous setuser-raised)   one User plugin command *)
Definition run (v : value) : value :=
  let p := nth_v 1 v in
  match gN (nth_v 0 v) with
  | 0 => vB (hmatch (gS (nth_v 0 p)) (gS (nth_v 1 p)))
  | 1 => let '(s', r) := step (gZ (nth_v 0 p)) (gZ (nth_v 1 p)) (gSt (nth_v 2 p)) (gOp (nth_v 3 p)) in
         L [vSt s'; vR vN r]
  | 2 => L (map vN (recognisers (gZ (nth_v 0 p)) (gZ (nth_v 1 p)) (gSt (nth_v 2 p)) (gS (nth_v 3 p))))
  | 4 => let '(s', r) := nickchange (gZ (nth_v 0 p)) (gZ (nth_v 1 p)) (gB (nth_v 5 p)) (gSt (nth_v 2 p)) (gS (nth_v 3 p)) (gS (nth_v 4 p)) in
         L [vSt s'; vR (fun _ => vN 0) r]
  | 3 => let out := run_cmd (gZ (nth_v 0 p)) (gZ (nth_v 1 p)) (gOracle (nth_v 5 p)) (gSt (nth_v 2 p)) (gS (nth_v 3 p)) (gCmd (nth_v 4 p)) in
         L [vSt (r_st out); vB (r_ok out); vB (r_amb out); vB (r_set out)]
  | _ => L []
  end.
