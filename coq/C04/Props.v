(* C04/Props.v — the property theorems, nothing else.
   Model: C04/Model.v.  Proofs: Glob.v, Sound.v, Assoc.v, Coherent.v. *)
From Coq Require Import List NArith ZArith Bool.
Import ListNotations.
Require Import Base.Wire Base.PyStr C04.Model C04.Glob C04.Sound C04.Coherent.
Require C03.Model.

(* The regex the code builds from a hostmask pattern decides exactly the
   declarative IRC glob semantics, for every pattern and hostmask. *)
Theorem C04_glob_correct : forall p h, gmatch p h = true <-> gsem p h.
Proof. exact gmatch_correct. Qed.
Print Assumptions C04_glob_correct.

(* Matching is invariant under rfc1459 case folding of pattern and hostmask
   (ASCII text; re.I is modelled for ASCII letters). *)
Theorem C04_glob_fold :
  forall pat h, is_ascii pat = true -> is_ascii h = true ->
  hmatch (C03.Model.fold pat) (C03.Model.fold h) = hmatch pat h.
Proof. exact hmatch_fold. Qed.
Print Assumptions C04_glob_fold.

(* A lookup that misses the cache answers id only if id is the one and only
   account recognising the hostmask (own mask, or unexpired login from exactly
   that hostmask), for every database, clock and timeout. *)
Theorem C04_sound :
  forall t now s h s' id,
    dict_get h (s_hcache s) = None -> getUserId t now s h = (s', Ok id) ->
    recognised_by t now s h = [id].
Proof. exact lookup_sound_miss. Qed.
Print Assumptions C04_sound.

(* A hostmask that two accounts recognise never resolves (cache miss): it raises. *)
Theorem C04_never_two :
  forall t now s h,
    dict_get h (s_hcache s) = None -> (1 < length (recognised_by t now s h))%nat ->
    exists e, snd (getUserId t now s h) = Raise e.
Proof. exact lookup_ambiguous_raises. Qed.
Print Assumptions C04_never_two.

(* Full statement of cache coherence:
     forall history, the answer of a lookup = the cache-free recomputation.
   The pinned code violates it (findings F5, F6, F22).  Proved: it holds for
   every history from the empty database on the domain "no login timeout and
   every lookup unambiguous when it happens" ... *)
Theorem C04_cache_coherent_on_domain :
  forall ops now h id,
    hist_ok init ops ->
    (length (recognised_by 0 now (run_ops init ops) h) <= 1)%nat ->
    snd (getUserId 0 now (run_ops init ops) h) = Ok id ->
    recognised_by 0 now (run_ops init ops) h = [id].
Proof. exact lookup_coherent_on_domain. Qed.
Print Assumptions C04_cache_coherent_on_domain.

(* ... the invariant behind it is preserved by every operation ... *)
Theorem C04_invariant_step :
  forall now s o, Inv s -> ids_bounded s -> op_ok now s o ->
  Inv (fst (step 0 now s o)) /\ ids_bounded (fst (step 0 now s o)).
Proof. exact step_preserves. Qed.
Print Assumptions C04_invariant_step.

(* ... and it fails outside the domain: (a) a login that expired is still
   answered from the cache, (b) overlapping glob masks of two accounts are
   accepted, (c) a login from a hostmask another account owns leaves the stale
   cached answer. *)
Theorem C04_cache_coherent_refuted :
  (exists s h id, snd (getUserId 10 1030 s h) = Ok id /\ recognised_by 10 1030 s h = []) /\
  (exists s h, recognised_by 0 1000 s h = [1%N; 2%N]) /\
  (exists s h, snd (getUserId 0 1000 s h) = Ok 1%N /\ recognised_by 0 1000 s h = [1%N; 2%N]).
Proof.
  split; [|split].
  - destruct expired_login_refuted as [A B]. eexists. eexists. eexists. split; [exact A|exact B].
  - pose proof overlap_refuted as H. cbv zeta in H.
    destruct (setUser 0 1000 _ 2 _) as [s2 r]. destruct H as [_ H]. eexists. eexists. exact H.
  - destruct login_vs_mask_refuted as [A B]. eexists. eexists. split; [exact A|exact B].
Qed.
Print Assumptions C04_cache_coherent_refuted.

(* A secure account accepts a login only from a hostmask one of its masks matches. *)
Theorem C04_secure :
  forall now u h u', u_secure u = true -> addAuth now u h = Ok u' -> mask_match u h = true.
Proof. exact secure_login. Qed.
Print Assumptions C04_secure.

Theorem C04_secure_refused :
  forall now u h, u_secure u = true -> mask_match u h = false -> addAuth now u h = Raise ValueError.
Proof. exact secure_login_refused. Qed.
Print Assumptions C04_secure_refused.
