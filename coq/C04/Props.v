(* C04/Props.v — the property theorems, nothing else.
   Model: C04/Model.v.  Proofs: Glob.v, Sound.v, Assoc.v, Prune.v, Shrink.v, Coherent.v, Cmd.v, Secure.v, Nick.v, Memo.v. *)
From Coq Require Import List NArith ZArith Bool.
Import ListNotations.
Require Import Base.Wire Base.PyStr C04.Model C04.Glob C04.Sound C04.Prune C04.Shrink C04.Coherent C04.Cmd C04.Secure C04.Nick C04.Memo.
Require C03.Model.

(* The regex the code builds from a hostmask pattern decides exactly the
   declarative IRC glob semantics, for every pattern and hostmask. *)
Theorem C04_glob_correct : forall p h, gmatch p h = true <-> gsem p h.
Proof. exact gmatch_correct. Qed.
Print Assumptions C04_glob_correct.

(* Matching is invariant under rfc1459 case folding of pattern and hostmask
   (ASCII text; re.I is modelled for ASCII letters). *)
Theorem C04_glob_fold :
  forall pat h, is_ascii pat = true -> is_ascii h = true ->
  hmatch (C03.Model.fold pat) (C03.Model.fold h) = hmatch pat h.
Proof. exact hmatch_fold. Qed.
Print Assumptions C04_glob_fold.

(* A lookup that misses the cache answers id only if id is the one and only
   account recognising the hostmask (own mask, or unexpired login from exactly
   that hostmask), for every database, clock and timeout. *)
Theorem C04_sound :
  forall t now s h s' id,
    dict_get h (s_hcache s) = None -> getUserId t now s h = (s', Ok id) ->
    recognised_by t now s h = [id].
Proof. exact lookup_sound_miss. Qed.
Print Assumptions C04_sound.

(* A hostmask that two accounts recognise never resolves (cache miss): it raises. *)
Theorem C04_never_two :
  forall t now s h,
    dict_get h (s_hcache s) = None -> (1 < length (recognised_by t now s h))%nat ->
    exists e, snd (getUserId t now s h) = Raise e.
Proof. exact lookup_ambiguous_raises. Qed.
Print Assumptions C04_never_two.

(* Recognised only via its own hostmasks or login, for EVERY state, clock and
   timeout, cached or not: an answer is an account that recognises the hostmask
   now, by one of its own masks or by a login from exactly that hostmask that
   has not timed out.  (Before the repair of F5 this held on cache misses only:
   C04_sound.) *)
Theorem C04_recognised_only :
  forall t now s h id,
    snd (getUserId t now s h) = Ok id ->
    exists u, In (id, u) (s_users s) /\ recog t now u h = true.
Proof. exact answer_recognised. Qed.
Print Assumptions C04_recognised_only.

(* ... and, for every state, the one account a cache-free recomputation finds
   is answered, and a hostmask nobody recognises is a KeyError: a stale cache
   entry never hides or invents an account. *)
Theorem C04_recomputed_is_answered :
  forall t now s h,
    (forall id, recognised_by t now s h = [id] -> snd (getUserId t now s h) = Ok id) /\
    (recognised_by t now s h = [] -> snd (getUserId t now s h) = Raise KeyError).
Proof. intros t now s h. exact (conj (lookup_complete t now s h) (lookup_unknown_any t now s h)). Qed.
Print Assumptions C04_recomputed_is_answered.

(* Full statement of cache coherence:
     forall timeout, history, clock: a lookup answers id  <->  a cache-free
     recomputation finds exactly id.
   With F5, F22 and the stale-cache half of F6 repaired it holds for every login
   timeout, every clock (monotone or not) and every history of
   newUser/setUser/delUser/identify/unidentify/lookups from the empty database,
   on the domain hist_ok: whenever setUser ACCEPTS (id, u), a hostmask that u's
   masks match and id's stored record did not recognise is recognised by no
   other account (set_dom: setUser's own overlap test is literal, finding F6,
   not repaired) ... *)
Theorem C04_cache_coherent_on_domain :
  forall t ops now h id,
    hist_ok t init ops ->
    (snd (getUserId t now (run_ops t init ops) h) = Ok id <->
     recognised_by t now (run_ops t init ops) h = [id]).
Proof. exact lookup_coherent_on_domain. Qed.
Print Assumptions C04_cache_coherent_on_domain.

(* ... the invariant behind it is preserved by every operation, and under it an
   answer is the only account recognising the hostmask ... *)
Theorem C04_invariant_step :
  forall t now s o, Inv s -> ids_bounded s -> op_ok t now s o ->
  Inv (fst (step t now s o)) /\ ids_bounded (fst (step t now s o)).
Proof. exact step_preserves. Qed.
Print Assumptions C04_invariant_step.

Theorem C04_invariant_unique :
  forall t now s h id, Inv s -> snd (getUserId t now s h) = Ok id -> recognised_by t now s h = [id].
Proof. exact answer_unique. Qed.
Print Assumptions C04_invariant_unique.

(* ... and it fails outside the domain: overlapping glob masks of two accounts
   [a*!*@* and *b!*@* ] are accepted by setUser, and ab!x@y, cached for account 1,
   is answered although accounts 1 and 2 both recognise it. *)
Theorem C04_cache_coherent_refuted :
  exists t ops now h id,
    ~ hist_ok t init ops /\
    snd (getUserId t now (run_ops t init ops) h) = Ok id /\
    recognised_by t now (run_ops t init ops) h <> [id].
Proof. exact coherent_refuted. Qed.
Print Assumptions C04_cache_coherent_refuted.

(* A secure account accepts a login only from a hostmask one of its masks matches. *)
Theorem C04_secure :
  forall now u h u', u_secure u = true -> addAuth now u h = Ok u' -> mask_match u h = true.
Proof. exact secure_login. Qed.
Print Assumptions C04_secure.

Theorem C04_secure_refused :
  forall now u h, u_secure u = true -> mask_match u h = false -> addAuth now u h = Raise ValueError.
Proof. exact secure_login_refused. Qed.
Print Assumptions C04_secure_refused.

(* ---- the command layer: the User plugin commands hostmask add / remove,
   identify, unidentify, changename, register (Model.run_cmd; which except
   clause catches what around users.setUser is the regenerated table gen.T04) ---- *)

(* A command that is REFUSED (anything but "The operation succeeded" / "Secure
   flag set to ...") leaves the user database exactly as it was: same accounts,
   names, masks, secure flags; same logins up to the lazy removal of expired
   ones.  For every reachable state (Inv), clock, timeout, sender, command
   (hostmask add / remove, identify, unidentify, changename, register, set
   secure), arguments and oracle, whatever refuses - the checks of the command
   or users.setUser, whose DuplicateHostmask reaches in every command a handler
   that puts the live account back (table T04; repairs of F23, F24, F26).  Only
   proviso (no_trace_dom): no lookup of the command ran the "Multiple matches"
   branch, whose removal of the offending hostmasks is the lookup's own,
   documented reaction to an ambiguous hostmask. *)
Theorem C04_refused_command_no_trace :
  forall t now o s P c,
    Inv s -> ids_bounded s ->
    let out := run_cmd t now o s P c in
    r_ok out = false -> no_trace_dom out ->
    same_db t now (s_users s) (s_users (r_st out)).
Proof. exact refused_no_trace. Qed.
Print Assumptions C04_refused_command_no_trace.

(* An ACCEPTED hostmask add keeps the invariant behind
   C04_cache_coherent_on_domain (so lookups after it still answer the one
   account a recomputation finds), on the domain where setUser's overlap test
   was sufficient for the edited account (set_dom at the point of the edit). *)
Theorem C04_accepted_add_keeps_invariant :
  forall t now o s P name mask,
    Inv s -> ids_bounded s ->
    r_ok (run_cmd t now o s P (CAdd name mask)) = true ->
    (forall s4 amb uid u1, add_prepare t now o s P name mask = PGo s4 amb uid u1 ->
                           set_dom s4 uid (set_masks u1 (iset_add mask (u_masks u1)))) ->
    Inv (r_st (run_cmd t now o s P (CAdd name mask))) /\ ids_bounded (r_st (run_cmd t now o s P (CAdd name mask))).
Proof. exact accepted_add_keeps_invariant. Qed.
Print Assumptions C04_accepted_add_keeps_invariant.

(* ---- "a 'secure' account additionally requires a matching registered mask" ---- *)

(* After ANY history of API operations (newUser, setUser, delUser, identify,
   clearAuth, lookups) and User plugin commands from the empty database - no
   domain - if a lookup answers id for h, the account recognises h now, and if
   it is secure one of its registered masks matches h.  (With the repair of F25
   the rule is applied by IrcUser.checkHostmask itself, so ...) *)
Theorem C04_secure_needs_mask_after_history :
  forall t ops now h id,
    snd (getUserId t now (hrun t init ops) h) = Ok id ->
    exists u, In (id, u) (s_users (hrun t init ops)) /\ recog t now u h = true /\
              (u_secure u = true -> mask_match u h = true).
Proof. exact secure_needs_mask_after_history. Qed.
Print Assumptions C04_secure_needs_mask_after_history.

(* ... it holds in every state whatsoever, reachable or not. *)
Theorem C04_secure_needs_mask :
  forall t now s h id,
    snd (getUserId t now s h) = Ok id ->
    exists u, In (id, u) (s_users s) /\ recog t now u h = true /\ (u_secure u = true -> mask_match u h = true).
Proof. exact secure_needs_mask_state. Qed.
Print Assumptions C04_secure_needs_mask.

(* ---- supybot.followIdentificationThroughNickChanges (Irc.doNick, src/irclib.py) ---- *)

(* "identified ... from that exact hostmask": when an identified client P changes
   nick and the bot follows (Model.nickchange; the way the login is moved is the
   regenerated table entry gen.T04.NICK_FOLLOW_REPLACES), the account's logins
   afterwards are the ones it had with P replaced by the new hostmask: as many
   as before, and none from the old hostmask (unless only the case changed), for
   every state, clock and timeout.  Whoever holds the old nick afterwards did
   not identify. *)
Theorem C04_nick_follow_moves_login :
  forall t now s P newP s' id u,
    nickchange t now true s P newP = (s', Ok tt) ->
    snd (getUserId t now s P) = Ok id ->
    nget id (s_users (fst (getUserId t now s P))) = Some u ->
    exists u', nget id (s_users s') = Some u' /\
               u_auth u' = map (moved P newP) (u_auth u) /\
               length (u_auth u') = length (u_auth u) /\
               (ieq P newP = false -> forall e, In e (u_auth u') -> ieq P (snd e) = false).
Proof. exact nick_follow_moves_login. Qed.
Print Assumptions C04_nick_follow_moves_login.

(* ---- the caches are CacheDicts that drop everything when they are full ---- *)

(* The model writes the two halves of a cached answer with CacheDict's eviction
   rule (table T04: size and __setitem__), so every theorem above that speaks of
   reachable states (Inv) covers the states in which the dictionary filled up
   between the two writes.  In all of them users.setUser refuses only with
   DuplicateHostmask - never with a KeyError out of invalidateCache (repair of
   C04.F28: the other half of an entry is removed with pop(key, None)). *)
Theorem C04_setUser_only_refuses :
  forall t now s id u e,
    CacheInv s -> snd (setUser t now s id u) = Raise e -> e = DuplicateHostmask.
Proof. exact setUser_only_refuses. Qed.
Print Assumptions C04_setUser_only_refuses.

(* ---- the memo layers of ircutils.hostmaskPatternEqual ---- *)

(* The public matcher keeps a compiled-pattern cache keyed by the pattern and a
   result cache keyed by (pattern, hostmask) (key expressions and sizes pinned by
   table T04; both drop everything when full).  For every sequence of lookups
   from empty caches every answer is the matcher's own: what was asked before
   never decides for a later hostmask. *)
Theorem C04_glob_memo :
  forall qs, memo_run [] [] qs = map (fun q => hmatch (fst q) (snd q)) qs.
Proof. exact memo_run_direct. Qed.
Print Assumptions C04_glob_memo.
