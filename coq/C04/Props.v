Require Import Base.Wire Base.PyStr C04.Model.
Theorem C04_stub : True. Proof. exact Logic.I. Qed.
Print Assumptions C04_stub.
