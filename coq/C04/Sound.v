(* C04/Sound.v — who recognises a hostmask; soundness of a lookup that misses
   the cache; secure accounts *)
From Coq Require Import List NArith ZArith Bool Lia.
Import ListNotations.
Require Import Base.Wire Base.PyStr C04.Model.
Open Scope N_scope.

Definition expired (t now w : Z) : bool := negb (Z.eqb t 0) && Z.ltb (w + t) now.

(* an unexpired login from exactly this hostmask *)
Definition live_auth (eqf : str -> str -> bool) (t now : Z) (u : user) (h : str) : bool :=
  existsb (fun e => negb (expired t now (fst e)) && eqf h (snd e)) (u_auth u).
(* one of the account's own masks matches *)
Definition mask_match (u : user) (h : str) : bool := existsb (fun p => hmatch p h) (u_masks u).
(* the property's notion of "sender h is account u": one of its masks matches,
   or it identified from exactly h and has not timed out - which, for a secure
   account, does not count without a matching mask *)
Definition recog (t now : Z) (u : user) (h : str) : bool :=
  (live_auth seq_eqb t now u h && negb (u_secure u)) || mask_match u h.

Lemma scan_auth_hit eqf t now h auth rem :
  fst (scan_auth eqf t now h auth rem) =
  existsb (fun e => negb (expired t now (fst e)) && eqf h (snd e)) auth.
Proof.
  revert rem. induction auth as [|[w m] auth IH]; intro rem; [reflexivity|].
  cbn [scan_auth existsb fst snd]. unfold expired at 1.
  destruct (negb (Z.eqb t 0) && Z.ltb (w + t) now); cbn [negb andb orb]; [apply IH|].
  destruct (eqf h m); cbn [orb]; [reflexivity|apply IH].
Qed.

Lemma first_match_truthy ms h : truthy (first_match ms h) = existsb (fun p => hmatch p h) ms.
Proof.
  induction ms as [|p ms IH]; [reflexivity|]. cbn [first_match existsb].
  destruct (hmatch p h); [reflexivity|exact IH].
Qed.

Lemma checkHostmask_truthy_gen istr t now u h :
  truthy (snd (checkHostmask istr t now u h true)) =
  live_auth (auth_eq istr u h) t now u h || mask_match u h.
Proof.
  unfold checkHostmask, live_auth, mask_match.
  rewrite <- (scan_auth_hit _ t now h (u_auth u) []).
  destruct (scan_auth (auth_eq istr u h) t now h (u_auth u) []) as [hit rem].
  cbn [fst]. destruct hit; cbn [snd orb]; [reflexivity|apply first_match_truthy].
Qed.

Lemma existsb_andb_const {A} (f : A -> bool) (c : bool) l : existsb (fun e => f e && c) l = existsb f l && c.
Proof.
  induction l as [|x l IH]; [reflexivity|]. cbn [existsb]. rewrite IH.
  destruct (f x), c, (existsb f l); reflexivity.
Qed.

Lemma live_auth_eq istr t now u h :
  live_auth (auth_eq istr u h) t now u h =
  live_auth (if istr then ieq else seq_eqb) t now u h && (negb (u_secure u) || mask_match u h).
Proof.
  unfold live_auth, auth_eq. rewrite first_match_truthy. fold (mask_match u h).
  rewrite <- existsb_andb_const. induction (u_auth u) as [|e l IH]; [reflexivity|].
  cbn [existsb]. rewrite IH, andb_assoc. reflexivity.
Qed.

Lemma checkHostmask_truthy t now u h :
  truthy (snd (checkHostmask false t now u h true)) = recog t now u h.
Proof.
  rewrite checkHostmask_truthy_gen, live_auth_eq. unfold recog. cbv iota.
  destruct (live_auth seq_eqb t now u h), (u_secure u), (mask_match u h); reflexivity.
Qed.

Lemma scan_users_ids t now h us :
  map fst (snd (scan_users t now h us)) =
  map fst (filter (fun iu => recog t now (snd iu) h) us).
Proof.
  induction us as [|[i u] us IH]; [reflexivity|].
  cbn [scan_users filter snd].
  pose proof (checkHostmask_truthy t now u h) as Ht.
  destruct (checkHostmask false t now u h true) as [u' x]. cbn [snd] in Ht.
  destruct (scan_users t now h us) as [r' ids]. cbn [snd] in *.
  rewrite <- Ht. destruct (truthy x); cbn [map fst]; rewrite IH; reflexivity.
Qed.

(* the accounts that recognise h, cache-free *)
Definition recognised_by (t now : Z) (s : st) (h : str) : list N :=
  map fst (filter (fun iu => recog t now (snd iu) h) (s_users s)).

Lemma recognisers_spec t now s h : recognisers t now s h = recognised_by t now s h.
Proof. apply scan_users_ids. Qed.

(* The recomputation (the `except KeyError:` body) answers id only if id is the
   one and only account recognising h (own mask or live login) ... *)
Lemma miss_sound t now s h id :
  snd (lookup_miss t now s h) = Ok id -> recognised_by t now s h = [id].
Proof.
  unfold lookup_miss, recognised_by. rewrite <- scan_users_ids.
  destruct (scan_users t now h (s_users s)) as [us ids]. cbn [snd].
  destruct ids as [|[j x] [|e r]].
  - discriminate.
  - destruct (hinsert h j (s_hcache s) (s_hrev s)). cbn [snd]. intro H. inversion H; subst. reflexivity.
  - destruct (remove_offending us ((j, x) :: e :: r)). discriminate.
Qed.

(* ... and it does answer id then *)
Lemma miss_complete t now s h id :
  recognised_by t now s h = [id] -> snd (lookup_miss t now s h) = Ok id.
Proof.
  unfold lookup_miss, recognised_by. rewrite <- scan_users_ids.
  destruct (scan_users t now h (s_users s)) as [us ids]. cbn [snd].
  destruct ids as [|[j x] [|e r]]; cbn [map fst]; intro H; inversion H. destruct (hinsert h id (s_hcache s) (s_hrev s)). reflexivity.
Qed.

Lemma miss_ambiguous t now s h :
  (1 < length (recognised_by t now s h))%nat -> exists e, snd (lookup_miss t now s h) = Raise e.
Proof.
  unfold lookup_miss, recognised_by. rewrite <- scan_users_ids.
  destruct (scan_users t now h (s_users s)) as [us ids]. cbn [snd].
  intro Hlen. destruct ids as [|[j x] [|e r]]; cbn [map length] in Hlen; try lia.
  destruct (remove_offending us ((j, x) :: e :: r)) as [us' ex]. eexists. reflexivity.
Qed.

Lemma miss_unknown t now s h :
  recognised_by t now s h = [] -> snd (lookup_miss t now s h) = Raise KeyError.
Proof.
  unfold lookup_miss, recognised_by. rewrite <- scan_users_ids.
  destruct (scan_users t now h (s_users s)) as [us ids]. cbn [snd].
  destruct ids; [reflexivity|discriminate].
Qed.

(* A lookup that misses the cache answers id only if id is the one and only
   account recognising h (own mask or live login): never two accounts. *)
Theorem lookup_sound_miss t now s h s' id :
  dict_get h (s_hcache s) = None ->
  getUserId t now s h = (s', Ok id) ->
  recognised_by t now s h = [id].
Proof.
  intros Hmiss H. unfold getUserId in H. rewrite Hmiss in H. apply miss_sound. rewrite H. reflexivity.
Qed.

(* and it raises rather than answer when several accounts recognise h *)
Theorem lookup_ambiguous_raises t now s h :
  dict_get h (s_hcache s) = None ->
  (1 < length (recognised_by t now s h))%nat ->
  exists e, snd (getUserId t now s h) = Raise e.
Proof.
  intros Hmiss Hlen. unfold getUserId. rewrite Hmiss. apply miss_ambiguous. exact Hlen.
Qed.

(* nobody recognises h -> KeyError *)
Theorem lookup_unknown t now s h :
  dict_get h (s_hcache s) = None -> recognised_by t now s h = [] ->
  snd (getUserId t now s h) = Raise KeyError.
Proof.
  intros Hmiss Hr. unfold getUserId. rewrite Hmiss. apply miss_unknown. exact Hr.
Qed.

(* a secure account accepts a login only from a hostmask matching one of its masks *)
Theorem secure_login now u h u' :
  u_secure u = true -> addAuth now u h = Ok u' -> mask_match u h = true.
Proof.
  unfold addAuth, mask_match. intros Hs H. rewrite Hs in H. rewrite first_match_truthy in H.
  cbn [negb] in H. rewrite orb_false_r in H.
  destruct (existsb (fun p => hmatch p h) (u_masks u)); [reflexivity|discriminate].
Qed.

Theorem secure_login_refused now u h :
  u_secure u = true -> mask_match u h = false -> addAuth now u h = Raise ValueError.
Proof.
  unfold addAuth, mask_match. intros Hs Hm. rewrite Hs, first_match_truthy, Hm. reflexivity.
Qed.

(* non-vacuity: a state where exactly one of two accounts recognises a hostmask *)
Example sound_example :
  let s := St [(1, User [117;49] [[97;42;33;42;64;42]] [] false); (2, User [117;50] [[122;33;122;64;122]] [] false)]
              [] [] [] [] 2 in
  recognised_by 0 1000 s [97;98;33;120;64;121] = [1] /\
  snd (getUserId 0 1000 s [97;98;33;120;64;121]) = Ok 1.
Proof. vm_compute. auto. Qed.
