(* C12/Plain.v — ircutils.wrap on text without formatting codes: the chunks fit
   and spell the munged text.  (Partial: the domain "no colour 0" of DESIGN.md
   is larger; formatted text is covered by the differential run only.) *)
From Coq Require Import List NArith ZArith Bool Lia ZifyBool Arith.
Import ListNotations.
Require Import Base.Wire Base.PyStr C12.Model C12.Wrap.
Open Scope N_scope.

Definition plain_char (c : N) : bool := negb (mem c [2; 3; 15; 22; 31]).
Definition no_fmt (s : str) : bool := forallb plain_char s.

Lemma plain_char_neq c : plain_char c = true ->
  (c =? 2) = false /\ (c =? 3) = false /\ (c =? 15) = false /\ (c =? 22) = false /\ (c =? 31) = false.
Proof.
  unfold plain_char, mem. cbn [existsb]. intro H. apply negb_true_iff in H.
  repeat (apply orb_false_iff in H as [? H]). repeat split; assumption.
Qed.

Lemma parse_go_plain fuel : forall c mx s,
  no_fmt s = true -> (length s < fuel)%nat -> parse_go fuel c mx s = Ok (c, mx).
Proof.
  induction fuel as [|f IH]; intros c mx s Hs Hl; [lia|].
  destruct s as [|ch s]; [reflexivity|]. cbn [no_fmt forallb] in Hs.
  apply andb_true_iff in Hs as [Hc Hs]. apply plain_char_neq in Hc as (H2 & H3 & H15 & H22 & H31).
  cbn [parse_go]. rewrite H2, H22, H31, H15, H3. apply IH; [exact Hs|cbn [length] in Hl; lia].
Qed.

Lemma parse_plain s : no_fmt s = true -> parse s = Ok (fc0, 0).
Proof. intro H. unfold parse. apply parse_go_plain; [exact H|lia]. Qed.

Lemma process_plain : forall chunks ctx,
  (ctx = None \/ ctx = Some fc0) -> Forall (fun c => no_fmt c = true) chunks ->
  process ctx chunks = Ok chunks.
Proof.
  induction chunks as [|ch rest IH]; intros ctx Hctx Hall; [reflexivity|].
  inversion Hall as [|? ? Hch Hrest]; subst. cbn [process].
  assert (E : match ctx with Some c => fstart c ch | None => ch end = ch)
    by (destruct Hctx; subst; reflexivity).
  rewrite E. rewrite (parse_plain ch Hch). cbn [bind fst].
  rewrite (IH (Some fc0)); [reflexivity|right; reflexivity|exact Hrest].
Qed.

(* the wrap loop only ever concatenates and cuts its words *)
Lemma no_fmt_app a b : no_fmt (a ++ b) = no_fmt a && no_fmt b.
Proof. apply forallb_app. Qed.

Lemma btw_loop_plain fuel : forall size words done cur ls,
  no_fmt cur = true -> Forall (fun c => no_fmt c = true) done ->
  Forall (fun c => no_fmt c = true) words ->
  btw_loop fuel size words done cur = Ok ls -> Forall (fun c => no_fmt c = true) ls.
Proof.
  induction fuel as [|f IH]; intros size words done cur ls Hc Hd Hw H; [discriminate|].
  cbn [btw_loop] in H. destruct words as [|word0 rest].
  - injection H as <-. change (Forall (fun c => no_fmt c = true) (rev (cur :: done))).
    apply Forall_rev. constructor; assumption.
  - inversion Hw as [|? ? Hw0 Hrest]; subst.
    destruct (size <? blen word0) eqn:Es.
    + pose proof (split_word_app size word0) as Happ.
      destruct (split_word size word0) as [word after]. cbn [fst snd] in Happ.
      rewrite <- Happ, no_fmt_app in Hw0. apply andb_true_iff in Hw0 as [Hb Ha].
      destruct word as [|w0 word']; [discriminate|]. cbn [andb] in H.
      destruct (blen cur + blen (w0 :: word') <=? size).
      * eapply IH; [| exact Hd | | exact H]; [rewrite no_fmt_app, Hc, Hb; reflexivity|constructor; assumption].
      * eapply IH; [| | | exact H]; [exact Hb|constructor; assumption|constructor; assumption].
    + cbn [andb] in H. destruct (blen cur + blen word0 <=? size).
      * eapply IH; [| exact Hd | exact Hrest | exact H]. rewrite no_fmt_app, Hc, Hw0. reflexivity.
      * eapply IH; [| | exact Hrest | exact H]; [exact Hw0|constructor; assumption].
Qed.

Lemma no_fmt_concat l : no_fmt (concat l) = true -> Forall (fun c => no_fmt c = true) l.
Proof.
  induction l as [|x l IH]; intro H; [constructor|]. cbn [concat] in H.
  rewrite no_fmt_app in H. apply andb_true_iff in H as [Hx Hl]. constructor; [exact Hx|apply IH; exact Hl].
Qed.

Lemma no_fmt_repeat n : no_fmt (repeat SPC n) = true.
Proof. induction n; [reflexivity|]. cbn [repeat no_fmt forallb]. exact IHn. Qed.

Lemma no_fmt_expandtabs s : forall col, no_fmt s = true -> no_fmt (expandtabs col s) = true.
Proof.
  induction s as [|c s IH]; intros col H; [reflexivity|]. cbn [no_fmt forallb] in H.
  apply andb_true_iff in H as [Hc Hs]. cbn [expandtabs].
  destruct (c =? 9).
  - rewrite no_fmt_app, no_fmt_repeat. apply IH. exact Hs.
  - destruct ((c =? 10) || (c =? 13)); cbn [no_fmt forallb]; rewrite Hc; apply IH; exact Hs.
Qed.

Lemma no_fmt_munge s : no_fmt s = true -> no_fmt (munge s) = true.
Proof.
  intro H. unfold munge. apply (no_fmt_expandtabs s 0) in H. revert H.
  generalize (expandtabs 0 s) as t. induction t as [|c t IH]; intro H; [reflexivity|].
  cbn [map]. unfold no_fmt in *. cbn [forallb] in *. apply andb_true_iff in H as [Hc Ht].
  apply andb_true_iff. split; [destruct (is_ws c); [reflexivity|exact Hc]|exact (IH Ht)].
Qed.

Theorem chunk_fits_on_plain : forall s (n : Z) ls,
  no_fmt s = true -> (4 <= n)%Z -> wrap s n = Ok ls ->
  Forall (fun c => (Z.of_nat (length (utf8 c)) <= n)%Z) ls /\ concat ls = munge s.
Proof.
  intros s n ls Hs Hn H. unfold wrap, wrap_w in H. rewrite (parse_plain s Hs) in H.
  cbn [bind snd] in H. change (Z.of_N 0) with 0%Z in H. rewrite Z.sub_0_r in H.
  destruct (byteTextWrap (split_chunks s) n) as [chunks|e] eqn:Eb; [|discriminate]. cbn [bind] in H.
  assert (Hall : Forall (fun c => no_fmt c = true) chunks).
  { pose proof Eb as Hb. apply byteTextWrap_inv in Hb.
    eapply btw_loop_plain in Hb; [exact Hb|reflexivity|constructor|].
    apply no_fmt_concat. unfold split_chunks. rewrite runs_concat. apply no_fmt_munge. exact Hs. }
  rewrite (process_plain chunks None (or_introl eq_refl) Hall) in H. injection H as <-.
  split; [eapply wrap_bytes; eassumption|eapply wrap_munge; eassumption].
Qed.

Example chunk_fits_plain_nonvacuous :
  no_fmt [104; 233; 108; 108; 111; 32; 9; 128512] = true /\
  wrap [104; 233; 108; 108; 111; 32; 9; 128512] 6 = Ok [[104; 233; 108; 108; 111]; [32; 32; 32]; [128512]].
Proof. split; vm_compute; reflexivity. Qed.
