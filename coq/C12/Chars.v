(* C12/Chars.v — facts that hold for every per-character predicate P with
   P ' ' = true: munging, the word splitter and the byteTextWrap loop only
   ever produce pieces of the text (so "no formatting code", "no \x01",
   "no surrogate" all carry over to every chunk); chunks are non-empty. *)
From Coq Require Import List NArith ZArith Bool Lia ZifyBool Arith.
Import ListNotations.
Require Import Base.Wire Base.PyStr C12.Model C12.Wrap.
Open Scope N_scope.

Section AllChars.
Variable P : N -> bool.
Hypothesis P_space : P SPC = true.

Definition allc (s : str) : bool := forallb P s.

Lemma allc_app a b : allc (a ++ b) = allc a && allc b.
Proof. apply forallb_app. Qed.

Lemma allc_concat l : allc (concat l) = true -> Forall (fun c => allc c = true) l.
Proof.
  induction l as [|x l IH]; intro H; [constructor|]. cbn [concat] in H.
  rewrite allc_app in H. apply andb_true_iff in H as [Hx Hl]. constructor; [exact Hx|apply IH; exact Hl].
Qed.

Lemma allc_concat_rev l : Forall (fun c => allc c = true) l -> allc (concat l) = true.
Proof.
  induction 1 as [|x l Hx _ IH]; [reflexivity|]. cbn [concat]. rewrite allc_app, Hx, IH. reflexivity.
Qed.

Lemma allc_repeat n : allc (repeat SPC n) = true.
Proof. induction n; [reflexivity|]. cbn [repeat allc forallb]. rewrite P_space. exact IHn. Qed.

Lemma allc_expandtabs s : forall col, allc s = true -> allc (expandtabs col s) = true.
Proof.
  induction s as [|c s IH]; intros col H; [reflexivity|]. cbn [allc forallb] in H.
  apply andb_true_iff in H as [Hc Hs]. cbn [expandtabs].
  destruct (c =? 9).
  - rewrite allc_app, allc_repeat. apply IH. exact Hs.
  - destruct ((c =? 10) || (c =? 13)); cbn [allc forallb]; rewrite Hc; apply IH; exact Hs.
Qed.

Lemma allc_munge s : allc s = true -> allc (munge s) = true.
Proof.
  intro H. unfold munge. apply (allc_expandtabs s 0) in H. revert H.
  generalize (expandtabs 0 s) as t. induction t as [|c t IH]; intro H; [reflexivity|].
  cbn [map]. unfold allc in *. cbn [forallb] in *. apply andb_true_iff in H as [Hc Ht].
  apply andb_true_iff. split; [destruct (is_ws c); [exact P_space|exact Hc]|exact (IH Ht)].
Qed.

Lemma allc_split_chunks s : allc s = true -> Forall (fun c => allc c = true) (split_chunks s).
Proof. intro H. apply allc_concat. unfold split_chunks. rewrite runs_concat. apply allc_munge. exact H. Qed.

Lemma allc_firstn n s : allc s = true -> allc (firstn n s) = true.
Proof.
  revert n. induction s as [|c s IH]; intros [|n] H; try reflexivity.
  cbn [firstn allc forallb] in *. apply andb_true_iff in H as [Hc Hs]. rewrite Hc. exact (IH n Hs).
Qed.

Lemma btw_loop_allc fuel : forall size words done cur ls,
  allc cur = true -> Forall (fun c => allc c = true) done ->
  Forall (fun c => allc c = true) words ->
  btw_loop fuel size words done cur = Ok ls -> Forall (fun c => allc c = true) ls.
Proof.
  induction fuel as [|f IH]; intros size words done cur ls Hc Hd Hw H; [discriminate|].
  cbn [btw_loop] in H. destruct words as [|word0 rest].
  - injection H as <-. change (Forall (fun c => allc c = true) (rev (cur :: done))).
    apply Forall_rev. constructor; assumption.
  - inversion Hw as [|? ? Hw0 Hrest]; subst.
    destruct (size <? blen word0) eqn:Es.
    + pose proof (split_word_app size word0) as Happ.
      destruct (split_word size word0) as [word after]. cbn [fst snd] in Happ.
      rewrite <- Happ, allc_app in Hw0. apply andb_true_iff in Hw0 as [Hb Ha].
      destruct word as [|w0 word']; [discriminate|]. cbn [andb] in H.
      destruct (blen cur + blen (w0 :: word') <=? size).
      * eapply IH; [| exact Hd | | exact H]; [rewrite allc_app, Hc, Hb; reflexivity|constructor; assumption].
      * eapply IH; [| | | exact H]; [exact Hb|constructor; assumption|constructor; assumption].
    + cbn [andb] in H. destruct (blen cur + blen word0 <=? size).
      * eapply IH; [| exact Hd | exact Hrest | exact H]. rewrite allc_app, Hc, Hw0. reflexivity.
      * eapply IH; [| | exact Hrest | exact H]; [exact Hw0|constructor; assumption].
Qed.

Lemma byteTextWrap_allc s n ls :
  allc s = true -> byteTextWrap (split_chunks s) n = Ok ls -> Forall (fun c => allc c = true) ls.
Proof.
  intros Hs H. apply byteTextWrap_inv in H.
  eapply btw_loop_allc in H; [exact H|reflexivity|constructor|apply allc_split_chunks; exact Hs].
Qed.
End AllChars.

(* ---------- chunks are never empty (unless the text is) ---------- *)
Definition nonnil (s : str) : Prop := s <> [].

Lemma runs_nonnil s : Forall nonnil (runs s).
Proof.
  induction s as [|c s IH]; [constructor|]. cbn [runs].
  destruct (runs s) as [|[|d w] rest] eqn:E.
  - constructor; [discriminate|constructor].
  - inversion IH as [|? ? H0 ?]; subst. exfalso. apply H0. reflexivity.
  - inversion IH as [|? ? _ Hr]; subst.
    destruct (Bool.eqb (c =? SPC) (d =? SPC)); constructor; try discriminate; try assumption.
Qed.

Lemma btw_loop_nonnil fuel : forall size words done cur ls,
  4 <= size -> Forall nonnil words -> Forall nonnil done -> (cur = [] -> done = []) ->
  btw_loop fuel size words done cur = Ok ls -> Forall nonnil ls \/ ls = [[]].
Proof.
  induction fuel as [|f IH]; intros size words done cur ls Hs4 Hw Hd Hc H; [discriminate|].
  cbn [btw_loop] in H. destruct words as [|word0 rest].
  - injection H as <-. destruct cur as [|c0 cur'].
    + right. rewrite (Hc eq_refl). reflexivity.
    + left. change (Forall nonnil (rev ((c0 :: cur') :: done))). apply Forall_rev.
      constructor; [discriminate|exact Hd].
  - inversion Hw as [|? ? Hw0 Hrest]; subst.
    destruct (size <? blen word0) eqn:Es.
    + pose proof (split_word_app size word0) as Happ. pose proof (split_word_le size word0 Hs4) as Hle.
      destruct (split_word size word0) as [word after]. cbn [fst snd] in Happ, Hle.
      destruct word as [|w0 word']; [discriminate|]. cbn [andb] in H.
      assert (Ha : nonnil after).
      { intro E. subst after. rewrite app_nil_r in Happ. subst word0. cbn [blen] in *. lia. }
      destruct (blen cur + blen (w0 :: word') <=? size) eqn:E.
      * eapply IH in H; [exact H|exact Hs4|constructor; assumption|exact Hd|].
        intro E2. destruct cur; discriminate.
      * eapply IH in H; [exact H|exact Hs4|constructor; assumption| |discriminate].
        constructor; [|exact Hd]. intro E2. subst cur. cbn [blen] in *. lia.
    + cbn [andb] in H. destruct (blen cur + blen word0 <=? size) eqn:E.
      * eapply IH in H; [exact H|exact Hs4|exact Hrest|exact Hd|].
        intro E2. destruct cur; [cbn in E2; subst; exfalso; apply Hw0; reflexivity|discriminate].
      * eapply IH in H; [exact H|exact Hs4|exact Hrest| |intro E2; subst; exfalso; apply Hw0; reflexivity].
        constructor; [|exact Hd]. intro E2. subst cur. cbn [blen] in *. lia.
Qed.

Lemma munge_nonnil s : s <> [] -> munge s <> [].
Proof.
  destruct s as [|c s]; [congruence|]. intros _. unfold munge. cbn [expandtabs].
  destruct (c =? 9).
  - assert (H : exists n, N.to_nat (8 - 0 mod 8) = S n) by (exists 7%nat; reflexivity).
    destruct H as [n ->]. cbn. discriminate.
  - destruct ((c =? 10) || (c =? 13)); cbn; discriminate.
Qed.

Lemma byteTextWrap_nonnil s n ls :
  (4 <= n)%Z -> s <> [] -> byteTextWrap (split_chunks s) n = Ok ls -> Forall nonnil ls.
Proof.
  intros Hn4 Hs H. pose proof (wrap_munge _ _ _ H) as Hc. apply byteTextWrap_inv in H.
  eapply btw_loop_nonnil in H; [|lia|apply runs_nonnil|constructor|reflexivity].
  destruct H as [H|H]; [exact H|]. subst ls. cbn in Hc. exfalso. exact (munge_nonnil s Hs (eq_sym Hc)).
Qed.

(* ---------- surrogates ---------- *)
Definition not_sur (c : N) : bool := negb (is_surrogate c).

Lemma has_surrogate_allc s : has_surrogate s = false <-> allc not_sur s = true.
Proof.
  unfold has_surrogate, allc, not_sur. induction s as [|c s IH]; cbn [existsb forallb]; [tauto|].
  rewrite orb_false_iff, andb_true_iff, negb_true_iff, IH. tauto.
Qed.

Lemma words_no_surrogate s : has_surrogate s = false -> existsb has_surrogate (split_chunks s) = false.
Proof.
  intro H. apply has_surrogate_allc in H. apply (allc_split_chunks not_sur eq_refl) in H.
  induction H as [|w l Hw _ IH]; [reflexivity|]. cbn [existsb].
  apply has_surrogate_allc in Hw. rewrite Hw, IH. reflexivity.
Qed.
