(* C12/FmtEndToEnd.v — the composed statement for formatted text under the
   safe-cut predicate: the lines relayed for a reply with mIRC formatting
   (first message + successive `more` outputs) each fit 512 bytes, are one per
   chunk in order with the right remaining count, and the visible text of the
   chunks (each stripped on its own) is the visible text of the reply. *)
From Coq Require Import List NArith ZArith Bool Lia ZifyBool Arith.
Import ListNotations.
Require Import Base.Wire Base.PyStr C12.Model C12.Wrap C12.More C12.Fits C12.Plain C12.Chars C12.Total
  C12.Parser C12.Format C12.Visible C12.EndToEnd.
Open Scope N_scope.

(* ---------- what wrap() adds around a chunk contains no \x01 and leaves the chunk in place ---------- *)
Lemma no1_digit x : no1 (48 + x) = true.
Proof. unfold no1. apply negb_true_iff. apply N.eqb_neq. lia. Qed.

Lemma no1_str2 n : allc no1 (str2 n) = true.
Proof. unfold str2. destruct (n <? 10); cbn [allc forallb]; rewrite ?no1_digit; reflexivity. Qed.

Lemma no1_zfill2 n : allc no1 (zfill2 n) = true.
Proof.
  unfold zfill2. destruct (n <? 10); [|apply no1_str2].
  cbn [allc forallb]. rewrite no1_digit. reflexivity.
Qed.

Lemma no1_fstart c : allc no1 (fstart c []) = true.
Proof.
  unfold fstart, allc. destruct (fbold c), (frev c), (ful c), (fg c) as [f|], (bg c) as [b|];
    repeat (cbn [forallb app]; rewrite ?forallb_app);
    change (forallb no1) with (allc no1); rewrite ?no1_str2, ?no1_zfill2; reflexivity.
Qed.

Definition wrapped (r o : str) : Prop :=
  exists pre post, o = pre ++ r ++ post /\ allc no1 pre = true /\ allc no1 post = true.

Lemma fend_wrapped c p : exists post, fend c p = p ++ post /\ allc no1 post = true.
Proof. unfold fend. destruct (factive c); [exists [15]|exists []; rewrite app_nil_r]; split; reflexivity. Qed.

Lemma process_wrapped : forall todo ctx ls, process ctx todo = Ok ls -> Forall2 wrapped todo ls.
Proof.
  induction todo as [|r rest IH]; intros ctx ls Hp; cbn [process] in Hp.
  - injection Hp as <-. constructor.
  - destruct (parse _) as [[c1 m1]|]; [|discriminate]. cbn [bind fst] in Hp.
    destruct (process (Some c1) rest) as [tl|] eqn:Et; [|discriminate]. cbn [bind] in Hp. injection Hp as <-.
    constructor; [|exact (IH _ _ Et)].
    destruct ctx as [c|].
    + destruct (fend_wrapped c1 (fstart c r)) as (post & E & Hpost). rewrite E, fstart_app.
      exists (fstart c []), post. rewrite <- app_assoc. repeat split; [apply no1_fstart|exact Hpost].
    + destruct (fend_wrapped c1 r) as (post & E & Hpost). rewrite E. exists [], post. repeat split. exact Hpost.
Qed.

Lemma wrapped_facts r o : wrapped r o -> allc no1 r = true -> r <> [] -> allc no1 o = true /\ o <> [].
Proof.
  intros (pre & post & -> & Hpre & Hpost) Hr Hne. split.
  - rewrite !allc_app, Hpre, Hr, Hpost. reflexivity.
  - destruct pre; [destruct r; [congruence|discriminate]|discriminate].
Qed.

(* ---------- the domain ---------- *)
(* non-empty text without \x01 whose only blanks are spaces; splitting on; at least one chunk allowed; the
   chunk length not larger than the room of the line; the formatting overhead plus 4 bytes fit the chunk
   budget; no cut in front of a digit or a comma (safe_cuts, on the text actually split and the chunk
   budget); at most 100 chunks *)
Definition fmt_dom (k : cfg) (s0 : str) : bool :=
  let text := reply_text k s0 in
  let budget := (allowed_length k - Z.of_N (more_reserve k))%Z in
  words_ok k && nonempty s0 && allc no1 s0 && munged s0 && c_mores k && (1 <=? c_maximum k) &&
  (4 + Z.of_N (more_reserve k) <=? allowed_length k)%Z && (allowed_length k <=? line_room k)%Z &&
  match parse text with Ok (_, mx) => (Z.of_N mx + 4 <=? budget)%Z | Raise _ => false end &&
  safe_cuts text budget &&
  match reply_chunks k s0 with Ok chunks => (length chunks <=? 100)%nat | Raise _ => true end.

Theorem reply_fmt_end_to_end : forall k s0 sent L number times,
  fmt_dom k s0 = true -> reply k s0 = Ok (sent, L) -> 1 <= number -> (length L <= times)%nat ->
  let lines := sent ++ concat (mores_go times L number) in
  let text := reply_text k s0 in
  exists chunks,
    lines = lines_of k chunks
    /\ Forall (good_line k) lines
    /\ concat (map visible chunks) = visible text
    /\ (forall c, In c chunks -> c <> [] /\ exists pre post, visible text = pre ++ visible c ++ post)
    /\ (exists m, text = firstn m s0)
    /\ ((Z.of_nat (length s0) <= allowed_length k * Z.of_N (c_maximum k))%Z -> text = s0).
Proof.
  intros k s0 sent L number times Hdom Hr Hn Hl lines text.
  unfold fmt_dom in Hdom. fold text in Hdom. cbv zeta in Hdom.
  repeat (apply andb_true_iff in Hdom as [Hdom ?]).
  rename H into Hcount, H0 into Hsafe, H1 into Hmx, H2 into Hroom, H3 into H25, H4 into Hmax, H5 into Hmores,
         H6 into Hmu0, H7 into H10, H8 into Hne0.
  assert (Hwords : words_ok k = true) by (unfold words_ok; rewrite Hdom, H9; reflexivity).
  apply Z.leb_le in Hroom, H25. apply N.leb_le in Hmax.
  destruct (more_sequence k s0 sent L number times Hr Hn Hl) as (chunks & Hc & Hlines).
  rewrite Hc in Hcount. apply Nat.leb_le in Hcount.
  destruct (reply_text_firstn k s0 ltac:(lia)) as (m & Hm & Hfull & Hnn).
  assert (Htne : text <> []) by (apply Hnn; [destruct s0; discriminate|lia|exact Hmax]).
  assert (Ht1 : allc no1 text = true) by (unfold text; rewrite Hm; apply (allc_firstn no1); exact H10).
  assert (Htm : munged text = true) by (unfold text; rewrite Hm; apply (allc_firstn (fun c => negb (mem c [9; 10; 11; 12; 13]))); exact Hmu0).
  unfold reply_chunks in Hc. fold text in Hc.
  destruct (has_surrogate text) eqn:Hsur; [discriminate|].
  rewrite Hmores in Hc. cbn [negb] in Hc. rewrite orb_false_r in Hc.
  assert (Hgoal : Forall (fun c => allc no1 c = true /\ c <> []) chunks /\ Forall (good_line k) (annot k 0 chunks)
                  /\ concat (map visible chunks) = visible text).
  { destruct (Z.of_N (blen text) <=? allowed_length k)%Z eqn:Efit.
    - injection Hc as <-. apply Z.leb_le in Efit. split; [constructor; [split; assumption|constructor]|].
      split; [|cbn; apply app_nil_r]. cbn [annot length Nat.add N.of_nat N.eqb]. constructor; [|constructor].
      apply payload_good; try assumption. lia.
    - destruct (parse text) as [[cF mx]|] eqn:Ep; [|discriminate]. apply Z.leb_le in Hmx.
      pose proof (fmt_chunk_fits text _ cF mx chunks Htne Htm Ep Hmx Hsafe Hc) as Hf.
      pose proof (fmt_visible_text text _ cF mx chunks Htne Htm Ep Hmx Hsafe Hc) as Hv.
      (* the raw chunks, to know that the processed ones are non-empty and free of \x01 *)
      pose proof Hc as Hw. unfold wrap, wrap_w in Hw. rewrite Ep in Hw. cbn [bind snd] in Hw.
      destruct (byteTextWrap (split_chunks text) _) as [raw|] eqn:Eb; [|discriminate]. cbn [bind] in Hw.
      pose proof (process_wrapped raw None chunks Hw) as Hwr.
      pose proof (byteTextWrap_nonnil text (allowed_length k - Z.of_N (more_reserve k) - Z.of_N mx) raw ltac:(lia) Htne Eb) as Hnn'.
      pose proof (byteTextWrap_allc no1 eq_refl text _ raw Ht1 Eb) as H1raw.
      assert (Hshape : Forall (fun c => allc no1 c = true /\ c <> []) chunks).
      { clear - Hwr Hnn' H1raw. induction Hwr as [|r o raw ls Hro _ IH]; [constructor|].
        inversion Hnn' as [|? ? Hr Hn']; subst. inversion H1raw as [|? ? H1 H1']; subst.
        constructor; [exact (wrapped_facts r o Hro H1 Hr)|exact (IH Hn' H1')]. }
      split; [exact Hshape|]. split; [|exact Hv].
      apply (annot_good k (allowed_length k - Z.of_N (more_reserve k))); [exact Hwords|exact Hcount|lia|].
      rewrite Forall_forall in *. intros c Hin. destruct (Hshape c Hin) as [A B]. specialize (Hf c Hin).
      cbv beta in Hf. rewrite <- utf8_len. repeat split; try assumption. lia. }
  destruct Hgoal as (Hch & Hgood & Hv).
  exists chunks. unfold lines. rewrite Hlines.
  split; [apply (annot_lines k Hwords); exact Hch|]. split; [exact Hgood|]. split; [exact Hv|].
  split; [|split; [exists m; exact Hm|exact Hfull]].
  intros c Hin. split; [rewrite Forall_forall in Hch; exact (proj2 (Hch c Hin))|].
  rewrite <- Hv. apply in_concat_piece. apply in_map. exact Hin.
Qed.

(* ---------- non-vacuity: a coloured multi-byte reply in the domain, 3 lines ---------- *)
Definition s_fmt_demo : str :=
  [3; 52] ++ concat (repeat [8364; 8364; 8364; 8364; 8364; 32] 40) ++ [2] ++ concat (repeat [233; 233; 233; 233; 32] 60) ++ [15; 101; 110; 100].

Example fmt_end_to_end_nonvacuous :
  fmt_dom k_demo s_fmt_demo = true /\
  exists sent L, reply k_demo s_fmt_demo = Ok (sent, L) /\ length sent = 1%nat /\ length L = 2%nat.
Proof. split; [vm_compute; reflexivity|]. eexists. eexists. split; [vm_compute; reflexivity|]. split; reflexivity. Qed.
