(* C12/EndToEnd.v — the composed statement for plain text: whatever the
   prefix/target/nick, channel or query, and the mores settings, the lines the
   bot relays for a reply without control codes (first message + successive
   `more` outputs) each fit 512 bytes, are one per chunk in order with the right
   remaining count, and the chunks are contiguous non-empty pieces that spell
   the (whitespace-munged) text. *)
From Coq Require Import List NArith ZArith Bool Lia ZifyBool Arith.
Import ListNotations.
Require Import Base.Wire Base.PyStr C12.Model C12.Wrap C12.More C12.Fits C12.Plain C12.Chars C12.Total.
Open Scope N_scope.

(* ---------- plain text ---------- *)
(* no CTCP delimiter and none of the codes FormatParser reacts to *)
Definition plain_c (c : N) : bool := negb (mem c [1; 2; 3; 15; 22; 31]).
Definition plain_text (s : str) : bool := forallb plain_c s.
Definition no1 (c : N) : bool := negb (c =? 1).

Lemma plain_text_no_fmt s : plain_text s = true -> no_fmt s = true.
Proof.
  unfold plain_text, no_fmt. induction s as [|c s IH]; [reflexivity|]. cbn [forallb].
  intro H. apply andb_true_iff in H as [Hc Hs]. rewrite (IH Hs), andb_true_r.
  unfold plain_c, plain_char, mem in *. cbn [existsb] in *.
  apply negb_true_iff in Hc. apply negb_true_iff.
  repeat (apply orb_false_iff in Hc as [? Hc]). repeat (apply orb_false_iff; split; try assumption).
Qed.

Lemma plain_text_no1 s : plain_text s = true -> allc no1 s = true.
Proof.
  unfold plain_text, allc. induction s as [|c s IH]; [reflexivity|]. cbn [forallb].
  intro H. apply andb_true_iff in H as [Hc Hs]. rewrite (IH Hs), andb_true_r.
  unfold plain_c, no1, mem in *. cbn [existsb] in *.
  apply negb_true_iff in Hc. apply negb_true_iff. apply orb_false_iff in Hc as [Hc _]. exact Hc.
Qed.

(* ---------- (2) ircutils.wrap on text without formatting codes: the full statement ---------- *)
Theorem wrap_plain : forall s (n : Z),
  no_fmt s = true -> has_surrogate s = false -> (4 <= n)%Z ->
  exists ls, wrap s n = Ok ls
             /\ byteTextWrap (split_chunks s) n = Ok ls
             /\ Forall (fun c => (Z.of_nat (length (utf8 c)) <= n)%Z) ls
             /\ concat ls = munge s
             /\ (s <> [] -> Forall (fun c => c <> []) ls).
Proof.
  intros s n Hs Hsur Hn.
  destruct (wrap_total (split_chunks s) n (words_no_surrogate s Hsur)) as [ls Eb].
  exists ls. assert (Hw : wrap s n = Ok ls).
  { unfold wrap, wrap_w. rewrite (parse_plain s Hs). cbn [bind snd].
    change (Z.of_N 0) with 0%Z. rewrite Z.sub_0_r, Eb. cbn [bind].
    apply process_plain; [left; reflexivity|].
    exact (byteTextWrap_allc plain_char eq_refl s n ls Hs Eb). }
  split; [exact Hw|]. split; [exact Eb|].
  destruct (chunk_fits_on_plain s n ls Hs Hn Hw) as [Hf Hc].
  split; [exact Hf|]. split; [exact Hc|].
  intro Hne. exact (byteTextWrap_nonnil s n ls Hn Hne Eb).
Qed.

(* ---------- strip('\x01') and _makeReply on such payloads ---------- *)
Lemma last_char_in s c : last_char s = Some c -> In c s.
Proof.
  unfold last_char. destruct (rev s) as [|d r] eqn:E; [discriminate|]. intro H. injection H as <-.
  apply in_rev. rewrite E. left. reflexivity.
Qed.

Lemma strip1_id s : allc no1 s = true -> strip [1] s = s.
Proof.
  intro H. unfold strip.
  assert (Hl : lstrip [1] s = s).
  { destruct s as [|c s]; [reflexivity|]. cbn [allc forallb] in H. apply andb_true_iff in H as [Hc _].
    cbn [lstrip mem existsb]. unfold no1 in Hc. apply negb_true_iff in Hc. rewrite Hc. reflexivity. }
  rewrite Hl. apply rstrip_id. destruct (last_char s) as [c|] eqn:E; [|exact Logic.I].
  apply last_char_in in E. unfold allc in H. rewrite forallb_forall in H. specialize (H c E).
  unfold no1 in H. apply negb_true_iff in H. cbn [mem existsb]. rewrite H. reflexivity.
Qed.

(* the line the bot hands to the driver for a payload *)
Definition line_of (k : cfg) (p : str) : str :=
  cmd_of k ++ [32] ++ real_target k ++ [32; 58] ++ (nick_prefix k ++ p) ++ [13; 10].

Lemma makeReply_line k p : allc no1 p = true -> p <> [] -> makeReply k p = line_of k p.
Proof.
  intros H Hne. unfold makeReply, line_of. rewrite (strip1_id p H).
  destruct p; [congruence|reflexivity].
Qed.

(* one line per chunk; all but the last announce how many follow *)
Fixpoint lines_of (k : cfg) (chunks : list str) : list str :=
  match chunks with
  | [] => []
  | c :: rest =>
      let n := N.of_nat (length rest) in
      line_of k (if n =? 0 then c else c ++ suffix k n n) :: lines_of k rest
  end.

Lemma dec_go_no1 fuel : forall n acc, allc no1 acc = true -> allc no1 (dec_go fuel n acc) = true.
Proof.
  induction fuel as [|f IH]; intros n acc H; [exact H|]. cbn [dec_go].
  assert (H1 : allc no1 ((48 + n mod 10) :: acc) = true).
  { cbn [allc forallb]. fold (allc no1 acc). rewrite H, andb_true_r. unfold no1. apply negb_true_iff. apply N.eqb_neq. generalize (n mod 10). intro x. lia. }
  destruct (n / 10 =? 0); [exact H1|apply IH; exact H1].
Qed.

(* the translated words contain no \x01 *)
Definition words_ok (k : cfg) : bool := allc no1 (c_one k) && allc no1 (c_many k).

Lemma suffix_no1 k i n : words_ok k = true -> allc no1 (suffix k i n) = true.
Proof.
  intro H. apply andb_true_iff in H as [H1 H2].
  unfold suffix. rewrite !allc_app. unfold dec. rewrite (dec_go_no1 _ n [] eq_refl).
  destruct (i =? 1); rewrite ?H1, ?H2; reflexivity.
Qed.

Lemma annot_lines k : words_ok k = true -> forall chunks,
  Forall (fun c => allc no1 c = true /\ c <> []) chunks -> annot k 0 chunks = lines_of k chunks.
Proof.
  intro Hw. induction 1 as [|c rest [Hc Hne] _ IH]; [reflexivity|]. cbn [annot lines_of Nat.add]. rewrite IH. f_equal.
  destruct (N.of_nat (length rest) =? 0); [apply makeReply_line; assumption|].
  apply makeReply_line; [rewrite allc_app, Hc, (suffix_no1 k _ _ Hw); reflexivity|destruct c; [congruence|discriminate]].
Qed.

(* ---------- a payload within the room: the line fits and takeMsg leaves it alone ---------- *)
Lemma T_irclib_max : gen.T12.IRCLIB_MAX_LINE_SIZE = 512. Proof. reflexivity. Qed.

Lemma fits_untruncated k l : line_fits k l = true -> truncate_msg l = l.
Proof.
  unfold line_fits, relayed, truncate_msg. rewrite T_line_max, T_irclib_max. intro H. apply N.leb_le in H.
  cbn [blen] in H. rewrite blen_app in H. cbn [blen] in H.
  assert (E : (512 <? blen l) = false) by lia. rewrite E. reflexivity.
Qed.

Definition good_line (k : cfg) (l : str) : Prop := line_fits k l = true /\ truncate_msg l = l.

Lemma payload_good k p :
  allc no1 p = true -> p <> [] -> (Z.of_N (blen p) <= line_room k)%Z -> good_line k (makeReply k p).
Proof.
  intros H1 Hne Hp. assert (Hf : line_fits k (makeReply k p) = true).
  { apply line_fits_room; [|exact Hp]. rewrite (strip1_id p H1). destruct p; [congruence|reflexivity]. }
  split; [exact Hf|apply (fits_untruncated k); exact Hf].
Qed.

Lemma annot_good k (budget : Z) : words_ok k = true -> forall chunks,
  (length chunks <= 100)%nat -> (budget + Z.of_N (more_reserve k) <= line_room k)%Z ->
  Forall (fun c => allc no1 c = true /\ c <> [] /\ (Z.of_N (blen c) <= budget)%Z) chunks ->
  Forall (good_line k) (annot k 0 chunks).
Proof.
  intros Hw chunks Hlen Hb Hall. induction Hall as [|c rest (H1 & Hne & Hc) _ IH]; [constructor|].
  cbn [length] in Hlen. cbn [annot Nat.add]. constructor; [|apply IH; lia].
  destruct (N.of_nat (length rest) =? 0) eqn:E.
  - apply payload_good; try assumption. lia.
  - apply payload_good.
    + rewrite allc_app, H1, (suffix_no1 k _ _ Hw). reflexivity.
    + destruct c; [congruence|discriminate].
    + rewrite blen_app.
      pose proof (suffix_reserve_on_domain k (N.of_nat (length rest)) ltac:(lia)). lia.
Qed.

(* ---------- pieces ---------- *)
Lemma in_concat_piece (c : str) l : In c l -> exists pre post, concat l = pre ++ c ++ post.
Proof.
  induction l as [|x l IH]; [intros []|]. intros [->|H].
  - exists [], (concat l). reflexivity.
  - destruct (IH H) as (pre & post & E). exists (x ++ pre), post. cbn [concat]. rewrite E, app_assoc. reflexivity.
Qed.

(* ---------- the domain ---------- *)
(* the translated 'more message(s)' words contain no \x01; plain non-empty text; splitting switched on; at least one chunk allowed; the chunk budget is at
   least 4 bytes after the reserve (byteTextWrap terminates) and not larger than the room of the line
   (always true when mores.length = 0); at most 99 messages pending (the "(XX more messages)" text
   provides for two digits). *)
Definition plain_dom (k : cfg) (s0 : str) : bool :=
  words_ok k && plain_text s0 && nonempty s0 && c_mores k && (1 <=? c_maximum k) &&
  (4 + Z.of_N (more_reserve k) <=? allowed_length k)%Z && (allowed_length k <=? line_room k)%Z &&
  match reply_chunks k s0 with Ok chunks => (length chunks <=? 100)%nat | Raise _ => true end.

Lemma reply_text_firstn k s0 :
  (0 <= allowed_length k)%Z ->
  exists m, reply_text k s0 = firstn m s0 /\
            ((Z.of_nat (length s0) <= allowed_length k * Z.of_N (c_maximum k))%Z -> reply_text k s0 = s0) /\
            (s0 <> [] -> (1 <= allowed_length k)%Z -> 1 <= c_maximum k -> reply_text k s0 <> []).
Proof.
  intro Ha. unfold reply_text. set (maxlen := (allowed_length k * Z.of_N (c_maximum k))%Z).
  assert (Hm : (0 <= maxlen)%Z) by (unfold maxlen; lia).
  destruct (maxlen <? Z.of_nat (length s0))%Z eqn:E.
  - unfold slice_to. assert (E2 : (maxlen <? 0)%Z = false) by lia. rewrite E2.
    exists (Z.to_nat maxlen). split; [reflexivity|]. split; [lia|].
    intros Hne H1 Hmax. assert (Hp : (1 <= maxlen)%Z) by (unfold maxlen; nia).
    destruct s0 as [|c s0]; [congruence|]. destruct (Z.to_nat maxlen) eqn:E3; [lia|]. cbn. discriminate.
  - exists (length s0). rewrite firstn_all. split; [reflexivity|]. split; [reflexivity|]. intros Hne _ _. exact Hne.
Qed.

(* ---------- (1) the end-to-end theorem ---------- *)
Theorem reply_plain_end_to_end : forall k s0 sent L number times,
  plain_dom k s0 = true -> reply k s0 = Ok (sent, L) -> 1 <= number -> (length L <= times)%nat ->
  let lines := sent ++ concat (mores_go times L number) in
  let text := reply_text k s0 in
  exists chunks,
    lines = lines_of k chunks
    /\ Forall (good_line k) lines
    /\ (chunks = [text] \/ concat chunks = munge text)
    /\ (forall c, In c chunks -> c <> [] /\ exists pre post, concat chunks = pre ++ c ++ post)
    /\ (exists m, text = firstn m s0)
    /\ ((Z.of_nat (length s0) <= allowed_length k * Z.of_N (c_maximum k))%Z -> text = s0).
Proof.
  intros k s0 sent L number times Hdom Hr Hn Hl lines text.
  unfold plain_dom in Hdom. repeat (apply andb_true_iff in Hdom as [Hdom ?]).
  rename H into Hcount, H0 into Hroom, H1 into H25, H2 into Hmax, H3 into Hmores, H4 into Hne0, H5 into Hplain.
  assert (Hwords : words_ok k = true) by (unfold words_ok; rewrite Hdom, H6; reflexivity).
  apply Z.leb_le in Hroom, H25. apply N.leb_le in Hmax.
  destruct (more_sequence k s0 sent L number times Hr Hn Hl) as (chunks & Hc & Hlines).
  rewrite Hc in Hcount. apply Nat.leb_le in Hcount.
  destruct (reply_text_firstn k s0 ltac:(lia)) as (m & Hm & Hfull & Hnn).
  assert (Htne : text <> []).
  { apply Hnn; [destruct s0; [discriminate|discriminate]|lia|exact Hmax]. }
  assert (Htp : plain_text text = true).
  { unfold text. rewrite Hm. apply (allc_firstn plain_c). exact Hplain. }
  pose proof (plain_text_no1 text Htp) as Ht1. pose proof (plain_text_no_fmt text Htp) as Htf.
  unfold reply_chunks in Hc. fold text in Hc.
  destruct (has_surrogate text) eqn:Hsur; [discriminate|].
  rewrite Hmores in Hc. cbn [negb] in Hc. rewrite orb_false_r in Hc.
  assert (Hgoal : Forall (fun c => allc no1 c = true /\ c <> []) chunks /\ Forall (good_line k) (annot k 0 chunks)
                  /\ (chunks = [text] \/ concat chunks = munge text)).
  { destruct (Z.of_N (blen text) <=? allowed_length k)%Z eqn:Efit.
    - injection Hc as <-. apply Z.leb_le in Efit. split; [constructor; [split; assumption|constructor]|].
      split; [|left; reflexivity]. cbn [annot length Nat.add N.of_nat N.eqb]. constructor; [|constructor].
      apply payload_good; try assumption. lia.
    - destruct (wrap_plain text (allowed_length k - Z.of_N (more_reserve k)) Htf Hsur) as (ls & Hw & Hb & Hf & Hcat & Hnil).
      { lia. }
      rewrite Hw in Hc. injection Hc as <-.
      assert (H1 : Forall (fun c => allc no1 c = true) ls) by exact (byteTextWrap_allc no1 eq_refl text _ ls Ht1 Hb).
      specialize (Hnil Htne).
      assert (Hall : Forall (fun c => allc no1 c = true /\ c <> [] /\
                     (Z.of_N (blen c) <= allowed_length k - Z.of_N (more_reserve k))%Z) ls).
      { rewrite Forall_forall in *. intros c Hin. specialize (H1 c Hin). specialize (Hnil c Hin). specialize (Hf c Hin).
        cbv beta in Hf. rewrite <- utf8_len. repeat split; try assumption. lia. }
      split; [eapply Forall_impl; [|exact Hall]; intros c (A & B & _); split; assumption|].
      split; [apply (annot_good k (allowed_length k - Z.of_N (more_reserve k))); [exact Hwords|exact Hcount|lia|exact Hall]|].
      right. exact Hcat. }
  destruct Hgoal as (Hch & Hgood & Hb).
  exists chunks. unfold lines. rewrite Hlines.
  split; [apply (annot_lines k Hwords); exact Hch|]. split; [exact Hgood|]. split; [exact Hb|].
  split; [|split; [exists m; exact Hm|exact Hfull]].
  intros c Hin. split; [|apply in_concat_piece; exact Hin].
  rewrite Forall_forall in Hch. exact (proj2 (Hch c Hin)).
Qed.

(* on the domain the reply is always produced (no lone surrogate: str.encode would raise) *)
Theorem reply_plain_total : forall k s0,
  plain_dom k s0 = true -> has_surrogate s0 = false -> exists sent L, reply k s0 = Ok (sent, L).
Proof.
  intros k s0 Hdom Hsur0. unfold plain_dom in Hdom. repeat (apply andb_true_iff in Hdom as [Hdom ?]).
  rename H0 into Hroom, H1 into H25, H2 into Hmax, H3 into Hmores, H4 into Hne0, H5 into Hplain.
  apply Z.leb_le in Hroom, H25.
  destruct (reply_text_firstn k s0 ltac:(lia)) as (m & Hm & _ & _).
  assert (Hsur : has_surrogate (reply_text k s0) = false).
  { rewrite Hm. apply has_surrogate_allc. apply (allc_firstn not_sur). apply has_surrogate_allc. exact Hsur0. }
  assert (Htf : no_fmt (reply_text k s0) = true).
  { apply plain_text_no_fmt. rewrite Hm. apply (allc_firstn plain_c). exact Hplain. }
  unfold reply. fold (reply_text k s0). rewrite Hsur.
  destruct ((Z.of_N (blen (reply_text k s0)) <=? allowed_length k)%Z || negb (c_mores k)); [eexists; eexists; reflexivity|].
  destruct (wrap_plain (reply_text k s0) (allowed_length k - Z.of_N (more_reserve k)) Htf Hsur) as (ls & Hw & _).
  { lia. }
  rewrite Hw. cbn [bind].
  destruct (instant_loop _ _ _ _) as [msgs1 sent1]. destruct (pop msgs1) as [[m1 L1]|]; eexists; eexists; reflexivity.
Qed.

(* ---------- (4) non-vacuity: a 1200-byte multi-byte text, in the domain, split into 3 chunks ---------- *)
Definition k_demo : cfg :=                     (* bot b!u@h answers nick "a" in channel #c, default settings *)
  Cfg [98; 33; 117; 64; 104] [35; 99] [97] true true true true 0 50 1 false false None false false false gen.T12.MORE_ONE gen.T12.MORE_MANY.
Definition s_demo : str := concat (repeat [8364; 8364; 8364; 8364; 8364; 32] 75).    (* 75 x "€€€€€ " *)

Example end_to_end_nonvacuous :
  blen s_demo = 1200 /\ plain_dom k_demo s_demo = true /\ has_surrogate s_demo = false /\
  exists sent L, reply k_demo s_demo = Ok (sent, L) /\ length sent = 1%nat /\ length L = 2%nat /\
                 Forall (fun l => line_fits k_demo l = true) (sent ++ rev L).
Proof.
  split; [vm_compute; reflexivity|]. split; [vm_compute; reflexivity|]. split; [vm_compute; reflexivity|].
  eexists. eexists. split; [vm_compute; reflexivity|]. split; [reflexivity|]. split; [reflexivity|].
  repeat constructor.
Qed.
