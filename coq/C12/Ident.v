(* C12/Ident.v — irc.prefix, the hostmask reply() sizes its chunks for, is the
   hostmask the server prepends: once the bot has seen one message of its own
   (its JOIN), it stays equal to nick!user@host through any number of renames
   and of messages from other users. *)
From Coq Require Import List NArith Bool Lia.
Import ListNotations.
Require Import Base.Wire Base.PyStr C12.Model.
Open Scope N_scope.

(* what the server does, seen from the bot: U and H are the bot's user and host *)
Inductive sact : Type :=
| SOwn                              (* a message of the bot itself comes back (JOIN, PART, MODE, echo) *)
| SRename (new : str)               (* the bot is renamed *)
| SOther (n u h : str)              (* a message from somebody else *)
| SOtherNick (n u h new : str).     (* somebody else is renamed *)

(* the server's name for the bot, the event the bot receives *)
Definition srv_step (U H : str) (N : str) (a : sact) : str * sev :=
  match a with
  | SOwn => (N, EvMsg N U H)
  | SRename new => (new, EvNick N U H new)
  | SOther n u h => (N, EvMsg n u h)
  | SOtherNick n u h new => (N, EvNick n u h new)
  end.

(* other users never carry the bot's current nick *)
Fixpoint others_ok (N : str) (acts : list sact) : Prop :=
  match acts with
  | [] => True
  | a :: r =>
      match a with
      | SOther n _ _ | SOtherNick n _ _ _ => n <> N
      | _ => True
      end /\ others_ok (fst (srv_step [] [] N a)) r
  end.

Fixpoint srv_run (U H : str) (N : str) (st : ident) (acts : list sact) : str * ident :=
  match acts with
  | [] => (N, st)
  | a :: r => let (N', ev) := srv_step U H N a in srv_run U H N' (ident_step st ev) r
  end.

Definition seen_own (acts : list sact) : bool :=
  existsb (fun a => match a with SOwn | SRename _ => true | _ => false end) acts.

Lemma feed_fix_own st U H : feed_fix st (i_nick st) U H = ID (i_nick st) (hostmask (i_nick st) U H).
Proof.
  unfold feed_fix. rewrite seq_eqb_refl. cbn [andb].
  destruct (seq_eqb (i_prefix st) (hostmask (i_nick st) U H)) eqn:E; cbn [negb]; [|reflexivity].
  apply seq_eqb_eq in E. destruct st as [n p]. cbn in *. subst. reflexivity.
Qed.

Lemma feed_fix_other st n u h : n <> i_nick st -> feed_fix st n u h = st.
Proof. intro Hn. unfold feed_fix. apply seq_eqb_neq in Hn. rewrite Hn. reflexivity. Qed.

Lemma srv_step_name U H N a : fst (srv_step U H N a) = fst (srv_step [] [] N a).
Proof. destruct a; reflexivity. Qed.

Theorem prefix_tracks : forall U H acts N st known,
  i_nick st = N -> (known = true -> i_prefix st = hostmask N U H) -> others_ok N acts ->
  let (N', st') := srv_run U H N st acts in
  i_nick st' = N' /\ (known || seen_own acts = true -> i_prefix st' = hostmask N' U H).
Proof.
  intros U H acts. induction acts as [|a r IH]; intros N st known Hn Hk Hok.
  - cbn [srv_run seen_own existsb]. rewrite orb_false_r. split; assumption.
  - cbn [others_ok] in Hok. destruct Hok as [Ha Hr]. cbn [srv_run].
    pose proof (srv_step_name U H N a) as Hname.
    destruct (srv_step U H N a) as [N1 ev] eqn:Es. cbn [fst] in Hname. rewrite <- Hname in Hr.
    destruct a as [|new|n u h|n u h new]; cbn [srv_step] in Es; injection Es as <- <-.
    + (* own message *)
      specialize (IH N (ident_step st (EvMsg N U H)) true). cbn [ident_step] in *.
      rewrite <- Hn in *. rewrite feed_fix_own in *. cbn [seen_own existsb orb]. rewrite orb_true_r.
      apply IH; [reflexivity|intros _; reflexivity|exact Hr].
    + (* renamed *)
      specialize (IH new (ident_step st (EvNick N U H new)) true). cbn [ident_step] in *.
      rewrite <- Hn in *. rewrite feed_fix_own in *. cbn [i_nick] in *. rewrite seq_eqb_refl in *.
      cbn [seen_own existsb orb]. rewrite orb_true_r.
      apply IH; [reflexivity|intros _; reflexivity|exact Hr].
    + (* somebody else's message *)
      specialize (IH N (ident_step st (EvMsg n u h)) known). cbn [ident_step] in *.
      rewrite feed_fix_other in * by congruence. cbn [seen_own existsb orb].
      apply IH; assumption.
    + (* somebody else's NICK *)
      specialize (IH N (ident_step st (EvNick n u h new)) known). cbn [ident_step] in *.
      rewrite feed_fix_other in * by congruence.
      assert (E : seq_eqb n (i_nick st) = false) by (apply seq_eqb_neq; congruence). rewrite E in *.
      cbn [seen_own existsb orb]. apply IH; assumption.
Qed.

(* the bot joins as N0, is renamed twice: irc.prefix is the hostmask of the last nick *)
Example prefix_tracks_example :
  srv_run [117] [104] [98] (ID [98] [98; 33; 105; 64; 120]) [SOwn; SRename [98; 111; 116]; SOther [97] [97] [97]; SRename [122]]
  = ([122], ID [122] (hostmask [122] [117] [104])).
Proof. reflexivity. Qed.
